import Flurry.Lemmas.BinGNDrainDefs
/-! # Proto/BinGN, termination: calm steps (port of `Lemmas/BinGDrainCalm.lean`)

New: the forwarding hops (`lt_tabs_of_moved`: a marker is only found in an allocated generation, so `T - g` strictly
decreases), and the resizing thread's choice of a cell at `xNext` — calm only if the cell it is handed is not yet
forwarded (hypothesis `hpk` of `KMove.calm`, discharged from the `pick` restriction of `QStep`).

A *calm* step — a load, a lock / unlock of a node or of a bin mutex, a local move, a return without a
store — leaves the `View` of the shared state alone (`viewOf s' = viewOf s`, heap length unchanged) and
strictly decreases the calm-step measure `pmV` of the thread that takes it, without increasing the
number of disturbing steps it has ahead (`daV`) nor the number of allocations it may still perform (`growV`). -/
namespace Flurry.Proto.BinGNP
open Flurry.Lin
open Flurry.Proto.BinK (nodeAt binAt lockSet isInsert NextOK nodeAt_of_some nodeAt_modify binAt_modify)

/-- arithmetic on the constant tables `grow`, `daPc` -/
local macro "tbl" : tactic =>
  `(tactic| first | exact Nat.le_refl _ | exact Nat.zero_le _ | (simp only [daV, daPc, grow, growV] <;> omega))

theorem lockSet_next (heap : List NodeS) (h : Nat) (x : Option Nat) (i : Nat) :
    (nodeAt (lockSet heap h x) i).next = (nodeAt heap i).next := by
  unfold lockSet
  rw [nodeAt_modify]
  split <;> rfl

theorem lockSet_length (heap : List NodeS) (h : Nat) (x : Option Nat) : (lockSet heap h x).length = heap.length := by
  unfold lockSet; rw [List.length_modify]

/-- a transition that changes at most one lock word of a node leaves the view alone -/
theorem view_of_lockKind {s s' : State} {t : Nat} {pc pc' : Pc} {hp : List NodeS} (hk : LockKind s t pc pc' hp)
    (hh : s'.heap = hp) (ht : s'.tbins = s.tbins) (h0 : s'.tabs = s.tabs) (hc : s'.cur = s.cur) : viewOf s' = viewOf s ∧ s'.heap.length = s.heap.length := by
  have : hp.length = s.heap.length ∧ ∀ i, (nodeAt hp i).next = (nodeAt s.heap i).next := by
    rcases hk with ⟨rfl, _⟩ | ⟨h, rfl, _⟩ | ⟨h, rfl, _⟩
    · exact ⟨rfl, fun _ => rfl⟩
    · exact ⟨lockSet_length _ _ _, lockSet_next _ _ _⟩
    · exact ⟨lockSet_length _ _ _, lockSet_next _ _ _⟩
  refine ⟨viewOf_eq h0 hc (fun i => by rw [hh]; exact this.2 i) (fun b => by rw [ht]) (fun b => by rw [ht])
    (fun b => by rw [ht]), by rw [hh]; exact this.1⟩

/-- a transition that changes only the mutex of one `TreeBin` leaves the view alone -/
theorem view_of_mutex {s s' : State} {b : Nat} {x : Option Nat} (hh : s'.heap = s.heap)
    (ht : s'.tbins = s.tbins.modify b (fun y => { y with mutex := x })) (h0 : s'.tabs = s.tabs)
    (hc : s'.cur = s.cur) :
    viewOf s' = viewOf s ∧ s'.heap.length = s.heap.length := by
  refine ⟨viewOf_eq h0 hc (fun i => by rw [hh]) ?_ ?_ ?_, by rw [hh]⟩ <;>
    (intro c; rw [ht, binAt_modify]; split <;> rfl)

theorem lt_fresh {T n k : Nat} (g : Nat) (h : k ≤ 2 * n + 11) : k < fresh T n g := by
  unfold fresh; omega

/-- only an allocated generation holds a forwarding marker -/
theorem lt_tabs_of_moved {s : State} {g k : Nat} (h : cellOf s g k = .moved) : g < s.tabs.length := by
  apply Classical.byContradiction
  intro hn
  have : s.tabs.getD g [] = [] := by
    rw [List.getD_eq_getElem?_getD, List.getElem?_eq_none (by omega)]; rfl
  unfold Flurry.Proto.BinGN.cellOf Flurry.Proto.BinGN.cellAt at h
  rw [this] at h
  cases h

/-- the calm moves of a thread with a call -/
theorem Move.calm {s : State} {t : Nat} {p : Pending} {pc pc' : Pc} {hp : List NodeS}
    (hm : Move s t p pc pc' hp) (H : HInv s) {L : Nat} (hL : s.heap.length ≤ L)
    (hcas : ∀ b c r, pc = .rCas b c r → casOk s b r = false) :
    pc' ≠ .idle ∧ growV (viewOf s) ⟨pc', some p⟩ ≤ growV (viewOf s) ⟨pc, some p⟩ ∧ daV (viewOf s) ⟨pc', some p⟩ ≤ daV (viewOf s) ⟨pc, some p⟩ ∧
      pmV L (viewOf s) ⟨pc', some p⟩ < pmV L (viewOf s) ⟨pc, some p⟩ := by
  have hrk : ∀ {c : Nat} {n : NodeS} {j : Nat}, s.heap[c]? = some n → n.next = some j →
      rankL L (viewOf s).next j < rankL L (viewOf s).next c := fun hn hx => rankL_lt H.nextOK hL hn hx
  have hr2 : ∀ {c : Nat}, c < s.heap.length → rankL L (viewOf s).next c ≤ 2 * L :=
    fun hc => rankL_le_two _ (by omega)
  cases hm with
  | rTable =>
    refine ⟨(by intro e; cases e), by tbl, by tbl, ?_⟩
    show 4 * L + 8 + (s.tabs.length - s.cur) < 4 * L + 10 + s.tabs.length
    omega
  | @rCellMoved lo tab hc =>
    have := lt_tabs_of_moved hc
    refine ⟨(by intro e; cases e), by tbl, by tbl, ?_⟩
    show 4 * L + 8 + (s.tabs.length - (tab + 1)) < 4 * L + 8 + (s.tabs.length - tab)
    omega
  | @rCellList lo tab h hc =>
    have := hr2 (cellOf_list_lt H hc)
    refine ⟨(by intro e; cases e), by tbl, by tbl, ?_⟩
    show rankL L (viewOf s).next h + 2 < 4 * L + 8 + (s.tabs.length - tab)
    omega
  | @rCellTree lo tab b hc =>
    cases lo
    · refine ⟨(by intro e; cases e), by tbl, by tbl, ?_⟩
      show 4 * L + 7 < 4 * L + 8 + (s.tabs.length - tab)
      omega
    · refine ⟨(by intro e; cases e), by tbl, by tbl, ?_⟩
      show 2 * L + 3 < 4 * L + 8 + (s.tabs.length - tab)
      omega
  | @rNodeNext c n hn hk =>
    refine ⟨(by intro e; cases e), by tbl, by tbl, ?_⟩
    cases hx : n.next with
    | none =>
      show 1 < rankL L (viewOf s).next c + 2
      omega
    | some j =>
      have := hrk hn hx
      show rankL L (viewOf s).next j + 2 < rankL L (viewOf s).next c + 2
      omega
  | @rFirst b =>
    refine ⟨(by intro e; cases e), by tbl, by tbl, ?_⟩
    cases hf : (binAt s.tbins b).first with
    | none =>
      show 1 < 4 * L + 7
      omega
    | some h =>
      have := hr2 (H.firstOK b h hf)
      show 2 * rankL L (viewOf s).next h + 6 < 4 * L + 7
      omega
  | @rLinMode b c _ =>
    refine ⟨(by intro e; cases e), by tbl, by tbl, ?_⟩
    show 2 * rankL L (viewOf s).next c + 5 < 2 * rankL L (viewOf s).next c + 6
    omega
  | @rTreeMode b c hbits =>
    refine ⟨(by intro e; cases e), by tbl, by tbl, ?_⟩
    have hw : (binAt s.tbins b).writer = false ∧ (binAt s.tbins b).waiter = false := by
      cases hw : (binAt s.tbins b).writer <;> cases ha : (binAt s.tbins b).waiter <;> simp_all
    have hok : casOk s b (binAt s.tbins b).readers = true := by
      unfold casOk; rw [hw.1, hw.2]; simp
    show (if casOk s b (binAt s.tbins b).readers = true then 4 else 2 * rankL L (viewOf s).next c + 7) <
      2 * rankL L (viewOf s).next c + 6
    rw [if_pos hok]; omega
  | @rLinNext b c n hn hk =>
    refine ⟨(by intro e; cases e), by tbl, by tbl, ?_⟩
    cases hx : n.next with
    | none =>
      show 1 < 2 * rankL L (viewOf s).next c + 5
      omega
    | some j =>
      have := hrk hn hx
      show 2 * rankL L (viewOf s).next j + 6 < 2 * rankL L (viewOf s).next c + 5
      omega
  | @rLinHit b c n _ _ _ =>
    refine ⟨(by intro e; cases e), by tbl, by tbl, ?_⟩
    show 1 < 2 * rankL L (viewOf s).next c + 5
    omega
  | @rCasFail b c r =>
    refine ⟨(by intro e; cases e), by tbl, by tbl, ?_⟩
    show 2 * rankL L (viewOf s).next c + 6 < (if casOk s b r = true then 4 else 2 * rankL L (viewOf s).next c + 7)
    rw [hcas b c r rfl]
    simp
  | rTree =>
    refine ⟨(by intro e; cases e), by tbl, by tbl, ?_⟩
    show 2 < 3
    omega
  | @lFirst b =>
    refine ⟨(by intro e; cases e), by tbl, by tbl, ?_⟩
    cases hf : (binAt s.tbins b).first with
    | none =>
      show 1 < 2 * L + 3
      omega
    | some h =>
      have := hr2 (H.firstOK b h hf)
      show rankL L (viewOf s).next h + 2 < 2 * L + 3
      omega
  | @lNext c n hn hk =>
    refine ⟨(by intro e; cases e), by tbl, by tbl, ?_⟩
    cases hx : n.next with
    | none =>
      show 1 < rankL L (viewOf s).next c + 2
      omega
    | some j =>
      have := hrk hn hx
      show rankL L (viewOf s).next j + 2 < rankL L (viewOf s).next c + 2
      omega
  | @lHit c n _ _ _ =>
    refine ⟨(by intro e; cases e), by tbl, by tbl, ?_⟩
    show 1 < rankL L (viewOf s).next c + 2
    omega
  | wTable =>
    refine ⟨(by intro e; cases e), by tbl, by tbl, ?_⟩
    show fresh s.tabs.length L s.cur < 2 * L + 14 + s.tabs.length
    unfold fresh; omega
  | @wCellMoved tab hc =>
    have := lt_tabs_of_moved hc
    refine ⟨(by intro e; cases e), by tbl, by tbl, ?_⟩
    show fresh s.tabs.length L (tab + 1) < fresh s.tabs.length L tab
    unfold fresh; omega
  | @wCellCas tab hc hi =>
    refine ⟨(by intro e; cases e), by tbl, by tbl, ?_⟩
    show (if cellOf s tab p.key = .empty ∧ isInsert p.op = true then 1 else 1 + fresh s.tabs.length L tab) < fresh s.tabs.length L tab
    rw [if_pos ⟨hc, hi⟩]
    exact lt_fresh tab (by omega)
  | @wCellList tab h hc =>
    refine ⟨(by intro e; cases e), by tbl, by tbl, ?_⟩
    show (if cellOf s tab p.key = .list h then 2 * L + 6 else 3 + fresh s.tabs.length L tab) < fresh s.tabs.length L tab
    rw [if_pos hc]
    exact lt_fresh tab (by omega)
  | @wCellTree tab b hc =>
    refine ⟨(by intro e; cases e), by tbl, by tbl, ?_⟩
    show (if cellOf s tab p.key = .tree b then 10 else 3 + fresh s.tabs.length L tab) < fresh s.tabs.length L tab
    rw [if_pos hc]
    exact lt_fresh tab (by omega)
  | @wCasFail tab hor =>
    refine ⟨(by intro e; cases e), by tbl, by tbl, ?_⟩
    show fresh s.tabs.length L tab < (if cellOf s tab p.key = .empty ∧ isInsert p.op = true then 1 else 1 + fresh s.tabs.length L tab)
    rw [if_neg]
    · omega
    · rintro ⟨h1, h2⟩
      rcases hor with h | h
      · exact h h1
      · rw [h] at h2; cases h2
  | @wLock tab h n hn hlk =>
    refine ⟨(by intro e; cases e), by tbl, by tbl, ?_⟩
    show (if cellOf s tab p.key = .list h then 2 * L + 5 else 2 + fresh s.tabs.length L tab) <
      (if cellOf s tab p.key = .list h then 2 * L + 6 else 3 + fresh s.tabs.length L tab)
    split <;> omega
  | @wCheckOk tab h hc =>
    have := hr2 (cellOf_list_lt H hc)
    refine ⟨(by intro e; cases e), by tbl, by tbl, ?_⟩
    show rankL L (viewOf s).next h + 4 < (if cellOf s tab p.key = .list h then 2 * L + 5 else 2 + fresh s.tabs.length L tab)
    rw [if_pos hc]
    omega
  | @wCheckFail tab h hc =>
    refine ⟨(by intro e; cases e), by tbl, by tbl, ?_⟩
    show 1 + fresh s.tabs.length L tab < (if cellOf s tab p.key = .list h then 2 * L + 5 else 2 + fresh s.tabs.length L tab)
    rw [if_neg hc]
    omega
  | wFindEnd =>
    refine ⟨(by intro e; cases e), by tbl, by tbl, ?_⟩
    show 2 < 3
    omega
  | @wFindHit tab h pred c n hn hk =>
    refine ⟨(by intro e; cases e), by tbl, by tbl, ?_⟩
    show 2 < rankL L (viewOf s).next c + 4
    omega
  | @wFindNext tab h pred c n hn hk =>
    refine ⟨(by intro e; cases e), by tbl, by tbl, ?_⟩
    cases hx : n.next with
    | none =>
      show 3 < rankL L (viewOf s).next c + 4
      omega
    | some j =>
      have := hrk hn hx
      show rankL L (viewOf s).next j + 4 < rankL L (viewOf s).next c + 4
      omega
  | @wUnlockRetry tab h res =>
    refine ⟨(by intro e; cases e), by tbl, by tbl, ?_⟩
    show fresh s.tabs.length L tab < 1 + fresh s.tabs.length L tab
    omega
  | @tCheckOk tab b hc =>
    refine ⟨(by intro e; cases e), by tbl, by tbl, ?_⟩
    show 8 < (if cellOf s tab p.key = .tree b then 9 else 2 + fresh s.tabs.length L tab)
    rw [if_pos hc]; omega
  | @tCheckFail tab b hc =>
    refine ⟨(by intro e; cases e), by tbl, by tbl, ?_⟩
    show 1 + fresh s.tabs.length L tab < (if cellOf s tab p.key = .tree b then 9 else 2 + fresh s.tabs.length L tab)
    rw [if_neg hc]; omega
  | findVal _ _ =>
    refine ⟨(by intro e; cases e), by tbl, by tbl, ?_⟩
    show 2 < 8
    omega
  | findInsert _ _ =>
    refine ⟨(by intro e; cases e), by tbl, by tbl, ?_⟩
    show 7 < 8
    omega
  | findRemove _ _ =>
    refine ⟨(by intro e; cases e), by tbl, by tbl, ?_⟩
    show 7 < 8
    omega
  | findDone _ =>
    refine ⟨(by intro e; cases e), by tbl, by tbl, ?_⟩
    show 1 < 8
    omega
  | @lrTryFail tab b k res =>
    refine ⟨(by intro e; cases e), by tbl, ?_, ?_⟩
    · show 4 + (if (viewOf s).waiter b = true then 0 else 1) ≤ 5
      split <;> omega
    · show 5 < 7
      omega

/-- the calm moves of the treeify thread and of the resizing thread -/
theorem KMove.calm {s : State} {t : Nat} {pc pc' : Pc} {hp : List NodeS}
    (hm : KMove s t pc pc' hp) (hpk : ∀ j, pc = .xNext → pc' = .xCell j → umv (viewOf s) j = true) (H : HInv s) (L : Nat) :
    growV (viewOf s) ⟨pc', none⟩ ≤ growV (viewOf s) ⟨pc, none⟩ ∧ daV (viewOf s) ⟨pc', none⟩ ≤ daV (viewOf s) ⟨pc, none⟩ ∧
      pmV L (viewOf s) ⟨pc', none⟩ < pmV L (viewOf s) ⟨pc, none⟩ := by
  cases hm with
  | kTable =>
    refine ⟨by tbl, by tbl, ?_⟩
    show 6 + (s.tabs.length - s.cur) < 8 + s.tabs.length
    omega
  | @kCellList tab k h hc =>
    refine ⟨by tbl, by tbl, ?_⟩
    show 5 < 6 + (s.tabs.length - tab)
    omega
  | @kCellMoved tab k hc =>
    have := lt_tabs_of_moved hc
    refine ⟨by tbl, by tbl, ?_⟩
    show 6 + (s.tabs.length - (tab + 1)) < 6 + (s.tabs.length - tab)
    omega
  | @kCellOther tab k _ _ =>
    refine ⟨by tbl, by tbl, ?_⟩
    show 0 < 6 + (s.tabs.length - tab)
    omega
  | kLock hn hlk =>
    refine ⟨by tbl, by tbl, ?_⟩
    show 4 < 5
    omega
  | kCheckOk _ =>
    refine ⟨by tbl, by tbl, ?_⟩
    show 3 < 4
    omega
  | kCheckFail _ =>
    refine ⟨by tbl, by tbl, ?_⟩
    show 1 < 4
    omega
  | kUnlock =>
    refine ⟨by tbl, by tbl, ?_⟩
    show 0 < 1
    omega
  | xNextCommit _ =>
    refine ⟨Nat.zero_le _, ?_, ?_⟩
    · show 1 ≤ 4 * Uv (viewOf s) + 1
      omega
    · show 1 < 13
      omega
  | @xNextCell pick ham =>
    have hu := hpk _ rfl rfl
    have h1 := U1_add_one hu
    have hnm : (viewOf s).xc (pick % 2 ^ s.cur) ≠ .moved := by
      intro hm
      unfold umv mvOf at hu
      rw [hm] at hu
      simp at hu
    refine ⟨?_, ?_, ?_⟩
    · show U1 (viewOf s) (pick % 2 ^ s.cur) + 1 ≤ Uv (viewOf s)
      omega
    · show 4 * U1 (viewOf s) (pick % 2 ^ s.cur) + 5 ≤ 4 * Uv (viewOf s) + 1
      omega
    · show xbase (viewOf s) (pick % 2 ^ s.cur) < 13
      unfold xbase
      rw [if_neg hnm]
      omega
  | @xCellEmpty j h0 =>
    have hnm : (viewOf s).xc j ≠ .moved := by
      show cellAt s (s.cur, j) ≠ .moved
      rw [h0]; intro h; cases h
    refine ⟨Nat.le_refl _, Nat.le_refl _, ?_⟩
    show (if cellAt s (s.cur, j) = .empty then 2 else xbase (viewOf s) j + 1) < xbase (viewOf s) j
    unfold xbase
    rw [if_pos h0, if_neg hnm]; omega
  | @xCellList j h h0 =>
    have hnm : (viewOf s).xc j ≠ .moved := by
      show cellAt s (s.cur, j) ≠ .moved
      rw [h0]; intro h; cases h
    refine ⟨Nat.le_refl _, Nat.le_refl _, ?_⟩
    show (if cellAt s (s.cur, j) = .list h then 8 else xbase (viewOf s) j + 2) < xbase (viewOf s) j
    unfold xbase
    rw [if_pos h0, if_neg hnm]; omega
  | @xCellTree j b h0 =>
    have hnm : (viewOf s).xc j ≠ .moved := by
      show cellAt s (s.cur, j) ≠ .moved
      rw [h0]; intro h; cases h
    refine ⟨Nat.le_refl _, Nat.le_refl _, ?_⟩
    show (if cellAt s (s.cur, j) = .tree b then 8 else xbase (viewOf s) j + 2) < xbase (viewOf s) j
    unfold xbase
    rw [if_pos h0, if_neg hnm]; omega
  | @xCellMoved j h0 =>
    have := Uv_le_U1_add_one (viewOf s) j
    refine ⟨?_, ?_, ?_⟩
    · show Uv (viewOf s) ≤ U1 (viewOf s) j + 1
      omega
    · show 4 * Uv (viewOf s) + 1 ≤ 4 * U1 (viewOf s) j + 5
      omega
    · show 13 < xbase (viewOf s) j
      unfold xbase
      rw [if_pos (show (viewOf s).xc j = .moved from h0)]; omega
  | @xCasFail j hne =>
    refine ⟨Nat.le_refl _, Nat.le_refl _, ?_⟩
    show xbase (viewOf s) j < (if cellAt s (s.cur, j) = .empty then 2 else xbase (viewOf s) j + 1)
    rw [if_neg hne]; omega
  | @xLock j h n hn hlk =>
    refine ⟨Nat.le_refl _, Nat.le_refl _, ?_⟩
    show (if cellAt s (s.cur, j) = .list h then 7 else xbase (viewOf s) j + 1) <
      (if cellAt s (s.cur, j) = .list h then 8 else xbase (viewOf s) j + 2)
    split <;> omega
  | @xCheckOk j h h0 =>
    refine ⟨Nat.le_refl _, Nat.le_refl _, ?_⟩
    show 6 < (if cellAt s (s.cur, j) = .list h then 7 else xbase (viewOf s) j + 1)
    rw [if_pos h0]; omega
  | @xCheckFail j h hne =>
    refine ⟨Nat.le_refl _, Nat.le_refl _, ?_⟩
    show xbase (viewOf s) j < (if cellAt s (s.cur, j) = .list h then 7 else xbase (viewOf s) j + 1)
    rw [if_neg hne]; omega
  | @yCheckOk j b h0 =>
    refine ⟨Nat.le_refl _, Nat.le_refl _, ?_⟩
    show 6 < (if cellAt s (s.cur, j) = .tree b then 7 else xbase (viewOf s) j + 1)
    rw [if_pos h0]; omega
  | xUnlockL =>
    refine ⟨Nat.le_refl _, Nat.le_refl _, ?_⟩
    show 13 < 14
    omega

/-- the moves of the resizing thread that change a mutex are calm -/
theorem KBMove.calm {s : State} {t : Nat} {pc pc' : Pc} {tb : List TBin} (hm : KBMove s t pc pc' tb) (L : Nat) :
    pc' ≠ .idle ∧ (∃ b x, tb = s.tbins.modify b (fun y => { y with mutex := x })) ∧
    growV (viewOf s) ⟨pc', none⟩ ≤ growV (viewOf s) ⟨pc, none⟩ ∧ daV (viewOf s) ⟨pc', none⟩ ≤ daV (viewOf s) ⟨pc, none⟩ ∧
      pmV L (viewOf s) ⟨pc', none⟩ < pmV L (viewOf s) ⟨pc, none⟩ := by
  cases hm with
  | @yMutex j b _ =>
    refine ⟨(by intro e; cases e), ⟨b, some t, rfl⟩, Nat.le_refl _, Nat.le_refl _, ?_⟩
    show (if cellAt s (s.cur, j) = .tree b then 7 else xbase (viewOf s) j + 1) <
      (if cellAt s (s.cur, j) = .tree b then 8 else xbase (viewOf s) j + 2)
    split <;> omega
  | @yCheckFail j b hne =>
    refine ⟨(by intro e; cases e), ⟨b, none, rfl⟩, Nat.le_refl _, Nat.le_refl _, ?_⟩
    show xbase (viewOf s) j < (if cellAt s (s.cur, j) = .tree b then 7 else xbase (viewOf s) j + 1)
    rw [if_neg hne]; omega
  | @xUnlockT b =>
    refine ⟨(by intro e; cases e), ⟨b, none, rfl⟩, Nat.le_refl _, Nat.le_refl _, ?_⟩
    show 13 < 14
    omega

/-- a return without a store starts from a program counter with a positive measure -/
theorem Fin.pm_pos {s : State} {p : Pending} {pc : Pc} {res : KRes} {hp : List NodeS} (hf : Fin s p pc res hp)
    (L : Nat) (v : View) (call : Option Pending) : 0 < pmV L v ⟨pc, call⟩ := by
  cases hf with
  | @rCellEmpty lo tab _ => simp only [pmV]; omega
  | @wCellEmpty tab _ _ => simp only [pmV, fresh]; omega
  | _ => simp only [pmV] <;> omega

end Flurry.Proto.BinGNP
