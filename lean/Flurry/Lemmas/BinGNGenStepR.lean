import Flurry.Lemmas.BinGNGenFrame
/-! # Proto/BinGN: the generation invariant — tools for the step proof; idle threads and readers -/
namespace Flurry.Proto.BinGN
open Flurry.Lin

theorem POK.empty (s : State) (t : Nat) : POK s t {} := by
  refine ⟨?_, ?_, ?_, ?_, ?_, ?_, ?_, ?_⟩
  · intro h; cases h
  · intro _ _ h; cases h
  · intro _ h; cases h
  · intro h; cases h
  · intro _ h; cases h
  · intro _ h; cases h
  · intro _ _ _ h; cases h
  · intro _ h; cases h

/-- transport of `POK` to a state whose cells changed monotonically and not under the thread's validated lock -/
theorem POK.transport {s s' : State} {t : Nat} {D : Desc} (h : POK s t D)
    (hcur : s'.cur = s.cur) (hres : s'.resizing = s.resizing)
    (hmono : ∀ g j, cellAt s g j = .moved → cellAt s' g j = .moved)
    (hvalid : ∀ g j c, D.valid = some (g, j, c) → cellAt s' g j = cellAt s g j)
    (hN : LockSame s.heap s'.heap) (hM : MutexSame s.tbins s'.tbins) : POK s' t D := by
  refine ⟨?_, ?_, ?_, ?_, ?_, ?_, ?_, ?_⟩
  · rw [hres]; exact h.tres
  · intro g k hg
    rw [hcur]
    obtain ⟨a, b⟩ := h.gen g k hg
    exact ⟨a, fun e => hmono _ _ (b e)⟩
  · rw [hcur]; exact h.idx
  · rw [hcur]; intro h1 j hj; exact hmono _ _ (h.commit h1 j hj)
  · intro x hx
    obtain ⟨a, b⟩ := h.heldN x hx
    exact ⟨Nat.lt_of_lt_of_le a hN.1, by rw [hN.2 x a]; exact b⟩
  · intro x hx
    obtain ⟨a, b⟩ := h.heldM x hx
    exact ⟨Nat.lt_of_lt_of_le a hM.1, by rw [hM.2 x a]; exact b⟩
  · intro g j c hv; rw [hvalid g j c hv]; exact h.valid g j c hv
  · intro c hc; exact ⟨(h.plan c hc).1, fun b e => Nat.lt_of_lt_of_le ((h.plan c hc).2 b e) hM.1⟩

/-- the general way to obtain `POK` for the new descriptor of the acting thread when the tables do not change -/
theorem POK.update {s s' : State} {t : Nat} {D D' : Desc} (h : POK s t D)
    (htabs : s'.tabs = s.tabs) (hcur : s'.cur = s.cur) (hres : s'.resizing = s.resizing)
    (hlen : s.tbins.length ≤ s'.tbins.length)
    (isX : D'.isX = true → D.isX = true) (gen : D'.gen = none ∨ D'.gen = D.gen)
    (idx : D'.idx = none ∨ D'.idx = D.idx) (commit : D'.commit = true → D.commit = true)
    (hN : ∀ x, D'.holdN = some x → x < s'.heap.length ∧ lockAt s'.heap x = some t)
    (hM : ∀ x, D'.holdM = some x → x < s'.tbins.length ∧ mutexAt s'.tbins x = some t)
    (valid : D'.valid = none ∨ (D'.valid = D.valid ∧ D'.holdN = D.holdN ∧ D'.holdM = D.holdM))
    (plan : ∀ c ∈ D'.plan, c ∈ D.plan ∨ (c ≠ .moved ∧ ∀ b, c = .tree b → b < s'.tbins.length)) : POK s' t D' := by
  have hc : ∀ g j, cellAt s' g j = cellAt s g j := fun g j => by rw [cellAt_eq, cellAt_eq, htabs]
  refine ⟨?_, ?_, ?_, ?_, hN, hM, ?_, ?_⟩
  · rw [hres]; exact fun hx => h.tres (isX hx)
  · intro g k hg
    rw [hcur]; unfold cellOf; rw [hc]
    rcases gen with e | e
    · rw [e] at hg; cases hg
    · rw [e] at hg; exact h.gen g k hg
  · rw [hcur]
    intro j hj
    rcases idx with e | e
    · rw [e] at hj; cases hj
    · rw [e] at hj; exact h.idx j hj
  · rw [hcur]; intro h1 j hj; rw [hc]; exact h.commit (commit h1) j hj
  · intro g j c hv
    rw [hc]
    rcases valid with e | ⟨e, e1, e2⟩
    · rw [e] at hv; cases hv
    · rw [e] at hv; rw [e1, e2]; exact h.valid g j c hv
  · intro c hcm
    rcases plan c hcm with e | e
    · exact ⟨(h.plan c e).1, fun b eb => Nat.lt_of_lt_of_le ((h.plan c e).2 b eb) hlen⟩
    · exact e

/-- a transition that changes neither the tables nor `cur` / `resizing` nor any lock word or mutex -/
theorem geninv_move {s s' : State} {t : Nat} {l l' : Local} (I : GenInv s) (hl : s.threads[t]? = some l)
    (hthr : s'.threads = s.threads.set t l') (hcur : s'.cur = s.cur) (hres : s'.resizing = s.resizing)
    (htabs : s'.tabs = s.tabs) (hN : LockSame s.heap s'.heap) (hM : MutexSame s.tbins s'.tbins)
    (hX : (desc s.cur l').isX = true → (desc s.cur l).isX = true)
    (hself : POK s t (desc s.cur l')) : GenInv s' := by
  refine geninv_same I hl hthr hcur hres htabs (.of_same hN) (.of_same hM) hM.1 hX ?_
  refine hself.congr htabs hcur hres ?_ ?_ hM.1
  · intro x hx
    obtain ⟨a, b⟩ := hself.heldN x hx
    exact ⟨Nat.lt_of_lt_of_le a hN.1, by rw [hN.2 x a]; exact b⟩
  · intro x hx
    obtain ⟨a, b⟩ := hself.heldM x hx
    exact ⟨Nat.lt_of_lt_of_le a hM.1, by rw [hM.2 x a]; exact b⟩

theorem set_same {α : Type} {l : List α} {t : Nat} {x : α} (h : l[t]? = some x) : l = l.set t x := by
  apply List.ext_getElem?
  intro i
  by_cases e : t = i
  · subst e
    rw [List.getElem?_set_self (List.getElem?_eq_some_iff.1 h).1]; exact h
  · rw [List.getElem?_set_ne e]

/-- following a forwarding marker: the thread goes on to generation `g + 1` -/
theorem gen_follow {s : State} (I : GenInv s) {g k : Nat}
    (hg : g ≤ s.cur + 1 ∧ (g = s.cur + 1 → cellOf s s.cur k = .moved)) (hm : cellOf s g k = .moved) :
    g + 1 ≤ s.cur + 1 ∧ (g + 1 = s.cur + 1 → cellOf s s.cur k = .moved) := by
  have hne : g ≠ s.cur + 1 := by
    intro e
    rw [e] at hm
    exact I.nextOK _ hm
  refine ⟨by omega, ?_⟩
  intro e
  have : g = s.cur := by omega
  rw [← this]; exact hm

/-- a descriptor that only knows the generation -/
theorem POK.ofGen {s : State} {t : Nat} {g k : Nat}
    (hg : g ≤ s.cur + 1 ∧ (g = s.cur + 1 → cellOf s s.cur k = .moved)) : POK s t { gen := some (g, k) } := by
  refine ⟨?_, ?_, ?_, ?_, ?_, ?_, ?_, ?_⟩
  · intro h; cases h
  · intro _ _ h; cases h; exact hg
  · intro _ h; cases h
  · intro h; cases h
  · intro _ h; cases h
  · intro _ h; cases h
  · intro _ _ _ h; cases h
  · intro _ h; cases h

theorem POK.ofGenB {s : State} {t : Nat} {g k b : Nat}
    (hg : g ≤ s.cur + 1 ∧ (g = s.cur + 1 → cellOf s s.cur k = .moved)) (hb : b < s.tbins.length) :
    POK s t { gen := some (g, k), plan := [.tree b] } := by
  refine ⟨?_, ?_, ?_, ?_, ?_, ?_, ?_, ?_⟩
  · intro h; cases h
  · intro _ _ h; cases h; exact hg
  · intro _ h; cases h
  · intro h; cases h
  · intro _ h; cases h
  · intro _ h; cases h
  · intro _ _ _ h; cases h
  · intro x h
    have : x = .tree b := by simpa using h
    subst this
    exact ⟨by simp, fun b' e => by cases e; exact hb⟩

theorem cur_gen (s : State) (k : Nat) : s.cur ≤ s.cur + 1 ∧ (s.cur = s.cur + 1 → cellOf s s.cur k = .moved) :=
  ⟨by omega, fun e => by omega⟩

/-- open a step of a thread whose `Local` is known -/
macro "open_step" hs:ident hl:ident : tactic =>
  `(tactic| (unfold step stepG at $hs:ident; rw [$hl:ident] at $hs:ident;
             simp only [Bool.not_true, Bool.false_or] at $hs:ident))

/-- the new descriptor knows nothing more than the old one -/
macro "dle" : tactic =>
  `(tactic| (constructor <;> simp [desc, descPc, keyOf, unlN, unlM, unlCell]))

/-- the state with the clock advanced -/
def tick (s : State) : State := { s with now := s.now + 1 }

section
variable {s s' : State} {t : Nat} {inv : Option (Nat × KOp)} {lo : Bool} {mt : Option Nat} {rz sm sm2 : Bool}
  {pick : Nat} {c : Option Pending}

/-- an idle thread that does not start a resize -/
theorem step_idle (I : GenInv s) (hl : s.threads[t]? = some { pc := .idle, call := c }) (hrz : ¬ (rz = true ∧ s.resizing = false))
    (hs : step s t inv lo mt rz sm sm2 pick = some s') : GenInv s' := by
  have T := I.thr t _ hl
  unfold step stepG at hs; rw [hl] at hs; simp only at hs
  split at hs
  · split at hs
    · cases hs
      exact geninv_move (l' := { pc := .idle, call := c }) I hl (set_same hl) rfl rfl rfl (.refl _) (.refl _) id T
    · rename_i h1 h2
      exact absurd ⟨h1, by simpa using h2⟩ hrz
  · split at hs
    · cases hs
      exact geninv_move I hl rfl rfl rfl rfl (.refl _) (.refl _) (fun h => by cases h) (POK.empty s t)
    · split at hs
      · cases hs
        exact geninv_move (l' := { pc := .idle, call := c }) I hl (set_same hl) rfl rfl rfl (.refl _) (.refl _) id T
      · cases hs
        refine geninv_move I hl rfl rfl rfl rfl (.refl _) (.refl _) ?_ ?_
        · split <;> exact fun h => by cases h
        · split <;> exact POK.empty s t

/-- steps after which the thread's descriptor is empty, and that change no lock word, no mutex, no cell -/
macro "rd_done" I:ident hl:ident : tactic =>
  `(tactic| first
    | exact geninv_move $I $hl rfl rfl rfl rfl (.refl _) (.refl _) (fun h => by cases h) (POK.empty _ _)
    | exact geninv_move $I $hl rfl rfl rfl rfl (.refl _) (MutexSame.modify _ _ _ (fun _ => rfl)) (fun h => by cases h)
        (POK.empty _ _)
    | (refine geninv_move $I $hl rfl rfl rfl rfl (.refl _) (.refl _) ?_ ?_
       · split <;> exact fun h => by cases h
       · split <;> exact POK.empty _ _))

macro "rd_all" I:ident hl:ident hs:ident : tactic =>
  `(tactic| (open_step $hs $hl; repeat' split at $hs:ident
             all_goals first | (cases $hs:ident; done) | (cases $hs:ident; rd_done $I $hl)))

variable {p : Pending}

theorem step_rTable {x : Bool} (I : GenInv s) (hl : s.threads[t]? = some { pc := .rTable x, call := some p })
    (hs : step s t inv lo mt rz sm sm2 pick = some s') : GenInv s' := by
  open_step hs hl
  cases hs
  exact geninv_move I hl rfl rfl rfl rfl (.refl _) (.refl _) (fun h => by cases h) (POK.ofGen (cur_gen s p.key))

theorem step_rCell {x : Bool} {g : Nat} (I : GenInv s) (hl : s.threads[t]? = some { pc := .rCell x g, call := some p })
    (hs : step s t inv lo mt rz sm sm2 pick = some s') : GenInv s' := by
  have T := I.thr t _ hl
  open_step hs hl
  split at hs
  · cases hs; rd_done I hl
  · rename_i hm
    cases hs
    exact geninv_move I hl rfl rfl rfl rfl (.refl _) (.refl _) (fun h => by cases h)
      (POK.ofGen (gen_follow I (T.gen g p.key rfl) hm))
  · cases hs; rd_done I hl
  · cases hs; rd_done I hl

theorem step_rNode {x : Option Nat} (I : GenInv s) (hl : s.threads[t]? = some { pc := .rNode x, call := some p })
    (hs : step s t inv lo mt rz sm sm2 pick = some s') : GenInv s' := by
  cases x <;> rd_all I hl hs

theorem step_rFirst {b : Nat} (I : GenInv s) (hl : s.threads[t]? = some { pc := .rFirst b, call := some p })
    (hs : step s t inv lo mt rz sm sm2 pick = some s') : GenInv s' := by
  rd_all I hl hs

theorem step_rState {b : Nat} {x : Option Nat} (I : GenInv s) (hl : s.threads[t]? = some { pc := .rState b x, call := some p })
    (hs : step s t inv lo mt rz sm sm2 pick = some s') : GenInv s' := by
  cases x <;> rd_all I hl hs

theorem step_rLin {b x : Nat} (I : GenInv s) (hl : s.threads[t]? = some { pc := .rLin b x, call := some p })
    (hs : step s t inv lo mt rz sm sm2 pick = some s') : GenInv s' := by
  rd_all I hl hs

theorem step_rCas {b x r : Nat} (I : GenInv s) (hl : s.threads[t]? = some { pc := .rCas b x r, call := some p })
    (hs : step s t inv lo mt rz sm sm2 pick = some s') : GenInv s' := by
  rd_all I hl hs

theorem step_rTree {b : Nat} (I : GenInv s) (hl : s.threads[t]? = some { pc := .rTree b, call := some p })
    (hs : step s t inv lo mt rz sm sm2 pick = some s') : GenInv s' := by
  rd_all I hl hs

theorem step_rRelease {b : Nat} {x : Option Nat} (I : GenInv s)
    (hl : s.threads[t]? = some { pc := .rRelease b x, call := some p })
    (hs : step s t inv lo mt rz sm sm2 pick = some s') : GenInv s' := by
  rd_all I hl hs

theorem step_rVal {x : Nat} (I : GenInv s) (hl : s.threads[t]? = some { pc := .rVal x, call := some p })
    (hs : step s t inv lo mt rz sm sm2 pick = some s') : GenInv s' := by
  rd_all I hl hs

theorem step_lFirst {b : Nat} (I : GenInv s) (hl : s.threads[t]? = some { pc := .lFirst b, call := some p })
    (hs : step s t inv lo mt rz sm sm2 pick = some s') : GenInv s' := by
  rd_all I hl hs

theorem step_lNode {x : Option Nat} (I : GenInv s) (hl : s.threads[t]? = some { pc := .lNode x, call := some p })
    (hs : step s t inv lo mt rz sm sm2 pick = some s') : GenInv s' := by
  cases x <;> rd_all I hl hs

end
end Flurry.Proto.BinGN
