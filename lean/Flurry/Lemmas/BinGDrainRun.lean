import Flurry.Lemmas.BinGDrainStep
import Flurry.Lemmas.BinGProgStuck
/-! # Proto/BinG, termination: every quiet step of a non-idle thread decreases `gmu`; runs are bounded

`quiet_step_gmu_lt`: the strict decrease, assembled from `stepN_effect`.
`QStep` / `QRun`: quiet steps of threads that are not `idle`, and finite runs of them.
`qrun_bounded`, `drain_exists`, `qrun_maximal_quiescent`, `no_infinite_qrun`, `qrun_call_returns`. -/
namespace Flurry.Proto.BinG
open Flurry.Lin
open Flurry.Proto.BinK (nodeAt binAt get_set get_set_self get_set_ne)

/-! ## bounds available in every reachable state -/

theorem WalkOK.mono {n m : Nat} (h : n ≤ m) {pc : Pc} (hw : WalkOK n pc) : WalkOK m pc := by
  unfold WalkOK at *
  split <;> simp_all <;> omega

theorem walkOK_of_inv {s : State} (I : Inv s) (B : BInv s) {t : Nat} {l : Local} (hl : s.threads[t]? = some l) :
    WalkOK s.heap.length l.pc := by
  have hb := B t l hl
  have hcall := I.thr.callOK t l hl
  have hpi := I.data.pcInv t l
  obtain ⟨pc, call⟩ := l
  cases call with
  | none =>
    cases pc with
    | wFind tab h pred cur => cases cur <;> first | trivial | exact hb
    | rNode cur => cases cur <;> first | trivial | (exfalso; simp [noCallPc, kPc, xPc] at hcall)
    | rState b cur => cases cur <;> first | trivial | (exfalso; simp [noCallPc, kPc, xPc] at hcall)
    | lNode cur => cases cur <;> first | trivial | (exfalso; simp [noCallPc, kPc, xPc] at hcall)
    | rLin b c => exfalso; simp [noCallPc, kPc, xPc] at hcall
    | rCas b c r => exfalso; simp [noCallPc, kPc, xPc] at hcall
    | _ => trivial
  | some p =>
    have h := hpi p hl rfl
    cases pc with
    | wFind tab h pred cur => cases cur <;> first | trivial | exact hb
    | rNode cur => cases cur <;> first | trivial | exact h
    | rState b cur => cases cur <;> first | trivial | exact h
    | lNode cur => cases cur <;> first | trivial | exact h
    | rLin b c => exact h
    | rCas b c r => exact h
    | _ => trivial

theorem heap_lt_N (s : State) : s.heap.length < N s := by
  unfold N
  have : 0 < 4 ^ G s := Nat.pow_pos (by omega)
  have := Nat.le_mul_of_pos_right (s.heap.length + 1) this
  omega

theorem PM_mono {L L' : Nat} (h : L ≤ L') : PM L ≤ PM L' := by unfold PM; omega

/-- a failed CAS of a reader was a CAS that had to fail -/
theorem rcas_fail_cond {s s' : State} {t : Nat} {b c r : Nat} {call : Option Pending}
    (hl : s.threads[t]? = some ⟨.rCas b c r, call⟩) {inv : Option (Nat × KOp)} {lo : Bool} {mt : Option Nat}
    {rz sm sm2 : Bool} (hs : step s t inv lo mt rz sm sm2 = some s')
    (h' : ∃ call', s'.threads[t]? = some ⟨.rState b (some c), call'⟩) : casOk s b r = false := by
  cases hc : casOk s b r with
  | false => rfl
  | true =>
    exfalso
    unfold step stepG at hs
    rw [hl] at hs
    cases call with
    | none => cases hs
    | some p =>
      dsimp only at hs
      have hc' := hc
      unfold casOk binAt at hc'
      rw [if_pos hc'] at hs
      cases hs
      obtain ⟨call', h'⟩ := h'
      have : (setT (setBin { s with now := s.now + 1 } b (fun x => { x with readers := x.readers + 1 })) t
          ⟨.rTree b, some p⟩).threads[t]? = some ⟨.rTree b, some p⟩ := get_set_self hl
      rw [this] at h'
      cases h'

/-! ## the decrease -/

theorem G_set {s s' : State} {t : Nat} {l l' : Local} (hl : s.threads[t]? = some l)
    (hthr : s'.threads = s.threads.set t l') (d : Nat) (hg : grow l'.pc + d ≤ grow l.pc) : G s' + d ≤ G s := by
  unfold G
  rw [hthr]
  exact sum_set_add_le (fun l => grow l.pc) (fun l => grow l.pc) d s.threads t l l' hl
    (fun _ _ _ _ => Nat.le_refl _) hg

theorem N_le_of_same {s s' : State} (hlen : s'.heap.length = s.heap.length) (hG : G s' ≤ G s) : N s' ≤ N s := by
  unfold N
  rw [hlen]
  exact Nat.mul_le_mul_left _ (Nat.pow_le_pow_right (by omega) hG)

theorem N_le_of_grow {s s' : State} (hlen : s'.heap.length + 1 ≤ 4 * (s.heap.length + 1)) (hG : G s' + 1 ≤ G s) :
    N s' ≤ N s := by
  unfold N
  calc (s'.heap.length + 1) * 4 ^ G s' ≤ (4 * (s.heap.length + 1)) * 4 ^ G s' := Nat.mul_le_mul_right _ hlen
    _ = (s.heap.length + 1) * 4 ^ (G s' + 1) := by rw [Nat.pow_succ]; ac_rfl
    _ ≤ (s.heap.length + 1) * 4 ^ G s := Nat.mul_le_mul_left _ (Nat.pow_le_pow_right (by omega) hG)

theorem W_le {s s' : State} (hlen : s'.threads.length = s.threads.length) (hN : N s' ≤ N s) : W s' ≤ W s := by
  unfold W
  rw [hlen]
  have := Nat.mul_le_mul_left s.threads.length (PM_mono hN)
  omega

/-- **every enabled quiet step of a thread that is not `idle` strictly decreases `gmu`** (in fact every
enabled step of such a thread, whatever the scheduler's arguments: they are ignored) -/
theorem step_gmu_lt {n : Nat} {s s' : State} (hr : Reachable n s) {t : Nat} {l : Local}
    (hl : s.threads[t]? = some l) (hne : l.pc ≠ .idle) {inv : Option (Nat × KOp)} {lo : Bool} {mt : Option Nat}
    {rz sm sm2 : Bool} (hs : step s t inv lo mt rz sm sm2 = some s') : gmu s' < gmu s := by
  have I := reachable_inv hr
  have hr' : Reachable n s' := Reachable.step t inv lo mt rz sm sm2 hr hs
  have I' := reachable_inv hr'
  have B' := reachable_binv hr'
  have hcas : ∀ b c r, l.pc = .rCas b c r → (∃ call, s'.threads[t]? = some ⟨.rState b (some c), call⟩) →
      casOk s b r = false := by
    intro b c r hpc h'
    obtain ⟨pc, call⟩ := l
    cases hpc
    exact rcas_fail_cond hl hs h'
  obtain ⟨l', he⟩ := stepN_effect I hl hne (Nat.le_of_lt (heap_lt_N s)) hcas (step_stepN hl hs)
  rcases he with e | e
  · -- calm
    have hG : G s' ≤ G s := G_set hl e.thr 0 e.grow
    have hN : N s' ≤ N s := N_le_of_same e.hlen hG
    have htl : s'.threads.length = s.threads.length := by rw [e.thr, List.length_set]
    have hW := W_le htl hN
    have hDA : DA s' ≤ DA s := by
      unfold DA
      rw [e.thr, e.view]
      exact sum_set_add_le _ _ 0 s.threads t l l' hl (fun _ _ _ _ => Nat.le_refl _) e.da
    have hPS : PS s' + 1 ≤ PS s := by
      unfold PS
      rw [e.thr, e.view]
      refine sum_set_add_le (pmV (N s) (viewOf s)) (pmV (N s') (viewOf s)) 1 s.threads t l l' hl
        (fun _ x _ _ => pmV_mono hN _ x) ?_
      have := pmV_mono hN (viewOf s) l'
      have := e.pm
      omega
    unfold gmu
    have := Nat.mul_le_mul hW hDA
    omega
  · -- disturbing
    have hGN : N s' ≤ N s := by
      rcases e.hlen with ⟨h1, h2⟩ | ⟨h1, h2⟩
      · exact N_le_of_same h1 (G_set hl e.thr 0 h2)
      · exact N_le_of_grow h1 (G_set hl e.thr 1 h2)
    have htl : s'.threads.length = s.threads.length := by rw [e.thr, List.length_set]
    have hW := W_le htl hGN
    have hDA : DA s' + 1 ≤ DA s := by
      unfold DA
      rw [e.thr]
      refine sum_set_add_le (daV (viewOf s)) (daV (viewOf s')) 1 s.threads t l l' hl ?_ e.da
      intro i x hi hx
      obtain ⟨pcx, callx⟩ := x
      cases pcx with
      | lrLoop tab b k res =>
        show 4 + (if (binAt s'.tbins b).waiter = true then 0 else 1) ≤
          4 + (if (binAt s.tbins b).waiter = true then 0 else 1)
        by_cases hw : (binAt s.tbins b).waiter = true
        · have hb : b < s.tbins.length := (I.lock.refOK i _ b hx rfl).1
          rcases e.keep b hb hw with h | h
          · rw [h, hw]; exact Nat.le_refl _
          · exfalso
            have h1 := (I.lock.mx t l b hl).1 h
            have h2 := (I.lock.mx i _ b hx).1 (show holdsMutex (Pc.lrLoop tab b k res) = some b from rfl)
            rw [h1] at h2
            exact hi (Option.some.inj h2).symm
        · rw [if_neg hw]
          split <;> omega
      | _ => exact Nat.le_refl _
    have hPS : PS s' ≤ s'.threads.length * PM (N s') := by
      unfold PS
      refine sum_map_le_card _ _ _ (fun x hx => ?_)
      obtain ⟨i, hi⟩ := List.mem_iff_getElem?.1 hx
      exact pmV_le _ ((walkOK_of_inv I' B' hi).mono (Nat.le_of_lt (heap_lt_N s')))
    have hPM := Nat.mul_le_mul_left s.threads.length (PM_mono hGN)
    rw [htl] at hPS
    unfold gmu
    have h1 : W s' * DA s' ≤ W s * DA s' := Nat.mul_le_mul_right _ hW
    have h2 : W s * (DA s' + 1) ≤ W s * DA s := Nat.mul_le_mul_left _ hDA
    have h3 : W s * (DA s' + 1) = W s * DA s' + W s := by rw [Nat.mul_add, Nat.mul_one]
    have h4 : W s = s.threads.length * PM (N s) + 1 := rfl
    omega

/-- `gmu` is bounded by an explicit function of the heap length and the number of threads -/
theorem gmu_le_drainBound {n : Nat} {s : State} (hr : Reachable n s) : gmu s ≤ drainBound s := by
  have I := reachable_inv hr
  have B := reachable_binv hr
  have hG : G s ≤ s.threads.length := by
    have := sum_map_le_card (fun l : Local => grow l.pc) 1 s.threads (fun x _ => grow_le_one x.pc)
    unfold G; omega
  have hN : N s ≤ (s.heap.length + 1) * 4 ^ s.threads.length :=
    Nat.mul_le_mul_left _ (Nat.pow_le_pow_right (by omega) hG)
  have hDA : DA s ≤ s.threads.length * 5 := sum_map_le_card _ 5 _ (fun x _ => daV_le _ x)
  have hPS : PS s ≤ s.threads.length * PM (N s) := by
    unfold PS
    refine sum_map_le_card _ _ _ (fun x hx => ?_)
    obtain ⟨i, hi⟩ := List.mem_iff_getElem?.1 hx
    exact pmV_le _ ((walkOK_of_inv I B hi).mono (Nat.le_of_lt (heap_lt_N s)))
  have hPM : PM (N s) ≤ 4 * ((s.heap.length + 1) * 4 ^ s.threads.length) + 20 := by unfold PM; omega
  have h1 := Nat.mul_le_mul_left s.threads.length hPM
  unfold gmu drainBound W
  have h2 : (s.threads.length * PM (N s) + 1) * DA s ≤
      (s.threads.length * (4 * ((s.heap.length + 1) * 4 ^ s.threads.length) + 20) + 1) * (5 * s.threads.length) :=
    Nat.mul_le_mul (by omega) (by omega)
  omega

/-! ## quiet runs -/

/-- a quiet step of a thread that is not `idle`: no call, treeify or resize is started -/
def QStep (s s' : State) : Prop :=
  ∃ (t : Nat) (l : Local) (lo sm sm2 : Bool), s.threads[t]? = some l ∧ l.pc ≠ .idle ∧ stepQuiet s t lo sm sm2 = some s'

/-- `k` quiet steps of threads that are not `idle` -/
inductive QRun : State → Nat → State → Prop
  | nil (s : State) : QRun s 0 s
  | cons {s s1 s2 : State} {k : Nat} : QStep s s1 → QRun s1 k s2 → QRun s (k + 1) s2

theorem QStep.reachable {n : Nat} {s s' : State} (hr : Reachable n s) (h : QStep s s') : Reachable n s' := by
  obtain ⟨t, l, lo, sm, sm2, _, _, hs⟩ := h
  exact Reachable.step t none lo none false sm sm2 hr hs

theorem QRun.reachable {n : Nat} {s s' : State} {k : Nat} (hr : Reachable n s) (h : QRun s k s') : Reachable n s' := by
  induction h with
  | nil => exact hr
  | cons h1 _ ih => exact ih (h1.reachable hr)

theorem QRun.snoc {s s1 s2 : State} {k : Nat} (h : QRun s k s1) (h2 : QStep s1 s2) : QRun s (k + 1) s2 := by
  induction h with
  | nil => exact .cons h2 (.nil _)
  | cons h1 _ ih => exact .cons h1 (ih h2)

theorem QStep.gmu_lt {n : Nat} {s s' : State} (hr : Reachable n s) (h : QStep s s') : gmu s' < gmu s := by
  obtain ⟨t, l, lo, sm, sm2, hl, hne, hs⟩ := h
  exact step_gmu_lt hr hl hne hs

theorem qrun_bounded {n : Nat} {s s' : State} {k : Nat} (hr : Reachable n s) (h : QRun s k s') :
    k + gmu s' ≤ gmu s := by
  induction h with
  | nil => omega
  | cons h1 _ ih =>
    have := h1.gmu_lt hr
    have := ih (h1.reachable hr)
    omega

/-- a state that is not quiescent has a quiet step (`binG_never_stuck_aux`) -/
theorem qstep_of_not_quiescent {n : Nat} {s : State} (hr : Reachable n s) (hq : ¬ quiescent s) : ∃ s', QStep s s' := by
  obtain ⟨t, l, hl, hne, he⟩ := binG_never_stuck_aux (reachable_inv hr) (reachable_binv hr) hq
  obtain ⟨s', hs⟩ := Option.isSome_iff_exists.1 (he none false none false false false)
  exact ⟨s', t, l, false, false, false, hl, hne, hs⟩

/-- a quiescent state has no quiet step of a thread that is not `idle` -/
theorem no_qstep_of_quiescent {s s' : State} (hq : quiescent s) : ¬ QStep s s' := by
  rintro ⟨t, l, lo, sm, sm2, hl, hne, _⟩
  exact hne (hq l (List.mem_iff_getElem?.2 ⟨t, hl⟩))

/-- a maximal quiet run ends in a quiescent state -/
theorem qrun_maximal_quiescent {n : Nat} {s s' : State} {k : Nat} (hr : Reachable n s) (h : QRun s k s')
    (hmax : ∀ s'', ¬ QStep s' s'') : quiescent s' := by
  apply Classical.byContradiction
  intro hq
  obtain ⟨s'', h''⟩ := qstep_of_not_quiescent (h.reachable hr) hq
  exact hmax s'' h''

/-- from every reachable state some quiet run reaches a quiescent state -/
theorem drain_exists {n : Nat} : ∀ (m : Nat) {s : State}, Reachable n s → gmu s ≤ m →
    ∃ k s', QRun s k s' ∧ quiescent s'
  | 0, s, hr, hm => by
    by_cases hq : quiescent s
    · exact ⟨0, s, .nil s, hq⟩
    · obtain ⟨s', h'⟩ := qstep_of_not_quiescent hr hq
      have := h'.gmu_lt hr
      omega
  | m + 1, s, hr, hm => by
    by_cases hq : quiescent s
    · exact ⟨0, s, .nil s, hq⟩
    · obtain ⟨s1, h1⟩ := qstep_of_not_quiescent hr hq
      have := h1.gmu_lt hr
      obtain ⟨k, s', hrun, hq'⟩ := drain_exists m (h1.reachable hr) (by omega)
      exact ⟨k + 1, s', .cons h1 hrun, hq'⟩

/-- there is no infinite sequence of quiet steps of threads that are not `idle` -/
theorem no_infinite_qrun {n : Nat} {s : State} (hr : Reachable n s) (f : Nat → State) (h0 : f 0 = s)
    (hstep : ∀ i, QStep (f i) (f (i + 1))) : False := by
  have hrun : ∀ k, QRun s k (f k) := by
    intro k
    induction k with
    | zero => rw [h0]; exact .nil s
    | succ k ih => exact ih.snoc (hstep k)
  have := qrun_bounded hr (hrun (gmu s + 1))
  omega

/-! ## every call returns -/

/-- the call `p` of thread `t` has been answered: `hist` has an entry with its key, operation and
invocation time -/
def Answered (s : State) (t : Nat) (p : Pending) : Prop :=
  ∃ res resp, (p.key, { tid := t, op := p.op, res := res, inv := p.inv, resp := resp }) ∈ s.hist

/-- a step that is enabled is a step of a thread that is not blocked -/
theorem not_blocked_of_step {s s' : State} {t : Nat} {l : Local} (hl : s.threads[t]? = some l)
    {inv : Option (Nat × KOp)} {lo : Bool} {mt : Option Nat} {rz sm sm2 : Bool}
    (hs : step s t inv lo mt rz sm sm2 = some s') : ¬ Blocked s l.pc := by
  intro hb
  obtain ⟨pc, call⟩ := l
  unfold step stepG at hs
  rw [hl] at hs
  cases pc with
  | wLock tab h =>
    cases call with
    | none => cases hs
    | some p =>
      dsimp only at hs
      cases hn : s.heap[h]? with
      | none => rw [hn] at hs; cases hs
      | some n =>
        rw [hn] at hs
        have hh : (nodeAt s.heap h).lock.isSome = true := hb
        rw [Flurry.Proto.BinK.nodeAt_of_some hn] at hh
        simp only [hh, if_true] at hs
        cases hs
  | kLock tab k h =>
    cases call with
    | some p => cases hs
    | none =>
      dsimp only at hs
      cases hn : s.heap[h]? with
      | none => rw [hn] at hs; cases hs
      | some n =>
        rw [hn] at hs
        have hh : (nodeAt s.heap h).lock.isSome = true := hb
        rw [Flurry.Proto.BinK.nodeAt_of_some hn] at hh
        simp only [hh, if_true] at hs
        cases hs
  | xLock h =>
    cases call with
    | some p => cases hs
    | none =>
      dsimp only at hs
      cases hn : s.heap[h]? with
      | none => rw [hn] at hs; cases hs
      | some n =>
        rw [hn] at hs
        have hh : (nodeAt s.heap h).lock.isSome = true := hb
        rw [Flurry.Proto.BinK.nodeAt_of_some hn] at hh
        simp only [hh, if_true] at hs
        cases hs
  | tMutex tab b =>
    cases call with
    | none => cases hs
    | some p =>
      dsimp only at hs
      have hh : (s.tbins.getD b dfltB).mutex.isSome = true := hb
      simp only [hh, if_true] at hs
      cases hs
  | yMutex b =>
    cases call with
    | some p => cases hs
    | none =>
      dsimp only at hs
      have hh : (s.tbins.getD b dfltB).mutex.isSome = true := hb
      simp only [hh, if_true] at hs
      cases hs
  | lrLoop tab b k res =>
    cases call with
    | none => cases hs
    | some p =>
      dsimp only at hs
      obtain ⟨hw, hor⟩ : (s.tbins.getD b dfltB).waiter = true ∧
          ((s.tbins.getD b dfltB).writer = true ∨ (s.tbins.getD b dfltB).readers ≠ 0) := hb
      have h1 : (!(s.tbins.getD b dfltB).writer && (s.tbins.getD b dfltB).readers == 0) = false := by
        rcases hor with h | h
        · rw [h]; rfl
        · have : ((s.tbins.getD b dfltB).readers == 0) = false := beq_eq_false_iff_ne.2 h
          rw [this, Bool.and_false]
      rw [h1] at hs
      simp only [hw, Bool.not_true, Bool.false_eq_true, if_false] at hs
      cases hs
  | _ => exact hb

/-- what a quiet step does to the call of a thread `t0`: it is still pending, or it has just been
answered -/
theorem QStep.call_kept {n : Nat} {s s' : State} (hr : Reachable n s) (h : QStep s s') {t0 : Nat} {l0 : Local}
    {p : Pending} (hl0 : s.threads[t0]? = some l0) (hp : l0.call = some p) :
    (∃ l1, s'.threads[t0]? = some l1 ∧ l1.call = some p ∧ s'.hist = s.hist) ∨
    (∃ l1, s'.threads[t0]? = some l1 ∧ l1.call = some p ∧ ∃ e, s'.hist = e :: s.hist) ∨
    (∃ res, s'.hist = (p.key, { tid := t0, op := p.op, res := res, inv := p.inv, resp := s.now + 1 }) :: s.hist) := by
  obtain ⟨t, l, lo, sm, sm2, hl, hne, hs⟩ := h
  have I := reachable_inv hr
  have B := reachable_binv hr
  have hnb := not_blocked_of_step hl hs
  obtain ⟨s1, hs1, hprog⟩ := thread_step I B hl hne hnb none lo none false sm sm2
  have hs' : step s t none lo none false sm sm2 = some s' := hs
  rw [hs'] at hs1
  cases hs1
  obtain ⟨l', he⟩ := stepN_effect (L := N s) I hl hne (Nat.le_of_lt (heap_lt_N s))
    (fun b c r hpc h' => by
      obtain ⟨pc, call⟩ := l
      cases hpc
      exact rcas_fail_cond hl hs' h') (step_stepN hl hs')
  have hthr : s'.threads = s.threads.set t l' := by
    rcases he with e | e
    · exact e.thr
    · exact e.thr
  by_cases htt : t0 = t
  · subst htt
    rw [hl] at hl0
    cases hl0
    rcases hprog with ⟨_, hh⟩ | ⟨pc', hl1, _, hh1, _⟩
    · rcases hh with ⟨hc, _⟩ | ⟨p', res, hp', hh⟩
      · rw [hp] at hc; cases hc
      · rw [hp] at hp'
        cases hp'
        exact Or.inr (Or.inr ⟨res, hh⟩)
    · exact Or.inl ⟨_, hl1, hp, hh1⟩
  · have hl0' : s'.threads[t0]? = some l0 := by rw [hthr, get_set_ne htt]; exact hl0
    rcases hprog with ⟨_, hh⟩ | ⟨pc', _, _, hh1, _⟩
    · rcases hh with ⟨_, hh⟩ | ⟨p', res, _, hh⟩
      · exact Or.inl ⟨l0, hl0', hp, hh⟩
      · exact Or.inr (Or.inl ⟨l0, hl0', hp, _, hh⟩)
    · exact Or.inl ⟨l0, hl0', hp, hh1⟩

theorem QStep.hist_mono {n : Nat} {s s' : State} (hr : Reachable n s) (h : QStep s s') :
    ∀ x ∈ s.hist, x ∈ s'.hist := by
  obtain ⟨t, l, lo, sm, sm2, hl, hne, hs⟩ := h
  have hnb := not_blocked_of_step hl hs
  obtain ⟨s1, hs1, hprog⟩ := thread_step (reachable_inv hr) (reachable_binv hr) hl hne hnb none lo none false sm sm2
  have hs' : step s t none lo none false sm sm2 = some s' := hs
  rw [hs'] at hs1
  cases hs1
  intro x hx
  rcases hprog with ⟨_, hh⟩ | ⟨pc', _, _, hh1, _⟩
  · rcases hh with ⟨_, hh⟩ | ⟨p', res, _, hh⟩
    · rw [hh]; exact hx
    · rw [hh]; exact List.mem_cons_of_mem _ hx
  · rw [hh1]; exact hx

theorem QRun.hist_mono {n : Nat} {s s' : State} {k : Nat} (hr : Reachable n s) (h : QRun s k s') :
    ∀ x ∈ s.hist, x ∈ s'.hist := by
  induction h with
  | nil => exact fun _ h => h
  | cons h1 _ ih => exact fun x hx => ih (h1.reachable hr) x (h1.hist_mono hr x hx)

/-- along a quiet run the call of a thread stays pending until it is answered, and answers stay -/
theorem qrun_call_returns {n : Nat} {s s' : State} {k : Nat} (hr : Reachable n s) (h : QRun s k s') {t0 : Nat}
    {l0 : Local} {p : Pending} (hl0 : s.threads[t0]? = some l0) (hp : l0.call = some p) :
    (∃ l1, s'.threads[t0]? = some l1 ∧ l1.call = some p) ∨ Answered s' t0 p := by
  induction h generalizing l0 with
  | nil => exact Or.inl ⟨l0, hl0, hp⟩
  | @cons s s1 s2 k h1 hrun ih =>
    have hr1 := h1.reachable hr
    have hmono : ∀ x ∈ s1.hist, x ∈ s2.hist := hrun.hist_mono hr1
    rcases h1.call_kept hr hl0 hp with ⟨l1, hl1, hp1, _⟩ | ⟨l1, hl1, hp1, _⟩ | ⟨res, hh⟩
    · exact ih hr1 hl1 hp1
    · exact ih hr1 hl1 hp1
    · exact Or.inr ⟨res, _, hmono _ (by rw [hh]; exact List.mem_cons_self)⟩

end Flurry.Proto.BinG
