import Flurry.Lemmas.BinNICover
/-! # Proto/BinNI: the pending cells of an iterator have pairwise disjoint key classes (C07)

The key class of a cell `(g, j)` is `{k | k % 2^g = j}`. The root cells have pairwise disjoint classes; a
forwarded cell is replaced by its two children, whose classes are disjoint and contained in the parent's.
So at most one pending cell covers a given key — and a cell that has been popped (walked, or replaced by
its children) is never pushed again: children are pushed only when a forwarding marker is LOADED. -/
namespace Flurry.Proto.BinNI
open Flurry.Lin
open Flurry.Proto.BinX (NodeS Cell Pending isReader dflt chainFrom cellHead cellOfHead nodeAt nodeAt_of_some get_set chainH)
open Flurry.Proto.BinN (Ghost Inv HInv cellAt)

/-- two cells with disjoint key classes -/
def Disj (a b : Nat × Nat) : Prop := ∀ k, ¬ (k % 2 ^ a.1 = a.2 ∧ k % 2 ^ b.1 = b.2)

theorem Disj.symm {a b : Nat × Nat} (h : Disj a b) : Disj b a := fun k ⟨h1, h2⟩ => h k ⟨h2, h1⟩

theorem rootCells_disj (g : Nat) : (rootCells g).Pairwise Disj := by
  unfold rootCells
  rw [List.pairwise_map]
  refine List.Pairwise.imp ?_ (List.pairwise_lt_range (n := 2 ^ g))
  intro a b hab k ⟨h1, h2⟩
  have h1' : k % 2 ^ g = a := h1
  have h2' : k % 2 ^ g = b := h2
  omega

/-- the children of a cell: disjoint from each other, and from everything the parent is disjoint from -/
theorem children_disj {g j : Nat} (hj : j < 2 ^ g) {rest : List (Nat × Nat)}
    (h : ((g, j) :: rest).Pairwise Disj) : ((g + 1, j) :: (g + 1, j + 2 ^ g) :: rest).Pairwise Disj := by
  obtain ⟨h1, h2⟩ := List.pairwise_cons.1 h
  have sub : ∀ j', (j' = j ∨ j' = j + 2 ^ g) → ∀ k, k % 2 ^ (g + 1) = j' → k % 2 ^ g = j := by
    intro j' hj' k hk
    have := BinN.keyOn_mod (Nat.le_succ g) hk
    rw [this]
    rcases hj' with rfl | rfl
    · exact Nat.mod_eq_of_lt hj
    · exact BinN.high_mod _ g hj
  refine List.pairwise_cons.2 ⟨?_, List.pairwise_cons.2 ⟨?_, h2⟩⟩
  · intro b hb
    rcases List.mem_cons.1 hb with rfl | hb
    · intro k ⟨a1, a2⟩
      have a1' : k % 2 ^ (g + 1) = j := a1
      have a2' : k % 2 ^ (g + 1) = j + 2 ^ g := a2
      have := BinN.two_pow_pos g
      omega
    · intro k ⟨a1, a2⟩
      exact h1 b hb k ⟨sub j (Or.inl rfl) k a1, a2⟩
  · intro b hb k ⟨a1, a2⟩
    exact h1 b hb k ⟨sub (j + 2 ^ g) (Or.inr rfl) k a1, a2⟩

/-- in every reachable state the pending cells of every iterator have pairwise disjoint key classes -/
theorem reachable_frames_disjoint {nt : Nat} {s : State} (hr : Reachable nt s) :
    ∀ (t : Nat) (it : Iter), s.its[t]? = some (some it) → it.todo.Pairwise Disj := by
  induction hr with
  | init =>
    intro t it h
    have : (List.replicate nt (none : Option Iter))[t]? = some (some it) := h
    rw [List.getElem?_replicate] at this
    split at this <;> cases this
  | @step s s' t mk inv rz pick hr hs ih =>
    obtain ⟨G, I⟩ := reachable_iinv hr
    intro t' it' h
    rcases step_cases hs with ⟨hi, -, n', -, rfl⟩ | ⟨hi, -, l0, hl0, hpc0, rfl⟩ | ⟨it, n', hi, hn', hit⟩
    · exact ih t' it' h
    · rcases get_set h with ⟨rfl, e⟩ | ⟨hne, h⟩
      · cases e; exact rootCells_disj _
      · exact ih t' it' h
    · obtain ⟨l0, hl0, hpc0⟩ := I.idle t it hi
      rw [idle_step hl0 hpc0] at hn'
      cases hn'
      have hT := ih t it hi
      rcases (iterStep_cases hit).2 with ⟨c, nd, -, -, hits, -, -⟩ | ⟨-, -, hits, -, -⟩ |
        ⟨g, j, rest, ptr', todo', -, htodo, hits, -, -, hcell⟩
      · rw [hits] at h
        rcases get_set h with ⟨rfl, e⟩ | ⟨hne, h⟩
        · cases e; exact hT
        · exact ih t' it' h
      · rw [hits] at h
        rcases get_set h with ⟨rfl, e⟩ | ⟨hne, h⟩
        · cases e
        · exact ih t' it' h
      · rw [hits] at h
        rcases get_set h with ⟨rfl, e⟩ | ⟨hne, h⟩
        · cases e
          rw [htodo] at hT
          show todo'.Pairwise Disj
          rcases hcell with ⟨-, -, rfl⟩ | ⟨hd, -, -, rfl⟩ | ⟨hc, -, rfl⟩
          · exact (List.pairwise_cons.1 hT).2
          · exact (List.pairwise_cons.1 hT).2
          · have hj : j < 2 ^ g := by
              rcases Nat.lt_or_ge j (2 ^ g) with h | h
              · exact h
              · have hc' : cellAt s.n g j = .moved := hc
                rw [I.inv.heap.shape.cell_of_idx_ge h] at hc'; cases hc'
            exact children_disj hj hT
        · exact ih t' it' h

end Flurry.Proto.BinNI
