import Flurry.Lemmas.BinNCells
/-! # Proto/BinN: the invariant of the generation structure (definitions)

`GenInv s`: the shape of the tables (`cur + 1` generations, one more while a resize runs; generation
`g` has `2^g` cells), every generation older than `cur` is forwarded for ever, the cells of the next
generation are never forwarded, at most one resizing thread; and per thread (`ThrOK`): the generation
it works in is at most `cur + 1`, and it is `cur + 1` only if the thread got there through a forwarding
marker that is still there; the node locks match the program counters; a thread holding a *validated*
lock (after the re-check) still sees its node as the head of its cell. -/
namespace Flurry.Proto.BinN
open Flurry.Lin
open Flurry.Proto.BinX (NodeS Cell Pending isReader dflt chainFrom cellHead cellOfHead)

/-- program counters of the resizing thread -/
def isT : Pc → Prop
  | .tNext | .tCell _ | .tCasMoved _ | .tLock _ _ | .tCheck _ _ | .tBuild _ _ | .tStoreLow _ _ _ _
  | .tStoreHigh _ _ _ | .tStoreMoved _ _ | .tUnlock _ _ | .tCommit => True
  | _ => False

/-- the generation a reader's / writer's program counter works in -/
def genOfPc : Pc → Option Nat
  | .rCell g | .wCell g | .wCas g | .wLock g _ | .wCheck g _ | .wFind g _ _ _ | .wStore g _ _ _ _
  | .wUnlock g _ _ _ => some g
  | _ => none

/-- the cell (of generation `cur`) the resizing thread is transferring -/
def tIdx : Pc → Option Nat
  | .tCell j | .tCasMoved j | .tLock j _ | .tCheck j _ | .tBuild j _ | .tStoreLow j _ _ _
  | .tStoreHigh j _ _ | .tStoreMoved j _ | .tUnlock j _ => some j
  | _ => none

/-- the thread holds the mutex of node `h` -/
def Holds : Pc → Nat → Prop
  | .wCheck _ h', h => h' = h
  | .wFind _ h' _ _, h => h' = h
  | .wStore _ h' _ _ _, h => h' = h
  | .wUnlock _ h' _ _, h => h' = h
  | .tCheck _ h', h => h' = h
  | .tBuild _ h', h => h' = h
  | .tStoreLow _ h' _ _, h => h' = h
  | .tStoreHigh _ h' _, h => h' = h
  | .tStoreMoved _ h', h => h' = h
  | .tUnlock _ h', h => h' = h
  | _, _ => False

/-- the cell `(g, j)` on which the thread holds a validated lock, and the head `h` it saw -/
def vcell (cur : Nat) (l : Local) : Option (Nat × Nat × Nat) :=
  match l.pc, l.call with
  | .wFind g h _ _, some p => some (g, p.key % 2 ^ g, h)
  | .wStore g h _ _ _, some p => some (g, p.key % 2 ^ g, h)
  | .tBuild j h, _ => some (cur, j, h)
  | .tStoreLow j h _ _, _ => some (cur, j, h)
  | .tStoreHigh j h _, _ => some (cur, j, h)
  | .tStoreMoved j h, _ => some (cur, j, h)
  | _, _ => none

/-- what the invariant says about one thread -/
structure ThrOK (s : State) (t : Nat) (l : Local) : Prop where
  tres : isT l.pc → s.resizing = true
  /-- a thread works in generation `cur + 1` only behind a forwarding marker -/
  gen : ∀ p g, l.call = some p → genOfPc l.pc = some g →
    g ≤ s.cur + 1 ∧ (g = s.cur + 1 → cellOf s s.cur p.key = .moved)
  idx : ∀ j, tIdx l.pc = some j → j < 2 ^ s.cur
  commit : l.pc = .tCommit → ∀ j, j < 2 ^ s.cur → cellAt s s.cur j = .moved
  held : ∀ h, Holds l.pc h → h < s.heap.length ∧ lockAt s.heap h = some t
  valid : ∀ g j h, vcell s.cur l = some (g, j, h) → cellAt s g j = .node h ∧ Holds l.pc h

structure GenInv (s : State) : Prop where
  len : s.tabs.length = s.cur + 1 + (if s.resizing then 1 else 0)
  rows : ∀ g row, s.tabs[g]? = some row → row.length = 2 ^ g
  /-- every cell of a generation older than `cur` is forwarded -/
  old : ∀ g j, g < s.cur → j < 2 ^ g → cellAt s g j = .moved
  /-- no cell of the next generation is forwarded -/
  nextOK : ∀ j, cellAt s (s.cur + 1) j ≠ .moved
  /-- forwarding markers in generation `cur` only while a resize runs -/
  curMoved : ∀ j, cellAt s s.cur j = .moved → s.resizing = true
  uniqT : ∀ (t t' : Nat) (l l' : Local), s.threads[t]? = some l → s.threads[t']? = some l' →
    isT l.pc → isT l'.pc → t = t'
  thr : ∀ (t : Nat) (l : Local), s.threads[t]? = some l → ThrOK s t l

end Flurry.Proto.BinN
