import Flurry.Lemmas.LinBasic
import Flurry.Lemmas.LinSearch
import Flurry.Lemmas.LinPoints
import Flurry.Lemmas.LinTrace
/-! # Linearizability lemmas: summary

* `LinBasic.lean`: `rtOk`, `realTimeOk_iff`, `perm_range_of_length_of_mem`, `isPermOfRange_iff`,
  `validate_iff`, `linearizable_iff_pairwise`, **`validate_sound`**, `linearizable_iff_validate`
* `LinSearch.lean`: `go_sound`, **`search_sound`**, `search_linearizable`, `go_complete`,
  **`search_complete`**, `search_isSome_iff`, `search_eq_none_iff`, `Decidable (Linearizable ..)`
* `LinPoints.lean`: `replay_append`, `replay_append_history`, **`lin_of_points`**, `pointOrder`,
  `lin_of_points_sorted`, `spec_read_after_ins`, `spec_tryIns_keeps`, `spec_absent_stays`,
  `spec_present_change`, **`spec_cipInc_counts`**, `lin_snoc_get`, **`lin_final_read`** (with
  `inv ≤ resp` hypotheses; counterexample `exBadInterval` without), examples by `decide`.
* `LinTrace.lean`: `isRead`, **`lin_of_trace`** (a trace `A : Nat → KSt` of abstract states, writers
  change it at their pairwise distinct points, readers read it at their points; non-strict point order) -/
