import Flurry.Lemmas.SeqTableBasic
/-! # T2: lookup semantics (`get`, `entries`) on a well-formed table -/
namespace Flurry.Seq
open Flurry Flurry.Gen

theorem bini_lt_of_isPow2 (h : Nat) {n : Nat} (hp : IsPow2 n) : bini h n < n := by
  obtain ⟨k, rfl⟩ := hp; exact bini_lt h k

theorem TableWF.nodeOk {hash : Nat → Nat} {t : Table} (h : TableWF hash t) {j : Nat} {nd : Node}
    (hnd : nd ∈ (tableBin t j).nodes) : NodeOk hash t.length j nd :=
  (h.bin j).nodeOk nd hnd

/-- a node of a well-formed table is in the bin that the hash of its key selects -/
theorem TableWF.mem_nodes_iff {hash : Nat → Nat} {t : Table} (h : TableWF hash t) {nd : Node} :
    nd ∈ t.flatMap Bin.nodes ↔ nd ∈ (tableBin t (bini (hash nd.key) t.length)).nodes := by
  rw [mem_flatMap_nodes]
  constructor
  · rintro ⟨j, _, hnd⟩
    have := h.nodeOk hnd
    rw [← this.1, this.2]; exact hnd
  · intro hnd
    exact ⟨_, bini_lt_of_isPow2 _ h.1, hnd⟩

theorem TableWF.hash_eq {hash : Nat → Nat} {t : Table} (h : TableWF hash t) {nd : Node}
    (hnd : nd ∈ t.flatMap Bin.nodes) : nd.hash = hash nd.key := by
  obtain ⟨j, _, hj⟩ := mem_flatMap_nodes.1 hnd
  exact (h.nodeOk hj).1

/-- no key occurs twice in a well-formed table -/
theorem TableWF.keysNodup {hash : Nat → Nat} {t : Table} (h : TableWF hash t) :
    KeysNodup (t.flatMap Bin.nodes) := by
  rw [keysNodup_iff_pairwise, List.pairwise_flatMap]
  constructor
  · intro b hb
    obtain ⟨j, hj, rfl⟩ := List.getElem_of_mem hb
    have := (h.bin j).keysNodup
    rw [tableBin_eq_getElem hj] at this
    exact keysNodup_iff_pairwise.1 this
  · rw [List.pairwise_iff_getElem]
    intro i j hi hj hij x hx y hy hxy
    rw [← tableBin_eq_getElem hi] at hx
    rw [← tableBin_eq_getElem hj] at hy
    have ox := h.nodeOk hx
    have oy := h.nodeOk hy
    have : i = j := by rw [← ox.2, ← oy.2, ox.1, oy.1, hxy]
    omega

/-- the lookup in the table, without the `Map` wrapper -/
theorem get_eq_find {m : Map} {t : Table} (ht : m.table = some t) (hw : TableWF m.hash t) (k : Nat) :
    get k m = (tableBin t (bini (m.hash k) t.length)).find (m.hash k) k := by
  have := hw.length_pos
  simp only [get, ht]
  rw [if_neg]
  simp only [beq_iff_eq]; omega

theorem entries_eq {m : Map} {t : Table} (ht : m.table = some t) :
    entries m = t.flatMap Bin.nodes := by simp [entries, ht]

/-- **T2** -/
theorem get_iff {m : Map} {t : Table} (ht : m.table = some t) (hw : TableWF m.hash t) {k : Nat}
    {nd : Node} : get k m = some nd ↔ nd ∈ entries m ∧ nd.key = k := by
  rw [get_eq_find ht hw, Bin.find_iff_key (hw.bin _), entries_eq ht]
  constructor
  · rintro ⟨h1, rfl⟩; exact ⟨hw.mem_nodes_iff.2 h1, rfl⟩
  · rintro ⟨h1, rfl⟩; exact ⟨hw.mem_nodes_iff.1 h1, rfl⟩

theorem get_none_iff {m : Map} {t : Table} (ht : m.table = some t) (hw : TableWF m.hash t) {k : Nat} :
    get k m = none ↔ ∀ nd ∈ entries m, nd.key ≠ k := by
  constructor
  · intro hg nd hnd hk
    have := (get_iff ht hw).2 ⟨hnd, hk⟩
    rw [hg] at this; cases this
  · intro hall
    cases hg : get k m with
    | none => rfl
    | some nd => exact absurd ((get_iff ht hw).1 hg).2 (hall nd ((get_iff ht hw).1 hg).1)

theorem get_isSome_iff {m : Map} {t : Table} (ht : m.table = some t) (hw : TableWF m.hash t)
    {k : Nat} : (get k m).isSome ↔ k ∈ (entries m).map (·.key) := by
  rw [List.mem_map]
  constructor
  · intro h
    obtain ⟨nd, hnd⟩ := Option.isSome_iff_exists.1 h
    exact ⟨nd, (get_iff ht hw).1 hnd⟩
  · rintro ⟨nd, h1, h2⟩
    rw [(get_iff ht hw).2 ⟨h1, h2⟩]; rfl

theorem entries_keysNodup {m : Map} {t : Table} (ht : m.table = some t) (hw : TableWF m.hash t) :
    KeysNodup (entries m) := by rw [entries_eq ht]; exact hw.keysNodup

theorem entries_keys_nodup {m : Map} {t : Table} (ht : m.table = some t) (hw : TableWF m.hash t) :
    ((entries m).map (·.key)).Nodup := entries_keysNodup ht hw

theorem entries_hash {m : Map} {t : Table} (ht : m.table = some t) (hw : TableWF m.hash t)
    {nd : Node} (hnd : nd ∈ entries m) : nd.hash = m.hash nd.key := by
  rw [entries_eq ht] at hnd; exact hw.hash_eq hnd

/-- before the table exists -/
theorem get_of_table_none {m : Map} (ht : m.table = none) (k : Nat) : get k m = none := by
  simp [get, ht]
theorem entries_of_table_none {m : Map} (ht : m.table = none) : entries m = [] := by
  simp [entries, ht]

/-- `get` and `entries` only look at the table and the hasher -/
theorem get_congr {m m' : Map} (ht : m'.table = m.table) (hh : m'.hash = m.hash) (k : Nat) :
    get k m' = get k m := by simp only [get, ht, hh]
theorem entries_congr {m m' : Map} (ht : m'.table = m.table) : entries m' = entries m := by
  simp only [entries, ht]

/-- two well-formed maps with the same hasher and permuted entries answer every lookup alike -/
theorem get_eq_of_perm {m m' : Map} {t t' : Table} (ht : m.table = some t) (ht' : m'.table = some t')
    (hw : TableWF m.hash t) (hw' : TableWF m'.hash t')
    (hp : (entries m').Perm (entries m)) (k : Nat) : get k m' = get k m := by
  apply Option.ext
  intro nd
  rw [get_iff ht hw, get_iff ht' hw', hp.mem_iff]

end Flurry.Seq
