import Flurry.Lemmas.SeqTableBasic
import Flurry.Lemmas.SeqTableLookup
import Flurry.Lemmas.SeqTableTransfer
import Flurry.Lemmas.SeqTableCtl
import Flurry.Lemmas.SeqTableAddCount
import Flurry.Lemmas.SeqTablePresize
/-! # Map-level lemmas of the sequential model: summary and concrete instances

* `SeqTableBasic.lean` (T1): `tableBin_set`, `table_length_set`, `emptyTable_length`,
  `tableBin_emptyTable`, `tableWF_emptyTable`, `flatMap_nodes_emptyTable`, `tableWF_set`,
  `mem_flatMap_nodes`, `flatMap_nodes_set_perm`, `flatMap_nodes_set_length`,
  `mem_flatMap_nodes_set`, `flatMap_nodes_set_same`
* `SeqTableLookup.lean` (T2): `get_iff`, `get_none_iff`, `get_isSome_iff`, `entries_keys_nodup`,
  `entries_hash`, `get_eq_of_perm`, `TableWF.mem_nodes_iff`
* `SeqTableTransfer.lean` (T3): `transferTable_eq`, `transferTable_length`, `transferTable_wf`,
  `transferTable_nodes_perm`, `transferTable_find`, `Same`, `transfer_get`, `transfer_same`,
  `transfer_entries_perm`, `transfer_count`, `transfer_sizeCtl`, `transfer_hash`, `transfer_resizes`
* `SeqTableCtl.lean` (T4): `PreWF`, `transfer_wf`, `SizeCtlInit`/`InitOk`, `initTable_wf`,
  `initTable_same`, `initTable_of_wf_some`, `initTable_wf_counterexample`, `withCapacity_wf`, …
* `SeqTableAddCount.lean` (T4): `addCount_go_spec` (fuel), `addCount_some_wf`, `addCount_of_below`,
  `addCount_below_wf`, `addCount_removal`, `addCount_insert_wf`, monotonicity
* `SeqTablePresize.lean` (T4): `tryPresize_go_spec_some` (fuel), `tryPresize_spec`,
  `tryPresize_room`, `reserve_spec`, `treeify_set_spec`, `treeifyBin_spec`, monotonicity -/
namespace Flurry.Seq
open Flurry Flurry.Gen

/-! ## concrete instances: identity hash, 8 bins -/

private def nd (k : Nat) : Node := { hash := k, key := k, ki := 0, val := k, vi := k }

private def t8 : Table :=
  [.empty, .list [nd 1, nd 9], .list [nd 2], .empty, .empty, .list [nd 5], .empty, .empty]

private def m8 : Map := { table := some t8, count := 4, sizeCtl := 6, hash := id }

private theorem t8_wf : TableWF id t8 := ⟨⟨3, rfl⟩, by decide, by decide⟩

private theorem m8_wf : WF m8 :=
  (wf_some_iff (t := t8) rfl).2 ⟨t8_wf, by decide, by decide, Or.inl (by decide)⟩

-- T1
example : tableBin (t8.set 3 (.list [nd 3])) 3 = .list [nd 3] := tableBin_set_self _ (by decide)
example : TableWF id (t8.set 3 (.list [nd 3])) := tableWF_set t8_wf (by decide)
example : ((t8.set 1 (.list [nd 1])).flatMap Bin.nodes).length + 2 = 4 + 1 :=
  flatMap_nodes_set_length (t := t8) (i := 1) (.list [nd 1]) (by decide)
example : TableWF id (emptyTable 16) := tableWF_emptyTable id ⟨4, rfl⟩ (by decide)

-- T2
example : get 9 m8 = some (nd 9) := (get_iff (t := t8) rfl t8_wf).2 ⟨by decide, rfl⟩
example : get 17 m8 = none := (get_none_iff (t := t8) rfl t8_wf).2 (by decide)
example : ((entries m8).map (·.key)).Nodup := entries_keys_nodup (t := t8) rfl t8_wf

-- T3: 1 stays in bin 1, 9 moves to bin 9
example : tableBin (transferTable t8) 1 = .list [nd 1] ∧ tableBin (transferTable t8) 9 = .list [nd 9] := by
  decide
example : TableWF id (transferTable t8) := transferTable_wf t8_wf (by decide)
example : get 9 (transfer m8) = get 9 m8 := transfer_get (t := t8) rfl t8_wf 9
example : WF (transfer m8) := transfer_wf (t := t8) m8_wf rfl (by decide)
example : (transfer m8).sizeCtl = 12 ∧ tableLen (transfer m8) = 16 ∧ (transfer m8).resizes = 1 := by
  decide

-- T4: `addCount` after two more nodes were put into the table of `m8` one by one: the second
-- one reaches the threshold 6 and the table is doubled
private def t8' : Table := (t8.set 3 (.list [nd 3])).set 4 (.list [nd 4])
private def m8' : Map := { m8 with table := some t8', count := 5 }
private theorem m8'_pre : PreWF m8' t8' :=
  ⟨rfl, tableWF_set (tableWF_set t8_wf (by decide)) (by decide), by decide⟩
example : WF (addCount 1 (some 1) m8') := (addCount_some_wf m8'_pre (by decide)).1
example : tableLen (addCount 1 (some 1) m8') = 16 ∧ (addCount 1 (some 1) m8').count = 6 := by decide
-- a removal: nothing but the counter changes
example : addCount (-1) (some 1) { m8 with table := some (t8.set 5 .empty) } =
    { m8 with table := some (t8.set 5 .empty), count := 3 } :=
  addCount_of_below (t := t8.set 5 .empty) rfl (Or.inl (by decide))

-- T4: `initTable`, `withCapacity`, `tryPresize`, `treeifyBin`
example : WF (initTable { hash := id }) := initTable_wf (new_wf id).1 (new_wf id).2
example : tableLen (initTable { hash := id }) = 16 := by decide
example : WF (withCapacity id 100) := withCapacity_wf id 100
example : WF (tryPresize 100 { hash := id }) := tryPresize_wf 100 (new_wf id).1 (new_wf id).2
example : WF (tryPresize 100 m8) ∧ ∀ k, get k (tryPresize 100 m8) = get k m8 :=
  ⟨tryPresize_wf 100 m8_wf (InitOk.of_some (t := t8) rfl),
   (tryPresize_same 100 m8_wf (InitOk.of_some (t := t8) rfl)).2.1⟩
example : (100 : Int) < (tryPresize 100 m8).sizeCtl ∨ tableLen (tryPresize 100 m8) = MAXIMUM_CAPACITY :=
  tryPresize_room 100 m8_wf (InitOk.of_some (t := t8) rfl) (by decide)
-- 8 bins < 64: `treeifyBin` resizes instead of converting the bin
example : WF (treeifyBin 1 m8) ∧ tableLen m8 ≤ tableLen (treeifyBin 1 m8) :=
  ⟨treeifyBin_wf 1 m8_wf, (treeifyBin_spec 1 m8_wf).2.2.2.1⟩

-- 64 bins: the list bin becomes a tree bin, lookups unchanged
private def t64 : Table := (emptyTable 64).set 1 (.list [nd 1, nd 65, nd 129])
private def m64 : Map := { table := some t64, count := 3, sizeCtl := 48, hash := id }
private theorem m64_wf : WF m64 :=
  (wf_some_iff (t := t64) rfl).2
    ⟨tableWF_set (tableWF_emptyTable id ⟨6, rfl⟩ (by decide)) (by decide), by decide, by decide,
      Or.inl (by decide)⟩
example : (treeifyBin 1 m64).table =
    some (t64.set 1 (.tree (RB.ofList [nd 1, nd 65, nd 129]) [nd 1, nd 65, nd 129])) := by decide
example : WF (treeifyBin 1 m64) ∧ ∀ k, get k (treeifyBin 1 m64) = get k m64 :=
  ⟨treeifyBin_wf 1 m64_wf, (treeifyBin_same 1 m64_wf).2.1⟩
example : len m64 = 3 := by rw [m64_wf.len_eq]; decide

end Flurry.Seq
