import Flurry.Proto.BinXC
/-! # Proto/BinXC: the transitions in normal form (C01, C03, C04)

`StepK s t l s'` lists the possible transitions of thread `t` (with local state `l`) with explicit
successor states, grouped by their effect on the shared memory; `step_stepK` dissects `step` once
and for all. -/
namespace Flurry.Proto.BinXC
open Flurry.Lin

/-- the state with the clock advanced -/
def tick (s : State) : State := { s with now := s.now + 1 }

def insLike (op : KOp) : Prop := ∃ v vi, op = .ins v vi ∨ op = .tryIns v vi

/-- transitions of a thread with a call in flight that only change its program counter -/
inductive Move (s : State) (p : Pending) : Pc → Pc → Prop
  | rTable : Move s p .rTable (.rCell s.cur)
  | rCellMoved {tab : Tab} : cellOf s tab p.key = .moved → Move s p (.rCell tab) (.rCell .new)
  | rCellNode {tab : Tab} {h : Nat} : cellOf s tab p.key = .node h → Move s p (.rCell tab) (.rNode (some h))
  | rNext {c : Nat} {n : NodeS} : s.heap[c]? = some n → n.key ≠ p.key →
      Move s p (.rNode (some c)) (.rNode n.next)
  | wTable : Move s p .wTable (.wCell s.cur)
  | wCellEmpty {tab : Tab} : cellOf s tab p.key = .empty → insLike p.op → Move s p (.wCell tab) (.wCas tab)
  | wCellMoved {tab : Tab} : cellOf s tab p.key = .moved → Move s p (.wCell tab) (.wCell .new)
  | wCellNode {tab : Tab} {h : Nat} : cellOf s tab p.key = .node h → Move s p (.wCell tab) (.wLock tab h)
  | casFail {tab : Tab} : Move s p (.wCas tab) (.wCell tab)
  | checkOk {tab : Tab} {h : Nat} : cellOf s tab p.key = .node h →
      Move s p (.wCheck tab h) (.wFind tab h none (some h))
  | checkFail {tab : Tab} {h : Nat} : cellOf s tab p.key ≠ .node h →
      Move s p (.wCheck tab h) (.wUnlock tab h .none true)
  | findEnd {tab : Tab} {h : Nat} {pred : Option Nat} :
      Move s p (.wFind tab h pred none) (.wStore tab h pred none none)
  | findHit {tab : Tab} {h : Nat} {pred : Option Nat} {c : Nat} {n : NodeS} :
      s.heap[c]? = some n → n.key = p.key →
      Move s p (.wFind tab h pred (some c)) (.wStore tab h pred (some c) n.next)
  | findNext {tab : Tab} {h : Nat} {pred : Option Nat} {c : Nat} {n : NodeS} :
      s.heap[c]? = some n → n.key ≠ p.key →
      Move s p (.wFind tab h pred (some c)) (.wFind tab h (some c) n.next)

/-- transitions of a `clear` that only change its program counter (reading a cell as empty is a
linearization point and is listed separately: `StepK.cEmpty`) -/
inductive CMove (s : State) : Pc → Pc → Prop
  | table : CMove s .cTable (.cCell s.cur 0)
  | cellMoved {tab : Tab} {idx : Nat} : idx < tabLen tab → cellAt s tab idx = .moved → CMove s (.cCell tab idx) .cWait
  | cellNode {tab : Tab} {idx h : Nat} : idx < tabLen tab → cellAt s tab idx = .node h →
      CMove s (.cCell tab idx) (.cLock tab idx h)
  | waitGo : s.cur = .new → CMove s .cWait (.cCell .new 0)
  | waitStay : s.cur ≠ .new → CMove s .cWait .cWait
  | checkOk {tab : Tab} {idx h : Nat} : cellAt s tab idx = .node h → CMove s (.cCheck tab idx h) (.cStore tab idx h)
  | checkFail {tab : Tab} {idx h : Nat} : cellAt s tab idx ≠ .node h →
      CMove s (.cCheck tab idx h) (.cUnlock tab idx h true)

/-- transitions of the resizing thread that only change its program counter -/
inductive TMove (s : State) : Pc → Pc → Prop
  | cellEmpty : s.cell0 = .empty → TMove s .tCell .tCasMoved
  | cellNode {h : Nat} : s.cell0 = .node h → TMove s .tCell (.tLock h)
  | cellMoved : s.cell0 = .moved → TMove s .tCell .tCommit
  | casFail : s.cell0 ≠ .empty → TMove s .tCasMoved .tCell
  | checkOk {h : Nat} : s.cell0 = .node h → TMove s (.tCheck h) (.tBuild h)

/-- transitions of a writer that change the lock word of node `h` to `x` -/
inductive LockMove (s : State) (t : Nat) : Pc → Nat → Option Nat → Pc → Prop
  | lock {tab : Tab} {h : Nat} {n : NodeS} : s.heap[h]? = some n → n.lock = none →
      LockMove s t (.wLock tab h) h (some t) (.wCheck tab h)
  | unlockRetry {tab : Tab} {h : Nat} {res : KRes} : LockMove s t (.wUnlock tab h res true) h none (.wCell tab)
  | cLock {tab : Tab} {idx h : Nat} {n : NodeS} : s.heap[h]? = some n → n.lock = none →
      LockMove s t (.cLock tab idx h) h (some t) (.cCheck tab idx h)
  | cUnlock {tab : Tab} {idx h : Nat} {retry : Bool} :
      LockMove s t (.cUnlock tab idx h retry) h none (.cCell tab (if retry then idx else idx + 1))

/-- transitions of the resizing thread that change the lock word of node `h` to `x` -/
inductive TLockMove (s : State) (t : Nat) : Pc → Nat → Option Nat → Pc → Prop
  | lock {h : Nat} {n : NodeS} : s.heap[h]? = some n → n.lock = none →
      TLockMove s t (.tLock h) h (some t) (.tCheck h)
  | checkFail {h : Nat} : s.cell0 ≠ .node h → TLockMove s t (.tCheck h) h none .tCell
  | unlock {h : Nat} : TLockMove s t (.tUnlock h) h none .tCommit

def missRes (op : KOp) : KRes := match op with | .has => .bool false | _ => .none
def hitRes (op : KOp) (n : NodeS) : KRes := match op with | .has => .bool true | _ => .some n.val.1 n.val.2

/-- calls that complete without a store of their own -/
inductive Fin (s : State) (p : Pending) : Pc → KRes → Prop
  | rEmpty {tab : Tab} : cellOf s tab p.key = .empty → Fin s p (.rCell tab) (missRes p.op)
  | miss : Fin s p (.rNode none) (missRes p.op)
  | hit {c : Nat} {n : NodeS} : s.heap[c]? = some n → n.key = p.key →
      Fin s p (.rNode (some c)) (hitRes p.op n)
  | wEmpty {tab : Tab} : cellOf s tab p.key = .empty → ¬ insLike p.op → Fin s p (.wCell tab) .none

/-- the nodes of the old list (head `h`) that the transfer copied -/
def copiedOf (s : State) (h : Nat) : List Nat :=
  (chainFrom s.heap s.heap.length (some h)).take (lastRunStart s.heap (chainFrom s.heap s.heap.length (some h)))

/-- a removal retires the node it unlinked -/
def retireHit (s' : State) (op : KOp) (hit : Option Nat) : State :=
  match op, hit with
  | .rm, some i | .cipRm, some i => { s' with retired := i :: s'.retired }
  | _, _ => s'

inductive StepK (s : State) (t : Nat) (l : Local) : State → Prop
  | idle : l.pc = .idle → StepK s t l (setT (tick s) t l)
  | invoke (k : Nat) (op : KOp) : l.pc = .idle →
      StepK s t l (setT (tick s) t
        { pc := if isReader op then .rTable else .wTable, call := some ⟨k, op, s.now + 1⟩ })
  | clearStart : l.pc = .idle →
      StepK s t l (setT (tick s) t { pc := .cTable, call := some ⟨0, .cipRm, s.now + 1⟩ })
  | cmove (p : Pending) (pc' : Pc) : l.call = some p → CMove s l.pc pc' →
      StepK s t l (setT (tick s) t { l with pc := pc' })
  | cEmpty (p : Pending) (tab : Tab) (idx : Nat) : l.call = some p → l.pc = .cCell tab idx → idx < tabLen tab →
      cellAt s tab idx = .empty → StepK s t l (setT (tick s) t { l with pc := .cCell tab (idx + 1) })
  | cFin (p : Pending) (tab : Tab) (idx : Nat) : l.call = some p → l.pc = .cCell tab idx → tabLen tab ≤ idx →
      StepK s t l (finishClear (tick s) t p)
  | cStore (p : Pending) (tab : Tab) (idx h : Nat) : l.call = some p → l.pc = .cStore tab idx h →
      StepK s t l (setT { setCellAt (tick s) tab idx .empty with
          retired := chainFrom s.heap s.heap.length (some h) ++ (setCellAt (tick s) tab idx .empty).retired } t
        { l with pc := .cUnlock tab idx h false })
  | resize : l.pc = .idle → s.resizing = false →
      StepK s t l { (setT (tick s) t { l with pc := .tCell }) with resizing := true }
  | move (p : Pending) (pc' : Pc) : l.call = some p → Move s p l.pc pc' →
      StepK s t l (setT (tick s) t { l with pc := pc' })
  | tmove (pc' : Pc) : l.call = none → TMove s l.pc pc' →
      StepK s t l (setT (tick s) t { l with pc := pc' })
  | lockMove (p : Pending) (h : Nat) (x : Option Nat) (pc' : Pc) : l.call = some p → LockMove s t l.pc h x pc' →
      StepK s t l (setT (setNode (tick s) h (fun m => { m with lock := x })) t { l with pc := pc' })
  | tlockMove (h : Nat) (x : Option Nat) (pc' : Pc) : l.call = none → TLockMove s t l.pc h x pc' →
      StepK s t l (setT (setNode (tick s) h (fun m => { m with lock := x })) t { l with pc := pc' })
  | fin (p : Pending) (res : KRes) : l.call = some p → Fin s p l.pc res →
      StepK s t l (finish (tick s) t p res)
  | cas (p : Pending) (tab : Tab) (v vi : Nat) : l.call = some p → l.pc = .wCas tab →
      cellOf s tab p.key = .empty → (p.op = .ins v vi ∨ p.op = .tryIns v vi) →
      StepK s t l (finish (setCell { tick s with heap := s.heap ++ [⟨p.key, (v, vi), none, none⟩] } tab p.key
        (.node s.heap.length)) t p .none)
  | store (p : Pending) (tab : Tab) (h : Nat) (pred hit hnext : Option Nat) : l.call = some p →
      l.pc = .wStore tab h pred hit hnext →
      StepK s t l (setT (retireHit (storeAt (tick s) tab p pred hit hnext).1 p.op hit) t
        { l with pc := .wUnlock tab h (storeAt (tick s) tab p pred hit hnext).2 false })
  | unlockFin (p : Pending) (tab : Tab) (h : Nat) (res : KRes) : l.call = some p →
      l.pc = .wUnlock tab h res false →
      StepK s t l (finish (setNode (tick s) h (fun m => { m with lock := none })) t p res)
  | casMoved : l.call = none → l.pc = .tCasMoved → s.cell0 = .empty →
      StepK s t l { (setT (tick s) t { l with pc := .tCommit }) with cell0 := .moved }
  | build (h : Nat) : l.call = none → l.pc = .tBuild h →
      StepK s t l (setT { tick s with heap := (splitBin s.heap (chainFrom s.heap s.heap.length (some h))).1 } t
        { l with pc := .tStoreLow h (splitBin s.heap (chainFrom s.heap s.heap.length (some h))).2.1
                                      (splitBin s.heap (chainFrom s.heap s.heap.length (some h))).2.2 })
  | storeLow (h : Nat) (lo hg : Option Nat) : l.call = none → l.pc = .tStoreLow h lo hg →
      StepK s t l { (setT (tick s) t { l with pc := .tStoreHigh h hg }) with lowCell := cellOfHead lo }
  | storeHigh (h : Nat) (hg : Option Nat) : l.call = none → l.pc = .tStoreHigh h hg →
      StepK s t l { (setT (tick s) t { l with pc := .tStoreMoved h }) with highCell := cellOfHead hg }
  | storeMoved (h : Nat) : l.call = none → l.pc = .tStoreMoved h →
      StepK s t l { (setT (tick s) t { l with pc := .tUnlock h }) with cell0 := .moved, retired := copiedOf s h ++ s.retired }
  | commit : l.call = none → l.pc = .tCommit →
      StepK s t l { (setT (tick s) t { l with pc := .idle }) with cur := .new }

theorem setT_self {s : State} {t : Nat} {l : Local} (hl : s.threads[t]? = some l) : setT s t l = s := by
  unfold setT
  obtain ⟨ht, rfl⟩ := List.getElem?_eq_some_iff.1 hl
  rw [List.set_getElem_self]

theorem step_stepK {s s' : State} {t : Nat} {l : Local} {inv : Option (Nat × KOp)} {rz cl : Bool}
    (hl : s.threads[t]? = some l) (hs : step s t inv rz cl = some s') : StepK s t l s' := by
  unfold step stepG at hs
  rw [hl] at hs
  simp only at hs
  obtain ⟨pc, call⟩ := l
  cases pc with
  | idle =>
    simp only at hs
    cases rz with
    | true =>
      simp only [if_true] at hs
      split at hs
      · simp only [Option.some.injEq] at hs
        subst hs
        have : tick s = setT (tick s) t ⟨.idle, call⟩ := (setT_self (s := tick s) hl).symm
        show StepK s t _ (tick s)
        rw [this]
        exact .idle rfl
      · rename_i hrz
        simp only [Option.some.injEq] at hs
        subst hs
        exact .resize rfl (by simpa using hrz)
    | false =>
      simp only [Bool.false_eq_true, if_false] at hs
      cases cl with
      | true =>
        simp only [if_true, Option.some.injEq] at hs
        subst hs
        exact .clearStart rfl
      | false =>
      simp only [Bool.false_eq_true, if_false] at hs
      cases inv with
      | none =>
        simp only [Option.some.injEq] at hs
        subst hs
        have : tick s = setT (tick s) t ⟨.idle, call⟩ := (setT_self (s := tick s) hl).symm
        show StepK s t _ (tick s)
        rw [this]
        exact .idle rfl
      | some ko =>
        obtain ⟨k, op⟩ := ko
        simp only [Option.some.injEq] at hs
        subst hs
        exact .invoke k op rfl
  | rTable =>
    cases call with
    | none => simp at hs
    | some p =>
      simp only [Option.some.injEq] at hs
      subst hs
      exact StepK.move p _ rfl (by exact .rTable)
  | rCell tab =>
    cases call with
    | none => simp at hs
    | some p =>
      simp only at hs
      split at hs
      · rename_i hc
        simp only [Option.some.injEq] at hs; subst hs
        exact StepK.fin p _ rfl (by exact .rEmpty hc)
      · rename_i hc
        simp only [Option.some.injEq] at hs; subst hs
        exact StepK.move p _ rfl (by exact .rCellMoved hc)
      · rename_i h hc
        simp only [Option.some.injEq] at hs; subst hs
        exact StepK.move p _ rfl (by exact .rCellNode hc)
  | rNode cur =>
    cases call with
    | none => simp at hs
    | some p =>
      cases cur with
      | none =>
        simp only [Option.some.injEq] at hs
        subst hs
        exact StepK.fin p _ rfl (by exact .miss)
      | some c =>
        simp only at hs
        cases hn : s.heap[c]? with
        | none => rw [hn] at hs; simp at hs
        | some n =>
          rw [hn] at hs
          simp only at hs
          by_cases hk : n.key = p.key
          · rw [if_pos (by simpa using hk)] at hs
            simp only [Option.some.injEq] at hs
            subst hs
            exact StepK.fin p _ rfl (by exact (.hit hn hk))
          · rw [if_neg (by simpa using hk)] at hs
            simp only [Option.some.injEq] at hs
            subst hs
            exact StepK.move p _ rfl (by exact (.rNext hn hk))
  | wTable =>
    cases call with
    | none => simp at hs
    | some p =>
      simp only [Option.some.injEq] at hs
      subst hs
      exact StepK.move p _ rfl (by exact .wTable)
  | wCell tab =>
    cases call with
    | none => simp at hs
    | some p =>
      simp only at hs
      split at hs
      · rename_i hc
        split at hs
        · rename_i v vi hop
          simp only [Option.some.injEq] at hs; subst hs
          exact StepK.move p _ rfl (by exact (.wCellEmpty hc ⟨v, vi, Or.inl hop⟩))
        · rename_i v vi hop
          simp only [Option.some.injEq] at hs; subst hs
          exact StepK.move p _ rfl (by exact (.wCellEmpty hc ⟨v, vi, Or.inr hop⟩))
        · rename_i h1 h2
          simp only [Option.some.injEq] at hs; subst hs
          have hni : ¬ insLike p.op := by
            rintro ⟨v, vi, h | h⟩
            · exact h1 v vi h
            · exact h2 v vi h
          exact StepK.fin p _ rfl (by exact (.wEmpty hc hni))
      · rename_i hc
        simp only [Option.some.injEq] at hs; subst hs
        exact StepK.move p _ rfl (by exact (.wCellMoved hc))
      · rename_i h hc
        simp only [Option.some.injEq] at hs; subst hs
        exact StepK.move p _ rfl (by exact (.wCellNode hc))
  | wCas tab =>
    cases call with
    | none => simp at hs
    | some p =>
      simp only at hs
      split at hs
      · rename_i v vi hh hop
        simp only [Option.some.injEq] at hs; subst hs
        exact .cas p tab v vi rfl rfl hh (Or.inl hop)
      · rename_i v vi hh hop
        simp only [Option.some.injEq] at hs; subst hs
        exact .cas p tab v vi rfl rfl hh (Or.inr hop)
      · simp only [Option.some.injEq] at hs; subst hs
        exact StepK.move p _ rfl (by exact .casFail)
  | wLock tab h =>
    cases call with
    | none => simp at hs
    | some p =>
      simp only at hs
      cases hn : s.heap[h]? with
      | none => rw [hn] at hs; simp at hs
      | some n =>
        rw [hn] at hs
        simp only at hs
        cases hlk : n.lock with
        | some x => rw [hlk] at hs; simp at hs
        | none =>
          rw [hlk] at hs
          simp only [Option.isSome_none, Bool.false_eq_true, if_false, Option.some.injEq] at hs
          subst hs
          exact StepK.lockMove p h (some t) _ rfl (by exact (.lock hn hlk))
  | wCheck tab h =>
    cases call with
    | none => simp at hs
    | some p =>
      simp only [Bool.not_true, Bool.false_or] at hs
      by_cases hh : cellOf s tab p.key = .node h
      · have hh' : cellOf (tick s) tab p.key = .node h := by cases tab <;> exact hh
        rw [if_pos (by show (cellOf (tick s) tab p.key == .node h) = true; rw [hh']; exact beq_self_eq_true _)] at hs
        simp only [Option.some.injEq] at hs
        subst hs
        exact StepK.move p _ rfl (by exact (.checkOk hh))
      · have hh' : cellOf (tick s) tab p.key ≠ .node h := by cases tab <;> exact hh
        rw [if_neg (by show ¬ (cellOf (tick s) tab p.key == .node h) = true; simpa using hh')] at hs
        simp only [Option.some.injEq] at hs
        subst hs
        exact StepK.move p _ rfl (by exact (.checkFail hh))
  | wFind tab h pred cur =>
    cases call with
    | none => simp at hs
    | some p =>
      cases cur with
      | none =>
        simp only [Option.some.injEq] at hs
        subst hs
        exact StepK.move p _ rfl (by exact .findEnd)
      | some c =>
        simp only at hs
        cases hn : s.heap[c]? with
        | none => rw [hn] at hs; simp at hs
        | some n =>
          rw [hn] at hs
          simp only at hs
          by_cases hk : n.key = p.key
          · rw [if_pos (by simpa using hk)] at hs
            simp only [Option.some.injEq] at hs
            subst hs
            exact StepK.move p _ rfl (by exact (.findHit hn hk))
          · rw [if_neg (by simpa using hk)] at hs
            simp only [Option.some.injEq] at hs
            subst hs
            exact StepK.move p _ rfl (by exact (.findNext hn hk))
  | wStore tab h pred hit hnext =>
    cases call with
    | none => simp at hs
    | some p =>
      simp only [Option.some.injEq] at hs
      subst hs
      exact .store p tab h pred hit hnext rfl rfl
  | wUnlock tab h res retry =>
    cases call with
    | none => simp at hs
    | some p =>
      simp only at hs
      cases retry with
      | true =>
        simp only [if_true, Option.some.injEq] at hs
        subst hs
        exact StepK.lockMove p h none _ rfl (by exact .unlockRetry)
      | false =>
        simp only [Bool.false_eq_true, if_false, Option.some.injEq] at hs
        subst hs
        exact .unlockFin p tab h res rfl rfl
  | cTable =>
    cases call with
    | none => simp at hs
    | some p =>
      simp only [Option.some.injEq] at hs
      subst hs
      exact StepK.cmove p _ rfl (by exact .table)
  | cCell tab idx =>
    cases call with
    | none => simp at hs
    | some p =>
      simp only [Bool.not_true, Bool.false_and, Bool.false_eq_true, if_false] at hs
      split at hs
      · rename_i hi
        simp only [Option.some.injEq] at hs; subst hs
        exact .cFin p tab idx rfl rfl hi
      · rename_i hi
        have hi' : idx < tabLen tab := by omega
        split at hs
        · rename_i hc
          simp only [Option.some.injEq] at hs; subst hs
          exact .cEmpty p tab idx rfl rfl hi' hc
        · rename_i hc
          simp only [if_true, Option.some.injEq] at hs; subst hs
          exact StepK.cmove p _ rfl (by exact .cellMoved hi' hc)
        · rename_i h hc
          simp only [Option.some.injEq] at hs; subst hs
          exact StepK.cmove p _ rfl (by exact .cellNode hi' hc)
  | cWait =>
    cases call with
    | none => simp at hs
    | some p =>
      simp only at hs
      by_cases hc : s.cur = .new
      · rw [if_pos (by show (s.cur == Tab.new) = true; rw [hc]; rfl)] at hs
        simp only [Option.some.injEq] at hs; subst hs
        exact StepK.cmove p _ rfl (by exact .waitGo hc)
      · rw [if_neg (by show ¬ (s.cur == Tab.new) = true; simpa using hc)] at hs
        simp only [Option.some.injEq] at hs; subst hs
        exact StepK.cmove p _ rfl (by exact .waitStay hc)
  | cLock tab idx h =>
    cases call with
    | none => simp at hs
    | some p =>
      simp only at hs
      cases hn : s.heap[h]? with
      | none => rw [hn] at hs; simp at hs
      | some n =>
        rw [hn] at hs
        simp only at hs
        cases hlk : n.lock with
        | some x => rw [hlk] at hs; simp at hs
        | none =>
          rw [hlk] at hs
          simp only [Option.isSome_none, Bool.false_eq_true, if_false, Option.some.injEq] at hs
          subst hs
          exact StepK.lockMove p h (some t) _ rfl (by exact (.cLock hn hlk))
  | cCheck tab idx h =>
    cases call with
    | none => simp at hs
    | some p =>
      simp only [Bool.not_true, Bool.false_or] at hs
      by_cases hh : cellAt s tab idx = .node h
      · have hh' : cellAt (tick s) tab idx = .node h := hh
        rw [if_pos (by show (cellAt (tick s) tab idx == .node h) = true; rw [hh']; exact beq_self_eq_true _)] at hs
        simp only [Option.some.injEq] at hs
        subst hs
        exact StepK.cmove p _ rfl (by exact (.checkOk hh))
      · have hh' : cellAt (tick s) tab idx ≠ .node h := hh
        rw [if_neg (by show ¬ (cellAt (tick s) tab idx == .node h) = true; simpa using hh')] at hs
        simp only [Option.some.injEq] at hs
        subst hs
        exact StepK.cmove p _ rfl (by exact (.checkFail hh))
  | cStore tab idx h =>
    cases call with
    | none => simp at hs
    | some p =>
      simp only [Option.some.injEq] at hs
      subst hs
      exact .cStore p tab idx h rfl rfl
  | cUnlock tab idx h retry =>
    cases call with
    | none => simp at hs
    | some p =>
      simp only [Option.some.injEq] at hs
      subst hs
      exact StepK.lockMove p h none _ rfl (by exact .cUnlock)
  | tCell =>
    cases call with
    | some p => simp at hs
    | none =>
      simp only at hs
      split at hs
      · rename_i hc
        simp only [Option.some.injEq] at hs; subst hs
        exact StepK.tmove _ rfl (by exact .cellEmpty hc)
      · rename_i h hc
        simp only [Option.some.injEq] at hs; subst hs
        exact StepK.tmove _ rfl (by exact .cellNode hc)
      · rename_i hc
        simp only [Option.some.injEq] at hs; subst hs
        exact StepK.tmove _ rfl (by exact .cellMoved hc)
  | tCasMoved =>
    cases call with
    | some p => simp at hs
    | none =>
      simp only at hs
      by_cases hc : s.cell0 = .empty
      · rw [if_pos (by show (s.cell0 == Cell.empty) = true; rw [hc]; rfl)] at hs
        simp only [Option.some.injEq] at hs; subst hs
        exact .casMoved rfl rfl hc
      · rw [if_neg (by show ¬ (s.cell0 == Cell.empty) = true; simpa using hc)] at hs
        simp only [Option.some.injEq] at hs; subst hs
        exact StepK.tmove _ rfl (by exact .casFail hc)
  | tLock h =>
    cases call with
    | some p => simp at hs
    | none =>
      simp only at hs
      cases hn : s.heap[h]? with
      | none => rw [hn] at hs; simp at hs
      | some n =>
        rw [hn] at hs
        simp only at hs
        cases hlk : n.lock with
        | some x => rw [hlk] at hs; simp at hs
        | none =>
          rw [hlk] at hs
          simp only [Option.isSome_none, Bool.false_eq_true, if_false, Option.some.injEq] at hs
          subst hs
          exact StepK.tlockMove h (some t) _ rfl (by exact (.lock hn hlk))
  | tCheck h =>
    cases call with
    | some p => simp at hs
    | none =>
      simp only [Bool.not_true, Bool.false_or] at hs
      by_cases hh : s.cell0 = .node h
      · rw [if_pos (by show (s.cell0 == Cell.node h) = true; rw [hh]; exact beq_self_eq_true _)] at hs
        simp only [Option.some.injEq] at hs
        subst hs
        exact StepK.tmove _ rfl (by exact (.checkOk hh))
      · rw [if_neg (by show ¬ (s.cell0 == Cell.node h) = true; simpa using hh)] at hs
        simp only [Option.some.injEq] at hs
        subst hs
        exact StepK.tlockMove h none _ rfl (by exact (.checkFail hh))
  | tBuild h =>
    cases call with
    | some p => simp at hs
    | none =>
      simp only [Option.some.injEq] at hs
      subst hs
      exact .build h rfl rfl
  | tStoreLow h lo hg =>
    cases call with
    | some p => simp at hs
    | none =>
      simp only [Option.some.injEq] at hs
      subst hs
      exact .storeLow h lo hg rfl rfl
  | tStoreHigh h hg =>
    cases call with
    | some p => simp at hs
    | none =>
      simp only [Option.some.injEq] at hs
      subst hs
      exact .storeHigh h hg rfl rfl
  | tStoreMoved h =>
    cases call with
    | some p => simp at hs
    | none =>
      simp only [Option.some.injEq] at hs
      subst hs
      exact .storeMoved h rfl rfl
  | tUnlock h =>
    cases call with
    | some p => simp at hs
    | none =>
      simp only [Option.some.injEq] at hs
      subst hs
      exact StepK.tlockMove h none _ rfl (by exact .unlock)
  | tCommit =>
    cases call with
    | some p => simp at hs
    | none =>
      simp only [Option.some.injEq] at hs
      subst hs
      exact .commit rfl rfl

end Flurry.Proto.BinXC
