import Flurry.Lemmas.BinNSurgeryDefs
import Flurry.Lemmas.BinNBasic
import Flurry.Lemmas.BinNHMBasic
import Flurry.Lemmas.BinXBasic
/-! # Proto/BinNH — port of the `Proto/BinN` lemma file of the same name to the heap invariant with ONE
MID-TRANSFER CELL PER HELPER (`Lemmas/BinNHMDefs.lean`); statements about `BinN.State`. Original header: what a transition does to the heap (definitions and congruence lemmas) (C01, C10)

* `HeapStep s s' G G'`: what every transition (except the store of the forwarding marker and a `clear`) does
  to the heap as far as lock-free readers are concerned.
* `Update s s' G id C'`: the generic surgery on the chain of an *active* cell; `Effect`. -/
namespace Flurry.Proto.BinNHM
open Flurry.Proto.BinN
open Flurry.Lin
open Flurry.Proto.BinX (NodeS Cell Pending dflt chainFrom cellHead cellOfHead nodeAt IsSeg IsChain chainH chainH_empty
  chainH_moved absIn absIn_same KeysDistinct cellHead_cellOfHead cellOfHead_ne_moved)

structure HeapStep (s s' : State) (G G' : Ghost) : Prop where
  len : s.heap.length ≤ s'.heap.length
  key : ∀ j, j < s.heap.length → (nodeAt s'.heap j).key = (nodeAt s.heap j).key
  ordS : ∀ j, j < s.heap.length → ord G'.cr j = ord G.cr j
  movedMono : ∀ id, getCell s id = .moved → getCell s' id = .moved
  /-- nodes that are not live are not written and stay dead -/
  off : ∀ j, j < s.heap.length → ¬ Live s G j →
    (nodeAt s'.heap j).val = (nodeAt s.heap j).val ∧ (nodeAt s'.heap j).next = (nodeAt s.heap j).next ∧
    ¬ Live s' G' j
  /-- the live chain of a key only gains fresh nodes -/
  lc : ∀ k j, j ∈ LC s' k → j ∈ LC s k ∨ (s.heap.length ≤ j ∧ ¬ isCopy G'.cr j)
  /-- a node that is unlinked from the live chain of a key keeps its value and its `next`, is dead, and only
  one node is unlinked -/
  unl : ∀ k c, c ∈ LC s k → c ∉ LC s' k →
    (nodeAt s'.heap c).val = (nodeAt s.heap c).val ∧ (nodeAt s'.heap c).next = (nodeAt s.heap c).next ∧
    ¬ Live s' G' c ∧ ∀ j ∈ LC s k, j ≠ c → j ∈ LC s' k
  /-- the same for the chain of any cell -/
  unlC : ∀ id c, c ∈ chId s id → c ∉ chId s' id →
    (nodeAt s'.heap c).val = (nodeAt s.heap c).val ∧ (nodeAt s'.heap c).next = (nodeAt s.heap c).next ∧
    ¬ Live s' G' c ∧ ∀ j ∈ chId s id, j ≠ c → j ∈ chId s' id

theorem absOf_eq (s : State) (k : Nat) : absOf s k = absIn s.heap (LC s k) k := by
  unfold absOf absIn LC nodeAt
  cases (chainOfCell s (liveCell s k)).find? _ <;> rfl

theorem getCell_congr {s s' : State} (ht : s'.tabs = s.tabs) (id : CellId) : getCell s' id = getCell s id := by
  unfold getCell; rw [cellAt_eq, cellAt_eq, ht]

theorem chId_congr {s s' : State} (hh : s'.heap = s.heap) (ht : s'.tabs = s.tabs) (id : CellId) :
    chId s' id = chId s id := by
  unfold chId; rw [hh, getCell_congr ht]

theorem LC_congr {s s' : State} (hh : s'.heap = s.heap) (ht : s'.tabs = s.tabs) (hc : s'.cur = s.cur) (k : Nat) :
    LC s' k = LC s k := by
  unfold LC chainOfCell
  rw [hh, liveCell_congr ht hc]

theorem absOf_congr' {s s' : State} (hh : s'.heap = s.heap) (ht : s'.tabs = s.tabs) (hc : s'.cur = s.cur) (k : Nat) :
    absOf s' k = absOf s k := by
  rw [absOf_eq, absOf_eq, LC_congr hh ht hc, hh]

theorem Live_congr {s s' : State} (hh : s'.heap = s.heap) (ht : s'.tabs = s.tabs) (G : Ghost) (i : Nat) :
    Live s' G i ↔ Live s G i := by
  unfold Live
  rw [hh]
  constructor
  · rintro (⟨id, h⟩ | h)
    · rw [chId_congr hh ht] at h; exact Or.inl ⟨id, h⟩
    · exact Or.inr h
  · rintro (⟨id, h⟩ | h)
    · rw [← chId_congr hh ht] at h; exact Or.inl ⟨id, h⟩
    · exact Or.inr h

theorem Shape.congr {s s' : State} (S : Shape s) (ht : s'.tabs = s.tabs) (hc : s'.cur = s.cur)
    (hr : s'.resizing = s.resizing) : Shape s' := by
  have hcell : ∀ g j, cellAt s' g j = cellAt s g j := fun g j => by rw [cellAt_eq, cellAt_eq, ht]
  refine ⟨by rw [ht, hc, hr]; exact S.len, by rw [ht]; exact S.rows, ?_, ?_, ?_⟩
  · intro g j hg hj; rw [hcell]; rw [hc] at hg; exact S.old g j hg hj
  · intro j; rw [hcell, hc]; exact S.nextNM j
  · intro j; rw [hcell, hc, hr]; exact S.curMoved j

/-- a state with the same memory -/
theorem HInv.congr {s s' : State} {G : Ghost} (H : HInv s G) (hh : s'.heap = s.heap) (ht : s'.tabs = s.tabs)
    (hc : s'.cur = s.cur) (hr : s'.resizing = s.resizing) : HInv s' G := by
  have hcell : ∀ g j, cellAt s' g j = cellAt s g j := fun g j => by rw [cellAt_eq, cellAt_eq, ht]
  have hg : ∀ id, getCell s' id = getCell s id := getCell_congr ht
  have hch : ∀ id, chId s' id = chId s id := chId_congr hh ht
  refine ⟨H.shape.congr ht hc hr, by rw [hh]; exact H.nextOK, by rw [hh]; exact H.crLt, by rw [hh]; exact H.frOK,
    ?_, ?_, ?_, ?_, ?_⟩
  · intro id h; rw [hg, hh]; exact H.head id h
  · intro id; rw [hch, hh]; exact H.keys id
  · intro id; rw [hch, hh]; exact H.side id
  · intro j'; rw [hcell, hcell, hc]; exact H.nextEmpty j'
  · intro j lo hg' hm
    rw [hcell, hcell, hcell, hc, hh, hch]
    exact H.mid j lo hg' hm

theorem Active.congr {s s' : State} {G : Ghost} {id : CellId} (act : Active s G id) (ht : s'.tabs = s.tabs)
    (hc : s'.cur = s.cur) : Active s' G id := by
  unfold Active at act ⊢
  have hcell : ∀ g j, cellAt s' g j = cellAt s g j := fun g j => by rw [cellAt_eq, cellAt_eq, ht]
  rw [getCell_congr ht, hc, hcell]
  exact act

theorem HeapStep.of_same {s s' : State} {G : Ghost} (hh : s'.heap = s.heap) (ht : s'.tabs = s.tabs)
    (hc : s'.cur = s.cur) : HeapStep s s' G G := by
  refine ⟨by rw [hh]; exact Nat.le_refl _, by intros; rw [hh], fun _ _ => rfl, ?_, ?_, ?_, ?_, ?_⟩
  · intro id h; rw [getCell_congr ht]; exact h
  · intro j _ hj
    rw [hh]
    exact ⟨rfl, rfl, fun h => hj ((Live_congr hh ht G j).1 h)⟩
  · intro k j hj
    rw [LC_congr hh ht hc] at hj
    exact Or.inl hj
  · intro k c hc1 hc2
    rw [LC_congr hh ht hc] at hc2
    exact absurd hc1 hc2
  · intro id c hc1 hc2
    rw [chId_congr hh ht] at hc2
    exact absurd hc1 hc2

/-! ## the generic surgery on the chain of an active cell -/

structure Update (s s' : State) (G : Ghost) (id : CellId) (C' : List Nat) : Prop where
  nextOK : NextOK G.cr s'.heap
  len : s.heap.length ≤ s'.heap.length
  cell : ∀ id', id' ≠ id → getCell s' id' = getCell s id'
  cur : s'.cur = s.cur
  resz : s'.resizing = s.resizing
  tlen : s'.tabs.length = s.tabs.length
  rows : ∀ (g : Nat) (row' : List Cell), s'.tabs[g]? = some row' →
    ∃ row : List Cell, s.tabs[g]? = some row ∧ row'.length = row.length
  notMoved : getCell s' id ≠ .moved
  chain : IsChain s'.heap (cellHead (getCell s' id)) C'
  other : ∀ j, j < s.heap.length → j ∉ chId s id → nodeAt s'.heap j = nodeAt s.heap j
  keys : KeysDistinct s'.heap C'
  side : ∀ j ∈ C', keyOn id (nodeAt s'.heap j).key

/-- what a store into the chain of the active cell `id` guarantees about the memory -/
def Effect (s s' : State) (G : Ghost) (id : CellId) : Prop :=
  ∃ C', Update s s' G id C' ∧ HeapStep s s' G G ∧
    ∀ j, j < s.heap.length → (nodeAt s'.heap j).lock = (nodeAt s.heap j).lock

end Flurry.Proto.BinNHM
