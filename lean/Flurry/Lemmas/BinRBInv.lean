import Flurry.Lemmas.BinRBStep
/-! # Proto/Bin: the structural invariant holds in every reachable state (C01)

(C13 port of `Flurry/Lemmas/BinInv.lean` to the per-key operations of `Flurry/Lin2.lean`, i.e. with `retain`'s conditional removal `condRm`; below, "`Proto/Bin`" / `Base.` is `Flurry.Proto.BinR.Base` (`Proto/BinRBase.lean`) and "`Proto/BinW`" is `Flurry.Proto.BinR` (`Proto/BinR.lean`), which in addition has the `retain` visit steps.)

`TInv`: the program counter of a thread fits its pending operation, completed and pending calls
have well-formed times, and invocation times identify calls. `stepK_heap`: every transition
preserves `HInv` and is a `HeapStep`; `stepK_quiet`: only the writer store and the successful CAS
change the abstract content. `reachable_inv`. -/
namespace Flurry.Proto.BinR.Base
open Flurry.Lin2

def PcOp : Pc → KOp2 → Prop
  | .idle, _ => True
  | .rHead, op => isReader op = true
  | .rNode _, op => isReader op = true
  | _, op => isReader op = false

structure TInv (s : State) : Prop where
  opOK : ∀ (t : Nat) (l : Local) (p : Pending), s.threads[t]? = some l → l.call = some p → PcOp l.pc p.op
  histTime : ∀ x ∈ s.hist, x.2.inv ≤ x.2.resp ∧ x.2.resp ≤ s.now
  pendTime : ∀ (t : Nat) (l : Local) (p : Pending), s.threads[t]? = some l → l.call = some p → p.inv ≤ s.now
  uniqHP : ∀ x ∈ s.hist, ∀ (t : Nat) (l : Local) (p : Pending), s.threads[t]? = some l → l.call = some p →
    x.2.inv ≠ p.inv
  uniqPP : ∀ (t t' : Nat) (l l' : Local) (p p' : Pending), s.threads[t]? = some l → s.threads[t']? = some l' →
    l.call = some p → l'.call = some p' → p.inv = p'.inv → t = t'
  uniqHH : s.hist.Pairwise (fun x y => x.2.inv ≠ y.2.inv)

theorem get_set {α : Type} {l : List α} {t t' : Nat} {a b : α} (h : (l.set t a)[t']? = some b) :
    (t' = t ∧ b = a) ∨ (t' ≠ t ∧ l[t']? = some b) := by
  rw [List.getElem?_set] at h
  by_cases htt : t = t'
  · rw [if_pos htt] at h
    split at h
    · cases h; exact Or.inl ⟨htt.symm, rfl⟩
    · cases h
  · rw [if_neg htt] at h
    exact Or.inr ⟨fun e => htt e.symm, h⟩

theorem get_set_self {α : Type} {l : List α} {t : Nat} {a b : α} (h : l[t]? = some b) :
    (l.set t a)[t]? = some a := by
  rw [List.getElem?_set, if_pos rfl, if_pos (List.getElem?_eq_some_iff.1 h).1]

theorem get_set_ne {α : Type} {l : List α} {t t' : Nat} {a : α} (h : t' ≠ t) :
    (l.set t a)[t']? = l[t']? := by
  rw [List.getElem?_set, if_neg (fun e => h e.symm)]

/-- a transition that keeps the pending call of the thread -/
theorem tinv_keep {s s' : State} {t : Nat} {l l' : Local} (T : TInv s)
    (hl : s.threads[t]? = some l) (hthr : s'.threads = s.threads.set t l') (hnow : s'.now = s.now + 1)
    (hhist : s'.hist = s.hist) (hcall : l'.call = l.call)
    (hpc : ∀ p, l.call = some p → PcOp l'.pc p.op) : TInv s' := by
  have key : ∀ (t1 : Nat) (l1 : Local) (p1 : Pending), s'.threads[t1]? = some l1 → l1.call = some p1 →
      ∃ l0, s.threads[t1]? = some l0 ∧ l0.call = some p1 ∧ (PcOp l0.pc p1.op → PcOp l1.pc p1.op) := by
    intro t1 l1 p1 h1 hc1
    rw [hthr] at h1
    rcases get_set h1 with ⟨rfl, rfl⟩ | ⟨_, h1⟩
    · exact ⟨l, hl, hcall ▸ hc1, fun _ => hpc p1 (hcall ▸ hc1)⟩
    · exact ⟨l1, h1, hc1, id⟩
  refine ⟨?_, ?_, ?_, ?_, ?_, ?_⟩
  · intro t1 l1 p1 h1 hc1
    obtain ⟨l0, h0, hc0, himp⟩ := key t1 l1 p1 h1 hc1
    exact himp (T.opOK t1 l0 p1 h0 hc0)
  · intro x hx
    rw [hhist] at hx
    have := T.histTime x hx
    omega
  · intro t1 l1 p1 h1 hc1
    obtain ⟨l0, h0, hc0, -⟩ := key t1 l1 p1 h1 hc1
    have := T.pendTime t1 l0 p1 h0 hc0
    omega
  · intro x hx t1 l1 p1 h1 hc1
    rw [hhist] at hx
    obtain ⟨l0, h0, hc0, -⟩ := key t1 l1 p1 h1 hc1
    exact T.uniqHP x hx t1 l0 p1 h0 hc0
  · intro t1 t2 l1 l2 p1 p2 h1 h2 hc1 hc2 he
    obtain ⟨l01, h01, hc01, -⟩ := key t1 l1 p1 h1 hc1
    obtain ⟨l02, h02, hc02, -⟩ := key t2 l2 p2 h2 hc2
    exact T.uniqPP t1 t2 l01 l02 p1 p2 h01 h02 hc01 hc02 he
  · rw [hhist]; exact T.uniqHH

/-- an invocation -/
theorem tinv_invoke {s s' : State} {t : Nat} {l l' : Local} {k : Nat} {op : KOp2} (T : TInv s)
    (hl : s.threads[t]? = some l) (hthr : s'.threads = s.threads.set t l') (hnow : s'.now = s.now + 1)
    (hhist : s'.hist = s.hist) (hcall : l'.call = some ⟨k, op, s.now + 1⟩)
    (hpc : PcOp l'.pc op) : TInv s' := by
  have key : ∀ (t1 : Nat) (l1 : Local) (p1 : Pending), s'.threads[t1]? = some l1 → l1.call = some p1 →
      (t1 = t ∧ l1 = l' ∧ p1 = ⟨k, op, s.now + 1⟩) ∨ (t1 ≠ t ∧ s.threads[t1]? = some l1) := by
    intro t1 l1 p1 h1 hc1
    rw [hthr] at h1
    rcases get_set h1 with ⟨rfl, rfl⟩ | ⟨hne, h1⟩
    · rw [hcall] at hc1; cases hc1
      exact Or.inl ⟨rfl, rfl, rfl⟩
    · exact Or.inr ⟨hne, h1⟩
  refine ⟨?_, ?_, ?_, ?_, ?_, ?_⟩
  · intro t1 l1 p1 h1 hc1
    rcases key t1 l1 p1 h1 hc1 with ⟨rfl, rfl, rfl⟩ | ⟨_, h0⟩
    · exact hpc
    · exact T.opOK t1 l1 p1 h0 hc1
  · intro x hx
    rw [hhist] at hx
    have := T.histTime x hx
    omega
  · intro t1 l1 p1 h1 hc1
    rcases key t1 l1 p1 h1 hc1 with ⟨rfl, rfl, rfl⟩ | ⟨_, h0⟩
    · simp only; omega
    · have := T.pendTime t1 l1 p1 h0 hc1
      omega
  · intro x hx t1 l1 p1 h1 hc1
    rw [hhist] at hx
    rcases key t1 l1 p1 h1 hc1 with ⟨rfl, rfl, rfl⟩ | ⟨_, h0⟩
    · have := T.histTime x hx
      simp only; omega
    · exact T.uniqHP x hx t1 l1 p1 h0 hc1
  · intro t1 t2 l1 l2 p1 p2 h1 h2 hc1 hc2 he
    rcases key t1 l1 p1 h1 hc1 with ⟨rfl, rfl, rfl⟩ | ⟨hne1, h01⟩ <;>
      rcases key t2 l2 p2 h2 hc2 with ⟨rfl, rfl, rfl⟩ | ⟨hne2, h02⟩
    · rfl
    · have := T.pendTime t2 l2 p2 h02 hc2
      simp only at he; omega
    · have := T.pendTime t1 l1 p1 h01 hc1
      simp only at he; omega
    · exact T.uniqPP t1 t2 l1 l2 p1 p2 h01 h02 hc1 hc2 he
  · rw [hhist]; exact T.uniqHH

/-- a call completes -/
theorem tinv_finish {s s' : State} {t : Nat} {l l' : Local} {p : Pending} {res : KRes} (T : TInv s)
    (hl : s.threads[t]? = some l) (hp : l.call = some p)
    (hthr : s'.threads = s.threads.set t l') (hnow : s'.now = s.now + 1)
    (hhist : s'.hist = (p.key, ⟨t, p.op, res, p.inv, s.now + 1⟩) :: s.hist) (hcall : l'.call = none) :
    TInv s' := by
  have key : ∀ (t1 : Nat) (l1 : Local) (p1 : Pending), s'.threads[t1]? = some l1 → l1.call = some p1 →
      t1 ≠ t ∧ s.threads[t1]? = some l1 := by
    intro t1 l1 p1 h1 hc1
    rw [hthr] at h1
    rcases get_set h1 with ⟨rfl, rfl⟩ | ⟨hne, h1⟩
    · rw [hcall] at hc1; cases hc1
    · exact ⟨hne, h1⟩
  have hpi := T.pendTime t l p hl hp
  refine ⟨?_, ?_, ?_, ?_, ?_, ?_⟩
  · intro t1 l1 p1 h1 hc1
    exact T.opOK t1 l1 p1 (key t1 l1 p1 h1 hc1).2 hc1
  · intro x hx
    rw [hhist] at hx
    rcases List.mem_cons.1 hx with rfl | hx
    · simp only; omega
    · have := T.histTime x hx
      omega
  · intro t1 l1 p1 h1 hc1
    have := T.pendTime t1 l1 p1 (key t1 l1 p1 h1 hc1).2 hc1
    omega
  · intro x hx t1 l1 p1 h1 hc1
    obtain ⟨hne, h0⟩ := key t1 l1 p1 h1 hc1
    rw [hhist] at hx
    rcases List.mem_cons.1 hx with rfl | hx
    · simp only
      intro he
      exact hne (T.uniqPP t1 t l1 l p1 p h0 hl hc1 hp he.symm)
    · exact T.uniqHP x hx t1 l1 p1 h0 hc1
  · intro t1 t2 l1 l2 p1 p2 h1 h2 hc1 hc2 he
    exact T.uniqPP t1 t2 l1 l2 p1 p2 (key t1 l1 p1 h1 hc1).2 (key t2 l2 p2 h2 hc2).2 hc1 hc2 he
  · rw [hhist]
    refine List.pairwise_cons.2 ⟨?_, T.uniqHH⟩
    intro y hy
    simp only
    exact fun he => T.uniqHP y hy t l p hl hp he.symm

theorem Move.pcOp {s : State} {p : Pending} {pc pc' : Pc} (h : Move s p pc pc') {op : KOp2}
    (hp : PcOp pc op) : PcOp pc' op := by
  cases h <;> exact hp

theorem LockMove.pcOp {s : State} {t h : Nat} {x : Option Nat} {pc pc' : Pc}
    (hm : LockMove s t pc h x pc') {op : KOp2} (hp : PcOp pc op) : PcOp pc' op := by
  cases hm <;> exact hp

theorem isReader_of_insLike {op : KOp2} {v vi : Nat} (h : op = .ins v vi ∨ op = .tryIns v vi) :
    isReader op = false := by
  rcases h with rfl | rfl <;> rfl

theorem writerStore_frame (s : State) (p : Pending) :
    (writerStore s p).1.threads = s.threads ∧ (writerStore s p).1.hist = s.hist ∧
      (writerStore s p).1.now = s.now := by
  unfold writerStore
  simp only
  repeat' split
  all_goals exact ⟨rfl, rfl, rfl⟩

/-- every transition preserves `TInv` -/
theorem stepK_tinv {s s' : State} {t : Nat} {l : Local} (T : TInv s) (hl : s.threads[t]? = some l)
    (hk : StepK s t l s') : TInv s' := by
  cases hk with
  | idle hpc => exact tinv_keep T hl rfl rfl rfl rfl (fun p hp => T.opOK t l p hl hp)
  | invoke k op hpc =>
    refine tinv_invoke (l' := { pc := if isReader op then .rHead else .wHead, call := some ⟨k, op, s.now + 1⟩ })
      T hl rfl rfl rfl rfl ?_
    cases h : isReader op <;> simp [PcOp, h]
  | move p pc' hp hm =>
    refine tinv_keep T hl rfl rfl rfl rfl ?_
    intro p' hp'
    exact hm.pcOp (T.opOK t l p' hl hp')
  | lockMove p h x pc' hp hm =>
    refine tinv_keep T hl rfl rfl rfl rfl ?_
    intro p' hp'
    exact hm.pcOp (T.opOK t l p' hl hp')
  | fin p res hp hf => exact tinv_finish (l' := { pc := .idle, call := none }) T hl hp rfl rfl rfl rfl
  | cas p v vi hp hpc hh hop =>
    exact tinv_finish (l' := { pc := .idle, call := none }) T hl hp rfl rfl rfl rfl
  | write p h hp hpc =>
    have hop := T.opOK t l p hl hp
    rw [hpc] at hop
    obtain ⟨hthr, hhist, hnow⟩ := writerStore_frame (tick s) p
    · refine tinv_keep (l' := { l with pc := .wUnlock h (writerStore (tick s) p).2 false }) T hl ?_ ?_ ?_ rfl ?_
      · show ((writerStore (tick s) p).1.threads.set t _) = _
        rw [hthr]; rfl
      · show (writerStore (tick s) p).1.now = _
        rw [hnow]; rfl
      · show (writerStore (tick s) p).1.hist = _
        rw [hhist]; rfl
      · intro p' hp'
        rw [hp] at hp'; cases hp'
        exact hop
  | unlockFin p h res hp hpc =>
    exact tinv_finish (l' := { pc := .idle, call := none }) T hl hp rfl rfl rfl rfl

theorem HeapStep.of_tick {s s' : State} (h : HeapStep (tick s) s') : HeapStep s s' :=
  ⟨h.len, h.key, h.off, h.noRelink, h.unl⟩

theorem lock_frame (x : Option Nat) :
    ∀ n : NodeS, ({ n with lock := x } : NodeS).next = n.next ∧ ({ n with lock := x } : NodeS).key = n.key :=
  fun _ => ⟨rfl, rfl⟩

/-- the successful CAS on an empty bin -/
theorem cas_effect {s : State} (H : HInv s) (hh : s.head = none) (t : Nat) (p : Pending) (v vi : Nat) :
    HInv (finish { tick s with heap := s.heap ++ [⟨p.key, (v, vi), none, none⟩], head := some s.heap.length } t p .none) ∧
    HeapStep s (finish { tick s with heap := s.heap ++ [⟨p.key, (v, vi), none, none⟩], head := some s.heap.length } t p .none) ∧
    ∀ k, absOf (finish { tick s with heap := s.heap ++ [⟨p.key, (v, vi), none, none⟩], head := some s.heap.length } t p .none) k
      = if p.key = k then some (v, vi) else absOf s k :=
  append_empty (new := (⟨p.key, (v, vi), none, none⟩ : NodeS)) H (chain_head_none H hh) rfl rfl rfl

/-- every transition preserves `HInv` and is a `HeapStep` -/
theorem stepK_heap {s s' : State} {t : Nat} {l : Local} (H : HInv s) (T : TInv s)
    (hl : s.threads[t]? = some l) (hk : StepK s t l s') : HInv s' ∧ HeapStep s s' := by
  cases hk with
  | idle hpc => exact ⟨H.congr rfl rfl, .of_same rfl rfl⟩
  | invoke k op hpc => exact ⟨H.congr rfl rfl, .of_same rfl rfl⟩
  | move p pc' hp hm => exact ⟨H.congr rfl rfl, .of_same rfl rfl⟩
  | lockMove p h x pc' hp hm =>
    exact ⟨modify_hinv H rfl rfl (lock_frame x), modify_heapStep H rfl rfl (lock_frame x) (Or.inr fun _ => rfl)⟩
  | fin p res hp hf => exact ⟨H.congr rfl rfl, .of_same rfl rfl⟩
  | cas p v vi hp hpc hh hop =>
    obtain ⟨H', hs, -⟩ := cas_effect H hh t p v vi
    exact ⟨H', hs⟩
  | write p h hp hpc =>
    have hop := T.opOK t l p hl hp
    rw [hpc] at hop
    obtain ⟨H', hs, -⟩ := writerStore_spec (s := tick s) (H.congr rfl rfl) p hop
    exact ⟨H'.congr rfl rfl, HeapStep.of_tick ⟨hs.len, hs.key, hs.off, hs.noRelink, hs.unl⟩⟩
  | unlockFin p h res hp hpc =>
    exact ⟨modify_hinv H rfl rfl (lock_frame none),
      modify_heapStep H rfl rfl (lock_frame none) (Or.inr fun _ => rfl)⟩

/-- the structural invariant -/
structure Inv (s : State) : Prop where
  heap : HInv s
  thr : TInv s

theorem init_inv (n : Nat) : Inv (init n) := by
  refine ⟨⟨?_, ?_, ?_⟩, ⟨?_, ?_, ?_, ?_, ?_, ?_⟩⟩
  · intro i n' j h; simp [init] at h
  · intro h hh; simp [init] at hh
  · intro i hi; simp [chain, init, chainFrom] at hi
  · intro t l p hl hc
    simp only [init, List.getElem?_replicate] at hl
    split at hl
    · cases hl; cases hc
    · cases hl
  · intro x hx; simp [init] at hx
  · intro t l p hl hc
    simp only [init, List.getElem?_replicate] at hl
    split at hl
    · cases hl; cases hc
    · cases hl
  · intro x hx; simp [init] at hx
  · intro t t' l l' p p' hl _ hc
    simp only [init, List.getElem?_replicate] at hl
    split at hl
    · cases hl; cases hc
    · cases hl
  · simp [init]

theorem step_inv {s s' : State} {t : Nat} {inv : Option (Nat × KOp2)} (I : Inv s)
    (hs : step s t inv = some s') : Inv s' := by
  cases hl : s.threads[t]? with
  | none => unfold step at hs; rw [hl] at hs; cases hs
  | some l =>
    have hk := step_stepK hl hs
    exact ⟨(stepK_heap I.heap I.thr hl hk).1, stepK_tinv I.thr hl hk⟩

theorem reachable_inv {n : Nat} {s : State} (hr : Reachable n s) : Inv s := by
  induction hr with
  | init => exact init_inv n
  | step t inv _ hs ih => exact step_inv ih hs

end Flurry.Proto.BinR.Base
