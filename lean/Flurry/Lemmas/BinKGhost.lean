import Flurry.Lemmas.BinKInvStep
import Flurry.Lemmas.LinTrace
/-! # Proto/BinK: ghost history and the hindsight invariant of the list walkers (C01, a bin that changes its kind)

For a fixed key `k` the ghost state is `A : Nat → KSt` (`A τ` = abstract state `absOf` of `k` — the
first node with key `k` on the **live** chain — after global step `τ`) and `pt : Nat → Nat` (`pt i` =
linearization point of the call invoked at `i`).

* `callsOnExt`: the completed calls plus the calls of writers that are past their linearization
  point (`resOfPc`): list form — the single store at `wStore` (the CAS at `wCas` completes the call);
  tree form — `tVal`, `tPrependLocked`, `tUnlinkLocked`, and `tFind` for a writer that changes nothing.
* `Good A k inv now heap L P cur`: the hindsight justification of a thread walking a list — a reader
  of a list bin, a lock-protocol reader of a tree bin taking linear steps, an iterator — whether
  the list is the live one (`on`) or an unlinked node, the frozen list of a treeified list bin or of
  an untreeified `TreeBin` (`off`). A conversion turns every `on` into `off` at once (`good_suffix`).
* `ValWit`: the value cell a `get` is about to load held the abstract value at some time of the call.
* `GInv`: the ghost invariant; `GInv.frame`: the generic part of its preservation. -/
namespace Flurry.Proto.BinK
open Flurry.Lin

theorem isReader_eq_isRead (op : KOp) : isReader op = isRead op := by cases op <;> rfl

/-! ## the extended history -/

/-- the result of a writer that is past its linearization point -/
def resOfPc : Pc → Option KRes
  | .wUnlock _ res false => some res
  | .tUnlockM _ res false => some res
  | .tTreeLinkLocked _ _ => some .none
  | .tRestructure _ _ res => some res
  | .tUnlockRoot _ res => some res
  | .tUntreeify _ res => some res
  | _ => none

/-- the call of a writer that is past its linearization point, counted as responding at `now` -/
def extOf (k now t : Nat) (l : Local) : Option Call :=
  match resOfPc l.pc, l.call with
  | some res, some p => if p.key = k then some ⟨t, p.op, res, p.inv, now⟩ else none
  | _, _ => none

def extCalls (s : State) (k : Nat) : History :=
  (List.range s.threads.length).filterMap (fun t => (s.threads[t]?).bind (extOf k s.now t))

/-- the completed calls on key `k`, plus the calls of writers past their linearization point -/
def callsOnExt (s : State) (k : Nat) : History := callsOn s k ++ extCalls s k

theorem extOf_eq_some {k now t : Nat} {l : Local} {c : Call} :
    extOf k now t l = some c ↔ ∃ res p, resOfPc l.pc = some res ∧ l.call = some p ∧ p.key = k ∧
      c = ⟨t, p.op, res, p.inv, now⟩ := by
  obtain ⟨pc, call⟩ := l
  unfold extOf
  constructor
  · intro h
    split at h
    · rename_i res p hpc hcall
      simp only at hpc hcall
      split at h
      · cases h
        exact ⟨res, p, hpc, hcall, by assumption, rfl⟩
      · cases h
    · cases h
  · rintro ⟨res, p, hpc, hcall, hk, rfl⟩
    simp only at hpc hcall
    rw [hpc, hcall]
    simp [hk]

theorem extOf_none_of_pc {k now t : Nat} {l : Local} (h : resOfPc l.pc = none) :
    extOf k now t l = none := by
  cases he : extOf k now t l with
  | none => rfl
  | some c =>
    obtain ⟨res, p, hpc, -⟩ := extOf_eq_some.1 he
    rw [h] at hpc; cases hpc

theorem extOf_none_of_key {k now t : Nat} {l : Local} {p : Pending} (hp : l.call = some p) (hk : p.key ≠ k) :
    extOf k now t l = none := by
  cases he : extOf k now t l with
  | none => rfl
  | some c =>
    obtain ⟨res, p', -, hcall, hk', -⟩ := extOf_eq_some.1 he
    rw [hp] at hcall; cases hcall
    exact absurd hk' hk

theorem mem_callsOn {s : State} {k : Nat} {c : Call} : c ∈ callsOn s k ↔ (k, c) ∈ s.hist := by
  unfold callsOn
  simp only [List.mem_map, List.mem_reverse, List.mem_filter, beq_iff_eq]
  constructor
  · rintro ⟨⟨k', c'⟩, ⟨hm, hk⟩, hc⟩
    simp only at hk hc
    subst hk hc
    exact hm
  · intro h
    exact ⟨(k, c), ⟨h, rfl⟩, rfl⟩

theorem mem_extCalls {s : State} {k : Nat} {c : Call} :
    c ∈ extCalls s k ↔ ∃ t l, s.threads[t]? = some l ∧ extOf k s.now t l = some c := by
  unfold extCalls
  simp only [List.mem_filterMap, List.mem_range, Option.bind_eq_some_iff]
  constructor
  · rintro ⟨t, _, l, hl, he⟩; exact ⟨t, l, hl, he⟩
  · rintro ⟨t, l, hl, he⟩
    exact ⟨t, (List.getElem?_eq_some_iff.1 hl).1, l, hl, he⟩

theorem mem_callsOnExt {s : State} {k : Nat} {c : Call} :
    c ∈ callsOnExt s k ↔ (k, c) ∈ s.hist ∨ ∃ t l, s.threads[t]? = some l ∧ extOf k s.now t l = some c := by
  unfold callsOnExt
  rw [List.mem_append, mem_callsOn, mem_extCalls]

theorem callsOnExt_quiescent {s : State} (hq : quiescent s) (k : Nat) : callsOnExt s k = callsOn s k := by
  have : extCalls s k = [] := by
    rw [List.eq_nil_iff_forall_not_mem]
    intro c hc
    obtain ⟨t, l, hl, he⟩ := mem_extCalls.1 hc
    obtain ⟨res, p, hpc, -⟩ := extOf_eq_some.1 he
    rw [hq l (List.mem_of_getElem? hl)] at hpc
    cases hpc
  rw [callsOnExt, this, List.append_nil]

/-- `c'` is the call `c`, possibly with a later response -/
def Sim (c c' : Call) : Prop :=
  c'.tid = c.tid ∧ c'.op = c.op ∧ c'.res = c.res ∧ c'.inv = c.inv ∧ c.resp ≤ c'.resp

theorem Sim.refl (c : Call) : Sim c c := ⟨rfl, rfl, rfl, rfl, Nat.le_refl _⟩

theorem extOf_bump {k now now' t : Nat} {l : Local} {c' : Call} (hle : now ≤ now')
    (h : extOf k now' t l = some c') : ∃ c, extOf k now t l = some c ∧ Sim c c' := by
  obtain ⟨res, p, hpc, hcall, hk, rfl⟩ := extOf_eq_some.1 h
  exact ⟨⟨t, p.op, res, p.inv, now⟩, extOf_eq_some.2 ⟨res, p, hpc, hcall, hk, rfl⟩,
    rfl, rfl, rfl, rfl, hle⟩

theorem extOf_bump' {k now now' t : Nat} {l : Local} {c : Call} (hle : now ≤ now')
    (h : extOf k now t l = some c) : ∃ c', extOf k now' t l = some c' ∧ Sim c c' := by
  obtain ⟨res, p, hpc, hcall, hk, rfl⟩ := extOf_eq_some.1 h
  exact ⟨⟨t, p.op, res, p.inv, now'⟩, extOf_eq_some.2 ⟨res, p, hpc, hcall, hk, rfl⟩,
    rfl, rfl, rfl, rfl, hle⟩

/-- where the calls of the successor state come from -/
theorem ext_backward {s s' : State} {t : Nat} {l' : Local} {hnew : List (Nat × Call)} {k : Nat}
    (hthr : s'.threads = s.threads.set t l') (hnow : s'.now = s.now + 1)
    (hhist : s'.hist = hnew ++ s.hist) :
    ∀ c' ∈ callsOnExt s' k, (∃ c ∈ callsOnExt s k, Sim c c') ∨ (k, c') ∈ hnew ∨
      extOf k (s.now + 1) t l' = some c' := by
  intro c' hc'
  rcases mem_callsOnExt.1 hc' with hc' | ⟨t1, l1, hl1, he1⟩
  · rw [hhist] at hc'
    rcases List.mem_append.1 hc' with hc' | hc'
    · exact Or.inr (Or.inl hc')
    · exact Or.inl ⟨c', mem_callsOnExt.2 (Or.inl hc'), Sim.refl _⟩
  · rw [hthr] at hl1
    rw [hnow] at he1
    rcases get_set hl1 with ⟨rfl, rfl⟩ | ⟨_, hl1⟩
    · exact Or.inr (Or.inr he1)
    · obtain ⟨c, hc, hsim⟩ := extOf_bump (Nat.le_succ s.now) he1
      exact Or.inl ⟨c, mem_callsOnExt.2 (Or.inr ⟨t1, l1, hl1, hc⟩), hsim⟩

/-- where the calls of the predecessor state go -/
theorem ext_forward {s s' : State} {t : Nat} {l l' : Local} {hnew : List (Nat × Call)} {k : Nat}
    (hl : s.threads[t]? = some l)
    (hthr : s'.threads = s.threads.set t l') (hnow : s'.now = s.now + 1)
    (hhist : s'.hist = hnew ++ s.hist) :
    ∀ c ∈ callsOnExt s k, (∃ c' ∈ callsOnExt s' k, Sim c c') ∨ extOf k s.now t l = some c := by
  intro c hc
  rcases mem_callsOnExt.1 hc with hc | ⟨t1, l1, hl1, he1⟩
  · refine Or.inl ⟨c, mem_callsOnExt.2 (Or.inl ?_), Sim.refl _⟩
    rw [hhist]; exact List.mem_append_right _ hc
  · by_cases ht : t1 = t
    · subst ht
      rw [hl] at hl1; cases hl1
      exact Or.inr he1
    · obtain ⟨c', hc', hsim⟩ := extOf_bump' (Nat.le_succ s.now) he1
      refine Or.inl ⟨c', mem_callsOnExt.2 (Or.inr ⟨t1, l1, ?_, ?_⟩), hsim⟩
      · rw [hthr, get_set_ne ht]; exact hl1
      · rw [hnow]; exact hc'

theorem callsOnExt_resp_le {s : State} (T : TInv s) {k : Nat} {c : Call} (hc : c ∈ callsOnExt s k) :
    c.resp ≤ s.now := by
  rcases mem_callsOnExt.1 hc with hc | ⟨t1, l1, _, he1⟩
  · exact (T.histTime _ hc).2
  · obtain ⟨res, p, -, -, -, rfl⟩ := extOf_eq_some.1 he1
    exact Nat.le_refl _

/-- the pending call of a thread that is not counted in the extended history is different from
every call of the extended history -/
theorem inv_ne_of_mem_callsOnExt {s : State} (T : TInv s) {t : Nat} {l : Local} {p : Pending} {k : Nat}
    (hl : s.threads[t]? = some l) (hp : l.call = some p) (hnone : extOf k s.now t l = none)
    {c : Call} (hc : c ∈ callsOnExt s k) : c.inv ≠ p.inv := by
  rcases mem_callsOnExt.1 hc with hc | ⟨t1, l1, hl1, he1⟩
  · exact T.uniqHP _ hc t l p hl hp
  · obtain ⟨res, p1, hpc1, hcall1, -, rfl⟩ := extOf_eq_some.1 he1
    intro he
    have := T.uniqPP t1 t l1 l p1 p hl1 hl hcall1 hp he
    subst this
    rw [hl] at hl1; cases hl1
    rw [hnone] at he1; cases he1

theorem callsOnExt_pairwise {s : State} (T : TInv s) (k : Nat) :
    (callsOnExt s k).Pairwise (fun c d => c.inv ≠ d.inv) := by
  unfold callsOnExt
  refine List.pairwise_append.2 ⟨?_, ?_, ?_⟩
  · unfold callsOn
    rw [List.pairwise_map, List.pairwise_reverse]
    refine (T.uniqHH.filter _).imp ?_
    intro a b hab; exact fun h => hab h.symm
  · unfold extCalls
    refine List.Pairwise.filterMap _ ?_ (List.pairwise_lt_range)
    intro t1 t2 hlt c1 hc1 c2 hc2
    obtain ⟨l1, hl1, he1⟩ := Option.bind_eq_some_iff.1 hc1
    obtain ⟨l2, hl2, he2⟩ := Option.bind_eq_some_iff.1 hc2
    obtain ⟨_, p1, _, hcall1, _, rfl⟩ := extOf_eq_some.1 he1
    obtain ⟨_, p2, _, hcall2, _, rfl⟩ := extOf_eq_some.1 he2
    intro he
    have := T.uniqPP t1 t2 l1 l2 p1 p2 hl1 hl2 hcall1 hcall2 he
    omega
  · intro c hc d hd
    obtain ⟨t1, l1, hl1, he1⟩ := mem_extCalls.1 hd
    obtain ⟨_, p1, _, hcall1, _, rfl⟩ := extOf_eq_some.1 he1
    exact T.uniqHP _ (mem_callsOn.1 hc) t1 l1 p1 hl1 hcall1


/-! ## the hindsight justification of a reader walking a list -/

/-- the key was absent at some time of the call -/
def AbsWit (A : Nat → KSt) (inv now : Nat) : Prop := ∃ τ, inv ≤ τ ∧ τ ≤ now ∧ A τ = none

/-- a reader standing on the live node `c`: either no node in front of `c` has key `k` (then "now" is a
good time for whatever it finds), or the key was absent at some time of the call -/
def OnCond (A : Nat → KSt) (k inv now : Nat) (heap : List NodeS) (L : List Nat) (c : Nat) : Prop :=
  (∀ i, List.Sublist [i, c] L → (nodeAt heap i).key ≠ k) ∨ AbsWit A inv now

inductive Good (A : Nat → KSt) (k inv now : Nat) (heap : List NodeS) (L : List Nat) (P : Nat → Prop) :
    Option Nat → Prop
  | absent : AbsWit A inv now → Good A k inv now heap L P none
  | on {c : Nat} : c ∈ L → OnCond A k inv now heap L c → Good A k inv now heap L P (some c)
  | off {c : Nat} : c ∉ L → ¬ P c → c < heap.length →
      ((nodeAt heap c).key ≠ k → Good A k inv now heap L P (nodeAt heap c).next) →
      ((nodeAt heap c).key = k → ∃ τ, inv ≤ τ ∧ τ ≤ now ∧ A τ = some (nodeAt heap c).val) →
      Good A k inv now heap L P (some c)

/-- the live chain -/
structure Live (heap : List NodeS) (st : Option Nat) (L : List Nat) : Prop where
  ok : NextOK heap
  ch : IsChain heap st L
  dist : ∀ i j, i ∈ L → j ∈ L → (nodeAt heap i).key = (nodeAt heap j).key → i = j

theorem Live.nodup {heap : List NodeS} {st : Option Nat} {L : List Nat} (V : Live heap st L) : L.Nodup :=
  V.ch.nodup V.ok

theorem HInv.live {s : State} (H : HInv s) : Live s.heap (liveStart s) (liveChain s) :=
  ⟨H.cinv.nextOK, H.isChain, H.distinct⟩

theorem AbsWit.step {A A' : Nat → KSt} {inv now : Nat} (h : AbsWit A inv now)
    (hA' : ∀ τ, τ ≤ now → A' τ = A τ) : AbsWit A' inv (now + 1) := by
  obtain ⟨τ, h1, h2, h3⟩ := h
  exact ⟨τ, h1, by omega, by rw [hA' _ h2]; exact h3⟩

/-- all live nodes have another key: the key is absent now -/
theorem absWit_now {A : Nat → KSt} {k inv now : Nat} {heap : List NodeS} {L : List Nat}
    (hA : A now = absL heap L k) (hinv : inv ≤ now) (h : ∀ i ∈ L, (nodeAt heap i).key ≠ k) : AbsWit A inv now := by
  refine ⟨now, hinv, Nat.le_refl _, ?_⟩
  rw [hA, absL_eq_none_iff]
  exact h

/-- the successor of a live node that does not have the key -/
theorem onCond_succ {A : Nat → KSt} {k inv now : Nat} {heap : List NodeS} {st : Option Nat} {L : List Nat}
    (V : Live heap st L) (hA : A now = absL heap L k) (hinv : inv ≤ now) {c : Nat} (hc : c ∈ L)
    (hcond : OnCond A k inv now heap L c) (hk : (nodeAt heap c).key ≠ k) :
    ((nodeAt heap c).next = none → AbsWit A inv now) ∧
    (∀ b, (nodeAt heap c).next = some b → b ∈ L ∧ OnCond A k inv now heap L b) := by
  obtain ⟨l1, l2, n, hL, hn, _, _⟩ := V.ch.at_mem hc
  have hnode := nodeAt_of_some hn
  have hnx : (nodeAt heap c).next = l2.head? := by
    rw [hnode]; exact (hL ▸ V.ch).next_eq hn
  have hnd := V.nodup
  constructor
  · intro hnone
    rcases hcond with h1 | hw
    · refine absWit_now hA hinv ?_
      rw [hnx] at hnone
      have hl2 : l2 = [] := by
        cases l2 with
        | nil => rfl
        | cons a l => cases hnone
      subst hl2
      intro i hi
      rw [hL] at hi
      rcases List.mem_append.1 hi with hi | hi
      · exact h1 i ((pair_sublist_iff hnd hL i).2 hi)
      · have : i = c := by simpa using hi
        rw [this]; exact hk
    · exact hw
  · intro b hb
    rw [hnx] at hb
    cases l2 with
    | nil => cases hb
    | cons b' l2' =>
      simp only [List.head?_cons, Option.some.injEq] at hb
      subst hb
      refine ⟨by rw [hL]; simp, ?_⟩
      rcases hcond with h1 | hw
      · left
        intro i hi
        have hL' : L = (l1 ++ [c]) ++ b' :: l2' := by rw [hL]; simp
        have := (pair_sublist_iff hnd hL' i).1 hi
        rcases List.mem_append.1 this with hi' | hi'
        · exact h1 i ((pair_sublist_iff hnd hL i).2 hi')
        · have : i = c := by simpa using hi'
          rw [this]; exact hk
      · exact Or.inr hw

/-- the pointer loaded from the start of the live chain -/
theorem Good.first {A : Nat → KSt} {k inv now : Nat} {heap : List NodeS} {st : Option Nat} {L : List Nat}
    {P : Nat → Prop} (V : Live heap st L) (hA : A now = absL heap L k) (hinv : inv ≤ now) :
    Good A k inv now heap L P st := by
  cases st with
  | none =>
    refine .absent (absWit_now hA hinv ?_)
    rw [IsChain.start_none V.ch]
    intro i hi; cases hi
  | some h =>
    obtain ⟨l, hl⟩ := IsChain.start_some V.ch
    refine .on (by rw [hl]; simp) (Or.inl ?_)
    intro i hi
    have := (pair_sublist_iff (p := []) V.nodup (by rw [hl]; rfl) i).1 hi
    cases this

/-- the pointer loaded from the `next` cell of a node with another key -/
theorem Good.next {A : Nat → KSt} {k inv now : Nat} {heap : List NodeS} {st : Option Nat} {L : List Nat}
    {P : Nat → Prop} (V : Live heap st L) (hA : A now = absL heap L k) (hinv : inv ≤ now) {c : Nat}
    (hg : Good A k inv now heap L P (some c)) (hk : (nodeAt heap c).key ≠ k) :
    Good A k inv now heap L P (nodeAt heap c).next := by
  cases hg with
  | on hc hcond =>
    obtain ⟨h1, h2⟩ := onCond_succ V hA hinv hc hcond hk
    cases hnx : (nodeAt heap c).next with
    | none => exact .absent (h1 hnx)
    | some b => exact .on (h2 b hnx).1 (h2 b hnx).2
  | off _ _ _ hnext _ => exact hnext hk

/-- a list walker that finds key `k` in node `c` -/
theorem Good.hit {A : Nat → KSt} {k inv now : Nat} {heap : List NodeS} {st : Option Nat} {L : List Nat}
    {P : Nat → Prop} (V : Live heap st L) (hA : A now = absL heap L k) (hinv : inv ≤ now) {c : Nat}
    (hg : Good A k inv now heap L P (some c)) (hk : (nodeAt heap c).key = k) :
    ∃ τ, inv ≤ τ ∧ τ ≤ now ∧ A τ = some (nodeAt heap c).val := by
  cases hg with
  | on hc _ =>
    exact ⟨now, hinv, Nat.le_refl _, by rw [hA]; exact (absL_eq_some_iff V.dist).2 ⟨c, hc, hk, rfl⟩⟩
  | off _ _ _ _ hval => exact hval hk

theorem Good.miss {A : Nat → KSt} {k inv now : Nat} {heap : List NodeS} {L : List Nat} {P : Nat → Prop}
    (hg : Good A k inv now heap L P none) : AbsWit A inv now := by
  cases hg with
  | absent h => exact h

/-- a reader on the live chain stays justified as long as its node stays on it -/
theorem onCond_step {A A' : Nat → KSt} {k inv now : Nat} {heap heap' : List NodeS} {st : Option Nat}
    {L L' : List Nat} {P P' : Nat → Prop} {c : Nat}
    (V : Live heap st L) (hc : c ∈ L) (hc' : c ∈ L') (hcond : OnCond A k inv now heap L c)
    (hs : HeapStep heap L P heap' L' P')
    (hA' : ∀ τ, τ ≤ now → A' τ = A τ) (hA : A now = absL heap L k) (hinv : inv ≤ now) :
    OnCond A' k inv (now + 1) heap' L' c := by
  by_cases hfr : ∃ x ∈ L', x ∉ L ∧ (nodeAt heap' x).key = k
  · obtain ⟨x, hx, hxn, hxk⟩ := hfr
    have hall : ∀ i ∈ L, (nodeAt heap i).key ≠ k := by
      intro i hi; rw [← hxk]; exact hs.fresh x hx hxn c hc hc' i hi
    exact Or.inr ((absWit_now hA hinv hall).step hA')
  · rcases hcond with h1 | hw
    · left
      intro i hi
      have hiL' : i ∈ L' := hi.subset (by simp)
      by_cases hiL : i ∈ L
      · rw [hs.key i (V.ch.lt_length i hiL)]
        exact h1 i (hs.order i c hiL hc hi)
      · intro hik
        exact hfr ⟨i, hiL', hiL, hik⟩
    · exact Or.inr (hw.step hA')

/-- the nodes of a suffix of the old live chain stay justified: those that stay on the chain as
before, those that leave it — one node by an unlink, all of them by a conversion — as frozen nodes -/
theorem good_suffix {A A' : Nat → KSt} {k inv now : Nat} {heap heap' : List NodeS} {st : Option Nat}
    {L L' : List Nat} {P P' : Nat → Prop}
    (V : Live heap st L) (hs : HeapStep heap L P heap' L' P') (hLP : ∀ c ∈ L, ¬ P c)
    (hA' : ∀ τ, τ ≤ now → A' τ = A τ) (hA : A now = absL heap L k) (hinv : inv ≤ now) :
    ∀ (l2 l1 : List Nat), L = l1 ++ l2 → (l2 = [] → AbsWit A inv now) →
      (∀ c l2', l2 = c :: l2' → OnCond A k inv now heap L c) →
      Good A' k inv (now + 1) heap' L' P' l2.head?
  | [], _, _, hnil, _ => .absent ((hnil rfl).step hA')
  | c :: l2', l1, hL, _, hcons => by
    have hc : c ∈ L := by rw [hL]; simp
    have hcl := V.ch.lt_length c hc
    have hcond := hcons c l2' rfl
    simp only [List.head?_cons]
    by_cases hc' : c ∈ L'
    · exact .on hc' (onCond_step V hc hc' hcond hs hA' hA hinv)
    · obtain ⟨hval, hnext⟩ := hs.off c hcl (Or.inr hc')
      have hkey := hs.key c hcl
      have hn := getElem?_nodeAt hcl
      have hnx : (nodeAt heap c).next = l2'.head? := (hL ▸ V.ch).next_eq hn
      refine .off hc' (fun h => hLP c hc (hs.priv c hcl h)) (by have := hs.len; omega) ?_ ?_
      · intro hk
        rw [hkey] at hk
        rw [hnext, hnx]
        obtain ⟨h1, h2⟩ := onCond_succ V hA hinv hc hcond hk
        refine good_suffix V hs hLP hA' hA hinv l2' (l1 ++ [c]) (by rw [hL]; simp) ?_ ?_
        · intro hnil
          apply h1
          rw [hnx, hnil]; rfl
        · intro b l3 hb
          refine (h2 b ?_).2
          rw [hnx, hb]; rfl
      · intro hk
        rw [hkey] at hk
        refine ⟨now, hinv, by omega, ?_⟩
        rw [hA' _ (Nat.le_refl _), hA, hval]
        exact (absL_eq_some_iff V.dist).2 ⟨c, hc, hk, rfl⟩

/-- **hindsight**: the justification of a list-walking reader survives every transition -/
theorem Good.step {A A' : Nat → KSt} {k inv now : Nat} {heap heap' : List NodeS} {st : Option Nat}
    {L L' : List Nat} {P P' : Nat → Prop} {cur : Option Nat}
    (hg : Good A k inv now heap L P cur) (V : Live heap st L) (hs : HeapStep heap L P heap' L' P')
    (hLP : ∀ c ∈ L, ¬ P c)
    (hA' : ∀ τ, τ ≤ now → A' τ = A τ) (hA : A now = absL heap L k) (hinv : inv ≤ now) :
    Good A' k inv (now + 1) heap' L' P' cur := by
  induction hg with
  | absent h => exact .absent (h.step hA')
  | @on c hc hcond =>
    obtain ⟨l1, l2, hL⟩ := List.append_of_mem hc
    have := good_suffix V hs hLP hA' hA hinv (c :: l2) l1 hL (fun h => by cases h)
      (fun c' l2' h => by cases h; exact hcond)
    simpa using this
  | @off c hc hp hcl _ hval ih =>
    have hc' : c ∉ L' := by
      intro hm
      rcases hs.noRelink c hm with h0 | h0 | h0
      · exact hc h0
      · omega
      · exact hp h0
    obtain ⟨hv, hn⟩ := hs.off c hcl (Or.inl hc)
    have hkey := hs.key c hcl
    refine .off hc' (fun h => hp (hs.priv c hcl h)) (by have := hs.len; omega) ?_ ?_
    · intro hk
      rw [hkey] at hk
      rw [hn]
      exact ih hk
    · intro hk
      rw [hkey] at hk
      obtain ⟨τ, h1, h2, h3⟩ := hval hk
      exact ⟨τ, h1, by omega, by rw [hA' _ h2, hv]; exact h3⟩

/-! ## the value cell a `get` is about to load -/

/-- node `i` has key `k`, and its current value was the abstract value at some time of the call -/
def ValWit (A : Nat → KSt) (k inv now : Nat) (heap : List NodeS) (i : Nat) : Prop :=
  (nodeAt heap i).key = k ∧ i < heap.length ∧
    ∃ τ, inv ≤ τ ∧ τ ≤ now ∧ A τ = some (nodeAt heap i).val

theorem ValWit.step {A A' : Nat → KSt} {k inv now : Nat} {heap heap' : List NodeS} {st' : Option Nat}
    {L L' : List Nat} {P P' : Nat → Prop} {i : Nat}
    (h : ValWit A k inv now heap i) (V' : Live heap' st' L') (hs : HeapStep heap L P heap' L' P')
    (hA' : ∀ τ, τ ≤ now → A' τ = A τ) (hA'n : A' (now + 1) = absL heap' L' k)
    (hinv : inv ≤ now) : ValWit A' k inv (now + 1) heap' i := by
  obtain ⟨hk, hil, τ, h1, h2, h3⟩ := h
  have hkey := hs.key i hil
  refine ⟨by rw [hkey]; exact hk, by have := hs.len; omega, ?_⟩
  by_cases hv : (nodeAt heap' i).val = (nodeAt heap i).val
  · exact ⟨τ, h1, by omega, by rw [hA' _ h2, hv]; exact h3⟩
  · have hc := (hs.valchg hil hv).2
    refine ⟨now + 1, by omega, Nat.le_refl _, ?_⟩
    rw [hA'n]
    exact (absL_eq_some_iff V'.dist).2 ⟨i, hc, by rw [hkey]; exact hk, rfl⟩

/-! ## what the program counter of a reader knows -/

def RdOK (A : Nat → KSt) (k inv : Nat) (s : State) : Pc → Prop
  | .rNode cur => Good A k inv s.now s.heap (liveChain s) (Priv s) cur
  | .rFirst b => Good A k inv s.now s.heap (liveChain s) (Priv s) (binAt s.tbins b).first
  | .lFirst b => Good A k inv s.now s.heap (liveChain s) (Priv s) (binAt s.tbins b).first
  | .rState _ cur => Good A k inv s.now s.heap (liveChain s) (Priv s) cur
  | .rLin _ c => Good A k inv s.now s.heap (liveChain s) (Priv s) (some c)
  | .rCas _ c _ => Good A k inv s.now s.heap (liveChain s) (Priv s) (some c)
  | .rRelease _ none => AbsWit A inv s.now
  | .rRelease _ (some i) => ValWit A k inv s.now s.heap i
  | .rVal i => ValWit A k inv s.now s.heap i
  | .lNode cur => Good A k inv s.now s.heap (liveChain s) (Priv s) cur
  | _ => True

theorem RdOK.step {A A' : Nat → KSt} {k inv : Nat} {s s' : State} {pc : Pc}
    (h : RdOK A k inv s pc) (I : Inv s) (H' : HInv s')
    (hs : HeapStep s.heap (liveChain s) (Priv s) s'.heap (liveChain s') (Priv s'))
    (hnow : s'.now = s.now + 1) (hA' : ∀ τ, τ ≤ s.now → A' τ = A τ) (hA : A s.now = absOf s k)
    (hA'n : A' s'.now = absOf s' k) (hinv : inv ≤ s.now)
    (hfirst : ∀ b, binRef pc = some b → s'.cell ≠ .tree b → (binAt s'.tbins b).first = (binAt s.tbins b).first) :
    RdOK A' k inv s' pc := by
  have V := I.heap.live
  have V' := H'.live
  have hLP : ∀ c ∈ liveChain s, ¬ Priv s c := fun c hc => not_priv_of_live I.heap I.lock hc
  rw [absOf_eq] at hA hA'n
  rw [hnow] at hA'n
  have hg : ∀ cur, Good A k inv s.now s.heap (liveChain s) (Priv s) cur →
      Good A' k inv s'.now s'.heap (liveChain s') (Priv s') cur := by
    intro cur hgood
    rw [hnow]
    exact hgood.step V hs hLP hA' hA hinv
  have hf : ∀ b, binRef pc = some b → Good A k inv s.now s.heap (liveChain s) (Priv s) (binAt s.tbins b).first →
      Good A' k inv s'.now s'.heap (liveChain s') (Priv s') (binAt s'.tbins b).first := by
    intro b hb hgood
    by_cases hc : s'.cell = .tree b
    · have := Good.first (A := A') (k := k) (now := s'.now) (P := Priv s') (inv := inv) V'
        (by rw [hnow]; exact hA'n) (by omega)
      rw [liveStart_tree hc] at this
      exact this
    · rw [hfirst b hb hc]; exact hg _ hgood
  cases pc <;> simp only [RdOK] at h ⊢
  case rNode cur => exact hg _ h
  case rFirst b => exact hf b rfl h
  case lFirst b => exact hf b rfl h
  case rState b cur => exact hg _ h
  case rLin b c => exact hg _ h
  case rCas b c r => exact hg _ h
  case rRelease b hit =>
    cases hit with
    | none => rw [hnow]; exact AbsWit.step h hA'
    | some i => rw [hnow]; exact ValWit.step h V' hs hA' hA'n hinv
  case rVal i => rw [hnow]; exact ValWit.step h V' hs hA' hA'n hinv
  case lNode cur => exact hg _ h

/-! ## the ghost invariant -/

/-- the call has a linearization point in its interval at which the trace `A` justifies it -/
def CallOK (A : Nat → KSt) (pt : Nat → Nat) (c : Call) : Prop :=
  c.inv ≤ pt c.inv ∧ pt c.inv ≤ c.resp ∧
  (isRead c.op = true → specStep (A (pt c.inv)) c.op = (A (pt c.inv), c.res)) ∧
  (isRead c.op = false → 1 ≤ pt c.inv ∧ specStep (A (pt c.inv - 1)) c.op = (A (pt c.inv), c.res))

theorem CallOK.sim {A A' : Nat → KSt} {pt pt' : Nat → Nat} {c c' : Call} {T : Nat}
    (h : CallOK A pt c) (hs : Sim c c') (hresp : c.resp ≤ T) (hA' : ∀ τ, τ ≤ T → A' τ = A τ)
    (hpt' : pt' c.inv = pt c.inv) : CallOK A' pt' c' := by
  obtain ⟨h1, h2, h3, h4⟩ := h
  obtain ⟨_, s2, s3, s4, s5⟩ := hs
  unfold CallOK
  rw [s4, s2, s3, hpt', hA' _ (by omega : pt c.inv ≤ T), hA' _ (by omega : pt c.inv - 1 ≤ T)]
  exact ⟨h1, by omega, h3, h4⟩

structure GInv (k : Nat) (s : State) (A : Nat → KSt) (pt : Nat → Nat) : Prop where
  h0 : A 0 = none
  hA : A s.now = absOf s k
  calls : ∀ c ∈ callsOnExt s k, CallOK A pt c
  stab : ∀ τ, 1 ≤ τ → τ ≤ s.now → A τ ≠ A (τ - 1) →
    ∃ c ∈ callsOnExt s k, isRead c.op = false ∧ pt c.inv = τ
  inj : ∀ c ∈ callsOnExt s k, ∀ d ∈ callsOnExt s k, isRead c.op = false → isRead d.op = false →
    pt c.inv = pt d.inv → c.inv = d.inv
  readers : ∀ (t : Nat) (l : Local) (p : Pending), s.threads[t]? = some l →
    l.call = some p → p.key = k → RdOK A k p.inv s l.pc

/-- the trace extended by the abstract state after the step -/
def nextA (A : Nat → KSt) (now : Nat) (x : KSt) : Nat → KSt := fun τ => if τ = now + 1 then x else A τ

theorem nextA_old {A : Nat → KSt} {now : Nat} {x : KSt} {τ : Nat} (h : τ ≤ now) : nextA A now x τ = A τ := by
  unfold nextA; rw [if_neg (by omega)]

theorem nextA_new {A : Nat → KSt} {now : Nat} {x : KSt} : nextA A now x (now + 1) = x := by
  unfold nextA; rw [if_pos rfl]

/-- the generic part of the preservation of `GInv` -/
theorem GInv.frame {k : Nat} {s s' : State} {A : Nat → KSt} {pt pt' : Nat → Nat} {i0 : Nat}
    (g : GInv k s A pt) (T : TInv s) (hnow : s'.now = s.now + 1)
    (hpt' : ∀ c ∈ callsOnExt s k, pt' c.inv = pt c.inv)
    (hF : ∀ c ∈ callsOnExt s k, ∃ c' ∈ callsOnExt s' k, Sim c c')
    (hB : ∀ c' ∈ callsOnExt s' k, (∃ c ∈ callsOnExt s k, Sim c c') ∨
      (c'.inv = i0 ∧ CallOK (nextA A s.now (absOf s' k)) pt' c' ∧ (isRead c'.op = false → pt' c'.inv = s.now + 1)))
    (hchg : absOf s' k ≠ absOf s k → ∃ c' ∈ callsOnExt s' k, isRead c'.op = false ∧ pt' c'.inv = s.now + 1)
    (hreaders : ∀ (t : Nat) (l : Local) (p : Pending), s'.threads[t]? = some l →
      l.call = some p → p.key = k → RdOK (nextA A s.now (absOf s' k)) k p.inv s' l.pc) :
    GInv k s' (nextA A s.now (absOf s' k)) pt' := by
  have hold : ∀ τ, τ ≤ s.now → nextA A s.now (absOf s' k) τ = A τ := fun τ h => nextA_old h
  refine ⟨?_, ?_, ?_, ?_, ?_, hreaders⟩
  · rw [hold 0 (Nat.zero_le _)]; exact g.h0
  · rw [hnow, nextA_new]
  · intro c' hc'
    rcases hB c' hc' with ⟨c, hc, hsim⟩ | ⟨-, hok, -⟩
    · exact (g.calls c hc).sim hsim (callsOnExt_resp_le T hc) hold (hpt' c hc)
    · exact hok
  · intro τ h1 h2 hne
    rw [hnow] at h2
    rcases Nat.lt_or_ge τ (s.now + 1) with hlt | hge
    · rw [hold τ (by omega), hold (τ - 1) (by omega)] at hne
      obtain ⟨c, hc, hw, hp⟩ := g.stab τ h1 (by omega) hne
      obtain ⟨c', hc', hsim⟩ := hF c hc
      refine ⟨c', hc', by rw [hsim.2.1]; exact hw, ?_⟩
      rw [hsim.2.2.2.1, hpt' c hc]; exact hp
    · have hτ : τ = s.now + 1 := by omega
      subst hτ
      rw [nextA_new, Nat.add_sub_cancel, hold s.now (Nat.le_refl _), g.hA] at hne
      exact hchg hne
  · intro c' hc' d' hd' hwc hwd hpe
    rcases hB c' hc' with ⟨c, hc, hsc⟩ | ⟨hci, -, hcp⟩ <;> rcases hB d' hd' with ⟨d, hd, hsd⟩ | ⟨hdi, -, hdp⟩
    · rw [hsc.2.2.2.1, hsd.2.2.2.1]
      rw [hsc.2.2.2.1, hsd.2.2.2.1, hpt' c hc, hpt' d hd] at hpe
      exact g.inj c hc d hd (by rw [← hsc.2.1]; exact hwc) (by rw [← hsd.2.1]; exact hwd) hpe
    · exfalso
      have h1 := (g.calls c hc).2.1
      have h2 := callsOnExt_resp_le T hc
      rw [hsc.2.2.2.1, hpt' c hc, hdp hwd] at hpe
      omega
    · exfalso
      have h1 := (g.calls d hd).2.1
      have h2 := callsOnExt_resp_le T hd
      rw [hsd.2.2.2.1, hpt' d hd, hcp hwc] at hpe
      omega
    · rw [hci, hdi]


end Flurry.Proto.BinK
