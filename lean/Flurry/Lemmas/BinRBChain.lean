import Flurry.Proto.BinRBase
/-! # Proto/Bin: heap segments and the chain (C01)

(C13 port of `Flurry/Lemmas/BinChain.lean` to the per-key operations of `Flurry/Lin2.lean`, i.e. with `retain`'s conditional removal `condRm`; below, "`Proto/Bin`" / `Base.` is `Flurry.Proto.BinR.Base` (`Proto/BinRBase.lean`) and "`Proto/BinW`" is `Flurry.Proto.BinR` (`Proto/BinR.lean`), which in addition has the `retain` visit steps.)

`IsSeg heap a l e`: following `next` pointers from the pointer `a` visits exactly the nodes `l` and
ends in the pointer `e`. `IsChain heap a l = IsSeg heap a l none`. Under `NextOK` (every `next`
pointer goes strictly upwards and stays inside the heap) the executable `chainFrom` computes the
chain, chains are strictly increasing lists, and we get the three heap surgery lemmas
(`IsSeg.congr`, `isChain_append_node`, `isChain_unlink`). -/
namespace Flurry.Proto.BinR.Base
open Flurry.Lin2

/-- `next` pointers go strictly upwards and stay inside the heap -/
def NextOK (heap : List NodeS) : Prop :=
  ∀ i n j, heap[i]? = some n → n.next = some j → i < j ∧ j < heap.length

inductive IsSeg (heap : List NodeS) : Option Nat → List Nat → Option Nat → Prop
  | nil (e : Option Nat) : IsSeg heap e [] e
  | cons {i : Nat} {n : NodeS} {l : List Nat} {e : Option Nat} :
      heap[i]? = some n → IsSeg heap n.next l e → IsSeg heap (some i) (i :: l) e

abbrev IsChain (heap : List NodeS) (a : Option Nat) (l : List Nat) : Prop := IsSeg heap a l none

theorem IsSeg.nil_iff {heap : List NodeS} {a e : Option Nat} : IsSeg heap a [] e ↔ a = e := by
  constructor
  · intro h; cases h; rfl
  · rintro rfl; exact .nil _

theorem IsSeg.cons_iff {heap : List NodeS} {a e : Option Nat} {i : Nat} {l : List Nat} :
    IsSeg heap a (i :: l) e ↔ a = some i ∧ ∃ n, heap[i]? = some n ∧ IsSeg heap n.next l e := by
  constructor
  · intro h; cases h with | cons h1 h2 => exact ⟨rfl, _, h1, h2⟩
  · rintro ⟨rfl, n, h1, h2⟩; exact .cons h1 h2

theorem IsSeg.append {heap : List NodeS} {a b c : Option Nat} {l1 l2 : List Nat}
    (h1 : IsSeg heap a l1 b) (h2 : IsSeg heap b l2 c) : IsSeg heap a (l1 ++ l2) c := by
  induction h1 with
  | nil e => simpa using h2
  | cons hn _ ih => exact .cons hn (ih h2)

theorem IsSeg.split {heap : List NodeS} {l2 : List Nat} {c : Option Nat} :
    ∀ {l1 : List Nat} {a : Option Nat}, IsSeg heap a (l1 ++ l2) c →
      ∃ b, IsSeg heap a l1 b ∧ IsSeg heap b l2 c
  | [], a, h => ⟨a, .nil _, by simpa using h⟩
  | i :: l1, a, h => by
    rw [List.cons_append, IsSeg.cons_iff] at h
    obtain ⟨rfl, n, hn, hs⟩ := h
    obtain ⟨b, hb1, hb2⟩ := IsSeg.split hs
    exact ⟨b, .cons hn hb1, hb2⟩

theorem IsSeg.unique {heap : List NodeS} {a : Option Nat} {l1 : List Nat}
    (h1 : IsSeg heap a l1 none) : ∀ {l2 : List Nat}, IsSeg heap a l2 none → l1 = l2 := by
  generalize he : (none : Option Nat) = e at h1
  induction h1 with
  | nil e =>
    subst he
    intro l2 h2
    cases h2; rfl
  | cons hn _ ih =>
    subst he
    intro l2 h2
    cases h2 with
    | cons hn2 hs2 =>
      rw [hn] at hn2; cases hn2
      rw [ih rfl hs2]

/-- the nodes of a segment exist -/
theorem IsSeg.valid {heap : List NodeS} {a e : Option Nat} {l : List Nat} (h : IsSeg heap a l e) :
    ∀ j ∈ l, ∃ n, heap[j]? = some n := by
  induction h with
  | nil e => intro j hj; cases hj
  | cons hn _ ih =>
    intro j hj
    rcases List.mem_cons.1 hj with rfl | hj
    · exact ⟨_, hn⟩
    · exact ih j hj

/-- every node of a segment is at or above its start -/
theorem IsSeg.lb {heap : List NodeS} (hok : NextOK heap) {a e : Option Nat} {l : List Nat}
    (h : IsSeg heap a l e) : ∀ j ∈ l, ∀ i, a = some i → i ≤ j := by
  induction h with
  | nil e => intro j hj; cases hj
  | cons hn hs ih =>
    rename_i i n l e
    intro j hj i' hi'
    cases hi'
    rcases List.mem_cons.1 hj with rfl | hj
    · exact Nat.le_refl _
    · cases hnx : n.next with
      | none =>
        rw [hnx] at hs
        cases hs with
        | nil => cases hj
      | some b =>
        have := ih j hj b hnx
        have := (hok _ _ _ hn hnx).1
        omega

/-- every node of a segment is strictly below its end pointer -/
theorem IsSeg.ub {heap : List NodeS} (hok : NextOK heap) {a e : Option Nat} {l : List Nat}
    (h : IsSeg heap a l e) : ∀ j ∈ l, ∀ x, e = some x → j < x := by
  induction h with
  | nil e => intro j hj; cases hj
  | cons hn hs ih =>
    rename_i i n l e
    intro j hj x hx
    rcases List.mem_cons.1 hj with rfl | hj
    · cases hl : l with
      | nil =>
        subst hl
        rw [IsSeg.nil_iff] at hs
        rw [hx] at hs
        exact (hok _ _ _ hn hs).1
      | cons b l' =>
        subst hl
        have h1 := ih b (List.mem_cons_self) x hx
        obtain ⟨hb, -⟩ := IsSeg.cons_iff.1 hs
        have := (hok _ _ _ hn hb).1
        omega
    · exact ih j hj x hx

theorem IsSeg.lt_length {heap : List NodeS} {a e : Option Nat} {l : List Nat} (h : IsSeg heap a l e) :
    ∀ j ∈ l, j < heap.length := by
  intro j hj
  obtain ⟨n, hn⟩ := h.valid j hj
  exact (List.getElem?_eq_some_iff.1 hn).1

/-- segments are strictly increasing -/
theorem IsSeg.sorted {heap : List NodeS} (hok : NextOK heap) {a e : Option Nat} {l : List Nat}
    (h : IsSeg heap a l e) : l.Pairwise (· < ·) := by
  induction h with
  | nil e => exact List.Pairwise.nil
  | cons hn hs ih =>
    rename_i i n l e
    refine List.pairwise_cons.2 ⟨?_, ih⟩
    intro j hj
    cases hnx : n.next with
    | none =>
      rw [hnx] at hs
      cases hs with
      | nil => cases hj
    | some b =>
      have := hs.lb hok j hj b hnx
      have := (hok _ _ _ hn hnx).1
      omega

theorem IsSeg.nodup {heap : List NodeS} (hok : NextOK heap) {a e : Option Nat} {l : List Nat}
    (h : IsSeg heap a l e) : l.Nodup :=
  (h.sorted hok).imp (fun hab => Nat.ne_of_lt hab)

/-- a segment only depends on the `next` fields of its own nodes -/
theorem IsSeg.congr {heap heap' : List NodeS} {a e : Option Nat} {l : List Nat}
    (h : IsSeg heap a l e)
    (hsame : ∀ j ∈ l, ∀ n, heap[j]? = some n → ∃ n', heap'[j]? = some n' ∧ n'.next = n.next) :
    IsSeg heap' a l e := by
  induction h with
  | nil e => exact .nil _
  | cons hn hs ih =>
    obtain ⟨n', hn', hnx⟩ := hsame _ (List.mem_cons_self) _ hn
    refine .cons hn' ?_
    rw [hnx]
    exact ih (fun j hj => hsame j (List.mem_cons_of_mem _ hj))

/-- the decomposition of a chain at one of its nodes -/
theorem IsSeg.at_mem {heap : List NodeS} {a e : Option Nat} {l : List Nat} (h : IsSeg heap a l e)
    {c : Nat} (hc : c ∈ l) :
    ∃ l1 l2 n, l = l1 ++ c :: l2 ∧ heap[c]? = some n ∧ IsSeg heap a l1 (some c) ∧
      IsSeg heap n.next l2 e := by
  obtain ⟨l1, l2, rfl⟩ := List.append_of_mem hc
  obtain ⟨b, h1, h2⟩ := h.split
  obtain ⟨rfl, n, hn, hs⟩ := IsSeg.cons_iff.1 h2
  exact ⟨l1, l2, n, rfl, hn, h1, hs⟩

/-- successor facts: the `next` pointer of a chain node is the next chain node -/
theorem IsSeg.succ_none {heap : List NodeS} (hok : NextOK heap) {a : Option Nat} {l : List Nat}
    (h : IsChain heap a l) {c : Nat} {n : NodeS} (hc : c ∈ l) (hn : heap[c]? = some n)
    (hnx : n.next = none) : ∀ j ∈ l, j ≤ c := by
  obtain ⟨l1, l2, n', rfl, hn', h1, h2⟩ := h.at_mem hc
  rw [hn] at hn'; cases hn'
  rw [hnx] at h2
  cases h2
  intro j hj
  rcases List.mem_append.1 hj with hj | hj
  · exact Nat.le_of_lt (h1.ub hok j hj c rfl)
  · rcases List.mem_cons.1 hj with rfl | hj
    · exact Nat.le_refl _
    · cases hj

theorem IsSeg.succ_some {heap : List NodeS} (hok : NextOK heap) {a : Option Nat} {l : List Nat}
    (h : IsChain heap a l) {c b : Nat} {n : NodeS} (hc : c ∈ l) (hn : heap[c]? = some n)
    (hnx : n.next = some b) : b ∈ l ∧ ∀ j ∈ l, j < b → j ≤ c := by
  obtain ⟨l1, l2, n', rfl, hn', h1, h2⟩ := h.at_mem hc
  rw [hn] at hn'; cases hn'
  rw [hnx] at h2
  cases h2 with
  | cons hb hs =>
    rename_i nb l2'
    refine ⟨by simp, ?_⟩
    intro j hj hjb
    rcases List.mem_append.1 hj with hj | hj
    · exact Nat.le_of_lt (h1.ub hok j hj c rfl)
    · rcases List.mem_cons.1 hj with rfl | hj
      · exact Nat.le_refl _
      · have := (IsSeg.cons hb hs).lb hok j hj b rfl
        omega

/-- the executable `chainFrom` computes the chain (with enough fuel) -/
theorem chainFrom_isChain {heap : List NodeS} (hok : NextOK heap) :
    ∀ (fuel : Nat) (st : Option Nat),
      (∀ i, st = some i → i < heap.length ∧ heap.length ≤ fuel + i) →
      IsChain heap st (chainFrom heap fuel st)
  | 0, none, _ => by simp only [chainFrom]; exact .nil _
  | 0, some i, h => by have := h i rfl; omega
  | fuel + 1, none, _ => by simp only [chainFrom]; exact .nil _
  | fuel + 1, some i, h => by
    have hi := h i rfl
    have hn : heap[i]? = some heap[i] := List.getElem?_eq_getElem hi.1
    simp only [chainFrom, hn]
    refine .cons hn (chainFrom_isChain hok fuel _ ?_)
    intro j hj
    have := hok _ _ _ hn hj
    omega

/-- appending a node behind the last node of a non-empty chain -/
theorem isChain_append_node {heap : List NodeS} (hok : NextOK heap) {a : Option Nat} {l0 : List Nat}
    {last : Nat} (h : IsChain heap a (l0 ++ [last])) (new : NodeS) (hnew : new.next = none) :
    IsChain ((heap ++ [new]).modify last (fun n => { n with next := some heap.length })) a
      (l0 ++ [last] ++ [heap.length]) := by
  obtain ⟨b, h1, h2⟩ := h.split
  obtain ⟨rfl, nl, hnl, hs⟩ := IsSeg.cons_iff.1 h2
  have hlast : last < heap.length := (List.getElem?_eq_some_iff.1 hnl).1
  have hlast0 : last ∉ l0 := by
    intro hm
    have := h1.ub hok last hm last rfl
    omega
  rw [List.append_assoc]
  refine IsSeg.append (b := some last) ?_ ?_
  · refine h1.congr ?_
    intro j hj n hn
    have hjl : j < heap.length := (List.getElem?_eq_some_iff.1 hn).1
    have hne : last ≠ j := fun he => hlast0 (he ▸ hj)
    refine ⟨n, ?_, rfl⟩
    rw [List.getElem?_modify, List.getElem?_append_left hjl, hn]
    simp [hne]
  · refine .cons (n := { nl with next := some heap.length }) ?_ ?_
    · rw [List.getElem?_modify, List.getElem?_append_left hlast, hnl]
      simp
    · refine .cons (n := new) ?_ ?_
      · rw [List.getElem?_modify]
        have : last ≠ heap.length := by omega
        simp [this]
      · rw [hnew]; exact .nil _

/-- unlinking the node `i` behind `pr` -/
theorem isChain_unlink {heap : List NodeS} (hok : NextOK heap) {a : Option Nat} {l1 l2 : List Nat}
    {pr i : Nat} {ni : NodeS} (h : IsChain heap a (l1 ++ pr :: i :: l2)) (hni : heap[i]? = some ni) :
    IsChain (heap.modify pr (fun m => { m with next := ni.next })) a (l1 ++ pr :: l2) := by
  have hsorted := h.sorted hok
  obtain ⟨b, h1, h2⟩ := h.split
  obtain ⟨rfl, np, hnp, hs⟩ := IsSeg.cons_iff.1 h2
  obtain ⟨hb, ni', hni', hs2⟩ := IsSeg.cons_iff.1 hs
  rw [hni] at hni'; cases hni'
  have hpr1 : pr ∉ l1 := by
    intro hm
    have := h1.ub hok pr hm pr rfl
    omega
  have hpr2 : pr ∉ l2 := by
    intro hm
    have h3 := (List.pairwise_append.1 hsorted).2.1
    have := (List.pairwise_cons.1 h3).1 pr (List.mem_cons_of_mem _ hm)
    omega
  refine IsSeg.append (b := some pr) ?_ ?_
  · refine h1.congr ?_
    intro j hj n hn
    have hne : pr ≠ j := fun he => hpr1 (he ▸ hj)
    refine ⟨n, ?_, rfl⟩
    rw [List.getElem?_modify, hn]
    simp [hne]
  · refine .cons (n := { np with next := ni.next }) ?_ ?_
    · rw [List.getElem?_modify, hnp]; simp
    · refine hs2.congr ?_
      intro j hj n hn
      have hne : pr ≠ j := fun he => hpr2 (he ▸ hj)
      refine ⟨n, ?_, rfl⟩
      rw [List.getElem?_modify, hn]
      simp [hne]

/-! ## `predOf` -/

theorem predOf_none_of_not_mem_tail (i : Nat) : ∀ l : List Nat, i ∉ l.tail → predOf l i = none
  | [], _ => rfl
  | [_], _ => rfl
  | a :: b :: rest, h => by
    have hb : b ≠ i := fun he => h (by simp [he])
    have hr : i ∉ (b :: rest).tail := fun hm => h (by simp at hm ⊢; exact Or.inr hm)
    simp only [predOf, beq_iff_eq, hb, if_false]
    exact predOf_none_of_not_mem_tail i (b :: rest) hr

theorem predOf_head (i : Nat) (l : List Nat) (hi : i ∉ l) : predOf (i :: l) i = none :=
  predOf_none_of_not_mem_tail i (i :: l) hi

theorem predOf_mid (i a : Nat) (l2 : List Nat) (ha : a ≠ i) :
    ∀ l1 : List Nat, i ∉ l1 → predOf (l1 ++ a :: i :: l2) i = some a
  | [], _ => by simp [predOf]
  | [x], _ => by
    simp only [List.cons_append, List.nil_append, predOf, beq_iff_eq, ha, if_false, if_true]
  | x :: y :: l1, h => by
    have hy : y ≠ i := fun he => h (by simp [he])
    have hr : i ∉ y :: l1 := fun hm => h (List.mem_cons_of_mem _ hm)
    simp only [List.cons_append, predOf, beq_iff_eq, hy, if_false]
    exact predOf_mid i a l2 ha (y :: l1) hr

end Flurry.Proto.BinR.Base
