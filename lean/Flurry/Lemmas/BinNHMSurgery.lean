import Flurry.Lemmas.BinNSurgery
import Flurry.Lemmas.BinNSurgeryDefs
import Flurry.Lemmas.BinNHMSurgeryDefs
/-! # Proto/BinNH — port of the `Proto/BinN` lemma file of the same name to the heap invariant with ONE
MID-TRANSFER CELL PER HELPER (`Lemmas/BinNHMDefs.lean`); statements about `BinN.State`. Original header: the generic surgery on the chain of an active cell (C01, C10)

`hinv_update` / `heapStep_update`: a store into the chain of an *active* cell does not affect the other
chains — nor the cell that is being split and its two new lists (`HInv.mid_key`, `HInv.mid_disjoint`):
writers go on in the other cells while the resizing thread is between its split and the store of the
forwarding marker. -/
namespace Flurry.Proto.BinNHM
open Flurry.Proto.BinN
open Flurry.Lin
open Flurry.Proto.BinX (NodeS Cell Pending dflt chainFrom cellHead cellOfHead nodeAt nodeAt_eq nodeAt_of_some
  getElem?_nodeAt nodeAt_modify nodeAt_append_left nodeAt_append_new IsSeg IsChain chainH chainH_empty
  chainH_moved absIn absIn_same absIn_swap absIn_append absIn_unlink KeysDistinct cellHead_cellOfHead
  cellOfHead_ne_moved isChain_append_node isChain_unlink)

/-! ## the cell that is being split -/

theorem SideOK.congr {bit : Nat → Bool} {heap heap' : List NodeS} {cr : CR} {fr : Nat × Nat} {O X : List Nat} {b : Bool}
    (h : SideOK bit heap cr fr O b X) (hO : ∀ i ∈ O, nodeAt heap' i = nodeAt heap i)
    (hX : ∀ i ∈ X, nodeAt heap' i = nodeAt heap i) : SideOK bit heap' cr fr O b X := by
  refine ⟨?_, ?_, h.mem, ?_, ?_, h.suffix⟩
  · intro j hj; rw [hX j hj]; exact h.side j hj
  · exact h.keys.congr (fun j hj => by rw [hX j hj])
  · intro j hj hf
    obtain ⟨i, hi, h1, h2, h3⟩ := h.src j hj hf
    exact ⟨i, hi, by rw [hO i hi, hX j hj]; exact h1, by rw [hO i hi, hX j hj]; exact h2, h3⟩
  · intro i hi hb
    rw [hO i hi] at hb
    obtain ⟨j, hj, h1, h2, h3⟩ := h.cover i hi hb
    exact ⟨j, hj, by rw [hO i hi, hX j hj]; exact h1, by rw [hO i hi, hX j hj]; exact h2, h3⟩

theorem isChain_congr_nodes {heap heap' : List NodeS} {a : Option Nat} {l : List Nat} (h : IsChain heap a l)
    (hlen : heap.length ≤ heap'.length) (hl : ∀ i ∈ l, nodeAt heap' i = nodeAt heap i) : IsChain heap' a l := by
  refine IsSeg.congr h ?_
  intro j hj n hn
  have hjl : j < heap.length := (List.getElem?_eq_some_iff.1 hn).1
  refine ⟨nodeAt heap' j, getElem?_nodeAt (by omega), ?_⟩
  rw [hl j hj, nodeAt_of_some hn]

theorem Split.congr {bit : Nat → Bool} {heap heap' : List NodeS} {cr : CR} {fr : Nat × Nat} {O : List Nat}
    {lo hg : Option Nat} (h : Split bit heap cr fr O lo hg) (hlen : heap.length ≤ heap'.length)
    (hsame : ∀ L Hh, IsChain heap lo L → IsChain heap hg Hh → ∀ i, (i ∈ O ∨ i ∈ L ∨ i ∈ Hh) →
      nodeAt heap' i = nodeAt heap i) : Split bit heap' cr fr O lo hg := by
  obtain ⟨h0, L, Hh, hL, hH, sL, sH⟩ := h
  have hs := hsame L Hh hL hH
  refine ⟨h0, L, Hh, isChain_congr_nodes hL hlen (fun i hi => hs i (Or.inr (Or.inl hi))),
    isChain_congr_nodes hH hlen (fun i hi => hs i (Or.inr (Or.inr hi))), ?_, ?_⟩
  · exact sL.congr (fun i hi => hs i (Or.inl hi)) (fun i hi => hs i (Or.inr (Or.inl hi)))
  · exact sH.congr (fun i hi => hs i (Or.inl hi)) (fun i hi => hs i (Or.inr (Or.inr hi)))

/-- the two new lists of the split, as the lists that `chainH` computes -/
theorem HInv.mid_facts {s : State} {G : Ghost} (H : HInv s G) {j : Nat} {lo hg : Option Nat}
    (hm : G.mid j = some (lo, hg, fr)) :
    IsChain s.heap lo (chainH s.heap (cellOfHead lo)) ∧ IsChain s.heap hg (chainH s.heap (cellOfHead hg)) ∧
    SideOK (bitAt s.cur) s.heap G.cr fr (chId s (s.cur, j)) false (chainH s.heap (cellOfHead lo)) ∧
    SideOK (bitAt s.cur) s.heap G.cr fr (chId s (s.cur, j)) true (chainH s.heap (cellOfHead hg)) := by
  obtain ⟨-, -, -, -, -, L, Hh, hL, hH, sL, sH⟩ := H.mid j lo hg _ hm
  have eL : chainH s.heap (cellOfHead lo) = L := chainH_eq H.nextOK (by rw [cellHead_cellOfHead]; exact hL)
  have eH : chainH s.heap (cellOfHead hg) = Hh := chainH_eq H.nextOK (by rw [cellHead_cellOfHead]; exact hH)
  rw [eL, eH]
  exact ⟨hL, hH, sL, sH⟩

/-- every node of the cell being split and of its two new lists holds a key of that cell -/
theorem HInv.mid_key {s : State} {G : Ghost} (H : HInv s G) {j : Nat} {lo hg : Option Nat}
    (hm : G.mid j = some (lo, hg, fr)) {i : Nat}
    (hi : i ∈ chId s (s.cur, j) ∨ i ∈ chainH s.heap (cellOfHead lo) ∨ i ∈ chainH s.heap (cellOfHead hg)) :
    (nodeAt s.heap i).key % 2 ^ s.cur = j ∧ i < s.heap.length := by
  obtain ⟨hL, hH, sL, sH⟩ := H.mid_facts hm
  have hO : ∀ i ∈ chId s (s.cur, j), (nodeAt s.heap i).key % 2 ^ s.cur = j := fun i hi => H.side (s.cur, j) i hi
  have hX : ∀ b X, SideOK (bitAt s.cur) s.heap G.cr fr (chId s (s.cur, j)) b X → ∀ i ∈ X,
      (nodeAt s.heap i).key % 2 ^ s.cur = j := by
    intro b X sX i hi
    rcases sX.mem i hi with h | h
    · exact hO i h
    · obtain ⟨i0, hi0, hk, -⟩ := sX.src i hi h
      rw [← hk]; exact hO i0 hi0
  rcases hi with hi | hi | hi
  · exact ⟨hO i hi, H.chain_lt hi⟩
  · exact ⟨hX _ _ sL i hi, hL.lt_length i hi⟩
  · exact ⟨hX _ _ sH i hi, hH.lt_length i hi⟩

/-- an active cell is neither the cell being split nor one of its children -/
theorem Active.ne_mid {s : State} {G : Ghost} {id : CellId} (H : HInv s G) (act : Active s G id) {j : Nat}
    {lo hg : Option Nat} (hm : G.mid j = some (lo, hg, fr)) :
    id ≠ (s.cur, j) ∧ id ≠ (s.cur + 1, j) ∧ id ≠ (s.cur + 1, j + 2 ^ s.cur) ∧
      ¬ (id.1 = s.cur + 1 ∧ id.2 % 2 ^ s.cur = j) := by
  obtain ⟨hj, ⟨h, hn⟩, -⟩ := H.mid j lo hg _ hm
  have hmi := isMid_of hm
  obtain ⟨g, x⟩ := id
  have key : ¬ (g = s.cur + 1 ∧ x % 2 ^ s.cur = j) := by
    rintro ⟨hg1, hx⟩
    rcases act with ⟨hg2, -⟩ | ⟨-, -, hpar⟩
    · simp only at hg2; omega
    · simp only at hpar
      rw [hx, hn] at hpar; cases hpar
  refine ⟨?_, ?_, ?_, key⟩
  · intro e
    cases e
    rcases act with ⟨-, -, -, hmid⟩ | ⟨hg2, -⟩
    · exact hmid hmi
    · simp only at hg2; omega
  · intro e
    cases e
    exact key ⟨rfl, Nat.mod_eq_of_lt hj⟩
  · intro e
    cases e
    exact key ⟨rfl, high_mod j s.cur hj⟩

/-- the chain of an active cell shares no node with the cell being split and its two new lists -/
theorem HInv.mid_disjoint {s : State} {G : Ghost} {id : CellId} (H : HInv s G) (act : Active s G id) {j : Nat}
    {lo hg : Option Nat} (hm : G.mid j = some (lo, hg, fr)) {i : Nat}
    (hi : i ∈ chId s (s.cur, j) ∨ i ∈ chainH s.heap (cellOfHead lo) ∨ i ∈ chainH s.heap (cellOfHead hg)) :
    i ∉ chId s id := by
  intro hc
  have hk := (H.mid_key hm hi).1
  have hs := H.side id i hc
  obtain ⟨h1, -, -, h4⟩ := act.ne_mid H hm
  obtain ⟨g, x⟩ := id
  unfold keyOn at hs
  simp only at hs h4
  rcases act with ⟨hg1, -⟩ | ⟨hg1, -⟩
  · simp only at hg1
    subst hg1
    apply h1
    rw [← hs, hk]
  · simp only at hg1
    subst hg1
    apply h4
    refine ⟨rfl, ?_⟩
    rw [← keyOn_mod (Nat.le_succ s.cur) hs, hk]

/-! ## the generic surgery on the chain of an active cell -/

theorem Update.chains {s s' : State} {G : Ghost} {id : CellId} {C' : List Nat} (H : HInv s G)
    (act : Active s G id) (u : Update s s' G id C') :
    chId s' id = C' ∧ ∀ id', id' ≠ id → chId s' id' = chId s id' := by
  refine ⟨chainH_eq u.nextOK u.chain, ?_⟩
  intro id' hne
  refine chainH_eq u.nextOK ?_
  rw [u.cell id' hne]
  refine isChain_congr_nodes (H.isChain id') u.len ?_
  intro j hj
  exact u.other j (H.chain_lt hj) (fun hm => H.disjoint act hne hm hj)

/-- an update of an active cell forwards no cell and un-forwards none -/
theorem Update.moved_iff {s s' : State} {G : Ghost} {id : CellId} {C' : List Nat} (S : Shape s)
    (act : Active s G id) (u : Update s s' G id C') (id' : CellId) :
    getCell s' id' = .moved ↔ getCell s id' = .moved := by
  by_cases hid : id' = id
  · subst hid
    exact ⟨fun h => absurd h u.notMoved, fun h => absurd h (act.notMoved S)⟩
  · rw [u.cell id' hid]

theorem Update.cellAt_moved_iff {s s' : State} {G : Ghost} {id : CellId} {C' : List Nat} (S : Shape s)
    (act : Active s G id) (u : Update s s' G id C') (g j : Nat) :
    cellAt s' g j = .moved ↔ cellAt s g j = .moved := u.moved_iff S act (g, j)

theorem Update.active_iff {s s' : State} {G : Ghost} {id : CellId} {C' : List Nat} (S : Shape s)
    (act : Active s G id) (u : Update s s' G id C') (id' : CellId) : Active s' G id' ↔ Active s G id' := by
  unfold Active
  have h1 : getCell s' id' ≠ .moved ↔ getCell s id' ≠ .moved := not_congr (u.moved_iff S act id')
  rw [u.cur, h1, u.cellAt_moved_iff S act]

theorem Update.liveId_eq {s s' : State} {G : Ghost} {id : CellId} {C' : List Nat} (H : HInv s G)
    (act : Active s G id) (u : Update s s' G id C') (k : Nat) : liveId s' k = liveId s k := by
  unfold liveId cellOf
  rw [u.cur]
  by_cases hm : cellAt s s.cur (k % 2 ^ s.cur) = .moved
  · rw [if_pos hm, if_pos ((u.cellAt_moved_iff H.shape act _ _).2 hm)]
  · rw [if_neg hm, if_neg (fun h => hm ((u.cellAt_moved_iff H.shape act _ _).1 h))]

theorem Update.shape {s s' : State} {G : Ghost} {id : CellId} {C' : List Nat} (S : Shape s)
    (act : Active s G id) (u : Update s s' G id C') : Shape s' := by
  have hmv := u.cellAt_moved_iff S act
  refine ⟨by rw [u.tlen, u.cur, u.resz]; exact S.len, ?_, ?_, ?_, ?_⟩
  · intro g row' hr'
    obtain ⟨row, hr, hl⟩ := u.rows g row' hr'
    rw [hl]; exact S.rows g row hr
  · intro g j hg hj
    rw [u.cur] at hg
    exact (hmv g j).2 (S.old g j hg hj)
  · intro j hm
    rw [u.cur] at hm
    exact S.nextNM j ((hmv _ j).1 hm)
  · intro j hm
    rw [u.cur] at hm
    rw [u.resz]
    exact S.curMoved j ((hmv _ j).1 hm)

/-- the nodes of the cell being split and of its two new lists are not touched -/
theorem Update.mid_same {s s' : State} {G : Ghost} {id : CellId} {C' : List Nat} (H : HInv s G)
    (act : Active s G id) (u : Update s s' G id C') {j : Nat} {lo hg : Option Nat}
    (hm : G.mid j = some (lo, hg, fr)) {i : Nat}
    (hi : i ∈ chId s (s.cur, j) ∨ i ∈ chainH s.heap (cellOfHead lo) ∨ i ∈ chainH s.heap (cellOfHead hg)) :
    nodeAt s'.heap i = nodeAt s.heap i :=
  u.other i (H.mid_key hm hi).2 (H.mid_disjoint act hm hi)

/-- the two new lists of the split are the same lists after the update -/
theorem Update.mid_lists {s s' : State} {G : Ghost} {id : CellId} {C' : List Nat} (H : HInv s G)
    (act : Active s G id) (u : Update s s' G id C') {j : Nat} {lo hg : Option Nat}
    (hm : G.mid j = some (lo, hg, fr)) :
    chainH s'.heap (cellOfHead lo) = chainH s.heap (cellOfHead lo) ∧
    chainH s'.heap (cellOfHead hg) = chainH s.heap (cellOfHead hg) := by
  obtain ⟨hL, hH, -, -⟩ := H.mid_facts hm
  constructor
  · refine chainH_eq u.nextOK ?_
    rw [cellHead_cellOfHead]
    exact isChain_congr_nodes hL u.len (fun i hi => u.mid_same H act hm (Or.inr (Or.inl hi)))
  · refine chainH_eq u.nextOK ?_
    rw [cellHead_cellOfHead]
    exact isChain_congr_nodes hH u.len (fun i hi => u.mid_same H act hm (Or.inr (Or.inr hi)))

theorem hinv_update {s s' : State} {G : Ghost} {id : CellId} {C' : List Nat} (H : HInv s G)
    (act : Active s G id) (u : Update s s' G id C') : HInv s' G := by
  obtain ⟨hC, hO⟩ := u.chains H act
  have hlen := u.len
  have S := H.shape
  have hmv := u.cellAt_moved_iff S act
  -- every chain of the new state
  have hheads : ∀ id'' h, getCell s' id'' = .node h → h < s'.heap.length := by
    intro id'' h hc
    by_cases hid : id'' = id
    · subst hid
      have := u.chain
      rw [hc] at this
      cases hcc : C' with
      | nil => rw [hcc] at this; cases this
      | cons a l =>
        rw [hcc] at this
        obtain ⟨ha, n, hn, -⟩ := IsSeg.cons_iff.1 this
        cases ha
        exact (List.getElem?_eq_some_iff.1 hn).1
    · rw [u.cell id'' hid] at hc
      have := H.head id'' h hc
      omega
  have hnode : ∀ id'', id'' ≠ id → ∀ j ∈ chId s id'', nodeAt s'.heap j = nodeAt s.heap j := by
    intro id'' hne j hj
    exact u.other j (H.chain_lt hj) (fun hm => H.disjoint act hne hm hj)
  have hkeys : ∀ id'', KeysDistinct s'.heap (chId s' id'') := by
    intro id''
    by_cases hid : id'' = id
    · subst hid; rw [hC]; exact u.keys
    · rw [hO id'' hid]
      exact (H.keys id'').congr (fun j hj => by rw [hnode id'' hid j hj])
  have hside : ∀ id'', ∀ j ∈ chId s' id'', keyOn id'' (nodeAt s'.heap j).key := by
    intro id'' j hj
    by_cases hid : id'' = id
    · subst hid; rw [hC] at hj; exact u.side j hj
    · rw [hO id'' hid] at hj
      rw [hnode id'' hid j hj]
      exact H.side id'' j hj
  refine ⟨u.shape S act, u.nextOK, fun i hi => Nat.lt_of_lt_of_le (H.crLt i hi) hlen,
    (fun j lo hg fr hm => ⟨Nat.le_trans (H.frOK j lo hg fr hm).1 hlen, (H.frOK j lo hg fr hm).2⟩), hheads, hkeys, hside, ?_, ?_⟩
  · intro j' h1 h2
    rw [u.cur] at h1 h2 ⊢
    have h1' : cellAt s s.cur (j' % 2 ^ s.cur) ≠ .moved := fun h => h1 ((hmv _ _).2 h)
    have he := H.nextEmpty j' h1' h2
    have hne : ((s.cur + 1, j') : CellId) ≠ id := by
      intro e
      subst e
      rcases act with ⟨hg, -⟩ | ⟨-, -, hpar⟩
      · simp only at hg; omega
      · exact h1' hpar
    have := u.cell _ hne
    rw [getCell_mk, getCell_mk] at this
    rw [this]; exact he
  · intro j lo hg fr hm
    obtain ⟨hj, hn, hcl, hch, hsp⟩ := H.mid j lo hg _ hm
    obtain ⟨n1, n2, n3, -⟩ := act.ne_mid H hm
    have e1 := u.cell _ (Ne.symm n1)
    have e2 := u.cell _ (Ne.symm n2)
    have e3 := u.cell _ (Ne.symm n3)
    rw [getCell_mk, getCell_mk] at e1 e2 e3
    rw [u.cur, e1, e2, e3, hO _ (Ne.symm n1)]
    refine ⟨hj, hn, hcl, hch, hsp.congr hlen ?_⟩
    intro L Hh hL hH i hi
    have eL : chainH s.heap (cellOfHead lo) = L := chainH_eq H.nextOK (by rw [cellHead_cellOfHead]; exact hL)
    have eH : chainH s.heap (cellOfHead hg) = Hh := chainH_eq H.nextOK (by rw [cellHead_cellOfHead]; exact hH)
    rw [← eL, ← eH] at hi
    exact u.mid_same H act hm hi

theorem Update.LC_eq {s s' : State} {G : Ghost} {id : CellId} {C' : List Nat} (H : HInv s G)
    (act : Active s G id) (u : Update s s' G id C') (k : Nat) :
    LC s' k = if liveId s k = id then C' else LC s k := by
  have H' := hinv_update H act u
  obtain ⟨hC, hO⟩ := u.chains H act
  rw [H'.LC_eq, H.LC_eq, u.liveId_eq H act]
  split
  · rename_i h; rw [h, hC]
  · rename_i h; rw [hO _ h]

theorem heapStep_update {s s' : State} {G : Ghost} {id : CellId} {C' : List Nat} (H : HInv s G)
    (act : Active s G id) (u : Update s s' G id C')
    (hsub : ∀ j ∈ C', j ∈ chId s id ∨ s.heap.length ≤ j)
    (hkey : ∀ j, j < s.heap.length → (nodeAt s'.heap j).key = (nodeAt s.heap j).key)
    (hunl : ∀ c ∈ chId s id, c ∉ C' → (nodeAt s'.heap c).val = (nodeAt s.heap c).val ∧
      (nodeAt s'.heap c).next = (nodeAt s.heap c).next ∧ ∀ j ∈ chId s id, j ≠ c → j ∈ C') :
    HeapStep s s' G G := by
  obtain ⟨hC, hO⟩ := u.chains H act
  -- dead nodes stay dead
  have hdead : ∀ j, j < s.heap.length → (j ∈ chId s id → j ∉ C') → (∀ id', id' ≠ id → j ∉ chId s id') →
      (∀ x lo hg fr, G.mid x = some (lo, hg, fr) → j ∉ chainH s.heap (cellOfHead lo) ∧ j ∉ chainH s.heap (cellOfHead hg)) →
      ¬ Live s' G j := by
    intro j hj h1 h2 h3
    rintro (⟨id', hm⟩ | ⟨x, lo, hg, fr, hmid, hm⟩)
    · by_cases hid : id' = id
      · subst hid
        rw [hC] at hm
        rcases hsub j hm with h | h
        · exact h1 h hm
        · omega
      · rw [hO id' hid] at hm
        exact h2 id' hid hm
    · obtain ⟨e1, e2⟩ := u.mid_lists H act hmid
      rw [e1, e2] at hm
      obtain ⟨n1, n2⟩ := h3 x lo hg fr hmid
      rcases hm with hm | hm
      · exact n1 hm
      · exact n2 hm
  -- a node of the updated chain is on neither of the two new lists
  have hmidC : ∀ c ∈ chId s id, ∀ x lo hg fr, G.mid x = some (lo, hg, fr) →
      c ∉ chainH s.heap (cellOfHead lo) ∧ c ∉ chainH s.heap (cellOfHead hg) := by
    intro c hc x lo hg fr hmid
    exact ⟨fun h => H.mid_disjoint act hmid (Or.inr (Or.inl h)) hc,
      fun h => H.mid_disjoint act hmid (Or.inr (Or.inr h)) hc⟩
  have hunlC : ∀ c, c ∈ chId s id → c ∉ C' →
      (nodeAt s'.heap c).val = (nodeAt s.heap c).val ∧ (nodeAt s'.heap c).next = (nodeAt s.heap c).next ∧
      ¬ Live s' G c := by
    intro c hc1 hc2
    obtain ⟨h1, h2, -⟩ := hunl c hc1 hc2
    exact ⟨h1, h2, hdead c (H.chain_lt hc1) (fun _ => hc2) (fun id' hne => H.disjoint act hne hc1) (hmidC c hc1)⟩
  refine ⟨u.len, hkey, fun _ _ => rfl, fun id' => (u.moved_iff H.shape act id').2, ?_, ?_, ?_, ?_⟩
  · intro j hj hnl
    have hnot : ∀ id', j ∉ chId s id' := fun id' hm => hnl (Or.inl ⟨id', hm⟩)
    have := u.other j hj (hnot id)
    refine ⟨by rw [this], by rw [this], ?_⟩
    refine hdead j hj (fun h => absurd h (hnot id)) (fun id' _ => hnot id') ?_
    intro x lo hg fr hmid
    exact ⟨fun h => hnl (Or.inr ⟨x, lo, hg, fr, hmid, Or.inl h⟩), fun h => hnl (Or.inr ⟨x, lo, hg, fr, hmid, Or.inr h⟩)⟩
  · intro k j hj
    rw [u.LC_eq H act] at hj
    split at hj
    · rename_i hid
      rcases hsub j hj with h | h
      · left; rw [H.LC_eq, hid]; exact h
      · right
        refine ⟨h, ?_⟩
        intro hcp
        have := H.crLt j hcp
        omega
    · exact Or.inl hj
  · intro k c hc1 hc2
    rw [u.LC_eq H act] at hc2
    split at hc2
    · rename_i hid
      rw [H.LC_eq, hid] at hc1
      obtain ⟨h1, h2, h3⟩ := hunlC c hc1 hc2
      refine ⟨h1, h2, h3, ?_⟩
      intro j hj hne
      rw [H.LC_eq, hid] at hj
      rw [u.LC_eq H act, if_pos hid]
      exact (hunl c hc1 hc2).2.2 j hj hne
    · exact absurd hc1 hc2
  · intro id' c hc1 hc2
    by_cases hid : id' = id
    · subst hid
      rw [hC] at hc2
      obtain ⟨h1, h2, h3⟩ := hunlC c hc1 hc2
      refine ⟨h1, h2, h3, ?_⟩
      intro j hj hne
      rw [hC]
      exact (hunl c hc1 hc2).2.2 j hj hne
    · rw [hO id' hid] at hc2
      exact absurd hc1 hc2

/-- the abstract content after an update -/
theorem Update.abs {s s' : State} {G : Ghost} {id : CellId} {C' : List Nat} (H : HInv s G)
    (act : Active s G id) (u : Update s s' G id C') (k : Nat) :
    absOf s' k = if liveId s k = id then absIn s'.heap C' k else absOf s k := by
  have hlc := u.LC_eq H act k
  rw [absOf_eq, absOf_eq, hlc]
  split
  · rfl
  · rename_i hid
    rw [H.LC_eq k]
    refine absIn_same ?_ ?_ k
    · intro j hj
      rw [u.other j (H.chain_lt hj) (fun hm => H.disjoint act hid hm hj)]
    · intro j hj
      rw [u.other j (H.chain_lt hj) (fun hm => H.disjoint act hid hm hj)]


/-! ## the surgeries -/

/-- a new node is not a copy and lies above every old node -/
theorem ord_new {s : State} {G : Ghost} (H : HInv s G) {j : Nat} (hj : j < s.heap.length) :
    ord G.cr j < ord G.cr s.heap.length := by
  have h1 := ord_le_self G.cr j
  have h2 : ¬ isCopy G.cr s.heap.length := fun h => Nat.lt_irrefl _ (H.crLt _ h)
  rw [ord_not_copy h2]
  omega

/-! ### surgery 1: value swap at a chain node -/

theorem swap_effect {s s' : State} {G : Ghost} {id : CellId} (H : HInv s G) (act : Active s G id)
    {i : Nat} (hi : i ∈ chId s id) {v : Nat × Nat}
    (hh : s'.heap = s.heap.modify i (fun n => { n with val := v }))
    (hcell : ∀ id', getCell s' id' = getCell s id') (hcur : s'.cur = s.cur)
    (hres : s'.resizing = s.resizing) (htl : s'.tabs.length = s.tabs.length)
    (hrows : ∀ (g : Nat) (row' : List Cell), s'.tabs[g]? = some row' →
      ∃ row : List Cell, s.tabs[g]? = some row ∧ row'.length = row.length) :
    Effect s s' G id ∧
      ∀ k, absOf s' k = if (nodeAt s.heap i).key = k then some v else absOf s k := by
  have hil := H.chain_lt hi
  have hkey : ∀ j, (nodeAt s'.heap j).key = (nodeAt s.heap j).key := by
    intro j; rw [hh, nodeAt_modify]; split <;> rfl
  have hnext : ∀ j, (nodeAt s'.heap j).next = (nodeAt s.heap j).next := by
    intro j; rw [hh, nodeAt_modify]; split <;> rfl
  have hval : ∀ j, (nodeAt s'.heap j).val = if j = i then v else (nodeAt s.heap j).val := by
    intro j; rw [hh, nodeAt_modify]
    by_cases hij : i = j
    · subst hij; simp [hil]
    · have : ¬ j = i := fun h => hij h.symm
      simp [hij, this]
  have u : Update s s' G id (chId s id) := by
    refine ⟨?_, ?_, fun id' _ => hcell id', hcur, hres, htl, hrows, ?_, ?_, ?_, ?_, ?_⟩
    · rw [hh]; exact nextOK_modify_same H.nextOK (fun _ => rfl)
    · rw [hh, List.length_modify]; exact Nat.le_refl _
    · rw [hcell id]; exact act.notMoved H.shape
    · rw [hcell id, hh]
      exact (H.isChain id).modify (fun _ _ => rfl)
    · intro j _ hj
      rw [hh, nodeAt_modify]
      have : i ≠ j := fun h => hj (h ▸ hi)
      simp [this]
    · exact (H.keys id).congr (fun j _ => hkey j)
    · intro j hj; rw [hkey]; exact H.side id j hj
  refine ⟨⟨_, u, ?_, ?_⟩, ?_⟩
  · refine heapStep_update H act u (fun j hj => Or.inl hj) (fun j _ => hkey j) ?_
    intro c hc hc'; exact absurd hc hc'
  · intro j _; rw [hh, nodeAt_modify]; split <;> rfl
  · intro k
    rw [u.abs H act]
    have hsw := absIn_swap (heap' := s'.heap) (H.keys id) hi (fun j _ => hkey j) (fun j _ => hval j) k
    by_cases hlid : liveId s k = id
    · rw [if_pos hlid, hsw]
      split
      · rfl
      · rw [absOf_eq, H.LC_eq k, hlid]
    · rw [if_neg hlid]
      have : (nodeAt s.heap i).key ≠ k := by
        intro hk
        exact hlid (H.liveId_of_active act (hk ▸ H.side id i hi))
      rw [if_neg this]

/-! ### surgery 2: append behind the last node -/

theorem append_effect {s s' : State} {G : Ghost} {id : CellId} (H : HInv s G) (act : Active s G id)
    {l0 : List Nat} {last : Nat} (hch : chId s id = l0 ++ [last]) {new : NodeS}
    (hnx : new.next = none) (hon : keyOn id new.key)
    (hfresh : ∀ i ∈ chId s id, (nodeAt s.heap i).key ≠ new.key)
    (hh : s'.heap = (s.heap ++ [new]).modify last (fun n => { n with next := some s.heap.length }))
    (hcell : ∀ id', getCell s' id' = getCell s id') (hcur : s'.cur = s.cur)
    (hres : s'.resizing = s.resizing) (htl : s'.tabs.length = s.tabs.length)
    (hrows : ∀ (g : Nat) (row' : List Cell), s'.tabs[g]? = some row' →
      ∃ row : List Cell, s.tabs[g]? = some row ∧ row'.length = row.length) :
    Effect s s' G id ∧
      ∀ k, absOf s' k = if new.key = k then some new.val else absOf s k := by
  have hlc : last ∈ chId s id := by rw [hch]; simp
  have hll := H.chain_lt hlc
  have hnd := H.chain_nodup id
  have hold : ∀ j, j < s.heap.length → (nodeAt s'.heap j).key = (nodeAt s.heap j).key ∧
      (nodeAt s'.heap j).val = (nodeAt s.heap j).val ∧ (nodeAt s'.heap j).lock = (nodeAt s.heap j).lock ∧
      (j ≠ last → nodeAt s'.heap j = nodeAt s.heap j) := by
    intro j hj
    rw [hh, nodeAt_modify, nodeAt_append_left _ hj]
    split
    · rename_i hjl
      exact ⟨rfl, rfl, rfl, fun hne => absurd hjl.1.symm hne⟩
    · exact ⟨rfl, rfl, rfl, fun _ => rfl⟩
  have hnew : nodeAt s'.heap s.heap.length = new := by
    rw [hh, nodeAt_modify, nodeAt_append_new]
    have : ¬ (last = s.heap.length ∧ s.heap.length < (s.heap ++ [new]).length) := by
      intro h; omega
    rw [if_neg this]
  have hnotin : s.heap.length ∉ chId s id := fun hm => Nat.lt_irrefl _ (H.chain_lt hm)
  obtain ⟨hd', habs⟩ := absIn_append (heap' := s'.heap) (H.keys id) (fun j hj => (hold j (H.chain_lt hj)).1)
    (fun j hj => (hold j (H.chain_lt hj)).2.1) hnew hnotin hfresh
  have u : Update s s' G id (chId s id ++ [s.heap.length]) := by
    refine ⟨?_, ?_, fun id' _ => hcell id', hcur, hres, htl, hrows, ?_, ?_, ?_, hd', ?_⟩
    · rw [hh]
      refine nextOK_modify_next (nextOK_append H.nextOK hnx) ?_
      intro b hb
      cases hb
      rw [List.length_append, List.length_singleton]
      exact ⟨ord_new H hll, by omega⟩
    · rw [hh, List.length_modify, List.length_append]; omega
    · rw [hcell id]; exact act.notMoved H.shape
    · rw [hcell id, hh, hch]
      have := H.isChain id
      rw [hch] at this
      exact isChain_append_node this (hch ▸ hnd) new hnx
    · intro j hj hjc
      exact (hold j hj).2.2.2 (fun h => hjc (h ▸ hlc))
    · intro j hj
      rcases List.mem_append.1 hj with hj | hj
      · rw [(hold j (H.chain_lt hj)).1]; exact H.side id j hj
      · have : j = s.heap.length := by simpa using hj
        subst this
        rw [hnew]; exact hon
  refine ⟨⟨_, u, ?_, fun j hj => (hold j hj).2.2.1⟩, ?_⟩
  · refine heapStep_update H act u ?_ (fun j hj => (hold j hj).1) ?_
    · intro j hj
      rcases List.mem_append.1 hj with hj | hj
      · exact Or.inl hj
      · have : j = s.heap.length := by simpa using hj
        exact Or.inr (by omega)
    · intro c hc hc'
      exact absurd (List.mem_append_left _ hc) hc'
  · intro k
    rw [u.abs H act]
    by_cases hlid : liveId s k = id
    · rw [if_pos hlid, habs]
      split
      · rfl
      · rw [absOf_eq, H.LC_eq k, hlid]
    · rw [if_neg hlid]
      have : new.key ≠ k := by
        intro hk
        exact hlid (H.liveId_of_active act (hk ▸ hon))
      rw [if_neg this]

/-! ### surgery 2': install the first node of an empty bin -/

theorem cas_effect {s s' : State} {G : Ghost} {id : CellId} (H : HInv s G) (act : Active s G id)
    (hempty : getCell s id = .empty) {new : NodeS}
    (hnx : new.next = none) (hon : keyOn id new.key)
    (hh : s'.heap = s.heap ++ [new])
    (hcell : ∀ id', getCell s' id' = if id' = id then .node s.heap.length else getCell s id')
    (hcur : s'.cur = s.cur)
    (hres : s'.resizing = s.resizing) (htl : s'.tabs.length = s.tabs.length)
    (hrows : ∀ (g : Nat) (row' : List Cell), s'.tabs[g]? = some row' →
      ∃ row : List Cell, s.tabs[g]? = some row ∧ row'.length = row.length) :
    Effect s s' G id ∧
      ∀ k, absOf s' k = if new.key = k then some new.val else absOf s k := by
  have hch : chId s id = [] := chId_of_empty hempty
  have hold : ∀ j, j < s.heap.length → nodeAt s'.heap j = nodeAt s.heap j := by
    intro j hj; rw [hh, nodeAt_append_left _ hj]
  have hnew : nodeAt s'.heap s.heap.length = new := by rw [hh, nodeAt_append_new]
  obtain ⟨hd', habs⟩ := absIn_append (heap := s.heap) (heap' := s'.heap) (C := []) (n := s.heap.length) (new := new)
    (fun a ha => by cases ha) (fun j hj => by cases hj) (fun j hj => by cases hj) hnew (by simp)
    (fun j hj => by cases hj)
  have u : Update s s' G id [s.heap.length] := by
    refine ⟨?_, ?_, ?_, hcur, hres, htl, hrows, ?_, ?_, ?_, hd', ?_⟩
    · rw [hh]; exact nextOK_append H.nextOK hnx
    · rw [hh, List.length_append]; omega
    · intro id' hne; rw [hcell id', if_neg hne]
    · rw [hcell id, if_pos rfl]; simp
    · rw [hcell id, if_pos rfl, hh]
      refine .cons (n := new) (by simp) ?_
      rw [hnx]; exact .nil _
    · intro j hj _; exact hold j hj
    · intro j hj
      have : j = s.heap.length := by simpa using hj
      subst this
      rw [hnew]; exact hon
  refine ⟨⟨_, u, ?_, fun j hj => by rw [hold j hj]⟩, ?_⟩
  · refine heapStep_update H act u ?_ (fun j hj => by rw [hold j hj]) ?_
    · intro j hj
      have : j = s.heap.length := by simpa using hj
      exact Or.inr (by omega)
    · intro c hc; rw [hch] at hc; cases hc
  · intro k
    rw [u.abs H act]
    by_cases hlid : liveId s k = id
    · rw [if_pos hlid]
      have := habs k
      simp only [List.nil_append] at this
      rw [this]
      split
      · rfl
      · rw [absOf_eq, H.LC_eq k, hlid, hch]
    · rw [if_neg hlid]
      have : new.key ≠ k := by
        intro hk
        exact hlid (H.liveId_of_active act (hk ▸ hon))
      rw [if_neg this]

/-! ### surgery 3: unlink a chain node -/

theorem unlink_abs {s s' : State} {G : Ghost} {id : CellId} {C' : List Nat} (H : HInv s G) (act : Active s G id)
    (u : Update s s' G id C') {i : Nat} (hi : i ∈ chId s id)
    (habs : ∀ k, absIn s'.heap C' k = if (nodeAt s.heap i).key = k then none else absIn s.heap (chId s id) k) :
    ∀ k, absOf s' k = if (nodeAt s.heap i).key = k then none else absOf s k := by
  intro k
  rw [u.abs H act]
  by_cases hlid : liveId s k = id
  · rw [if_pos hlid, habs]
    split
    · rfl
    · rw [absOf_eq, H.LC_eq k, hlid]
  · rw [if_neg hlid]
    have : (nodeAt s.heap i).key ≠ k := by
      intro hk
      exact hlid (H.liveId_of_active act (hk ▸ H.side id i hi))
    rw [if_neg this]

theorem unlink_mid_effect {s s' : State} {G : Ghost} {id : CellId} (H : HInv s G) (act : Active s G id)
    {l1 l2 : List Nat} {pr i : Nat} (hch : chId s id = l1 ++ pr :: i :: l2)
    (hh : s'.heap = s.heap.modify pr (fun m => { m with next := (nodeAt s.heap i).next }))
    (hcell : ∀ id', getCell s' id' = getCell s id') (hcur : s'.cur = s.cur)
    (hres : s'.resizing = s.resizing) (htl : s'.tabs.length = s.tabs.length)
    (hrows : ∀ (g : Nat) (row' : List Cell), s'.tabs[g]? = some row' →
      ∃ row : List Cell, s.tabs[g]? = some row ∧ row'.length = row.length) :
    Effect s s' G id ∧
      ∀ k, absOf s' k = if (nodeAt s.heap i).key = k then none else absOf s k := by
  have hi : i ∈ chId s id := by rw [hch]; simp
  have hpr : pr ∈ chId s id := by rw [hch]; simp
  have hil := H.chain_lt hi
  have hni := getElem?_nodeAt hil
  have hchain := H.isChain id
  rw [hch] at hchain
  have hnd := H.chain_nodup id
  rw [hch] at hnd
  have hpri : pr ≠ i := by
    intro he
    subst he
    have := (List.nodup_append.1 hnd).2.1
    simp at this
  obtain ⟨b, h1, h2⟩ := hchain.split
  obtain ⟨-, np, hnp, hs⟩ := IsSeg.cons_iff.1 h2
  obtain ⟨hb, -⟩ := IsSeg.cons_iff.1 hs
  have hold : ∀ j, j < s.heap.length → (nodeAt s'.heap j).key = (nodeAt s.heap j).key ∧
      (nodeAt s'.heap j).val = (nodeAt s.heap j).val ∧ (nodeAt s'.heap j).lock = (nodeAt s.heap j).lock ∧
      (j ≠ pr → nodeAt s'.heap j = nodeAt s.heap j) := by
    intro j hj
    rw [hh, nodeAt_modify]
    split
    · rename_i hjl
      exact ⟨rfl, rfl, rfl, fun hne => absurd hjl.1.symm hne⟩
    · exact ⟨rfl, rfl, rfl, fun _ => rfl⟩
  have hmem : ∀ j, j ∈ l1 ++ pr :: l2 ↔ j ∈ chId s id ∧ j ≠ i := by
    intro j
    rw [hch]
    simp only [List.mem_append, List.mem_cons]
    constructor
    · intro hj
      refine ⟨by rcases hj with hj | hj | hj <;> simp [hj], ?_⟩
      rintro rfl
      have h5 := List.nodup_append.1 hnd
      rcases hj with hj | hj | hj
      · exact h5.2.2 j hj j (by simp) rfl
      · exact hpri hj.symm
      · have := (List.nodup_cons.1 (List.nodup_cons.1 h5.2.1).2).1
        exact this hj
    · rintro ⟨hj | hj | hj | hj, hne⟩
      · exact Or.inl hj
      · exact Or.inr (Or.inl hj)
      · exact absurd hj hne
      · exact Or.inr (Or.inr hj)
  obtain ⟨hd', habs⟩ := absIn_unlink (heap' := s'.heap) (H.keys id) hi hmem
    (fun j hj => (hold j (H.chain_lt hj)).1) (fun j hj => (hold j (H.chain_lt hj)).2.1)
  have u : Update s s' G id (l1 ++ pr :: l2) := by
    refine ⟨?_, ?_, fun id' _ => hcell id', hcur, hres, htl, hrows, ?_, ?_, ?_, hd', ?_⟩
    · rw [hh]
      refine nextOK_modify_next H.nextOK ?_
      intro b hb'
      have h3 := H.nextOK pr np i hnp hb
      have h4 := H.nextOK i _ b hni hb'
      exact ⟨by omega, h4.2⟩
    · rw [hh, List.length_modify]; exact Nat.le_refl _
    · rw [hcell id]; exact act.notMoved H.shape
    · rw [hcell id, hh]
      have := H.isChain id
      rw [hch] at this
      exact isChain_unlink this hnd hni
    · intro j hj hjc
      exact (hold j hj).2.2.2 (fun h => hjc (h ▸ hpr))
    · intro j hj
      have hj' := ((hmem j).1 hj).1
      rw [(hold j (H.chain_lt hj')).1]; exact H.side id j hj'
  refine ⟨⟨_, u, ?_, fun j hj => (hold j hj).2.2.1⟩, unlink_abs H act u hi habs⟩
  refine heapStep_update H act u (fun j hj => Or.inl ((hmem j).1 hj).1) (fun j hj => (hold j hj).1) ?_
  intro c hc hc'
  have hci : c = i := by
    apply Classical.byContradiction
    intro hne
    exact hc' ((hmem c).2 ⟨hc, hne⟩)
  subst hci
  have := (hold c hil).2.2.2 (fun h => hpri h.symm)
  exact ⟨by rw [this], by rw [this], fun j hj hne => (hmem j).2 ⟨hj, hne⟩⟩

theorem unlink_head_effect {s s' : State} {G : Ghost} {id : CellId} (H : HInv s G) (act : Active s G id)
    {l2 : List Nat} {i : Nat} (hch : chId s id = i :: l2)
    (hh : s'.heap = s.heap)
    (hcell : ∀ id', getCell s' id' = if id' = id then cellOfHead (nodeAt s.heap i).next else getCell s id')
    (hcur : s'.cur = s.cur)
    (hres : s'.resizing = s.resizing) (htl : s'.tabs.length = s.tabs.length)
    (hrows : ∀ (g : Nat) (row' : List Cell), s'.tabs[g]? = some row' →
      ∃ row : List Cell, s.tabs[g]? = some row ∧ row'.length = row.length) :
    Effect s s' G id ∧
      ∀ k, absOf s' k = if (nodeAt s.heap i).key = k then none else absOf s k := by
  have hi : i ∈ chId s id := by rw [hch]; simp
  have hil := H.chain_lt hi
  have hni := getElem?_nodeAt hil
  have hchain := H.isChain id
  rw [hch] at hchain
  have hnd := H.chain_nodup id
  rw [hch] at hnd
  obtain ⟨-, ni, hni', hs⟩ := IsSeg.cons_iff.1 hchain
  rw [hni] at hni'; cases hni'
  have hmem : ∀ j, j ∈ l2 ↔ j ∈ chId s id ∧ j ≠ i := by
    intro j
    rw [hch]
    simp only [List.mem_cons]
    constructor
    · intro hj
      refine ⟨Or.inr hj, ?_⟩
      rintro rfl
      exact (List.nodup_cons.1 hnd).1 hj
    · rintro ⟨hj | hj, hne⟩
      · exact absurd hj hne
      · exact hj
  obtain ⟨hd', habs⟩ := absIn_unlink (heap' := s'.heap) (H.keys id) hi hmem
    (fun j _ => by rw [hh]) (fun j _ => by rw [hh])
  have u : Update s s' G id l2 := by
    refine ⟨by rw [hh]; exact H.nextOK, by rw [hh]; exact Nat.le_refl _, ?_, hcur, hres, htl, hrows, ?_, ?_, ?_, hd', ?_⟩
    · intro id' hne; rw [hcell id', if_neg hne]
    · rw [hcell id, if_pos rfl]; exact cellOfHead_ne_moved _
    · rw [hcell id, if_pos rfl, cellHead_cellOfHead, hh]; exact hs
    · intro j _ _; rw [hh]
    · intro j hj
      have hj' := ((hmem j).1 hj).1
      rw [hh]; exact H.side id j hj'
  refine ⟨⟨_, u, ?_, fun j _ => by rw [hh]⟩, unlink_abs H act u hi habs⟩
  refine heapStep_update H act u (fun j hj => Or.inl ((hmem j).1 hj).1) (fun j _ => by rw [hh]) ?_
  intro c hc hc'
  have hci : c = i := by
    apply Classical.byContradiction
    intro hne
    exact hc' ((hmem c).2 ⟨hc, hne⟩)
  subst hci
  exact ⟨by rw [hh], by rw [hh], fun j hj hne => (hmem j).2 ⟨hj, hne⟩⟩

/-- no store at all -/
theorem noop_effect {s s' : State} {G : Ghost} {id : CellId} (H : HInv s G) (act : Active s G id)
    (hh : s'.heap = s.heap) (ht : s'.tabs = s.tabs) (hcur : s'.cur = s.cur) (hres : s'.resizing = s.resizing) :
    Effect s s' G id ∧ ∀ k, absOf s' k = absOf s k := by
  have hcell : ∀ id', getCell s' id' = getCell s id' := getCell_congr ht
  refine ⟨⟨chId s id, ?_, HeapStep.of_same hh ht hcur, fun j _ => by rw [hh]⟩, absOf_congr' hh ht hcur⟩
  refine ⟨by rw [hh]; exact H.nextOK, by rw [hh]; exact Nat.le_refl _, fun id' _ => hcell id', hcur, hres,
    by rw [ht], fun g row' hr => ⟨row', by rw [← ht]; exact hr, rfl⟩, ?_, ?_, ?_, ?_, ?_⟩
  · rw [hcell id]; exact act.notMoved H.shape
  · rw [hcell id, hh]; exact H.isChain id
  · intro j _ _; rw [hh]
  · rw [hh]; exact H.keys id
  · rw [hh]; exact H.side id

/-! ### surgery 4: empty the whole bin (`clear`) -/

theorem clear_update {s s' : State} {G : Ghost} {id : CellId} (H : HInv s G) (act : Active s G id)
    (hh : s'.heap = s.heap)
    (hcell : ∀ id', getCell s' id' = if id' = id then .empty else getCell s id') (hcur : s'.cur = s.cur)
    (hres : s'.resizing = s.resizing) (htl : s'.tabs.length = s.tabs.length)
    (hrows : ∀ (g : Nat) (row' : List Cell), s'.tabs[g]? = some row' →
      ∃ row : List Cell, s.tabs[g]? = some row ∧ row'.length = row.length) :
    Update s s' G id [] ∧ ∀ k, absOf s' k = if liveId s k = id then none else absOf s k := by
  have u : Update s s' G id [] := by
    refine ⟨by rw [hh]; exact H.nextOK, by rw [hh]; exact Nat.le_refl _, ?_, hcur, hres, htl, hrows, ?_, ?_, ?_, ?_, ?_⟩
    · intro id' hne; rw [hcell id', if_neg hne]
    · rw [hcell id, if_pos rfl]; simp
    · rw [hcell id, if_pos rfl]; exact .nil _
    · intro j _ _; rw [hh]
    · intro a ha; cases ha
    · intro j hj; cases hj
  refine ⟨u, ?_⟩
  intro k
  rw [u.abs H act]
  split
  · rfl
  · rfl

/-- after a `clear` of the cell `id`: what is live was live before and is not on the cleared chain -/
theorem Update.live_of_cleared {s s' : State} {G : Ghost} {id : CellId} (H : HInv s G) (act : Active s G id)
    (u : Update s s' G id []) {j : Nat} (hl : Live s' G j) : Live s G j ∧ j ∉ chId s id := by
  obtain ⟨hC, hO⟩ := u.chains H act
  rcases hl with ⟨id', hm⟩ | ⟨x, lo, hg, fr, hmid, hm⟩
  · by_cases hid : id' = id
    · subst hid; rw [hC] at hm; cases hm
    · rw [hO id' hid] at hm
      exact ⟨Or.inl ⟨id', hm⟩, fun hj => H.disjoint act hid hj hm⟩
  · obtain ⟨e1, e2⟩ := u.mid_lists H act hmid
    rw [e1, e2] at hm
    exact ⟨Or.inr ⟨x, lo, hg, fr, hmid, hm⟩, H.mid_disjoint act hmid (Or.inr hm)⟩

end Flurry.Proto.BinNHM
