import Flurry.Lemmas.RwLockBasic
/-! # Lemmas/RwLockInv: `Inv` is an inductive invariant of the lock model -/
namespace Flurry.Proto.RwLock
open Flurry.Gen

theorem cnt_replicate_idle (p : RPc → Bool) (hp : p .idle = false) (n : Nat) :
    cnt p (List.replicate n RPc.idle) = 0 := by
  apply cnt_eq_zero_of_all
  intro i pc h
  have : pc ∈ List.replicate n RPc.idle := List.mem_iff_getElem?.mpr ⟨i, h⟩
  rw [List.mem_replicate] at this
  rw [this.2]; exact hp

theorem inv_init (n : Nat) : Inv (init n) := by
  refine ⟨?_, ?_, ?_⟩
  · simp [init, wBits, cnt_replicate_idle holdsRead rfl]
  · simp [WInv, init]
  · intro pc h
    simp only [init, List.mem_replicate] at h
    rw [h.2]; trivial

theorem inv_stepWriter {s s' : State} (h : Inv s) (hs : stepWriter s = some s') : Inv s' := by
  obtain ⟨hl, hw, hr⟩ := h
  rcases s with ⟨ls, ws, tk, wpc, wt, rs⟩
  cases wpc <;> simp only [stepWriter] at hs
  all_goals (repeat' split at hs)
  all_goals (try (simp at hs))
  all_goals (try subst hs)
  all_goals refine ⟨?_, ?_, hr⟩
  all_goals simp_all [WInv, wBits, WRITER, WAITER, READER, hasBit, freeExceptWaiter]
  all_goals omega

theorem cnt_ge (p : RPc → Bool) (rs : List RPc) (i : Nat) (old : RPc) (h : rs[i]? = some old) :
    (if p old then 1 else 0) ≤ cnt p rs := by
  cases hp : p old <;> simp
  exact (cnt_pos_iff _ _).mpr ⟨i, old, h, hp⟩

theorem cnt_set_eq (p : RPc → Bool) (rs : List RPc) (i : Nat) (old new : RPc) (h : rs[i]? = some old) :
    cnt p (rs.set i new) = cnt p rs + (if p new then 1 else 0) - (if p old then 1 else 0) := by
  have := cnt_set p rs i old new h
  omega

theorem rinv_set {rs : List RPc} (hr : ∀ pc ∈ rs, RInv pc) (i : Nat) (new : RPc) (hn : RInv new) :
    ∀ pc ∈ rs.set i new, RInv pc := by
  intro pc h
  rcases List.mem_or_eq_of_mem_set h with h | h
  · exact hr pc h
  · rw [h]; exact hn

theorem inv_stepReader {s s' : State} {i : Nat} {more : Bool} (h : Inv s)
    (hs : stepReader s i more = some s') : Inv s' := by
  obtain ⟨hl, hw, hr⟩ := h
  rcases s with ⟨ls, ws, tk, wpc, wt, rs⟩
  simp only [stepReader] at hs
  split at hs
  · simp at hs
  · rename_i pc hget
    simp only at hget hl hr
    have e1 := fun new => cnt_set_eq holdsRead rs i pc new hget
    have e2 := fun new => cnt_set_eq isUnpark rs i pc new hget
    have e3 := fun new => cnt_set_eq isLoadWaiter rs i pc new hget
    have g1 := cnt_ge holdsRead rs i pc hget
    have g2 := cnt_ge isUnpark rs i pc hget
    have g3 := cnt_ge isLoadWaiter rs i pc hget
    have hpc : RInv pc := hr pc (List.mem_iff_getElem?.mpr ⟨i, hget⟩)
    have hr' := rinv_set hr i
    cases pc <;> simp only [] at hs
    all_goals (repeat' split at hs)
    all_goals (try (simp at hs))
    all_goals (try subst hs)
    all_goals simp only [setReader]
    all_goals refine ⟨?_, ?_, hr' _ ?_⟩
    -- the per-reader facts (`RInv` of the new pc)
    all_goals try (show RInv _; simp_all [RInv, hasBit, WRITER, WAITER, READER]; done)
    -- the per-writer-pc facts: 10 writer pcs for each of the 13 reader transitions
    all_goals try (
      show WInv _
      clear hr hr'
      simp only [RInv] at hpc
      cases wpc <;> simp only [WInv, e1, e2, e3, holdsRead, isUnpark, isLoadWaiter] at hw g1 g2 g3 ⊢ <;>
        simp_all [wBits, READER, WAITER, WRITER, hasBit, freeExceptWaiter] <;>
        first | omega | (cases wt <;> simp_all <;> omega))
    -- the lock-word equation (`wBits` stays opaque: reader steps do not touch the writer)
    all_goals dsimp only
    all_goals simp only [e1, holdsRead] at g1 ⊢
    all_goals simp_all [READER, WAITER]
    all_goals omega

theorem inv_step {s s' : State} {a : Actor} {more : Bool} (h : Inv s)
    (hs : step s a more = some s') : Inv s' := by
  cases a with
  | writer => exact inv_stepWriter h hs
  | reader i => exact inv_stepReader h hs

/-- every reachable state satisfies the invariant -/
theorem inv_of_reachable {n : Nat} {s : State} (h : Reachable n s) : Inv s := by
  induction h with
  | init => exact inv_init n
  | step a more _ hs ih => exact inv_step ih hs

end Flurry.Proto.RwLock
