import Flurry.Lemmas.RBDelete
/-! # `removeNode` keeps the red-black invariants -/
namespace Flurry.RB
namespace Del
open T Ctx

/-! ## black height, colour facts -/

@[simp] theorem BH_nil {n : Nat} : BH nil n ↔ n = 0 :=
  ⟨fun h => by cases h; rfl, fun h => h ▸ BH.nil⟩

@[simp] theorem BH_red {l r : T} {e : Node} {n : Nat} :
    BH (node true l e r) n ↔ BH l n ∧ BH r n :=
  ⟨fun h => by cases h; constructor <;> assumption, fun ⟨a, b⟩ => BH.red a b⟩

@[simp] theorem BH_black_succ {l r : T} {e : Node} {n : Nat} :
    BH (node false l e r) (n + 1) ↔ BH l n ∧ BH r n :=
  ⟨fun h => by cases h; constructor <;> assumption, fun ⟨a, b⟩ => BH.black a b⟩

@[simp] theorem BH_black_zero {l r : T} {e : Node} : ¬ BH (node false l e r) 0 :=
  fun h => by cases h

theorem BH_black {l r : T} {e : Node} {n : Nat} :
    BH (node false l e r) n ↔ ∃ m, n = m + 1 ∧ BH l m ∧ BH r m := by
  cases n <;> simp

theorem BH_unique {t : T} {n m : Nat} (h1 : BH t n) (h2 : BH t m) : n = m := by
  induction h1 generalizing m with
  | nil => cases h2; rfl
  | red _ _ ih _ => cases h2; exact ih ‹_›
  | black _ _ ih _ => cases h2; rw [ih ‹_›]

theorem BH_blacken_red {t : T} {n : Nat} (hr : isRed t = true) (h : BH t n) :
    BH (blacken t) (n + 1) := by
  rcases t with _ | ⟨_ | _, l, e, r⟩ <;> simp_all

theorem NoRedRed_blacken {t : T} (h : NoRedRed t) : NoRedRed (blacken t) := by
  rcases t with _ | ⟨c, l, e, r⟩ <;> simp_all [NoRedRed]

/-! ## invariant of a path -/

/-- the hole of this path must receive a black-rooted tree (its parent is red, or it is the root) -/
def holeBlack : Ctx → Bool
  | top => true
  | left red _ _ _ => red
  | right red _ _ _ => red

def depth : Ctx → Nat
  | top => 0
  | left _ _ _ up => depth up + 1
  | right _ _ _ up => depth up + 1

/-- `CI c n`: plugging a tree of black height `n` with no red-red (and a black root where
`holeBlack c`) into `c` gives a red-black tree with a black root -/
def CI : Ctx → Nat → Prop
  | top, _ => True
  | left red _ r up, n =>
    BH r n ∧ NoRedRed r ∧ (red = true → isRed r = false ∧ holeBlack up = false) ∧
      CI up (if red then n else n + 1)
  | right red l _ up, n =>
    BH l n ∧ NoRedRed l ∧ (red = true → isRed l = false ∧ holeBlack up = false) ∧
      CI up (if red then n else n + 1)

/-- black root, no red-red, uniform black height -/
def Good (t : T) : Prop := isRed t = false ∧ NoRedRed t ∧ ∃ n, BH t n

theorem plug {c : Ctx} {n : Nat} {t : T} (hc : CI c n) (hb : BH t n) (hn : NoRedRed t)
    (hr : holeBlack c = true → isRed t = false) : Good (zip t c) := by
  induction c generalizing t n with
  | top => exact ⟨hr rfl, hn, n, hb⟩
  | left red e r up ih =>
    obtain ⟨h1, h2, h3, h4⟩ := hc
    cases red
    · exact ih (n := n + 1) h4 (by simp [*]) (by simp [NoRedRed, *]) (by simp)
    · have hr := hr rfl
      have h3 := h3 rfl
      exact ih (n := n) h4 (by simp [*]) (by simp [NoRedRed, *]) (by simp [h3.2])
  | right red l e up ih =>
    obtain ⟨h1, h2, h3, h4⟩ := hc
    cases red
    · exact ih (n := n + 1) h4 (by simp [*]) (by simp [NoRedRed, *]) (by simp)
    · have hr := hr rfl
      have h3 := h3 rfl
      exact ih (n := n) h4 (by simp [*]) (by simp [NoRedRed, *]) (by simp [h3.2])

theorem unplug {c : Ctx} {t : T} (h : Good (zip t c)) :
    ∃ n, CI c n ∧ BH t n ∧ NoRedRed t ∧ (holeBlack c = true → isRed t = false) := by
  induction c generalizing t with
  | top => obtain ⟨h1, h2, n, h3⟩ := h; exact ⟨n, trivial, h3, h2, fun _ => h1⟩
  | left red e r up ih =>
    obtain ⟨m, h1, h2, h3, h4⟩ := ih (t := node red t e r) h
    cases red
    · obtain ⟨k, rfl, h5, h6⟩ := BH_black.1 h2
      simp only [NoRedRed] at h3
      exact ⟨k, ⟨h6, h3.2.2, by simp, h1⟩, h5, h3.2.1, by simp [holeBlack]⟩
    · simp only [NoRedRed, BH_red, isRed_red, forall_const] at h2 h3 h4
      refine ⟨m, ⟨h2.2, h3.2.2, fun _ => ⟨h3.1.2, ?_⟩, h1⟩, h2.1, h3.2.1, fun _ => h3.1.1⟩
      cases hh : holeBlack up <;> simp_all
  | right red l e up ih =>
    obtain ⟨m, h1, h2, h3, h4⟩ := ih (t := node red l e t) h
    cases red
    · obtain ⟨k, rfl, h5, h6⟩ := BH_black.1 h2
      simp only [NoRedRed] at h3
      exact ⟨k, ⟨h5, h3.2.1, by simp, h1⟩, h6, h3.2.2, by simp [holeBlack]⟩
    · simp only [NoRedRed, BH_red, isRed_red, forall_const] at h2 h3 h4
      refine ⟨m, ⟨h2.1, h3.2.1, fun _ => ⟨h3.1.1, ?_⟩, h1⟩, h2.2, h3.2.2, fun _ => h3.1.2⟩
      cases hh : holeBlack up <;> simp_all

/-! ## `balDel` repairs a focus whose black height is one short -/

/-- what `balDel f` is assumed to do in the induction on the fuel -/
def Repairs (f : Nat) : Prop :=
  ∀ (x : T) (c : Ctx) (n : Nat), BH x n → NoRedRed (blacken x) → CI c (n + 1) →
    (c = top → isRed x = false) → 2 * depth c + (if isRed x then 1 else 2) ≤ f →
    Good (balDel f x c)

theorem top_of_holeBlack_false {up : Ctx} (h : holeBlack up = false) : up ≠ top := by
  rintro rfl; simp [holeBlack] at h

theorem delL_good {f : Nat} (ih : Repairs f) {pr : Bool} {x : T} {pe : Node} {s : T} {up : Ctx}
    {n : Nat} (hx : BH x n) (hxr : isRed x = false) (hxn : NoRedRed x)
    (hc : CI (left pr pe s up) (n + 1)) (hs : isRed s = false)
    (hf : 2 * depth up + (if pr then 1 else 2) ≤ f) : Good (delL f pr x pe s up) := by
  obtain ⟨h1, h2, h3, h4⟩ := hc
  rcases s with _ | ⟨_ | _, sl, se, sr⟩
  · simp at h1
  · simp only [BH_black_succ, NoRedRed] at h1 h2
    obtain ⟨⟨b1, b2⟩, -, n1, n2⟩ := And.intro h1 h2
    cases hsr : isRed sr
    · have key : ∀ (hsl : isRed sl = false),
          Good (balDel f (node pr x pe (node true sl se sr)) up) := by
        intro hsl
        cases pr
        · apply ih _ _ (n + 1) (by simp [*]) (by simp [NoRedRed, *]) h4 (by simp)
          simpa using hf
        · apply ih _ _ n (by simp [*]) (by simp [NoRedRed, *]) h4
          · intro h; exact absurd h (top_of_holeBlack_false (h3 rfl).2)
          · simpa using hf
      rcases sl with _ | ⟨_ | _, sll, sle, slr⟩
      · simpa [delL, hsr] using key rfl
      · simpa [delL, hsr] using key rfl
      · simp only [delL, hsr, Bool.false_eq_true, if_false]
        simp only [BH_red, NoRedRed, forall_const] at b1 n1
        cases pr
        · exact plug h4 (by simp [*]) (by simp [NoRedRed, *]) (by simp)
        · exact plug h4 (by simp [*]) (by simp [NoRedRed, *]) (by simp [(h3 rfl).2])
    · simp only [delL, hsr, if_true]
      cases pr
      · exact plug h4 (by simp [BH_blacken_red, *]) (by simp [NoRedRed, NoRedRed_blacken, *])
          (by simp)
      · exact plug h4 (by simp [BH_blacken_red, *]) (by simp [NoRedRed, NoRedRed_blacken, *])
          (by simp [(h3 rfl).2])
  · simp at hs

theorem delR_good {f : Nat} (ih : Repairs f) {pr : Bool} {x : T} {pe : Node} {s : T} {up : Ctx}
    {n : Nat} (hx : BH x n) (hxr : isRed x = false) (hxn : NoRedRed x)
    (hc : CI (right pr s pe up) (n + 1)) (hs : isRed s = false)
    (hf : 2 * depth up + (if pr then 1 else 2) ≤ f) : Good (delR f pr x pe s up) := by
  obtain ⟨h1, h2, h3, h4⟩ := hc
  rcases s with _ | ⟨_ | _, sl, se, sr⟩
  · simp at h1
  · simp only [BH_black_succ, NoRedRed] at h1 h2
    obtain ⟨⟨b1, b2⟩, -, n1, n2⟩ := And.intro h1 h2
    cases hsl : isRed sl
    · have key : ∀ (hsr : isRed sr = false),
          Good (balDel f (node pr (node true sl se sr) pe x) up) := by
        intro hsr
        cases pr
        · apply ih _ _ (n + 1) (by simp [*]) (by simp [NoRedRed, *]) h4 (by simp)
          simpa using hf
        · apply ih _ _ n (by simp [*]) (by simp [NoRedRed, *]) h4
          · intro h; exact absurd h (top_of_holeBlack_false (h3 rfl).2)
          · simpa using hf
      rcases sr with _ | ⟨_ | _, srl, sre, srr⟩
      · simpa [delR, hsl] using key rfl
      · simpa [delR, hsl] using key rfl
      · simp only [delR, hsl, Bool.false_eq_true, if_false]
        simp only [BH_red, NoRedRed, forall_const] at b2 n2
        cases pr
        · exact plug h4 (by simp [*]) (by simp [NoRedRed, *]) (by simp)
        · exact plug h4 (by simp [*]) (by simp [NoRedRed, *]) (by simp [(h3 rfl).2])
    · simp only [delR, hsl, if_true]
      cases pr
      · exact plug h4 (by simp [BH_blacken_red, *]) (by simp [NoRedRed, NoRedRed_blacken, *])
          (by simp)
      · exact plug h4 (by simp [BH_blacken_red, *]) (by simp [NoRedRed, NoRedRed_blacken, *])
          (by simp [(h3 rfl).2])
  · simp at hs

theorem repairs (f : Nat) : Repairs f := by
  induction f with
  | zero =>
    intro x c n _ _ _ _ hf
    split at hf <;> omega
  | succ f ih =>
    intro x c n hx hxn hc ht hf
    cases c with
    | top =>
      have hr := ht rfl
      rw [blacken_of_black hr] at hxn
      simp only [balDel]
      exact ⟨hr, hxn, n, hx⟩
    | left pr pe s up =>
      rw [balDel_left]
      cases hr : isRed x
      · rw [blacken_of_black hr] at hxn
        simp only [hr, depth, Bool.false_eq_true, if_false] at hf ⊢
        obtain ⟨h1, h2, h3, h4⟩ := hc
        split
        next sl se sr =>
          have hp : pr = false := by
            cases pr
            · rfl
            · simpa using (h3 rfl).1
          subst hp
          simp only [BH_red, NoRedRed, forall_const] at h1 h2
          refine delL_good ih hx hr hxn ⟨h1.1, h2.2.1, fun _ => ⟨h2.1.1, rfl⟩, ?_⟩ h2.1.1 ?_
          · exact ⟨h1.2, h2.2.2, by simp, h4⟩
          · simp [depth]; omega
        next hs =>
          refine delL_good ih hx hr hxn ⟨h1, h2, h3, h4⟩ ?_ ?_
          · rcases s with _ | ⟨_ | _, sl, se, sr⟩
            · rfl
            · rfl
            · exact absurd rfl (hs _ _ _)
          · split <;> omega
      · simp only [if_true]
        exact plug hc (BH_blacken_red hr hx) hxn (by simp)
    | right pr s pe up =>
      rw [balDel_right]
      cases hr : isRed x
      · rw [blacken_of_black hr] at hxn
        simp only [hr, depth, Bool.false_eq_true, if_false] at hf ⊢
        obtain ⟨h1, h2, h3, h4⟩ := hc
        split
        next sl se sr =>
          have hp : pr = false := by
            cases pr
            · rfl
            · simpa using (h3 rfl).1
          subst hp
          simp only [BH_red, NoRedRed, forall_const] at h1 h2
          refine delR_good ih hx hr hxn ⟨h1.2, h2.2.2, fun _ => ⟨h2.1.2, rfl⟩, ?_⟩ h2.1.2 ?_
          · exact ⟨h1.1, h2.2.1, by simp, h4⟩
          · simp [depth]; omega
        next hs =>
          refine delR_good ih hx hr hxn ⟨h1, h2, h3, h4⟩ ?_ ?_
          · rcases s with _ | ⟨_ | _, sl, se, sr⟩
            · rfl
            · rfl
            · exact absurd rfl (hs _ _ _)
          · split <;> omega
      · simp only [if_true]
        exact plug hc (BH_blacken_red hr hx) hxn (by simp)

/-! ## `removeNode` -/

theorem depth_height (s : T) (c : Ctx) : depth c + height s ≤ height (zip s c) := by
  induction c generalizing s with
  | top => simp [depth, zip]
  | left red e r up ih =>
    have := ih (node red s e r); simp only [depth, zip, height] at this ⊢; omega
  | right red l e up ih =>
    have := ih (node red l e s); simp only [depth, zip, height] at this ⊢; omega

theorem depth_append (a b : Ctx) : depth (a.append b) = depth a + depth b := by
  induction a <;> simp_all [Ctx.append, depth] <;> omega

theorem holeBlack_append_swap (cs : Ctx) (pc : Bool) (pl : T) (e e' : Node) (c : Ctx) :
    holeBlack (cs.append (right pc pl e c)) = holeBlack (cs.append (right pc pl e' c)) := by
  cases cs <;> rfl

theorem CI_append_swap {cs : Ctx} {pc : Bool} {pl : T} {e : Node} (e' : Node) {c : Ctx} {k : Nat}
    (h : CI (cs.append (right pc pl e c)) k) : CI (cs.append (right pc pl e' c)) k := by
  induction cs generalizing k with
  | top => exact h
  | left red x r up ih =>
    obtain ⟨h1, h2, h3, h4⟩ := h
    exact ⟨h1, h2, fun hr => ⟨(h3 hr).1, holeBlack_append_swap up pc pl e e' c ▸ (h3 hr).2⟩, ih h4⟩
  | right red l x up ih =>
    obtain ⟨h1, h2, h3, h4⟩ := h
    exact ⟨h1, h2, fun hr => ⟨(h3 hr).1, holeBlack_append_swap up pc pl e e' c ▸ (h3 hr).2⟩, ih h4⟩

theorem append_right_ne_top (cs : Ctx) (pc : Bool) (pl : T) (e : Node) (c : Ctx) :
    cs.append (right pc pl e c) ≠ top := by
  cases cs <;> simp [Ctx.append]

/-- splice in a replacement for a node of black height `m` that leaves the tree -/
theorem splice_good {f : Nat} {c : Ctx} {m : Nat} {pc : Bool} {x : T} (hc : CI c m)
    (hb : BH x (if pc then m else m - 1)) (hm : pc = false → 0 < m) (hn : NoRedRed x)
    (hh : holeBlack c = true → pc = false)
    (ht : c = top → isRed x = false) (hf : 2 * depth c + 2 ≤ f) :
    Good (if pc then zip x c else balDel f x c) := by
  cases pc
  · have := hm rfl
    obtain ⟨m, rfl⟩ : ∃ k, m = k + 1 := ⟨m - 1, by omega⟩
    simp only [Bool.false_eq_true, if_false] at hb ⊢
    exact repairs f x c m hb (NoRedRed_blacken hn) hc ht (by split <;> omega)
  · simp only [if_true] at hb ⊢
    exact plug hc hb hn (fun h => by simpa using hh h)

theorem BH_node_parts {pc : Bool} {l r : T} {e : Node} {m : Nat} (h : BH (node pc l e r) m) :
    BH l (if pc then m else m - 1) ∧ BH r (if pc then m else m - 1) ∧ (pc = false → 0 < m) := by
  cases pc
  · obtain ⟨k, rfl, h1, h2⟩ := BH_black.1 h
    simpa using ⟨h1, h2⟩
  · simpa using h

/-- the colour part of `removeNode_inv`; `hroot` excludes the one situation in which the result
has a red root: the root itself is removed and has exactly one child -/
theorem removeNode_good_of_locate {h k : Nat} {t : T} {pc : Bool} {pl : T} {pe : Node} {pr : T}
    {c : Ctx} (hg : Good t) (hl : locate h k t top = some (node pc pl pe pr, c))
    (hroot : c = top → (pl = nil ↔ pr = nil)) : Good (removeNode h k t) := by
  have hz : zip (node pc pl pe pr) c = t := (locate_some hl).1
  have hd := depth_height (node pc pl pe pr) c
  rw [hz] at hd
  rcases pl with _ | ⟨lc, ll, le, lr⟩ <;> rcases pr with _ | ⟨rc, rl, re, rr⟩
  · obtain ⟨m, hc, hb, hn, hh⟩ := unplug (hz ▸ hg)
    obtain ⟨b1, b2, b3⟩ := BH_node_parts hb
    simp only [removeNode, hl]
    exact splice_good hc b1 b3 trivial (by simpa [isRed_node] using hh) (fun _ => rfl)
      (by simp only [height] at hd; omega)
  · obtain ⟨m, hc, hb, hn, hh⟩ := unplug (hz ▸ hg)
    obtain ⟨b1, b2, b3⟩ := BH_node_parts hb
    simp only [removeNode, hl]
    exact splice_good hc b2 b3 hn.2.2 (by simpa [isRed_node] using hh)
      (fun ht => by simpa using hroot ht) (by simp only [height] at hd; omega)
  · obtain ⟨m, hc, hb, hn, hh⟩ := unplug (hz ▸ hg)
    obtain ⟨b1, b2, b3⟩ := BH_node_parts hb
    simp only [removeNode, hl]
    exact splice_good hc b1 b3 hn.2.1 (by simpa [isRed_node] using hh)
      (fun ht => by simpa using hroot ht) (by simp only [height] at hd; omega)
  · obtain ⟨⟨sc, se, sr, cs⟩, hs⟩ := leftmost_isSome rc rl re rr top
    have h1 := (leftmost_some hs).1
    simp only [zip] at h1
    have hz' : zip (node sc nil se sr) (cs.append (right pc (node lc ll le lr) pe c)) = t := by
      rw [zip_append, h1]; exact hz
    have hd' := depth_height (node sc nil se sr) (cs.append (right pc (node lc ll le lr) pe c))
    rw [hz', depth_append] at hd'
    obtain ⟨m, hc, hb, hn, hh⟩ := unplug (hz' ▸ hg)
    obtain ⟨b1, b2, b3⟩ := BH_node_parts hb
    simp only [removeNode, hl, hs]
    refine splice_good (CI_append_swap se hc) b2 b3 hn.2.2 ?_
      (fun ht => absurd ht (append_right_ne_top _ _ _ _ _)) ?_
    · rw [holeBlack_append_swap cs pc _ se pe c]; simpa [isRed_node] using hh
    · simp only [depth_append, depth, height] at hd' ⊢; omega

/-- without any side condition everything but the colour of the root is kept -/
theorem removeNode_weak_of_locate {h k : Nat} {t : T} {pc : Bool} {pl : T} {pe : Node} {pr : T}
    {c : Ctx} (hg : Good t) (hl : locate h k t top = some (node pc pl pe pr, c)) :
    NoRedRed (removeNode h k t) ∧ ∃ n, BH (removeNode h k t) n := by
  by_cases hroot : c = top → (pl = nil ↔ pr = nil)
  · exact (removeNode_good_of_locate hg hl hroot).2
  · have hz : zip (node pc pl pe pr) c = t := (locate_some hl).1
    simp only [Classical.not_imp] at hroot
    obtain ⟨rfl, hne⟩ := hroot
    simp only [zip] at hz
    subst hz
    obtain ⟨-, h2, n, h3⟩ := hg
    obtain ⟨b1, b2, -⟩ := BH_node_parts h3
    rcases pl with _ | ⟨lc, ll, le, lr⟩ <;> rcases pr with _ | ⟨rc, rl, re, rr⟩
    · simp at hne
    · simp only [removeNode, hl, zip, balDel, ite_self]
      exact ⟨h2.2.2, _, b2⟩
    · simp only [removeNode, hl, zip, balDel, ite_self]
      exact ⟨h2.2.1, _, b1⟩
    · simp at hne

theorem locate_top_eq {h k : Nat} {t s : T} (hl : locate h k t top = some (s, top)) : s = t := by
  simpa [zip] using (locate_some hl).1

theorem size_eq_length (t : T) : size t = (toList t).length := by
  induction t <;> simp_all [size, toList]; omega

end Del

open Del T Ctx

/-- colour/black-height part: holds for any `h k` (if nothing is found the tree is returned as is).
The side condition excludes the case "the root is removed and has exactly one child", where the
red child becomes the root and `balDel` returns at once (`x == root`). -/
theorem removeNode_good {h k : Nat} {t : T} (hg : Good t)
    (hroot : ∀ c l e r, t = node c l e r → e.hash = h → e.key = k → (l = nil ↔ r = nil)) :
    Good (removeNode h k t) := by
  cases hl : locate h k t top with
  | none => simpa [removeNode, hl] using hg
  | some p =>
    obtain ⟨s, c⟩ := p
    obtain ⟨hz, pc, pl, pe, pr, rfl, h1, h2⟩ := locate_some hl
    refine removeNode_good_of_locate hg hl ?_
    rintro rfl
    exact hroot pc pl pe pr (by simpa [zip] using hz.symm) h1 h2

/-- without side condition: no red-red and uniform black height are kept -/
theorem removeNode_weak {h k : Nat} {t : T} (hg : Good t) :
    NoRedRed (removeNode h k t) ∧ ∃ n, BH (removeNode h k t) n := by
  cases hl : locate h k t top with
  | none => simpa [removeNode, hl] using hg.2
  | some p =>
    obtain ⟨s, c⟩ := p
    obtain ⟨hz, pc, pl, pe, pr, rfl, h1, h2⟩ := locate_some hl
    exact removeNode_weak_of_locate hg hl

/-- `removeNode` keeps the tree-bin invariant unless the root itself is removed while it has
exactly one child -/
theorem removeNode_inv_of_root {h k : Nat} {t : T} (hi : TreeInv t)
    (hroot : ∀ c l e r, t = node c l e r → e.hash = h → e.key = k → (l = nil ↔ r = nil))
    (he : ∃ e ∈ toList t, e.hash = h ∧ e.key = k) : TreeInv (removeNode h k t) :=
  ⟨removeNode_BST hi.1 he, removeNode_good hi.2 hroot⟩

/-- `removeNode` keeps the tree-bin invariant, provided the shape test `tooSmall` has failed
(which is when `remove_tree_node` gets this far). -/
theorem removeNode_inv {h k : Nat} {t : T} (hi : TreeInv t) (hs : tooSmall t = false)
    (he : ∃ e ∈ toList t, e.hash = h ∧ e.key = k) : TreeInv (removeNode h k t) := by
  refine removeNode_inv_of_root hi ?_ he
  rintro c l e r rfl - -
  rcases l with _ | ⟨lc, ll, le, lr⟩ <;> rcases r with _ | ⟨rc, rl, re, rr⟩ <;>
    simp_all [tooSmall]

/-- the statement without the shape test, in its strongest true form: everything except the
colour of the root (see `removeNode_red_root` for the counterexample) -/
theorem removeNode_inv_weak {h k : Nat} {t : T} (hi : TreeInv t)
    (he : ∃ e ∈ toList t, e.hash = h ∧ e.key = k) :
    BST (removeNode h k t) ∧ NoRedRed (removeNode h k t) ∧ ∃ n, BH (removeNode h k t) n :=
  ⟨removeNode_BST hi.1 he, removeNode_weak hi.2⟩

theorem removeNode_size {h k : Nat} {t : T} (hb : BST t)
    (he : ∃ e ∈ toList t, e.hash = h ∧ e.key = k) : size (removeNode h k t) + 1 = size t := by
  obtain ⟨l1, l2, e, -, -, h1, h2⟩ := removeNode_split hb he
  simp [size_eq_length, h1, h2]; omega

end Flurry.RB
