import Flurry.Lemmas.C12BinT
/-! # C12 at the tree-bin level: a reader's step is always enabled and makes progress (Proto/BinT)

`mu s pc` is an upper bound on the number of steps a reader at `pc` still takes when it runs alone
from `s` (whatever the other threads are suspended at). `reader_step`: in every reachable state the
step of a thread at a reader pc is enabled, and it either completes the call (the thread is `idle`
again, one entry added to `hist`) or moves to another reader pc with a strictly smaller `mu`.

Why `mu` decreases:
* `next` pointers go strictly downwards in the heap (`NextOK`: nodes are prepended), so a linear walk
  standing on node `c` has at most `c + 1` nodes ahead of it, two steps each (`rState`, `rLin`);
* the lock word belongs to nobody else while the reader runs alone: after a `rState` that saw no
  writer and no waiter and `readers = r`, the CAS `r → r + 1` at `rCas c r` succeeds; a reader that is
  *resumed* at `rCas c r` with a stale `r` fails once, goes back to `rState`, and then succeeds or
  walks the list. Hence the case split in `mu (.rCas c r)`. -/
namespace Flurry.Proto.BinT
open Flurry.Lin

/-- an upper bound on the number of own steps a reader at `pc` still needs in `s` -/
def mu (s : State) : Pc → Nat
  | .rFirst => 2 * s.heap.length + 5
  | .rState none => 1
  | .rState (some c) => 2 * c + 6
  | .rLin c => 2 * c + 5
  | .rCas c r => if (!s.writer && !s.waiter && s.readers == r) = true then 4 else 2 * c + 7
  | .rTree => 3
  | .rRelease _ => 2
  | .rVal _ => 1
  | _ => 0

/-- the bound of C12 for a tree bin: an explicit function of the heap size only -/
def soloBound (s : State) : Nat := 2 * s.heap.length + 5

theorem mu_le_soloBound {s : State} {pc : Pc} (hb : RdBound s.heap.length pc) : mu s pc ≤ soloBound s := by
  unfold soloBound
  cases pc with
  | rState cur => cases cur <;> simp only [mu, RdBound] at * <;> omega
  | rLin c => simp only [mu, RdBound] at *; omega
  | rCas c r => simp only [mu, RdBound] at *; split <;> omega
  | _ => simp only [mu] <;> omega

theorem mu_pos {s : State} {pc : Pc} (hr : readerPc pc = true) : 0 < mu s pc := by
  cases pc with
  | rState cur => cases cur <;> simp only [mu] <;> omega
  | rCas c r => simp only [mu]; split <;> omega
  | rFirst | rLin _ | rTree | rRelease _ | rVal _ => simp only [mu] <;> omega
  | _ => cases hr

/-- the result of one step of a reader `t` (call `p`, at `pc`) from `s`: it has returned, or it is at
a reader pc with a smaller measure; the history is untouched unless it returned -/
def Outcome (s : State) (t : Nat) (p : Pending) (pc : Pc) (s' : State) : Prop :=
  (s'.threads[t]? = some { pc := .idle, call := none } ∧
    ∃ res, s'.hist = (p.key, { tid := t, op := p.op, res := res, inv := p.inv, resp := s.now + 1 }) :: s.hist) ∨
  (∃ pc', s'.threads[t]? = some { pc := pc', call := some p } ∧ readerPc pc' = true ∧ s'.hist = s.hist ∧
    mu s' pc' < mu s pc)

theorem Outcome.fin {s s1 : State} {t : Nat} {l : Local} {p : Pending} {pc : Pc} (hl : s.threads[t]? = some l)
    (ht : s1.threads = s.threads) (hh : s1.hist = s.hist) (hn : s1.now = s.now + 1) (res : KRes) :
    Outcome s t p pc (finish s1 t p res) := by
  left
  refine ⟨?_, res, ?_⟩
  · show (s1.threads.set t _)[t]? = _
    rw [ht]; exact get_set_self hl
  · show (p.key, _) :: s1.hist = _
    rw [hh, hn]

theorem Outcome.move {s s1 : State} {t : Nat} {l : Local} {p : Pending} {pc : Pc} (hl : s.threads[t]? = some l)
    (pc' : Pc) (ht : s1.threads = s.threads.set t { pc := pc', call := some p }) (hh : s1.hist = s.hist)
    (hr : readerPc pc' = true) (hmu : mu s1 pc' < mu s pc) : Outcome s t p pc s1 := by
  right
  refine ⟨pc', ?_, hr, hh, hmu⟩
  rw [ht]; exact get_set_self hl

/-- **one step of a reader**: enabled, and it returns or gets closer to returning — in every reachable
state, for every choice of the scheduler's arguments -/
theorem reader_step {n : Nat} {s : State} (hr : Reachable n s) {t : Nat} {l : Local}
    (hl : s.threads[t]? = some l) (hrd : readerPc l.pc = true) (inv : Option (Nat × KOp)) (b : Bool) :
    ∃ p s', l.call = some p ∧ step s t inv b = some s' ∧ Outcome s t p l.pc s' := by
  have I := reachable_inv hr
  have R := reachable_rinv hr
  have hb := R.bound t l hl
  have hcs := R.callSome t l hl (by intro h; rw [h] at hrd; cases hrd)
  obtain ⟨pc, call⟩ := l
  cases call with
  | none => cases hcs
  | some p =>
  suffices h : ∃ s', stepG true s t inv b = some s' ∧ Outcome s t p pc s' by
    obtain ⟨s', h1, h2⟩ := h
    exact ⟨p, s', rfl, h1, h2⟩
  unfold stepG
  rw [hl]
  cases pc with
  | rFirst =>
    refine ⟨_, rfl, ?_⟩
    refine Outcome.move hl (.rState s.first) rfl rfl rfl ?_
    show mu _ (.rState s.first) < 2 * s.heap.length + 5
    cases hf : s.first with
    | none => simp only [mu]; omega
    | some h =>
      have := I.heap.firstOK h hf
      simp only [mu]; omega
  | rState cur =>
    cases cur with
    | none => exact ⟨_, rfl, Outcome.fin (s1 := { s with now := s.now + 1 }) hl rfl rfl rfl _⟩
    | some c =>
      dsimp only
      by_cases hbits : (s.writer || s.waiter) = true
      · rw [if_pos hbits]
        refine ⟨_, rfl, ?_⟩
        refine Outcome.move hl (.rLin c) rfl rfl rfl ?_
        simp only [mu]; omega
      · rw [if_neg hbits]
        refine ⟨_, rfl, ?_⟩
        refine Outcome.move hl (.rCas c s.readers) rfl rfl rfl ?_
        have hw : s.writer = false ∧ s.waiter = false := by
          cases hw : s.writer <;> cases ha : s.waiter <;> simp_all
        show mu { s with now := s.now + 1, threads := _ } (.rCas c s.readers) < _
        simp only [mu, hw.1, hw.2, Bool.not_false, Bool.and_self, beq_self_eq_true, if_true]
        omega
  | rLin c =>
    have hc : c < s.heap.length := hb
    have hn : s.heap[c]? = some s.heap[c] := List.getElem?_eq_getElem hc
    dsimp only
    rw [hn]
    dsimp only
    by_cases hk : (s.heap[c].key == p.key) = true
    · rw [if_pos hk]
      by_cases hop : p.op = .has
      · rw [hop]
        exact ⟨_, rfl, Outcome.fin (s1 := { s with now := s.now + 1 }) hl rfl rfl rfl _⟩
      · refine ⟨setT { s with now := s.now + 1 } t { pc := .rVal c, call := some p }, ?_, ?_⟩
        · cases hop' : p.op <;> first | rfl | exact absurd hop' hop
        · refine Outcome.move hl (.rVal c) rfl rfl rfl ?_
          simp only [mu]; omega
    · rw [if_neg hk]
      refine ⟨_, rfl, ?_⟩
      refine Outcome.move hl (.rState s.heap[c].next) rfl rfl rfl ?_
      show mu _ (.rState s.heap[c].next) < 2 * c + 5
      cases hx : s.heap[c].next with
      | none => simp only [mu]; omega
      | some j =>
        have := I.heap.nextOK c _ j hn hx
        simp only [mu]; omega
  | rCas c r =>
    dsimp only
    by_cases hcond : (!s.writer && !s.waiter && s.readers == r) = true
    · rw [if_pos hcond]
      refine ⟨_, rfl, ?_⟩
      refine Outcome.move hl .rTree rfl rfl rfl ?_
      simp only [mu, hcond, if_true]; omega
    · rw [if_neg hcond]
      refine ⟨_, rfl, ?_⟩
      refine Outcome.move hl (.rState (some c)) rfl rfl rfl ?_
      show mu _ (.rState (some c)) < mu s (.rCas c r)
      simp only [mu]; rw [if_neg hcond]; omega
  | rTree =>
    refine ⟨_, rfl, ?_⟩
    refine Outcome.move hl (.rRelease _) rfl rfl rfl ?_
    simp only [mu]; omega
  | rRelease hit =>
    cases hit with
    | none =>
      refine ⟨finish { s with now := s.now + 1, readers := s.readers - 1 } t p
        (match p.op with | .has => .bool false | _ => .none), ?_,
        Outcome.fin (s1 := { s with now := s.now + 1, readers := s.readers - 1 }) hl rfl rfl rfl _⟩
      dsimp only
      cases p.op <;> rfl
    | some i =>
      by_cases hop : p.op = .has
      · dsimp only
        rw [hop]
        exact ⟨_, rfl, Outcome.fin (s1 := { s with now := s.now + 1, readers := s.readers - 1 }) hl rfl rfl rfl _⟩
      · refine ⟨setT { s with now := s.now + 1, readers := s.readers - 1 } t { pc := .rVal i, call := some p },
          ?_, ?_⟩
        · dsimp only
          cases hop' : p.op <;> first | rfl | exact absurd hop' hop
        · refine Outcome.move hl (.rVal i) rfl rfl rfl ?_
          simp only [mu]; omega
  | rVal i =>
    have hc : i < s.heap.length := hb
    have hn : s.heap[i]? = some s.heap[i] := List.getElem?_eq_getElem hc
    dsimp only
    rw [hn]
    exact ⟨_, rfl, Outcome.fin (s1 := { s with now := s.now + 1 }) hl rfl rfl rfl _⟩
  | _ => cases hrd

end Flurry.Proto.BinT
