import Flurry.Proto.BinNI
/-! # Proto/BinNI: the model exercised by execution (random schedule explorer) and kernel-checked runs (C07)

* `explore`: a seeded random scheduler over `BinNI.step` (writers on a few *hot* keys, the other keys are
  only written during a warm-up, resizes whenever none is running, iterators created at random moments
  by idle threads), then a drain; after EVERY step the abstract content of every key is recorded
  (`Trace`: `(time, absOf k for the keys)`); at the end, by brute force on the recorded trace:
  - `check1` (`iter_yield_was_present`): every yield `(k, v)` at time `τ` of an iteration created at `τ0`:
    some recorded state with time in `[τ0, τ]` has `absOf k = some v`;
  - `check2` (`iter_untouched_yielded_once`): for every completed iteration `[τ0, τ1]` and every key: if
    `absOf k` is the same `some v` in all recorded states of the interval, the iteration yields `k`
    exactly once, with `v`; if it is `none` throughout, `k` is not yielded.
* kernel-checked runs (`decide`) at the end of the file. -/
namespace Flurry.Proto.BinNI
open Flurry.Lin
open Flurry.Proto.BinX (NodeS Cell Pending isReader dflt chainFrom cellHead cellOfHead)

structure Act where
  t : Nat
  it : Bool := false
  inv : Option (Nat × KOp) := none
  rz : Bool := false
  pick : Nat := 0
deriving Repr, DecidableEq

abbrev Sched := List Act

def act (s : State) (a : Act) : Option State := step s a.t a.it a.inv a.rz a.pick

/-- the recorded abstract contents: `(time, absOf k for k in keys)` after every step -/
abbrev Trace := List (Nat × List KSt × Nat)

def snap (keys : List Nat) (s : State) : Nat × List KSt × Nat := (s.n.now, keys.map (absOf s), s.n.cur)

/-- run a schedule, recording the abstract contents after every step (latest first) -/
def runT (keys : List Nat) : State → Trace → Sched → Option (State × Trace)
  | s, tr, [] => some (s, tr)
  | s, tr, a :: rest =>
    match act s a with
    | none => none
    | some s' => runT keys s' (snap keys s' :: tr) rest

def run : State → Sched → Option State
  | s, [] => some s
  | s, a :: rest =>
    match act s a with
    | none => none
    | some s' => run s' rest

/-- the recorded contents of key number `i` in the interval `[a, b]` -/
def during (tr : Trace) (i a b : Nat) : List KSt :=
  (tr.filter fun e => a ≤ e.1 && e.1 ≤ b).map fun e => e.2.1.getD i none

def check1 (keys : List Nat) (tr : Trace) (s : State) : Bool :=
  s.yields.all fun y =>
    match keys.idxOf? y.key with
    | none => false
    | some i => (during tr i y.t0 y.time).contains (some y.val)

def yieldsOf (s : State) (t t0 k : Nat) : List (Nat × Nat) :=
  (s.yields.filter fun y => y.tid == t && y.t0 == t0 && y.key == k).map (·.val)

def check2 (keys : List Nat) (tr : Trace) (s : State) : Bool :=
  s.ends.all fun (t, t0, t1) =>
    (List.range keys.length).all fun i =>
      let k := keys.getD i 0
      let d := during tr i t0 t1
      match d.head? with
      | none => false
      | some x =>
        if d.all (· == x) then
          match x with
          | some v => yieldsOf s t t0 k == [v]
          | none => yieldsOf s t t0 k == []
        else true

/-- number of (iteration, key) pairs for which `check2` has something to say: constant `some` / constant `none` -/
def untouchedCount (keys : List Nat) (tr : Trace) (s : State) : Nat × Nat :=
  s.ends.foldl (fun acc (_, t0, t1) =>
    (List.range keys.length).foldl (fun acc i =>
      let d := during tr i t0 t1
      match d.head? with
      | some (some v) => if d.all (· == some v) then (acc.1 + 1, acc.2) else acc
      | some none => if d.all (· == none) then (acc.1, acc.2 + 1) else acc
      | none => acc) acc) (0, 0)

/-- how many generations the table pointer advanced during `[a, b]` -/
def gensDuring (tr : Trace) (a b : Nat) : Nat :=
  let cs := (tr.filter fun e => a ≤ e.1 && e.1 ≤ b).map fun e => e.2.2
  cs.foldl max 0 - cs.foldl min 1000

/-! ## the explorer (`#eval` only) -/

def rngNext (x : Nat) : Nat := (x * 6364136223846793005 + 1442695040888963407) % 18446744073709551616
def rngPick (x n : Nat) : Nat := (x / 4294967296) % n

structure Cfg where
  nthreads : Nat := 4
  keys : List Nat := [0, 1, 2, 3, 4, 5, 6, 7]
  /-- keys written after the warm-up -/
  hot : List Nat := [1, 2, 4]
  /-- the first `warm` calls may be on any key -/
  warm : Nat := 8
  steps : Nat := 400
  calls : Nat := 20
  resizes : Nat := 3
  iters : Nat := 4
  pResize : Nat := 5
  pIter : Nat := 8
  pCall : Nat := 60
  /-- an iterating thread only takes one step out of `slow` when it is scheduled -/
  slow : Nat := 1

def mkOp (r : Nat) (vi : Nat) : KOp :=
  match r % 10 with
  | 0 | 1 | 2 | 3 => .ins (vi % 7) vi
  | 4 | 5 | 6 => .rm
  | 7 => .tryIns (vi % 7) vi
  | 8 => .cipInc vi
  | _ => .get

structure RunOut where
  sched : Sched
  s : State
  tr : Trace
  /-- max over completed iterations of (cur at the end − root generation) — approximated by the final `cur` -/
  blocked : Nat

def oneRun (cfg : Cfg) (seed : Nat) : RunOut := Id.run do
  let mut s := init cfg.nthreads
  let mut tr : Trace := [snap cfg.keys s]
  let mut rng := seed
  let mut sc : Array Act := #[]
  let mut calls := 0
  let mut rzs := 0
  let mut its := 0
  let mut blocked := 0
  for _ in [0:cfg.steps] do
    rng := rngNext rng
    let t := rngPick rng cfg.nthreads
    rng := rngNext rng
    let l := s.n.threads.getD t {}
    let it := s.its.getD t none
    let mut a : Act := { t := t }
    if l.pc == .idle && it.isNone then
      let r := rngPick rng 100
      rng := rngNext rng
      if r < cfg.pResize && !s.n.resizing && rzs < cfg.resizes then
        a := { t := t, rz := true }
        rzs := rzs + 1
      else if r < cfg.pResize + cfg.pIter && its < cfg.iters then
        a := { t := t, it := true }
        its := its + 1
      else if r < cfg.pResize + cfg.pIter + cfg.pCall && calls < cfg.calls then
        let ks := if calls < cfg.warm then cfg.keys else cfg.hot
        let k := ks.getD (rngPick rng ks.length) 0
        rng := rngNext rng
        let op := if calls < cfg.warm then KOp.ins (calls % 7) (100 + calls) else mkOp (rngPick rng 10) (100 + calls)
        a := { t := t, inv := some (k, op) }
        calls := calls + 1
      else continue
    else
      a := { t := t, pick := rngPick rng 64 }
      if it.isSome && cfg.slow > 1 then
        rng := rngNext rng
        if rngPick rng cfg.slow != 0 then continue
    match act s a with
    | none => blocked := blocked + 1
    | some s' =>
      sc := sc.push a
      s := s'
      tr := snap cfg.keys s :: tr
  -- drain
  for _ in [0:800] do
    let mut progress := false
    for t in [0:cfg.nthreads] do
      let l := s.n.threads.getD t {}
      let it := s.its.getD t none
      if l.pc != .idle || it.isSome then
        rng := rngNext rng
        let a : Act := { t := t, pick := rngPick rng 64 }
        match act s a with
        | none => blocked := blocked + 1
        | some s' =>
          sc := sc.push a
          s := s'
          tr := snap cfg.keys s :: tr
          progress := true
    if !progress then break
  return { sched := sc.toList, s := s, tr := tr, blocked := blocked }

structure Out where
  runs : Nat := 0
  bad1 : Option Sched := none
  bad2 : Option Sched := none
  notDrained : Nat := 0
  iterations : Nat := 0
  yields : Nat := 0
  /-- iterations that ended at least 1 / 2 / 3 generations after their root generation was current -/
  across : Nat × Nat × Nat := (0, 0, 0)
  constSome : Nat := 0
  constNone : Nat := 0
  maxGen : Nat := 0

def explore (cfg : Cfg) (seed0 nruns : Nat) : Out := Id.run do
  let mut o : Out := {}
  for i in [0:nruns] do
    let r := oneRun cfg (rngNext (seed0 + 7919 * i))
    let s := r.s
    o := { o with runs := o.runs + 1, iterations := o.iterations + s.ends.length, yields := o.yields + s.yields.length }
    if s.n.cur > o.maxGen then o := { o with maxGen := s.n.cur }
    if s.its.any Option.isSome || s.n.threads.any (fun l => l.pc != .idle) then o := { o with notDrained := o.notDrained + 1 }
    if !check1 cfg.keys r.tr s && o.bad1.isNone then o := { o with bad1 := some r.sched }
    if !check2 cfg.keys r.tr s && o.bad2.isNone then o := { o with bad2 := some r.sched }
    let (a, b) := untouchedCount cfg.keys r.tr s
    for (_, t0, t1) in s.ends do
      let d := gensDuring r.tr t0 t1
      o := { o with across := (o.across.1 + (if d ≥ 1 then 1 else 0), o.across.2.1 + (if d ≥ 2 then 1 else 0),
                                o.across.2.2 + (if d ≥ 3 then 1 else 0)) }
    o := { o with constSome := o.constSome + a, constNone := o.constNone + b }
  return o

def Out.report (o : Out) : String :=
  s!"runs {o.runs}, not drained {o.notDrained}, completed iterations {o.iterations}, yields {o.yields}, " ++
  s!"iterations across >=1/>=2/>=3 commits {o.across.1}/{o.across.2.1}/{o.across.2.2}, " ++
  s!"(iteration,key) untouched-present {o.constSome}, untouched-absent {o.constNone}, max generation {o.maxGen}; " ++
  (match o.bad1 with | none => "check1 OK" | some sc => s!"CHECK1 FAILS: {repr sc}") ++ "; " ++
  (match o.bad2 with | none => "check2 OK" | some sc => s!"CHECK2 FAILS: {repr sc}")

/-! ## kernel-checked runs

Thread 0 performs the calls, thread 1 iterates, thread 2 resizes (twice). `setup` builds the list
`[a: key 1, b: key 2, c: key 3]` in cell `(0,0)`; the two resizes are those of `Lemmas/BinNExamples.lean`
(`(1,0) = [b']`, `(1,1) = [a', c]`; then `(2,2) = [b']`, `(2,1) = [a'']`, `(2,3) = [c]`, `c` re-used twice).

* `schedA` — the iterator is created, loads cell `(0,0)` (the head `a`), sleeps through BOTH resizes, then
  walks the old (frozen) list `a, b, c`: three yields, the re-used node `c` once.
* `schedB` — the iterator is created before the two resizes and takes its first step after them: it
  descends `(0,0) → (1,0) → (2,0), (2,2)`, comes back, `(1,1) → (2,1), (2,3)`: yields `2, 1, 3`, each once.
* `schedC` — as `schedA`, but after the resizes `insert(1) = 9` and `remove(2)` complete before the iterator
  walks on: it yields the OLD pairs `(1,5)`, `(2,6)` (present at its creation) and the untouched key 3 once. -/

def rep (t n : Nat) : Sched := List.replicate n { t := t }
def call (t k : Nat) (op : KOp) : Sched := [{ t := t, inv := some (k, op) }]
def rz (t : Nat) : Sched := [{ t := t, rz := true }]
def mkIt (t : Nat) : Sched := [{ t := t, it := true }]
def xfer (t j : Nat) : Sched := [{ t := t, pick := j }] ++ rep t 8
def commit (t : Nat) : Sched := rep t 2
def setup : Sched :=
  call 0 1 (.ins 5 100) ++ rep 0 3 ++ call 0 2 (.ins 6 101) ++ rep 0 8 ++ call 0 3 (.ins 7 102) ++ rep 0 9
def twoResizes : Sched :=
  rz 2 ++ xfer 2 0 ++ commit 2 ++ rz 2 ++ xfer 2 0 ++ xfer 2 1 ++ commit 2
def keys4 : List Nat := [0, 1, 2, 3]

/-- `check1`, `check2`, the final generation, the completed iterations, the yields `(key, value, time)` in order -/
def verdictI (sc : Sched) : Option (Bool × Bool × Nat × List (Nat × Nat × Nat) × List (Nat × (Nat × Nat) × Nat)) :=
  (runT keys4 (init 4) [snap keys4 (init 4)] sc).map fun (s, tr) =>
    (check1 keys4 tr s, check2 keys4 tr s, s.n.cur, s.ends, s.yields.reverse.map fun (y : Yield) => (y.key, y.val, y.time))

def schedA : Sched := setup ++ mkIt 1 ++ rep 1 1 ++ twoResizes ++ rep 1 4
def schedB : Sched := setup ++ mkIt 1 ++ twoResizes ++ rep 1 11
def schedC : Sched :=
  setup ++ mkIt 1 ++ rep 1 1 ++ twoResizes ++ call 0 1 (.ins 9 104) ++ rep 0 7 ++ call 0 2 .rm ++ rep 0 8 ++ rep 1 4

set_option maxRecDepth 8192 in
set_option synthInstance.maxSize 2000 in
theorem verdict_A : verdictI schedA =
    some (true, true, 2, [(1, 24, 62)], [(1, (5, 100), 59), (2, (6, 101), 60), (3, (7, 102), 61)]) := by decide

set_option maxRecDepth 8192 in
set_option synthInstance.maxSize 2000 in
theorem verdict_B : verdictI schedB =
    some (true, true, 2, [(1, 24, 68)], [(2, (6, 101), 62), (1, (5, 100), 65), (3, (7, 102), 67)]) := by decide

set_option maxRecDepth 8192 in
set_option synthInstance.maxSize 2000 in
theorem verdict_C : verdictI schedC =
    some (true, true, 2, [(1, 24, 79)], [(1, (5, 100), 76), (2, (6, 101), 77), (3, (7, 102), 78)]) := by decide

theorem run_reachable {n : Nat} : ∀ (sc : Sched) {s s' : State}, Reachable n s → run s sc = some s' → Reachable n s'
  | [], s, s', hr, h => by simp only [run, Option.some.injEq] at h; exact h ▸ hr
  | a :: rest, s, s', hr, h => by
    simp only [run] at h
    cases hs : act s a with
    | none => rw [hs] at h; cases h
    | some s1 => rw [hs] at h; exact run_reachable rest (.step a.t a.it a.inv a.rz a.pick hr hs) h

/-- a small sample at build time (larger runs: see the report) -/
def sample : Out := explore { nthreads := 4, steps := 500, iters := 3, pIter := 30, pResize := 15, calls := 24, slow := 12 } 3 60

#eval IO.println sample.report

end Flurry.Proto.BinNI
