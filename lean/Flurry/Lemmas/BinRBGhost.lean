import Flurry.Lemmas.BinRBInv
import Flurry.Lemmas.Lin2Trace
/-! # Proto/Bin: ghost history and the hindsight invariant of the readers (C01)

(C13 port of `Flurry/Lemmas/BinGhost.lean` to the per-key operations of `Flurry/Lin2.lean`, i.e. with `retain`'s conditional removal `condRm`; below, "`Proto/Bin`" / `Base.` is `Flurry.Proto.BinR.Base` (`Proto/BinRBase.lean`) and "`Proto/BinW`" is `Flurry.Proto.BinR` (`Proto/BinR.lean`), which in addition has the `retain` visit steps.)

For a fixed key `k` the ghost state is `A : Nat → KSt` (`A τ` = abstract state of `k` after global
step `τ`) and `pt : Nat → Nat` (`pt i` = linearization point of the call invoked at time `i`).

* `callsOnExt`: the completed calls plus the calls of writers that have done their store.
* `Good A k inv s cur`: the hindsight justification of a lock-free reader (invoked at `inv`)
  holding the pointer `cur`:
  - `cur = none`: at some time in `[inv, now]` the key was absent;
  - `cur` on the chain: no node before it has key `k` (so "now" is a good time);
  - `cur` unlinked: its fields are frozen; if it has key `k` its value was the abstract value at
    some time in `[inv, now]`; otherwise its (frozen) successor is `Good` again.
  `Good.step`: `Good` survives every transition of every thread; `Good.head`, `Good.next`: the
  reader's own moves.
* `GInv`: the ghost invariant; `GInv.frame`: the generic part of its preservation. -/
namespace Flurry.Proto.BinR.Base
open Flurry.Lin2

theorem isReader_eq_isRead (op : KOp2) : isReader op = isRead op := by cases op <;> rfl

/-! ## the extended history -/

/-- the call of a writer that has stored and only has to unlock, counted as responding at `now` -/
def extOf (k now t : Nat) (l : Local) : Option Call2 :=
  match l.pc, l.call with
  | .wUnlock _ res false, some p => if p.key = k then some ⟨t, p.op, res, p.inv, now⟩ else none
  | _, _ => none

def extCalls (s : State) (k : Nat) : History2 :=
  (List.range s.threads.length).filterMap (fun t => (s.threads[t]?).bind (extOf k s.now t))

/-- the completed calls on key `k`, plus the calls of writers that have already performed their
store and only have to unlock (they are counted as responding "now") -/
def callsOnExt (s : State) (k : Nat) : History2 := callsOn s k ++ extCalls s k

theorem extOf_eq_some {k now t : Nat} {l : Local} {c : Call2} :
    extOf k now t l = some c ↔ ∃ h res p, l.pc = .wUnlock h res false ∧ l.call = some p ∧ p.key = k ∧
      c = ⟨t, p.op, res, p.inv, now⟩ := by
  obtain ⟨pc, call⟩ := l
  unfold extOf
  constructor
  · intro h
    split at h
    · rename_i h0 res p hpc hcall
      simp only at hpc hcall
      split at h
      · cases h
        exact ⟨h0, res, p, hpc, hcall, by assumption, rfl⟩
      · cases h
    · cases h
  · rintro ⟨h, res, p, hpc, hcall, hk, rfl⟩
    simp only at hpc hcall
    subst hpc hcall
    simp [hk]

theorem extOf_none_of_pc {k now t : Nat} {l : Local} (h : ∀ h res, l.pc ≠ .wUnlock h res false) :
    extOf k now t l = none := by
  cases he : extOf k now t l with
  | none => rfl
  | some c =>
    obtain ⟨h0, res, p, hpc, -⟩ := extOf_eq_some.1 he
    exact absurd hpc (h h0 res)

theorem mem_callsOn {s : State} {k : Nat} {c : Call2} : c ∈ callsOn s k ↔ (k, c) ∈ s.hist := by
  unfold callsOn
  simp only [List.mem_map, List.mem_reverse, List.mem_filter, beq_iff_eq]
  constructor
  · rintro ⟨⟨k', c'⟩, ⟨hm, hk⟩, hc⟩
    simp only at hk hc
    subst hk hc
    exact hm
  · intro h
    exact ⟨(k, c), ⟨h, rfl⟩, rfl⟩

theorem mem_extCalls {s : State} {k : Nat} {c : Call2} :
    c ∈ extCalls s k ↔ ∃ t l, s.threads[t]? = some l ∧ extOf k s.now t l = some c := by
  unfold extCalls
  simp only [List.mem_filterMap, List.mem_range, Option.bind_eq_some_iff]
  constructor
  · rintro ⟨t, _, l, hl, he⟩; exact ⟨t, l, hl, he⟩
  · rintro ⟨t, l, hl, he⟩
    exact ⟨t, (List.getElem?_eq_some_iff.1 hl).1, l, hl, he⟩

theorem mem_callsOnExt {s : State} {k : Nat} {c : Call2} :
    c ∈ callsOnExt s k ↔ (k, c) ∈ s.hist ∨ ∃ t l, s.threads[t]? = some l ∧ extOf k s.now t l = some c := by
  unfold callsOnExt
  rw [List.mem_append, mem_callsOn, mem_extCalls]

theorem callsOnExt_quiescent {s : State} (hq : quiescent s) (k : Nat) : callsOnExt s k = callsOn s k := by
  have : extCalls s k = [] := by
    rw [List.eq_nil_iff_forall_not_mem]
    intro c hc
    obtain ⟨t, l, hl, he⟩ := mem_extCalls.1 hc
    obtain ⟨h, res, p, hpc, -⟩ := extOf_eq_some.1 he
    rw [hq l (List.mem_of_getElem? hl)] at hpc
    cases hpc
  rw [callsOnExt, this, List.append_nil]

/-- `c'` is the call `c`, possibly with a later response -/
def Sim (c c' : Call2) : Prop :=
  c'.tid = c.tid ∧ c'.op = c.op ∧ c'.res = c.res ∧ c'.inv = c.inv ∧ c.resp ≤ c'.resp

theorem Sim.refl (c : Call2) : Sim c c := ⟨rfl, rfl, rfl, rfl, Nat.le_refl _⟩

theorem extOf_bump {k now now' t : Nat} {l : Local} {c' : Call2} (hle : now ≤ now')
    (h : extOf k now' t l = some c') : ∃ c, extOf k now t l = some c ∧ Sim c c' := by
  obtain ⟨h0, res, p, hpc, hcall, hk, rfl⟩ := extOf_eq_some.1 h
  exact ⟨⟨t, p.op, res, p.inv, now⟩, extOf_eq_some.2 ⟨h0, res, p, hpc, hcall, hk, rfl⟩,
    rfl, rfl, rfl, rfl, hle⟩

theorem extOf_bump' {k now now' t : Nat} {l : Local} {c : Call2} (hle : now ≤ now')
    (h : extOf k now t l = some c) : ∃ c', extOf k now' t l = some c' ∧ Sim c c' := by
  obtain ⟨h0, res, p, hpc, hcall, hk, rfl⟩ := extOf_eq_some.1 h
  exact ⟨⟨t, p.op, res, p.inv, now'⟩, extOf_eq_some.2 ⟨h0, res, p, hpc, hcall, hk, rfl⟩,
    rfl, rfl, rfl, rfl, hle⟩

/-- where the calls of the successor state come from -/
theorem ext_backward {s s' : State} {t : Nat} {l' : Local} {hnew : List (Nat × Call2)} {k : Nat}
    (hthr : s'.threads = s.threads.set t l') (hnow : s'.now = s.now + 1)
    (hhist : s'.hist = hnew ++ s.hist) :
    ∀ c' ∈ callsOnExt s' k, (∃ c ∈ callsOnExt s k, Sim c c') ∨ (k, c') ∈ hnew ∨
      extOf k (s.now + 1) t l' = some c' := by
  intro c' hc'
  rcases mem_callsOnExt.1 hc' with hc' | ⟨t1, l1, hl1, he1⟩
  · rw [hhist] at hc'
    rcases List.mem_append.1 hc' with hc' | hc'
    · exact Or.inr (Or.inl hc')
    · exact Or.inl ⟨c', mem_callsOnExt.2 (Or.inl hc'), Sim.refl _⟩
  · rw [hthr] at hl1
    rw [hnow] at he1
    rcases get_set hl1 with ⟨rfl, rfl⟩ | ⟨_, hl1⟩
    · exact Or.inr (Or.inr he1)
    · obtain ⟨c, hc, hsim⟩ := extOf_bump (Nat.le_succ s.now) he1
      exact Or.inl ⟨c, mem_callsOnExt.2 (Or.inr ⟨t1, l1, hl1, hc⟩), hsim⟩

/-- where the calls of the predecessor state go -/
theorem ext_forward {s s' : State} {t : Nat} {l l' : Local} {hnew : List (Nat × Call2)} {k : Nat}
    (hl : s.threads[t]? = some l)
    (hthr : s'.threads = s.threads.set t l') (hnow : s'.now = s.now + 1)
    (hhist : s'.hist = hnew ++ s.hist) :
    ∀ c ∈ callsOnExt s k, (∃ c' ∈ callsOnExt s' k, Sim c c') ∨ extOf k s.now t l = some c := by
  intro c hc
  rcases mem_callsOnExt.1 hc with hc | ⟨t1, l1, hl1, he1⟩
  · refine Or.inl ⟨c, mem_callsOnExt.2 (Or.inl ?_), Sim.refl _⟩
    rw [hhist]; exact List.mem_append_right _ hc
  · by_cases ht : t1 = t
    · subst ht
      rw [hl] at hl1; cases hl1
      exact Or.inr he1
    · obtain ⟨c', hc', hsim⟩ := extOf_bump' (Nat.le_succ s.now) he1
      refine Or.inl ⟨c', mem_callsOnExt.2 (Or.inr ⟨t1, l1, ?_, ?_⟩), hsim⟩
      · rw [hthr, get_set_ne ht]; exact hl1
      · rw [hnow]; exact hc'

theorem callsOnExt_resp_le {s : State} (T : TInv s) {k : Nat} {c : Call2} (hc : c ∈ callsOnExt s k) :
    c.resp ≤ s.now := by
  rcases mem_callsOnExt.1 hc with hc | ⟨t1, l1, _, he1⟩
  · exact (T.histTime _ hc).2
  · obtain ⟨h0, res, p, -, -, -, rfl⟩ := extOf_eq_some.1 he1
    exact Nat.le_refl _

/-- the pending call of a thread that is not counted in the extended history is different from
every call of the extended history -/
theorem inv_ne_of_mem_callsOnExt {s : State} (T : TInv s) {t : Nat} {l : Local} {p : Pending} {k : Nat}
    (hl : s.threads[t]? = some l) (hp : l.call = some p) (hnone : extOf k s.now t l = none)
    {c : Call2} (hc : c ∈ callsOnExt s k) : c.inv ≠ p.inv := by
  rcases mem_callsOnExt.1 hc with hc | ⟨t1, l1, hl1, he1⟩
  · exact T.uniqHP _ hc t l p hl hp
  · obtain ⟨h0, res, p1, hpc1, hcall1, -, rfl⟩ := extOf_eq_some.1 he1
    intro he
    have := T.uniqPP t1 t l1 l p1 p hl1 hl hcall1 hp he
    subst this
    rw [hl] at hl1; cases hl1
    rw [hnone] at he1; cases he1

theorem callsOnExt_pairwise {s : State} (T : TInv s) (k : Nat) :
    (callsOnExt s k).Pairwise (fun c d => c.inv ≠ d.inv) := by
  unfold callsOnExt
  refine List.pairwise_append.2 ⟨?_, ?_, ?_⟩
  · unfold callsOn
    rw [List.pairwise_map, List.pairwise_reverse]
    refine (T.uniqHH.filter _).imp ?_
    intro a b hab; exact fun h => hab h.symm
  · unfold extCalls
    refine List.Pairwise.filterMap _ ?_ (List.pairwise_lt_range)
    intro t1 t2 hlt c1 hc1 c2 hc2
    obtain ⟨l1, hl1, he1⟩ := Option.bind_eq_some_iff.1 hc1
    obtain ⟨l2, hl2, he2⟩ := Option.bind_eq_some_iff.1 hc2
    obtain ⟨_, _, p1, _, hcall1, _, rfl⟩ := extOf_eq_some.1 he1
    obtain ⟨_, _, p2, _, hcall2, _, rfl⟩ := extOf_eq_some.1 he2
    intro he
    have := T.uniqPP t1 t2 l1 l2 p1 p2 hl1 hl2 hcall1 hcall2 he
    omega
  · intro c hc d hd
    obtain ⟨t1, l1, hl1, he1⟩ := mem_extCalls.1 hd
    obtain ⟨_, _, p1, _, hcall1, _, rfl⟩ := extOf_eq_some.1 he1
    exact T.uniqHP _ (mem_callsOn.1 hc) t1 l1 p1 hl1 hcall1

/-! ## the hindsight justification of a reader -/

inductive Good (A : Nat → KSt) (k inv : Nat) (s : State) : Option Nat → Prop
  | absent {τ : Nat} : inv ≤ τ → τ ≤ s.now → A τ = none → Good A k inv s none
  | on {c : Nat} : c ∈ chain s → (∀ i ∈ chain s, i < c → (nodeAt s.heap i).key ≠ k) →
      Good A k inv s (some c)
  | off {c : Nat} : c ∉ chain s → c < s.heap.length →
      ((nodeAt s.heap c).key ≠ k → Good A k inv s (nodeAt s.heap c).next) →
      ((nodeAt s.heap c).key = k → ∃ τ, inv ≤ τ ∧ τ ≤ s.now ∧ A τ = some (nodeAt s.heap c).val) →
      Good A k inv s (some c)

/-- the successor of a chain node whose predecessors (and itself) do not have key `k` is `Good` -/
theorem Good.of_succ {A : Nat → KSt} {k inv : Nat} {s : State} (H : HInv s) (hA : A s.now = absOf s k)
    (hinv : inv ≤ s.now) {c : Nat} (hc : c ∈ chain s)
    (hbefore : ∀ i ∈ chain s, i < c → (nodeAt s.heap i).key ≠ k) (hk : (nodeAt s.heap c).key ≠ k) :
    Good A k inv s (nodeAt s.heap c).next := by
  have hn := getElem?_nodeAt (chain_lt H hc)
  cases hnx : (nodeAt s.heap c).next with
  | none =>
    have hle := (chain_isChain H).succ_none H.nextOK hc hn hnx
    refine .absent hinv (Nat.le_refl _) ?_
    rw [hA, absOf_eq_none_iff]
    intro i hi
    rcases Nat.lt_or_ge i c with hlt | hge
    · exact hbefore i hi hlt
    · have : i = c := Nat.le_antisymm (hle i hi) hge
      rw [this]; exact hk
  | some b =>
    obtain ⟨hb, hle⟩ := (chain_isChain H).succ_some H.nextOK hc hn hnx
    refine .on hb ?_
    intro i hi hib
    rcases Nat.lt_or_ge i c with hlt | hge
    · exact hbefore i hi hlt
    · have : i = c := Nat.le_antisymm (hle i hi hib) hge
      rw [this]; exact hk

/-- the pointer loaded from the bin cell -/
theorem Good.head {A : Nat → KSt} {k inv : Nat} {s : State} (H : HInv s) (hA : A s.now = absOf s k)
    (hinv : inv ≤ s.now) : Good A k inv s s.head := by
  cases hh : s.head with
  | none =>
    refine .absent hinv (Nat.le_refl _) ?_
    rw [hA, absOf_eq_none_iff, chain_head_none H hh]
    intro i hi; cases hi
  | some h =>
    obtain ⟨l, hl⟩ := chain_head_some H hh
    refine .on (by rw [hl]; simp) ?_
    intro i hi hih
    have hs := chain_sorted H
    rw [hl] at hs hi
    rcases List.mem_cons.1 hi with rfl | hi
    · omega
    · have := (List.pairwise_cons.1 hs).1 i hi
      omega

/-- the pointer loaded from the `next` cell of a node with another key -/
theorem Good.next {A : Nat → KSt} {k inv : Nat} {s : State} (H : HInv s) (hA : A s.now = absOf s k)
    (hinv : inv ≤ s.now) {c : Nat} (hg : Good A k inv s (some c)) (hk : (nodeAt s.heap c).key ≠ k) :
    Good A k inv s (nodeAt s.heap c).next := by
  cases hg with
  | on hc hbefore => exact Good.of_succ H hA hinv hc hbefore hk
  | off _ _ hnext _ => exact hnext hk

/-- a reader that finds key `k` in node `c` -/
theorem Good.hit {A : Nat → KSt} {k inv : Nat} {s : State} (H : HInv s) (hA : A s.now = absOf s k)
    (hinv : inv ≤ s.now) {c : Nat} (hg : Good A k inv s (some c)) (hk : (nodeAt s.heap c).key = k) :
    ∃ τ, inv ≤ τ ∧ τ ≤ s.now ∧ A τ = some (nodeAt s.heap c).val := by
  cases hg with
  | on hc _ =>
    exact ⟨s.now, hinv, Nat.le_refl _, by rw [hA]; exact (absOf_eq_some_iff H).2 ⟨c, hc, hk, rfl⟩⟩
  | off _ _ _ hval => exact hval hk

theorem Good.miss {A : Nat → KSt} {k inv : Nat} {s : State} (hg : Good A k inv s none) :
    ∃ τ, inv ≤ τ ∧ τ ≤ s.now ∧ A τ = none := by
  cases hg with
  | absent h1 h2 h3 => exact ⟨_, h1, h2, h3⟩

/-- **hindsight**: the justification of a reader survives every transition -/
theorem Good.step {A A' : Nat → KSt} {k inv : Nat} {s s' : State} {cur : Option Nat}
    (hg : Good A k inv s cur) (H : HInv s) (hs : HeapStep s s')
    (hnow : s'.now = s.now + 1) (hA' : ∀ τ, τ ≤ s.now → A' τ = A τ) (hA : A s.now = absOf s k)
    (hinv : inv ≤ s.now) : Good A' k inv s' cur := by
  induction hg with
  | absent h1 h2 h3 => exact .absent h1 (by omega) (by rw [hA' _ h2]; exact h3)
  | @on c hc hbefore =>
    have hcl := chain_lt H hc
    by_cases hc' : c ∈ chain s'
    · refine .on hc' ?_
      intro i hi hic
      rcases hs.noRelink i hi with hi0 | hi0
      · rw [hs.key i (chain_lt H hi0)]; exact hbefore i hi0 hic
      · omega
    · obtain ⟨hval, hnext, hrest⟩ := hs.unl c hc hc'
      have hkey := hs.key c hcl
      refine .off hc' (by have := hs.len; omega) ?_ ?_
      · intro hk
        rw [hkey] at hk
        rw [hnext]
        have hn := getElem?_nodeAt hcl
        cases hnx : (nodeAt s.heap c).next with
        | none =>
          have hle := (chain_isChain H).succ_none H.nextOK hc hn hnx
          refine .absent (τ := s.now) hinv (by omega) ?_
          rw [hA' _ (Nat.le_refl _), hA, absOf_eq_none_iff]
          intro i hi
          rcases Nat.lt_or_ge i c with hlt | hge
          · exact hbefore i hi hlt
          · have : i = c := Nat.le_antisymm (hle i hi) hge
            rw [this]; exact hk
        | some b =>
          obtain ⟨hb, hle⟩ := (chain_isChain H).succ_some H.nextOK hc hn hnx
          have hcb := (H.nextOK c _ b hn hnx)
          have hb' : b ∈ chain s' := hrest b hb (by omega)
          refine .on hb' ?_
          intro i hi hib
          rcases hs.noRelink i hi with hi0 | hi0
          · rw [hs.key i (chain_lt H hi0)]
            rcases Nat.lt_or_ge i c with hlt | hge
            · exact hbefore i hi0 hlt
            · have : i = c := Nat.le_antisymm (hle i hi0 hib) hge
              rw [this]; exact hk
          · omega
      · intro hk
        rw [hkey] at hk
        refine ⟨s.now, hinv, by omega, ?_⟩
        rw [hA' _ (Nat.le_refl _), hA, hval]
        exact (absOf_eq_some_iff H).2 ⟨c, hc, hk, rfl⟩
  | @off c hc hcl _ hval ih =>
    have hc' : c ∉ chain s' := by
      intro hm
      rcases hs.noRelink c hm with h0 | h0
      · exact hc h0
      · omega
    obtain ⟨hv, hn⟩ := hs.off c hcl hc
    have hkey := hs.key c hcl
    refine .off hc' (by have := hs.len; omega) ?_ ?_
    · intro hk
      rw [hkey] at hk
      rw [hn]
      exact ih hk
    · intro hk
      rw [hkey] at hk
      obtain ⟨τ, h1, h2, h3⟩ := hval hk
      exact ⟨τ, h1, by omega, by rw [hA' _ h2, hv]; exact h3⟩

/-! ## the ghost invariant -/

/-- the call has a linearization point in its interval at which the trace `A` justifies it -/
def CallOK (A : Nat → KSt) (pt : Nat → Nat) (c : Call2) : Prop :=
  c.inv ≤ pt c.inv ∧ pt c.inv ≤ c.resp ∧
  (isRead c.op = true → specStep2 (A (pt c.inv)) c.op = (A (pt c.inv), c.res)) ∧
  (isRead c.op = false → 1 ≤ pt c.inv ∧ specStep2 (A (pt c.inv - 1)) c.op = (A (pt c.inv), c.res))

theorem CallOK.sim {A A' : Nat → KSt} {pt pt' : Nat → Nat} {c c' : Call2} {T : Nat}
    (h : CallOK A pt c) (hs : Sim c c') (hresp : c.resp ≤ T) (hA' : ∀ τ, τ ≤ T → A' τ = A τ)
    (hpt' : pt' c.inv = pt c.inv) : CallOK A' pt' c' := by
  obtain ⟨h1, h2, h3, h4⟩ := h
  obtain ⟨_, s2, s3, s4, s5⟩ := hs
  unfold CallOK
  rw [s4, s2, s3, hpt', hA' _ (by omega : pt c.inv ≤ T), hA' _ (by omega : pt c.inv - 1 ≤ T)]
  exact ⟨h1, by omega, h3, h4⟩

structure GInv (k : Nat) (s : State) (A : Nat → KSt) (pt : Nat → Nat) : Prop where
  h0 : A 0 = none
  hA : A s.now = absOf s k
  calls : ∀ c ∈ callsOnExt s k, CallOK A pt c
  stab : ∀ τ, 1 ≤ τ → τ ≤ s.now → A τ ≠ A (τ - 1) →
    ∃ c ∈ callsOnExt s k, isRead c.op = false ∧ pt c.inv = τ
  inj : ∀ c ∈ callsOnExt s k, ∀ d ∈ callsOnExt s k, isRead c.op = false → isRead d.op = false →
    pt c.inv = pt d.inv → c.inv = d.inv
  readers : ∀ (t : Nat) (l : Local) (p : Pending) (cur : Option Nat), s.threads[t]? = some l →
    l.call = some p → p.key = k → l.pc = .rNode cur → Good A k p.inv s cur

/-- the trace extended by the abstract state after the step -/
def nextA (A : Nat → KSt) (now : Nat) (x : KSt) : Nat → KSt := fun τ => if τ = now + 1 then x else A τ

theorem nextA_old {A : Nat → KSt} {now : Nat} {x : KSt} {τ : Nat} (h : τ ≤ now) : nextA A now x τ = A τ := by
  unfold nextA; rw [if_neg (by omega)]

theorem nextA_new {A : Nat → KSt} {now : Nat} {x : KSt} : nextA A now x (now + 1) = x := by
  unfold nextA; rw [if_pos rfl]

/-- the generic part of the preservation of `GInv` -/
theorem GInv.frame {k : Nat} {s s' : State} {A : Nat → KSt} {pt pt' : Nat → Nat} {i0 : Nat}
    (g : GInv k s A pt) (T : TInv s) (hnow : s'.now = s.now + 1)
    (hpt' : ∀ c ∈ callsOnExt s k, pt' c.inv = pt c.inv)
    (hF : ∀ c ∈ callsOnExt s k, ∃ c' ∈ callsOnExt s' k, Sim c c')
    (hB : ∀ c' ∈ callsOnExt s' k, (∃ c ∈ callsOnExt s k, Sim c c') ∨
      (c'.inv = i0 ∧ CallOK (nextA A s.now (absOf s' k)) pt' c' ∧ (isRead c'.op = false → pt' c'.inv = s.now + 1)))
    (hchg : absOf s' k ≠ absOf s k → ∃ c' ∈ callsOnExt s' k, isRead c'.op = false ∧ pt' c'.inv = s.now + 1)
    (hreaders : ∀ (t : Nat) (l : Local) (p : Pending) (cur : Option Nat), s'.threads[t]? = some l →
      l.call = some p → p.key = k → l.pc = .rNode cur → Good (nextA A s.now (absOf s' k)) k p.inv s' cur) :
    GInv k s' (nextA A s.now (absOf s' k)) pt' := by
  have hold : ∀ τ, τ ≤ s.now → nextA A s.now (absOf s' k) τ = A τ := fun τ h => nextA_old h
  refine ⟨?_, ?_, ?_, ?_, ?_, hreaders⟩
  · rw [hold 0 (Nat.zero_le _)]; exact g.h0
  · rw [hnow, nextA_new]
  · intro c' hc'
    rcases hB c' hc' with ⟨c, hc, hsim⟩ | ⟨-, hok, -⟩
    · exact (g.calls c hc).sim hsim (callsOnExt_resp_le T hc) hold (hpt' c hc)
    · exact hok
  · intro τ h1 h2 hne
    rw [hnow] at h2
    rcases Nat.lt_or_ge τ (s.now + 1) with hlt | hge
    · rw [hold τ (by omega), hold (τ - 1) (by omega)] at hne
      obtain ⟨c, hc, hw, hp⟩ := g.stab τ h1 (by omega) hne
      obtain ⟨c', hc', hsim⟩ := hF c hc
      refine ⟨c', hc', by rw [hsim.2.1]; exact hw, ?_⟩
      rw [hsim.2.2.2.1, hpt' c hc]; exact hp
    · have hτ : τ = s.now + 1 := by omega
      subst hτ
      rw [nextA_new, Nat.add_sub_cancel, hold s.now (Nat.le_refl _), g.hA] at hne
      exact hchg hne
  · intro c' hc' d' hd' hwc hwd hpe
    rcases hB c' hc' with ⟨c, hc, hsc⟩ | ⟨hci, -, hcp⟩ <;> rcases hB d' hd' with ⟨d, hd, hsd⟩ | ⟨hdi, -, hdp⟩
    · rw [hsc.2.2.2.1, hsd.2.2.2.1]
      rw [hsc.2.2.2.1, hsd.2.2.2.1, hpt' c hc, hpt' d hd] at hpe
      exact g.inj c hc d hd (by rw [← hsc.2.1]; exact hwc) (by rw [← hsd.2.1]; exact hwd) hpe
    · exfalso
      have h1 := (g.calls c hc).2.1
      have h2 := callsOnExt_resp_le T hc
      rw [hsc.2.2.2.1, hpt' c hc, hdp hwd] at hpe
      omega
    · exfalso
      have h1 := (g.calls d hd).2.1
      have h2 := callsOnExt_resp_le T hd
      rw [hsd.2.2.2.1, hpt' d hd, hcp hwc] at hpe
      omega
    · rw [hci, hdi]

end Flurry.Proto.BinR.Base
