import Flurry.Lemmas.SeqTableAddCount
/-! # T4: `tryPresize`, `treeifyBin`, `reserve` -/
namespace Flurry.Seq
open Flurry Flurry.Gen

theorem tableLen_of_some {m : Map} {t : Table} (ht : m.table = some t) : tableLen m = t.length := by
  simp only [tableLen, ht]

theorem tableLen_of_none {m : Map} (ht : m.table = none) : tableLen m = 0 := by
  simp only [tableLen, ht]

theorem entries_of_tableLen_zero {m : Map} (h : tableLen m = 0) : entries m = [] := by
  cases ht : m.table with
  | none => exact entries_of_table_none ht
  | some t =>
    rw [tableLen_of_some ht] at h
    rw [entries_eq ht, List.eq_nil_of_length_eq_zero h]; rfl

theorem get_of_tableLen_zero {m : Map} (h : tableLen m = 0) (k : Nat) : get k m = none := by
  cases ht : m.table with
  | none => exact get_of_table_none ht k
  | some t =>
    rw [tableLen_of_some ht] at h
    simp [get, ht, h]

/-! ## facts that need no hypothesis -/

/-- the loop of `tryPresize` only ever allocates a first table or applies `transfer` -/
theorem tryPresize_go_rel (R : Map → Map → Prop) (hr : ∀ m, R m m)
    (ht : ∀ a b c, R a b → R b c → R a c) (hs : ∀ m, R m (transfer m))
    (hi : ∀ (m : Map) (cap : Nat) (sc : Int), tableLen m = 0 →
      R m { m with table := some (emptyTable cap), sizeCtl := sc }) (req : Int) :
    ∀ (fuel : Nat) (m : Map), R m (tryPresize.go req fuel m) := by
  intro fuel
  induction fuel with
  | zero => intro m; exact hr m
  | succ f ih =>
    intro m
    simp only [tryPresize.go]
    split
    · exact hr m
    · split
      next h0 => exact ht _ _ _ (hi m _ _ (by simpa using h0)) (ih _)
      next =>
        split
        · exact hr m
        · exact ht _ _ _ (hs m) (ih _)

theorem tryPresize_go_hash (req : Int) (fuel : Nat) (m : Map) :
    (tryPresize.go req fuel m).hash = m.hash :=
  tryPresize_go_rel (fun a b => b.hash = a.hash) (fun _ => rfl) (fun _ _ _ h1 h2 => h2.trans h1)
    transfer_hash (fun _ _ _ _ => rfl) req fuel m

theorem tryPresize_go_count (req : Int) (fuel : Nat) (m : Map) :
    (tryPresize.go req fuel m).count = m.count :=
  tryPresize_go_rel (fun a b => b.count = a.count) (fun _ => rfl) (fun _ _ _ h1 h2 => h2.trans h1)
    transfer_count (fun _ _ _ _ => rfl) req fuel m

theorem tryPresize_go_tableLen_le (req : Int) (fuel : Nat) (m : Map) :
    tableLen m ≤ tableLen (tryPresize.go req fuel m) :=
  tryPresize_go_rel (fun a b => tableLen a ≤ tableLen b) (fun _ => Nat.le_refl _)
    (fun _ _ _ h1 h2 => Nat.le_trans h1 h2) transfer_tableLen_le
    (fun _ _ _ h => by rw [h]; exact Nat.zero_le _) req fuel m

theorem tryPresize_go_resizes_le (req : Int) (fuel : Nat) (m : Map) :
    m.resizes ≤ (tryPresize.go req fuel m).resizes :=
  tryPresize_go_rel (fun a b => a.resizes ≤ b.resizes) (fun _ => Nat.le_refl _)
    (fun _ _ _ h1 h2 => Nat.le_trans h1 h2) transfer_resizes_le
    (fun _ _ _ _ => Nat.le_refl _) req fuel m

theorem tryPresize_go_entries_perm (req : Int) (fuel : Nat) (m : Map) :
    (entries (tryPresize.go req fuel m)).Perm (entries m) :=
  tryPresize_go_rel (fun a b => (entries b).Perm (entries a)) (fun _ => List.Perm.refl _)
    (fun _ _ _ h1 h2 => h2.trans h1) transfer_entries_perm
    (fun m cap sc h => by
      rw [entries_of_tableLen_zero h, entries_emptyTable (n := cap) rfl]) req fuel m

theorem tryPresize_hash (size : Nat) (m : Map) : (tryPresize size m).hash = m.hash :=
  tryPresize_go_hash _ _ _
theorem tryPresize_count (size : Nat) (m : Map) : (tryPresize size m).count = m.count :=
  tryPresize_go_count _ _ _
theorem tryPresize_tableLen_le (size : Nat) (m : Map) : tableLen m ≤ tableLen (tryPresize size m) :=
  tryPresize_go_tableLen_le _ _ _
theorem tryPresize_resizes_le (size : Nat) (m : Map) : m.resizes ≤ (tryPresize size m).resizes :=
  tryPresize_go_resizes_le _ _ _
theorem tryPresize_entries_perm (size : Nat) (m : Map) :
    (entries (tryPresize size m)).Perm (entries m) :=
  tryPresize_go_entries_perm _ _ _

/-! ## the loop on a well-formed state -/

/-- the result of the loop: well formed, same lookups, and the exit test holds -/
def PresizePost (req : Int) (m r : Map) : Prop :=
  WF r ∧ Same m r ∧ ∃ t', r.table = some t' ∧ tryPresizeDone req r.sizeCtl t'.length = true

/-- with a table: every round doubles the length, so `2^30 < len * 2^fuel` is enough fuel -/
theorem tryPresize_go_spec_some (req : Int) (fuel : Nat) : ∀ (m : Map) (t : Table), WF m →
    m.table = some t → MAXIMUM_CAPACITY < t.length * 2 ^ fuel →
    PresizePost req m (tryPresize.go req fuel m) := by
  induction fuel with
  | zero =>
    intro m t hw ht hf
    have := (hw.preWF ht).twf.2.1
    omega
  | succ f ih =>
    intro m t hw ht hf
    have hp := hw.preWF ht
    have hpos := hp.twf.length_pos
    simp only [tryPresize.go, tableLen_of_some ht]
    split
    next hneg => have := hp.sizeCtl_pos; omega
    next =>
      split
      next h0 => simp only [beq_iff_eq] at h0; omega
      next =>
        split
        next hd => exact ⟨hw, Same.refl m, t, ht, hd⟩
        next hd =>
          have hlt : t.length < MAXIMUM_CAPACITY := by
            have := mt (C14.reserve_done_iff req m.sizeCtl t.length).2 hd
            omega
          have hf' : MAXIMUM_CAPACITY < (transferTable t).length * 2 ^ f := by
            have : 2 * t.length * 2 ^ f = t.length * 2 ^ (f + 1) := by
              rw [Nat.pow_succ]; ac_rfl
            rw [transferTable_length, this]; exact hf
          obtain ⟨w, s, d⟩ := ih (transfer m) _ (transfer_wf hw ht hlt) (transfer_table ht) hf'
          exact ⟨w, (transfer_same ht hp.twf).trans s, d⟩

/-- a rounded request: a power of two `≤ 2^30` -/
def ReqOk (req : Int) : Prop := ∃ n, req = Int.ofNat n ∧ IsPow2 n ∧ n ≤ MAXIMUM_CAPACITY

theorem tryPresizeCap_reqOk (size : Nat) : ReqOk (tryPresizeCap size) := by
  obtain ⟨k, hk, _⟩ := presizeCap_pow2 size
  exact ⟨presizeCap size, tryPresizeCap_eq size, ⟨k, hk⟩, C14.table_size_le_max size⟩

theorem tryPresizeInitCap_ok {req sc : Int} (hr : ReqOk req) (hs : SizeCtlInit sc) :
    IsPow2 (tryPresizeInitCap req sc) ∧ tryPresizeInitCap req sc ≤ MAXIMUM_CAPACITY := by
  obtain ⟨n, rfl, hp, hm⟩ := hr
  have hn := isPow2_pos hp
  simp only [tryPresizeInitCap, Int.ofNat_eq_natCast]
  rcases Int.le_total sc (n : Int) with h | h
  · rw [Int.max_eq_left h, Int.toNat_natCast]; exact ⟨hp, hm⟩
  · rw [Int.max_eq_right h]
    rcases hs with rfl | hs
    · omega
    · exact hs

/-- without a table: one round allocates it -/
theorem tryPresize_go_spec_none {req : Int} (hr : ReqOk req) (fuel : Nat) (m : Map) (hw : WF m)
    (ht : m.table = none) (hi : SizeCtlInit m.sizeCtl) (hf : MAXIMUM_CAPACITY < 2 ^ fuel) :
    PresizePost req m (tryPresize.go req (fuel + 1) m) := by
  obtain ⟨hc, hsc⟩ := (wf_none_iff ht).1 hw
  obtain ⟨hp, hm⟩ := tryPresizeInitCap_ok hr hi
  have hpos := isPow2_pos hp
  simp only [tryPresize.go, tableLen_of_none ht]
  rw [if_neg (by omega)]
  simp only [beq_self_eq_true, ↓reduceIte]
  generalize hcap : tryPresizeInitCap req m.sizeCtl = cap at *
  have hw1 : WF { m with table := some (emptyTable cap), sizeCtl := tryPresizeThreshold cap } := by
    refine (wf_some_iff rfl).2 ⟨tableWF_emptyTable _ hp hm, ?_, ?_, Or.inl ?_⟩
    · rw [entries_emptyTable rfl]; exact hc
    · simp only [emptyTable_length, tryPresizeThreshold]
    · show m.count < tryPresizeThreshold cap
      rw [hc]; exact loadFactor_pos hpos
  have hs1 : Same m { m with table := some (emptyTable cap), sizeCtl := tryPresizeThreshold cap } :=
    ⟨rfl, fun k => by rw [get_of_table_none ht, get_emptyTable rfl],
      by rw [entries_of_table_none ht, entries_emptyTable rfl]⟩
  have hf1 : MAXIMUM_CAPACITY < (emptyTable cap).length * 2 ^ fuel := by
    rw [emptyTable_length]
    calc MAXIMUM_CAPACITY < 1 * 2 ^ fuel := by omega
      _ ≤ cap * 2 ^ fuel := Nat.mul_le_mul_right _ hpos
  obtain ⟨w, s, d⟩ := tryPresize_go_spec_some req fuel _ _ hw1 rfl hf1
  exact ⟨w, hs1.trans s, d⟩

/-- **T4**: `tryPresize` on a well-formed state. 64 rounds are enough: the result satisfies the
exit test of the loop (`requested ≤ sizeCtl` or the maximum length is reached). -/
theorem tryPresize_spec (size : Nat) {m : Map} (hw : WF m) (hi : InitOk m) :
    WF (tryPresize size m) ∧ Same m (tryPresize size m) ∧
    (tryPresize size m).count = m.count ∧
    ∃ t', (tryPresize size m).table = some t' ∧
      tryPresizeDone (tryPresizeCap size) (tryPresize size m).sizeCtl t'.length = true := by
  have key : PresizePost (tryPresizeCap size) m (tryPresize size m) := by
    unfold tryPresize
    cases ht : m.table with
    | none =>
      exact tryPresize_go_spec_none (tryPresizeCap_reqOk size) 63 m hw ht (hi ht)
        (by rw [max_cap_eq]; decide)
    | some t =>
      refine tryPresize_go_spec_some _ 64 m t hw ht ?_
      have := (hw.preWF ht).twf.length_pos
      rw [max_cap_eq]
      calc 2 ^ 30 < 1 * 2 ^ 64 := by decide
        _ ≤ t.length * 2 ^ 64 := Nat.mul_le_mul_right _ this
  exact ⟨key.1, key.2.1, tryPresize_count size m, key.2.2⟩

theorem tryPresize_wf (size : Nat) {m : Map} (hw : WF m) (hi : InitOk m) : WF (tryPresize size m) :=
  (tryPresize_spec size hw hi).1

theorem tryPresize_same (size : Nat) {m : Map} (hw : WF m) (hi : InitOk m) :
    Same m (tryPresize size m) := (tryPresize_spec size hw hi).2.1

/-- after `tryPresize` the table exists (so `InitOk` holds trivially) -/
theorem tryPresize_initOk (size : Nat) {m : Map} (hw : WF m) (hi : InitOk m) :
    InitOk (tryPresize size m) := by
  obtain ⟨_, _, _, t', ht', _⟩ := tryPresize_spec size hw hi
  exact InitOk.of_some ht'

/-- room as requested (`size < 2^29`): the threshold is above `size` afterwards -/
theorem tryPresize_room (size : Nat) {m : Map} (hw : WF m) (hi : InitOk m)
    (hs : size < MAXIMUM_CAPACITY / 2) :
    (size : Int) < (tryPresize size m).sizeCtl ∨ tableLen (tryPresize size m) = MAXIMUM_CAPACITY := by
  obtain ⟨w, _, _, t', ht', hd⟩ := tryPresize_spec size hw hi
  rcases (C14.reserve_done_iff _ _ _).1 hd with h | h
  · exact Or.inl (C14.reserve_room size hs _ h)
  · right
    have := (w.preWF ht').twf.2.1
    rw [tableLen_of_some ht']; omega

/-- `reserve` -/
theorem reserve_spec (additional : Nat) {m : Map} (hw : WF m) (hi : InitOk m) :
    WF (reserve additional m) ∧ Same m (reserve additional m) ∧
    (reserve additional m).count = m.count ∧ tableLen m ≤ tableLen (reserve additional m) ∧
    m.resizes ≤ (reserve additional m).resizes := by
  unfold reserve
  exact ⟨tryPresize_wf _ hw hi, tryPresize_same _ hw hi, tryPresize_count _ _,
    tryPresize_tableLen_le _ _, tryPresize_resizes_le _ _⟩

/-! ## `treeifyBin` -/

/-- the list → tree conversion of one bin -/
theorem treeify_set_spec {m : Map} {t : Table} {i : Nat} {ns : List Node} (hw : WF m)
    (ht : m.table = some t) (hb : tableBin t i = .list ns) :
    let r : Map := { m with table := some (t.set i (.tree (RB.ofList ns) ns)) }
    WF r ∧ Same m r := by
  intro r
  obtain ⟨htw, hc, hs, hlt⟩ := (wf_some_iff ht).1 hw
  have hbw : BinWF m.hash t.length i (.list ns) := by rw [← hb]; exact htw.bin i
  have hnodes : (Bin.tree (RB.ofList ns) ns).nodes = (tableBin t i).nodes := by rw [hb]; rfl
  have hent : entries r = entries m := by
    rw [entries_eq (m := r) rfl, entries_eq ht, flatMap_nodes_set_same hnodes]
  have htw' : TableWF r.hash (t.set i (.tree (RB.ofList ns) ns)) := tableWF_set htw (treeify_wf hbw)
  have hwr : WF r := by
    refine (wf_some_iff rfl).2 ⟨htw', ?_, ?_, ?_⟩
    · rw [hent]; exact hc
    · rw [table_length_set]; exact hs
    · rw [table_length_set]; exact hlt
  refine ⟨hwr, rfl, ?_, by rw [hent]⟩
  exact get_eq_of_perm ht rfl htw htw' (by rw [hent])

/-- **T4**: `treeifyBin` -/
theorem treeifyBin_spec (i : Nat) {m : Map} (hw : WF m) :
    WF (treeifyBin i m) ∧ Same m (treeifyBin i m) ∧ (treeifyBin i m).count = m.count ∧
    tableLen m ≤ tableLen (treeifyBin i m) ∧ m.resizes ≤ (treeifyBin i m).resizes := by
  unfold treeifyBin
  cases ht : m.table with
  | none => exact ⟨hw, Same.refl m, rfl, Nat.le_refl _, Nat.le_refl _⟩
  | some t =>
    simp only
    split
    · have hi := InitOk.of_some ht
      exact ⟨tryPresize_wf _ hw hi, tryPresize_same _ hw hi, tryPresize_count _ _,
        tryPresize_tableLen_le _ _, tryPresize_resizes_le _ _⟩
    · split
      next ns hb =>
        obtain ⟨w, s⟩ := treeify_set_spec hw ht hb
        refine ⟨w, s, rfl, ?_, Nat.le_refl _⟩
        simp only [tableLen, ht, table_length_set]; exact Nat.le_refl _
      next => exact ⟨hw, Same.refl m, rfl, Nat.le_refl _, Nat.le_refl _⟩

theorem treeifyBin_wf (i : Nat) {m : Map} (hw : WF m) : WF (treeifyBin i m) :=
  (treeifyBin_spec i hw).1

theorem treeifyBin_same (i : Nat) {m : Map} (hw : WF m) : Same m (treeifyBin i m) :=
  (treeifyBin_spec i hw).2.1

theorem treeifyBin_hash (i : Nat) (m : Map) : (treeifyBin i m).hash = m.hash := by
  unfold treeifyBin
  split
  · rfl
  · split
    · exact tryPresize_hash _ _
    · split <;> rfl

theorem treeifyBin_count (i : Nat) (m : Map) : (treeifyBin i m).count = m.count := by
  unfold treeifyBin
  split
  · rfl
  · split
    · exact tryPresize_count _ _
    · split <;> rfl

/-- `treeifyBin` never shrinks the table (no hypothesis needed) -/
theorem treeifyBin_tableLen_le (i : Nat) (m : Map) : tableLen m ≤ tableLen (treeifyBin i m) := by
  unfold treeifyBin
  split
  · exact Nat.le_refl _
  next t ht =>
    split
    · exact tryPresize_tableLen_le _ _
    · split
      · simp only [tableLen, ht, table_length_set]; exact Nat.le_refl _
      · exact Nat.le_refl _

theorem treeifyBin_resizes_le (i : Nat) (m : Map) : m.resizes ≤ (treeifyBin i m).resizes := by
  unfold treeifyBin
  split
  · exact Nat.le_refl _
  · split
    · exact tryPresize_resizes_le _ _
    · split <;> exact Nat.le_refl _

/-- when the table is long enough the length does not change at all -/
theorem treeifyBin_table_length {i : Nat} {m : Map} {t : Table} (ht : m.table = some t)
    (hbig : treeifyTooSmall t.length = false) :
    ∃ t', (treeifyBin i m).table = some t' ∧ t'.length = t.length ∧
      (treeifyBin i m).sizeCtl = m.sizeCtl ∧ (treeifyBin i m).resizes = m.resizes := by
  unfold treeifyBin
  simp only [ht, hbig, Bool.false_eq_true, ↓reduceIte]
  split
  · exact ⟨_, rfl, table_length_set _ _ _, rfl, rfl⟩
  · exact ⟨t, ht, rfl, rfl, rfl⟩

/-- the table exists after `treeifyBin` if it existed before -/
theorem treeifyBin_initOk (i : Nat) {m : Map} {t : Table} (hw : WF m) (ht : m.table = some t) :
    ∃ t', (treeifyBin i m).table = some t' := by
  unfold treeifyBin
  simp only [ht]
  split
  · obtain ⟨_, _, _, t', ht', _⟩ := tryPresize_spec (treeifyPresizeArg t.length) hw (InitOk.of_some ht)
    exact ⟨t', ht'⟩
  · split
    · exact ⟨_, rfl⟩
    · exact ⟨t, ht⟩

end Flurry.Seq
