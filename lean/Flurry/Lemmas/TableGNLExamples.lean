import Flurry.Lemmas.TableGNL
import Flurry.Lemmas.TableGNExamples
/-! # Proto/TableGN, C05 / C11 / C12 at table level: kernel-checked instances (`decide`)

The run of `Lemmas/TableGNExamples.lean` (two lineages, two threads; lineage 0: keys 0, 2, 4, 6, a tree bin that is
transferred by a resize; lineage 1: keys 1, 3, still at generation 0).

* `example_end`: its end — reachable, quiescent; the iterator over the table yields the keys 0, 4 | 2, 6 (lineage 0,
  cells `(1, 0)` = `TreeBin` 1 and `(1, 1)` = a list: local keys 0, 2 | 1, 3) and nothing in lineage 1;
* `example_busy`: its middle (`exBefore ++ exResizeA`) — thread 0 is in the middle of the transfer of the tree bin of
  lineage 0 (`xUnlock`, holding the mutex of the old `TreeBin`), thread 1 is a reader inside that old `TreeBin`
  (`rTree 0`, holding its read lock); not quiescent; the entries on the live lists are the abstract map;
* `example_busy_solo`: from there the reader, running alone, returns `get 2 = some (20, 200)` in 3 table steps, while
  lineage 1 only ticks (clock 50 → 53). -/
namespace Flurry.Proto.TableGNL
open Flurry.Lin Flurry.LinMap Flurry.Proto.TableGN
open Flurry.Proto.BinG (Cell)

def exEndCheck : Bool :=
  match run (init 2 2) exSchedule with
  | some S =>
    S.bins.all (fun b => b.threads.all (fun l => l.pc == .idle)) &&
      entries S == [(0, (10, 100)), (4, (40, 400)), (2, (20, 200)), (6, (60, 600))] &&
      S.bins.map BinGNQ.liveCells == [[.tree 1, .list 8], [.empty]] &&
      (List.range 8).map (absMap S) == exAbs
  | none => false

set_option maxRecDepth 8192 in
theorem exEndCheck_true : exEndCheck = true := by decide

theorem example_end : ∃ S : State, Reachable 2 2 S ∧ quiescent S ∧
    entries S = [(0, (10, 100)), (4, (40, 400)), (2, (20, 200)), (6, (60, 600))] ∧
    S.bins.map BinGNQ.liveCells = [[.tree 1, .list 8], [.empty]] ∧ (List.range 8).map (absMap S) = exAbs := by
  have h := exEndCheck_true
  unfold exEndCheck at h
  cases hrun : run (init 2 2) exSchedule with
  | none => rw [hrun] at h; cases h
  | some S =>
    rw [hrun] at h
    simp only [Bool.and_eq_true, List.all_eq_true, beq_iff_eq] at h
    obtain ⟨⟨⟨hq, he⟩, hl⟩, ha⟩ := h
    exact ⟨S, run_reachable exSchedule Reachable.init hrun, fun b hb l hl => hq b hb l hl, he, hl, ha⟩

/-- the middle of the run: a resize of lineage 0 in progress, a reader inside the old `TreeBin` -/
def busyState : Option State := run (init 2 2) (exBefore ++ exResizeA)

def exBusyCheck : Bool :=
  match busyState with
  | some S =>
    pcs S == [[.xUnlock (.inr 0), .rTree 0], [.idle, .idle]] &&
      entries S == [(0, (10, 100)), (4, (40, 400)), (2, (20, 200)), (1, (11, 101))] &&
      (List.range 8).map (absMap S) ==
        [some (10, 100), some (11, 101), some (20, 200), none, some (40, 400), none, none, none] &&
      (S.bins[0]?).map (fun b => (b.threads[1]?, BinGNP.soloBound b)) ==
        some (some { pc := .rTree 0, call := some ⟨1, .get, 36⟩ }, 48)
  | none => false

set_option maxRecDepth 8192 in
theorem exBusyCheck_true : exBusyCheck = true := by decide

theorem example_busy : ∃ S : State, busyState = some S ∧ Reachable 2 2 S ∧
    pcs S = [[.xUnlock (.inr 0), .rTree 0], [.idle, .idle]] ∧
    entries S = [(0, (10, 100)), (4, (40, 400)), (2, (20, 200)), (1, (11, 101))] ∧
    (List.range 8).map (absMap S) =
      [some (10, 100), some (11, 101), some (20, 200), none, some (40, 400), none, none, none] ∧
    (S.bins[0]?).map (fun b => (b.threads[1]?, BinGNP.soloBound b)) =
      some (some { pc := .rTree 0, call := some ⟨1, .get, 36⟩ }, 48) := by
  have h := exBusyCheck_true
  unfold exBusyCheck at h
  cases hrun : busyState with
  | none => rw [hrun] at h; cases h
  | some S =>
    rw [hrun] at h
    simp only [Bool.and_eq_true, beq_iff_eq] at h
    obtain ⟨⟨⟨hp, he⟩, ha⟩, hb⟩ := h
    exact ⟨S, rfl, run_reachable _ Reachable.init hrun, hp, he, ha, hb⟩

/-- running alone from `busyState`, the reader (thread 1, lineage 0) returns `get 2 = some (20, 200)` in 3 steps — the
call is recorded in the lineage under the local key `1` — while the resizing thread stays at `xUnlock` and lineage 1
only ticks (clock 50 → 53) -/
def exSoloCheck : Bool :=
  (busyState.bind fun S => (runSolo 0 1 false false 3 S).map fun S' =>
      ((S'.bins[0]?).map (fun b => (b.threads.map (·.pc), b.hist.head?)),
        (S.bins[1]?).map (fun b => (b.threads.map (·.pc), b.now)),
        (S'.bins[1]?).map (fun b => (b.threads.map (·.pc), b.now)))) ==
    some (some ([.xUnlock (.inr 0), .idle], some (1, { tid := 1, op := .get, res := .some 20 200, inv := 36, resp := 53 })),
      some ([.idle, .idle], 50), some ([.idle, .idle], 53))

set_option maxRecDepth 8192 in
theorem example_busy_solo : exSoloCheck = true := by decide

end Flurry.Proto.TableGNL
