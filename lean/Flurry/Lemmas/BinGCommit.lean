import Flurry.Lemmas.BinGQuiescent
/-! # Proto/BinG: a started resize is committed or still at work (C05: no half-finished resize)

`Committed s`: if the resize has been started (`resizing`), the table pointer is the next table, or
some thread is still the resizing thread (`xPc`). Proved for every reachable state by induction over
the transitions in normal form (`StepN`): only `resizeStart` sets `resizing` (the thread becomes the
resizing thread), the resizing thread stays the resizing thread until `xcommit`, which publishes the
next table; nothing ever resets the table pointer. With `XInv` / `HInv` this gives, at quiescence:
`resizing ↔ cell0 = moved ↔ cur = new`, and before the resize both cells of the next table are empty. -/
namespace Flurry.Proto.BinG
open Flurry.Lin
open Flurry.Proto.BinK (nodeAt binAt get_set get_set_ne)

def Committed (s : State) : Prop :=
  s.resizing = true → s.cur = .new ∨ ∃ (t : Nat) (l : Local), s.threads[t]? = some l ∧ xPc l.pc = true

/-- what a transition does to the table pointer, the resize flag and the role of the acting thread -/
def Ctl (s : State) (t : Nat) (l : Local) (s' : State) : Prop :=
  ∃ l', s'.threads = s.threads.set t l' ∧ (s.cur = .new → s'.cur = .new) ∧
    (s'.resizing = true → s.resizing = true ∨ xPc l'.pc = true) ∧
    (xPc l.pc = true → l.call = none → xPc l'.pc = true ∨ s'.cur = .new)

namespace Commit

theorem keep {s s' : State} {t : Nat} {l : Local} (l' : Local) (hthr : s'.threads = s.threads.set t l')
    (hcur : s'.cur = s.cur) (hres : s'.resizing = s.resizing)
    (hx : xPc l.pc = true → l.call = none → xPc l'.pc = true) : Ctl s t l s' :=
  ⟨l', hthr, fun h => by rw [hcur]; exact h, fun h => Or.inl (by rw [← hres]; exact h),
    fun h1 h2 => Or.inl (hx h1 h2)⟩

theorem kmove_xpc {s : State} {t : Nat} {pc pc' : Pc} {hp : List NodeS} (h : KMove s t pc pc' hp) :
    xPc pc = true → xPc pc' = true := by
  cases h <;> intro hx <;> first | rfl | cases hx

theorem kbmove_xpc {s : State} {t : Nat} {pc pc' : Pc} {tb : List TBin} (h : KBMove s t pc pc' tb) :
    xPc pc = true → xPc pc' = true := by
  cases h <;> intro hx <;> first | rfl | cases hx

theorem storeAt_ctl (s : State) (tab : Tab) (p : Pending) (pred hit hnext : Option Nat) :
    (storeAt s tab p pred hit hnext).1.cur = s.cur ∧ (storeAt s tab p pred hit hnext).1.resizing = s.resizing := by
  unfold storeAt
  cases p.op <;> cases hit <;> cases pred <;>
    simp only [setNode, FactsL.setCell_cur, FactsL.setCell_resizing, and_self]

theorem unlinkOf_ctl (s : State) (b i : Nat) :
    (unlinkOf s b i).cur = s.cur ∧ (unlinkOf s b i).resizing = s.resizing := by
  unfold unlinkOf
  split <;> exact ⟨rfl, rfl⟩

theorem ysplitOf_ctl (s : State) (b : Nat) (small small2 : Bool) :
    (ysplitOf s b small small2).1.cur = s.cur ∧ (ysplitOf s b small small2).1.resizing = s.resizing := by
  unfold ysplitOf
  dsimp only
  have f1 := splitSide_frame s b (lowOf s b) small (highOf s b).isEmpty
  have f2 := splitSide_frame (splitSide s b (lowOf s b) small (highOf s b).isEmpty).1 b (highOf s b) small2
    (lowOf s b).isEmpty
  have f := frame_trans f1 f2
  rw [f]
  exact ⟨rfl, rfl⟩

end Commit

open Commit in
theorem StepN.ctl {s s' : State} {t : Nat} {l : Local} (h : StepN s t l s') : Ctl s t l s' := by
  cases h with
  | idle h => exact keep l rfl rfl rfl (fun hx _ => hx)
  | maint k h => exact keep _ rfl rfl rfl (fun hx _ => by rw [h] at hx; cases hx)
  | resizeStart h _ => exact ⟨_, rfl, fun h => h, fun _ => Or.inr rfl, fun hx _ => by rw [h] at hx; cases hx⟩
  | invoke k op lo h => exact keep _ rfl rfl rfl (fun hx _ => by rw [h] at hx; cases hx)
  | move p pc' hp hc _ => exact keep _ rfl rfl rfl (fun _ hn => by rw [hc] at hn; cases hn)
  | bmove p pc' tb hc _ => exact keep _ rfl rfl rfl (fun _ hn => by rw [hc] at hn; cases hn)
  | kmove pc' hp hc hm => exact keep _ rfl rfl rfl (fun hx _ => kmove_xpc hm hx)
  | kbmove pc' tb hc hm => exact keep _ rfl rfl rfl (fun hx _ => kbmove_xpc hm hx)
  | fin p res hp hc _ => exact keep _ rfl rfl rfl (fun _ hn => by rw [hc] at hn; cases hn)
  | bfin p res tb hc _ => exact keep _ rfl rfl rfl (fun _ hn => by rw [hc] at hn; cases hn)
  | cas p tab v vi hc _ _ _ =>
    refine keep _ (FactsL.finish_setCell_threads _ _ _ _ _ _ _) ?_ ?_ (fun _ hn => by rw [hc] at hn; cases hn)
    · show (setCell _ tab p.key _).cur = _
      rw [FactsL.setCell_cur]; rfl
    · show (setCell _ tab p.key _).resizing = _
      rw [FactsL.setCell_resizing]; rfl
  | store p tab h pred hit hnext hc _ =>
    refine keep { l with pc := .wUnlock tab h (storeAt (tick s) tab p pred hit hnext).2 false } ?_ ?_ ?_
      (fun _ hn => by rw [hc] at hn; cases hn)
    · show ((storeAt (tick s) tab p pred hit hnext).1.threads).set t _ = _
      rw [(storeAt_frame (tick s) tab p pred hit hnext).1]; rfl
    · show (storeAt (tick s) tab p pred hit hnext).1.cur = _
      rw [(storeAt_ctl (tick s) tab p pred hit hnext).1]; rfl
    · show (storeAt (tick s) tab p pred hit hnext).1.resizing = _
      rw [(storeAt_ctl (tick s) tab p pred hit hnext).2]; rfl
  | tval p tab b i v res hc _ => exact keep _ rfl rfl rfl (fun _ hn => by rw [hc] at hn; cases hn)
  | prepend p tab b v vi hc _ _ => exact keep _ rfl rfl rfl (fun _ hn => by rw [hc] at hn; cases hn)
  | treeLink p tab b x hc _ => exact keep _ rfl rfl rfl (fun _ hn => by rw [hc] at hn; cases hn)
  | unlink p tab b i res small hc _ =>
    refine keep { l with pc := if small then .tUntreeify tab b res else .tRestructure tab b i res } ?_ ?_ ?_
      (fun _ hn => by rw [hc] at hn; cases hn)
    · show ((unlinkOf (tick s) b i).threads).set t _ = _
      rw [(unlinkOf_frame (tick s) b i).1]; rfl
    · show (unlinkOf (tick s) b i).cur = _
      rw [(unlinkOf_ctl (tick s) b i).1]; rfl
    · show (unlinkOf (tick s) b i).resizing = _
      rw [(unlinkOf_ctl (tick s) b i).2]; rfl
  | untree p tab b i res hc _ => exact keep _ rfl rfl rfl (fun _ hn => by rw [hc] at hn; cases hn)
  | untreeify p tab b res hc _ =>
    refine keep { l with pc := .tUnlockM tab b res false } ?_ ?_ ?_ (fun _ hn => by rw [hc] at hn; cases hn)
    · show ((untreeifyOf (tick s) tab p.key b).threads).set t _ = _
      rw [(untreeifyOf_frame (tick s) tab p.key b).1]; rfl
    · show (setCell _ tab p.key _).cur = _
      rw [FactsL.setCell_cur]; rfl
    · show (setCell _ tab p.key _).resizing = _
      rw [FactsL.setCell_resizing]; rfl
  | kbuild tab k h hc hpc => exact keep _ rfl rfl rfl (fun hx _ => by rw [hpc] at hx; cases hx)
  | kstore tab k h b hc hpc =>
    refine keep { l with pc := .kUnlock h } ?_ ?_ ?_ (fun hx _ => by rw [hpc] at hx; cases hx)
    · show ((setCell (tick s) tab k (.tree b)).threads).set t _ = _
      rw [setCell_threads']; rfl
    · show (setCell (tick s) tab k (.tree b)).cur = _
      rw [FactsL.setCell_cur]; rfl
    · show (setCell (tick s) tab k (.tree b)).resizing = _
      rw [FactsL.setCell_resizing]; rfl
  | xcasMoved hc _ _ => exact keep _ rfl rfl rfl (fun _ _ => rfl)
  | xbuild h hc _ => exact keep _ rfl rfl rfl (fun _ _ => rfl)
  | ybuild b small small2 hc _ =>
    refine keep { l with pc := (.xStoreLow (.inr b) (ysplitOf (tick s) b small small2).2.1
      (ysplitOf (tick s) b small small2).2.2 : Pc) } ?_ ?_ ?_ (fun _ _ => rfl)
    · show ((ysplitOf (tick s) b small small2).1.threads).set t _ = _
      rw [(ysplitOf_frame (tick s) b small small2).1]; rfl
    · show (ysplitOf (tick s) b small small2).1.cur = _
      rw [(ysplitOf_ctl (tick s) b small small2).1]; rfl
    · show (ysplitOf (tick s) b small small2).1.resizing = _
      rw [(ysplitOf_ctl (tick s) b small small2).2]; rfl
  | xstoreLow unl lo hi hc _ => exact keep _ rfl rfl rfl (fun _ _ => rfl)
  | xstoreHigh unl hi hc _ => exact keep _ rfl rfl rfl (fun _ _ => rfl)
  | xstoreMoved unl hc _ => exact keep _ rfl rfl rfl (fun _ _ => rfl)
  | xcommit hc _ =>
    exact ⟨{ l with pc := .idle }, rfl, fun _ => rfl, fun h => Or.inl h, fun _ _ => Or.inr rfl⟩

theorem init_committed (n : Nat) : Committed (init n) := by
  intro h
  cases h

theorem step_committed {s s' : State} {t : Nat} {inv : Option (Nat × KOp)} {lo : Bool}
    {mt : Option Nat} {rz sm sm2 : Bool} (I : Inv s) (J : Committed s)
    (hs : step s t inv lo mt rz sm sm2 = some s') : Committed s' := by
  cases hl : s.threads[t]? with
  | none =>
    unfold step stepG at hs
    simp only [hl] at hs
    cases hs
  | some l =>
    obtain ⟨l', hthr, hcur, hres, hx⟩ := (step_stepN hl hs).ctl
    have ht : t < s.threads.length := (List.getElem?_eq_some_iff.1 hl).1
    have hl' : s'.threads[t]? = some l' := by
      rw [hthr, List.getElem?_set_self ht]
    intro hr'
    rcases hres hr' with hr | hxl'
    · rcases J hr with hc | ⟨t0, l0, h0, hx0⟩
      · exact Or.inl (hcur hc)
      · by_cases ht0 : t0 = t
        · subst ht0
          rw [hl] at h0
          cases h0
          have hcall : l.call = none := by
            apply (I.thr.callOK t0 l hl).2
            unfold noCallPc
            rw [hx0]
            simp
          rcases hx hx0 hcall with h | h
          · exact Or.inr ⟨t0, l', hl', h⟩
          · exact Or.inl h
        · refine Or.inr ⟨t0, l0, ?_, hx0⟩
          rw [hthr, List.getElem?_set_ne (fun e => ht0 e.symm)]
          exact h0
    · exact Or.inr ⟨t, l', hl', hxl'⟩

theorem reachable_committed {n : Nat} {s : State} (hr : Reachable n s) : Committed s := by
  induction hr with
  | init => exact init_committed n
  | step t inv lo mt rz sm sm2 hr hs ih => exact step_committed (reachable_inv hr) ih hs

/-! ## no half-finished resize at quiescence -/

theorem quiescent_no_xpc {s : State} (hq : quiescent s) (t : Nat) (l : Local) (hl : s.threads[t]? = some l) :
    l.pc = .idle := hq l (List.mem_of_getElem? hl)

/-- at quiescence: the resize has been started iff the old cell is forwarded iff the next table is
published; before the resize both cells of the next table are empty; after it neither holds a marker -/
theorem quiescent_resize_all_or_nothing {n : Nat} {s : State} (hr : Reachable n s) (hq : quiescent s) :
    (s.resizing = true ↔ s.cur = .new) ∧ (s.cell0 = .moved ↔ s.cur = .new) ∧
    (s.cur = .old → s.resizing = false ∧ s.cell0 ≠ .moved ∧ s.lowCell = .empty ∧ s.highCell = .empty) ∧
    (s.cur = .new → s.resizing = true ∧ s.cell0 = .moved ∧ s.lowCell ≠ .moved ∧ s.highCell ≠ .moved) := by
  have I := reachable_inv hr
  have J := reachable_committed hr
  have hidle := quiescent_no_xpc hq
  have h1 : s.resizing = true → s.cur = .new := by
    intro h
    rcases J h with hc | ⟨t, l, hl, hx⟩
    · exact hc
    · rw [hidle t l hl] at hx
      cases hx
  have h2 : s.cell0 = .moved → s.resizing = true := by
    intro hm
    cases hres : s.resizing with
    | true => rfl
    | false => exact absurd hm (I.rsz.noResz hres)
  have h3 : s.cur = .new → s.cell0 = .moved := I.heap.curMoved
  refine ⟨⟨h1, fun h => h2 (h3 h)⟩, ⟨fun h => h1 (h2 h), h3⟩, ?_, ?_⟩
  · intro hold
    have hnm : s.cell0 ≠ .moved := by
      intro hm
      have := h1 (h2 hm)
      rw [hold] at this
      cases this
    have hnr : s.resizing = false := by
      cases hres : s.resizing with
      | false => rfl
      | true =>
        have := h1 hres
        rw [hold] at this
        cases this
    refine ⟨hnr, hnm, ?_, ?_⟩
    · apply I.rsz.lowEmpty hnm
      intro t l hl
      rw [hidle t l hl]
      rfl
    · apply I.rsz.highEmpty hnm
      intro t l hl
      rw [hidle t l hl]
      rfl
  · intro hnew
    exact ⟨h2 (h3 hnew), h3 hnew, I.heap.newNotMoved.1, I.heap.newNotMoved.2⟩

end Flurry.Proto.BinG
