import Flurry.Lemmas.BinRBLock
import Flurry.Lemmas.BinRBLin

/-! # C01 (bin level): one list bin is linearizable under every interleaving

(C13 port of `Flurry/Props/C01Bin.lean (without the link to the sequential model)` to the per-key operations of `Flurry/Lin2.lean`, i.e. with `retain`'s conditional removal `condRm`; below, "`Proto/Bin`" / `Base.` is `Flurry.Proto.BinR.Base` (`Proto/BinRBase.lean`) and "`Proto/BinW`" is `Flurry.Proto.BinR` (`Proto/BinR.lean`), which in addition has the `retain` visit steps.)

`Proto/BinRBase.lean` models one list bin with any number of threads performing `get`, `contains_key`,
`insert`, `try_insert`, `remove`, `compute_if_present` (increment / remove), one shared-memory
access per transition. For every reachable state and every key, the history of that key — the
completed calls, plus the calls of writers that have done their store and only have to unlock —
is linearizable from "absent" to the key's current abstract state.

Linearization points: lock-holding writers at their single store (`wWrite`), the lock-free insert
into an empty bin at its successful CAS, writers that see an empty bin at the load of the bin cell,
readers *in hindsight* (`Good`, `Good.step` in `Lemmas/BinGhost.lean`). -/
namespace Flurry.Proto.BinR.Base
open Flurry.Lin2

theorem init_ginv (n k : Nat) : GInv k (init n) (fun _ => none) id := by
  have hthr : ∀ (t : Nat) (l : Local), (init n).threads[t]? = some l → l = {} := by
    intro t l hl
    simp only [init, List.getElem?_replicate] at hl
    split at hl
    · cases hl; rfl
    · cases hl
  have hnil : callsOnExt (init n) k = [] := by
    rw [List.eq_nil_iff_forall_not_mem]
    intro c hc
    rcases mem_callsOnExt.1 hc with hc | ⟨t, l, hl, he⟩
    · simp [init] at hc
    · rw [hthr t l hl] at he
      cases he
  refine ⟨rfl, ?_, ?_, ?_, ?_, ?_⟩
  · symm
    rw [absOf_eq_none_iff]
    intro i hi
    simp [chain, init, chainFrom] at hi
  · intro c hc; rw [hnil] at hc; cases hc
  · intro τ h1 h2
    have : (init n).now = 0 := rfl
    omega
  · intro c hc; rw [hnil] at hc; cases hc
  · intro t l p cur hl hc
    rw [hthr t l hl] at hc
    cases hc

/-- the ghost invariant holds in every reachable state -/
theorem reachable_ginv {n : Nat} {s : State} (hr : Reachable n s) (k : Nat) :
    ∃ A pt, GInv k s A pt := by
  induction hr with
  | init => exact ⟨_, _, init_ginv n k⟩
  | @step s s' t inv hr hs ih =>
    obtain ⟨A, pt, g⟩ := ih
    cases hl : s.threads[t]? with
    | none => unfold step at hs; rw [hl] at hs; cases hs
    | some l => exact ginv_step g (reachable_inv hr) hl (step_stepK hl hs)

/-- from the ghost invariant to linearizability (the trace lemma) -/
theorem GInv.linearizable {k : Nat} {s : State} {A : Nat → KSt} {pt : Nat → Nat}
    (g : GInv k s A pt) (I : Inv s) : Linearizable2 (callsOnExt s k) none (absOf s k) := by
  have h := lin_of_trace (h := callsOnExt s k) A s.now (fun c => pt c.inv) ?_ ?_ ?_ ?_ ?_
  · rw [g.h0, g.hA] at h; exact h
  · intro c hc
    obtain ⟨h1, h2, -, -⟩ := g.calls c hc
    have := callsOnExt_resp_le I.thr hc
    exact ⟨h1, h2, by omega⟩
  · intro c hc hw; exact (g.calls c hc).2.2.2 hw
  · intro c hc hrd; exact (g.calls c hc).2.2.1 hrd
  · refine (callsOnExt_pairwise I.thr k).imp_of_mem ?_
    intro c d hc hd hne hwc hwd hpe
    exact hne (g.inj c hc d hd hwc hwd hpe)
  · intro τ h1 h2 hno
    apply Classical.byContradiction
    intro hne
    obtain ⟨c, hc, hw, hp⟩ := g.stab τ h1 h2 hne
    exact hno c hc hw hp

/-- the writer calls (`insert`, `try_insert`, `remove`, `compute_if_present`) of the extended history -/
def writerCallsOn (s : State) (k : Nat) : History2 := (callsOnExt s k).filter (fun c => !isRead c.op)

/-- writers only: the points are the store steps -/
theorem GInv.linearizable_writers {k : Nat} {s : State} {A : Nat → KSt} {pt : Nat → Nat}
    (g : GInv k s A pt) (I : Inv s) : Linearizable2 (writerCallsOn s k) none (absOf s k) := by
  have hmem : ∀ c, c ∈ writerCallsOn s k ↔ c ∈ callsOnExt s k ∧ isRead c.op = false := by
    intro c; simp [writerCallsOn, List.mem_filter]
  have h := lin_of_trace (h := writerCallsOn s k) A s.now (fun c => pt c.inv) ?_ ?_ ?_ ?_ ?_
  · rw [g.h0, g.hA] at h; exact h
  · intro c hc
    have hc := ((hmem c).1 hc).1
    obtain ⟨h1, h2, -, -⟩ := g.calls c hc
    have := callsOnExt_resp_le I.thr hc
    exact ⟨h1, h2, by omega⟩
  · intro c hc hw; exact (g.calls c ((hmem c).1 hc).1).2.2.2 hw
  · intro c hc hrd; exact (g.calls c ((hmem c).1 hc).1).2.2.1 hrd
  · refine ((callsOnExt_pairwise I.thr k).filter _).imp_of_mem ?_
    intro c d hc hd hne hwc hwd hpe
    exact hne (g.inj c ((hmem c).1 hc).1 d ((hmem d).1 hd).1 hwc hwd hpe)
  · intro τ h1 h2 hno
    apply Classical.byContradiction
    intro hne
    obtain ⟨c, hc, hw, hp⟩ := g.stab τ h1 h2 hne
    exact hno c ((hmem c).2 ⟨hc, hw⟩) hw hp

/-- **writers-only linearizability**: the sub-history of the writer calls on `k` is linearizable from
"absent" to the current abstract state (linearization points = the store steps). -/
theorem bin_linearizable_writers {n : Nat} {s : State} (hr : Reachable n s) (k : Nat) :
    Lin2.Linearizable2 (writerCallsOn s k) none (absOf s k) := by
  obtain ⟨A, pt, g⟩ := reachable_ginv hr k
  exact g.linearizable_writers (reachable_inv hr)

/-- **C01, bin level.** Under every interleaving of any number of threads, the per-key history of
a list bin (completed calls plus stored-but-not-yet-unlocked writers) is linearizable and ends in
the abstract content of the bin. -/
theorem bin_linearizable {n : Nat} {s : State} (hr : Reachable n s) (k : Nat) :
    Lin2.Linearizable2 (callsOnExt s k) none (absOf s k) := by
  obtain ⟨A, pt, g⟩ := reachable_ginv hr k
  exact g.linearizable (reachable_inv hr)

/-- **C01, bin level, quiescent form.** -/
theorem bin_linearizable_quiescent {n : Nat} {s : State} (hr : Reachable n s) (hq : quiescent s) (k : Nat) :
    Lin2.Linearizable2 (callsOn s k) none (absOf s k) := by
  have := bin_linearizable hr k
  rw [callsOnExt_quiescent hq] at this
  exact this

end Flurry.Proto.BinR.Base
