import Flurry.Lemmas.BinWProj
import Flurry.Lemmas.BinWStep
import Flurry.Lemmas.BinWWalk
import Flurry.Lemmas.BinWInv
import Flurry.Lemmas.BinWLin
/-! # Proto/BinW lemmas: summary (main theorems in `Props/C01BinW.lean`, counterexamples for the
variant without the re-check in `Lemmas/BinWExamples.lean`)

Route: forward simulation of `Proto/BinW` by `Proto/Bin` (no re-timing needed: the invariants of
`Proto/Bin` are transferred transition by transition, the walk steps being stutter steps that only
advance the clock, for which `Bin.tinv_keep` / `Bin.linv_generic` / `Bin.ginv_quiet` apply directly).

* `BinWProj.lean`: `proj : BinW.State → Bin.State` (`wFind h _ _`, `wStore h _ _ _ ↦ wWrite h`),
  `proj_setT`, `proj_finish`, `proj_setNode`, `chain_proj`, `absOf_proj`, `callsOn_proj`
* `BinWStep.lean`: `StepW` (the transitions in normal form), `step_stepW`
* `BinWWalk.lean`: `Bin.Frozen`, **`Bin.stepK_frozen`** (while a validated writer exists nobody else
  changes chain, keys or `next` pointers — this is where the lock invariant `Bin.LInv` is used),
  `Walk`, `Walk.start`, `Walk.next`, `Walk.positions`, `WalkOK`, **`storeAt_eq_writerStore`**
* `BinWInv.lean`: `WInv`, **`stepW_proj`** (the simulation), `winv_step`, `reachable_winv`
* `BinWLin.lean`: `callsOnExt`, `callsOnExt_proj`, `ginv_tick`, `ginv_stepW` -/
