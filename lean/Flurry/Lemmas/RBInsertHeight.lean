import Flurry.Lemmas.RBInsertFind
set_option linter.unusedSimpArgs false
/-! # Height of tree bins, cost of a lookup, and the executable invariant checker

Core Lean only. -/
namespace Flurry.RB
open T Ctx Ins

/-! ## height is logarithmic -/

theorem bh_height_size (t : T) (n : Nat) (hb : BH t n) (hr : NoRedRed t) :
    height t ≤ 2 * n + (if isRed t then 1 else 0) ∧ 2 ^ n ≤ size t + 1 := by
  induction hb with
  | nil => simp [height, size]
  | @red l e r n h1 h2 ih1 ih2 =>
    obtain ⟨r1, r2, r3⟩ := hr
    have ⟨a1, a2⟩ := ih1 r2
    have ⟨b1, b2⟩ := ih2 r3
    simp [r1] at a1 b1
    simp only [height, size, isRed_node]
    refine ⟨?_, by omega⟩
    simp; omega
  | @black l e r n h1 h2 ih1 ih2 =>
    obtain ⟨r1, r2, r3⟩ := hr
    have ⟨a1, a2⟩ := ih1 r2
    have ⟨b1, b2⟩ := ih2 r3
    simp only [height, size, isRed_node]
    refine ⟨?_, by rw [Nat.pow_succ]; omega⟩
    have : (if isRed l = true then 1 else 0) ≤ 1 := by split <;> omega
    have : (if isRed r = true then 1 else 0) ≤ 1 := by split <;> omega
    simp; omega

/-- a tree bin with `n` entries has height at most `2 * log2 (n + 1)`, exponential form -/
theorem height_bound_pow (t : T) (hi : TreeInv t) : 2 ^ ((height t + 1) / 2) ≤ size t + 1 := by
  obtain ⟨-, h2, h3, n, h4⟩ := hi
  have ⟨a, b⟩ := bh_height_size t n h4 h3
  simp [h2] at a
  exact Nat.le_trans (Nat.pow_le_pow_right (by decide) (by omega)) b

theorem height_bound (t : T) (hi : TreeInv t) : height t ≤ 2 * Nat.log2 (size t + 1) := by
  obtain ⟨-, h2, h3, n, h4⟩ := hi
  have ⟨a, b⟩ := bh_height_size t n h4 h3
  simp [h2] at a
  have : n ≤ Nat.log2 (size t + 1) := (Nat.le_log2 (by omega)).2 b
  omega

/-- a lookup in a tree bin with `n` entries makes at most `4 * log2 (n + 1)` key comparisons -/
theorem findNode_cost_log (h k : Nat) (t : T) (hi : TreeInv t) :
    (findNode h k t 0).2 ≤ 4 * Nat.log2 (size t + 1) := by
  have := findNode_cost h k t 0
  have := height_bound t hi
  omega

/-! ## the executable checker -/

theorem allB_iff (p : Node → Bool) (t : T) : allB p t = true ↔ All (fun x => p x = true) t := by
  induction t <;> simp_all [allB, All, and_assoc]

theorem bstB_iff (t : T) : bstB t = true ↔ BST t := by
  induction t <;> simp_all [bstB, BST, allB_iff, and_assoc]

theorem noRedRedB_iff (t : T) : noRedRedB t = true ↔ NoRedRed t := by
  induction t with
  | nil => simp [noRedRedB, NoRedRed]
  | node c l e r ihl ihr => cases c <;> simp_all [noRedRedB, NoRedRed, and_assoc]

theorem bhB_iff (t : T) (n : Nat) : bhB t = some n ↔ BH t n := by
  constructor
  · intro h
    induction t generalizing n with
    | nil => simp [bhB] at h; subst h; exact BH.nil
    | node c l e r ihl ihr =>
      unfold bhB at h
      split at h
      next a b ha hb' =>
        split at h
        next hab =>
          simp at hab h; subst hab
          cases c
          · simp at h; subst h; exact BH.black (ihl _ ha) (ihr _ hb')
          · simp at h; subst h; exact BH.red (ihl _ ha) (ihr _ hb')
        · simp at h
      · simp at h
  · intro h
    induction h with
    | nil => rfl
    | red h1 h2 ih1 ih2 => simp [bhB, ih1, ih2]
    | black h1 h2 ih1 ih2 => simp [bhB, ih1, ih2]

theorem treeInvB_iff (t : T) : treeInvB t = true ↔ TreeInv t := by
  simp only [treeInvB, TreeInv, Bool.and_eq_true, bstB_iff, noRedRedB_iff, Bool.not_eq_true',
    Option.isSome_iff_exists, bhB_iff, and_assoc]

/-- `TreeInv` is decidable through the checker (not an instance, to avoid clashes; use
`(treeInvB_iff _).1 (by decide)` or `haveI := decTreeInv t`) -/
def decTreeInv (t : T) : Decidable (TreeInv t) := decidable_of_iff _ (treeInvB_iff t)

/-! ## the hypotheses are satisfiable: concrete trees -/

/-- ten entries with the same hash (a colliding bin) -/
def sampleNodes : List Node :=
  [5, 3, 8, 1, 4, 7, 9, 2, 6, 0].map (fun k => { hash := 17, key := k, ki := k, val := 100 + k, vi := k })

example : sampleNodes.Pairwise (fun a b => ¬(a.hash = b.hash ∧ a.key = b.key)) := by decide
example : TreeInv (ofList sampleNodes) := (treeInvB_iff _).1 (by decide)
example : height (ofList sampleNodes) = 4 ∧ size (ofList sampleNodes) = 10 := by decide
example : (find 17 6 (ofList sampleNodes)).map (·.val) = some 106 := by decide
example : find 17 11 (ofList sampleNodes) = none := by decide
example : ∀ x ∈ toList (ofList sampleNodes), ¬(x.hash = 17 ∧ x.key = 11) := by decide
example : TreeInv (insertNew (ofList sampleNodes) { hash := 17, key := 11, ki := 0, val := 0, vi := 0 }) :=
  (treeInvB_iff _).1 (by decide)
/-- ascending insertion (the worst case for an unbalanced tree) with mixed hashes -/
example : TreeInv (ofList ((List.range 16).map (fun k => { hash := k / 4, key := k, ki := k, val := k, vi := k }))) :=
  (treeInvB_iff _).1 (by decide)

end Flurry.RB
