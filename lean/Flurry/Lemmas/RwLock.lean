import Flurry.Lemmas.RwLockBasic
import Flurry.Lemmas.RwLockInv
import Flurry.Lemmas.RwLockThms
import Flurry.Lemmas.RwLockProgress
import Flurry.Lemmas.RwLockDrain
import Flurry.Lemmas.RwLockRuns
/-! # Lemmas/RwLock: theorems about the tree-bin reader/writer lock model `Proto/RwLock`

* `RwLockBasic`    counting lemmas (`cnt`, `cnt_set`, `numHolding_set`), `writerHolds`, `waiterBit`,
                   the inductive invariant `Inv` (= lock-word equation + per-writer-pc facts `WInv`
                   + per-reader-pc facts `RInv`)
* `RwLockInv`      `inv_init`, `inv_stepWriter`, `inv_stepReader`, `inv_of_reachable`
* `RwLockThms`     `lockState_eq`, `waiterSet_iff`, `mutual_exclusion`, `no_lost_wakeup`,
                   `reader_always_enabled`, `stepWriter_eq_none_iff`, `deadlock_free`, `not_stuck`
* `RwLockProgress` `park_token_when_readers_done`, `wake_progress` (measure `μ`),
                   `token_set_only_by_unpark`, `unpark_only_when_published`, `loadWaiter_only_last_reader`
* `RwLockDrain`    `readers_can_drain`, `writer_eventually_enabled`
* `RwLockRuns`     `run`, `reachable_run`, and concrete schedules checked by `decide`
                   (park + wake-up, the casWaiter/publish window, a stale token) -/
