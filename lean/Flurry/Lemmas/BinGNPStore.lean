import Flurry.Lemmas.BinGNPGhost
/-! # Proto/BinGN (port of `Lemmas/BinGStore.lean`): the stores into the structure of ONE cell, at the level of states

A store goes into the structure (list / `TreeBin`) of one cell `id : Cid = (g, j)`; all other cells are the FRAME.
§1–§3 are the BinG file with the substitutions of the port; §0 is new. What differs from `Lemmas/BinGStore.lean`:

* `Writable s id` (re-defined): `act` — `id` is live: `id.1 = s.cur` and the cell is not forwarded, or
  `id.1 = s.cur + 1` and its parent `(s.cur, id.2 % 2^s.cur)` is forwarded; `noPlan` — the transfer of `id` itself has
  no pending structures (a thread with `xIdx = some id.2`, when `id.1 = s.cur`, has `pend = []`, i.e. is not at
  `xStoreLow/High/Moved`); `noPriv` — a `TreeBin` in cell `id` is not `PrivBin` (what `LInv.refOK` says for the
  `TreeBin` a tree-bin writer refers to). A transfer of ANOTHER cell of generation `cur` may have pending structures.
* all consequences of `Writable` and the lemmas that use them take `X : XInv s` in addition to `H : HInv s`
  (`XInv.old`, `nextEmpty`, `newNotMoved`, `pre`, `idx`, `len`, `rows` replace `HInv.curMoved/newNotMoved` and the
  three-cell case analysis).
* `Writable.other_cases`: the third alternative is `∀ k, k % 2^id'.1 = id'.2 → k % 2^id.1 ≠ id.2` (no key lives in both).
* `Writable.not_privX` is FALSE in BinGN for arbitrary nodes (the transfer of another cell may be past its build while
  `id` is written); it is replaced by `Writable.pend_frame` (a pending structure of a transfer shares no node and no
  `TreeBin` with the structure of `id`, and its old cell is not `id`) and `Writable.not_privX : j ∈ chain of id → ¬ PrivX s j`.
* `Writable.liveId_iff : liveId s k = id ↔ k % 2^id.1 = id.2`.
* `Writable.moved_iff` / every `hmv` / `hnm` hypothesis: `∀ id', cellAt s' id' = .moved ↔ cellAt s id' = .moved`
  (BinG: `s'.cell0 = .moved ↔ s.cell0 = .moved`).
* `Touch` has the new field `reuse : ∀ b j0, Reusing s b j0 → Reusing s' b j0` (needed for `HInv.binsDistinct` of `s'`,
  which refers to the threads); accordingly every store takes `hre : ∀ b j0, Reusing s b j0 → Reusing s' b j0` right
  after `hcur`.
* `hside` of `sprepend_store`, `sappend_store`, `Touch.hinv`: `key % 2^id.1 = id.2` (for all cells).
* `LC_eq_live` takes `hn : ∀ j, cellAt s (s.cur+1, j) ≠ .moved` (`XInv.newNotMoved`) instead of `HInv`
  (`liveCell_eq'` is proved here from that); `liveId_congr` takes `hcur` and the new `hmv`.
* `kstep_of_grow`: new hypothesis `hcur : s'.cur = s.cur` (after `hcells`); `hx` speaks about
  `cellAt s (s.cur, j0)` for `xIdx l'.pc = some j0`. `sgrow_store` takes `X : XInv s` and `hre`.
* new: `Writable.not_parent`, `Writable.key_ne`, `Writable.pend_frame`, `Touch.privX_back` (a transfer of ANOTHER cell
  with pending structures is part of the frame), `Store.pend_copyOK` (now also yields `xIdx`/`xPre`), `Store.pend_congr`,
  `Store.copy_key`; §4 `Writable.of_validated` (`Inv s`, a thread with `validated l.pc`, `xPc l.pc = false`:
  `Writable s (cidOf s l)`). -/
namespace Flurry.Proto.BinGNP
open Flurry.Lin
open Flurry.Proto.BinK (nodeAt binAt NextOK IsChain IsSeg chainOf CInv absL HeapStep getElem?_nodeAt nodeAt_of_some
  chainOf_eq chainOf_isChain chainOf_none nodeAt_modify nodeAt_modify_self nodeAt_modify_ne nodeAt_append_left
  nodeAt_append_new nodeAt_ge binAt_ge)

/-! ## 0. the situation in which a cell is stored to -/

/-- the cell `id` is live (`act`), its own transfer has no pending structures (`noPlan`: the resizing thread is not
past the build for cell `id`), and its `TreeBin` is not the unpublished one of another thread (`noPriv`) -/
structure Writable (s : State) (id : Cid) : Prop where
  act : (id.1 = s.cur ∧ cellAt s id ≠ .moved) ∨
    (id.1 = s.cur + 1 ∧ cellAt s (s.cur, id.2 % 2 ^ s.cur) = .moved)
  noPlan : ∀ (t : Nat) (l : Local), s.threads[t]? = some l → id.1 = s.cur → xIdx l.pc = some id.2 → pend s l.pc = []
  noPriv : ∀ b, cellAt s id = .tree b → ¬ PrivBin s b

namespace Store

theorem chainC_empty (s : State) : chainC s .empty = [] := chainOf_none _
theorem chainC_moved (s : State) : chainC s .moved = [] := chainOf_none _

theorem not_treeOf_empty (s : State) (j : Nat) : ¬ treeOf s .empty j := by
  rintro ⟨_, _, b, hb, _⟩; cases hb

theorem not_treeOf_moved (s : State) (j : Nat) : ¬ treeOf s .moved j := by
  rintro ⟨_, _, b, hb, _⟩; cases hb

theorem not_treeOf_list (s : State) (h j : Nat) : ¬ treeOf s (.list h) j := by
  rintro ⟨_, _, b, hb, _⟩; cases hb

theorem ownerOf_eq_some {c : Cell} {b : Nat} : ownerOf c = some b ↔ c = .tree b := by
  cases c <;> simp [ownerOf]

theorem treeOf_owner {s : State} {c : Cell} {j : Nat} (h : treeOf s c j) : (nodeAt s.heap j).owner = ownerOf c := by
  obtain ⟨_, _, b, rfl, hb⟩ := h
  exact hb

theorem treeOf_lt {s : State} {c : Cell} {j : Nat} (h : treeOf s c j) : j < s.heap.length := h.1

/-- an empty list of pending structures is empty in every state -/
theorem pend_nil_indep {s s' : State} {pc : Pc} (h : pend s pc = []) : pend s' pc = [] := by
  cases pc <;> simp [pend] at h ⊢

theorem liveId_congr {s s' : State} (hcur : s'.cur = s.cur)
    (hmv : ∀ id', cellAt s' id' = .moved ↔ cellAt s id' = .moved) (k : Nat) : liveId s' k = liveId s k := by
  unfold liveId
  rw [hcur]
  by_cases hm : cellAt s (idOf s.cur k) = .moved
  · rw [if_pos hm, if_pos ((hmv _).2 hm)]
  · rw [if_neg hm, if_neg (fun h => hm ((hmv _).1 h))]

theorem liveFrom_not_moved (s : State) (k fuel g : Nat) (h : cellOf s g k ≠ .moved) :
    liveFrom s k fuel g = cellOf s g k := by
  cases fuel with
  | zero => rfl
  | succ f =>
    unfold liveFrom
    split
    · rename_i hm; exact absurd hm h
    · rfl

theorem liveFrom_moved (s : State) (k f g : Nat) (h : cellOf s g k = .moved) :
    liveFrom s k (f + 1) g = liveFrom s k f (g + 1) := by
  conv => lhs; unfold liveFrom
  rw [h]

/-- a cell of a generation that does not exist, or beyond the row, reads as `empty` -/
theorem cellAt_none {s : State} {g j : Nat} (h : ∀ row, s.tabs[g]? = some row → row.length ≤ j) :
    cellAt s (g, j) = .empty := by
  show (s.tabs.getD g []).getD j .empty = .empty
  rw [List.getD_eq_getElem?_getD, List.getD_eq_getElem?_getD]
  cases hr : s.tabs[g]? with
  | none => simp
  | some row =>
    have := h row hr
    simp [List.getElem?_eq_none this]

/-- a lookup that starts now follows at most one forwarding marker (`liveCell_eq` of BinG; here from
`XInv.newNotMoved`) -/
theorem liveCell_eq' {s : State} (hn : ∀ j, cellAt s (s.cur + 1, j) ≠ .moved) (k : Nat) :
    liveCell s k = cellAt s (liveId s k) := by
  unfold liveCell liveId
  by_cases hm : cellAt s (idOf s.cur k) = .moved
  · rw [if_pos hm]
    cases hf : s.tabs.length with
    | zero =>
      exfalso
      have : cellAt s (idOf s.cur k) = .empty :=
        cellAt_none (fun row hr => by
          have := (List.getElem?_eq_some_iff.1 hr).1
          omega)
      rw [this] at hm; cases hm
    | succ f =>
      rw [liveFrom_moved s k f s.cur hm]
      exact liveFrom_not_moved s k f _ (hn _)
  · rw [if_neg hm]
    exact liveFrom_not_moved s k _ _ hm

theorem LC_eq_live {s : State} (hn : ∀ j, cellAt s (s.cur + 1, j) ≠ .moved) (k : Nat) :
    LC s k = chainC s (cellAt s (liveId s k)) := by
  unfold LC; rw [liveCell_eq' hn]

/-- `XInv.newNotMoved` after a step that keeps `cur` and the forwarding markers -/
theorem newNotMoved_of {s s' : State} (X : XInv s) (hcur : s'.cur = s.cur)
    (hmv : ∀ id', cellAt s' id' = .moved ↔ cellAt s id' = .moved) : ∀ j, cellAt s' (s'.cur + 1, j) ≠ .moved := by
  intro j h
  rw [hcur] at h
  exact X.newNotMoved j ((hmv _).1 h)

theorem mod_succ_mod (k g : Nat) : k % 2 ^ (g + 1) % 2 ^ g = k % 2 ^ g :=
  Nat.mod_mod_of_dvd k (Nat.pow_dvd_pow 2 (Nat.le_succ g))

theorem add_pow_mod {j g : Nat} (h : j < 2 ^ g) : (j + 2 ^ g) % 2 ^ g = j := by
  rw [Nat.add_mod_right, Nat.mod_eq_of_lt h]

/-- pointwise equal keys and values: same abstract state -/
theorem absL_congr {heap heap' : List NodeS} {L : List Nat}
    (h : ∀ j ∈ L, (nodeAt heap' j).key = (nodeAt heap j).key ∧ (nodeAt heap' j).val = (nodeAt heap j).val) (k : Nat) :
    absL heap' L k = absL heap L k := by
  refine Flurry.Proto.BinK.absL_pointwise rfl ?_ k
  intro j hj
  have : L.getD j 0 = L[j] := by simp [List.getD_eq_getElem?_getD, hj]
  rw [this]
  exact h _ (List.getElem_mem hj)

/-- a thread whose pc says that a child of `(cur, j)` is stored has pending structures and works on `(cur, j)` -/
theorem lowStored_pend {s : State} {pc : Pc} {j : Nat} (h : lowStored pc = some j) :
    xIdx pc = some j ∧ pend s pc ≠ [] ∧ xPre pc = true := by
  cases pc <;> simp [lowStored] at h <;> subst h <;> simp [xIdx, pend, xPre]

theorem highStored_pend {s : State} {pc : Pc} {j : Nat} (h : highStored pc = some j) :
    xIdx pc = some j ∧ pend s pc ≠ [] ∧ xPre pc = true := by
  cases pc <;> simp [highStored] at h <;> subst h <;> simp [xIdx, pend, xPre]

/-- a thread with pending structures of a transfer works on a cell that is not forwarded -/
theorem pend_xIdx {s : State} {pc : Pc} (hx : xPc pc = true) (hp : pend s pc ≠ []) :
    ∃ j0, xIdx pc = some j0 ∧ xPre pc = true := by
  cases pc <;> simp [xPc] at hx <;> simp [pend] at hp <;> simp [xIdx, xPre]

end Store
open Store

/-! ### consequences of `Writable` -/

/-- the live cell is not forwarded -/
theorem Writable.not_moved {s : State} {id : Cid} (W : Writable s id) (X : XInv s) : cellAt s id ≠ .moved := by
  obtain ⟨g, j⟩ := id
  rcases W.act with ⟨_, hm⟩ | ⟨hg, _⟩
  · exact hm
  · simp only at hg; subst hg; exact X.newNotMoved j

/-- the cell under transfer `(cur, j0)` (the resizing thread is past its load, `xPre`) is neither `id` with pending
structures nor the parent of `id` -/
theorem Writable.not_parent {s : State} {id : Cid} (W : Writable s id) (X : XInv s) {t : Nat} {l : Local} {j0 : Nat}
    (hl : s.threads[t]? = some l) (hi : xIdx l.pc = some j0) (hp : xPre l.pc = true) (hpe : pend s l.pc ≠ []) :
    id ≠ (s.cur, j0) ∧ ¬ (id.1 = s.cur + 1 ∧ id.2 % 2 ^ s.cur = j0) := by
  constructor
  · rintro rfl
    exact hpe (W.noPlan t l hl rfl hi)
  · rintro ⟨hg, hj⟩
    rcases W.act with ⟨hg', _⟩ | ⟨_, hm⟩
    · omega
    · rw [hj] at hm
      exact X.pre t l j0 hl hp hi hm

/-- another cell is empty, forwarded, or no key lives in both -/
theorem Writable.other_cases {s : State} {id : Cid} (W : Writable s id) (X : XInv s) {id' : Cid} (hne : id' ≠ id) :
    cellAt s id' = .empty ∨ cellAt s id' = .moved ∨ (∀ k, k % 2 ^ id'.1 = id'.2 → k % 2 ^ id.1 ≠ id.2) := by
  obtain ⟨g, j⟩ := id
  obtain ⟨g', j'⟩ := id'
  simp only
  by_cases h1 : g' < s.cur
  · by_cases hj : j' < 2 ^ g'
    · exact Or.inr (Or.inl (X.old g' j' h1 hj))
    · exact Or.inl (cellAt_none (fun row hr => by rw [X.rows g' row hr]; omega))
  by_cases h2 : s.cur + 1 < g'
  · refine Or.inl (cellAt_none (fun row hr => ?_))
    have := (List.getElem?_eq_some_iff.1 hr).1
    have := X.len
    split at this <;> omega
  by_cases h3 : g' = s.cur
  · subst h3
    rcases W.act with ⟨hg, _⟩ | ⟨hg, hm⟩
    · simp only at hg; subst hg
      refine Or.inr (Or.inr (fun k hk hk' => hne ?_))
      rw [← hk, ← hk']
    · simp only at hg hm; subst hg
      by_cases hj : j' = j % 2 ^ s.cur
      · subst hj; exact Or.inr (Or.inl hm)
      · refine Or.inr (Or.inr (fun k hk hk' => hj ?_))
        rw [← hk, ← hk', mod_succ_mod]
  · have h4 : g' = s.cur + 1 := by omega
    subst h4
    rcases W.act with ⟨hg, hm⟩ | ⟨hg, _⟩
    · simp only at hg hm; subst hg
      by_cases hj : j' % 2 ^ s.cur = j
      · by_cases he : cellAt s (s.cur + 1, j') = .empty
        · exact Or.inl he
        · exfalso
          rcases X.nextEmpty j' he with h | ⟨t, l, hl, h | ⟨j2, h, hj2⟩⟩
          · rw [hj] at h; exact hm h
          · obtain ⟨hi, hpe, -⟩ := lowStored_pend (s := s) h
            have hlt := X.idx t l j' hl hi
            rw [Nat.mod_eq_of_lt hlt] at hj
            subst hj
            exact hpe (W.noPlan t l hl rfl hi)
          · obtain ⟨hi, hpe, -⟩ := highStored_pend (s := s) h
            have hlt := X.idx t l j2 hl hi
            rw [hj2, add_pow_mod hlt] at hj
            subst hj
            exact hpe (W.noPlan t l hl rfl hi)
      · refine Or.inr (Or.inr (fun k hk hk' => hj ?_))
        rw [← hk, ← hk', mod_succ_mod]
    · simp only at hg; subst hg
      refine Or.inr (Or.inr (fun k hk hk' => hne ?_))
      rw [← hk, ← hk']

/-- the structures of two different cells share no node -/
theorem Writable.disj {s : State} {id : Cid} (W : Writable s id) (H : HInv s) (X : XInv s) {id' : Cid} (hne : id' ≠ id)
    {j : Nat} (h' : j ∈ chainC s (cellAt s id') ∨ treeOf s (cellAt s id') j)
    (h : j ∈ chainC s (cellAt s id) ∨ treeOf s (cellAt s id) j) : False := by
  rcases W.other_cases X hne with he | he | hs
  · rw [he, chainC_empty] at h'
    rcases h' with h' | h'
    · cases h'
    · exact not_treeOf_empty s j h'
  · rw [he, chainC_moved] at h'
    rcases h' with h' | h'
    · cases h'
    · exact not_treeOf_moved s j h'
  · exact hs _ (H.side id' j h') (H.side id j h)

theorem Writable.chain_disj {s : State} {id : Cid} (W : Writable s id) (H : HInv s) (X : XInv s) {id' : Cid}
    (hne : id' ≠ id) {j : Nat}
    (h' : j ∈ chainC s (cellAt s id')) : j ∉ chainC s (cellAt s id) ∧ ¬ treeOf s (cellAt s id) j :=
  ⟨fun h => W.disj H X hne (Or.inl h') (Or.inl h), fun h => W.disj H X hne (Or.inl h') (Or.inr h)⟩

theorem Writable.tree_disj {s : State} {id : Cid} (W : Writable s id) (H : HInv s) (X : XInv s) {id' : Cid}
    (hne : id' ≠ id) {j : Nat}
    (h' : treeOf s (cellAt s id') j) : j ∉ chainC s (cellAt s id) ∧ ¬ treeOf s (cellAt s id) j :=
  ⟨fun h => W.disj H X hne (Or.inr h') (Or.inl h), fun h => W.disj H X hne (Or.inr h') (Or.inr h)⟩

/-- two different cells do not hold the same `TreeBin` -/
theorem Writable.tree_ne {s : State} {id : Cid} (W : Writable s id) (H : HInv s) (X : XInv s) {id' : Cid}
    (hne : id' ≠ id) {b : Nat} (h' : cellAt s id' = .tree b) : cellAt s id ≠ .tree b := by
  intro h
  rcases H.binsDistinct id id' b h h' with e | ⟨j0, ⟨t, l, hl, hpc⟩, hc⟩
  · exact hne e.symm
  · have hx : xIdx l.pc = some j0 ∧ xPre l.pc = true ∧ pend s l.pc ≠ [] := by
      rcases hpc with ⟨hi, hpc⟩ | hpc <;> rw [hpc] <;> simp [xIdx, xPre, pend]
    have hnp := W.not_parent X hl hx.1 hx.2.1 hx.2.2
    rcases hc with ⟨e, _, _⟩ | ⟨_, hg, hj⟩
    · exact hnp.1 e
    · exact hnp.2 ⟨hg, hj⟩

/-- the keys whose live cell is `id` -/
theorem Writable.liveId_iff {s : State} {id : Cid} (W : Writable s id) (k : Nat) :
    liveId s k = id ↔ k % 2 ^ id.1 = id.2 := by
  obtain ⟨g, j⟩ := id
  unfold liveId idOf
  simp only
  rcases W.act with ⟨hg, hm⟩ | ⟨hg, hm⟩
  · simp only at hg hm; subst hg
    constructor
    · intro h
      split at h
      · have := congrArg Prod.fst h; simp at this
      · exact congrArg Prod.snd h
    · intro h
      have e : ((s.cur, k % 2 ^ s.cur) : Cid) = (s.cur, j) := by rw [h]
      rw [e, if_neg hm]
  · simp only at hg hm; subst hg
    constructor
    · intro h
      split at h
      · exact congrArg Prod.snd h
      · have := congrArg Prod.fst h; simp at this
    · intro h
      have e : ((s.cur, k % 2 ^ s.cur) : Cid) = (s.cur, j % 2 ^ s.cur) := by rw [← h, mod_succ_mod]
      rw [e, if_pos hm, h]

/-- the live cell of the key of a node of the structure of `id` is `id` -/
theorem Writable.liveId_of_mem {s : State} {id : Cid} (W : Writable s id) (H : HInv s) {j : Nat}
    (h : j ∈ chainC s (cellAt s id) ∨ treeOf s (cellAt s id) j) : liveId s (nodeAt s.heap j).key = id := by
  rw [W.liveId_iff]
  exact H.side id j h

/-- the forwarding markers are neither set nor cleared by a store into the structure of `id` -/
theorem Writable.moved_iff {s s' : State} {id : Cid} (W : Writable s id) (X : XInv s)
    (hcells : ∀ id', id' ≠ id → cellAt s' id' = cellAt s id') (hnm : cellAt s' id ≠ .moved) :
    ∀ id', cellAt s' id' = .moved ↔ cellAt s id' = .moved := by
  intro id'
  by_cases hne : id' = id
  · subst hne
    exact ⟨fun h => absurd h hnm, fun h => absurd h (W.not_moved X)⟩
  · rw [hcells id' hne]

/-! ## 1. frame -/

theorem cinv_frame {heap heap' : List NodeS} {st : Option Nat} {T T' : Nat → Prop} (C : CInv heap st T)
    (hok' : NextOK heap') (hlen : heap.length ≤ heap'.length)
    (hsame : ∀ j ∈ chainOf heap st, (nodeAt heap' j).next = (nodeAt heap j).next ∧ (nodeAt heap' j).key = (nodeAt heap j).key)
    (hT : ∀ j, T' j → T j ∧ (nodeAt heap' j).key = (nodeAt heap j).key) :
    CInv heap' st T' ∧ chainOf heap' st = chainOf heap st := by
  have hch : IsChain heap' st (chainOf heap st) := by
    refine C.isChain.congr ?_
    intro j hj n hn
    have hjl : j < heap.length := (List.getElem?_eq_some_iff.1 hn).1
    refine ⟨nodeAt heap' j, getElem?_nodeAt (by omega), ?_⟩
    rw [(hsame j hj).1, nodeAt_of_some hn]
  have hc := chainOf_eq hok' hch
  refine ⟨⟨hok', fun h hh => by have := C.startOK h hh; omega, ?_⟩, hc⟩
  intro a b ha hb hab
  rw [hc] at ha hb
  have key : ∀ x, (x ∈ chainOf heap st ∨ T' x) →
      (x ∈ chainOf heap st ∨ T x) ∧ (nodeAt heap' x).key = (nodeAt heap x).key := by
    intro x hx
    rcases hx with hx | hx
    · exact ⟨Or.inl hx, (hsame x hx).2⟩
    · exact ⟨Or.inr (hT x hx).1, (hT x hx).2⟩
  rw [(key a ha).2, (key b hb).2] at hab
  exact C.keysDistinct a b (key a ha).1 (key b hb).1 hab

/-- a transition that touches the structure of cell `id` only -/
structure Touch (s s' : State) (id : Cid) : Prop where
  len : s.heap.length ≤ s'.heap.length
  tlen : s.tbins.length ≤ s'.tbins.length
  cells : ∀ id', id' ≠ id → cellAt s' id' = cellAt s id'
  cur : s'.cur = s.cur
  /-- a transfer that re-uses a `TreeBin` and is past its first store stays there -/
  reuse : ∀ b j0, Reusing s b j0 → Reusing s' b j0
  /-- old nodes outside the structure of `id` are unchanged -/
  node : ∀ j, j < s.heap.length → j ∉ chainC s (cellAt s id) → ¬ treeOf s (cellAt s id) j → nodeAt s'.heap j = nodeAt s.heap j
  /-- old nodes keep key, owner, lock -/
  keep : ∀ j, j < s.heap.length → (nodeAt s'.heap j).key = (nodeAt s.heap j).key ∧ (nodeAt s'.heap j).owner = (nodeAt s.heap j).owner ∧ (nodeAt s'.heap j).lock = (nodeAt s.heap j).lock
  /-- new nodes belong to the bin of `id`, to a new bin, or to no bin -/
  newOwner : ∀ j, s.heap.length ≤ j → ∀ b, (nodeAt s'.heap j).owner = some b → cellAt s id = .tree b ∨ s.tbins.length ≤ b
  /-- other old bins are unchanged -/
  bin : ∀ b, b < s.tbins.length → cellAt s id ≠ .tree b → binAt s'.tbins b = binAt s.tbins b

/-- the start of a structure that is not the `TreeBin` of `id` -/
theorem Touch.startOf_eq {s s' : State} {id : Cid} (T : Touch s s' id) {C : Cell}
    (hbin : ∀ b, C = .tree b → cellAt s id ≠ .tree b ∧ b < s.tbins.length) :
    startOf s'.tbins C = startOf s.tbins C := by
  cases C with
  | empty => rfl
  | list h => rfl
  | moved => rfl
  | tree b =>
    obtain ⟨h1, h2⟩ := hbin b rfl
    show (binAt s'.tbins b).first = (binAt s.tbins b).first
    rw [T.bin b h2 h1]

/-- the list of a structure `C` that shares no node (and no `TreeBin`) with the structure of `id` -/
theorem Touch.chain_frame {s s' : State} {id : Cid} (T : Touch s s' id) (H : HInv s) (hok' : NextOK s'.heap) {C : Cell}
    (hst : ∀ h, startOf s.tbins C = some h → h < s.heap.length)
    (hdisj : ∀ j ∈ chainC s C, j ∉ chainC s (cellAt s id) ∧ ¬ treeOf s (cellAt s id) j)
    (hbin : ∀ b, C = .tree b → cellAt s id ≠ .tree b ∧ b < s.tbins.length) :
    chainC s' C = chainC s C ∧ ∀ j ∈ chainC s C, nodeAt s'.heap j = nodeAt s.heap j := by
  have hch := chainOf_isChain H.nextOK (startOf s.tbins C) hst
  have hnode : ∀ j ∈ chainC s C, nodeAt s'.heap j = nodeAt s.heap j := by
    intro j hj
    exact T.node j (hch.lt_length j hj) (hdisj j hj).1 (hdisj j hj).2
  refine ⟨?_, hnode⟩
  unfold chainC
  rw [T.startOf_eq hbin]
  refine chainOf_eq hok' (hch.congr ?_)
  intro j hj n hn
  have hjl : j < s.heap.length := (List.getElem?_eq_some_iff.1 hn).1
  refine ⟨nodeAt s'.heap j, getElem?_nodeAt (by have := T.len; omega), ?_⟩
  rw [hnode j hj, nodeAt_of_some hn]

/-- the tree of a structure other than that of `id` -/
theorem Touch.treeOf_iff {s s' : State} {id : Cid} (T : Touch s s' id) (H : HInv s) {b : Nat}
    (hb : b < s.tbins.length) (hne : cellAt s id ≠ .tree b) (j : Nat) :
    treeOf s' (.tree b) j ↔ treeOf s (.tree b) j := by
  have hnot : ∀ j, j < s.heap.length → (nodeAt s.heap j).owner = some b →
      j ∉ chainC s (cellAt s id) ∧ ¬ treeOf s (cellAt s id) j := by
    intro j _ ho
    constructor
    · intro hc
      have := H.chainOwner id j hc
      rw [ho] at this
      exact hne (ownerOf_eq_some.1 this.symm)
    · intro ht
      have := treeOf_owner ht
      rw [ho] at this
      exact hne (ownerOf_eq_some.1 this.symm)
  constructor
  · rintro ⟨h1, h2, b', hb', h3⟩
    cases hb'
    by_cases hj : j < s.heap.length
    · have ho : (nodeAt s.heap j).owner = some b := by rw [← (T.keep j hj).2.1]; exact h3
      have hn := T.node j hj (hnot j hj ho).1 (hnot j hj ho).2
      exact ⟨hj, by rw [← hn]; exact h2, b, rfl, ho⟩
    · exfalso
      rcases T.newOwner j (by omega) b h3 with h | h
      · exact hne h
      · omega
  · rintro ⟨h1, h2, b', hb', h3⟩
    cases hb'
    have hn := T.node j h1 (hnot j h1 h3).1 (hnot j h1 h3).2
    exact ⟨by have := T.len; omega, by rw [hn]; exact h2, b, rfl, by rw [hn]; exact h3⟩

/-- the frame: the other cells -/
theorem Touch.other {s s' : State} {id : Cid} (T : Touch s s' id) (H : HInv s) (X : XInv s) (W : Writable s id)
    (hok' : NextOK s'.heap) {id' : Cid} (hne : id' ≠ id) :
    chainC s' (cellAt s' id') = chainC s (cellAt s id') ∧
    CInv s'.heap (startOf s'.tbins (cellAt s' id')) (treeOf s' (cellAt s' id')) ∧
    (∀ j, treeOf s' (cellAt s' id') j ↔ treeOf s (cellAt s id') j) ∧
    (∀ j ∈ chainC s (cellAt s id'), nodeAt s'.heap j = nodeAt s.heap j) ∧
    (∀ j ∈ chainC s' (cellAt s' id'), (nodeAt s'.heap j).owner = ownerOf (cellAt s' id')) ∧
    (∀ j, (j ∈ chainC s' (cellAt s' id') ∨ treeOf s' (cellAt s' id') j) →
      (nodeAt s'.heap j).key % 2 ^ id'.1 = id'.2) := by
  have hbin : ∀ b, cellAt s id' = .tree b → cellAt s id ≠ .tree b ∧ b < s.tbins.length :=
    fun b hb => ⟨W.tree_ne H X hne hb, H.cellOK id' b hb⟩
  obtain ⟨hc, hnode⟩ := T.chain_frame H hok' (C := cellAt s id') (H.cinv id').startOK
    (fun j hj => W.chain_disj H X hne hj) hbin
  have htree : ∀ j, treeOf s' (cellAt s' id') j ↔ treeOf s (cellAt s id') j := by
    intro j
    rw [T.cells id' hne]
    cases hcell : cellAt s id' with
    | tree b => exact T.treeOf_iff H (hbin b hcell).2 (hbin b hcell).1 j
    | empty => exact ⟨fun h => absurd h (not_treeOf_empty _ _), fun h => absurd h (not_treeOf_empty _ _)⟩
    | moved => exact ⟨fun h => absurd h (not_treeOf_moved _ _), fun h => absurd h (not_treeOf_moved _ _)⟩
    | list h => exact ⟨fun h => absurd h (not_treeOf_list _ _ _), fun h => absurd h (not_treeOf_list _ _ _)⟩
  have hc' : chainC s' (cellAt s' id') = chainC s (cellAt s id') := by rw [T.cells id' hne]; exact hc
  have hst : startOf s'.tbins (cellAt s' id') = startOf s.tbins (cellAt s id') := by
    rw [T.cells id' hne]; exact T.startOf_eq hbin
  have hcinv : CInv s'.heap (startOf s'.tbins (cellAt s' id')) (treeOf s' (cellAt s' id')) := by
    rw [hst]
    refine (cinv_frame (H.cinv id') hok' T.len ?_ ?_).1
    · intro j hj
      rw [hnode j hj]; exact ⟨rfl, rfl⟩
    · intro j hj
      have := (htree j).1 hj
      exact ⟨this, (T.keep j this.1).1⟩
  refine ⟨hc', hcinv, htree, hnode, ?_, ?_⟩
  · intro j hj
    rw [hc'] at hj
    rw [hnode j hj, T.cells id' hne]
    exact H.chainOwner id' j hj
  · intro j hj
    have hj' : j ∈ chainC s (cellAt s id') ∨ treeOf s (cellAt s id') j := by
      rcases hj with hj | hj
      · exact Or.inl (hc' ▸ hj)
      · exact Or.inr ((htree j).1 hj)
    have hjl : j < s.heap.length := by
      rcases hj' with h | h
      · exact (H.cinv id').chain_lt h
      · exact h.1
    rw [(T.keep j hjl).1]
    exact H.side id' j hj'

/-! ### assembling `HInv s'` and the abstract states after a store into the structure of `id` -/

/-- `HInv` after a transition that touches the structure of `id` only: what has to be shown for `id` -/
theorem Touch.hinv {s s' : State} {id : Cid} (T : Touch s s' id) (H : HInv s) (X : XInv s) (W : Writable s id)
    (C' : CInv s'.heap (startOf s'.tbins (cellAt s' id)) (treeOf s' (cellAt s' id)))
    (hO : ∀ j, s.heap.length ≤ j → ∀ b, (nodeAt s'.heap j).owner = some b → b < s'.tbins.length)
    (hF : ∀ b h, (b < s.tbins.length → cellAt s id = .tree b) → (binAt s'.tbins b).first = some h → h < s'.heap.length)
    (hC : ∀ b, cellAt s' id = .tree b → b < s'.tbins.length)
    (hown : ∀ j ∈ chainC s' (cellAt s' id), (nodeAt s'.heap j).owner = ownerOf (cellAt s' id))
    (hside : ∀ j, (j ∈ chainC s' (cellAt s' id) ∨ treeOf s' (cellAt s' id) j) →
      (nodeAt s'.heap j).key % 2 ^ id.1 = id.2)
    (hnm : cellAt s' id ≠ .moved)
    (hbd : ∀ b, cellAt s' id = .tree b → ∀ id', id' ≠ id → cellAt s id' ≠ .tree b) : HInv s' := by
  have hok' := C'.nextOK
  have _ := hnm
  refine ⟨?_, ?_, ?_, ?_, ?_, ?_, ?_⟩
  · intro id'
    by_cases hne : id' = id
    · subst hne; exact C'
    · exact (T.other H X W hok' hne).2.1
  · intro j b hj
    by_cases hjl : j < s.heap.length
    · rw [(T.keep j hjl).2.1] at hj
      have := H.ownerOK j b hj
      have := T.tlen
      omega
    · exact hO j (by omega) b hj
  · intro b h hf
    by_cases hb : b < s.tbins.length → cellAt s id = .tree b
    · exact hF b h hb hf
    · have hb1 : b < s.tbins.length := Classical.byContradiction fun h1 => hb (fun h2 => absurd h2 h1)
      have hb2 : cellAt s id ≠ .tree b := fun h2 => hb (fun _ => h2)
      rw [T.bin b hb1 hb2] at hf
      have := H.firstOK b h hf
      have := T.len
      omega
  · intro id' b hb
    by_cases hne : id' = id
    · subst hne; exact hC b hb
    · rw [T.cells id' hne] at hb
      have := H.cellOK id' b hb
      have := T.tlen
      omega
  · intro id'
    by_cases hne : id' = id
    · subst hne; exact hown
    · exact (T.other H X W hok' hne).2.2.2.2.1
  · intro id'
    by_cases hne : id' = id
    · subst hne; exact hside
    · exact (T.other H X W hok' hne).2.2.2.2.2
  · intro id1 id2 b h1 h2
    by_cases e1 : id1 = id
    · subst e1
      by_cases e2 : id2 = id1
      · exact Or.inl e2.symm
      · rw [T.cells id2 e2] at h2
        exact absurd h2 (hbd b h1 id2 e2)
    · by_cases e2 : id2 = id
      · subst e2
        rw [T.cells id1 e1] at h1
        exact absurd h1 (hbd b h2 id1 e1)
      · rw [T.cells id1 e1] at h1
        rw [T.cells id2 e2] at h2
        rcases H.binsDistinct id1 id2 b h1 h2 with e | ⟨j0, hr, hc⟩
        · exact Or.inl e
        · exact Or.inr ⟨j0, T.reuse b j0 hr, by rw [T.cur]; exact hc⟩

/-- the abstract state of a key: either its live cell is `id`, or nothing changes -/
theorem Touch.abs_cases {s s' : State} {id : Cid} (T : Touch s s' id) (H : HInv s) (X : XInv s) (W : Writable s id) (H' : HInv s')
    (hmv : ∀ id', cellAt s' id' = .moved ↔ cellAt s id' = .moved) (k : Nat) :
    (liveId s k = id ∧ absOf s k = absL s.heap (chainC s (cellAt s id)) k ∧
      absOf s' k = absL s'.heap (chainC s' (cellAt s' id)) k) ∨
    (liveId s k ≠ id ∧ absOf s' k = absOf s k) := by
  have e1 : absOf s k = absL s.heap (chainC s (cellAt s (liveId s k))) k := by rw [absOf_eq, LC_eq_live X.newNotMoved]
  have e2 : absOf s' k = absL s'.heap (chainC s' (cellAt s' (liveId s k))) k := by
    rw [absOf_eq, LC_eq_live (newNotMoved_of X T.cur hmv), liveId_congr T.cur hmv]
  by_cases hl : liveId s k = id
  · left
    rw [hl] at e1 e2
    exact ⟨hl, e1, e2⟩
  · right
    refine ⟨hl, ?_⟩
    obtain ⟨hc, _, _, hnode, _, _⟩ := T.other H X W H'.nextOK hl
    rw [e1, e2, hc]
    exact absL_congr (fun j hj => by rw [hnode j hj]; exact ⟨rfl, rfl⟩) k

/-- the abstract effect for every key, from the effect on the chain of `id` -/
theorem Touch.abs_all {s s' : State} {id : Cid} (T : Touch s s' id) (H : HInv s) (X : XInv s) (W : Writable s id) (H' : HInv s')
    (hmv : ∀ id', cellAt s' id' = .moved ↔ cellAt s id' = .moved) {k0 : Nat} {x : KSt} (hk0 : liveId s k0 = id)
    (habs : ∀ k, absL s'.heap (chainC s' (cellAt s' id)) k =
      if k0 = k then x else absL s.heap (chainC s (cellAt s id)) k) (k : Nat) :
    absOf s' k = if k0 = k then x else absOf s k := by
  rcases T.abs_cases H X W H' hmv k with ⟨_, e1, e2⟩ | ⟨hl, e⟩
  · rw [e1, e2]; exact habs k
  · rw [e, if_neg]
    intro h; subst h; exact hl hk0

/-- … when the store has no abstract effect -/
theorem Touch.abs_none {s s' : State} {id : Cid} (T : Touch s s' id) (H : HInv s) (X : XInv s) (W : Writable s id) (H' : HInv s')
    (hmv : ∀ id', cellAt s' id' = .moved ↔ cellAt s id' = .moved)
    (habs : ∀ k, absL s'.heap (chainC s' (cellAt s' id)) k = absL s.heap (chainC s (cellAt s id)) k) (k : Nat) :
    absOf s' k = absOf s k := by
  rcases T.abs_cases H X W H' hmv k with ⟨_, e1, e2⟩ | ⟨_, e⟩
  · rw [e1, e2]; exact habs k
  · exact e

/-! ## 2. the stores -/

namespace Store

theorem dflt_owner (b : Nat) : Flurry.Proto.BinK.dflt.owner ≠ some b := by
  intro h; cases h

theorem owner_ge {heap : List NodeS} {j : Nat} (hj : heap.length ≤ j) (b : Nat) : (nodeAt heap j).owner ≠ some b := by
  rw [nodeAt_ge hj]; exact dflt_owner b

theorem treeOf_of {s s' : State} {c c' : Cell} {j : Nat} (hc : c' = c) (hlen : j < s'.heap.length → j < s.heap.length)
    (hin : (nodeAt s'.heap j).inTree = true → (nodeAt s.heap j).inTree = true)
    (ho : (nodeAt s'.heap j).owner = (nodeAt s.heap j).owner) (h : treeOf s' c' j) : treeOf s c j := by
  obtain ⟨h1, h2, b, h3, h4⟩ := h
  exact ⟨hlen h1, hin h2, b, by rw [← hc]; exact h3, by rw [← ho]; exact h4⟩

/-- one node of the structure of `id` is modified, keeping key, owner and lock word -/
theorem touch_modify {s s' : State} {id : Cid} {i : Nat} {f : NodeS → NodeS}
    (hi : i ∈ chainC s (cellAt s id) ∨ treeOf s (cellAt s id) i)
    (hf : ∀ n, (f n).key = n.key ∧ (f n).owner = n.owner ∧ (f n).lock = n.lock)
    (hh : s'.heap = s.heap.modify i f) (htb : s'.tbins = s.tbins)
    (hcells : ∀ id', id' ≠ id → cellAt s' id' = cellAt s id') (hcur : s'.cur = s.cur) (hre : ∀ b j0, Reusing s b j0 → Reusing s' b j0) : Touch s s' id := by
  refine ⟨by rw [hh, List.length_modify]; exact Nat.le_refl _, by rw [htb]; exact Nat.le_refl _, hcells, hcur, hre,
    ?_, ?_, ?_, fun b _ _ => by rw [htb]⟩
  · intro j _ h1 h2
    rw [hh]
    refine nodeAt_modify_ne f ?_
    rintro rfl
    rcases hi with hi | hi
    · exact h1 hi
    · exact h2 hi
  · intro j _
    rw [hh, nodeAt_modify]
    split
    · exact hf _
    · exact ⟨rfl, rfl, rfl⟩
  · intro j hj b hb
    exact absurd hb (owner_ge (by rw [hh, List.length_modify]; exact hj) b)

end Store

/-- the part of `HInv s'` that is the same for all stores that change neither a cell nor the `TreeBin`s
nor the length of the heap, nor key / owner of a node -/
theorem Touch.hinv_same {s s' : State} {id : Cid} (T : Touch s s' id) (H : HInv s) (X : XInv s) (W : Writable s id)
    (C' : CInv s'.heap (startOf s'.tbins (cellAt s' id)) (treeOf s' (cellAt s' id)))
    (hlen : s'.heap.length = s.heap.length) (htb : s'.tbins = s.tbins) (hcell : cellAt s' id = cellAt s id)
    (hsub : ∀ j, (j ∈ chainC s' (cellAt s' id) ∨ treeOf s' (cellAt s' id) j) →
      (j ∈ chainC s (cellAt s id) ∨ treeOf s (cellAt s id) j))
    (hcsub : ∀ j, j ∈ chainC s' (cellAt s' id) → j ∈ chainC s (cellAt s id)) : HInv s' := by
  refine T.hinv H X W C' ?_ ?_ ?_ ?_ ?_ ?_ ?_
  · intro j hj b hb
    exact absurd hb (owner_ge (by omega) b)
  · intro b h _ hf
    rw [htb] at hf; rw [hlen]; exact H.firstOK b h hf
  · intro b hb
    rw [hcell] at hb; rw [htb]; exact H.cellOK id b hb
  · intro j hj
    have hj' := hcsub j hj
    rw [(T.keep j ((H.cinv id).chain_lt hj')).2.1, hcell]
    exact H.chainOwner id j hj'
  · intro j hj
    have hj' := hsub j hj
    have hjl : j < s.heap.length := by
      rcases hj' with h | h
      · exact (H.cinv id).chain_lt h
      · exact h.1
    rw [(T.keep j hjl).1]
    exact H.side id j hj'
  · rw [hcell]; exact W.not_moved X
  · intro b hb id' hne
    rw [hcell] at hb
    exact fun h => W.tree_ne H X hne h hb

/-- one value cell of a node of the chain of `id` is stored -/
theorem sval_store {s s' : State} {id : Cid} (H : HInv s) (X : XInv s) (W : Writable s id) {i : Nat} {v : Nat × Nat}
    (hi : i ∈ chainC s (cellAt s id))
    (hh : s'.heap = s.heap.modify i (fun n => { n with val := v })) (htb : s'.tbins = s.tbins)
    (hcells : ∀ id', cellAt s' id' = cellAt s id') (hcur : s'.cur = s.cur) (hre : ∀ b j0, Reusing s b j0 → Reusing s' b j0) :
    HInv s' ∧ Touch s s' id ∧
      HeapStep s.heap (chainC s (cellAt s id)) (fun _ => False) s'.heap (chainC s' (cellAt s' id)) (fun _ => False) ∧
      chainC s' (cellAt s' id) = chainC s (cellAt s id) ∧
      (∀ j, nodeAt s'.heap j = if j = i then { nodeAt s.heap j with val := v } else nodeAt s.heap j) ∧
      ∀ k, absOf s' k = if (nodeAt s.heap i).key = k then some v else absOf s k := by
  have hcell := hcells id
  have hst : startOf s'.tbins (cellAt s' id) = startOf s.tbins (cellAt s id) := by rw [hcell, htb]
  have hil := (H.cinv id).chain_lt hi
  have hnode0 : ∀ j, nodeAt s'.heap j = if j = i then { nodeAt s.heap j with val := v } else nodeAt s.heap j := by
    intro j
    rw [hh]
    by_cases hji : j = i
    · subst hji; rw [if_pos rfl]; exact nodeAt_modify_self _ hil
    · rw [if_neg hji]; exact nodeAt_modify_ne _ (fun e => hji e.symm)
  have hfield : ∀ j, (nodeAt s'.heap j).inTree = (nodeAt s.heap j).inTree ∧
      (nodeAt s'.heap j).owner = (nodeAt s.heap j).owner := by
    intro j; rw [hnode0]; split <;> exact ⟨rfl, rfl⟩
  have hlen : s'.heap.length = s.heap.length := by rw [hh, List.length_modify]
  have T : Touch s s' id := touch_modify (f := fun n => { n with val := v }) (Or.inl hi) (fun n => ⟨rfl, rfl, rfl⟩) hh htb (fun id' _ => hcells id') hcur hre
  have hT : ∀ j, treeOf s' (cellAt s' id) j → treeOf s (cellAt s id) j := fun j hj =>
    treeOf_of hcell (fun h => hlen ▸ h) (fun h => (hfield j).1 ▸ h) (hfield j).2 hj
  obtain ⟨C', hs, hc, -, habs⟩ := Flurry.Proto.BinK.val_store (T' := treeOf s' (cellAt s' id)) (P := fun _ => False)
    (P' := fun _ => False) (H.cinv id) (v := v) hi (fun j hj => Or.inr (hT j hj)) (fun _ _ h => h)
  rw [← hh] at C' hs hc habs
  have hlc : chainC s' (cellAt s' id) = chainC s (cellAt s id) := by
    show chainOf s'.heap (startOf s'.tbins (cellAt s' id)) = _
    rw [hst]; exact hc
  have H' : HInv s' := T.hinv_same H X W (by rw [hst]; exact C') hlen htb hcell
    (fun j hj => by
      rcases hj with hj | hj
      · exact Or.inl (hlc ▸ hj)
      · exact Or.inr (hT j hj))
    (fun j hj => hlc ▸ hj)
  refine ⟨H', T, by rw [hlc]; exact hs, hlc, hnode0, ?_⟩
  refine T.abs_all H X W H' (W.moved_iff X T.cells (by rw [hcell]; exact W.not_moved X))
    (W.liveId_of_mem H (Or.inl hi)) ?_
  intro k
  show absL s'.heap (chainOf s'.heap (startOf s'.tbins (cellAt s' id))) k = _
  rw [hst]; exact habs k

/-- the tree flag of one node of the structure of `id` is stored: set for a node of the chain, cleared for a node
of the chain or of the tree -/
theorem sflag_store {s s' : State} {id : Cid} (H : HInv s) (X : XInv s) (W : Writable s id) {i : Nat} {x : Bool}
    (hi : i ∈ chainC s (cellAt s id) ∨ treeOf s (cellAt s id) i)
    (hh : s'.heap = s.heap.modify i (fun n => { n with inTree := x })) (htb : s'.tbins = s.tbins)
    (hcells : ∀ id', cellAt s' id' = cellAt s id') (hcur : s'.cur = s.cur) (hre : ∀ b j0, Reusing s b j0 → Reusing s' b j0)
    (hx : x = true → i ∈ chainC s (cellAt s id)) :
    HInv s' ∧ Touch s s' id ∧
      HeapStep s.heap (chainC s (cellAt s id)) (fun _ => False) s'.heap (chainC s' (cellAt s' id)) (fun _ => False) ∧
      chainC s' (cellAt s' id) = chainC s (cellAt s id) ∧ s'.heap.length = s.heap.length ∧
      (∀ j, nodeAt s'.heap j = if j = i ∧ j < s.heap.length then { nodeAt s.heap j with inTree := x } else nodeAt s.heap j) ∧
      ∀ k, absOf s' k = absOf s k := by
  have hcell := hcells id
  have hst : startOf s'.tbins (cellAt s' id) = startOf s.tbins (cellAt s id) := by rw [hcell, htb]
  have hnode0 : ∀ j, nodeAt s'.heap j =
      if j = i ∧ j < s.heap.length then { nodeAt s.heap j with inTree := x } else nodeAt s.heap j := by
    intro j
    rw [hh, nodeAt_modify]
    by_cases hji : j = i ∧ j < s.heap.length
    · rw [if_pos hji, if_pos ⟨hji.1.symm, hji.2⟩]
    · rw [if_neg hji, if_neg (fun e => hji ⟨e.1.symm, e.2⟩)]
  have hfield : ∀ j, (nodeAt s'.heap j).key = (nodeAt s.heap j).key ∧ (nodeAt s'.heap j).val = (nodeAt s.heap j).val ∧
      (nodeAt s'.heap j).owner = (nodeAt s.heap j).owner := by
    intro j; rw [hnode0]; split <;> exact ⟨rfl, rfl, rfl⟩
  have hlen : s'.heap.length = s.heap.length := by rw [hh, List.length_modify]
  have T : Touch s s' id := touch_modify (f := fun n => { n with inTree := x }) hi (fun n => ⟨rfl, rfl, rfl⟩) hh htb (fun id' _ => hcells id') hcur hre
  have hT : ∀ j, treeOf s' (cellAt s' id) j → j ∈ chainC s (cellAt s id) ∨ treeOf s (cellAt s id) j := by
    intro j hj
    by_cases hji : j = i
    · subst hji
      by_cases hxt : x = true
      · exact Or.inl (hx hxt)
      · exfalso
        obtain ⟨h1, h2, -⟩ := hj
        rw [hnode0, if_pos ⟨rfl, hlen ▸ h1⟩] at h2
        exact hxt h2
    · right
      have : nodeAt s'.heap j = nodeAt s.heap j := by rw [hnode0, if_neg (fun e => hji e.1)]
      exact treeOf_of hcell (fun h => hlen ▸ h) (fun h => this ▸ h) (by rw [this]) hj
  have hv : (nodeAt (s.heap.modify i (fun n => { n with inTree := x })) i).val ≠ (nodeAt s.heap i).val →
      i ∈ chainOf s.heap (startOf s.tbins (cellAt s id)) := by
    intro hne
    exfalso; apply hne
    rw [nodeAt_modify]; split <;> rfl
  obtain ⟨C', hs, hc, -, -, -⟩ := Flurry.Proto.BinK.modify_summary (T' := treeOf s' (cellAt s' id))
    (P := fun _ => False) (P' := fun _ => False) (H.cinv id)
    (i := i) (f := fun n => { n with inTree := x }) (fun n => ⟨rfl, rfl⟩) hT hv (fun _ _ h => h)
  rw [← hh] at C' hs hc
  have hlc : chainC s' (cellAt s' id) = chainC s (cellAt s id) := by
    show chainOf s'.heap (startOf s'.tbins (cellAt s' id)) = _
    rw [hst]; exact hc
  have H' : HInv s' := T.hinv_same H X W (by rw [hst]; exact C') hlen htb hcell
    (fun j hj => by
      rcases hj with hj | hj
      · exact Or.inl (hlc ▸ hj)
      · exact hT j hj)
    (fun j hj => hlc ▸ hj)
  refine ⟨H', T, by rw [hlc]; exact hs, hlc, hlen, hnode0, ?_⟩
  refine T.abs_none H X W H' (W.moved_iff X T.cells (by rw [hcell]; exact W.not_moved X)) ?_
  intro k
  rw [hlc]
  exact absL_congr (fun j _ => ⟨(hfield j).1, (hfield j).2.1⟩) k

namespace Store

theorem dfltB_first : Flurry.Proto.BinK.dfltB.first = none := rfl

theorem cell_of_owner {c c' : Cell} (hlo : ownerOf c' = ownerOf c) {b : Nat} : c' = .tree b ↔ c = .tree b := by
  rw [← ownerOf_eq_some, ← ownerOf_eq_some, hlo]

/-- the key of a node that may be linked into the structure of `id` has `id` as its live cell -/
theorem liveId_of_side {s : State} {id : Cid} (W : Writable s id) {k : Nat} (hside : k % 2 ^ id.1 = id.2) :
    liveId s k = id := by
  rw [W.liveId_iff]; exact hside

end Store

/-- a fresh node is put in front of the chain of `id` (tree-bin insertion: the `first` field of the bin of `id`
changes; the CAS into the empty cell: the cell becomes `.list new`) -/
theorem sprepend_store {s s' : State} {id : Cid} (H : HInv s) (X : XInv s) (W : Writable s id) {new : NodeS}
    (hh : s'.heap = s.heap ++ [new])
    (hst' : startOf s'.tbins (cellAt s' id) = some s.heap.length)
    (hnext : new.next = startOf s.tbins (cellAt s id))
    (hfresh : ∀ j, (j ∈ chainC s (cellAt s id) ∨ treeOf s (cellAt s id) j) → (nodeAt s.heap j).key ≠ new.key)
    (hT : ∀ j, treeOf s' (cellAt s' id) j → j < s.heap.length ∧ treeOf s (cellAt s id) j)
    (htl : s'.tbins.length = s.tbins.length)
    (hbin : ∀ b, cellAt s id ≠ .tree b → binAt s'.tbins b = binAt s.tbins b)
    (hcells : ∀ id', id' ≠ id → cellAt s' id' = cellAt s id') (hcur : s'.cur = s.cur) (hre : ∀ b j0, Reusing s b j0 → Reusing s' b j0)
    (hlo : ownerOf (cellAt s' id) = ownerOf (cellAt s id)) (hno : new.owner = ownerOf (cellAt s' id))
    (hside : new.key % 2 ^ id.1 = id.2) :
    HInv s' ∧ Touch s s' id ∧
      HeapStep s.heap (chainC s (cellAt s id)) (fun _ => False) s'.heap (chainC s' (cellAt s' id)) (fun _ => False) ∧
      chainC s' (cellAt s' id) = s.heap.length :: chainC s (cellAt s id) ∧
      (nodeAt s'.heap s.heap.length = new ∧ ∀ j, j < s.heap.length → nodeAt s'.heap j = nodeAt s.heap j) ∧
      ∀ k, absOf s' k = if new.key = k then some new.val else absOf s k := by
  have hnewn : nodeAt s'.heap s.heap.length = new := by rw [hh, nodeAt_append_new]
  have hold : ∀ j, j < s.heap.length → nodeAt s'.heap j = nodeAt s.heap j := fun j hj => by
    rw [hh, nodeAt_append_left _ hj]
  have hlen : s'.heap.length = s.heap.length + 1 := by rw [hh]; simp
  have hnm : cellAt s' id ≠ .moved := by
    intro h; rw [h] at hst'; cases hst'
  have hnewo : ∀ j, s.heap.length ≤ j → ∀ b, (nodeAt s'.heap j).owner = some b → cellAt s id = .tree b := by
    intro j hj b hb
    by_cases hjl : j = s.heap.length
    · subst hjl
      rw [hnewn, hno, hlo] at hb
      exact ownerOf_eq_some.1 hb
    · exact absurd hb (owner_ge (by omega) b)
  have T : Touch s s' id := by
    refine ⟨by omega, by omega, hcells, hcur, hre, fun j hj _ _ => hold j hj, fun j hj => by rw [hold j hj]; exact ⟨rfl, rfl, rfl⟩,
      fun j hj b hb => Or.inl (hnewo j hj b hb), fun b _ hne => hbin b hne⟩
  obtain ⟨C', hs, hc, habs⟩ := Flurry.Proto.BinK.prepend_store (T' := treeOf s' (cellAt s' id)) (P := fun _ => False)
    (P' := fun _ => False) (H.cinv id) hnext hfresh hT (fun _ _ h => h)
  rw [← hh] at C' hs hc habs
  have hlc : chainC s' (cellAt s' id) = s.heap.length :: chainC s (cellAt s id) := by
    show chainOf s'.heap (startOf s'.tbins (cellAt s' id)) = _
    rw [hst']; exact hc
  have H' : HInv s' := by
    refine T.hinv H X W (by rw [hst']; exact C') ?_ ?_ ?_ ?_ ?_ hnm ?_
    · intro j hj b hb
      have := H.cellOK id b (hnewo j hj b hb)
      omega
    · intro b h hb hf
      by_cases hbl : b < s.tbins.length
      · have hcb : cellAt s' id = .tree b := (cell_of_owner hlo).2 (hb hbl)
        rw [hcb] at hst'
        have : (binAt s'.tbins b).first = some s.heap.length := hst'
        rw [this] at hf
        cases hf; omega
      · rw [binAt_ge (by omega)] at hf
        cases hf
    · intro b hb
      have := H.cellOK id b ((cell_of_owner hlo).1 hb)
      omega
    · intro j hj
      rw [hlc] at hj
      rcases List.mem_cons.1 hj with rfl | hj
      · rw [hnewn]; exact hno
      · rw [hold j ((H.cinv id).chain_lt hj), hlo]; exact H.chainOwner id j hj
    · intro j hj
      have : j = s.heap.length ∨ (j < s.heap.length ∧ (j ∈ chainC s (cellAt s id) ∨ treeOf s (cellAt s id) j)) := by
        rcases hj with hj | hj
        · rw [hlc] at hj
          rcases List.mem_cons.1 hj with hj | hj
          · exact Or.inl hj
          · exact Or.inr ⟨(H.cinv id).chain_lt hj, Or.inl hj⟩
        · exact Or.inr ⟨(hT j hj).1, Or.inr (hT j hj).2⟩
      rcases this with rfl | ⟨hjl, hj'⟩
      · rw [hnewn]; exact hside
      · rw [hold j hjl]; exact H.side id j hj'
    · intro b hb id' hne
      exact fun h => W.tree_ne H X hne h ((cell_of_owner hlo).1 hb)
  refine ⟨H', T, by rw [hlc]; exact hs, hlc, ⟨hnewn, hold⟩, ?_⟩
  refine T.abs_all H X W H' (W.moved_iff X T.cells hnm) (liveId_of_side W hside) ?_
  intro k
  show absL s'.heap (chainOf s'.heap (startOf s'.tbins (cellAt s' id))) k = _
  rw [hst']; exact habs k

/-- a fresh node is put behind the last node of the chain of `id` (list-bin insertion) -/
theorem sappend_store {s s' : State} {id : Cid} (H : HInv s) (X : XInv s) (W : Writable s id) {new : NodeS} {l1 : List Nat} {pr : Nat}
    (hch : chainC s (cellAt s id) = l1 ++ [pr])
    (hh : s'.heap = (s.heap ++ [new]).modify pr (fun m => { m with next := some s.heap.length }))
    (htb : s'.tbins = s.tbins) (hcells : ∀ id', cellAt s' id' = cellAt s id') (hcur : s'.cur = s.cur) (hre : ∀ b j0, Reusing s b j0 → Reusing s' b j0)
    (hnext : new.next = none)
    (hfresh : ∀ j, (j ∈ chainC s (cellAt s id) ∨ treeOf s (cellAt s id) j) → (nodeAt s.heap j).key ≠ new.key)
    (hT : ∀ j, treeOf s' (cellAt s' id) j → j < s.heap.length ∧ treeOf s (cellAt s id) j)
    (hno : new.owner = ownerOf (cellAt s id))
    (hside : new.key % 2 ^ id.1 = id.2) :
    HInv s' ∧ Touch s s' id ∧
      HeapStep s.heap (chainC s (cellAt s id)) (fun _ => False) s'.heap (chainC s' (cellAt s' id)) (fun _ => False) ∧
      chainC s' (cellAt s' id) = chainC s (cellAt s id) ++ [s.heap.length] ∧
      (∀ j, nodeAt s'.heap j = if j = pr then { nodeAt s.heap j with next := some s.heap.length }
        else if j = s.heap.length then new else nodeAt s.heap j) ∧
      ∀ k, absOf s' k = if new.key = k then some new.val else absOf s k := by
  have hcell := hcells id
  have hst : startOf s'.tbins (cellAt s' id) = startOf s.tbins (cellAt s id) := by rw [hcell, htb]
  obtain ⟨C', hs, hc, habs⟩ := Flurry.Proto.BinK.append_store (T' := treeOf s' (cellAt s' id)) (P := fun _ => False)
    (P' := fun _ => False) (H.cinv id) hch hnext hfresh hT (fun _ _ h => h)
  rw [← hh] at C' hs hc habs
  have hlc : chainC s' (cellAt s' id) = chainC s (cellAt s id) ++ [s.heap.length] := by
    show chainOf s'.heap (startOf s'.tbins (cellAt s' id)) = _
    rw [hst]; exact hc
  have hprc : pr ∈ chainC s (cellAt s id) := by rw [hch]; simp
  have hprl := (H.cinv id).chain_lt hprc
  have hlen : s'.heap.length = s.heap.length + 1 := by rw [hh]; simp
  have hnode : ∀ j, nodeAt s'.heap j = if j = pr then { nodeAt s.heap j with next := some s.heap.length }
      else if j = s.heap.length then new else nodeAt s.heap j := by
    intro j
    rw [hh, nodeAt_modify]
    by_cases hj : j = pr
    · subst hj
      rw [if_pos ⟨rfl, by simp; omega⟩, if_pos rfl, nodeAt_append_left _ hprl]
    · rw [if_neg (fun h => hj h.1.symm), if_neg hj]
      by_cases hjl : j = s.heap.length
      · subst hjl; rw [if_pos rfl, nodeAt_append_new]
      · rw [if_neg hjl]
        by_cases hlt : j < s.heap.length
        · exact nodeAt_append_left _ hlt
        · rw [nodeAt_ge (by simp; omega), nodeAt_ge (by omega)]
  have hkeep : ∀ j, j < s.heap.length → (nodeAt s'.heap j).key = (nodeAt s.heap j).key ∧
      (nodeAt s'.heap j).owner = (nodeAt s.heap j).owner ∧ (nodeAt s'.heap j).lock = (nodeAt s.heap j).lock := by
    intro j hj
    rw [hnode]
    split
    · exact ⟨rfl, rfl, rfl⟩
    · rw [if_neg (by omega)]; exact ⟨rfl, rfl, rfl⟩
  have hnewn : nodeAt s'.heap s.heap.length = new := by rw [hnode, if_neg (by omega), if_pos rfl]
  have hnewo : ∀ j, s.heap.length ≤ j → ∀ b, (nodeAt s'.heap j).owner = some b → cellAt s id = .tree b := by
    intro j hj b hb
    by_cases hjl : j = s.heap.length
    · subst hjl
      rw [hnewn, hno] at hb
      exact ownerOf_eq_some.1 hb
    · exact absurd hb (owner_ge (by omega) b)
  have T : Touch s s' id := by
    refine ⟨by omega, by rw [htb]; exact Nat.le_refl _, fun id' _ => hcells id', hcur, hre, ?_, hkeep,
      fun j hj b hb => Or.inl (hnewo j hj b hb), fun b _ _ => by rw [htb]⟩
    intro j hj h1 _
    rw [hnode, if_neg (fun (e : j = pr) => h1 (e ▸ hprc)), if_neg (by omega)]
  have hnm : cellAt s' id ≠ .moved := by rw [hcell]; exact W.not_moved X
  have H' : HInv s' := by
    refine T.hinv H X W (by rw [hst]; exact C') ?_ ?_ ?_ ?_ ?_ hnm ?_
    · intro j hj b hb
      have := H.cellOK id b (hnewo j hj b hb)
      rw [htb]; exact this
    · intro b h _ hf
      rw [htb] at hf
      have := H.firstOK b h hf
      omega
    · intro b hb
      rw [hcell] at hb; rw [htb]; exact H.cellOK id b hb
    · intro j hj
      rw [hlc] at hj
      rw [hcell]
      rcases List.mem_append.1 hj with hj | hj
      · rw [(hkeep j ((H.cinv id).chain_lt hj)).2.1]; exact H.chainOwner id j hj
      · have : j = s.heap.length := by simpa using hj
        subst this
        rw [hnewn]; exact hno
    · intro j hj
      have : j = s.heap.length ∨ (j < s.heap.length ∧ (j ∈ chainC s (cellAt s id) ∨ treeOf s (cellAt s id) j)) := by
        rcases hj with hj | hj
        · rw [hlc] at hj
          rcases List.mem_append.1 hj with hj | hj
          · exact Or.inr ⟨(H.cinv id).chain_lt hj, Or.inl hj⟩
          · exact Or.inl (by simpa using hj)
        · exact Or.inr ⟨(hT j hj).1, Or.inr (hT j hj).2⟩
      rcases this with rfl | ⟨hjl, hj'⟩
      · rw [hnewn]; exact hside
      · rw [(hkeep j hjl).1]; exact H.side id j hj'
    · intro b hb id' hne
      rw [hcell] at hb
      exact fun h => W.tree_ne H X hne h hb
  refine ⟨H', T, by rw [hlc]; exact hs, hlc, hnode, ?_⟩
  refine T.abs_all H X W H' (W.moved_iff X T.cells hnm) (liveId_of_side W hside) ?_
  intro k
  show absL s'.heap (chainOf s'.heap (startOf s'.tbins (cellAt s' id))) k = _
  rw [hst]; exact habs k

/-- the node `i` of the chain of `id` is unlinked: either it is the first node and the start moves to its successor
(the cell `list h → list h' / empty`, or the `first` field of the bin), or the `next` field of its predecessor is
stored -/
theorem sunlink_store {s s' : State} {id : Cid} (H : HInv s) (X : XInv s) (W : Writable s id) {i : Nat}
    (hcase : (∃ l2, chainC s (cellAt s id) = i :: l2 ∧ s'.heap = s.heap ∧
        startOf s'.tbins (cellAt s' id) = (nodeAt s.heap i).next) ∨
      (∃ l1 pr l2, chainC s (cellAt s id) = l1 ++ pr :: i :: l2 ∧
        s'.heap = s.heap.modify pr (fun m => { m with next := (nodeAt s.heap i).next }) ∧
        startOf s'.tbins (cellAt s' id) = startOf s.tbins (cellAt s id)))
    (hT : ∀ j, treeOf s' (cellAt s' id) j → treeOf s (cellAt s id) j)
    (htl : s'.tbins.length = s.tbins.length)
    (hbin : ∀ b, cellAt s id ≠ .tree b → binAt s'.tbins b = binAt s.tbins b)
    (hcells : ∀ id', id' ≠ id → cellAt s' id' = cellAt s id') (hcur : s'.cur = s.cur) (hre : ∀ b j0, Reusing s b j0 → Reusing s' b j0)
    (hlo : ownerOf (cellAt s' id) = ownerOf (cellAt s id)) (hnm : cellAt s' id ≠ .moved) :
    HInv s' ∧ Touch s s' id ∧
      HeapStep s.heap (chainC s (cellAt s id)) (fun _ => False) s'.heap (chainC s' (cellAt s' id)) (fun _ => False) ∧
      (∀ j, j ∈ chainC s' (cellAt s' id) ↔ j ∈ chainC s (cellAt s id) ∧ j ≠ i) ∧ s'.heap.length = s.heap.length ∧
      (∀ j, (nodeAt s'.heap j).key = (nodeAt s.heap j).key ∧ (nodeAt s'.heap j).val = (nodeAt s.heap j).val ∧
        (nodeAt s'.heap j).inTree = (nodeAt s.heap j).inTree ∧ (nodeAt s'.heap j).owner = (nodeAt s.heap j).owner ∧
        (nodeAt s'.heap j).lock = (nodeAt s.heap j).lock) ∧
      ∀ k, absOf s' k = if (nodeAt s.heap i).key = k then none else absOf s k := by
  have hi : i ∈ chainC s (cellAt s id) := by
    rcases hcase with ⟨l2, hch, -, -⟩ | ⟨l1, pr, l2, hch, -, -⟩ <;> rw [hch] <;> simp
  have key : ∃ (_ : CInv s'.heap (startOf s'.tbins (cellAt s' id)) (treeOf s' (cellAt s' id))),
      HeapStep s.heap (chainC s (cellAt s id)) (fun _ => False) s'.heap (chainC s' (cellAt s' id)) (fun _ => False) ∧
      (∀ j, j ∈ chainC s' (cellAt s' id) ↔ j ∈ chainC s (cellAt s id) ∧ j ≠ i) ∧ s'.heap.length = s.heap.length ∧
      (∀ j, (nodeAt s'.heap j).key = (nodeAt s.heap j).key ∧ (nodeAt s'.heap j).val = (nodeAt s.heap j).val ∧
        (nodeAt s'.heap j).inTree = (nodeAt s.heap j).inTree ∧ (nodeAt s'.heap j).owner = (nodeAt s.heap j).owner ∧
        (nodeAt s'.heap j).lock = (nodeAt s.heap j).lock) ∧
      (∀ j, j ∉ chainC s (cellAt s id) → nodeAt s'.heap j = nodeAt s.heap j) ∧
      ∀ k, absL s'.heap (chainC s' (cellAt s' id)) k =
        if (nodeAt s.heap i).key = k then none else absL s.heap (chainC s (cellAt s id)) k := by
    have hnd := (H.cinv id).nodup
    rcases hcase with ⟨l2, hch, hh, hst'⟩ | ⟨l1, pr, l2, hch, hh, hst'⟩
    · obtain ⟨C', hs, hc, habs⟩ := Flurry.Proto.BinK.unlink_head (T' := treeOf s' (cellAt s' id)) (P := fun _ => False)
        (P' := fun _ => False) (H.cinv id) hch hT (fun _ _ h => h)
      have e1 : chainC s' (cellAt s' id) = chainOf s.heap (nodeAt s.heap i).next := by
        show chainOf s'.heap (startOf s'.tbins (cellAt s' id)) = _
        rw [hh, hst']
      have hlc : chainC s' (cellAt s' id) = l2 := by rw [e1]; exact hc
      refine ⟨by rw [hh, hst']; exact C', by rw [e1, hh]; exact hs, ?_, by rw [hh], ?_, ?_, ?_⟩
      · intro j
        rw [hlc, hch]
        have hnd' : (i :: l2).Nodup := hch ▸ hnd
        simp only [List.mem_cons]
        constructor
        · intro hj
          exact ⟨Or.inr hj, fun e => (List.nodup_cons.1 hnd').1 (e ▸ hj)⟩
        · rintro ⟨hj | hj, hne⟩
          · exact absurd hj hne
          · exact hj
      · intro j; rw [hh]; exact ⟨rfl, rfl, rfl, rfl, rfl⟩
      · intro j _; rw [hh]
      · intro k
        rw [e1, hh]
        exact habs k
    · obtain ⟨C', hs, hc, hf, habs⟩ := Flurry.Proto.BinK.unlink_mid (T' := treeOf s' (cellAt s' id)) (P := fun _ => False)
        (P' := fun _ => False) (H.cinv id) hch hT (fun _ _ h => h)
      have e1 : chainC s' (cellAt s' id) = chainOf (s.heap.modify pr (fun m => { m with next := (nodeAt s.heap i).next }))
          (startOf s.tbins (cellAt s id)) := by
        show chainOf s'.heap (startOf s'.tbins (cellAt s' id)) = _
        rw [hh, hst']
      have hlc : chainC s' (cellAt s' id) = l1 ++ pr :: l2 := by rw [e1]; exact hc
      have hprc : pr ∈ chainC s (cellAt s id) := by rw [hch]; simp
      refine ⟨by rw [hh, hst']; exact C', by rw [e1, hh]; exact hs, ?_,
        by rw [hh, List.length_modify], by rw [hh]; exact hf, ?_, ?_⟩
      · intro j
        rw [hlc, hch]
        have hnd' : (l1 ++ pr :: i :: l2).Nodup := hch ▸ hnd
        have h5 := List.nodup_append.1 hnd'
        have hpri : pr ≠ i := by
          intro he; subst he
          have := h5.2.1
          simp at this
        simp only [List.mem_append, List.mem_cons]
        constructor
        · intro hj
          refine ⟨by rcases hj with hj | hj | hj <;> simp [hj], ?_⟩
          rintro rfl
          rcases hj with hj | hj | hj
          · exact h5.2.2 j hj j (by simp) rfl
          · exact hpri hj.symm
          · have := (List.nodup_cons.1 (List.nodup_cons.1 h5.2.1).2).1
            exact this hj
        · rintro ⟨hj | hj | hj | hj, hne⟩
          · exact Or.inl hj
          · exact Or.inr (Or.inl hj)
          · exact absurd hj hne
          · exact Or.inr (Or.inr hj)
      · intro j hj
        rw [hh]
        exact nodeAt_modify_ne _ (fun (e : pr = j) => hj (e ▸ hprc))
      · intro k
        rw [e1, hh]
        exact habs k
  obtain ⟨C', hs, hmem, hlen, hf, hoff, habs⟩ := key
  have T : Touch s s' id := by
    refine ⟨by omega, by omega, hcells, hcur, hre, fun j _ h1 _ => hoff j h1,
      fun j _ => ⟨(hf j).1, (hf j).2.2.2.1, (hf j).2.2.2.2⟩, ?_, fun b _ hne => hbin b hne⟩
    intro j hj b hb
    exact absurd hb (owner_ge (by omega) b)
  have H' : HInv s' := by
    refine T.hinv H X W C' ?_ ?_ ?_ ?_ ?_ hnm ?_
    · intro j hj b hb
      exact absurd hb (owner_ge (by omega) b)
    · intro b h hb hf'
      by_cases hbl : b < s.tbins.length
      · have hcb : cellAt s' id = .tree b := (cell_of_owner hlo).2 (hb hbl)
        refine C'.startOK h ?_
        rw [hcb]; exact hf'
      · rw [binAt_ge (by omega)] at hf'
        cases hf'
    · intro b hb
      have := H.cellOK id b ((cell_of_owner hlo).1 hb)
      omega
    · intro j hj
      rw [(hf j).2.2.2.1, hlo]
      exact H.chainOwner id j ((hmem j).1 hj).1
    · intro j hj
      rw [(hf j).1]
      refine H.side id j ?_
      rcases hj with hj | hj
      · exact Or.inl ((hmem j).1 hj).1
      · exact Or.inr (hT j hj)
    · intro b hb id' hne
      exact fun h => W.tree_ne H X hne h ((cell_of_owner hlo).1 hb)
  exact ⟨H', T, hs, hmem, hlen, hf,
    T.abs_all H X W H' (W.moved_iff X T.cells hnm) (W.liveId_of_mem H (Or.inl hi)) habs⟩

namespace Store

/-- `convert_store` of `Lemmas/BinKBasic.lean` with the copy described as a set (distinct keys, every node has a
source, every old node has a copy) instead of position by position -/
theorem convert_cover {heap heap' : List NodeS} {st st' : Option Nat} {T T' P P' : Nat → Prop} {L' : List Nat}
    (C : CInv heap st T) (hok' : NextOK heap') (hlen : heap.length ≤ heap'.length)
    (hold : ∀ j, j < heap.length → nodeAt heap' j = nodeAt heap j)
    (hch' : IsChain heap' st' L')
    (hdist : ∀ a b, a ∈ L' → b ∈ L' → (nodeAt heap' a).key = (nodeAt heap' b).key → a = b)
    (hsrc : ∀ j ∈ L', ∃ i ∈ chainOf heap st, (nodeAt heap i).key = (nodeAt heap' j).key ∧
      (nodeAt heap i).val = (nodeAt heap' j).val)
    (hcov : ∀ i ∈ chainOf heap st, ∃ j ∈ L', (nodeAt heap' j).key = (nodeAt heap i).key ∧
      (nodeAt heap' j).val = (nodeAt heap i).val)
    (hnew : ∀ j ∈ L', j ∉ chainOf heap st ∧ (heap.length ≤ j ∨ P j))
    (hT : ∀ j, T' j → j ∈ L') (hP : ∀ j, j < heap.length → P' j → P j) :
    CInv heap' st' T' ∧ HeapStep heap (chainOf heap st) P heap' L' P' ∧ chainOf heap' st' = L' ∧
      ∀ k, absL heap' L' k = absL heap (chainOf heap st) k := by
  have hc : chainOf heap' st' = L' := chainOf_eq hok' hch'
  refine ⟨⟨hok', fun h hh => ?_, ?_⟩, ⟨hlen, fun j hj => by rw [hold j hj],
    fun j hj _ => by rw [hold j hj]; exact ⟨rfl, rfl⟩, hP, ?_, ?_, ?_⟩, hc, ?_⟩
  · obtain ⟨l, hl⟩ := Flurry.Proto.BinK.IsChain.start_some (hh ▸ hch')
    exact hch'.lt_length h (by rw [hl]; simp)
  · intro a b ha hb hab
    rw [hc] at ha hb
    have ha' : a ∈ L' := by rcases ha with h | h; exact h; exact hT a h
    have hb' : b ∈ L' := by rcases hb with h | h; exact h; exact hT b h
    exact hdist a b ha' hb' hab
  · intro j hj
    exact Or.inr (hnew j hj).2
  · intro i c hi _ h
    have : i ∈ L' := h.subset (by simp)
    exact absurd hi (hnew i this).1
  · intro j _ _ c hc1 hc2
    exact absurd hc1 (hnew c hc2).1
  · intro k
    cases ha : absL heap (chainOf heap st) k with
    | none =>
      rw [Flurry.Proto.BinK.absL_eq_none_iff] at ha ⊢
      intro j hj
      obtain ⟨i, hi, hk, -⟩ := hsrc j hj
      rw [← hk]; exact ha i hi
    | some w =>
      rw [Flurry.Proto.BinK.absL_eq_some_iff C.distinct] at ha
      obtain ⟨i, hi, hik, hiv⟩ := ha
      obtain ⟨j, hj, hjk, hjv⟩ := hcov i hi
      rw [Flurry.Proto.BinK.absL_eq_some_iff hdist]
      exact ⟨j, hj, by rw [hjk, hik], by rw [hjv, hiv]⟩

/-- a copy position by position is a copy as a set -/
theorem cover_of_pointwise {heap heap' : List NodeS} {L L' : List Nat} (hnd : L.Nodup)
    (hd : ∀ i j, i ∈ L → j ∈ L → (nodeAt heap i).key = (nodeAt heap j).key → i = j)
    (hLlen : L'.length = L.length)
    (hkv : ∀ j, j < L.length → (nodeAt heap' (L'.getD j 0)).key = (nodeAt heap (L.getD j 0)).key ∧
      (nodeAt heap' (L'.getD j 0)).val = (nodeAt heap (L.getD j 0)).val) :
    (∀ a b, a ∈ L' → b ∈ L' → (nodeAt heap' a).key = (nodeAt heap' b).key → a = b) ∧
    (∀ j ∈ L', ∃ i ∈ L, (nodeAt heap i).key = (nodeAt heap' j).key ∧ (nodeAt heap i).val = (nodeAt heap' j).val) ∧
    (∀ i ∈ L, ∃ j ∈ L', (nodeAt heap' j).key = (nodeAt heap i).key ∧ (nodeAt heap' j).val = (nodeAt heap i).val) := by
  have hget : ∀ p (hp : p < L'.length) (hp' : p < L.length),
      (nodeAt heap' L'[p]).key = (nodeAt heap L[p]).key ∧ (nodeAt heap' L'[p]).val = (nodeAt heap L[p]).val := by
    intro p hp hp'
    have e1 : L'.getD p 0 = L'[p] := by simp [List.getD_eq_getElem?_getD, hp]
    have e2 : L.getD p 0 = L[p] := by simp [List.getD_eq_getElem?_getD, hp']
    have := hkv p hp'
    rw [e1, e2] at this
    exact this
  refine ⟨?_, ?_, ?_⟩
  · intro a b ha hb hab
    obtain ⟨ia, hia, rfl⟩ := List.getElem_of_mem ha
    obtain ⟨ib, hib, rfl⟩ := List.getElem_of_mem hb
    have hia' : ia < L.length := by omega
    have hib' : ib < L.length := by omega
    rw [(hget ia hia hia').1, (hget ib hib hib').1] at hab
    have := hd _ _ (List.getElem_mem hia') (List.getElem_mem hib') hab
    have hidx : ia = ib := (List.getElem_inj hnd).1 this
    subst hidx; rfl
  · intro j hj
    obtain ⟨p, hp, rfl⟩ := List.getElem_of_mem hj
    have hp' : p < L.length := by omega
    exact ⟨L[p], List.getElem_mem hp', (hget p hp hp').1.symm, (hget p hp hp').2.symm⟩
  · intro i hi
    obtain ⟨p, hp', rfl⟩ := List.getElem_of_mem hi
    have hp : p < L'.length := by omega
    exact ⟨L'[p], List.getElem_mem hp, (hget p hp hp').1, (hget p hp hp').2⟩

end Store

/-- the cell `id` is switched to a copy `L'` of its chain (treeify: the nodes of `L'` are the private nodes of the
`kStore` thread; untreeify: they are new); the copy is described as a set: distinct keys, every node of `L'` has a
source on the old chain, every node of the old chain has a copy (this is what `CopyOK` provides) -/
theorem sconvert_store_cover {s s' : State} {id : Cid} (H : HInv s) (X : XInv s) (W : Writable s id) {L' : List Nat}
    (hok' : NextOK s'.heap) (hlen : s.heap.length ≤ s'.heap.length)
    (hold : ∀ j, j < s.heap.length → nodeAt s'.heap j = nodeAt s.heap j)
    (htb : s'.tbins = s.tbins)
    (hcells : ∀ id', id' ≠ id → cellAt s' id' = cellAt s id') (hcur : s'.cur = s.cur) (hre : ∀ b j0, Reusing s b j0 → Reusing s' b j0)
    (hch' : IsChain s'.heap (startOf s'.tbins (cellAt s' id)) L')
    (hdist : ∀ a b, a ∈ L' → b ∈ L' → (nodeAt s'.heap a).key = (nodeAt s'.heap b).key → a = b)
    (hsrc : ∀ j ∈ L', ∃ i ∈ chainC s (cellAt s id), (nodeAt s.heap i).key = (nodeAt s'.heap j).key ∧
      (nodeAt s.heap i).val = (nodeAt s'.heap j).val)
    (hcov : ∀ i ∈ chainC s (cellAt s id), ∃ j ∈ L', (nodeAt s'.heap j).key = (nodeAt s.heap i).key ∧
      (nodeAt s'.heap j).val = (nodeAt s.heap i).val)
    (hnew : ∀ j ∈ L', j ∉ chainC s (cellAt s id) ∧ (s.heap.length ≤ j ∨ PrivK s j))
    (hT : ∀ j, treeOf s' (cellAt s' id) j → j ∈ L')
    (hnewOwner : ∀ j, s.heap.length ≤ j → ∀ b, (nodeAt s'.heap j).owner = some b → cellAt s id = .tree b)
    (hC : ∀ b, cellAt s' id = .tree b → b < s'.tbins.length)
    (hown : ∀ j ∈ L', (nodeAt s'.heap j).owner = ownerOf (cellAt s' id))
    (hnm : cellAt s' id ≠ .moved)
    (hbd : ∀ b, cellAt s' id = .tree b → ∀ id', id' ≠ id → cellAt s id' ≠ .tree b) :
    HInv s' ∧ Touch s s' id ∧
      HeapStep s.heap (chainC s (cellAt s id)) (PrivK s) s'.heap (chainC s' (cellAt s' id)) (fun _ => False) ∧
      chainC s' (cellAt s' id) = L' ∧ ∀ k, absOf s' k = absOf s k := by
  obtain ⟨C', hs, hc, habs⟩ := convert_cover (T' := treeOf s' (cellAt s' id)) (P := PrivK s)
    (P' := fun _ => False) (H.cinv id) hok' hlen hold hch' hdist hsrc hcov hnew hT (fun _ _ h => h.elim)
  have hlc : chainC s' (cellAt s' id) = L' := hc
  have T : Touch s s' id := by
    refine ⟨hlen, by rw [htb]; exact Nat.le_refl _, hcells, hcur, hre, fun j hj _ _ => hold j hj,
      fun j hj => by rw [hold j hj]; exact ⟨rfl, rfl, rfl⟩, fun j hj b hb => Or.inl (hnewOwner j hj b hb),
      fun b _ _ => by rw [htb]⟩
  have H' : HInv s' := by
    refine T.hinv H X W C' ?_ ?_ hC ?_ ?_ hnm hbd
    · intro j hj b hb
      have := H.cellOK id b (hnewOwner j hj b hb)
      rw [htb]; exact this
    · intro b h _ hf
      rw [htb] at hf
      have := H.firstOK b h hf
      omega
    · intro j hj; rw [hlc] at hj; exact hown j hj
    · intro j hj
      have hj' : j ∈ L' := by
        rcases hj with hj | hj
        · exact hlc ▸ hj
        · exact hT j hj
      obtain ⟨i, hi, hk, -⟩ := hsrc j hj'
      rw [← hk]
      exact H.side id i (Or.inl hi)
  refine ⟨H', T, by rw [hlc]; exact hs, hlc, ?_⟩
  refine T.abs_none H X W H' (W.moved_iff X T.cells hnm) ?_
  intro k
  rw [hlc]; exact habs k

/-- `sconvert_store_cover` with the copy described position by position, as in `Lemmas/BinKStore.lean` -/
theorem sconvert_store {s s' : State} {id : Cid} (H : HInv s) (X : XInv s) (W : Writable s id) {L' : List Nat}
    (hok' : NextOK s'.heap) (hlen : s.heap.length ≤ s'.heap.length)
    (hold : ∀ j, j < s.heap.length → nodeAt s'.heap j = nodeAt s.heap j)
    (htb : s'.tbins = s.tbins)
    (hcells : ∀ id', id' ≠ id → cellAt s' id' = cellAt s id') (hcur : s'.cur = s.cur) (hre : ∀ b j0, Reusing s b j0 → Reusing s' b j0)
    (hch' : IsChain s'.heap (startOf s'.tbins (cellAt s' id)) L') (hLlen : L'.length = (chainC s (cellAt s id)).length)
    (hkv : ∀ j, j < (chainC s (cellAt s id)).length →
      (nodeAt s'.heap (L'.getD j 0)).key = (nodeAt s.heap ((chainC s (cellAt s id)).getD j 0)).key ∧
      (nodeAt s'.heap (L'.getD j 0)).val = (nodeAt s.heap ((chainC s (cellAt s id)).getD j 0)).val)
    (hnew : ∀ j ∈ L', j ∉ chainC s (cellAt s id) ∧ (s.heap.length ≤ j ∨ PrivK s j))
    (hT : ∀ j, treeOf s' (cellAt s' id) j → j ∈ L')
    (hnewOwner : ∀ j, s.heap.length ≤ j → ∀ b, (nodeAt s'.heap j).owner = some b → cellAt s id = .tree b)
    (hC : ∀ b, cellAt s' id = .tree b → b < s'.tbins.length)
    (hown : ∀ j ∈ L', (nodeAt s'.heap j).owner = ownerOf (cellAt s' id))
    (hnm : cellAt s' id ≠ .moved)
    (hbd : ∀ b, cellAt s' id = .tree b → ∀ id', id' ≠ id → cellAt s id' ≠ .tree b) :
    HInv s' ∧ Touch s s' id ∧
      HeapStep s.heap (chainC s (cellAt s id)) (PrivK s) s'.heap (chainC s' (cellAt s' id)) (fun _ => False) ∧
      chainC s' (cellAt s' id) = L' ∧ ∀ k, absOf s' k = absOf s k := by
  obtain ⟨hdist, hsrc, hcov⟩ := cover_of_pointwise (H.cinv id).nodup (H.cinv id).distinct hLlen hkv
  exact sconvert_store_cover H X W hok' hlen hold htb hcells hcur hre hch' hdist hsrc hcov hnew hT hnewOwner hC hown hnm hbd

/-! ### private allocation: nodes at the end of the heap, `TreeBin`s at the end of the table; no cell changes
(`Writable` is not needed: nothing that exists is stored to) -/

namespace Store

/-- the list of any structure that exists in `s` is unchanged by an allocation -/
theorem chainC_grow {s s' : State} (hok : NextOK s.heap) (hok' : NextOK s'.heap) (hlen : s.heap.length ≤ s'.heap.length)
    (hold : ∀ j, j < s.heap.length → nodeAt s'.heap j = nodeAt s.heap j)
    (hbin : ∀ b, b < s.tbins.length → binAt s'.tbins b = binAt s.tbins b) {C : Cell}
    (hst : ∀ h, startOf s.tbins C = some h → h < s.heap.length) (hb : ∀ b, C = .tree b → b < s.tbins.length) :
    startOf s'.tbins C = startOf s.tbins C ∧ chainC s' C = chainC s C := by
  have hst' : startOf s'.tbins C = startOf s.tbins C := by
    cases C with
    | empty => rfl
    | list h => rfl
    | moved => rfl
    | tree b =>
      show (binAt s'.tbins b).first = (binAt s.tbins b).first
      rw [hbin b (hb b rfl)]
  refine ⟨hst', ?_⟩
  unfold chainC
  rw [hst']
  have hch := chainOf_isChain hok (startOf s.tbins C) hst
  refine chainOf_eq hok' (hch.congr ?_)
  intro j hj n hn
  have hjl : j < s.heap.length := (List.getElem?_eq_some_iff.1 hn).1
  refine ⟨nodeAt s'.heap j, getElem?_nodeAt (by omega), ?_⟩
  rw [hold j hjl, nodeAt_of_some hn]

end Store

/-- nodes are allocated at the end of the heap and `TreeBin`s at the end of the table; the new nodes belong to new
`TreeBin`s or to none -/
theorem sgrow_store {s s' : State} (H : HInv s) (X : XInv s) {ext : List NodeS}
    (hh : s'.heap = s.heap ++ ext) (hok' : NextOK (s.heap ++ ext))
    (hcells : ∀ id, cellAt s' id = cellAt s id) (hcur : s'.cur = s.cur) (hre : ∀ b j0, Reusing s b j0 → Reusing s' b j0)
    (htl : s.tbins.length ≤ s'.tbins.length)
    (hbin : ∀ b, b < s.tbins.length → binAt s'.tbins b = binAt s.tbins b)
    (hno : ∀ j, s.heap.length ≤ j → ∀ b, (nodeAt s'.heap j).owner = some b → s.tbins.length ≤ b ∧ b < s'.tbins.length)
    (hF : ∀ b h, s.tbins.length ≤ b → (binAt s'.tbins b).first = some h → h < s'.heap.length) :
    HInv s' ∧
      (∀ id, Touch s s' id ∧
        HeapStep s.heap (chainC s (cellAt s id)) (fun _ => False) s'.heap (chainC s' (cellAt s' id)) (fun _ => False) ∧
        chainC s' (cellAt s' id) = chainC s (cellAt s id)) ∧
      ∀ k, absOf s' k = absOf s k := by
  have hold : ∀ j, j < s.heap.length → nodeAt s'.heap j = nodeAt s.heap j := fun j hj => by
    rw [hh, nodeAt_append_left _ hj]
  have hlen : s.heap.length ≤ s'.heap.length := by rw [hh]; simp
  have hst : ∀ id, startOf s'.tbins (cellAt s' id) = startOf s.tbins (cellAt s id) := by
    intro id
    rw [hcells id]
    cases hc : cellAt s id with
    | empty => rfl
    | list h => rfl
    | moved => rfl
    | tree b =>
      show (binAt s'.tbins b).first = (binAt s.tbins b).first
      rw [hbin b (H.cellOK id b hc)]
  have hT : ∀ id j, treeOf s' (cellAt s' id) j → j < s.heap.length ∧ treeOf s (cellAt s id) j := by
    intro id j hj
    obtain ⟨h1, h2, b, h3, h4⟩ := hj
    rw [hcells id] at h3
    by_cases hjl : j < s.heap.length
    · rw [hold j hjl] at h2 h4
      exact ⟨hjl, hjl, h2, b, h3, h4⟩
    · exfalso
      have := (hno j (by omega) b h4).1
      have := H.cellOK id b h3
      omega
  have hall : ∀ id, CInv s'.heap (startOf s'.tbins (cellAt s' id)) (treeOf s' (cellAt s' id)) ∧
      HeapStep s.heap (chainC s (cellAt s id)) (fun _ => False) s'.heap (chainC s' (cellAt s' id)) (fun _ => False) ∧
      chainC s' (cellAt s' id) = chainC s (cellAt s id) ∧
      ∀ k, absL s'.heap (chainC s' (cellAt s' id)) k = absL s.heap (chainC s (cellAt s id)) k := by
    intro id
    obtain ⟨C', hs, hc, habs⟩ := Flurry.Proto.BinK.grow_store (T' := treeOf s' (cellAt s' id)) (P := fun _ => False)
      (P' := fun _ => False) (H.cinv id) hok' (hT id) (fun _ _ h => h)
    rw [← hh] at C' hs hc habs
    have hlc : chainC s' (cellAt s' id) = chainC s (cellAt s id) := by
      show chainOf s'.heap (startOf s'.tbins (cellAt s' id)) = _
      rw [hst id]; exact hc
    refine ⟨by rw [hst id]; exact C', by rw [hlc]; exact hs, hlc, ?_⟩
    intro k
    show absL s'.heap (chainOf s'.heap (startOf s'.tbins (cellAt s' id))) k = _
    rw [hst id]; exact habs k
  have hT0 : ∀ id, Touch s s' id := by
    intro id
    refine ⟨hlen, htl, fun id' _ => hcells id', hcur, hre, fun j hj _ _ => hold j hj,
      fun j hj => by rw [hold j hj]; exact ⟨rfl, rfl, rfl⟩, fun j hj b hb => Or.inr (hno j hj b hb).1,
      fun b hb _ => hbin b hb⟩
  have H' : HInv s' := by
    refine ⟨fun id => (hall id).1, ?_, ?_, ?_, ?_, ?_, ?_⟩
    · intro j b hj
      by_cases hjl : j < s.heap.length
      · rw [hold j hjl] at hj
        have := H.ownerOK j b hj
        omega
      · exact (hno j (by omega) b hj).2
    · intro b h hf
      by_cases hb : b < s.tbins.length
      · rw [hbin b hb] at hf
        have := H.firstOK b h hf
        omega
      · exact hF b h (by omega) hf
    · intro id b hb
      rw [hcells id] at hb
      have := H.cellOK id b hb
      omega
    · intro id j hj
      rw [(hall id).2.2.1] at hj
      rw [hold j ((H.cinv id).chain_lt hj), hcells id]
      exact H.chainOwner id j hj
    · intro id j hj
      have hj' : j < s.heap.length ∧ (j ∈ chainC s (cellAt s id) ∨ treeOf s (cellAt s id) j) := by
        rcases hj with hj | hj
        · rw [(hall id).2.2.1] at hj
          exact ⟨(H.cinv id).chain_lt hj, Or.inl hj⟩
        · exact ⟨(hT id j hj).1, Or.inr (hT id j hj).2⟩
      rw [hold j hj'.1]
      exact H.side id j hj'.2
    · intro id1 id2 b h1 h2
      rw [hcells id1] at h1
      rw [hcells id2] at h2
      rcases H.binsDistinct id1 id2 b h1 h2 with e | ⟨j0, hr, hc⟩
      · exact Or.inl e
      · exact Or.inr ⟨j0, hre b j0 hr, by rw [hcur]; exact hc⟩
  refine ⟨H', fun id => ⟨hT0 id, (hall id).2.1, (hall id).2.2.1⟩, ?_⟩
  intro k
  have hmv : ∀ id', cellAt s' id' = .moved ↔ cellAt s id' = .moved := fun id' => by rw [hcells id']
  rw [absOf_eq, absOf_eq, LC_eq_live (newNotMoved_of X hcur hmv), LC_eq_live X.newNotMoved, liveId_congr hcur hmv]
  exact (hall (liveId s k)).2.2.2 k

/-! ## 3. `KStep` for every key -/

namespace Store

theorem threads_set_cases {ls : List Local} {t t' : Nat} {l' l'' : Local} (h : (ls.set t l')[t']? = some l'') :
    (t' = t ∧ l'' = l') ∨ (t' ≠ t ∧ ls[t']? = some l'') := by
  rw [List.getElem?_set] at h
  split at h
  · rename_i e
    split at h
    · cases h; exact Or.inl ⟨e.symm, rfl⟩
    · cases h
  · rename_i e
    exact Or.inr ⟨fun e' => e e'.symm, h⟩

/-- no thread gets a new private `TreeBin`: a private node of a treeify was one before -/
theorem privK_back {s s' : State} {t : Nat} {l l' : Local} (hl : s.threads[t]? = some l)
    (hthr : s'.threads = s.threads.set t l')
    (hk : ∀ tab k h b, l'.pc = .kStore tab k h b → l.pc = .kStore tab k h b) {j : Nat}
    (ho : (nodeAt s'.heap j).owner = (nodeAt s.heap j).owner) (h : PrivK s' j) : PrivK s j := by
  obtain ⟨t', l'', tab, k, h0, b, hl'', hpc, hown⟩ := h
  rw [hthr] at hl''
  rw [ho] at hown
  rcases threads_set_cases hl'' with ⟨rfl, rfl⟩ | ⟨_, hl0⟩
  · exact ⟨t', l, tab, k, h0, b, hl, hk tab k h0 b hpc, hown⟩
  · exact ⟨t', l'', tab, k, h0, b, hl0, hpc, hown⟩

/-- the pending structures of the resizing thread are well-formed -/
theorem pend_copyOK {s : State} {pc : Pc} {C : Cell} (hx : xPc pc = true) (hp : XPc s pc) (hC : C ∈ pend s pc) :
    ∃ j0 sel, xIdx pc = some j0 ∧ xPre pc = true ∧ CopyOK s (cellAt s (s.cur, j0)) sel C := by
  cases pc <;> simp [xPc] at hx <;> simp only [pend, List.mem_cons, List.not_mem_nil, or_false] at hC
  all_goals first
    | exact hC.elim
    | (rcases hC with rfl | rfl
       · exact ⟨_, _, rfl, rfl, hp.low⟩
       · exact ⟨_, _, rfl, rfl, hp.high⟩)

/-- the pending structures depend on the children of the cell under transfer only -/
theorem pend_congr {s s' : State} {pc : Pc} (hcur : s'.cur = s.cur)
    (h : ∀ j0, xIdx pc = some j0 → cellAt s' (s.cur + 1, j0) = cellAt s (s.cur + 1, j0) ∧
      cellAt s' (s.cur + 1, j0 + 2 ^ s.cur) = cellAt s (s.cur + 1, j0 + 2 ^ s.cur)) :
    pend s' pc = pend s pc := by
  cases pc <;> simp only [pend, hcur]
  all_goals first
    | rfl
    | (rw [(h _ rfl).1])
    | skip
  all_goals first
    | rfl
    | (rw [(h _ rfl).2])

/-- the key of a node of a structure that holds a part of the chain of `(cur, j0)` -/
theorem copy_key {s : State} (H : HInv s) {j0 : Nat} {sel : Nat → Bool} {C : Cell}
    (hcp : CopyOK s (cellAt s (s.cur, j0)) sel C) {j : Nat} (hj : j ∈ chainC s C) :
    (nodeAt s.heap j).key % 2 ^ s.cur = j0 := by
  by_cases hjo : j ∈ chainC s (cellAt s (s.cur, j0))
  · exact H.side (s.cur, j0) j (Or.inl hjo)
  · obtain ⟨i, hi, hk, -⟩ := hcp.src j hj hjo
    rw [← hk]
    exact H.side (s.cur, j0) i (Or.inl hi)

end Store

/-- a key of `id` is not a key of the cell under transfer -/
theorem Writable.key_ne {s : State} {id : Cid} (W : Writable s id) {j0 : Nat}
    (hnp : id ≠ (s.cur, j0) ∧ ¬ (id.1 = s.cur + 1 ∧ id.2 % 2 ^ s.cur = j0)) {k : Nat}
    (hk : k % 2 ^ id.1 = id.2) : k % 2 ^ s.cur ≠ j0 := by
  obtain ⟨g, j⟩ := id
  intro h
  rcases W.act with ⟨hg, _⟩ | ⟨hg, _⟩
  · simp only at hg hk; subst hg
    exact hnp.1 (by rw [← hk, h])
  · simp only at hg hk; subst hg
    exact hnp.2 ⟨rfl, by simp only; rw [← hk, mod_succ_mod]; exact h⟩

/-- a pending structure of a transfer (of another cell) is part of the frame of a store into the structure of `id`:
neither the cell under transfer nor its children are `id`, and the structure shares no node and no `TreeBin`
with that of `id` -/
theorem Writable.pend_frame {s : State} {id : Cid} (W : Writable s id) (H : HInv s) (X : XInv s)
    {t : Nat} {l : Local} {C : Cell} (hl : s.threads[t]? = some l) (hx : xPc l.pc = true) (hC : C ∈ pend s l.pc) :
    ∃ j0, xIdx l.pc = some j0 ∧ (s.cur, j0) ≠ id ∧ (s.cur + 1, j0) ≠ id ∧ (s.cur + 1, j0 + 2 ^ s.cur) ≠ id ∧
      (∀ h, startOf s.tbins C = some h → h < s.heap.length) ∧
      (∀ j ∈ chainC s C, j ∉ chainC s (cellAt s id) ∧ ¬ treeOf s (cellAt s id) j) ∧
      (∀ b, C = .tree b → cellAt s id ≠ .tree b ∧ b < s.tbins.length) := by
  obtain ⟨j0, sel, hi, hp, hcp⟩ := pend_copyOK hx (X.plan t l hl) hC
  have hpe : pend s l.pc ≠ [] := by intro h; rw [h] at hC; cases hC
  have hnp := W.not_parent X hl hi hp hpe
  have hlt := X.idx t l j0 hl hi
  have hkey : ∀ j, (j ∈ chainC s (cellAt s id) ∨ treeOf s (cellAt s id) j) → j ∉ chainC s C := by
    intro j hj hjC
    exact W.key_ne hnp (H.side id j hj) (copy_key H hcp hjC)
  refine ⟨j0, hi, fun e => hnp.1 e.symm, ?_, ?_, hcp.cinv.startOK, ?_, ?_⟩
  · intro e
    exact hnp.2 ⟨by rw [← e], by rw [← e]; exact Nat.mod_eq_of_lt hlt⟩
  · intro e
    exact hnp.2 ⟨by rw [← e], by rw [← e]; exact add_pow_mod hlt⟩
  · intro j hj
    exact ⟨fun h => hkey j (Or.inl h) hj, fun h => hkey j (Or.inr h) hj⟩
  · intro b hb
    refine ⟨?_, hcp.cellOK b hb⟩
    intro hid
    by_cases ho : cellAt s (s.cur, j0) = .tree b
    · exact W.tree_ne H X (fun e => hnp.1 e.symm) ho hid
    · refine W.noPriv b hid ⟨t, l, hl, hb ▸ hC, ?_⟩
      intro j hj
      rw [hi] at hj
      cases hj
      exact ho

/-- no node of the structure of `id` is a private node of a transfer -/
theorem Writable.not_privX {s : State} {id : Cid} (W : Writable s id) (H : HInv s) (X : XInv s) {j : Nat}
    (hj : j ∈ chainC s (cellAt s id) ∨ treeOf s (cellAt s id) j) : ¬ PrivX s j := by
  rintro ⟨t, l, C, hl, hx, hC, hjC, -⟩
  obtain ⟨j0, -, -, -, -, -, hd, -⟩ := W.pend_frame H X hl hx hC
  rcases hj with hj | hj
  · exact (hd j hjC).1 hj
  · exact (hd j hjC).2 hj

/-- a private node of a transfer after the step was one before, and is outside the structure of `id` -/
theorem Touch.privX_back {s s' : State} {id : Cid} {t : Nat} {l' : Local} (T : Touch s s' id) (H : HInv s) (X : XInv s)
    (W : Writable s id) (hok' : NextOK s'.heap)
    (hthr : s'.threads = s.threads.set t l') (hx : xPc l'.pc = true → pend s' l'.pc = []) {j : Nat}
    (h : PrivX s' j) : PrivX s j ∧ j ∉ chainC s (cellAt s id) := by
  obtain ⟨t', l'', C, hl'', hxp, hC, hjC, hj0⟩ := h
  rw [hthr] at hl''
  rcases threads_set_cases hl'' with ⟨rfl, rfl⟩ | ⟨_, hl0⟩
  · rw [hx hxp] at hC; cases hC
  · have hpe : pend s l''.pc ≠ [] := by
      intro h
      rw [pend_nil_indep (s' := s') h] at hC; cases hC
    obtain ⟨C0, hC0⟩ : ∃ C0, C0 ∈ pend s l''.pc := by
      cases hp : pend s l''.pc with
      | nil => exact absurd hp hpe
      | cons a _ => exact ⟨a, by simp⟩
    obtain ⟨j0, hi, hn0, hn1, hn2, -, -, -⟩ := W.pend_frame H X hl0 hxp hC0
    have hpc : pend s' l''.pc = pend s l''.pc := by
      refine pend_congr T.cur ?_
      intro j1 hj1
      rw [hi] at hj1; cases hj1
      exact ⟨T.cells _ hn1, T.cells _ hn2⟩
    rw [hpc] at hC
    obtain ⟨_, _, _, _, _, hst, hd, hb⟩ := W.pend_frame H X hl0 hxp hC
    have hch := (T.chain_frame H hok' hst hd hb).1
    rw [hch] at hjC
    refine ⟨⟨t', l'', C, hl0, hxp, hC, hjC, ?_⟩, (hd j hjC).1⟩
    intro j1 hj1
    have := hj0 j1 hj1
    rw [hi] at hj1; cases hj1
    rw [T.cur, (T.other H X W hok' hn0).1] at this
    exact this

/-- a node that leaves the chain of `id` is dead -/
theorem Touch.left_dead {s s' : State} {id : Cid} {t : Nat} {l l' : Local} (T : Touch s s' id) (I : Inv s)
    (W : Writable s id) (H' : HInv s')
    (hl : s.threads[t]? = some l) (hthr : s'.threads = s.threads.set t l')
    (hk : ∀ tab k h b, l'.pc = .kStore tab k h b → l.pc = .kStore tab k h b)
    (hx : xPc l'.pc = true → pend s' l'.pc = []) {c : Nat}
    (hc : c ∈ chainC s (cellAt s id)) (hc' : c ∉ chainC s' (cellAt s' id)) : ¬ Used s' c := by
  have H := I.heap
  have X := I.rsz
  have hcl : c < s.heap.length := (H.cinv id).chain_lt hc
  rintro (⟨id', hu⟩ | hu | hu)
  · by_cases hne : id' = id
    · subst hne; exact hc' hu
    · rw [(T.other H X W H'.nextOK hne).1] at hu
      exact W.disj H X hne (Or.inl hu) (Or.inl hc)
  · obtain ⟨t', l'', tab, k, h0, b, hl'', hpc, hown⟩ := privK_back hl hthr hk (T.keep c hcl).2.1 hu
    have h1 := H.chainOwner id c hc
    rw [hown] at h1
    have h2 := (I.data.kInv t' l'' hl'')
    rw [hpc] at h2
    exact h2.2 id (ownerOf_eq_some.1 h1.symm)
  · exact (T.privX_back H X W H'.nextOK hthr hx hu).2 hc

theorem kstep_of_store {s s' : State} {id : Cid} {t : Nat} {l l' : Local} {P P' : Nat → Prop}
    (I : Inv s) (W : Writable s id) (H' : HInv s') (T : Touch s s' id)
    (hs : HeapStep s.heap (chainC s (cellAt s id)) P s'.heap (chainC s' (cellAt s' id)) P')
    (hP : ∀ j, P j → PrivK s j)
    (hnm : ∀ id', cellAt s' id' = .moved ↔ cellAt s id' = .moved)
    (hl : s.threads[t]? = some l) (hthr : s'.threads = s.threads.set t l')
    (hk : ∀ tab k h b, l'.pc = .kStore tab k h b → l.pc = .kStore tab k h b)
    (hx : xPc l'.pc = true → pend s' l'.pc = []) : ∀ k, KStep s s' k := by
  intro k
  have H := I.heap
  have X := I.rsz
  have hok' := H'.nextOK
  have hLC : LC s k = chainC s (cellAt s (liveId s k)) := LC_eq_live X.newNotMoved k
  have hLC' : LC s' k = chainC s' (cellAt s' (liveId s k)) := by
    rw [LC_eq_live (newNotMoved_of X T.cur hnm), liveId_congr T.cur hnm]
  have hLCne : liveId s k ≠ id → LC s' k = LC s k := by
    intro hne; rw [hLC, hLC', (T.other H X W hok' hne).1]
  have hdead : ∀ c, c ∈ chainC s (cellAt s id) → c ∉ chainC s' (cellAt s' id) → ¬ Used s' c :=
    fun c h1 h2 => T.left_dead I W H' hl hthr hk hx h1 h2
  refine ⟨hs.len, hs.key, ?_, ?_, ?_, ?_, ?_, ?_⟩
  · -- frozen
    intro j hj hu
    exact hs.off j hj (Or.inl (fun h => hu (Or.inl ⟨id, h⟩)))
  · -- stable
    intro j hj hu
    rcases hu with ⟨id', hu⟩ | hu | hu
    · by_cases hne : id' = id
      · subst hne
        rcases hs.noRelink j hu with h | h | h
        · exact Or.inl ⟨id', h⟩
        · omega
        · exact Or.inr (Or.inl (hP j h))
      · rw [(T.other H X W hok' hne).1] at hu
        exact Or.inl ⟨id', hu⟩
    · exact Or.inr (Or.inl (privK_back hl hthr hk (T.keep j hj).2.1 hu))
    · exact Or.inr (Or.inr (T.privX_back H X W hok' hthr hx hu).1)
  · -- leave
    intro c hc hc'
    by_cases hid : liveId s k = id
    · rw [hLC, hid] at hc
      rw [hLC', hid] at hc'
      have hcl := (H.cinv id).chain_lt hc
      have := hs.off c hcl (Or.inr hc')
      exact ⟨this.1, this.2, Or.inl (hdead c hc hc')⟩
    · rw [hLCne hid] at hc'; exact absurd hc hc'
  · -- before
    intro c hc hc' i hsub
    by_cases hid : liveId s k = id
    · rw [hLC, hid] at hc ⊢
      rw [hLC', hid] at hc' hsub
      have hi' : i ∈ chainC s' (cellAt s' id) := hsub.subset (by simp)
      by_cases hi : i ∈ chainC s (cellAt s id)
      · left
        exact ⟨i, hs.order i c hi hc hsub, (hs.key i ((H.cinv id).chain_lt hi)).symm⟩
      · right
        exact fun i0 hi0 => hs.fresh i hi' hi c hc hc' i0 hi0
    · rw [hLCne hid] at hsub
      left
      have hi : i ∈ LC s k := hsub.subset (by simp)
      rw [hLC] at hi
      exact ⟨i, hsub, (hs.key i ((H.cinv _).chain_lt hi)).symm⟩
  · -- valchg
    intro j hj hne hjk
    obtain ⟨h1, h2⟩ := hs.valchg hj hne
    have := W.liveId_of_mem H (Or.inl h1)
    rw [hjk] at this
    rw [hLC', this]; exact h2
  · -- foreign
    rintro c ⟨id', hc, hk'⟩
    by_cases hid : id' = id
    · subst hid
      by_cases hc' : c ∈ chainC s' (cellAt s' id')
      · exact Or.inl ⟨id', hc', hk'⟩
      · right
        exact ⟨hdead c hc hc', (hs.off c ((H.cinv id').chain_lt hc) (Or.inr hc')).2⟩
    · left
      exact ⟨id', by rw [(T.other H X W hok' hid).1]; exact hc, hk'⟩

/-- a transition that allocates (private) nodes and `TreeBin`s at the end and changes nothing that exists
(`kBuild`: `l'.pc` becomes `.kStore ..` with a new `TreeBin`): `hx` is about the structures the step makes pending
for the transfer (none for `kBuild`) -/
theorem kstep_of_grow {s s' : State} {t : Nat} {l l' : Local} (I : Inv s) (H' : HInv s')
    (hlen : s.heap.length ≤ s'.heap.length)
    (hold : ∀ j, j < s.heap.length → nodeAt s'.heap j = nodeAt s.heap j)
    (hbin : ∀ b, b < s.tbins.length → binAt s'.tbins b = binAt s.tbins b)
    (hcells : ∀ id, cellAt s' id = cellAt s id) (hcur : s'.cur = s.cur)
    (hl : s.threads[t]? = some l) (hthr : s'.threads = s.threads.set t l')
    (hk : ∀ tab k h b, l'.pc = .kStore tab k h b → l.pc = .kStore tab k h b ∨ s.tbins.length ≤ b)
    (hx : xPc l'.pc = true → ∀ C ∈ pend s' l'.pc, ∀ j ∈ chainC s' C, j < s.heap.length →
      (∀ j0, xIdx l'.pc = some j0 → j ∉ chainC s (cellAt s (s.cur, j0))) → PrivX s j) : ∀ k, KStep s s' k := by
  intro k
  have H := I.heap
  have X := I.rsz
  have hok' := H'.nextOK
  have hch : ∀ id, chainC s' (cellAt s' id) = chainC s (cellAt s id) := by
    intro id
    rw [hcells id]
    exact (chainC_grow H.nextOK hok' hlen hold hbin (H.cinv id).startOK (fun b hb => H.cellOK id b hb)).2
  have hmv : ∀ id', cellAt s' id' = .moved ↔ cellAt s id' = .moved := fun id' => by rw [hcells id']
  have hLC : LC s' k = LC s k := by
    rw [LC_eq_live (newNotMoved_of X hcur hmv), LC_eq_live X.newNotMoved, liveId_congr hcur hmv, hch]
  have hkey : ∀ j, j < s.heap.length → (nodeAt s'.heap j).key = (nodeAt s.heap j).key := fun j hj => by rw [hold j hj]
  refine ⟨hlen, hkey, fun j hj _ => by rw [hold j hj]; exact ⟨rfl, rfl⟩, ?_, ?_, ?_, ?_, ?_⟩
  · -- stable
    intro j hj hu
    rcases hu with ⟨id, hu⟩ | hu | hu
    · exact Or.inl ⟨id, hch id ▸ hu⟩
    · right; left
      obtain ⟨t', l'', tab, k', h', b, hl'', hpc, hown⟩ := hu
      rw [hthr] at hl''
      rw [hold j hj] at hown
      rcases threads_set_cases hl'' with ⟨rfl, rfl⟩ | ⟨_, hl0⟩
      · rcases hk tab k' h' b hpc with hpc0 | hb
        · exact ⟨t', l, tab, k', h', b, hl, hpc0, hown⟩
        · have := H.ownerOK j b hown
          omega
      · exact ⟨t', l'', tab, k', h', b, hl0, hpc, hown⟩
    · right; right
      obtain ⟨t', l'', C, hl'', hxp, hC, hjC, hj0⟩ := hu
      rw [hthr] at hl''
      have hj0' : ∀ j0, xIdx l''.pc = some j0 → j ∉ chainC s (cellAt s (s.cur, j0)) := by
        intro j0 hi h
        apply hj0 j0 hi
        rw [hcur, hch]; exact h
      rcases threads_set_cases hl'' with ⟨rfl, rfl⟩ | ⟨_, hl0⟩
      · exact hx hxp C hC j hjC hj hj0'
      · rw [pend_congr hcur (fun _ _ => ⟨hcells _, hcells _⟩)] at hC
        obtain ⟨_, sel, _, _, hcp⟩ := pend_copyOK hxp (X.plan t' l'' hl0) hC
        have := (chainC_grow H.nextOK hok' hlen hold hbin hcp.cinv.startOK hcp.cellOK).2
        rw [this] at hjC
        exact ⟨t', l'', C, hl0, hxp, hC, hjC, hj0'⟩
  · -- leave
    intro c hc hc'
    rw [hLC] at hc'; exact absurd hc hc'
  · -- before
    intro c hc _ i hsub
    rw [hLC] at hsub
    left
    have hi : i ∈ LC s k := hsub.subset (by simp)
    rw [LC_eq_live X.newNotMoved] at hi
    exact ⟨i, hsub, (hkey i ((H.cinv _).chain_lt hi)).symm⟩
  · -- valchg
    intro j hj hne
    rw [hold j hj] at hne
    exact absurd rfl hne
  · -- foreign
    rintro c ⟨id', hc, hk'⟩
    left
    exact ⟨id', by rw [hch]; exact hc, hk'⟩

/-! ## 4. a validated writer may store into its cell -/

namespace Store

theorem validated_cell {s : State} (L : LInv s) {t : Nat} {l : Local} (hl : s.threads[t]? = some l)
    (hv : validated l.pc = true) :
    (∃ h, validL l.pc = some h ∧ holdsLock l.pc = some h ∧ cellAt s (cidOf s l) = .list h) ∨
    (∃ b, validT l.pc = some b ∧ holdsMutex l.pc = some b ∧ binRef l.pc = some b ∧ cellAt s (cidOf s l) = .tree b) := by
  unfold validated at hv
  cases h1 : validL l.pc with
  | some h =>
    left
    refine ⟨h, rfl, ?_, L.vL t l h hl h1⟩
    revert h1; cases l.pc <;> simp [validL, holdsLock]
  | none =>
    rw [h1] at hv
    cases h2 : validT l.pc with
    | none => rw [h2] at hv; simp at hv
    | some b =>
      right
      refine ⟨b, rfl, ?_, ?_, L.vT t l b hl h2⟩
      · revert h2; cases l.pc <;> simp [validT, holdsMutex]
      · revert h2; cases l.pc <;> simp [validT, binRef]

theorem tabOf_of_validated {pc : Pc} (hv : validated pc = true) (hx : xPc pc = false) :
    xIdx pc = none ∧ ∃ g, tabOf pc = some g := by
  cases pc <;> simp [validated, validL, validT, xPc] at hv hx <;> simp [xIdx, tabOf]

theorem unl_valid (u : Nat ⊕ Nat) : ((unlL u).isSome || (unlT u).isSome) = true := by cases u <;> rfl

theorem plan_validated {s : State} {pc : Pc} (hx : xPc pc = true) (hp : pend s pc ≠ []) : validated pc = true := by
  cases pc <;> simp [xPc] at hx <;> simp [pend] at hp <;> exact unl_valid _

end Store

/-- a thread (not the resizing thread) that is past the successful re-check of its cell may store into it -/
theorem Writable.of_validated {s : State} (I : Inv s) {t : Nat} {l : Local} (hl : s.threads[t]? = some l)
    (hv : validated l.pc = true) (hx : xPc l.pc = false) : Writable s (cidOf s l) := by
  have X := I.rsz
  have L := I.lock
  obtain ⟨hxi, g, hg⟩ := tabOf_of_validated hv hx
  have hid : cidOf s l = idOf g (keyOf l) := by unfold cidOf; rw [hxi, hg]
  have hcell := validated_cell L hl hv
  have hnm : cellAt s (cidOf s l) ≠ .moved := by
    rcases hcell with ⟨h, _, _, hc⟩ | ⟨b, _, _, _, hc⟩ <;> rw [hc] <;> intro h <;> cases h
  obtain ⟨hle, hnew⟩ := X.tabNew t l g hl hg
  refine ⟨?_, ?_, ?_⟩
  · rw [hid] at hnm ⊢
    by_cases h1 : g < s.cur
    · exact absurd (X.old g _ h1 (Nat.mod_lt _ (Nat.pos_of_ne_zero (by simp)))) hnm
    · by_cases h2 : g = s.cur
      · exact Or.inl ⟨h2, hnm⟩
      · have h3 : g = s.cur + 1 := by omega
        refine Or.inr ⟨h3, ?_⟩
        have := hnew h3
        subst h3
        show cellAt s (s.cur, keyOf l % 2 ^ (s.cur + 1) % 2 ^ s.cur) = .moved
        rw [mod_succ_mod]; exact this
  · intro t2 l2 hl2 hg2 hi2
    apply Classical.byContradiction
    intro hpe
    have hx2 : xPc l2.pc = true := by
      revert hi2; cases l2.pc <;> simp [xIdx, xPc]
    have hv2 := plan_validated hx2 hpe
    have hid2 : cidOf s l2 = cidOf s l := by
      have e : cidOf s l2 = (s.cur, (cidOf s l).2) := by
        have : ∀ j, xIdx l2.pc = some j → cidOf s l2 = (s.cur, j) := by
          intro j hj; unfold cidOf; rw [hj]
        exact this _ hi2
      rw [e, ← hg2]
    have hne : t2 ≠ t := by
      rintro rfl
      rw [hl] at hl2; cases hl2
      rw [hx] at hx2; cases hx2
    rcases validated_cell L hl2 hv2 with ⟨h2, _, hk2, hc2⟩ | ⟨b2, _, hm2, _, hc2⟩
    · rcases hcell with ⟨h, _, hk, hc⟩ | ⟨b, _, _, _, hc⟩
      · rw [hid2, hc] at hc2
        injection hc2 with e; subst e
        have e1 := (L.lk t l h hl).1 hk
        have e2 := (L.lk t2 l2 h hl2).1 hk2
        rw [e1] at e2; cases e2; exact hne rfl
      · rw [hid2, hc] at hc2; cases hc2
    · rcases hcell with ⟨h, _, _, hc⟩ | ⟨b, _, hm, _, hc⟩
      · rw [hid2, hc] at hc2; cases hc2
      · rw [hid2, hc] at hc2
        injection hc2 with e; subst e
        have e1 := (L.mx t l b hl).1 hm
        have e2 := (L.mx t2 l2 b hl2).1 hm2
        rw [e1] at e2; cases e2; exact hne rfl
  · intro b hb
    rcases hcell with ⟨h, _, _, hc⟩ | ⟨b', _, _, hr, hc⟩
    · rw [hc] at hb; cases hb
    · rw [hc] at hb; cases hb
      exact (L.refOK t l b hl hr).2

end Flurry.Proto.BinGNP
