import Flurry.Lemmas.BinGNProgStuck
import Flurry.Lemmas.BinGNProgRead
/-! # Proto/BinGN, termination: the global measure `gmu` (port and extension of `Lemmas/BinGDrainDefs.lean`)

`gmu s = W s * DA s + PS s` where
* `G s = Σ_t growV …`: the number of allocations the threads in flight may still perform: one per call / treeify, and
  for the resizing thread one per cell of generation `cur` that is not yet forwarded (`Uv`); an allocation at most
  quadruples `heap.length + 1`, so `N s = (heap.length + 1) * 4 ^ G s` bounds the heap length of every later state and
  never increases;
* `DA s = Σ_t daV …`: the number of *disturbing* steps the threads in flight still have ahead — stores into nodes,
  cells and the table pointer, allocations, changes of the read-write lock word of a `TreeBin`; at most 5 per call /
  treeify, and for the resizing thread `4 * U + 1` at `xNext` (`U = Uv`: cells of generation `cur` not yet forwarded;
  per cell: allocation, two child stores, the marker; `+ 1`: the commit) plus its position inside the current
  transfer (`U1 v j`: the count without the cell `j` under transfer); a retry loop contains none;
* `PS s = Σ_t pmV (N s) …`: per thread, a bound on the number of *calm* steps (loads, lock and unlock of a node / of a
  bin mutex, local moves) until its next disturbing step, its return, or its being blocked — taking a possibly stale
  view into account; a thread about to load its cell in generation `g` has `T - g` forwarding hops ahead
  (`T = tabs.length`, constant along quiet runs: `fresh T L g`); it depends on the shared state only through the
  `View`: the cells, `tabs.length`, the table pointer and the cells of generation `cur`, the `next` pointers and the
  read-write lock words;
* `W s = threads.length * PM T (N s) + 1` where `PM` bounds every `pmV`.
A calm step of thread `t` leaves the `View` alone, so it changes only `t`'s own summand of `PS`, which strictly
decreases; a disturbing step may invalidate the view of every other thread (their summands of `PS` are then only known
to be `≤ PM`), but it decreases `DA`, which pays `W > threads.length * PM`. The resizing thread's `daV` / `growV` read
the view only through `cur` and the set of forwarded cells of generation `cur` (`daV_growV_xeq`), which the steps of
the other threads leave alone. -/
namespace Flurry.Proto.BinGNP
open Flurry.Lin
open Flurry.Proto.BinK (isInsert nodeAt binAt NextOK nodeAt_of_some getElem?_nodeAt)

/-- a quiet step: nothing new is started (an idle thread only ticks) -/
def stepQuiet (s : State) (t : Nat) (lo sm sm2 : Bool) (pick : Nat) : Option State :=
  step s t none lo none false sm sm2 pick

/-- the call of the thread inserts -/
def insOf (l : Local) : Bool :=
  match l.call with
  | some p => isInsert p.op
  | none => false

/-- the bound for an operation that is about to load its cell in generation `g` of `T` generations:
one forwarding hop per generation still ahead -/
def fresh (T n g : Nat) : Nat := 2 * n + 12 + (T - g)

theorem fresh_le (T n g : Nat) : fresh T n g ≤ 2 * n + 12 + T := by unfold fresh; omega

/-! ## the view of the shared state -/

/-- what the calm-step measure reads of the shared state -/
structure View where
  cell : Nat → Nat → Cell
  T : Nat
  cur : Nat
  xc : Nat → Cell
  next : Nat → Option Nat
  casok : Nat → Nat → Bool
  waiter : Nat → Bool

def viewOf (s : State) : View :=
  { cell := cellOf s, T := s.tabs.length, cur := s.cur, xc := fun j => cellAt s (s.cur, j), next := fun i => (nodeAt s.heap i).next, casok := casOk s,
    waiter := fun b => (binAt s.tbins b).waiter }

theorem viewOf_eq {s s' : State} (h0 : s'.tabs = s.tabs) (hc : s'.cur = s.cur)
    (hn : ∀ i, (nodeAt s'.heap i).next = (nodeAt s.heap i).next)
    (hw : ∀ b, (binAt s'.tbins b).writer = (binAt s.tbins b).writer)
    (ha : ∀ b, (binAt s'.tbins b).waiter = (binAt s.tbins b).waiter)
    (hr : ∀ b, (binAt s'.tbins b).readers = (binAt s.tbins b).readers) : viewOf s' = viewOf s := by
  have e1 : cellOf s' = cellOf s := by
    funext g k; unfold Flurry.Proto.BinGN.cellOf Flurry.Proto.BinGN.cellAt; rw [h0]
  have e2 : (fun i => (nodeAt s'.heap i).next) = fun i => (nodeAt s.heap i).next := funext hn
  have e3 : casOk s' = casOk s := by
    funext b r; unfold casOk; rw [hw, ha, hr]
  have e4 : (fun b => (binAt s'.tbins b).waiter) = fun b => (binAt s.tbins b).waiter := funext ha
  have e5 : (fun j => cellAt s' (s'.cur, j)) = fun j => cellAt s (s.cur, j) := by
    funext j; unfold cellAt Flurry.Proto.BinGN.cellAt; rw [h0, hc]
  unfold viewOf
  rw [e1, h0, e2, e3, e4, e5, hc]

/-! ## the cells of generation `cur` that are not yet forwarded -/

/-- the number of `j < n` that are not marked -/
def cntU (mv : Nat → Bool) : Nat → Nat
  | 0 => 0
  | n + 1 => cntU mv n + (if mv n then 0 else 1)

theorem cntU_congr {f g : Nat → Bool} : ∀ n, (∀ i, i < n → f i = g i) → cntU f n = cntU g n
  | 0, _ => rfl
  | n + 1, h => by
    simp only [cntU]
    rw [cntU_congr n (fun i hi => h i (by omega)), h n (by omega)]

theorem cntU_mark {f g : Nat → Bool} {j : Nat} (hfj : f j = false) (hgj : g j = true)
    (hne : ∀ i, i ≠ j → g i = f i) : ∀ n, j < n → cntU g n + 1 = cntU f n
  | 0, h => by omega
  | n + 1, h => by
    simp only [cntU]
    by_cases hjn : j = n
    · subst hjn
      rw [cntU_congr j (fun i hi => hne i (by omega)), hfj, hgj]
      simp
    · have := cntU_mark hfj hgj hne n (by omega)
      rw [hne n (fun e => hjn e.symm)]
      omega

/-- cell `(cur, j)` is forwarded -/
def mvOf (v : View) (j : Nat) : Bool := v.xc j == .moved

/-- the number of cells of generation `cur` that are not yet forwarded -/
def Uv (v : View) : Nat := cntU (mvOf v) (2 ^ v.cur)

/-- cell `(cur, j)` exists and is not yet forwarded -/
def umv (v : View) (j : Nat) : Bool := decide (j < 2 ^ v.cur) && !mvOf v j

/-- … not counting cell `j` -/
def U1 (v : View) (j : Nat) : Nat := Uv v - (if umv v j = true then 1 else 0)

/-- the base of the calm measure of the resizing thread at cell `j` -/
def xbase (v : View) (j : Nat) : Nat := if v.xc j = .moved then 14 else 10

theorem U1_add_one {v : View} {j : Nat} (h : umv v j = true) : U1 v j + 1 = Uv v := by
  have hj : j < 2 ^ v.cur := by
    unfold umv at h
    cases hd : decide (j < 2 ^ v.cur) with
    | true => exact of_decide_eq_true hd
    | false => rw [hd] at h; cases h
  have hm : mvOf v j = false := by
    unfold umv at h
    cases hm : mvOf v j with
    | false => rfl
    | true => rw [hm] at h; simp at h
  have : 0 < Uv v := by
    unfold Uv
    have := cntU_mark (f := mvOf v) (g := fun i => mvOf v i || i == j) hm (by simp)
      (fun i hi => by simp [hi]) _ hj
    omega
  unfold U1
  rw [if_pos h]
  omega

theorem U1_le (v : View) (j : Nat) : U1 v j ≤ Uv v := by unfold U1; omega

theorem Uv_le_U1_add_one (v : View) (j : Nat) : Uv v ≤ U1 v j + 1 := by unfold U1; split <;> omega

/-! ## `rank` relative to a bound `L` of the heap length -/

/-- as `BinK.rank`, with `L` in place of the heap length -/
def rankL (L : Nat) (next : Nat → Option Nat) (i : Nat) : Nat :=
  match next i with
  | some j => if j < i then L + i + 1 else L - i
  | none => L - i

theorem rankL_le (L : Nat) (next : Nat → Option Nat) (i : Nat) : rankL L next i ≤ L + i + 1 := by
  unfold rankL
  split
  · split <;> omega
  · omega

theorem rankL_le_two {L : Nat} (next : Nat → Option Nat) {i : Nat} (h : i < L) : rankL L next i ≤ 2 * L := by
  have := rankL_le L next i
  omega

theorem rankL_mono {L L' : Nat} (h : L ≤ L') (next : Nat → Option Nat) (i : Nat) :
    rankL L next i ≤ rankL L' next i := by
  unfold rankL
  split
  · split <;> omega
  · omega

theorem rankL_lt {heap : List NodeS} (hok : NextOK heap) {L : Nat} (hL : heap.length ≤ L) {i j : Nat} {n : NodeS}
    (hn : heap[i]? = some n) (hj : n.next = some j) :
    rankL L (fun i => (nodeAt heap i).next) j < rankL L (fun i => (nodeAt heap i).next) i := by
  obtain ⟨hjl, hne, hup⟩ := hok i n j hn hj
  have hil : i < heap.length := (List.getElem?_eq_some_iff.1 hn).1
  have hi : rankL L (fun i => (nodeAt heap i).next) i = if j < i then L + i + 1 else L - i := by
    unfold rankL; simp only [nodeAt_of_some hn, hj]
  rw [hi]
  by_cases hji : j < i
  · rw [if_pos hji]
    have := rankL_le L (fun i => (nodeAt heap i).next) j
    omega
  · rw [if_neg hji]
    have hij : i < j := by omega
    have hm := getElem?_nodeAt hjl
    unfold rankL
    cases hnx : (nodeAt heap j).next with
    | none => simp only [hnx]; omega
    | some j' =>
      have := hup hij _ j' hm hnx
      simp only [hnx]
      rw [if_neg (by omega)]
      omega

/-! ## the calm-step measure of one thread -/

/-- an upper bound on the number of calm steps a thread with local state `l` takes in a state with view
`v` (heap no longer than `L`) before its next disturbing step, its return, or its being blocked -/
def pmV (L : Nat) (v : View) (l : Local) : Nat :=
  match l.pc with
  | .idle => 0
  | .rTable _ => 4 * L + 10 + v.T
  | .rCell _ g => 4 * L + 8 + (v.T - g)
  | .rNode none => 1
  | .rNode (some c) => rankL L v.next c + 2
  | .rFirst _ => 4 * L + 7
  | .rState _ none => 1
  | .rState _ (some c) => 2 * rankL L v.next c + 6
  | .rLin _ c => 2 * rankL L v.next c + 5
  | .rCas b c r => if v.casok b r = true then 4 else 2 * rankL L v.next c + 7
  | .rTree _ => 3
  | .rRelease _ _ => 2
  | .rVal _ => 1
  | .lFirst _ => 2 * L + 3
  | .lNode none => 1
  | .lNode (some c) => rankL L v.next c + 2
  | .wTable => 2 * L + 14 + v.T
  | .wCell g => fresh v.T L g
  | .wCas g => if v.cell g (keyOf l) = .empty ∧ insOf l = true then 1 else 1 + fresh v.T L g
  | .wLock g h => if v.cell g (keyOf l) = .list h then 2 * L + 6 else 3 + fresh v.T L g
  | .wCheck g h => if v.cell g (keyOf l) = .list h then 2 * L + 5 else 2 + fresh v.T L g
  | .wFind _ _ _ none => 3
  | .wFind _ _ _ (some c) => rankL L v.next c + 4
  | .wStore _ _ _ _ _ => 2
  | .wUnlock _ _ _ false => 1
  | .wUnlock g _ _ true => 1 + fresh v.T L g
  | .tMutex g b => if v.cell g (keyOf l) = .tree b then 10 else 3 + fresh v.T L g
  | .tCheck g b => if v.cell g (keyOf l) = .tree b then 9 else 2 + fresh v.T L g
  | .tFind _ _ => 8
  | .tVal _ _ _ _ _ => 2
  | .lrTry _ _ _ _ => 7
  | .lrLoop _ _ _ _ => 5
  | .tPrependLocked _ _ => 4
  | .tTreeLinkLocked _ _ _ => 3
  | .tUnlinkLocked _ _ _ _ => 4
  | .tRestructure _ _ _ _ => 3
  | .tUnlockRoot _ _ _ => 2
  | .tUntreeify _ _ _ => 2
  | .tUnlockM _ _ _ false => 1
  | .tUnlockM g _ _ true => 1 + fresh v.T L g
  | .kTable _ => 8 + v.T
  | .kCell g _ => 6 + (v.T - g)
  | .kLock _ _ _ => 5
  | .kCheck _ _ _ => 4
  | .kBuild _ _ _ => 3
  | .kStore _ _ _ _ => 2
  | .kUnlock _ => 1
  | .xNext => 13
  | .xCell j => xbase v j
  | .xCasMoved j => if v.xc j = .empty then 2 else xbase v j + 1
  | .xLock j h => if v.xc j = .list h then 8 else xbase v j + 2
  | .xCheck j h => if v.xc j = .list h then 7 else xbase v j + 1
  | .xBuild _ _ => 6
  | .yMutex j b => if v.xc j = .tree b then 8 else xbase v j + 2
  | .yCheck j b => if v.xc j = .tree b then 7 else xbase v j + 1
  | .yBuild _ _ => 6
  | .xStoreLow _ _ _ _ => 5
  | .xStoreHigh _ _ _ => 4
  | .xStoreMoved _ _ => 3
  | .xUnlock _ => 14
  | .xCommit => 1

/-- the bound of every `pmV` -/
def PM (T L : Nat) : Nat := 4 * L + 20 + T

theorem fresh_mono {T L L' : Nat} (h : L ≤ L') (g : Nat) : fresh T L g ≤ fresh T L' g := by
  unfold fresh; omega

theorem pmV_mono {L L' : Nat} (h : L ≤ L') (v : View) (l : Local) : pmV L v l ≤ pmV L' v l := by
  obtain ⟨pc, call⟩ := l
  cases pc with
  | rCell lo g => simp only [pmV]; omega
  | rNode cur =>
    cases cur with
    | none => exact Nat.le_refl _
    | some c => have := rankL_mono h v.next c; simp only [pmV]; omega
  | rState b cur =>
    cases cur with
    | none => exact Nat.le_refl _
    | some c => have := rankL_mono h v.next c; simp only [pmV]; omega
  | rLin b c => have := rankL_mono h v.next c; simp only [pmV]; omega
  | rCas b c r => have := rankL_mono h v.next c; simp only [pmV]; split <;> omega
  | lNode cur =>
    cases cur with
    | none => exact Nat.le_refl _
    | some c => have := rankL_mono h v.next c; simp only [pmV]; omega
  | wCell g => exact fresh_mono h g
  | wCas g => have := fresh_mono (T := v.T) h g; simp only [pmV]; split <;> omega
  | wLock g x => have := fresh_mono (T := v.T) h g; simp only [pmV]; split <;> omega
  | wCheck g x => have := fresh_mono (T := v.T) h g; simp only [pmV]; split <;> omega
  | wFind g x pred cur =>
    cases cur with
    | none => exact Nat.le_refl _
    | some c => have := rankL_mono h v.next c; simp only [pmV]; omega
  | wUnlock g x res retry => have := fresh_mono (T := v.T) h g; cases retry <;> simp only [pmV] <;> omega
  | tMutex g b => have := fresh_mono (T := v.T) h g; simp only [pmV]; split <;> omega
  | tCheck g b => have := fresh_mono (T := v.T) h g; simp only [pmV]; split <;> omega
  | tUnlockM g b res retry => have := fresh_mono (T := v.T) h g; cases retry <;> simp only [pmV] <;> omega
  | rTable _ | rFirst _ | lFirst _ | wTable => simp only [pmV] <;> omega
  | _ => exact Nat.le_refl _

/-- the walk indices of the program counter are below `n` -/
def WalkOK (n : Nat) : Pc → Prop
  | .rNode (some c) => c < n
  | .rState _ (some c) => c < n
  | .rLin _ c => c < n
  | .rCas _ c _ => c < n
  | .lNode (some c) => c < n
  | .wFind _ _ _ (some c) => c < n
  | _ => True

theorem pmV_le {L : Nat} (v : View) {l : Local} (hw : WalkOK L l.pc) : pmV L v l ≤ PM v.T L := by
  unfold PM
  obtain ⟨pc, call⟩ := l
  have hf := fresh_le v.T L
  cases pc with
  | rCell lo g => simp only [pmV]; omega
  | rNode cur =>
    cases cur with
    | none => simp only [pmV]; omega
    | some c => have := rankL_le_two v.next (i := c) hw; simp only [pmV]; omega
  | rState b cur =>
    cases cur with
    | none => simp only [pmV]; omega
    | some c => have := rankL_le_two v.next (i := c) hw; simp only [pmV]; omega
  | rLin b c => have := rankL_le_two v.next (i := c) hw; simp only [pmV]; omega
  | rCas b c r => have := rankL_le_two v.next (i := c) hw; simp only [pmV]; split <;> omega
  | lNode cur =>
    cases cur with
    | none => simp only [pmV]; omega
    | some c => have := rankL_le_two v.next (i := c) hw; simp only [pmV]; omega
  | wCell g => have := hf g; simp only [pmV]; omega
  | wCas g => have := hf g; simp only [pmV]; split <;> omega
  | wLock g x => have := hf g; simp only [pmV]; split <;> omega
  | wCheck g x => have := hf g; simp only [pmV]; split <;> omega
  | wFind g x pred cur =>
    cases cur with
    | none => simp only [pmV]; omega
    | some c => have := rankL_le_two v.next (i := c) hw; simp only [pmV]; omega
  | wUnlock g x res retry => have := hf g; cases retry <;> simp only [pmV] <;> omega
  | tMutex g b => have := hf g; simp only [pmV]; split <;> omega
  | tCheck g b => have := hf g; simp only [pmV]; split <;> omega
  | tUnlockM g b res retry => have := hf g; cases retry <;> simp only [pmV] <;> omega
  | kCell g k => simp only [pmV]; omega
  | xCell j => simp only [pmV, xbase]; split <;> omega
  | xCasMoved j => simp only [pmV, xbase]; split <;> (try split) <;> omega
  | xLock j h => simp only [pmV, xbase]; split <;> (try split) <;> omega
  | xCheck j h => simp only [pmV, xbase]; split <;> (try split) <;> omega
  | yMutex j b => simp only [pmV, xbase]; split <;> (try split) <;> omega
  | yCheck j b => simp only [pmV, xbase]; split <;> (try split) <;> omega
  | _ => simp only [pmV] <;> omega

/-! ## disturbing steps ahead -/

/-- the number of disturbing steps a thread at `pc` may still perform before it is `idle` -/
def daPc : Pc → Nat
  | .rTable _ | .rCell _ _ | .rFirst _ | .rState _ _ | .rLin _ _ | .rCas _ _ _ => 2
  | .rTree _ | .rRelease _ _ => 1
  | .wTable | .wCell _ | .wCas _ | .wLock _ _ | .wCheck _ _ | .wUnlock _ _ _ true => 5
  | .wFind _ _ _ _ | .wStore _ _ _ _ _ => 1
  | .tMutex _ _ | .tCheck _ _ | .tFind _ _ | .tUnlockM _ _ _ true | .lrTry _ _ _ _ | .lrLoop _ _ _ _ => 5
  | .tVal _ _ _ _ _ => 1
  | .tPrependLocked _ _ | .tUnlinkLocked _ _ _ _ => 3
  | .tTreeLinkLocked _ _ _ | .tRestructure _ _ _ _ => 2
  | .tUnlockRoot _ _ _ | .tUntreeify _ _ _ => 1
  | .kTable _ | .kCell _ _ | .kLock _ _ _ | .kCheck _ _ _ | .kBuild _ _ _ => 2
  | .kStore _ _ _ _ => 1
  | _ => 0

/-- … taking into account that a writer at `lrLoop` has already set `WAITER` -/
def daV (v : View) (l : Local) : Nat :=
  match l.pc with
  | .lrLoop _ b _ _ => 4 + (if v.waiter b = true then 0 else 1)
  | .xNext | .xUnlock _ => 4 * Uv v + 1
  | .xCommit => 1
  | .xCell j | .xCasMoved j | .xLock j _ | .xCheck j _ | .xBuild j _ | .yMutex j _ | .yCheck j _ | .yBuild j _ =>
    4 * U1 v j + 5
  | .xStoreLow j _ _ _ => 4 * U1 v j + 4
  | .xStoreHigh j _ _ => 4 * U1 v j + 3
  | .xStoreMoved j _ => 4 * U1 v j + 2
  | pc => daPc pc

/-- `1` while the thread may still grow the heap -/
def grow : Pc → Nat
  | .wTable | .wCell _ | .wCas _ | .wLock _ _ | .wCheck _ _ | .wFind _ _ _ _ | .wStore _ _ _ _ _
  | .wUnlock _ _ _ true => 1
  | .tMutex _ _ | .tCheck _ _ | .tFind _ _ | .lrTry _ _ _ _ | .lrLoop _ _ _ _ | .tPrependLocked _ _
  | .tUnlinkLocked _ _ _ _ | .tUntreeify _ _ _ | .tUnlockM _ _ _ true => 1
  | .kTable _ | .kCell _ _ | .kLock _ _ _ | .kCheck _ _ _ | .kBuild _ _ _ => 1
  | _ => 0

/-- the number of allocations a thread may still perform: one per call / treeify, and for the resizing thread
one per cell of generation `cur` that is not yet forwarded -/
def growV (v : View) (l : Local) : Nat :=
  match l.pc with
  | .xNext | .xUnlock _ => Uv v
  | .xCell j | .xCasMoved j | .xLock j _ | .xCheck j _ | .xBuild j _ | .yMutex j _ | .yCheck j _ | .yBuild j _ =>
    U1 v j + 1
  | .xStoreLow j _ _ _ | .xStoreHigh j _ _ | .xStoreMoved j _ => U1 v j
  | pc => grow pc

/-- for the resizing thread `daV` and `growV` read the view only through `cur` and the forwarded cells -/
theorem daV_growV_xeq {v v' : View} (hc : v'.cur = v.cur) (hm : mvOf v' = mvOf v) (l : Local) (hx : xPc l.pc = true) :
    daV v' l = daV v l ∧ growV v' l = growV v l := by
  obtain ⟨pc, call⟩ := l
  cases pc <;> first | (exact Bool.noConfusion hx) | (simp only [daV, growV, U1, Uv, umv, hc, hm]; exact ⟨trivial, trivial⟩) | (simp only [daV, growV, U1, Uv, umv, hc, hm]; exact ⟨rfl, rfl⟩) | (simp only [daV, growV, U1, Uv, umv, hc, hm])

/-! ## the global measure -/

/-- the number of threads that may still grow the heap -/
def G (s : State) : Nat := (s.threads.map (growV (viewOf s))).sum

/-- a bound on the heap length of every later state -/
def N (s : State) : Nat := (s.heap.length + 1) * 4 ^ G s

/-- disturbing steps ahead, all threads -/
def DA (s : State) : Nat := (s.threads.map (daV (viewOf s))).sum

/-- calm steps ahead, all threads -/
def PS (s : State) : Nat := (s.threads.map (pmV (N s) (viewOf s))).sum

/-- the price of a disturbing step -/
def W (s : State) : Nat := s.threads.length * PM s.tabs.length (N s) + 1

/-- **the global measure**: every enabled step of a thread that is not `idle` decreases it, as long as
no new call, treeify or resize is started -/
def gmu (s : State) : Nat := W s * DA s + PS s

/-! ## sums over the thread list -/

theorem sum_map_le_of {α : Type} (f f' : α → Nat) : ∀ (ls : List α), (∀ x ∈ ls, f' x ≤ f x) →
    (ls.map f').sum ≤ (ls.map f).sum
  | [], _ => Nat.le_refl _
  | a :: as, h => by
    have h1 := h a List.mem_cons_self
    have h2 := sum_map_le_of f f' as (fun x hx => h x (List.mem_cons_of_mem _ hx))
    simp only [List.map_cons, List.sum_cons]
    omega

theorem sum_map_le_card {α : Type} (f : α → Nat) (c : Nat) : ∀ (ls : List α), (∀ x ∈ ls, f x ≤ c) →
    (ls.map f).sum ≤ ls.length * c
  | [], _ => by simp
  | a :: as, h => by
    have h1 := h a List.mem_cons_self
    have h2 := sum_map_le_card f c as (fun x hx => h x (List.mem_cons_of_mem _ hx))
    simp only [List.map_cons, List.sum_cons, List.length_cons, Nat.add_mul, Nat.one_mul]
    omega

/-- the sum after one entry was replaced and the summand function changed: the other entries do not
grow, the replaced entry shrinks by at least `d` -/
theorem sum_set_add_le {α : Type} (f f' : α → Nat) (d : Nat) : ∀ (ls : List α) (t : Nat) (l l' : α),
    ls[t]? = some l → (∀ i x, i ≠ t → ls[i]? = some x → f' x ≤ f x) → f' l' + d ≤ f l →
    ((ls.set t l').map f').sum + d ≤ (ls.map f).sum
  | [], t, l, l', h, _, _ => by simp at h
  | a :: as, 0, l, l', h, ho, hd => by
    have ha : a = l := by simpa using h
    subst ha
    have h2 := sum_map_le_of f f' as (fun x hx => by
      obtain ⟨i, hi⟩ := List.mem_iff_getElem?.1 hx
      exact ho (i + 1) x (by omega) (by simpa using hi))
    simp only [List.set_cons_zero, List.map_cons, List.sum_cons]
    omega
  | a :: as, t + 1, l, l', h, ho, hd => by
    have h1 : f' a ≤ f a := ho 0 a (by omega) (by simp)
    have h2 := sum_set_add_le f f' d as t l l' (by simpa using h)
      (fun i x hi hx => ho (i + 1) x (by omega) (by simpa using hx)) hd
    simp only [List.set_cons_succ, List.map_cons, List.sum_cons]
    omega

end Flurry.Proto.BinGNP
