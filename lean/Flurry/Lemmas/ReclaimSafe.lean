import Flurry.Lemmas.ReclaimBasic
/-! # Proto/Reclaim: no use after free in protected runs (C03) -/
namespace Flurry.Proto.Reclaim

/-- along the run of `es` from `s`, every `publish t o` is performed while `t` is guarded -/
def publishGuarded (s : State) : List Ev → Bool
  | [] => true
  | e :: es =>
    (match e with | .publish t _ => guardedB s t | _ => true) &&
    (match step s e with | some s' => publishGuarded s' es | none => true)

/-- along the run of `es` from `s`, every `alloc t` is performed while `t` is guarded -/
def allocGuarded (s : State) : List Ev → Bool
  | [] => true
  | e :: es =>
    (match e with | .alloc t => guardedB s t | _ => true) &&
    (match step s e with | some s' => allocGuarded s' es | none => true)

/-- the inductive invariant of protected, publish-guarded runs -/
structure Inv (s : State) : Prop where
  /-- held pointers are in range -/
  inRange : ∀ t o, o ∈ holdsOf s t → o < s.objs.length
  /-- an unguarded thread only holds objects it created and has not published yet -/
  unguardedFresh : ∀ t o, o ∈ holdsOf s t → guardedB s t = false → s.objs[o]? = some .fresh
  /-- an unpublished object is held by its creator only -/
  freshUnique : ∀ t t' o, s.objs[o]? = some .fresh → o ∈ holdsOf s t → o ∈ holdsOf s t' → t = t'
  /-- held pointers are not freed -/
  notFreed : ∀ t o, o ∈ holdsOf s t → s.objs[o]? ≠ some .freed
  /-- the collector waits for every holder of a retired object -/
  waited : ∀ t o w, o ∈ holdsOf s t → s.objs[o]? = some (.retired w) → t ∈ w

theorem inv_init (n : Nat) : Inv (init n) := by
  constructor <;> simp [holdsOf, init, List.getElem?_replicate] <;> grind

theorem inv_step {s s' : State} {e : Ev} (hI : Inv s) (hp : ∀ t o, e ≠ .unprotectedRetire t o)
    (hg : ∀ t o, e = .publish t o → guardedB s t = true) (h : step s e = some s') : Inv s' := by
  obtain ⟨h0, h1, h4, h2, h3⟩ := hI
  cases e with
  | enter t =>
    obtain ⟨th, ht, hgd, hT, hO, -, -⟩ := step_enter h
    have hh := holdsOf_of_some ht; have hgg := guardedB_of_some ht
    constructor <;> intro t' <;> simp only [holdsOf_set hT ht, guardedB_set hT ht, hO] <;> grind
  | exit t =>
    obtain ⟨th, ht, hgd, hT, hO, -, -⟩ := step_exit h
    have hh := holdsOf_of_some ht; have hgg := guardedB_of_some ht
    constructor <;> intro t' <;>
      simp only [holdsOf_set hT ht, guardedB_set hT ht, hO,
        List.getElem?_map, List.length_map, Option.map_eq_some_iff] <;>
      grind [dropWaiter_eq_fresh, dropWaiter_eq_freed, dropWaiter_eq_retired]
  | alloc t =>
    obtain ⟨th, ht, hT, hO, -, -⟩ := step_alloc h
    have hh := holdsOf_of_some ht; have hgg := guardedB_of_some ht
    constructor <;> intro t' <;>
      simp only [holdsOf_set hT ht, guardedB_set hT ht, hO] <;> grind
  | publish t o =>
    obtain ⟨th, ht, ho, hm, hT, hO, -, -⟩ := step_publish h
    have hh := holdsOf_of_some ht; have hgg := guardedB_of_some ht
    have := hg t o rfl
    constructor <;> intro t' <;>
      simp only [holdsOf_congr hT, guardedB_congr hT, hO] <;> grind
  | acquire t o =>
    obtain ⟨th, ht, ho, hgd, hT, hO, -, -⟩ := step_acquire h
    have hh := holdsOf_of_some ht; have hgg := guardedB_of_some ht
    constructor <;> intro t' <;>
      simp only [holdsOf_set hT ht, guardedB_set hT ht, hO] <;> grind
  | touch t o =>
    obtain ⟨th, st, ht, ho, hm, hT, hO, -, -⟩ := step_touch h
    constructor <;> intro t' <;>
      simp only [holdsOf_congr hT, guardedB_congr hT, hO] <;> grind
  | unlink t o =>
    obtain ⟨th, ht, ho, hm, hgd, hT, hO, -, -⟩ := step_unlink h
    constructor <;> intro t' <;>
      simp only [holdsOf_congr hT, guardedB_congr hT, hO] <;> grind
  | retire t o =>
    obtain ⟨th, ht, ho, hgd, hT, hO, -, -⟩ := step_retire h
    have hact := @mem_activeThreads_iff s
    constructor <;> intro t' <;>
      simp only [holdsOf_congr hT, guardedB_congr hT, hO] <;> grind
  | unprotectedRetire t o => exact absurd rfl (hp t o)
  | free o =>
    obtain ⟨ho, hT, hO, -, -⟩ := step_free h
    constructor <;> intro t' <;>
      simp only [holdsOf_congr hT, guardedB_congr hT, hO] <;> grind

/-- in a state satisfying the invariant a protected step never touches freed memory -/
theorem inv_step_badTouches {s s' : State} {e : Ev} (hI : Inv s) (h : step s e = some s') :
    s'.badTouches = s.badTouches := by
  cases e with
  | enter t => obtain ⟨_, _, _, _, _, _, hb⟩ := step_enter h; exact hb
  | exit t => obtain ⟨_, _, _, _, _, _, hb⟩ := step_exit h; exact hb
  | alloc t => obtain ⟨_, _, _, _, _, hb⟩ := step_alloc h; exact hb
  | publish t o => obtain ⟨_, _, _, _, _, _, _, hb⟩ := step_publish h; exact hb
  | acquire t o => obtain ⟨_, _, _, _, _, _, _, hb⟩ := step_acquire h; exact hb
  | touch t o =>
    obtain ⟨th, st, ht, ho, hm, _, _, _, hb⟩ := step_touch h
    have := hI.notFreed t o (by rw [holdsOf_of_some ht]; exact hm)
    have hne : st ≠ .freed := fun hst => this (by rw [ho, hst])
    simpa [hne] using hb
  | unlink t o => obtain ⟨_, _, _, _, _, _, _, _, hb⟩ := step_unlink h; exact hb
  | retire t o => obtain ⟨_, _, _, _, _, _, _, hb⟩ := step_retire h; exact hb
  | unprotectedRetire t o => obtain ⟨_, _, _, _, _, _, hb⟩ := step_unprotectedRetire h; exact hb
  | free o => obtain ⟨_, _, _, _, hb⟩ := step_free h; exact hb

/-- the invariant is kept, and no freed object is touched, along protected runs in which
objects are only published by guarded threads -/
theorem inv_run {s s' : State} {es : List Ev} (hI : Inv s) (hp : Protected es)
    (hg : publishGuarded s es = true) (h : run s es = some s') :
    Inv s' ∧ s'.badTouches = s.badTouches := by
  induction es generalizing s with
  | nil => simp at h; subst h; exact ⟨hI, rfl⟩
  | cons e es ih =>
    obtain ⟨s1, h1, h2⟩ := run_cons_some.1 h
    obtain ⟨hpe, hpes⟩ := hp.cons
    simp only [publishGuarded, h1, Bool.and_eq_true] at hg
    have hI1 : Inv s1 := inv_step hI hpe (by rintro t o rfl; exact hg.1) h1
    obtain ⟨hI', hb⟩ := ih hI1 hpes hg.2 h2
    exact ⟨hI', by rw [hb, inv_step_badTouches hI h1]⟩

/-! ## `allocGuarded` implies `publishGuarded` -/

/-- threads only hold pointers while guarded -/
def HoldsGuarded (s : State) : Prop := ∀ t o, o ∈ holdsOf s t → guardedB s t = true

theorem holdsGuarded_init (n : Nat) : HoldsGuarded (init n) := by
  intro t o; simp [holdsOf, init, List.getElem?_replicate]; grind

theorem holdsGuarded_step {s s' : State} {e : Ev} (hH : HoldsGuarded s)
    (hg : ∀ t, e = .alloc t → guardedB s t = true) (h : step s e = some s') : HoldsGuarded s' := by
  unfold HoldsGuarded at *
  cases e with
  | enter t =>
    obtain ⟨th, ht, hgd, hT, -⟩ := step_enter h
    have hh := holdsOf_of_some ht; have hgg := guardedB_of_some ht
    intro t'; simp only [holdsOf_set hT ht, guardedB_set hT ht]; grind
  | exit t =>
    obtain ⟨th, ht, hgd, hT, -⟩ := step_exit h
    intro t'; simp only [holdsOf_set hT ht, guardedB_set hT ht]; grind
  | alloc t =>
    obtain ⟨th, ht, hT, -⟩ := step_alloc h
    have hh := holdsOf_of_some ht; have hgg := guardedB_of_some ht
    have := hg t rfl
    intro t'; simp only [holdsOf_set hT ht, guardedB_set hT ht]; grind
  | publish t o =>
    obtain ⟨th, ht, ho, hm, hT, -⟩ := step_publish h
    intro t'; simp only [holdsOf_congr hT, guardedB_congr hT]; exact hH t'
  | acquire t o =>
    obtain ⟨th, ht, ho, hgd, hT, -⟩ := step_acquire h
    have hh := holdsOf_of_some ht; have hgg := guardedB_of_some ht
    intro t'; simp only [holdsOf_set hT ht, guardedB_set hT ht]; grind
  | touch t o =>
    obtain ⟨th, st, ht, ho, hm, hT, -⟩ := step_touch h
    intro t'; simp only [holdsOf_congr hT, guardedB_congr hT]; exact hH t'
  | unlink t o =>
    obtain ⟨th, ht, ho, hm, hgd, hT, -⟩ := step_unlink h
    intro t'; simp only [holdsOf_congr hT, guardedB_congr hT]; exact hH t'
  | retire t o =>
    obtain ⟨th, ht, ho, hgd, hT, -⟩ := step_retire h
    intro t'; simp only [holdsOf_congr hT, guardedB_congr hT]; exact hH t'
  | unprotectedRetire t o =>
    obtain ⟨th, ht, ho, hT, -⟩ := step_unprotectedRetire h
    intro t'; simp only [holdsOf_congr hT, guardedB_congr hT]; exact hH t'
  | free o =>
    obtain ⟨ho, hT, -⟩ := step_free h
    intro t'; simp only [holdsOf_congr hT, guardedB_congr hT]; exact hH t'

/-- if every allocation happens under a guard then so does every (enabled) publication -/
theorem publishGuarded_of_allocGuarded {s s' : State} {es : List Ev} (hH : HoldsGuarded s)
    (hg : allocGuarded s es = true) (h : run s es = some s') :
    publishGuarded s es = true ∧ HoldsGuarded s' := by
  induction es generalizing s with
  | nil => simp at h; subst h; exact ⟨rfl, hH⟩
  | cons e es ih =>
    obtain ⟨s1, h1, h2⟩ := run_cons_some.1 h
    simp only [allocGuarded, h1, Bool.and_eq_true] at hg
    have hH1 : HoldsGuarded s1 := holdsGuarded_step hH (by rintro t rfl; exact hg.1) h1
    obtain ⟨hpg, hH'⟩ := ih hH1 hg.2 h2
    refine ⟨?_, hH'⟩
    simp only [publishGuarded, h1, hpg, Bool.and_true]
    cases e with
    | publish t o =>
      obtain ⟨th, ht, ho, hm, -⟩ := step_publish h1
      exact hH t o (by rw [holdsOf_of_some ht]; exact hm)
    | _ => rfl

/-! ## the theorems (C03) -/

/-- **no use after free** (`badTouches` stays `0`) in protected runs where objects are published
under a guard. Without the guard hypothesis the statement is false: `no_touch_after_free_needs_guard`. -/
theorem no_touch_after_free_of_publishGuarded {n : Nat} {es : List Ev} {s : State}
    (h : run (init n) es = some s) (hp : Protected es) (hg : publishGuarded (init n) es = true) :
    s.badTouches = 0 :=
  (inv_run (inv_init n) hp hg h).2

/-- **no use after free** in protected runs where threads only hold pointers while guarded
(every `alloc t` happens while `t` is guarded; `acquire` requires a guard anyway) -/
theorem no_touch_after_free {n : Nat} {es : List Ev} {s : State}
    (h : run (init n) es = some s) (hp : Protected es) (hg : allocGuarded (init n) es = true) :
    s.badTouches = 0 :=
  no_touch_after_free_of_publishGuarded h hp (publishGuarded_of_allocGuarded (holdsGuarded_init n) hg h).1

/-- C03: a pointer a thread holds is valid: the object has not been freed -/
theorem held_pointers_valid_of_publishGuarded {n : Nat} {es : List Ev} {s : State}
    (h : run (init n) es = some s) (hp : Protected es) (hg : publishGuarded (init n) es = true) :
    ∀ (t : Nat) (th : Thread) (o : Nat), s.threads[t]? = some th → o ∈ th.holds → s.objs[o]? ≠ some .freed := by
  intro t th o ht hm
  exact (inv_run (inv_init n) hp hg h).1.notFreed t o (by rw [holdsOf_of_some ht]; exact hm)

theorem held_pointers_valid {n : Nat} {es : List Ev} {s : State}
    (h : run (init n) es = some s) (hp : Protected es) (hg : allocGuarded (init n) es = true) :
    ∀ (t : Nat) (th : Thread) (o : Nat), s.threads[t]? = some th → o ∈ th.holds → s.objs[o]? ≠ some .freed :=
  held_pointers_valid_of_publishGuarded h hp (publishGuarded_of_allocGuarded (holdsGuarded_init n) hg h).1

/-- C03/C04: while a thread holds a pointer to a retired object the collector waits for it, so
`free` is not enabled -/
theorem held_retired_waits {n : Nat} {es : List Ev} {s : State}
    (h : run (init n) es = some s) (hp : Protected es) (hg : publishGuarded (init n) es = true) :
    ∀ (t : Nat) (th : Thread) (o : Nat) (w : List Nat), s.threads[t]? = some th → o ∈ th.holds → s.objs[o]? = some (.retired w) → t ∈ w := by
  intro t th o w ht hm
  exact (inv_run (inv_init n) hp hg h).1.waited t o w (by rw [holdsOf_of_some ht]; exact hm)

theorem free_refused_while_held {n : Nat} {es : List Ev} {s : State}
    (h : run (init n) es = some s) (hp : Protected es) (hg : publishGuarded (init n) es = true)
    {t : Nat} {th : Thread} {o : Nat} (ht : s.threads[t]? = some th) (hm : o ∈ th.holds) :
    step s (.free o) = none := by
  cases hst : step s (.free o) with
  | none => rfl
  | some s' =>
    have := held_retired_waits h hp hg t th o [] ht hm (step_free hst).1
    simp at this

/-- a thread holding a pointer is guarded, or the object is its own unpublished allocation -/
theorem holder_guarded_or_fresh {n : Nat} {es : List Ev} {s : State}
    (h : run (init n) es = some s) (hp : Protected es) (hg : publishGuarded (init n) es = true) :
    ∀ (t : Nat) (th : Thread) (o : Nat), s.threads[t]? = some th → o ∈ th.holds → th.guarded = true ∨ s.objs[o]? = some .fresh := by
  intro t th o ht hm
  cases hgd : th.guarded with
  | true => exact .inl rfl
  | false =>
    exact .inr ((inv_run (inv_init n) hp hg h).1.unguardedFresh t o (by rw [holdsOf_of_some ht]; exact hm)
      (by rw [guardedB_of_some ht]; exact hgd))

/-! ## `Protected` is decidable; the counterexample without the guard hypothesis -/

def isUnprotected : Ev → Bool
  | .unprotectedRetire _ _ => true
  | _ => false

theorem protected_iff {es : List Ev} : Protected es ↔ es.all (fun e => !isUnprotected e) = true := by
  simp only [Protected, List.all_eq_true]
  constructor
  · intro h e he; cases e <;> simp [isUnprotected]; exact h _ he _ _ rfl
  · intro h e he t o hc; subst hc; simpa [isUnprotected] using h _ he

instance (es : List Ev) : Decidable (Protected es) := decidable_of_iff _ protected_iff.symm

/-- the model lets an *unguarded* creator keep a pointer to an object it published while another
thread unlinks, retires and frees it: the statement of `no_touch_after_free` without a guard
hypothesis is false. -/
theorem no_touch_after_free_needs_guard :
    ∃ es s, run (init 2) es = some s ∧ Protected es ∧ s.badTouches = 1 :=
  ⟨[.alloc 0, .publish 0 0, .enter 1, .acquire 1 0, .unlink 1 0, .retire 1 0, .exit 1, .free 0, .touch 0 0],
   _, rfl, by decide, rfl⟩

end Flurry.Proto.Reclaim
