import Flurry.Lemmas.BinNAInvStep
/-! # Proto/BinNA: the abstract content of a key — "follow markers until a live cell" (C01, C10)

* `live2` / `livePos`: under the invariant the marker-following lookup `liveFrom` looks at the cell of
  generation `cur` unless it is forwarded, and then at the child cell in generation `cur + 1`
  (`Inv.absOf_eq`);
* `Inv.livePos_of_fwd` (**the key lemma**): the cell a thread working in generation `g` looks at, if it
  is not a marker, IS the cell a lookup started now would end in;
* `write_live`: the effect of a writer's CAS / store on the abstract content;
* `abs_casMoved`, `abs_storeChild`, `abs_storeMoved`, `abs_alloc`, `abs_commit`: no step of the
  resizing thread changes the abstract content of any key. -/
namespace Flurry.Proto.BinNA
open Flurry.Lin

def livePos (s : State) (k : Nat) : Nat × Nat :=
  if getCell s s.cur (ix s.cur k) = .moved then (s.cur + 1, ix (s.cur + 1) k) else (s.cur, ix s.cur k)

def live2 (s : State) (k : Nat) : Cell := getCell s (livePos s k).1 (livePos s k).2

theorem Inv.liveFrom_eq {s : State} (I : Inv s) (k : Nat) : liveFrom s s.tabs.length s.cur k = live2 s k := by
  obtain ⟨n, hn⟩ : ∃ n, s.tabs.length = n + 1 := ⟨s.tabs.length - 1, by have := I.len_ge; omega⟩
  rw [hn]
  unfold live2 livePos
  by_cases hm : getCell s s.cur (ix s.cur k) = .moved
  · rw [if_pos hm]
    have hlen := I.len_rz (I.rz_of_moved hm)
    obtain ⟨m, hm'⟩ : ∃ m, n = m + 1 := ⟨n - 1, by omega⟩
    subst hm'
    have hnm := I.newer (s.cur + 1) (ix (s.cur + 1) k) (by omega)
    rw [liveFrom, hm]
    simp only
    rw [liveFrom]
    cases hc : getCell s (s.cur + 1) (ix (s.cur + 1) k) with
    | moved => exact absurd hc hnm
    | empty => rfl
    | list xs => rfl
  · rw [if_neg hm, liveFrom]
    cases hc : getCell s s.cur (ix s.cur k) with
    | moved => exact absurd hc hm
    | empty => rfl
    | list xs => rfl

theorem Inv.absOf_eq {s : State} (I : Inv s) (k : Nat) : absOf s k = cellAbs k (live2 s k) := by
  unfold absOf; rw [I.liveFrom_eq]

/-- **the key lemma**: a cell that a thread (which followed the markers) looks at and that is not a
marker is the live cell of its key -/
theorem Inv.livePos_of_fwd {s : State} (I : Inv s) {g k : Nat} (hf : Fwd s g (ix g k))
    (hnm : getCell s g (ix g k) ≠ .moved) : livePos s k = (g, ix g k) := by
  have hge : s.cur ≤ g := by
    apply Classical.byContradiction
    intro h
    exact hnm (I.old g _ (by omega) (ix_lt g k))
  have hle := hf.1
  unfold livePos
  by_cases hg : g = s.cur + 1
  · subst hg
    have := hf.2 rfl
    rw [ix_ix] at this
    rw [if_pos this]
  · have hg' : g = s.cur := by omega
    subst hg'
    rw [if_neg hnm]

theorem Inv.live_of_fwd {s : State} (I : Inv s) {g k : Nat} (hf : Fwd s g (ix g k))
    (hnm : getCell s g (ix g k) ≠ .moved) : live2 s k = getCell s g (ix g k) := by
  unfold live2; rw [I.livePos_of_fwd hf hnm]

theorem Inv.absOf_of_fwd {s : State} (I : Inv s) {g k : Nat} (hf : Fwd s g (ix g k))
    (hnm : getCell s g (ix g k) ≠ .moved) : absOf s k = cellAbs k (getCell s g (ix g k)) := by
  rw [I.absOf_eq, I.live_of_fwd hf hnm]

theorem absOf_congr {s s' : State} (ht : s'.tabs = s.tabs) (hc : s'.cur = s.cur) (k : Nat) :
    absOf s' k = absOf s k := by
  have : ∀ fuel g, liveFrom s' fuel g k = liveFrom s fuel g k := by
    intro fuel
    induction fuel with
    | zero => intro g; rfl
    | succ n ih =>
      intro g
      rw [liveFrom, liveFrom, getCell_congr ht, ih]
  unfold absOf
  rw [ht, hc, this]

/-! ## a writer's CAS / store -/

/-- the effect of writing `c1` (not a marker) over a cell that is not a marker -/
theorem write_live {s s' : State} {g j : Nat} {c1 : Cell} (hcur : s'.cur = s.cur)
    (hcells : ∀ g' j', getCell s' g' j' = if g' = g ∧ j' = j then c1 else getCell s g' j')
    (h0 : getCell s g j ≠ .moved) (h1 : c1 ≠ .moved) (k : Nat) :
    live2 s' k = if livePos s k = (g, j) then c1 else live2 s k := by
  have hpos : livePos s' k = livePos s k := by
    unfold livePos
    rw [hcur]
    have : getCell s' s.cur (ix s.cur k) = .moved ↔ getCell s s.cur (ix s.cur k) = .moved := by
      rw [hcells]
      split
      · rename_i h
        obtain ⟨e1, e2⟩ := h
        subst e1
        rw [e2]
        exact ⟨fun h => absurd h h1, fun h => absurd h h0⟩
      · exact Iff.rfl
    by_cases hm : getCell s s.cur (ix s.cur k) = .moved
    · rw [if_pos hm, if_pos (this.2 hm)]
    · rw [if_neg hm, if_neg (fun h => hm (this.1 h))]
  unfold live2
  rw [hpos, hcells]
  by_cases h : livePos s k = (g, j)
  · rw [if_pos h, if_pos (by rw [h]; exact ⟨rfl, rfl⟩)]
  · rw [if_neg h, if_neg]
    intro hh
    exact h (Prod.ext hh.1 hh.2)

/-! ## the steps of the resizing thread -/

/-- CAS `empty → moved` on a cell whose children are empty -/
theorem abs_casMoved {s s' : State} {j : Nat} (hcur : s'.cur = s.cur)
    (hcells : ∀ g' j', getCell s' g' j' = if g' = s.cur ∧ j' = j then .moved else getCell s g' j')
    (h0 : getCell s s.cur j = .empty)
    (hch : ∀ j', j' % 2 ^ s.cur = j → getCell s (s.cur + 1) j' = .empty) (k : Nat) :
    cellAbs k (live2 s' k) = cellAbs k (live2 s k) := by
  unfold live2 livePos
  rw [hcur]
  by_cases hk : ix s.cur k = j
  · have e1 : getCell s' s.cur (ix s.cur k) = .moved := by rw [hcells, if_pos ⟨rfl, hk⟩]
    have e2 : getCell s s.cur (ix s.cur k) ≠ .moved := by rw [hk, h0]; simp
    rw [if_pos e1, if_neg e2]
    simp only
    rw [hcells, if_neg (by omega), hch _ (by rw [ix_ix]; exact hk), hk, h0]
  · have e1 : getCell s' s.cur (ix s.cur k) = getCell s s.cur (ix s.cur k) := by
      rw [hcells, if_neg (fun h => hk h.2)]
    rw [e1]
    split
    · simp only; rw [hcells, if_neg (by omega)]
    · simp only; rw [e1]

/-- the store of a child of a cell that is not forwarded -/
theorem abs_storeChild {s s' : State} {j' : Nat} {c : Cell} (hcur : s'.cur = s.cur)
    (hcells : ∀ g1 j1, getCell s' g1 j1 = if g1 = s.cur + 1 ∧ j1 = j' then c else getCell s g1 j1)
    (hpar : getCell s s.cur (j' % 2 ^ s.cur) ≠ .moved) (k : Nat) : live2 s' k = live2 s k := by
  unfold live2 livePos
  rw [hcur]
  have e1 : getCell s' s.cur (ix s.cur k) = getCell s s.cur (ix s.cur k) := by
    rw [hcells, if_neg (by omega)]
  rw [e1]
  split
  · rename_i hm
    simp only
    rw [hcells, if_neg]
    intro h
    apply hpar
    rw [← h.2, ix_ix]; exact hm
  · simp only; rw [e1]

/-- the store of the marker over a list whose split is in the children -/
theorem abs_storeMoved {s s' : State} {j : Nat} {xs : List Entry} (hcur : s'.cur = s.cur)
    (hcells : ∀ g' j', getCell s' g' j' = if g' = s.cur ∧ j' = j then .moved else getCell s g' j')
    (h0 : getCell s s.cur j = .list xs)
    (hlo : getCell s (s.cur + 1) j = mkCell (splitLo s.cur xs))
    (hhi : getCell s (s.cur + 1) (j + 2 ^ s.cur) = mkCell (splitHi s.cur xs)) (k : Nat) :
    cellAbs k (live2 s' k) = cellAbs k (live2 s k) := by
  unfold live2 livePos
  rw [hcur]
  by_cases hk : ix s.cur k = j
  · have e1 : getCell s' s.cur (ix s.cur k) = .moved := by rw [hcells, if_pos ⟨rfl, hk⟩]
    have e2 : getCell s s.cur (ix s.cur k) ≠ .moved := by rw [hk, h0]; simp
    rw [if_pos e1, if_neg e2]
    simp only
    rw [hcells, if_neg (by omega), hk, h0, ix_succ, hk]
    show _ = lookup k xs
    cases hb : hiBit s.cur k with
    | true =>
      rw [if_pos rfl, hhi, cellAbs_mkCell, lookup_splitHi, hb, if_pos rfl]
    | false =>
      rw [if_neg (by simp), hlo, cellAbs_mkCell, lookup_splitLo, hb, if_neg (by simp)]
  · have e1 : getCell s' s.cur (ix s.cur k) = getCell s s.cur (ix s.cur k) := by
      rw [hcells, if_neg (fun h => hk h.2)]
    rw [e1]
    split
    · simp only; rw [hcells, if_neg (by omega)]
    · simp only; rw [e1]

theorem abs_same {s s' : State} (hcur : s'.cur = s.cur) (hc : ∀ g j, getCell s' g j = getCell s g j) (k : Nat) :
    live2 s' k = live2 s k := by
  have hp : livePos s' k = livePos s k := by unfold livePos; rw [hcur, hc]
  unfold live2; rw [hp, hc]

theorem abs_commit {s s' : State} (I : Inv s) (hcur : s'.cur = s.cur + 1)
    (hc : ∀ g j, getCell s' g j = getCell s g j)
    (hall : ∀ j, j < 2 ^ s.cur → getCell s s.cur j = .moved) (k : Nat) : live2 s' k = live2 s k := by
  have hp' : livePos s' k = (s.cur + 1, ix (s.cur + 1) k) := by
    unfold livePos
    rw [hcur, hc, if_neg (I.newer _ _ (by omega))]
  have hp : livePos s k = (s.cur + 1, ix (s.cur + 1) k) := by
    unfold livePos
    rw [if_pos (hall _ (ix_lt _ _))]
  unfold live2; rw [hp', hp, hc]

end Flurry.Proto.BinNA
