import Flurry.Lemmas.ResizeInv
/-! # Proto/Resize: the safety theorems (targets 1–7), all for `Reachable n nthreads stride s`

Two of the statements as originally phrased are false in the model in one window: between
`pubSwapTable` (which bumps `gen` and doubles `n`) and `pubStoreCtl` (which overwrites the word)
`size_ctl` still carries the stamp of the *old* generation: `s.sizeCtl = resizing (s.gen - 1) 1`.
`stale_stamp_window` exhibits the run; the theorems below state the exact shape of the window.
(This is a property of the real code as well and it is harmless there for the same reason as in
the model: a helper that reads the new table computes the new stamp and refuses to join, and
nobody can initiate because the word is not idle.) -/
namespace Flurry.Proto.Resize

variable {n nthreads stride : Nat} {s : State}

/-! ## runs (used for examples and counterexamples) -/

/-- replay a list of `(thread, choice)` steps -/
def run (s : State) : List (Nat × Nat) → Option State
  | [] => some s
  | (t, c) :: r => (step s t c).bind (fun s' => run s' r)

theorem reachable_run {s s' : State} (h : Reachable n nthreads stride s) {steps : List (Nat × Nat)}
    (hr : run s steps = some s') : Reachable n nthreads stride s' := by
  induction steps generalizing s with
  | nil => simp [Resize.run] at hr; subst hr; exact h
  | cons p r ih =>
    obtain ⟨t, c⟩ := p
    simp only [Resize.run] at hr
    cases hs : Resize.step s t c with
    | none => simp [hs] at hr
    | some s1 =>
      simp [hs] at hr
      exact ih (Reachable.step t c h hs) hr

/-! ## 1. `count_invariant` -/

/-- the word counts the participants; its stamp is the current generation except in the window
between `pubSwapTable` and `pubStoreCtl`, where it is the previous one (and then `c = 1`) -/
theorem count_invariant (hr : Reachable n nthreads stride s) {g c : Nat}
    (h : s.sizeCtl = .resizing g c) :
    c = 1 + numParticipants s ∧
    (g = s.gen ∨ (g + 1 = s.gen ∧ c = 1 ∧ ∃ l ∈ s.threads, l.pc = .pubStoreCtl)) := by
  have I := hr.inv
  have h1 := I.cnt_eq
  rw [h] at h1; simp only [cnt] at h1
  rw [numParticipants_eq]
  refine ⟨h1, ?_⟩
  have h2 := I.gen_eq g c h
  have h3 := S_le_F s
  have h4 := I.fin_eq
  have h5 := finWord_le s.sizeCtl
  rcases Nat.eq_zero_or_pos (S s) with h0 | h0
  · left; omega
  · right
    have hS : S s = 1 := by omega
    have hF : finWord s.sizeCtl = 1 := by omega
    obtain ⟨g', hg'⟩ := finWord_eq_one hF
    rw [h] at hg'; cases hg'
    refine ⟨by omega, rfl, ?_⟩
    obtain ⟨l, hl, hp⟩ := List.countP_pos_iff.mp (show 0 < s.threads.countP atStore from h0)
    exact ⟨l, hl, (atStore_iff l).mp hp⟩

/-- outside that window the stamp is the current generation -/
theorem count_invariant_gen (hr : Reachable n nthreads stride s) {g c : Nat}
    (h : s.sizeCtl = .resizing g c) (hns : ∀ l ∈ s.threads, l.pc ≠ .pubStoreCtl) : g = s.gen := by
  rcases (count_invariant hr h).2 with h1 | ⟨_, _, l, hl, hp⟩
  · exact h1
  · exact absurd hp (hns l hl)

/-- in particular whenever more than the finisher is counted (`c ≠ 1`) -/
theorem count_invariant_gen' (hr : Reachable n nthreads stride s) {g c : Nat}
    (h : s.sizeCtl = .resizing g c) (hc : c ≠ 1) : g = s.gen := by
  rcases (count_invariant hr h).2 with h1 | ⟨_, h2, _⟩
  · exact h1
  · exact absurd h2 hc

/-- an idle word counts nobody -/
theorem count_invariant_idle (hr : Reachable n nthreads stride s) {thr : Nat}
    (h : s.sizeCtl = .idle thr) : numParticipants s = 0 := by
  have h1 := hr.inv.cnt_eq
  rw [h] at h1; simp only [cnt] at h1
  rw [numParticipants_eq]; omega

/-! ## 2. `single_finisher` -/

theorem single_finisher_unique (hr : Reachable n nthreads stride s) {t u : Nat} {l l' : Local}
    (ht : s.threads[t]? = some l) (hu : s.threads[u]? = some l')
    (hl : isFinisher l = true) (hl' : isFinisher l' = true) : t = u :=
  countP_le_one_unique (p := isFinisher) (by simpa [F] using hr.inv.F_le) ht hu hl hl'

/-- a finisher exists only while the word is `resizing _ 1` (stamp: current generation, or the
previous one once the finisher itself is at `pubStoreCtl`), and then nobody participates -/
theorem single_finisher_word (hr : Reachable n nthreads stride s) {l : Local} (hl : l ∈ s.threads)
    (hf : isFinisher l = true) :
    numParticipants s = 0 ∧
    ((l.pc ≠ .pubStoreCtl ∧ s.sizeCtl = .resizing s.gen 1) ∨
     (l.pc = .pubStoreCtl ∧ ∃ g, g + 1 = s.gen ∧ s.sizeCtl = .resizing g 1)) := by
  have I := hr.inv
  obtain ⟨t, ht⟩ := List.mem_iff_getElem?.mp hl
  obtain ⟨⟨g, hg⟩, hP, hF⟩ := I.fin_facts ht hf
  rw [numParticipants_eq]
  refine ⟨hP, ?_⟩
  have h2 := I.gen_eq g 1 hg
  have h3 := S_le_F s
  by_cases hpc : l.pc = .pubStoreCtl
  · right
    have : 0 < S s := countP_pos_of_getElem? ht (by simp [atStore, hpc])
    exact ⟨hpc, g, by omega, hg⟩
  · left
    have : S s = 0 := by
      apply List.countP_eq_zero.mpr
      intro a ha hpa
      obtain ⟨u, hu⟩ := List.mem_iff_getElem?.mp ha
      have := single_finisher_unique hr ht hu hf (atStore_isFinisher a hpa)
      subst this
      rw [ht] at hu; cases hu
      exact hpc ((atStore_iff _).mp hpa)
    have : g = s.gen := by omega
    subst this
    exact ⟨hpc, hg⟩

/-- conversely, a word `resizing _ 1` means that a finisher exists -/
theorem single_finisher_exists (hr : Reachable n nthreads stride s) {g : Nat}
    (h : s.sizeCtl = .resizing g 1) : ∃ l ∈ s.threads, isFinisher l = true := by
  have h4 := hr.inv.fin_eq
  rw [h] at h4; simp only [finWord] at h4
  have : 0 < s.threads.countP isFinisher := by simp only [F] at h4; omega
  obtain ⟨l, hl, hp⟩ := List.countP_pos_iff.mp this
  exact ⟨l, hl, hp⟩

/-- and a word with `c ≠ 1` (or an idle word) means that there is none -/
theorem no_finisher (hr : Reachable n nthreads stride s)
    (h : ∀ g, s.sizeCtl ≠ .resizing g 1) : ∀ l ∈ s.threads, isFinisher l = false := by
  intro l hl
  cases hf : isFinisher l with
  | false => rfl
  | true =>
    obtain ⟨t, ht⟩ := List.mem_iff_getElem?.mp hl
    obtain ⟨⟨g, hg⟩, _⟩ := hr.inv.fin_facts ht hf
    exact absurd hg (h g)

/-- idle word: every thread is outside the machinery, or at `casInit` (holding an idle word), or at
`casJoin` holding a resizing word – which differs from the current word, so that CAS will fail –,
or somewhere on one of the two join paths before that CAS -/
theorem single_finisher_idle (hr : Reachable n nthreads stride s) {thr : Nat}
    (h : s.sizeCtl = .idle thr) {l : Local} (hl : l ∈ s.threads) :
    l.finishing = false ∧
    (l.pc = .idle ∨ (∃ thr', l.pc = .casInit (.idle thr')) ∨
     (∃ g c, l.pc = .casJoin (.resizing g c) ∧ s.sizeCtl ≠ .resizing g c) ∨ joining l = true) := by
  have I := hr.inv
  obtain ⟨t, ht⟩ := List.mem_iff_getElem?.mp hl
  have hP : P s = 0 := by
    have h1 := I.cnt_eq; rw [h] at h1; simp only [cnt] at h1; omega
  have hF : F s = 0 := by
    have h1 := I.fin_eq; rw [h] at h1; simpa [finWord] using h1
  have h1 : participating l = false := by
    have := List.countP_eq_zero.mp hP l hl; simpa using this
  have h2 : isFinisher l = false := by
    have := List.countP_eq_zero.mp hF l hl; simpa using this
  have hq := quiet_of_not l h1 h2
  have hL := I.locals t l ht
  unfold quiet at hq; unfold LocalOk at hL
  split at hq <;> simp_all [JoinOk, joining] <;> grind

/-- target 2, all parts in one statement -/
theorem single_finisher (hr : Reachable n nthreads stride s) :
    (∀ (t u : Nat) (l l' : Local), s.threads[t]? = some l → s.threads[u]? = some l' →
        isFinisher l = true → isFinisher l' = true → t = u) ∧
    (∀ l ∈ s.threads, isFinisher l = true →
        numParticipants s = 0 ∧
        ((l.pc ≠ .pubStoreCtl ∧ s.sizeCtl = .resizing s.gen 1) ∨
         (l.pc = .pubStoreCtl ∧ ∃ g, g + 1 = s.gen ∧ s.sizeCtl = .resizing g 1))) ∧
    (∀ thr, s.sizeCtl = .idle thr → ∀ l ∈ s.threads,
        l.finishing = false ∧
        (l.pc = .idle ∨ (∃ thr', l.pc = .casInit (.idle thr')) ∨
         (∃ g c, l.pc = .casJoin (.resizing g c) ∧ s.sizeCtl ≠ .resizing g c) ∨ joining l = true)) :=
  ⟨fun _ _ _ _ ht hu hl hl' => single_finisher_unique hr ht hu hl hl',
   fun _ hl hf => single_finisher_word hr hl hf,
   fun _ h _ hl => single_finisher_idle hr h hl⟩

/-! ## 3. `moved_once` -/

theorem moved_once (hr : Reachable n nthreads stride s) :
    s.moved.length = s.n ∧ s.migrations.length = s.n ∧
    ∀ idx, idx < s.n →
      s.migrations.getD idx 0 ≤ 1 ∧
      (s.moved.getD idx false = true ↔ s.migrations.getD idx 0 = 1) := by
  have I := hr.inv
  have h1 := I.moved_len
  have h2 := I.migr_eq
  refine ⟨h1, by rw [h2, List.length_map, h1], ?_⟩
  intro idx hidx
  have hlt : idx < s.moved.length := by omega
  rw [h2]
  simp only [List.getD, List.getElem?_map, List.getElem?_eq_getElem hlt, Option.map_some,
    Option.getD_some]
  cases s.moved[idx] <;> simp

/-! ## 4. `all_moved_at_publish` -/

theorem all_moved_at_publish (hr : Reachable n nthreads stride s) {l : Local} (hl : l ∈ s.threads)
    (hpc : l.pc = .pubClearNext ∨ l.pc = .pubSwapTable) :
    ∀ idx, idx < s.n → s.moved.getD idx false = true := by
  obtain ⟨t, ht⟩ := List.mem_iff_getElem?.mp hl
  have hL := hr.inv.locals t l ht
  intro idx hidx
  rcases hpc with hpc | hpc <;> simp only [LocalOk, hpc] at hL
  · exact hL idx (by omega) hidx
  · exact hL.1 idx (by omega) hidx

/-- hence every bin was migrated exactly once when the new table is published -/
theorem all_migrated_once_at_publish (hr : Reachable n nthreads stride s) {l : Local}
    (hl : l ∈ s.threads) (hpc : l.pc = .pubClearNext ∨ l.pc = .pubSwapTable) :
    ∀ idx, idx < s.n → s.migrations.getD idx 0 = 1 := fun idx hidx =>
  ((moved_once hr).2.2 idx hidx).2.1 (all_moved_at_publish hr hl hpc idx hidx)

/-- the key invariant: the finisher walks `i = n, n-1, …, 0` and has seen every bin above its
index moved (it never claims) -/
theorem finisher_sweep (hr : Reachable n nthreads stride s) {l : Local} (hl : l ∈ s.threads)
    (hf : l.finishing = true) :
    (l.pc = .claimLoad → l.advance = true ∧ l.i ≤ s.n ∧
        ∀ idx : Nat, l.i ≤ idx → idx < s.n → s.moved.getD idx false = true) ∧
    (l.pc = .dispatch ∨ l.pc = .processBin → l.i < s.n ∧
        ∀ idx : Nat, l.i < idx → idx < s.n → s.moved.getD idx false = true) ∧
    (l.pc = .processBin → 0 ≤ l.i) := by
  obtain ⟨t, ht⟩ := List.mem_iff_getElem?.mp hl
  have hL := hr.inv.locals t l ht
  refine ⟨?_, ?_, ?_⟩
  · intro hpc; simp only [LocalOk, hpc] at hL; exact hL hf
  · rintro (hpc | hpc) <;> simp only [LocalOk, hpc] at hL
    · exact ⟨(hL hf).1, fun idx h1 h2 => (hL hf).2 idx (by omega) h2⟩
    · exact ⟨hL.2.1, fun idx h1 h2 => hL.2.2 hf idx (by omega) h2⟩
  · intro hpc; simp only [LocalOk, hpc] at hL; exact hL.1

/-- `processBin` only ever touches a valid bin of the current table -/
theorem processBin_in_range (hr : Reachable n nthreads stride s) {l : Local} (hl : l ∈ s.threads)
    (hpc : l.pc = .processBin) : 0 ≤ l.i ∧ l.i < s.n := by
  obtain ⟨t, ht⟩ := List.mem_iff_getElem?.mp hl
  have hL := hr.inv.locals t l ht
  simp only [LocalOk, hpc] at hL; exact ⟨hL.1, hL.2.1⟩

/-! ## 5. `single_publication` -/

theorem single_publication (hr : Reachable n nthreads stride s) :
    (∀ g, s.published.getD g 0 ≤ 1) ∧ s.published.length = s.gen ∧
    (∀ g, g < s.gen → s.published.getD g 0 = 1) ∧ s.n = n * 2 ^ s.gen := by
  have I := hr.inv
  have h1 := I.pub_eq
  refine ⟨?_, by rw [h1, List.length_replicate], ?_, I.n_eq⟩
  · intro g; rw [h1]
    simp only [List.getD, List.getElem?_replicate]
    split <;> simp
  · intro g hg; rw [h1]
    simp [List.getD, hg]

/-! ## 6. `no_overlap` -/

theorem no_overlap (hr : Reachable n nthreads stride s) (h : s.nextTable = true) :
    ∃ c, s.sizeCtl = .resizing s.gen c := by
  have I := hr.inv
  cases hsc : s.sizeCtl with
  | idle thr => have := (I.idle_thr thr hsc).2; simp_all
  | resizing g c =>
    rcases (count_invariant hr hsc).2 with h1 | ⟨_, _, l, hl, hp⟩
    · subst h1; exact ⟨c, rfl⟩
    · obtain ⟨t, ht⟩ := List.mem_iff_getElem?.mp hl
      have hL := I.locals t l ht
      simp only [LocalOk, hp] at hL
      simp_all

/-- a step that turns an idle word into a resizing one is a successful `casInit`: it starts from a
state without next table in which every thread is quiet, and installs exactly `resizing s.gen 2` -/
theorem resize_starts_from_idle (hr : Reachable n nthreads stride s) {t c : Nat} {s' : State}
    (hs : step s t c = some s') {thr : Nat} (hidle : s.sizeCtl = .idle thr)
    (hne : s'.sizeCtl ≠ s.sizeCtl) :
    s'.sizeCtl = .resizing s.gen 2 ∧ s.nextTable = false ∧ thr = threshold s.n ∧
    (∃ l, s.threads[t]? = some l ∧ l.pc = .casInit (.idle thr)) ∧
    s'.gen = s.gen ∧ s'.n = s.n := by
  have I := hr.inv
  obtain ⟨hthr, hnt⟩ := I.idle_thr thr hidle
  cases hl : s.threads[t]? with
  | none => simp [step, hl] at hs
  | some l =>
    have hq := (single_finisher_idle hr hidle (List.mem_of_getElem? hl)).2
    rcases hq with hpc | ⟨thr', hpc⟩ | ⟨g, k, hpc, hk⟩ | hj
    · simp only [step, hl, hpc, hidle] at hs
      split at hs <;> first | (injection hs with hs; subst hs; simp_all [setT]; done) | simp_all
    · simp only [step, hl, hpc, hidle] at hs
      split at hs
      · injection hs with hs; subst hs
        have : thr = thr' := by simp_all
        subst this
        exact ⟨rfl, hnt, hthr, ⟨l, rfl, hpc⟩, rfl, rfl⟩
      · injection hs with hs; subst hs; simp_all [setT]
    · simp only [step, hl, hpc, hidle] at hs
      split at hs
      · simp_all
      · injection hs with hs; subst hs; simp_all [setT]
    · exfalso
      cases hpc : l.pc <;> simp [joining, hpc] at hj <;> simp only [step, hl, hpc, hidle] at hs
      all_goals
        (repeat' split at hs) <;> (injection hs with hs; subst hs; simp_all [setT])

/-- a resizing word is only ever replaced by a resizing word with the *same* stamp or by an idle
word: resizes of different generations never overlap -/
theorem stamp_stable (hr : Reachable n nthreads stride s) {t ch : Nat} {s' : State}
    (hs : step s t ch = some s') {g c g' c' : Nat} (h : s.sizeCtl = .resizing g c)
    (h' : s'.sizeCtl = .resizing g' c') : g' = g := by
  cases hl : s.threads[t]? with
  | none => simp [step, hl] at hs
  | some l =>
    have hL := hr.inv.locals t l hl
    cases hpc : l.pc <;> simp only [LocalOk, hpc] at hL <;> simp only [step, hl, hpc] at hs
    case casInit sc =>
      obtain ⟨_, thr, rfl⟩ := hL
      split at hs
      · simp_all
      · injection hs with hs; subst hs; simp_all [setT]
    case casJoin sc =>
      split at hs
      · (repeat' split at hs) <;> (injection hs with hs; subst hs; simp_all)
      · injection hs with hs; subst hs; simp_all [setT]
    case leaveCas sc =>
      split at hs
      · split at hs
        · split at hs <;> (injection hs with hs; subst hs; simp_all)
        · injection hs with hs; subst hs; simp_all
      · injection hs with hs; subst hs; simp_all [setT]
    all_goals
      (repeat' split at hs) <;> (injection hs with hs; subst hs; simp_all [setT])

/-! ## 7. `quiescent_after` -/

theorem quiescent_after (hr : Reachable n nthreads stride s) (h : allIdle s) :
    s.sizeCtl = .idle (threshold s.n) ∧ s.nextTable = false := by
  have I := hr.inv
  have hP : P s = 0 := by
    apply List.countP_eq_zero.mpr
    intro l hl; simp [participating, h l hl]
  have hF : F s = 0 := by
    apply List.countP_eq_zero.mpr
    intro l hl
    obtain ⟨t, ht⟩ := List.mem_iff_getElem?.mp hl
    have hL := I.locals t l ht
    simp only [LocalOk, h l hl] at hL
    simp [isFinisher, h l hl, hL]
  cases hsc : s.sizeCtl with
  | idle thr =>
    obtain ⟨h1, h2⟩ := I.idle_thr thr hsc
    subst h1; exact ⟨rfl, h2⟩
  | resizing g c =>
    have h1 := I.cnt_eq; rw [hsc] at h1; simp only [cnt] at h1
    have h2 := I.fin_eq; rw [hsc] at h2
    have : c = 1 := by omega
    subst this; simp [finWord] at h2; omega

/-! ## 8. `no_stale_join` (finding F6: what the generation comparison of `help_transfer` buys) -/

/-- the model parameters are never changed by a step -/
theorem checkGen_true (hr : Reachable n nthreads stride s) : s.checkGen = true := hr.inv.check_eq

theorem step_maxResizers {t c : Nat} {s' : State} (hs : step s t c = some s') :
    s'.maxResizers = s.maxResizers ∧ s'.checkGen = s.checkGen := by
  cases hl : s.threads[t]? with
  | none => simp [step, hl] at hs
  | some l =>
    cases hpc : l.pc <;> simp only [step, hl, hpc] at hs
    all_goals
      (repeat' split at hs) <;> (injection hs with hs; subst hs; exact ⟨rfl, rfl⟩)

theorem maxResizers_eq (hr : Reachable n nthreads stride s) : s.maxResizers = 2 ^ 32 - 1 := by
  induction hr with
  | init => rfl
  | step t c _ hs ih => rw [(step_maxResizers hs).1, ih]

/-- a held table is never younger than the current one -/
theorem held_le_gen (hr : Reachable n nthreads stride s) {l : Local} (hl : l ∈ s.threads) :
    l.heldGen ≤ s.gen := by
  obtain ⟨t, ht⟩ := List.mem_iff_getElem?.mp hl
  exact hr.inv.held_le t l ht

/-- a thread whose join CAS is about to succeed (it is at `casJoin sc` and `sc` is the current word)
holds the tables of the current generation, the word carries the current stamp and counts at least
one participant besides the finisher's `1` -/
theorem join_ready_current (hr : Reachable n nthreads stride s) {l : Local} (hl : l ∈ s.threads)
    {sc : SC} (hpc : l.pc = .casJoin sc) (hsc : s.sizeCtl = sc) :
    l.heldGen = s.gen ∧ ∃ k, sc = .resizing s.gen k ∧ 2 ≤ k := by
  have I := hr.inv
  obtain ⟨t, ht⟩ := List.mem_iff_getElem?.mp hl
  have hL := I.locals t l ht
  simp only [LocalOk, hpc] at hL
  obtain ⟨_, g, k, rfl, hgh, hk1⟩ := hL
  have hk : k ≠ 1 := by
    intro h1; subst h1; exact (hk1 rfl).2 hsc
  have hg : g = s.gen := I.word_gen_eq hsc hk
  have hh := I.held_le t l ht
  have hc := I.cnt_eq
  rw [hsc] at hc; simp only [cnt] at hc
  subst hg
  exact ⟨by omega, k, rfl, by omega⟩

/-- a thread that is past its refusal test and has seen a next table carries a word that is not
younger than the table it holds (for `help_transfer` they are equal – this is where `checkGen` is
used –; `add_count` loads the word first and the table afterwards), and if it is a "finishing" word
it is strictly older and not the current word any more -/
theorem join_path_word (hr : Reachable n nthreads stride s) {l : Local} (hl : l ∈ s.threads)
    {sc : SC} (hpc : l.pc = .helpLoadIndex sc ∨ l.pc = .acLoadIndex sc ∨ l.pc = .casJoin sc) :
    ∃ g k, sc = .resizing g k ∧ g ≤ l.heldGen ∧ l.heldGen ≤ s.gen ∧
      (k = 1 → g < l.heldGen ∧ s.sizeCtl ≠ sc) := by
  have I := hr.inv
  obtain ⟨t, ht⟩ := List.mem_iff_getElem?.mp hl
  have hL := I.locals t l ht
  have hh := I.held_le t l ht
  rcases hpc with hpc | hpc | hpc <;> simp only [LocalOk, hpc] at hL <;>
    (obtain ⟨_, g, k, rfl, hgh, hk1⟩ := hL
     exact ⟨g, k, rfl, hgh, hh, fun h1 => by subst h1; exact hk1 rfl⟩)

/-- **no thread is ever admitted to a resize while holding the tables of another generation** -/
theorem no_stale_join (hr : Reachable n nthreads stride s) : s.staleJoins = 0 := hr.inv.stale_eq

/-- the step form: a `casJoin` step that changes the word is taken by a thread holding the current
generation, on a word with the current stamp, and makes that thread a participant -/
theorem join_step_current (hr : Reachable n nthreads stride s) {t c : Nat} {s' : State} {l : Local}
    {sc : SC} (hl : s.threads[t]? = some l) (hpc : l.pc = .casJoin sc)
    (hs : step s t c = some s') (hne : s'.sizeCtl ≠ s.sizeCtl) :
    l.heldGen = s.gen ∧ ∃ k, sc = .resizing s.gen k ∧ 2 ≤ k ∧ s'.sizeCtl = .resizing s.gen (k + 1) ∧
      ∃ l', s'.threads = s.threads.set t l' ∧ participating l' = true ∧ l'.heldGen = s'.gen := by
  have hL := hr.inv.locals t l hl
  simp only [LocalOk, hpc] at hL
  have hfin := hL.1
  simp only [step, hl, hpc] at hs
  split at hs
  · rename_i hword
    have hword : s.sizeCtl = sc := by simpa using hword
    obtain ⟨hh, k, rfl, hk⟩ := join_ready_current hr (List.mem_of_getElem? hl) hpc hword
    simp only [hh, beq_self_eq_true, if_true] at hs
    injection hs with hs; subst hs
    exact ⟨hh, k, rfl, hk, rfl, _, rfl, by simp [participating], rfl⟩
  · injection hs with hs; subst hs
    exact absurd rfl hne

theorem threshold_eq (m : Nat) : threshold m = m - m / 4 := rfl

end Flurry.Proto.Resize
