import Flurry.Lemmas.BinNGenFrame
/-! # Proto/BinN: the generation invariant — thread-local part of every transition -/
namespace Flurry.Proto.BinN
open Flurry.Lin
open Flurry.Proto.BinX (NodeS Cell Pending isReader dflt chainFrom cellHead cellOfHead get_set get_set_self get_set_ne)

/-- a thread whose program counter refers to no generation, no cell and no lock -/
theorem thrOK_plain (s : State) (t : Nat) {l : Local} (h1 : ¬ isT l.pc) (h2 : genOfPc l.pc = none)
    (h3 : ∀ h, ¬ Holds l.pc h) (h4 : vcell s.cur l = none) : ThrOK s t l := by
  refine ⟨fun h => absurd h h1, ?_, ?_, ?_, fun h hh => absurd hh (h3 h), ?_⟩
  · intro p g _ hg; rw [h2] at hg; cases hg
  · intro j hj
    obtain ⟨pc, call⟩ := l
    cases pc <;> first | exact absurd trivial h1 | cases hj
  · intro hc; rw [hc] at h1; exact absurd trivial h1
  · intro g j h hv; rw [h4] at hv; cases hv

theorem thrOK_idle (s : State) (t : Nat) (c : Option Pending) : ThrOK s t { pc := .idle, call := c } :=
  thrOK_plain s t (fun h => h) rfl (fun _ h => h) rfl

theorem thrOK_invoke (s : State) (t : Nat) (op : KOp) (c : Option Pending) :
    ThrOK s t { pc := if isReader op then .rTable else .wTable, call := c } := by
  cases isReader op
  · exact thrOK_plain s t (fun h => h) rfl (fun _ h => h) rfl
  · exact thrOK_plain s t (fun h => h) rfl (fun _ h => h) rfl

/-- a validated writer: its cell is the cell of its key in the generation it works in -/
theorem vcell_writer {cur : Nat} {l : Local} {g j h : Nat} (hv : vcell cur l = some (g, j, h)) (hT : ¬ isT l.pc) :
    ∃ p, l.call = some p ∧ genOfPc l.pc = some g ∧ j = p.key % 2 ^ g := by
  obtain ⟨pc, call⟩ := l
  cases pc <;> first | exact absurd trivial hT | skip
  all_goals cases call <;> first | (cases hv; done) | skip
  all_goals (simp only [vcell, Option.some.injEq, Prod.mk.injEq] at hv; obtain ⟨rfl, rfl, rfl⟩ := hv; exact ⟨_, rfl, rfl, rfl⟩)

theorem vcell_cur_indep {c c' : Nat} {l : Local} (hT : ¬ isT l.pc) : vcell c l = vcell c' l := by
  obtain ⟨pc, call⟩ := l
  cases pc <;> first | exact absurd trivial hT | rfl | (cases call <;> rfl)

/-- a thread that is not the resizing thread -/
theorem thrOK_w (s : State) (t : Nat) {l : Local} (h1 : ¬ isT l.pc)
    (hgen : ∀ p g, l.call = some p → genOfPc l.pc = some g →
      g ≤ s.cur + 1 ∧ (g = s.cur + 1 → cellOf s s.cur p.key = .moved))
    (hheld : ∀ h, Holds l.pc h → h < s.heap.length ∧ lockAt s.heap h = some t)
    (hvalid : ∀ g j h, vcell s.cur l = some (g, j, h) → cellAt s g j = .node h ∧ Holds l.pc h) : ThrOK s t l := by
  refine ⟨fun h => absurd h h1, hgen, ?_, ?_, hheld, hvalid⟩
  · intro j hj
    obtain ⟨pc, call⟩ := l
    cases pc <;> first | exact absurd trivial h1 | cases hj
  · intro hc; rw [hc] at h1; exact absurd trivial h1

/-- the resizing thread -/
theorem thrOK_t (s : State) (t : Nat) {l : Local} (R : s.resizing = true) (hT : isT l.pc)
    (hidx : ∀ j, tIdx l.pc = some j → j < 2 ^ s.cur)
    (hcommit : l.pc = .tCommit → ∀ j, j < 2 ^ s.cur → cellAt s s.cur j = .moved)
    (hheld : ∀ h, Holds l.pc h → h < s.heap.length ∧ lockAt s.heap h = some t)
    (hvalid : ∀ g j h, vcell s.cur l = some (g, j, h) → cellAt s g j = .node h ∧ Holds l.pc h) : ThrOK s t l := by
  refine ⟨fun _ => R, ?_, hidx, hcommit, hheld, hvalid⟩
  intro p g _ hg
  obtain ⟨pc, call⟩ := l
  cases pc <;> first | exact absurd hT (fun h => h) | cases hg

/-- following a forwarding marker: the thread goes on to generation `g + 1` -/
theorem gen_follow {s : State} (I : GenInv s) {g k : Nat}
    (hg : g ≤ s.cur + 1 ∧ (g = s.cur + 1 → cellOf s s.cur k = .moved)) (hm : cellOf s g k = .moved) :
    g + 1 ≤ s.cur + 1 ∧ (g + 1 = s.cur + 1 → cellOf s s.cur k = .moved) := by
  have hne : g ≠ s.cur + 1 := by
    intro e
    rw [e] at hm
    exact I.nextOK _ hm
  refine ⟨by omega, ?_⟩
  intro e
  have : g = s.cur := by omega
  rw [← this]; exact hm

/-- pc-only transitions of a call in flight -/
theorem Move.thrOK {s : State} {t : Nat} {p : Pending} {pc pc' : Pc} (I : GenInv s) (hm : Move s p pc pc')
    (T : ThrOK s t { pc := pc, call := some p }) : ThrOK s t { pc := pc', call := some p } := by
  have G := fun g (hg : genOfPc pc = some g) => T.gen p g rfl hg
  cases hm with
  | rTable =>
    refine thrOK_w s t (fun h => h) ?_ (fun h hh => hh.elim) (fun g j h hv => by cases hv)
    intro p' g hp hg
    cases hp; cases hg
    exact ⟨by omega, fun e => by omega⟩
  | wTable =>
    refine thrOK_w s t (fun h => h) ?_ (fun h hh => hh.elim) (fun g j h hv => by cases hv)
    intro p' g hp hg
    cases hp; cases hg
    exact ⟨by omega, fun e => by omega⟩
  | rCellMoved hc =>
    refine thrOK_w s t (fun h => h) ?_ (fun h hh => hh.elim) (fun g j h hv => by cases hv)
    intro p' g hp hg
    cases hp; cases hg
    exact gen_follow I (G _ rfl) hc
  | wCellMoved hc =>
    refine thrOK_w s t (fun h => h) ?_ (fun h hh => hh.elim) (fun g j h hv => by cases hv)
    intro p' g hp hg
    cases hp; cases hg
    exact gen_follow I (G _ rfl) hc
  | rCellNode hc => exact thrOK_plain s t (fun h => h) rfl (fun _ h => h) rfl
  | rNext hn hk => exact thrOK_plain s t (fun h => h) rfl (fun _ h => h) rfl
  | wCellEmpty hc hi =>
    refine thrOK_w s t (fun h => h) ?_ (fun h hh => hh.elim) (fun g j h hv => by cases hv)
    intro p' g hp hg
    cases hp; cases hg
    exact G _ rfl
  | wCellNode hc =>
    refine thrOK_w s t (fun h => h) ?_ (fun h hh => hh.elim) (fun g j h hv => by cases hv)
    intro p' g hp hg
    cases hp; cases hg
    exact G _ rfl
  | casFail =>
    refine thrOK_w s t (fun h => h) ?_ (fun h hh => hh.elim) (fun g j h hv => by cases hv)
    intro p' g hp hg
    cases hp; cases hg
    exact G _ rfl
  | @checkOk g h hc =>
    refine thrOK_w s t (fun h => h) ?_ (fun h' hh => T.held h' hh) ?_
    · intro p' g hp hg
      cases hp; cases hg
      exact G _ rfl
    · intro g' j' h' hv
      simp only [vcell, Option.some.injEq, Prod.mk.injEq] at hv
      obtain ⟨rfl, rfl, rfl⟩ := hv
      exact ⟨hc, rfl⟩
  | checkFail hc =>
    refine thrOK_w s t (fun h => h) ?_ (fun h' hh => T.held h' hh) (fun g j h hv => by cases hv)
    intro p' g hp hg
    cases hp; cases hg
    exact G _ rfl
  | findEnd =>
    refine thrOK_w s t (fun h => h) ?_ (fun h' hh => T.held h' hh) (fun g' j' h' hv => T.valid g' j' h' hv)
    intro p' g hp hg
    cases hp; cases hg
    exact G _ rfl
  | findHit hn hk =>
    refine thrOK_w s t (fun h => h) ?_ (fun h' hh => T.held h' hh) (fun g' j' h' hv => T.valid g' j' h' hv)
    intro p' g hp hg
    cases hp; cases hg
    exact G _ rfl
  | findNext hn hk =>
    refine thrOK_w s t (fun h => h) ?_ (fun h' hh => T.held h' hh) (fun g' j' h' hv => T.valid g' j' h' hv)
    intro p' g hp hg
    cases hp; cases hg
    exact G _ rfl

/-- pc-only transitions of the resizing thread -/
theorem TMove.thrOK {s : State} {t : Nat} {pick : Nat} {pc pc' : Pc} {c : Option Pending} (I : GenInv s)
    (hm : TMove s pick pc pc') (T : ThrOK s t { pc := pc, call := c }) : ThrOK s t { pc := pc', call := c } := by
  have R : s.resizing = true := T.tres (by cases hm <;> trivial)
  cases hm with
  | nextDone ha =>
    refine thrOK_t s t R trivial (fun j h => by cases h) (fun _ => I.of_allMoved ha) (fun h hh => hh.elim) ?_
    intro g j h hv; cases c <;> cases hv
  | nextPick ha =>
    refine thrOK_t s t R trivial ?_ (fun h => by cases h) (fun h hh => hh.elim) ?_
    · intro j hj
      cases hj
      exact mod_lt_pow _ _
    · intro g j h hv; cases c <;> cases hv
  | cellEmpty hc =>
    refine thrOK_t s t R trivial (fun j hj => by cases hj; exact T.idx _ rfl) (fun h => by cases h) (fun h hh => hh.elim) ?_
    intro g j h hv; cases c <;> cases hv
  | cellNode hc =>
    refine thrOK_t s t R trivial (fun j hj => by cases hj; exact T.idx _ rfl) (fun h => by cases h) (fun h hh => hh.elim) ?_
    intro g j h hv; cases c <;> cases hv
  | cellMoved hc =>
    refine thrOK_t s t R trivial (fun j hj => by cases hj) (fun h => by cases h) (fun h hh => hh.elim) ?_
    intro g j h hv; cases c <;> cases hv
  | casFail hc =>
    refine thrOK_t s t R trivial (fun j hj => by cases hj; exact T.idx _ rfl) (fun h => by cases h) (fun h hh => hh.elim) ?_
    intro g j h hv; cases c <;> cases hv
  | @checkOk j h hc =>
    refine thrOK_t s t R trivial (fun j hj => by cases hj; exact T.idx _ rfl) (fun h => by cases h)
      (fun h' hh => T.held h' hh) ?_
    intro g' j' h' hv
    have : (s.cur, j, h) = (g', j', h') := by cases c <;> exact Option.some.inj hv
    cases this
    exact ⟨hc, rfl⟩

end Flurry.Proto.BinN
