import Flurry.Lemmas.BinNHFullStep
/-! # Proto/BinNH: the transitions of the helper parts preserve the complete invariant — case by case -/
namespace Flurry.Proto.BinNH
open Flurry.Lin
open Flurry.Proto.BinX (NodeS Cell Pending isReader dflt chainFrom cellHead cellOfHead get_set get_set_self get_set_ne
  cellOfHead_ne_moved nodeAt chainH nextA nodeAt_append_left)
open Flurry.Proto.BinN (cellAt cellOf putCell setNode allMoved splitBinB bitAt lockAt LockSame GenInv ThrOK isT
  Holds vcell genOfPc cellT StepK tick setT finish TInv WInv getCell chId CellId)
open Flurry.Proto.BinNHM (Ghost IsMid HInv MemStep GInv Good buildG)

theorem midPc_isMidH {pc : HPc} (h : midPc pc) : ∃ j, isMidH pc j := by
  cases pc <;> first | exact h.elim | exact ⟨_, rfl⟩

theorem two_pow_pos' (g : Nat) : 0 < 2 ^ g := Nat.pos_of_ne_zero (by simp)

/-! ## the split -/

theorem full_build {k : Nat} {s : State} {G : Ghost} {A : Nat → KSt} {pt : Nat → Nat} {t : Nat} {l : BinN.Local}
    {g0 j h : Nat} {n' : BinN.State} {lo hg : Option Nat} (F : Full s G) (g : GInv k s.n G A pt)
    (hl : s.n.threads[t]? = some l) (hh : s.hs[t]? = some (some ⟨g0, .build j h⟩))
    (hn' : n' = { tickN s.n with heap := (splitBinB (bitAt g0) s.n.heap (chainFrom s.n.heap s.n.heap.length (some h))).1 })
    (hlo : lo = (splitBinB (bitAt g0) s.n.heap (chainFrom s.n.heap s.n.heap.length (some h))).2.1)
    (hhg : hg = (splitBinB (bitAt g0) s.n.heap (chainFrom s.n.heap s.n.heap.length (some h))).2.2)
    (B' : Inv (setH s t n' (some ⟨g0, .storeLow j h lo hg⟩))) :
    ∃ G' A', Full (setH s t n' (some ⟨g0, .storeLow j h lo hg⟩)) G' ∧ GInv k n' G' A' pt ∧
      ∀ k', BinN.absOf n' k' = BinN.absOf s.n k' := by
  have H := F.base.hok t _ hh
  have hidle := F.base.hidle t _ l hh hl
  have HI := F.inv.heap
  obtain ⟨e, R⟩ := H.valid_cur F.base.gen (j := j) (h := h) rfl
  have e : g0 = s.n.cur := e
  subst e
  have hj : j < 2 ^ s.n.cur := H.idx j rfl
  have hc0 : cellAt s.n s.n.cur j = .node h := H.valid j h rfl
  have hnm : cellAt s.n s.n.cur j ≠ .moved := by rw [hc0]; simp
  have hmid : G.mid j = none := F.mid_none_of hh (j := j) (h := h) rfl (fun h => h)
  have hnmid : ¬ IsMid G j := BinNHM.not_isMid_of_none hmid
  subst hn' hlo hhg
  obtain ⟨H', hstep, habs, -⟩ := BinNHM.build_effect
    (s' := { tickN s.n with heap := (splitBinB (bitAt s.n.cur) s.n.heap (chainFrom s.n.heap s.n.heap.length (some h))).1 })
    HI hmid hj hc0 rfl rfl rfl rfl
  obtain ⟨ext, hext⟩ := BinN.splitBinB_ext (bitAt s.n.cur) s.n.heap (chainFrom s.n.heap s.n.heap.length (some h))
  refine ⟨_, full_helper F g hl hidle B' rfl rfl rfl H' (.heap hstep) habs ?_ ?_ ?_ ?_⟩
  · intro t1 l1 g1 j' h' _ _ _ _
    have hch := BinNHM.chId_of_ext HI H' hext rfl (g1, j')
    refine ⟨rfl, hch, ?_⟩
    intro i hi
    have hil : i < s.n.heap.length := HI.chain_lt (id := (g1, j')) hi
    show (nodeAt (splitBinB _ _ _).1 i).key = _ ∧ (nodeAt (splitBinB _ _ _).1 i).next = _
    rw [hext, nodeAt_append_left ext hil]
    exact ⟨rfl, rfl⟩
  · intro j1 hm1 t1 l1 h1 hl1
    by_cases e : j1 = j
    · subst e
      exact F.no_rw_on_helper_cell hh (j := j1) (h := h) rfl t1 l1 h1 hl1
    · refine F.inv.midw j1 ?_ t1 l1 h1 hl1
      unfold IsMid at hm1 ⊢
      rw [BinNHM.buildG_ne _ _ _ _ _ e] at hm1; exact hm1
  · intro t1 hp1 h1
    rcases get_set h1 with ⟨-, e⟩ | ⟨ne, h1⟩
    · cases e
      refine ⟨_, BinNHM.buildG_self _ _ _ _ _ _, ?_, ?_⟩
      · exact HI.nextEmpty j (by rw [Nat.mod_eq_of_lt hj]; exact hnm) (by rw [Nat.mod_eq_of_lt hj]; exact hnmid)
      · exact HI.nextEmpty (j + 2 ^ s.n.cur) (by rw [BinN.high_mod j s.n.cur hj]; exact hnm)
          (by rw [BinN.high_mod j s.n.cur hj]; exact hnmid)
    · exact F.others_pc (n' := { tickN s.n with heap := (splitBinB (bitAt s.n.cur) s.n.heap (chainFrom s.n.heap s.n.heap.length (some h))).1 })
        (j0 := j) (F.others_ne hh (Or.inr hmid)) rfl
        (fun j1 x jne hm => by rw [BinNHM.buildG_ne _ _ _ _ _ jne]; exact hm) (fun j1 _ _ => ⟨rfl, rfl⟩) t1 hp1 ne h1
  · refine F.others_mh hh (j0 := j) (fun j' hm => hm.elim) ?_ (fun _ => ⟨_, rfl, rfl⟩)
    intro j1 hm1 jne
    unfold IsMid at hm1 ⊢
    rw [BinNHM.buildG_ne _ _ _ _ _ jne] at hm1; exact hm1

/-! ## the empty bin -/

theorem full_cas {k : Nat} {s : State} {G : Ghost} {A : Nat → KSt} {pt : Nat → Nat} {t : Nat} {l : BinN.Local}
    {g0 j : Nat} (F : Full s G) (g : GInv k s.n G A pt)
    (hl : s.n.threads[t]? = some l) (hh : s.hs[t]? = some (some ⟨g0, .casMoved j⟩))
    (hc0 : cellAt s.n g0 j = .empty)
    (B' : Inv (setH s t (putCell (tickN s.n) g0 j .moved) (some ⟨g0, .next⟩))) :
    ∃ G' A', Full (setH s t (putCell (tickN s.n) g0 j .moved) (some ⟨g0, .next⟩)) G' ∧
      GInv k (putCell (tickN s.n) g0 j .moved) G' A' pt ∧
      ∀ k', BinN.absOf (putCell (tickN s.n) g0 j .moved) k' = BinN.absOf s.n k' := by
  have H := F.base.hok t _ hh
  have hidle := F.base.hidle t _ l hh hl
  have HI := F.inv.heap
  have Gn := F.base.gen
  have hj : j < 2 ^ g0 := H.idx j rfl
  have e : g0 = s.n.cur := by
    have : ¬ g0 < s.n.cur := fun hlt => by
      have := Gn.old g0 j hlt hj
      rw [hc0] at this; cases this
    have : g0 ≤ s.n.cur := H.gle
    omega
  subst e
  have R : s.n.resizing = true := H.res rfl
  have hmid : G.mid j = none := by
    cases hm : G.mid j with
    | none => rfl
    | some x =>
      obtain ⟨-, ⟨h, hc⟩, -⟩ := HI.mid j x.1 x.2.1 x.2.2 hm
      rw [hc0] at hc; cases hc
  have S' : BinN.Shape (putCell (tickN s.n) s.n.cur j .moved) := B'.gen.shape
  obtain ⟨H', hstep, habs⟩ := BinNHM.casMoved_effect (s' := putCell (tickN s.n) s.n.cur j .moved) HI S' hmid hj hc0 R
    rfl rfl rfl rfl
  refine ⟨G, full_helper F g hl hidle B' rfl rfl rfl H' (.heap hstep) habs ?_ ?_ ?_ ?_⟩
  · intro t1 l1 g1 j' h' _ h1 hv _
    refine BinNHM.hfr_put (s := s.n) (s' := putCell (tickN s.n) s.n.cur j .moved) (g0 := s.n.cur) (j0 := j) (c := .moved)
      rfl rfl ?_
    rintro ⟨rfl, rfl⟩
    exact BinN.no_vcell_of_not_node Gn (by rw [hc0]; simp) t1 l1 h' h1 hv
  · intro j1 hm1 t1 l1 h1 hl1
    exact F.inv.midw j1 hm1 t1 l1 h1 hl1
  · intro t1 hp1 h1
    rcases get_set h1 with ⟨-, e⟩ | ⟨ne, h1⟩
    · cases e; trivial
    · refine F.others_pc (n' := putCell (tickN s.n) s.n.cur j .moved) (j0 := j) (F.others_ne hh (Or.inr hmid)) rfl (fun j1 x _ hm => hm) ?_ t1 hp1 ne h1
      intro j1 _ _
      exact ⟨BinNHM.cellAt_put_ne (s := s.n) rfl (fun h => by omega), BinNHM.cellAt_put_ne (s := s.n) rfl (fun h => by omega)⟩
  · refine F.others_mh hh (j0 := j) (fun j' hm => hm.elim) (fun j1 hm1 _ => hm1) ?_
    intro hm
    exact absurd hm (BinNHM.not_isMid_of_none hmid)

/-! ## the stores of the two new lists -/

theorem full_low {k : Nat} {s : State} {G : Ghost} {A : Nat → KSt} {pt : Nat → Nat} {t : Nat} {l : BinN.Local}
    {g0 j h : Nat} {lo hg : Option Nat} (F : Full s G) (g : GInv k s.n G A pt)
    (hl : s.n.threads[t]? = some l) (hh : s.hs[t]? = some (some ⟨g0, .storeLow j h lo hg⟩))
    (B' : Inv (setH s t (putCell (tickN s.n) (g0 + 1) j (cellOfHead lo)) (some ⟨g0, .storeHigh j h hg⟩))) :
    ∃ G' A', Full (setH s t (putCell (tickN s.n) (g0 + 1) j (cellOfHead lo)) (some ⟨g0, .storeHigh j h hg⟩)) G' ∧
      GInv k (putCell (tickN s.n) (g0 + 1) j (cellOfHead lo)) G' A' pt ∧
      ∀ k', BinN.absOf (putCell (tickN s.n) (g0 + 1) j (cellOfHead lo)) k' = BinN.absOf s.n k' := by
  have H := F.base.hok t _ hh
  have hidle := F.base.hidle t _ l hh hl
  have HI := F.inv.heap
  obtain ⟨e, R⟩ := H.valid_cur F.base.gen (j := j) (h := h) rfl
  have e : g0 = s.n.cur := e
  subst e
  have hj : j < 2 ^ s.n.cur := H.idx j rfl
  have hc0 : cellAt s.n s.n.cur j = .node h := H.valid j h rfl
  have hnm : cellAt s.n s.n.cur j ≠ .moved := by rw [hc0]; simp
  obtain ⟨fr, hmid, hlow, hhigh⟩ := F.pcMid t _ hh
  have S' : BinN.Shape (putCell (tickN s.n) (s.n.cur + 1) j (cellOfHead lo)) := B'.gen.shape
  obtain ⟨H', hstep, habs⟩ := BinNHM.storeNew_effect (s' := putCell (tickN s.n) (s.n.cur + 1) j (cellOfHead lo))
    HI S' hmid R (Or.inl ⟨rfl, rfl, hlow⟩) rfl rfl rfl rfl
  have hp2 := two_pow_pos' s.n.cur
  refine ⟨G, full_helper F g hl hidle B' rfl rfl rfl H' (.heap hstep) habs ?_ ?_ ?_ ?_⟩
  · intro t1 l1 g1 j' h' _ h1 hv _
    refine BinNHM.hfr_put (s := s.n) (s' := putCell (tickN s.n) (s.n.cur + 1) j (cellOfHead lo)) (g0 := s.n.cur + 1) (j0 := j)
      (c := cellOfHead lo) rfl rfl ?_
    rintro ⟨rfl, rfl⟩
    exact no_writer_on_child F.base hnm (Nat.mod_eq_of_lt hj) t1 l1 h' h1 hv
  · intro j1 hm1 t1 l1 h1 hl1
    exact F.inv.midw j1 hm1 t1 l1 h1 hl1
  · intro t1 hp1 h1
    rcases get_set h1 with ⟨-, e⟩ | ⟨ne, h1⟩
    · cases e
      refine ⟨lo, fr, hmid, ?_, ?_⟩
      · exact BinNHM.cellAt_put_self (g := s.n.cur + 1) (j := j) HI.shape rfl (BinNHM.Shape.next_lt HI.shape R)
          (show j < 2 ^ (s.n.cur + 1) by rw [Nat.pow_succ]; omega)
      · have hne : ¬ (s.n.cur + 1 = s.n.cur + 1 ∧ j + 2 ^ s.n.cur = j) := by intro ⟨_, h2⟩; omega
        show cellAt _ (s.n.cur + 1) (j + 2 ^ s.n.cur) = _
        rw [BinNHM.cellAt_put_ne (s := s.n) (g := s.n.cur + 1) (j := j) (g' := s.n.cur + 1) (j' := j + 2 ^ s.n.cur) rfl hne]
        exact hhigh
    · refine F.others_pc (n' := putCell (tickN s.n) (s.n.cur + 1) j (cellOfHead lo)) (j0 := j)
        (F.others_ne hh (Or.inl rfl)) rfl (fun j1 x _ hm => hm) ?_ t1 hp1 ne h1
      intro j1 jne hj1
      exact ⟨BinNHM.cellAt_put_ne (s := s.n) rfl (fun h => jne h.2),
        BinNHM.cellAt_put_ne (s := s.n) rfl (fun h => by omega)⟩
  · refine F.others_mh hh (j0 := j) (fun j' hm => hm.symm) (fun j1 hm1 _ => hm1) (fun _ => ⟨_, rfl, rfl⟩)

theorem full_high {k : Nat} {s : State} {G : Ghost} {A : Nat → KSt} {pt : Nat → Nat} {t : Nat} {l : BinN.Local}
    {g0 j h : Nat} {hg : Option Nat} (F : Full s G) (g : GInv k s.n G A pt)
    (hl : s.n.threads[t]? = some l) (hh : s.hs[t]? = some (some ⟨g0, .storeHigh j h hg⟩))
    (B' : Inv (setH s t (putCell (tickN s.n) (g0 + 1) (j + 2 ^ g0) (cellOfHead hg)) (some ⟨g0, .storeMoved j h⟩))) :
    ∃ G' A', Full (setH s t (putCell (tickN s.n) (g0 + 1) (j + 2 ^ g0) (cellOfHead hg)) (some ⟨g0, .storeMoved j h⟩)) G' ∧
      GInv k (putCell (tickN s.n) (g0 + 1) (j + 2 ^ g0) (cellOfHead hg)) G' A' pt ∧
      ∀ k', BinN.absOf (putCell (tickN s.n) (g0 + 1) (j + 2 ^ g0) (cellOfHead hg)) k' = BinN.absOf s.n k' := by
  have H := F.base.hok t _ hh
  have hidle := F.base.hidle t _ l hh hl
  have HI := F.inv.heap
  obtain ⟨e, R⟩ := H.valid_cur F.base.gen (j := j) (h := h) rfl
  have e : g0 = s.n.cur := e
  subst e
  have hj : j < 2 ^ s.n.cur := H.idx j rfl
  have hc0 : cellAt s.n s.n.cur j = .node h := H.valid j h rfl
  have hnm : cellAt s.n s.n.cur j ≠ .moved := by rw [hc0]; simp
  obtain ⟨lo, fr, hmid, hlow, hhigh⟩ := F.pcMid t _ hh
  have S' : BinN.Shape (putCell (tickN s.n) (s.n.cur + 1) (j + 2 ^ s.n.cur) (cellOfHead hg)) := B'.gen.shape
  obtain ⟨H', hstep, habs⟩ := BinNHM.storeNew_effect
    (s' := putCell (tickN s.n) (s.n.cur + 1) (j + 2 ^ s.n.cur) (cellOfHead hg))
    HI S' hmid R (Or.inr ⟨rfl, rfl, hhigh⟩) rfl rfl rfl rfl
  have hp2 := two_pow_pos' s.n.cur
  refine ⟨G, full_helper F g hl hidle B' rfl rfl rfl H' (.heap hstep) habs ?_ ?_ ?_ ?_⟩
  · intro t1 l1 g1 j' h' _ h1 hv _
    refine BinNHM.hfr_put (s := s.n) (s' := putCell (tickN s.n) (s.n.cur + 1) (j + 2 ^ s.n.cur) (cellOfHead hg))
      (g0 := s.n.cur + 1) (j0 := j + 2 ^ s.n.cur) (c := cellOfHead hg) rfl rfl ?_
    rintro ⟨rfl, rfl⟩
    exact no_writer_on_child F.base hnm (BinN.high_mod j s.n.cur hj) t1 l1 h' h1 hv
  · intro j1 hm1 t1 l1 h1 hl1
    exact F.inv.midw j1 hm1 t1 l1 h1 hl1
  · intro t1 hp1 h1
    rcases get_set h1 with ⟨-, e⟩ | ⟨ne, h1⟩
    · cases e
      refine ⟨lo, hg, fr, hmid, ?_, ?_⟩
      · have hne : ¬ (s.n.cur + 1 = s.n.cur + 1 ∧ j = j + 2 ^ s.n.cur) := by intro ⟨_, h2⟩; omega
        show cellAt _ (s.n.cur + 1) j = _
        rw [BinNHM.cellAt_put_ne (s := s.n) (g := s.n.cur + 1) (j := j + 2 ^ s.n.cur) (g' := s.n.cur + 1) (j' := j) rfl hne]
        exact hlow
      · exact BinNHM.cellAt_put_self (g := s.n.cur + 1) (j := j + 2 ^ s.n.cur) HI.shape rfl (BinNHM.Shape.next_lt HI.shape R)
          (show j + 2 ^ s.n.cur < 2 ^ (s.n.cur + 1) by rw [Nat.pow_succ]; omega)
    · refine F.others_pc (n' := putCell (tickN s.n) (s.n.cur + 1) (j + 2 ^ s.n.cur) (cellOfHead hg)) (j0 := j)
        (F.others_ne hh (Or.inl rfl)) rfl (fun j1 x _ hm => hm) ?_ t1 hp1 ne h1
      intro j1 jne hj1
      exact ⟨BinNHM.cellAt_put_ne (s := s.n) rfl (fun h => by omega),
        BinNHM.cellAt_put_ne (s := s.n) rfl (fun h => by omega)⟩
  · refine F.others_mh hh (j0 := j) (fun j' hm => hm.symm) (fun j1 hm1 _ => hm1) (fun _ => ⟨_, rfl, rfl⟩)

/-! ## the forwarding marker -/

theorem full_marker {k : Nat} {s : State} {G : Ghost} {A : Nat → KSt} {pt : Nat → Nat} {t : Nat} {l : BinN.Local}
    {g0 j h : Nat} (F : Full s G) (g : GInv k s.n G A pt)
    (hl : s.n.threads[t]? = some l) (hh : s.hs[t]? = some (some ⟨g0, .storeMoved j h⟩))
    (B' : Inv (setH s t (putCell (tickN s.n) g0 j .moved) (some ⟨g0, .unlock j h⟩))) :
    ∃ G' A', Full (setH s t (putCell (tickN s.n) g0 j .moved) (some ⟨g0, .unlock j h⟩)) G' ∧
      GInv k (putCell (tickN s.n) g0 j .moved) G' A' pt ∧
      ∀ k', BinN.absOf (putCell (tickN s.n) g0 j .moved) k' = BinN.absOf s.n k' := by
  have H := F.base.hok t _ hh
  have hidle := F.base.hidle t _ l hh hl
  have HI := F.inv.heap
  obtain ⟨e, R⟩ := H.valid_cur F.base.gen (j := j) (h := h) rfl
  have e : g0 = s.n.cur := e
  subst e
  have hj : j < 2 ^ s.n.cur := H.idx j rfl
  obtain ⟨lo, hg, fr, hmid, hlow, hhigh⟩ := F.pcMid t _ hh
  have S' : BinN.Shape (putCell (tickN s.n) s.n.cur j .moved) := B'.gen.shape
  obtain ⟨H', habs⟩ := BinNHM.moved_effect (s' := putCell (tickN s.n) s.n.cur j .moved) HI S' hmid hlow hhigh rfl rfl rfl rfl
  obtain ⟨-, sL, sH⟩ := BinNHM.mid_chains HI hmid hlow hhigh
  have hold : ∀ j0 x, (G.setMid j none).mid j0 = some x → j0 ≠ j ∧ G.mid j0 = some x := by
    intro j0 x hm
    by_cases e : j0 = j
    · subst e; rw [BinNHM.setMid_self] at hm; cases hm
    · rw [BinNHM.setMid_ne _ _ e] at hm; exact ⟨e, hm⟩
  have hisM : ∀ j1, IsMid (G.setMid j none) j1 → j1 ≠ j ∧ IsMid G j1 := by
    intro j1 hm1
    obtain ⟨a, b, c, hm⟩ := BinNHM.isMid_some hm1
    obtain ⟨e1, e2⟩ := hold _ _ hm
    exact ⟨e1, BinNHM.isMid_of e2⟩
  have m : MemStep s.n (putCell (tickN s.n) s.n.cur j .moved) G (G.setMid j none) := by
    refine .moved j lo hg fr hmid hold rfl rfl rfl ?_ ?_ ?_
    · exact BinNHM.cellAt_put_self HI.shape rfl HI.shape.cur_lt hj
    · intro id hne
      exact BinNHM.getCell_put_ne (s := s.n) rfl hne
    · intro b
      cases b
      · exact sL
      · exact sH
  refine ⟨_, full_helper F g hl hidle B' rfl rfl rfl H' m habs ?_ ?_ ?_ ?_⟩
  · intro t1 l1 g1 j' h' _ h1 hv _
    refine BinNHM.hfr_put (s := s.n) (s' := putCell (tickN s.n) s.n.cur j .moved) (g0 := s.n.cur) (j0 := j) (c := .moved)
      rfl rfl ?_
    rintro ⟨rfl, rfl⟩
    exact F.no_rw_on_helper_cell hh (j := j') (h := h) rfl t1 l1 h' h1 hv
  · intro j1 hm1 t1 l1 h1 hl1
    exact F.inv.midw j1 (hisM j1 hm1).2 t1 l1 h1 hl1
  · intro t1 hp1 h1
    rcases get_set h1 with ⟨-, e⟩ | ⟨ne, h1⟩
    · cases e; trivial
    · refine F.others_pc (n' := putCell (tickN s.n) s.n.cur j .moved) (j0 := j) (F.others_ne hh (Or.inl rfl)) rfl
        (fun j1 x jne hm => by rw [BinNHM.setMid_ne _ _ jne]; exact hm) ?_ t1 hp1 ne h1
      intro j1 _ _
      exact ⟨BinNHM.cellAt_put_ne (s := s.n) rfl (fun h => by omega), BinNHM.cellAt_put_ne (s := s.n) rfl (fun h => by omega)⟩
  · refine F.others_mh hh (j0 := j) (fun j' hm => hm.symm) (fun j1 hm1 _ => (hisM j1 hm1).2) ?_
    intro hm
    exact absurd rfl (hisM j hm).1

/-! ## the publication of the next table -/

theorem full_commit {k : Nat} {s : State} {G : Ghost} {A : Nat → KSt} {pt : Nat → Nat} {t : Nat} {l : BinN.Local}
    {g0 : Nat} (F : Full s G) (g : GInv k s.n G A pt)
    (hl : s.n.threads[t]? = some l) (hh : s.hs[t]? = some (some ⟨g0, .commit⟩))
    (hg : g0 = s.n.cur) (R : s.n.resizing = true)
    (B' : Inv (setH s t (commitN s.n) none)) :
    ∃ G' A', Full (setH s t (commitN s.n) none) G' ∧ GInv k (commitN s.n) G' A' pt ∧
      ∀ k', BinN.absOf (commitN s.n) k' = BinN.absOf s.n k' := by
  have H := F.base.hok t _ hh
  have hidle := F.base.hidle t _ l hh hl
  have HI := F.inv.heap
  have hall := H.commit rfl hg
  have hmidn := F.mid_none_of_allMoved hall
  have S' : BinN.Shape (commitN s.n) := B'.gen.shape
  obtain ⟨H', hstep, habs⟩ := BinNHM.commit_effect (s' := commitN s.n) HI S' hmidn hall rfl rfl rfl rfl R
  refine ⟨G, full_helper F g hl hidle B' rfl rfl rfl H' (.heap hstep) habs ?_ ?_ ?_ ?_⟩
  · intro t1 l1 g1 j' h' _ _ _ _
    exact BinNHM.hfr_same rfl (BinNHM.chId_congr rfl rfl) (fun i => ⟨rfl, rfl⟩) g1 j'
  · intro j1 hm1
    exact absurd hm1 (BinNHM.not_isMid_of_none (hmidn j1))
  · intro t1 hp1 h1
    rcases get_set h1 with ⟨-, e⟩ | ⟨ne, h1⟩
    · cases e
    · by_cases hm : midPc hp1.pc
      · obtain ⟨j1, hj1⟩ := midPc_isMidH hm
        exact absurd (pcMidH_isMid (F.pcMid t1 hp1 h1) hj1) (BinNHM.not_isMid_of_none (hmidn j1))
      · exact pcMidH_of_not_mid _ _ hm
  · intro j1 hm1
    exact absurd hm1 (BinNHM.not_isMid_of_none (hmidn j1))

end Flurry.Proto.BinNH
