import Flurry.Lemmas.SeqOpsRetain
/-! # O6: `reserve`, `putAll`, `extend`, `collect`, `clone`, `mapEq` -/
namespace Flurry.Seq
open Flurry Flurry.Gen

/-- the reference map after inserting `items` one by one -/
def Ref.insertAll (items : List (Nat × Nat × Nat × Nat)) (r : Ref) : Ref :=
  items.foldl (fun r (k, ki, v, vi) => r.insert k ki v vi) r

theorem Ref.insertAll_nil (r : Ref) : Ref.insertAll [] r = r := rfl

theorem Ref.insertAll_cons (k ki v vi : Nat) (rest : List (Nat × Nat × Nat × Nat)) (r : Ref) :
    Ref.insertAll ((k, ki, v, vi) :: rest) r = Ref.insertAll rest (r.insert k ki v vi) := rfl

theorem putAll_nil (m : Map) : putAll [] m = m := rfl

theorem putAll_cons (k ki v vi : Nat) (rest : List (Nat × Nat × Nat × Nat)) (m : Map) :
    putAll ((k, ki, v, vi) :: rest) m = putAll rest (put k ki v vi false m).1 := rfl

/-! ## `reserve` -/

theorem reserve_good (n : Nat) {m : Map} (hg : Good m) : Good (reserve n m) :=
  ⟨(reserve_spec n hg.1 hg.2).1, tryPresize_initOk _ hg.1 hg.2⟩

theorem reserve_get (n : Nat) {m : Map} (hg : Good m) (k : Nat) : get k (reserve n m) = get k m :=
  (reserve_spec n hg.1 hg.2).2.1.2.1 k

/-- **O6** -/
theorem reserve_absMap (n : Nat) {m : Map} (hg : Good m) : absMap (reserve n m) = absMap m :=
  (reserve_spec n hg.1 hg.2).2.1.absMap_eq

theorem reserve_hash (n : Nat) (m : Map) : (reserve n m).hash = m.hash := tryPresize_hash _ _

theorem reserve_len (n : Nat) {m : Map} (hg : Good m) : len (reserve n m) = len m := by
  simp only [len, (reserve_spec n hg.1 hg.2).2.2.1]

theorem step_reserve (n : Nat) {m : Map} (hg : Good m) :
    Good (step m (.reserve n)).1 ∧
    absMap (step m (.reserve n)).1 = (Ref.step (absMap m) (.reserve n)).1 ∧
    (step m (.reserve n)).2 = (Ref.step (absMap m) (.reserve n)).2 :=
  ⟨reserve_good n hg, reserve_absMap n hg, rfl⟩

/-! ## `putAll`, `extend` -/

/-- **O6** -/
theorem putAll_spec (items : List (Nat × Nat × Nat × Nat)) : ∀ {m : Map}, Good m →
    Good (putAll items m) ∧ absMap (putAll items m) = Ref.insertAll items (absMap m) ∧
    (putAll items m).hash = m.hash ∧ tableLen m ≤ tableLen (putAll items m) ∧
    m.resizes ≤ (putAll items m).resizes := by
  induction items with
  | nil => intro m hg; exact ⟨hg, rfl, rfl, Nat.le_refl _, Nat.le_refl _⟩
  | cons it rest ih =>
    intro m hg
    obtain ⟨k, ki, v, vi⟩ := it
    obtain ⟨hp, -⟩ := put_spec k ki v vi false hg
    obtain ⟨h1, h2, h3, h4, h5⟩ := ih hp.good
    rw [putAll_cons, Ref.insertAll_cons]
    refine ⟨h1, ?_, h3.trans hp.hash, Nat.le_trans hp.len_le h4, Nat.le_trans hp.resizes_le h5⟩
    rw [h2, put_absMap k ki v vi false hg]
    simp

theorem putAll_good (items : List (Nat × Nat × Nat × Nat)) {m : Map} (hg : Good m) :
    Good (putAll items m) := (putAll_spec items hg).1

theorem putAll_absMap (items : List (Nat × Nat × Nat × Nat)) {m : Map} (hg : Good m) :
    absMap (putAll items m) = Ref.insertAll items (absMap m) := (putAll_spec items hg).2.1

theorem extend_good (hint : Nat) (items : List (Nat × Nat × Nat × Nat)) {m : Map} (hg : Good m) :
    Good (extend hint items m) := putAll_good items (reserve_good _ hg)

/-- **O6** -/
theorem extend_absMap (hint : Nat) (items : List (Nat × Nat × Nat × Nat)) {m : Map} (hg : Good m) :
    absMap (extend hint items m) = Ref.insertAll items (absMap m) := by
  unfold extend
  rw [putAll_absMap items (reserve_good _ hg), reserve_absMap _ hg]

theorem step_extend (hint : Nat) (items : List (Nat × Nat × Nat × Nat)) {m : Map} (hg : Good m) :
    Good (step m (.extend hint items)).1 ∧
    absMap (step m (.extend hint items)).1 = (Ref.step (absMap m) (.extend hint items)).1 ∧
    (step m (.extend hint items)).2 = (Ref.step (absMap m) (.extend hint items)).2 :=
  ⟨extend_good hint items hg, extend_absMap hint items hg, rfl⟩

/-! ## `collect` -/

theorem absMap_withCapacity (hash : Nat → Nat) (c : Nat) : absMap (withCapacity hash c) = Ref.empty := by
  funext k; simp only [absMap, withCapacity_get, Ref.empty, Option.map_none]

theorem collect_good (hash : Nat → Nat) (hint : Nat) (items : List (Nat × Nat × Nat × Nat)) :
    Good (collect hash hint items) := by
  cases items with
  | nil => exact good_new hash
  | cons it rest => exact putAll_good _ (good_withCapacity hash _)

/-- **O6** -/
theorem collect_absMap (hash : Nat → Nat) (hint : Nat) (items : List (Nat × Nat × Nat × Nat)) :
    absMap (collect hash hint items) = Ref.insertAll items Ref.empty := by
  cases items with
  | nil => funext k; rfl
  | cons it rest =>
    show absMap (putAll (it :: rest) (withCapacity hash _)) = _
    rw [putAll_absMap _ (good_withCapacity hash _), absMap_withCapacity]

/-! ## `clone`, `mapEq` -/

theorem Ref.insertAll_of_not_mem (items : List (Nat × Nat × Nat × Nat)) :
    ∀ (r : Ref) (k : Nat), (∀ it ∈ items, it.1 ≠ k) → Ref.insertAll items r k = r k := by
  induction items with
  | nil => intro r k _; rfl
  | cons it rest ih =>
    intro r k h
    obtain ⟨k0, ki, v, vi⟩ := it
    rw [Ref.insertAll_cons, ih _ k (fun x hx => h x (by simp [hx]))]
    have : k ≠ k0 := fun e => h (k0, ki, v, vi) (by simp) e.symm
    simp [Ref.insert, this]

/-- the item `clone` inserts for a node -/
def itemOf (nd : Node) : Nat × Nat × Nat × Nat := (nd.key, nd.ki, nd.val, nd.vi)

theorem Ref.insertAll_nodes (l : List Node) : ∀ (r : Ref), KeysNodup l → (∀ nd ∈ l, r nd.key = none) →
    ∀ nd ∈ l, Ref.insertAll (l.map itemOf) r nd.key = some (nd.ki, nd.val, nd.vi) := by
  induction l with
  | nil => intro r _ _ nd h; cases h
  | cons a rest ih =>
    intro r hn hr nd hnd
    obtain ⟨hak, hn'⟩ := keysNodup_cons.1 hn
    rw [List.map_cons]
    show Ref.insertAll ((a.key, a.ki, a.val, a.vi) :: rest.map itemOf) r nd.key = _
    rw [Ref.insertAll_cons]
    rcases List.mem_cons.1 hnd with rfl | hnd
    · rw [Ref.insertAll_of_not_mem]
      · simp [Ref.insert, hr nd (by simp)]
      · intro it hit
        obtain ⟨x, hx, rfl⟩ := List.mem_map.1 hit
        exact hak x hx
    · refine ih _ hn' ?_ nd hnd
      intro x hx
      have : x.key ≠ a.key := hak x hx
      simp only [Ref.insert, this, ↓reduceIte]
      exact hr x (by simp [hx])

theorem clone_good {m : Map} : Good (clone m) := putAll_good _ (good_withCapacity _ _)

/-- **O6**: the clone holds the same entries -/
theorem clone_absMap {m : Map} (hg : Good m) (k : Nat) : absMap (clone m) k = absMap m k := by
  unfold clone
  rw [putAll_absMap _ (good_withCapacity _ _), absMap_withCapacity]
  show Ref.insertAll ((entries m).map itemOf) Ref.empty k = _
  obtain hgk | ⟨old, hgk⟩ : get k m = none ∨ ∃ old, get k m = some old := by
    cases get k m <;> simp
  · rw [Ref.insertAll_of_not_mem]
    · simp [absMap, hgk, Ref.empty]
    · intro it hit hk
      obtain ⟨x, hx, rfl⟩ := List.mem_map.1 hit
      have := (mem_entries_iff hg).1 hx
      rw [show x.key = k from hk, hgk] at this
      cases this
  · obtain ⟨hmem, hk⟩ := (get_some_iff hg).1 hgk
    subst hk
    rw [Ref.insertAll_nodes (entries m) Ref.empty (entries_keys_nodup_of_good hg) (fun _ _ => rfl)
      old hmem]
    simp [absMap, hgk]

theorem clone_hash (m : Map) : (clone m).hash = m.hash := by
  unfold clone
  rw [(putAll_spec _ (good_withCapacity _ _)).2.2.1, withCapacity_hash]

/-- two `Good` states with the same abstract map hold the same number of entries -/
theorem len_eq_of_absMap_eq {a b : Map} (ha : Good a) (hb : Good b)
    (h : ∀ k, absMap a k = absMap b k) : len a = len b := by
  rw [len_eq_keys_length ha, len_eq_keys_length hb]
  refine List.Perm.length_eq ?_
  rw [List.perm_ext_iff_of_nodup (entries_keys_nodup_of_good ha) (entries_keys_nodup_of_good hb)]
  intro k
  rw [← absMap_isSome_iff ha, ← absMap_isSome_iff hb, h k]

theorem clone_len {m : Map} (hg : Good m) : len (clone m) = len m :=
  len_eq_of_absMap_eq clone_good hg (clone_absMap hg)

/-- `a == b` holds when the abstract maps agree (on payloads) -/
theorem mapEq_of_absMap_eq {a b : Map} (ha : Good a) (hb : Good b)
    (h : ∀ k, absMap a k = absMap b k) : mapEq a b = true := by
  unfold mapEq
  rw [Bool.and_eq_true]
  refine ⟨by rw [len_eq_of_absMap_eq ha hb h]; exact beq_self_eq_true _, ?_⟩
  rw [List.all_eq_true]
  intro nd hnd
  have h1 := absMap_of_mem_entries ha hnd
  rw [h nd.key] at h1
  simp only [absMap] at h1
  cases hgb : get nd.key b with
  | none => rw [hgb] at h1; cases h1
  | some x =>
    rw [hgb] at h1
    simp only [Option.map_some, Option.some.injEq, Prod.mk.injEq] at h1
    simp [h1.2.1]

/-- **O6**: a map equals its clone -/
theorem mapEq_clone {m : Map} (hg : Good m) : mapEq m (clone m) = true :=
  mapEq_of_absMap_eq hg clone_good (fun k => (clone_absMap hg k).symm)

end Flurry.Seq
