import Flurry.Lemmas.BinGNProgInv
/-! # Proto/BinGN, progress (port of the `Lemmas/BinGProg*.lean` file of the same name): when is the step of a thread enabled?

`Blocked s pc`: the thread is at one of the six *waiting* program counters and what it waits for is
taken: the lock word of the head node (`wLock`, `kLock`, `xLock`), the mutex of the `TreeBin`
(`tMutex`, `yMutex`), or — parked at `lrLoop` with `WAITER` set — the read-write lock while a writer
or readers remain.

`step_enabled_or_blocked`: in a state that satisfies the structural invariant `Inv` and the auxiliary
invariant `BInv` (so: in every reachable state) the step of a thread that is not `idle` is enabled,
for every value of the scheduler's arguments, unless the thread is `Blocked`. In particular `stepG`
never returns `none` for lack of a call, for an index outside the heap or for a call that does not
fit the program counter. -/
namespace Flurry.Proto.BinGNP
open Flurry.Lin
open Flurry.Proto.BinK (nodeAt binAt lockSet isInsert NextOK nodeAt_of_some)

/-- the thread waits for something that is taken -/
def Blocked (s : State) : Pc → Prop
  | .wLock _ h | .kLock _ _ h | .xLock _ h => (nodeAt s.heap h).lock.isSome = true
  | .tMutex _ b | .yMutex _ b => (binAt s.tbins b).mutex.isSome = true
  | .lrLoop _ b _ _ => (binAt s.tbins b).waiter = true ∧
      ((binAt s.tbins b).writer = true ∨ (binAt s.tbins b).readers ≠ 0)
  | _ => False

/-- the program counters at which a thread may have to wait -/
def waitPc : Pc → Bool
  | .wLock _ _ | .kLock _ _ _ | .xLock _ _ | .tMutex _ _ | .yMutex _ _ | .lrLoop _ _ _ _ => true
  | _ => false

theorem not_blocked_of_not_waitPc {s : State} {pc : Pc} (h : waitPc pc = false) : ¬ Blocked s pc := by
  cases pc <;> first | exact id | cases h

set_option hygiene false in
/-- the call does not fit the program counter: excluded by `TInv.callOK` -/
local macro "nocall" : tactic => `(tactic| (exfalso; simp [noCallPc, kPc, xPc] at hcall))

set_option hygiene false in
/-- taking the lock word of node `h` -/
local macro "lockword" : tactic => `(tactic| (
  have hc : h < s.heap.length := hb
  dsimp only
  rw [List.getElem?_eq_getElem hc]
  dsimp only
  by_cases hk : (s.heap[h]).lock.isSome = true
  · right
    show (nodeAt s.heap h).lock.isSome = true
    rw [nodeAt_of_some (List.getElem?_eq_getElem hc)]; exact hk
  · left
    rw [if_neg hk]; rfl))

set_option hygiene false in
/-- taking the mutex of `TreeBin` `b` -/
local macro "mutexword" : tactic => `(tactic| (
  dsimp only
  by_cases hk : (s.tbins.getD b dfltB).mutex.isSome = true
  · right; exact hk
  · left
    rw [if_neg hk]; rfl))

theorem step_enabled_or_blocked {s : State} (I : Inv s) (B : BInv s) {t : Nat} {l : Local}
    (hl : s.threads[t]? = some l) (hne : l.pc ≠ .idle) (inv : Option (Nat × KOp)) (lo : Bool)
    (mt : Option Nat) (rz sm sm2 : Bool) (pick : Nat) :
    (step s t inv lo mt rz sm sm2 pick).isSome = true ∨ Blocked s l.pc := by
  have hcall := I.thr.callOK t l hl
  have hb := B t l hl
  have hpi := I.data.pcInv t l
  have hop := I.thr.opOK t l
  obtain ⟨pc, call⟩ := l
  unfold step stepG
  rw [hl]
  cases pc with
  | idle => exact absurd rfl hne
  | rTable lo' => cases call with | none => nocall | some p => left; rfl
  | rCell lo' tab =>
    cases call with
    | none => nocall
    | some p => left; dsimp only; split <;> rfl
  | rNode cur =>
    cases call with
    | none => nocall
    | some p =>
      left
      cases cur with
      | none => rfl
      | some c =>
        have hc : c < s.heap.length := hpi p hl rfl
        dsimp only
        rw [List.getElem?_eq_getElem hc]
        dsimp only
        split <;> rfl
  | rFirst b => cases call with | none => nocall | some p => left; rfl
  | rState b cur =>
    cases call with
    | none => nocall
    | some p =>
      left
      cases cur with
      | none => rfl
      | some c => dsimp only; split <;> rfl
  | rLin b c =>
    cases call with
    | none => nocall
    | some p =>
      left
      have hc : c < s.heap.length := hpi p hl rfl
      dsimp only
      rw [List.getElem?_eq_getElem hc]
      dsimp only
      split
      · split <;> rfl
      · rfl
  | rCas b c r =>
    cases call with
    | none => nocall
    | some p => left; dsimp only; split <;> rfl
  | rTree b => cases call with | none => nocall | some p => left; rfl
  | rRelease b hit =>
    cases call with
    | none => nocall
    | some p => left; dsimp only; split <;> rfl
  | rVal i =>
    cases call with
    | none => nocall
    | some p =>
      left
      have hc : i < s.heap.length := hb
      dsimp only
      rw [List.getElem?_eq_getElem hc]
      rfl
  | lFirst b => cases call with | none => nocall | some p => left; rfl
  | lNode cur =>
    cases call with
    | none => nocall
    | some p =>
      left
      cases cur with
      | none => rfl
      | some c =>
        have hc : c < s.heap.length := hpi p hl rfl
        dsimp only
        rw [List.getElem?_eq_getElem hc]
        dsimp only
        split
        · split <;> rfl
        · rfl
  | wTable => cases call with | none => nocall | some p => left; rfl
  | wCell tab =>
    cases call with
    | none => nocall
    | some p =>
      left; dsimp only
      split
      · split <;> rfl
      · rfl
      · rfl
      · rfl
  | wCas tab =>
    cases call with
    | none => nocall
    | some p => left; dsimp only; split <;> rfl
  | wLock tab h => cases call with | none => nocall | some p => lockword
  | wCheck tab h =>
    cases call with
    | none => nocall
    | some p => left; dsimp only; split <;> rfl
  | wFind tab h pred cur =>
    cases call with
    | none => nocall
    | some p =>
      left
      cases cur with
      | none => rfl
      | some c =>
        have hc : c < s.heap.length := hb
        dsimp only
        rw [List.getElem?_eq_getElem hc]
        dsimp only
        split <;> rfl
  | wStore tab h pred hit hnext => cases call with | none => nocall | some p => left; rfl
  | wUnlock tab h res retry =>
    cases call with
    | none => nocall
    | some p => left; cases retry <;> rfl
  | tMutex tab b => cases call with | none => nocall | some p => mutexword
  | tCheck tab b =>
    cases call with
    | none => nocall
    | some p => left; dsimp only; split <;> rfl
  | tFind tab b =>
    cases call with
    | none => nocall
    | some p =>
      left
      have hrd : isReader p.op = false := hop p hl rfl rfl
      dsimp only
      split <;> first | rfl | (rename_i h; rw [h] at hrd; cases hrd)
  | tVal tab b i v res => cases call with | none => nocall | some p => left; rfl
  | lrTry tab b k res =>
    cases call with
    | none => nocall
    | some p => left; dsimp only; split <;> rfl
  | lrLoop tab b k res =>
    cases call with
    | none => nocall
    | some p =>
      dsimp only
      by_cases h1 : (!(s.tbins.getD b dfltB).writer && (s.tbins.getD b dfltB).readers == 0) = true
      · left; rw [if_pos h1]; rfl
      · by_cases h2 : (!(s.tbins.getD b dfltB).waiter) = true
        · left; rw [if_neg h1, if_pos h2]; rfl
        · right
          show (s.tbins.getD b dfltB).waiter = true ∧
            ((s.tbins.getD b dfltB).writer = true ∨ (s.tbins.getD b dfltB).readers ≠ 0)
          cases hw : (s.tbins.getD b dfltB).writer <;> cases ha : (s.tbins.getD b dfltB).waiter <;>
            simp_all
  | tPrependLocked tab b =>
    cases call with
    | none => nocall
    | some p =>
      left
      obtain ⟨p', hp', hins⟩ : ∃ p', some p = some p' ∧ isInsert p'.op = true := hb
      cases hp'
      dsimp only
      split <;> first | rfl | (rename_i h1 h2; cases hq : p.op <;> simp_all [isInsert])
  | tTreeLinkLocked tab b x => cases call with | none => nocall | some p => left; rfl
  | tUnlinkLocked tab b i res => cases call with | none => nocall | some p => left; rfl
  | tRestructure tab b i res => cases call with | none => nocall | some p => left; rfl
  | tUnlockRoot tab b res => cases call with | none => nocall | some p => left; rfl
  | tUntreeify tab b res => cases call with | none => nocall | some p => left; rfl
  | tUnlockM tab b res retry =>
    cases call with
    | none => nocall
    | some p => left; cases retry <;> rfl
  | kTable k => cases call with | some p => nocall | none => left; rfl
  | kCell tab k =>
    cases call with
    | some p => nocall
    | none => left; dsimp only; split <;> rfl
  | kLock tab k h => cases call with | some p => nocall | none => lockword
  | kCheck tab k h =>
    cases call with
    | some p => nocall
    | none => left; dsimp only; split <;> rfl
  | kBuild tab k h => cases call with | some p => nocall | none => left; rfl
  | kStore tab k h b => cases call with | some p => nocall | none => left; rfl
  | kUnlock h => cases call with | some p => nocall | none => left; rfl
  | xNext =>
    cases call with
    | some p => nocall
    | none => left; dsimp only; split <;> rfl
  | xCell j =>
    cases call with
    | some p => nocall
    | none => left; dsimp only; split <;> rfl
  | xCasMoved j =>
    cases call with
    | some p => nocall
    | none => left; dsimp only; split <;> rfl
  | xLock j h => cases call with | some p => nocall | none => lockword
  | xCheck j h =>
    cases call with
    | some p => nocall
    | none => left; dsimp only; split <;> rfl
  | xBuild j h => cases call with | some p => nocall | none => left; rfl
  | yMutex j b => cases call with | some p => nocall | none => mutexword
  | yCheck j b =>
    cases call with
    | some p => nocall
    | none => left; dsimp only; split <;> rfl
  | yBuild j b => cases call with | some p => nocall | none => left; rfl
  | xStoreLow j unl lo' hi' => cases call with | some p => nocall | none => left; rfl
  | xStoreHigh j unl hi' => cases call with | some p => nocall | none => left; rfl
  | xStoreMoved j unl => cases call with | some p => nocall | none => left; rfl
  | xUnlock unl =>
    cases call with
    | some p => nocall
    | none => left; cases unl <;> rfl
  | xCommit => cases call with | some p => nocall | none => left; rfl

end Flurry.Proto.BinGNP
