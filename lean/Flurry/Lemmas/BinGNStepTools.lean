import Flurry.Lemmas.BinGNGenStepR
/-! # Proto/BinGN: what `storeAt` and `splitSide` leave alone (threads, history, clock) -/
namespace Flurry.Proto.BinGN
open Flurry.Lin

theorem storeAt_frame (s : State) (g : Nat) (p : Pending) (pred hit hnext : Option Nat) :
    (storeAt s g p pred hit hnext).1.threads = s.threads ∧ (storeAt s g p pred hit hnext).1.hist = s.hist ∧
    (storeAt s g p pred hit hnext).1.now = s.now := by
  unfold storeAt
  cases p.op <;> cases hit <;> cases pred <;> cases hnext <;> exact ⟨rfl, rfl, rfl⟩

theorem splitSide_frame (s : State) (b : Nat) (c : List Nat) (sm ru : Bool) :
    (splitSide s b c sm ru).1.threads = s.threads ∧ (splitSide s b c sm ru).1.hist = s.hist ∧
    (splitSide s b c sm ru).1.now = s.now := by
  unfold splitSide
  simp only [copyChain]
  split
  · exact ⟨rfl, rfl, rfl⟩
  · split
    · exact ⟨rfl, rfl, rfl⟩
    · split <;> exact ⟨rfl, rfl, rfl⟩

theorem splitSide_frame' {s : State} {b : Nat} {c : List Nat} {sm ru : Bool} {s1 : State} {c1 : Cell}
    (h : splitSide s b c sm ru = (s1, c1)) : s1.threads = s.threads ∧ s1.hist = s.hist ∧ s1.now = s.now := by
  have := splitSide_frame s b c sm ru
  rw [h] at this
  exact this

end Flurry.Proto.BinGN
