import Flurry.Lemmas.BinNAInvStep
/-! # Proto/BinNA: the content of every bin is well-formed (side invariant)

`CellWF g j c`: a list cell `(g, j)` is non-empty, its keys are pairwise distinct and all belong to
cell `j` of generation `g`. `wf_step`: preserved by every transition (the writer's copy-on-write store,
the lock-free insert, the split of a transfer). Not needed for linearizability (lookups and stores are
defined for arbitrary lists), proved as a sanity property of the model. -/
namespace Flurry.Proto.BinNA
open Flurry.Lin

def keys (xs : List Entry) : List Nat := xs.map (·.1)

def CellWF (g j : Nat) : Cell → Prop
  | .list xs => xs ≠ [] ∧ (keys xs).Nodup ∧ ∀ e ∈ xs, ix g e.1 = j
  | _ => True

def WF (s : State) : Prop := ∀ g j, CellWF g j (getCell s g j)

theorem lookup_eq_none_iff {k : Nat} {xs : List Entry} : lookup k xs = none ↔ k ∉ keys xs := by
  induction xs with
  | nil => simp [lookup, keys]
  | cons e xs ih =>
    rw [lookup_cons]
    unfold keys at ih ⊢
    by_cases he : e.1 = k
    · simp [he]
    · have : ¬ k = e.1 := fun h => he h.symm
      simp [he, this, ih]

theorem cellWF_mkCell {g j : Nat} {xs : List Entry} (hn : (keys xs).Nodup) (hk : ∀ e ∈ xs, ix g e.1 = j) :
    CellWF g j (mkCell xs) := by
  cases xs with
  | nil => trivial
  | cons e xs => exact ⟨by simp, hn, hk⟩

theorem keys_filter_nodup {xs : List Entry} (q : Entry → Bool) (hn : (keys xs).Nodup) :
    (keys (xs.filter q)).Nodup := by
  unfold keys at hn ⊢
  exact hn.sublist (List.filter_sublist.map _)

theorem cellWF_newContent {g : Nat} {key : Nat} {xs : List Entry} {st : KSt}
    (hn : (keys xs).Nodup) (hk : ∀ e ∈ xs, ix g e.1 = ix g key) :
    CellWF g (ix g key) (mkCell (newContent key xs st)) := by
  cases st with
  | none =>
    refine cellWF_mkCell (keys_filter_nodup _ hn) ?_
    intro e he
    exact hk e (List.mem_filter.1 he).1
  | some v =>
    show CellWF g (ix g key) (mkCell (if (lookup key xs).isSome then
      xs.map (fun e => if e.1 == key then (key, v) else e) else xs ++ [(key, v)]))
    split
    · refine cellWF_mkCell ?_ ?_
      · have : keys (xs.map (fun e => if e.1 == key then (key, v) else e)) = keys xs := by
          unfold keys
          rw [List.map_map]
          apply List.map_congr_left
          intro e _
          show (if e.1 == key then (key, v) else e).1 = e.1
          by_cases h : e.1 = key
          · simp [h]
          · simp [h]
        rw [this]; exact hn
      · intro e he
        obtain ⟨e0, he0, rfl⟩ := List.mem_map.1 he
        by_cases h : e0.1 = key
        · simp [h]
        · simp only [beq_iff_eq, h, if_false]; exact hk e0 he0
    · rename_i hnone
      have hnone' : lookup key xs = none := by
        cases h : lookup key xs with
        | none => rfl
        | some w => rw [h] at hnone; simp at hnone
      refine cellWF_mkCell ?_ ?_
      · unfold keys
        rw [List.map_append]
        refine List.nodup_append.2 ⟨hn, by simp, ?_⟩
        intro a ha b hb
        simp only [List.map_cons, List.map_nil, List.mem_singleton] at hb
        subst hb
        intro hab
        subst hab
        exact lookup_eq_none_iff.1 hnone' ha
      · intro e he
        rcases List.mem_append.1 he with h | h
        · exact hk e h
        · simp only [List.mem_singleton] at h; subst h; rfl

theorem wf_of_setCell {s s' : State} {g j : Nat} {c : Cell} (W : WF s) (ht : s'.tabs = (setCell s g j c).tabs)
    (hc : CellWF g j c) : WF s' := by
  intro g' j'
  have : getCell s' g' j' = getCell (setCell s g j c) g' j' := by unfold getCell; rw [ht]
  rw [this, getCell_setCell]
  split
  · rename_i h
    obtain ⟨rfl, rfl, _⟩ := h
    exact hc
  · exact W g' j'

theorem wf_of_same {s s' : State} (W : WF s) (hc : ∀ g j, getCell s' g j = getCell s g j) : WF s' := by
  intro g j; rw [hc]; exact W g j

/-- **every transition keeps the bins well-formed** -/
theorem wf_step {s s' : State} {t : Nat} {l : Local} (I : Inv s) (W : WF s) (hl : s.threads[t]? = some l)
    (hstep : StepK s t l s') : WF s' := by
  have hpc0 := I.pc t l hl
  cases hstep with
  | idle hpc => exact wf_of_same W (fun _ _ => rfl)
  | invoke k' op hpc => exact wf_of_same W (fun _ _ => rfl)
  | resize hpc hr => exact wf_of_same W (fun g j => getD2_append_replicate s.tabs _ g j .empty)
  | move p pc' hp hm => exact wf_of_same W (fun _ _ => rfl)
  | tmove pc' hp hm => exact wf_of_same W (fun _ _ => rfl)
  | acq g0 j pc' ha hfree => exact wf_of_same W (fun _ _ => rfl)
  | rel g0 j pc' hrel => exact wf_of_same W (fun _ _ => rfl)
  | fin p res hp hf => exact wf_of_same W (fun _ _ => rfl)
  | cas p g0 v vi hp hpc hc hop =>
    refine wf_of_setCell W rfl ⟨by simp, by simp [keys], ?_⟩
    intro e he
    simp only [List.mem_singleton] at he
    subst he; rfl
  | store p g0 hp hpc =>
    rw [hpc, keyOf_some hp] at hpc0
    obtain ⟨_, _, hlist⟩ := hpc0
    refine wf_of_setCell W rfl ?_
    have hw := W g0 (ix g0 p.key)
    unfold storeCell
    cases hc : getCell s g0 (ix g0 p.key) with
    | empty => rw [hc] at hlist; cases hlist
    | moved => rw [hc] at hlist; cases hlist
    | list xs =>
      rw [hc] at hw
      exact cellWF_newContent hw.2.1 hw.2.2
  | unlockFin p g0 res hp hpc => exact wf_of_same W (fun _ _ => rfl)
  | casMoved j hp hpc hc => exact wf_of_setCell W rfl trivial
  | storeLow j lo hi hp hpc =>
    rw [hpc] at hpc0
    obtain ⟨h1, h2, h3, xs, h4, h5, h6, h7, h8⟩ := hpc0
    have hw := W s.cur j
    rw [h4] at hw
    refine wf_of_setCell W rfl ?_
    rw [h5]
    refine cellWF_mkCell (keys_filter_nodup _ hw.2.1) ?_
    intro e he
    obtain ⟨hm, hb⟩ := List.mem_filter.1 he
    rw [ix_succ, if_neg (by simpa using hb)]
    exact hw.2.2 e hm
  | storeHigh j hi hp hpc =>
    rw [hpc] at hpc0
    obtain ⟨h1, h2, h3, xs, h4, h5, h6, h8⟩ := hpc0
    have hw := W s.cur j
    rw [h4] at hw
    refine wf_of_setCell W rfl ?_
    rw [h6]
    refine cellWF_mkCell (keys_filter_nodup _ hw.2.1) ?_
    intro e he
    obtain ⟨hm, hb⟩ := List.mem_filter.1 he
    rw [ix_succ, if_pos hb, hw.2.2 e hm]
  | storeMoved j hp hpc => exact wf_of_setCell W rfl trivial
  | commit hp hpc => exact wf_of_same W (fun _ _ => rfl)

theorem wf_init (n : Nat) : WF (init n) := by
  intro g j
  have : getCell (init n) g j = .empty := by
    unfold getCell
    cases g with
    | zero => cases j <;> rfl
    | succ g => rfl
  rw [this]; trivial

theorem reachable_wf {n : Nat} {s : State} (hr : Reachable n s) : WF s := by
  induction hr with
  | init => exact wf_init n
  | @step s s' t inv rz pick hr hs ih =>
    cases hl : s.threads[t]? with
    | none => unfold step stepG at hs; rw [hl] at hs; cases hs
    | some l => exact wf_step (reachable_inv hr) ih hl (step_stepK hl hs)

end Flurry.Proto.BinNA
