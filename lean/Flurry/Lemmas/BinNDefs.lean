import Flurry.Lemmas.BinNOrd
import Flurry.Lemmas.BinXDefs
/-! # Proto/BinN: the heap invariants (definitions) (C01, C10)

Ghost state `Ghost`: the set `cr` of all copies made so far, and — while the resizing thread is between
its split (`tBuild`) and the store of the forwarding marker — `mid = some (j, lo, hg)`: cell `(cur, j)`
has been split, `lo` / `hg` are the heads of the new lists, `fr` the index range of the fresh copies.

* `Shape`: the thread-independent part of the generation invariant (`Lemmas/BinNGenDefs.lean`);
* `HInv`: all chains are well-formed, duplicate-free in keys, and hold keys of their cell; cells of the
  next generation are empty unless their parent is forwarded or being split; the split (`Split`);
* `Active`: a cell whose chain may be written (a cell of `cur` that is neither forwarded nor split, a
  cell of `cur + 1` whose parent is forwarded);
* `PInv`: the program counter of the resizing thread fits `mid`; `WInv`: the positions remembered by a
  walking writer are current. -/
namespace Flurry.Proto.BinN
open Flurry.Lin
open Flurry.Proto.BinX (NodeS Cell Pending dflt chainFrom cellHead cellOfHead nodeAt IsSeg IsChain chainH absIn
  KeysDistinct Walk)

structure Ghost where
  cr : CR := fun _ => false
  mid : Option (Nat × Option Nat × Option Nat) := none
  fr : Nat × Nat := (0, 0)

/-- a cell: generation and index -/
abbrev CellId := Nat × Nat

def getCell (s : State) (id : CellId) : Cell := cellAt s id.1 id.2

/-- the chain of a cell -/
def chId (s : State) (id : CellId) : List Nat := chainH s.heap (getCell s id)

/-- the keys that live in a cell -/
def keyOn (id : CellId) (k : Nat) : Prop := k % 2 ^ id.1 = id.2

/-- the cell of key `k` in generation `g` -/
def cellId (g k : Nat) : CellId := (g, k % 2 ^ g)

/-- the cell a lookup of `k` ends in -/
def liveId (s : State) (k : Nat) : CellId :=
  if cellOf s s.cur k = .moved then cellId (s.cur + 1) k else cellId s.cur k

/-- the chain a lookup of `k` ends in -/
def LC (s : State) (k : Nat) : List Nat := chainOfCell s (liveCell s k)

/-- the cell of generation `cur` that is being split -/
def midIdx (G : Ghost) : Option Nat := G.mid.map (·.1)

/-- a cell whose chain may be written -/
def Active (s : State) (G : Ghost) (id : CellId) : Prop :=
  (id.1 = s.cur ∧ id.2 < 2 ^ s.cur ∧ getCell s id ≠ .moved ∧ midIdx G ≠ some id.2) ∨
  (id.1 = s.cur + 1 ∧ id.2 < 2 ^ (s.cur + 1) ∧ cellAt s s.cur (id.2 % 2 ^ s.cur) = .moved)

/-- nodes that may still be written or (re-)linked -/
def Live (s : State) (G : Ghost) (i : Nat) : Prop :=
  (∃ id, i ∈ chId s id) ∨
  (∃ j lo hg, G.mid = some (j, lo, hg) ∧
    (i ∈ chainH s.heap (cellOfHead lo) ∨ i ∈ chainH s.heap (cellOfHead hg)))

/-- the thread-independent part of the generation invariant -/
structure Shape (s : State) : Prop where
  len : s.tabs.length = s.cur + 1 + (if s.resizing then 1 else 0)
  rows : ∀ g row, s.tabs[g]? = some row → row.length = 2 ^ g
  old : ∀ g j, g < s.cur → j < 2 ^ g → cellAt s g j = .moved
  nextNM : ∀ j, cellAt s (s.cur + 1) j ≠ .moved
  curMoved : ∀ j, cellAt s s.cur j = .moved → s.resizing = true

structure HInv (s : State) (G : Ghost) : Prop where
  shape : Shape s
  nextOK : NextOK G.cr s.heap
  crLt : ∀ i, isCopy G.cr i → i < s.heap.length
  frOK : G.fr.2 ≤ s.heap.length ∧ ∀ i, isFresh G.fr i → isCopy G.cr i
  head : ∀ id h, getCell s id = .node h → h < s.heap.length
  keys : ∀ id, KeysDistinct s.heap (chId s id)
  side : ∀ id, ∀ i ∈ chId s id, keyOn id (nodeAt s.heap i).key
  /-- a cell of the next generation is empty unless its parent is forwarded or being split -/
  nextEmpty : ∀ j', cellAt s s.cur (j' % 2 ^ s.cur) ≠ .moved → midIdx G ≠ some (j' % 2 ^ s.cur) →
    cellAt s (s.cur + 1) j' = .empty
  mid : ∀ j lo hg, G.mid = some (j, lo, hg) → j < 2 ^ s.cur ∧ (∃ h, cellAt s s.cur j = .node h) ∧
    (cellAt s (s.cur + 1) j = .empty ∨ cellAt s (s.cur + 1) j = cellOfHead lo) ∧
    (cellAt s (s.cur + 1) (j + 2 ^ s.cur) = .empty ∨ cellAt s (s.cur + 1) (j + 2 ^ s.cur) = cellOfHead hg) ∧
    Split (bitAt s.cur) s.heap G.cr G.fr (chId s (s.cur, j)) lo hg

/-! ## the resizing thread and `mid` -/

def isMidPc : Pc → Prop
  | .tStoreLow _ _ _ _ | .tStoreHigh _ _ _ | .tStoreMoved _ _ => True
  | _ => False

/-- how a program counter constrains `mid` and the two children of the cell being split -/
def PcMid (s : State) (G : Ghost) : Pc → Prop
  | .tStoreLow j _ lo hg => G.mid = some (j, lo, hg) ∧ cellAt s (s.cur + 1) j = .empty ∧
      cellAt s (s.cur + 1) (j + 2 ^ s.cur) = .empty
  | .tStoreHigh j _ hg => ∃ lo, G.mid = some (j, lo, hg) ∧ cellAt s (s.cur + 1) j = cellOfHead lo ∧
      cellAt s (s.cur + 1) (j + 2 ^ s.cur) = .empty
  | .tStoreMoved j _ => ∃ lo hg, G.mid = some (j, lo, hg) ∧ cellAt s (s.cur + 1) j = cellOfHead lo ∧
      cellAt s (s.cur + 1) (j + 2 ^ s.cur) = cellOfHead hg
  | _ => True

structure PInv (s : State) (G : Ghost) : Prop where
  pcMid : ∀ (t : Nat) (l : Local), s.threads[t]? = some l → PcMid s G l.pc
  midHas : G.mid.isSome = true → ∃ (t : Nat) (l : Local), s.threads[t]? = some l ∧ isMidPc l.pc

/-! ## walks -/

def WalkOK (s : State) (p : Pending) : Pc → Prop
  | .wFind g _ pred cur => Walk s.heap (chainH s.heap (cellOf s g p.key)) p.key pred cur
  | .wStore g _ pred hit hnext => Walk s.heap (chainH s.heap (cellOf s g p.key)) p.key pred hit ∧
      ∀ i, hit = some i → (nodeAt s.heap i).key = p.key ∧ hnext = (nodeAt s.heap i).next
  | _ => True

structure WInv (s : State) : Prop where
  walk : ∀ (t : Nat) (l : Local) (p : Pending), s.threads[t]? = some l → l.call = some p → WalkOK s p l.pc

end Flurry.Proto.BinN
