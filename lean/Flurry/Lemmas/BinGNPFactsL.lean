import Flurry.Lemmas.BinGNPInvW
import Flurry.Lemmas.BinGNPInvQ
/-! # Proto/BinGN (port of `Lemmas/BinGFactsL.lean`): the stores of the list-bin writers (`cas`, `store`)

The per-transition facts for the CAS into an empty cell (`StepN.cas`) and for the single store of a
list-bin writer (`StepN.store`): the store goes into the structure of the cell `id := idOf tab p.key` of
the key of the call; the other cells are the frame (`Lemmas/BinGNPStore.lean`, `Lemmas/BinGNPInvW.lean`).

* `inv_lwrite`, `eff_lwrite`: `Inv s'` / `Eff s s'` for a store into a cell that holds no `TreeBin`
  (neither before nor after), by a thread that holds no mutex and is not validated afterwards;
* `cas_facts`;
* `walk_shape`, `lstore_same`, `lstore_val`, `lstore_append`, `lstore_unlink`, `storeAt_eq`,
  `store_facts`.
Helper lemmas live in the namespace `Flurry.Proto.BinGNP.FactsL`.

Differences from the BinG original: `tab : Nat` (a generation); `cas_facts`, `store_facts` (and `store_ok`, `lstore_*`)
conclude `XShape s' → …`; `inv_lwrite` takes `hcur : s'.cur = s.cur` and `XS' : XShape s'` instead of
`hres`, `hnm`, `e9`; `lstore_core` takes `hcur`, `XS'` instead of `hres`; `FactsL.privBin_back` takes `H`, `X`, `hcur`
(a transfer of ANOTHER cell may have pending structures, `Writable.pend_frame`); the side condition of a new node
is `p.key % 2 ^ tab = p.key % 2 ^ tab` (`side_idOf`, `rfl`); `FactsL.setCell_cur` / `setCell_resizing` are the lemmas
of `Lemmas/BinGNPInvBasic.lean`; the generation `tab` of the acting thread exists (`gen_of_tabOf`), so that a store
into the cell goes through `XInv.cellAt_setCell`. -/
namespace Flurry.Proto.BinGNP
open Flurry.Lin
open Flurry.Proto.BinK (nodeAt binAt NextOK IsChain IsSeg chainOf CInv absL HeapStep nodeAt_modify nodeAt_modify_self
  nodeAt_modify_ne nodeAt_append_left nodeAt_append_new nodeAt_ge binAt_ge get_set get_set_self get_set_ne
  absL_eq_none_iff absL_eq_some_iff)
open Store InvW

namespace FactsL

/-! ## small facts -/

theorem setCell_now (s : State) (tab : Nat) (k : Nat) (c : Cell) : (setCell s tab k c).now = s.now := rfl

theorem setCell_hist (s : State) (tab : Nat) (k : Nat) (c : Cell) : (setCell s tab k c).hist = s.hist := rfl

theorem finish_setCell_hist (s0 : State) (tab : Nat) (k : Nat) (c : Cell) (t : Nat) (p : Pending) (res : KRes) :
    (finish (setCell s0 tab k c) t p res).hist = (p.key, ⟨t, p.op, res, p.inv, s0.now⟩) :: s0.hist := rfl

theorem finish_setCell_threads (s0 : State) (tab : Nat) (k : Nat) (c : Cell) (t : Nat) (p : Pending) (res : KRes) :
    (finish (setCell s0 tab k c) t p res).threads = s0.threads.set t ⟨.idle, none⟩ := rfl

/-- the key of a call lives in its cell of generation `tab` -/
theorem side_idOf (tab : Nat) (k : Nat) : k % 2 ^ (idOf tab k).1 = (idOf tab k).2 := rfl

/-- the generation a thread works in exists -/
theorem gen_of_tabOf {s : State} (X : XInv s) {t : Nat} {l : Local} {g : Nat} (hl : s.threads[t]? = some l)
    (hg : tabOf l.pc = some g) : g < s.tabs.length := by
  obtain ⟨hle, hnew⟩ := X.tabNew t l g hl hg
  by_cases h : g = s.cur + 1
  · cases hr : s.resizing with
    | false => exact absurd (hnew h) (X.noResz hr _)
    | true => exact X.gen_lt_resz hr hle
  · exact X.gen_lt (by omega)

/-- the pending structures of a thread other than the resizing thread do not depend on the cells -/
theorem pend_of_not_xPc {s s' : State} {pc : Pc} (h : xPc pc = false) : pend s' pc = pend s pc := by
  cases pc <;> first | rfl | (simp [xPc] at h)

theorem startOf_list (tb : List TBin) (h : Nat) : startOf tb (.list h) = some h := rfl

theorem chainC_list (s : State) (h : Nat) : chainC s (.list h) = chainOf s.heap (some h) := rfl

theorem not_tree_of_list {c : Cell} {h : Nat} (hc : c = .list h) (b : Nat) : c ≠ .tree b := by
  rw [hc]; intro e; cases e

theorem not_tree_of_empty {c : Cell} (hc : c = .empty) (b : Nat) : c ≠ .tree b := by
  rw [hc]; intro e; cases e

theorem not_treeOf_of {s : State} {c : Cell} (hnt : ∀ b, c ≠ .tree b) (j : Nat) : ¬ treeOf s c j := by
  rintro ⟨_, _, b, hb, _⟩
  exact hnt b hb

theorem ownerOf_of_not_tree {c : Cell} (hnt : ∀ b, c ≠ .tree b) : ownerOf c = none := by
  cases c with
  | tree b => exact absurd rfl (hnt b)
  | empty => rfl
  | list h => rfl
  | moved => rfl

/-- the abstract state of a key that lives in `id` is read off the chain of `id` -/
theorem absOf_id {s : State} (X : XInv s) {id : Cid} (W : Writable s id) {k : Nat}
    (hside : k % 2 ^ id.1 = id.2) : absOf s k = absL s.heap (chainC s (cellAt s id)) k := by
  rw [absOf_eq, LC_eq_live X.newNotMoved, liveId_of_side W hside]

/-- while the cell `id` is writable, the pending structures of the other threads do not depend on the state -/
theorem pend_eq {s s' : State} {id : Cid} (W : Writable s id) (H : HInv s) (X : XInv s)
    (hcur : s'.cur = s.cur) (hoth : ∀ id', id' ≠ id → cellAt s' id' = cellAt s id') {t1 : Nat} {l1 : Local}
    (h1 : s.threads[t1]? = some l1) : pend s' l1.pc = pend s l1.pc := by
  cases hx : xPc l1.pc with
  | false => exact pend_of_not_xPc hx
  | true =>
    cases hp : pend s l1.pc with
    | nil => exact pend_nil_indep hp
    | cons C rest =>
      obtain ⟨j0, hj0, _, hlo, hhi, _⟩ := W.pend_frame H X h1 hx (C := C) (by rw [hp]; simp)
      rw [← hp]
      refine pend_congr hcur ?_
      intro j hj
      rw [hj0] at hj; cases hj
      exact ⟨hoth _ hlo, hoth _ hhi⟩

/-- no `TreeBin` becomes private by a store into a cell that holds no `TreeBin` -/
theorem privBin_back {s s' : State} {id : Cid} {t : Nat} {l' : Local} (W : Writable s id) (H : HInv s) (X : XInv s)
    (hthr : s'.threads = s.threads.set t l') (hcur : s'.cur = s.cur)
    (hcells : ∀ id', id' ≠ id → cellAt s' id' = cellAt s id') (hp' : pend s' l'.pc = [])
    {b : Nat} (h : PrivBin s' b) : PrivBin s b := by
  obtain ⟨t1, l1, h1, hC, h0⟩ := h
  rw [hthr] at h1
  rcases get_set h1 with ⟨rfl, rfl⟩ | ⟨_, h1⟩
  · rw [hp'] at hC; cases hC
  · rw [pend_eq W H X hcur hcells h1] at hC
    refine ⟨t1, l1, h1, hC, ?_⟩
    intro j hj e
    obtain ⟨j0, hj0, hne, _⟩ := W.pend_frame H X h1 (xPc_of_xIdx hj) hC
    rw [hj] at hj0; cases hj0
    have := h0 j hj
    rw [hcur, hcells _ hne] at this
    exact this e

/-- the lock words: old nodes keep theirs (`Touch.keep`), new nodes are unlocked -/
theorem lock_all {s s' : State} {id : Cid} (T : Touch s s' id)
    (hnew : ∀ j, s.heap.length ≤ j → (nodeAt s'.heap j).lock = none) (h' : Nat) :
    (nodeAt s'.heap h').lock = (nodeAt s.heap h').lock := by
  by_cases hh : h' < s.heap.length
  · exact (T.keep h' hh).2.2
  · rw [hnew h' (Nat.le_of_not_lt hh), nodeAt_ge (Nat.le_of_not_lt hh)]; rfl

/-! ## the invariant and `Eff` after a store into a cell without a `TreeBin` -/

/-- `Inv s'` after a store of thread `t` into the structure of cell `id`, which holds no `TreeBin` before
or after; the thread holds no mutex, keeps its lock word and is not validated afterwards -/
theorem inv_lwrite {s s' : State} {id : Cid} {t : Nat} {l l' : Local} (I : Inv s) (W : Writable s id)
    (T : Touch s s' id) (hl : s.threads[t]? = some l)
    (hv : (validated l.pc = true ∧ cidOf s l = id) ∨ (cellAt s id = .empty ∧ validT l.pc = none))
    (hthr : s'.threads = s.threads.set t l') (H' : HInv s') (T' : TInv s')
    (htb : s'.tbins = s.tbins) (hcur : s'.cur = s.cur) (XS' : XShape s')
    (hlock : ∀ h', (nodeAt s'.heap h').lock = (nodeAt s.heap h').lock)
    (hnt : ∀ b, cellAt s' id ≠ .tree b)
    (e1 : holdsLock l'.pc = holdsLock l.pc) (e2 : validL l'.pc = none) (e3 : validT l'.pc = none)
    (e4 : holdsMutex l'.pc = none) (e4' : holdsMutex l.pc = none) (e5 : holdsRead l'.pc = holdsRead l.pc)
    (e6 : binRef l'.pc = none) (e7 : xPc l'.pc = false) (e8 : pend s' l'.pc = [])
    (e10 : ∀ p, l'.call = some p → PcInv s' p l'.pc) (e11 : KInv s' l'.pc) : Inv s' := by
  have L := I.lock
  have hvo : ∀ id', cellAt s' id' = cellAt s id' ∨ (validated l.pc = true ∧ cidOf s l = id') ∨ cellAt s id' = .empty := by
    intro id'
    by_cases hne : id' = id
    · subst hne
      rcases hv with h | h
      · exact Or.inr (Or.inl h)
      · exact Or.inr (Or.inr h.1)
    · exact Or.inl (T.cells id' hne)
  have L' : LInv s' := by
    refine LInv.of_parts
      (lk_step L hl hthr hcur (lockfun_same L hl e1 hlock) (fun h' hh => Or.inl (e1 ▸ hh))
        (fun h' hh => by rw [e2] at hh; cases hh) hvo)
      (mx_step L hl hthr hcur (mutexfun_same L hl (e4.trans e4'.symm) (fun _ => by rw [htb]))
        (fun b' hb' => by rw [e4] at hb'; cases hb') (fun b' hb' => by rw [e3] at hb'; cases hb') hvo)
      (rw_cell L hl hthr htb ?_ (fun b' hb' => by rw [e4'] at hb'; cases hb') e5
        (fun b' hb' => by rw [e6] at hb'; cases hb')
        (fun b' _ h => privBin_back W I.heap I.rsz hthr hcur T.cells e8 h))
    intro id' b hc
    by_cases hne : id' = id
    · subst hne; exact absurd hc (hnt b)
    · rw [T.cells id' hne] at hc; exact Or.inl ⟨id', hc⟩
  exact inv_store I W T hl hv hthr H' T' L' XS' e7 (fun b hc => absurd hc (hnt b)) e10 e11
    (fun b hc => absurd hc (hnt b)) (fun b hc => absurd hc (hnt b))

/-- `Eff s s'` for such a store -/
theorem eff_lwrite {s s' : State} {id : Cid} {t : Nat} {l l' : Local} (I : Inv s) (Iv' : Inv s')
    (W : Writable s id) (T : Touch s s' id)
    (hs : HeapStep s.heap (chainC s (cellAt s id)) (fun _ => False) s'.heap (chainC s' (cellAt s' id)) (fun _ => False))
    (hl : s.threads[t]? = some l) (hthr : s'.threads = s.threads.set t l') (htb : s'.tbins = s.tbins)
    (hnt0 : ∀ b, cellAt s id ≠ .tree b) (hnt : ∀ b, cellAt s' id ≠ .tree b) (hnm : cellAt s' id ≠ .moved)
    (e8 : pend s' l'.pc = []) : Eff s s' := by
  have hk : ∀ tab k h b, l'.pc = .kStore tab k h b → l.pc = .kStore tab k h b :=
    fun tab k h b e => absurd e (not_kStore_of_pend e8 tab k h b)
  refine eff_store Iv' I W T
    (kstep_of_store I W Iv'.heap T hs (fun _ h => h.elim) (W.moved_iff I.rsz T.cells hnm) hl hthr hk (fun _ => e8)) hnm
    (fun b hc => absurd hc (hnt0 b)) (fun b k hc => absurd hc (hnt0 b)) ?_
    (fun b hc => absurd hc (hnt0 b)) (fun b hc => absurd hc (hnt b))
  intro b _ hw
  left; rw [htb]; exact hw

end FactsL
open FactsL

/-! ## the CAS into an empty cell -/

/-- the CAS into the empty cell of the key (`wCas`) -/
theorem cas_facts {s : State} {t : Nat} {l : Local} {p : Pending} {tab : Nat} {v vi : Nat}
    (I : Inv s) (hl : s.threads[t]? = some l) (hp : l.call = some p) (hpc : l.pc = .wCas tab)
    (he : cellOf s tab p.key = .empty) (hop : p.op = .ins v vi ∨ p.op = .tryIns v vi) :
    let s' := finish (setCell (qst s (s.heap ++ [⟨p.key, (v, vi), none, none, false, none⟩]) s.tbins)
      tab p.key (.list s.heap.length)) t p .none
    XShape s' → (Eff s s' ∧ specStep (absOf s p.key) p.op = (absOf s' p.key, .none) ∧
      ∀ k, k ≠ p.key → absOf s' k = absOf s k) := by
  intro s' XS'
  have H := I.heap
  have X := I.rsz
  have W := I.writable_empty hl hp hpc he
  obtain ⟨row, hr, hrl⟩ := X.row_of_lt (gen_of_tabOf X hl (by rw [hpc]; rfl))
  rw [cellOf_eq] at he
  obtain ⟨pc, call⟩ := l
  simp only at hp hpc
  subst hp hpc
  let new : NodeS := ⟨p.key, (v, vi), none, none, false, none⟩
  have hheap : s'.heap = s.heap ++ [new] := rfl
  have htb : s'.tbins = s.tbins := rfl
  have hthr : s'.threads = s.threads.set t ⟨.idle, none⟩ := rfl
  have hnow : s'.now = s.now + 1 := rfl
  have hcur : s'.cur = s.cur := rfl
  have hre : ∀ b j0, Reusing s b j0 → Reusing s' b j0 :=
    reusing_of_set_pc hthr hl ⟨fun _ _ _ e => (by cases e), fun _ _ e => (by cases e)⟩
  have hhist : s'.hist = (p.key, ⟨t, p.op, .none, p.inv, s.now + 1⟩) :: s.hist :=
    rfl
  have hcell : ∀ id', cellAt s' id' = if id' = idOf tab p.key then .list s.heap.length else cellAt s id' :=
    fun id' => cellAt_setCell _ _ _ hr hrl id'
  have hcid : cellAt s' (idOf tab p.key) = .list s.heap.length := by rw [hcell, if_pos rfl]
  have hcells : ∀ id', id' ≠ idOf tab p.key → cellAt s' id' = cellAt s id' := fun id' hne => by
    rw [hcell, if_neg hne]
  have hnt0 := not_tree_of_empty he
  have hnt := not_tree_of_list hcid
  have hnm : cellAt s' (idOf tab p.key) ≠ .moved := by rw [hcid]; intro e; cases e
  obtain ⟨H', T, hs, -, ⟨hnewn, -⟩, habs⟩ := sprepend_store (s' := s') (id := idOf tab p.key) H X W (new := new) hheap
    (by rw [hcid]; rfl) (by rw [he]; rfl)
    (fun j hj => by
      rcases hj with hj | hj
      · rw [he, chainC_empty] at hj; cases hj
      · exact absurd hj (not_treeOf_of hnt0 j))
    (fun j hj => absurd hj (not_treeOf_of hnt j))
    (by rw [htb]) (fun b _ => by rw [htb]) hcells hcur hre
    (by rw [ownerOf_of_not_tree hnt, ownerOf_of_not_tree hnt0]) (by rw [ownerOf_of_not_tree hnt])
    (side_idOf tab p.key)
  have hlock := lock_all T (fun j hj => by
    by_cases hj2 : j = s.heap.length
    · subst hj2; rw [hnewn]
    · rw [nodeAt_ge (by rw [hheap]; simp; omega)]; rfl)
  have T' : TInv s' := tinv_finish (l' := ⟨.idle, none⟩) I.thr hl rfl hthr hnow hhist rfl rfl
  have Iv' : Inv s' := inv_lwrite (l' := ⟨.idle, none⟩) I W T hl (Or.inr ⟨he, rfl⟩) hthr H' T' htb hcur XS' hlock
    hnt rfl rfl rfl rfl rfl rfl rfl rfl rfl (fun _ h => by cases h) trivial
  have E : Eff s s' := eff_lwrite (l' := ⟨.idle, none⟩) I Iv' W T hs hl hthr htb hnt0 hnt hnm rfl
  have habs0 : absOf s p.key = none := by
    rw [absOf_id X W (side_idOf tab p.key), he, chainC_empty]; rfl
  refine ⟨E, ?_, ?_⟩
  · rw [habs p.key, if_pos rfl, habs0]
    rcases hop with hop | hop <;> rw [hop] <;> rfl
  · intro k hk
    rw [habs k, if_neg (fun e => hk e.symm)]

/-! ## the single store of a list-bin writer -/

namespace FactsL

/-- what the remembered positions of a walk are in terms of the list from `h` -/
theorem walk_shape {s : State} {h key : Nat} {pred hit : Option Nat}
    (hd : ∀ i j, i ∈ chainOf s.heap (some h) → j ∈ chainOf s.heap (some h) →
      (nodeAt s.heap i).key = (nodeAt s.heap j).key → i = j)
    (w : Walk s h key pred hit) (hk : ∀ i, hit = some i → (nodeAt s.heap i).key = key) :
    (hit = none → absL s.heap (chainOf s.heap (some h)) key = none ∧ (pred = none → chainOf s.heap (some h) = []) ∧
      ∀ pr, pred = some pr → ∃ l1, chainOf s.heap (some h) = l1 ++ [pr]) ∧
    (∀ i, hit = some i → i ∈ chainOf s.heap (some h) ∧
      absL s.heap (chainOf s.heap (some h)) key = some (nodeAt s.heap i).val ∧
      (pred = none → ∃ l2, chainOf s.heap (some h) = i :: l2) ∧
      ∀ pr, pred = some pr → ∃ l1 l2, chainOf s.heap (some h) = l1 ++ pr :: i :: l2) := by
  obtain ⟨l1, l2, hch, hcur, hpred, hkeys⟩ := w
  generalize chainOf s.heap (some h) = L at hd hch ⊢
  constructor
  · intro hn
    subst hn
    have hl2 : l2 = [] := by
      cases l2 with
      | nil => rfl
      | cons a l => cases hcur
    subst hl2
    rw [List.append_nil] at hch
    refine ⟨?_, ?_, ?_⟩
    · rw [absL_eq_none_iff, hch]; exact hkeys
    · intro hp
      subst hp
      rw [hch]
      exact List.getLast?_eq_none_iff.1 hpred.symm
    · intro pr hp
      subst hp
      rw [hch]
      rcases List.eq_nil_or_concat l1 with rfl | ⟨l1', x, rfl⟩
      · cases hpred
      · simp only [List.concat_eq_append, List.getLast?_append, List.getLast?_singleton, Option.some_or,
          Option.some.injEq] at hpred
        subst hpred
        exact ⟨l1', by simp⟩
  · intro i hi
    subst hi
    cases l2 with
    | nil => cases hcur
    | cons c l2' =>
      simp only [List.head?_cons, Option.some.injEq] at hcur
      subst hcur
      have hi : i ∈ L := by rw [hch]; simp
      refine ⟨hi, ?_, ?_, ?_⟩
      · rw [absL_eq_some_iff hd]
        exact ⟨i, hi, hk i rfl, rfl⟩
      · intro hp
        subst hp
        have : l1 = [] := List.getLast?_eq_none_iff.1 hpred.symm
        subst this
        exact ⟨l2', hch⟩
      · intro pr hp
        subst hp
        rcases List.eq_nil_or_concat l1 with rfl | ⟨l1', x, rfl⟩
        · cases hpred
        · simp only [List.concat_eq_append, List.getLast?_append, List.getLast?_singleton, Option.some_or,
            Option.some.injEq] at hpred
          subst hpred
          exact ⟨l1', l2', by rw [hch]; simp⟩

/-- what a validated list-bin writer at its store knows -/
theorem lstore_ctx {s : State} {t : Nat} {p : Pending} {tab : Nat} {h : Nat} {pred hit hnext : Option Nat}
    (I : Inv s) (hl : s.threads[t]? = some ⟨.wStore tab h pred hit hnext, some p⟩) :
    Writable s (idOf tab p.key) ∧ cellAt s (idOf tab p.key) = .list h ∧
      chainC s (cellAt s (idOf tab p.key)) = chainOf s.heap (some h) ∧
      (∀ i, hit = some i → (nodeAt s.heap i).key = p.key ∧ hnext = (nodeAt s.heap i).next) ∧
      isReader p.op = false ∧
      (hit = none → absOf s p.key = none ∧ (pred = none → chainC s (cellAt s (idOf tab p.key)) = []) ∧
        ∀ pr, pred = some pr → ∃ l1, chainC s (cellAt s (idOf tab p.key)) = l1 ++ [pr]) ∧
      (∀ i, hit = some i → i ∈ chainC s (cellAt s (idOf tab p.key)) ∧
        absOf s p.key = some (nodeAt s.heap i).val ∧
        (pred = none → ∃ l2, chainC s (cellAt s (idOf tab p.key)) = i :: l2) ∧
        ∀ pr, pred = some pr → ∃ l1 l2, chainC s (cellAt s (idOf tab p.key)) = l1 ++ pr :: i :: l2) := by
  have H := I.heap
  have X := I.rsz
  have W : Writable s (idOf tab p.key) := I.writable_valid hl rfl rfl
  have hcell : cellAt s (idOf tab p.key) = .list h := I.lock.vL t _ h hl rfl
  have hch : chainC s (cellAt s (idOf tab p.key)) = chainOf s.heap (some h) := by rw [hcell]; rfl
  have h0 := I.data.pcInv t _ p hl rfl
  simp only [PcInv] at h0
  obtain ⟨w, hk⟩ := h0
  have hrd : isReader p.op = false := I.thr.opOK t _ p hl rfl rfl
  have hd := (H.cinv (idOf tab p.key)).distinct
  rw [hcell] at hd
  obtain ⟨hN, hS⟩ := walk_shape hd w (fun j hj => (hk j hj).1)
  have habs := absOf_id X W (side_idOf tab p.key)
  rw [hch] at habs ⊢
  rw [habs]
  exact ⟨W, hcell, rfl, hk, hrd, hN, hS⟩

theorem tinv_lstore {s s' : State} {t : Nat} {p : Pending} {tab : Nat} {h : Nat} {pred hit hnext : Option Nat}
    {res : KRes} (I : Inv s) (hl : s.threads[t]? = some ⟨.wStore tab h pred hit hnext, some p⟩)
    (hthr : s'.threads = s.threads.set t ⟨.wUnlock tab h res false, some p⟩)
    (hnow : s'.now = s.now + 1) (hhist : s'.hist = s.hist) : TInv s' := by
  refine tinv_keep I.thr hl hthr hnow hhist rfl ?_ ?_
  · constructor <;> intro h <;> cases h
  · intro p1 hp1 _
    have : isReader p1.op = false := I.thr.opOK t _ p1 hl hp1 rfl
    rw [this]; rfl

/-- the generic part of a list-bin store: `Eff` from the `Touch`, the `HeapStep` and the shape of `s'` -/
theorem lstore_core {s s' : State} {t : Nat} {p : Pending} {tab : Nat} {h : Nat} {pred hit hnext : Option Nat}
    {res : KRes} (I : Inv s) (hl : s.threads[t]? = some ⟨.wStore tab h pred hit hnext, some p⟩)
    (W : Writable s (idOf tab p.key)) (hcell : cellAt s (idOf tab p.key) = .list h)
    (T : Touch s s' (idOf tab p.key)) (H' : HInv s')
    (hs : HeapStep s.heap (chainC s (cellAt s (idOf tab p.key))) (fun _ => False) s'.heap
      (chainC s' (cellAt s' (idOf tab p.key))) (fun _ => False))
    (hthr : s'.threads = s.threads.set t ⟨.wUnlock tab h res false, some p⟩)
    (hnow : s'.now = s.now + 1) (hhist : s'.hist = s.hist) (htb : s'.tbins = s.tbins)
    (hcur : s'.cur = s.cur) (XS' : XShape s')
    (hlock : ∀ h', (nodeAt s'.heap h').lock = (nodeAt s.heap h').lock)
    (hnt : ∀ b, cellAt s' (idOf tab p.key) ≠ .tree b) (hnm : cellAt s' (idOf tab p.key) ≠ .moved) : Eff s s' := by
  have hnt0 := not_tree_of_list hcell
  have T' := tinv_lstore I hl hthr hnow hhist
  have Iv' : Inv s' := inv_lwrite (l' := ⟨.wUnlock tab h res false, some p⟩) I W T hl (Or.inl ⟨rfl, rfl⟩) hthr H' T'
    htb hcur XS' hlock hnt rfl rfl rfl rfl rfl rfl rfl rfl rfl (fun _ _ => trivial) trivial
  exact eff_lwrite (l' := ⟨.wUnlock tab h res false, some p⟩) I Iv' W T hs hl hthr htb hnt0 hnt hnm rfl

end FactsL
open FactsL

/-- the result of a list-bin store -/
def LStoreOK (s s' : State) (p : Pending) (res : KRes) : Prop :=
  XShape s' →
    (Eff s s' ∧ specStep (absOf s p.key) p.op = (absOf s' p.key, res) ∧ ∀ k, k ≠ p.key → absOf s' k = absOf s k)

/-- the store changes nothing (`tryIns` on a hit, a removal / `cipInc` on a miss) -/
theorem lstore_same {s : State} {t : Nat} {p : Pending} {tab : Nat} {h : Nat} {pred hit hnext : Option Nat}
    {res : KRes} (I : Inv s) (hl : s.threads[t]? = some ⟨.wStore tab h pred hit hnext, some p⟩)
    (hspec : specStep (absOf s p.key) p.op = (absOf s p.key, res)) :
    LStoreOK s (setT (tick s) t ⟨.wUnlock tab h res false, some p⟩) p res := by
  intro XS'
  have T' : TInv (setT (tick s) t ⟨.wUnlock tab h res false, some p⟩) := tinv_lstore I hl rfl rfl rfl
  obtain ⟨E, habs⟩ := eff_quiet_step (s' := setT (tick s) t ⟨.wUnlock tab h res false, some p⟩)
    (l' := ⟨.wUnlock tab h res false, some p⟩) I hl rfl rfl rfl rfl T' XS' (Or.inl ⟨rfl, rfl⟩)
    (by refine ⟨⟨?_, ?_⟩, ⟨?_, ?_, ?_⟩⟩ <;> simp [pend])
    (by refine ⟨?_, ?_, ?_⟩ <;> simp [holdsMutex, holdsRead, wr, isLoop])
    ⟨fun h hv => by simp [validL] at hv, fun b hv => by simp [validT] at hv, fun b hb => by simp [binRef] at hb⟩
    (fun _ _ => trivial)
  exact ⟨E, by rw [habs]; exact hspec, fun k _ => habs k⟩

/-- the value of the node found is stored (`ins` / `cipInc` on a hit) -/
theorem lstore_val {s : State} {t : Nat} {p : Pending} {tab : Nat} {h i : Nat} {pred hnext : Option Nat}
    {v : Nat × Nat} {res : KRes} (I : Inv s)
    (hl : s.threads[t]? = some ⟨.wStore tab h pred (some i) hnext, some p⟩)
    (hspec : specStep (some (nodeAt s.heap i).val) p.op = (some v, res)) :
    LStoreOK s (setT (setNode (tick s) i (fun n => { n with val := v })) t ⟨.wUnlock tab h res false, some p⟩) p res := by
  intro XS'
  have H := I.heap
  have X := I.rsz
  obtain ⟨W, hcell, -, hk, -, -, hS⟩ := lstore_ctx I hl
  obtain ⟨hi, habs0, -, -⟩ := hS i rfl
  let s' := setT (setNode (tick s) i (fun n => { n with val := v })) t ⟨.wUnlock tab h res false, some p⟩
  have hcells : ∀ id', cellAt s' id' = cellAt s id' := fun id' => rfl
  have hre : ∀ b j0, Reusing s b j0 → Reusing s' b j0 :=
    reusing_of_set_pc (s' := s') (l' := ⟨_, some p⟩) rfl hl ⟨fun _ _ _ e => (by cases e), fun _ _ e => (by cases e)⟩
  obtain ⟨H', T, hs, -, hnode, habs⟩ := sval_store (s' := s') H X W hi rfl rfl hcells rfl hre
  have hcid : cellAt s' (idOf tab p.key) = .list h := by rw [hcells]; exact hcell
  refine ⟨?_, ?_, ?_⟩
  · refine lstore_core (s' := s') I hl W hcell T H' hs rfl rfl rfl rfl rfl XS' ?_ (not_tree_of_list hcid)
      (by rw [hcid]; intro e; cases e)
    intro h'; rw [hnode]; split <;> rfl
  · rw [habs p.key, if_pos (hk i rfl).1, habs0]
    exact hspec
  · intro k hk'
    rw [habs k, if_neg]
    rw [(hk i rfl).1]; exact fun e => hk' e.symm

/-- the state after a list-bin insertion through the remembered predecessor -/
def appendOf (s : State) (tab : Nat) (p : Pending) (pred : Option Nat) (v vi : Nat) : State :=
  match pred with
  | some l => setNode { s with heap := s.heap ++ [⟨p.key, (v, vi), none, none, false, none⟩] } l
      (fun n => { n with next := some s.heap.length })
  | none => setCell { s with heap := s.heap ++ [⟨p.key, (v, vi), none, none, false, none⟩] } tab p.key
      (.list s.heap.length)

/-- the state after a list-bin removal through the remembered predecessor and successor -/
def unlinkL (s : State) (tab : Nat) (p : Pending) (pred hnext : Option Nat) : State :=
  match pred with
  | some pr => setNode s pr (fun m => { m with next := hnext })
  | none => setCell s tab p.key (cellOfHead hnext)

theorem storeAt_eq (s : State) (tab : Nat) (p : Pending) (pred hit hnext : Option Nat) :
    storeAt s tab p pred hit hnext =
      match p.op, hit with
      | .ins v vi, some i => (setNode s i (fun n => { n with val := (v, vi) }), resOf (some (nodeAt s.heap i).val))
      | .ins v vi, none => (appendOf s tab p pred v vi, .none)
      | .tryIns _ _, some i => (s, .exists_ (nodeAt s.heap i).val.1 (nodeAt s.heap i).val.2)
      | .tryIns v vi, none => (appendOf s tab p pred v vi, .none)
      | .rm, some i => (unlinkL s tab p pred hnext, resOf (some (nodeAt s.heap i).val))
      | .rm, none => (s, .none)
      | .cipInc nvi, some i =>
        (setNode s i (fun m => { m with val := ((nodeAt s.heap i).val.1 + 1, nvi) }), .some ((nodeAt s.heap i).val.1 + 1) nvi)
      | .cipInc _, none => (s, .none)
      | .cipRm, some _ => (unlinkL s tab p pred hnext, .none)
      | .cipRm, none => (s, .none)
      | .get, _ => (s, .none)
      | .has, _ => (s, .none) := by
  unfold storeAt appendOf unlinkL nodeAt
  cases p.op <;> cases hit <;> cases pred <;> cases hnext <;> rfl

/-- a fresh node is appended behind the last node (`ins` / `tryIns` on a miss) -/
theorem lstore_append {s : State} {t : Nat} {p : Pending} {tab : Nat} {h : Nat} {pred hnext : Option Nat}
    {v vi : Nat} (I : Inv s) (hl : s.threads[t]? = some ⟨.wStore tab h pred none hnext, some p⟩)
    (hop : p.op = .ins v vi ∨ p.op = .tryIns v vi) :
    LStoreOK s (setT (appendOf (tick s) tab p pred v vi) t ⟨.wUnlock tab h .none false, some p⟩) p .none := by
  intro XS'
  have H := I.heap
  have X := I.rsz
  obtain ⟨W, hcell, hchh, -, -, hN, -⟩ := lstore_ctx I hl
  obtain ⟨habs0, hnil, hlast⟩ := hN rfl
  have hnt0 := not_tree_of_list hcell
  cases pred with
  | none =>
    exfalso
    have hch := (H.cinv (idOf tab p.key)).isChain
    have e := hnil rfl
    rw [hchh] at e
    rw [hcell] at hch
    obtain ⟨r, hr⟩ := Flurry.Proto.BinK.IsChain.start_some hch
    have : chainOf s.heap (startOf s.tbins (.list h)) = chainOf s.heap (some h) := rfl
    rw [this, e] at hr
    cases hr
  | some pr =>
    obtain ⟨l1, hch⟩ := hlast pr rfl
    let new : NodeS := ⟨p.key, (v, vi), none, none, false, none⟩
    let s' := setT (appendOf (tick s) tab p (some pr) v vi) t ⟨.wUnlock tab h .none false, some p⟩
    have hheap : s'.heap = (s.heap ++ [new]).modify pr (fun m => { m with next := some s.heap.length }) := rfl
    have hcells : ∀ id', cellAt s' id' = cellAt s id' := fun id' => rfl
    have hre : ∀ b j0, Reusing s b j0 → Reusing s' b j0 :=
      reusing_of_set_pc (s' := s') (l' := ⟨_, some p⟩) rfl hl ⟨fun _ _ _ e => (by cases e), fun _ _ e => (by cases e)⟩
    have hcid : cellAt s' (idOf tab p.key) = .list h := by rw [hcells]; exact hcell
    have hnt := not_tree_of_list hcid
    have hfr : ∀ j, (j ∈ chainC s (cellAt s (idOf tab p.key)) ∨ treeOf s (cellAt s (idOf tab p.key)) j) →
        (nodeAt s.heap j).key ≠ new.key := by
      intro j hj
      rcases hj with hj | hj
      · rw [absOf_id X W (side_idOf tab p.key), absL_eq_none_iff] at habs0; exact habs0 j hj
      · exact absurd hj (not_treeOf_of hnt0 j)
    obtain ⟨H', T, hs, -, hnode, habs⟩ := sappend_store (s' := s') (new := new) H X W hch hheap rfl hcells rfl hre rfl hfr
      (fun j hj => absurd hj (not_treeOf_of hnt j))
      (by rw [ownerOf_of_not_tree hnt0]) (side_idOf tab p.key)
    refine ⟨?_, ?_, ?_⟩
    · refine lstore_core (s' := s') I hl W hcell T H' hs rfl rfl rfl rfl rfl XS' ?_ hnt (by rw [hcid]; intro e; cases e)
      refine lock_all T ?_
      intro j hj
      rw [hnode]
      have hprl : pr < s.heap.length := (H.cinv (idOf tab p.key)).chain_lt
        (by show pr ∈ chainC s (cellAt s (idOf tab p.key)); rw [hch]; simp)
      rw [if_neg (by omega)]
      split
      · rfl
      · rw [nodeAt_ge hj]; rfl
    · rw [habs p.key, if_pos rfl, habs0]
      rcases hop with hop | hop <;> rw [hop] <;> rfl
    · intro k hk'
      rw [habs k, if_neg (fun e => hk' e.symm)]

/-- the node found is unlinked (`rm` / `cipRm` on a hit) -/
theorem lstore_unlink {s : State} {t : Nat} {p : Pending} {tab : Nat} {h i : Nat} {pred hnext : Option Nat}
    {res : KRes} (I : Inv s) (hl : s.threads[t]? = some ⟨.wStore tab h pred (some i) hnext, some p⟩)
    (hspec : specStep (some (nodeAt s.heap i).val) p.op = (none, res)) :
    LStoreOK s (setT (unlinkL (tick s) tab p pred hnext) t ⟨.wUnlock tab h res false, some p⟩) p res := by
  intro XS'
  have H := I.heap
  have X := I.rsz
  obtain ⟨row, hr, hrl⟩ := X.row_of_lt (gen_of_tabOf X hl rfl)
  obtain ⟨W, hcell, -, hk, -, -, hS⟩ := lstore_ctx I hl
  obtain ⟨hi, habs0, hhead, hmid⟩ := hS i rfl
  obtain ⟨hkey, hnx⟩ := hk i rfl
  have hnt0 := not_tree_of_list hcell
  let s' := setT (unlinkL (tick s) tab p pred hnext) t ⟨.wUnlock tab h res false, some p⟩
  have hshape : s'.tbins = s.tbins ∧ (∀ b', cellAt s' (idOf tab p.key) ≠ .tree b') ∧
      cellAt s' (idOf tab p.key) ≠ .moved ∧ s'.now = s.now + 1 ∧ s'.hist = s.hist ∧
      s'.threads = s.threads.set t ⟨.wUnlock tab h res false, some p⟩ ∧ s'.resizing = s.resizing ∧ s'.cur = s.cur ∧
      (∀ id', id' ≠ idOf tab p.key → cellAt s' id' = cellAt s id') ∧
      ((∃ l2, chainC s (cellAt s (idOf tab p.key)) = i :: l2 ∧ s'.heap = s.heap ∧
          startOf s'.tbins (cellAt s' (idOf tab p.key)) = (nodeAt s.heap i).next) ∨
        (∃ l1 pr l2, chainC s (cellAt s (idOf tab p.key)) = l1 ++ pr :: i :: l2 ∧
          s'.heap = s.heap.modify pr (fun m => { m with next := (nodeAt s.heap i).next }) ∧
          startOf s'.tbins (cellAt s' (idOf tab p.key)) = startOf s.tbins (cellAt s (idOf tab p.key)))) := by
    cases pred with
    | none =>
      obtain ⟨l2, hch⟩ := hhead rfl
      have hc' : ∀ id', cellAt s' id' = if id' = idOf tab p.key then cellOfHead hnext else cellAt s id' :=
        fun id' => cellAt_setCell _ _ _ hr hrl id'
      have hcid : cellAt s' (idOf tab p.key) = cellOfHead hnext := by
        rw [hc', if_pos rfl]
      refine ⟨rfl, ?_, ?_, rfl, rfl, rfl, rfl,
        rfl, fun id' hne => by rw [hc', if_neg hne], Or.inl ⟨l2, hch, rfl, ?_⟩⟩
      · intro b'; rw [hcid]; cases hnext <;> (intro e; cases e)
      · rw [hcid]; cases hnext <;> (intro e; cases e)
      · rw [hcid, ← hnx]
        clear hnx hk hl hS
        cases hnext <;> rfl
    | some pr =>
      obtain ⟨l1, l2, hch⟩ := hmid pr rfl
      have hcells : ∀ id', cellAt s' id' = cellAt s id' := fun id' => rfl
      refine ⟨rfl, ?_, ?_, rfl, rfl, rfl, rfl, rfl, fun id' _ => hcells id', Or.inr ⟨l1, pr, l2, hch, ?_, ?_⟩⟩
      · intro b'; rw [hcells]; exact hnt0 b'
      · rw [hcells, hcell]; intro e; cases e
      · show s.heap.modify pr (fun m => { m with next := hnext }) = _
        rw [hnx]
      · rw [hcells]; rfl
  obtain ⟨htb, hnt, hnm, hnow, hhist, hthr, hres, hcur, hcells, hcase⟩ := hshape
  have hre : ∀ b j0, Reusing s b j0 → Reusing s' b j0 :=
    reusing_of_set_pc hthr hl ⟨fun _ _ _ e => (by cases e), fun _ _ e => (by cases e)⟩
  obtain ⟨H', T, hs, -, -, hf, habs⟩ := sunlink_store (s' := s') H X W hcase
    (fun j hj => absurd hj (not_treeOf_of hnt j)) (by rw [htb]) (fun b _ => by rw [htb]) hcells hcur hre
    (by rw [ownerOf_of_not_tree hnt, ownerOf_of_not_tree hnt0]) hnm
  refine ⟨?_, ?_, ?_⟩
  · exact lstore_core (s' := s') I hl W hcell T H' hs hthr hnow hhist htb hcur XS' (fun h' => (hf h').2.2.2.2) hnt hnm
  · rw [habs p.key, if_pos hkey, habs0]
    exact hspec
  · intro k hk'
    rw [habs k, if_neg]
    rw [hkey]; exact fun e => hk' e.symm

/-- **the single store of a list-bin writer** (`wStore`) -/
theorem store_ok {s : State} {t : Nat} {p : Pending} {tab : Nat} {h : Nat} {pred hit hnext : Option Nat}
    (I : Inv s) (hl : s.threads[t]? = some ⟨.wStore tab h pred hit hnext, some p⟩) :
    LStoreOK s (setT (storeAt (tick s) tab p pred hit hnext).1 t
      ⟨.wUnlock tab h (storeAt (tick s) tab p pred hit hnext).2 false, some p⟩) p
      (storeAt (tick s) tab p pred hit hnext).2 := by
  obtain ⟨-, -, -, -, hrd, hshN, hshS⟩ := lstore_ctx I hl
  have hX := storeAt_eq (tick s) tab p pred hit hnext
  have hheap : (tick s).heap = s.heap := rfl
  cases hop : p.op with
  | get => rw [hop] at hrd; cases hrd
  | has => rw [hop] at hrd; cases hrd
  | ins v vi =>
    cases hit with
    | some i =>
      rw [hop] at hX; simp only at hX; rw [hX, hheap]
      exact lstore_val I hl (by rw [hop]; rfl)
    | none =>
      rw [hop] at hX; simp only at hX; rw [hX]
      exact lstore_append I hl (Or.inl hop)
  | tryIns v vi =>
    cases hit with
    | some i =>
      rw [hop] at hX; simp only at hX; rw [hX, hheap]
      refine lstore_same I hl ?_
      rw [(hshS i rfl).2.1, hop]
      have : ∀ x : Nat × Nat, specStep (some x) (.tryIns v vi) = (some x, .exists_ x.1 x.2) := fun ⟨_, _⟩ => rfl
      exact this _
    | none =>
      rw [hop] at hX; simp only at hX; rw [hX]
      exact lstore_append I hl (Or.inr hop)
  | rm =>
    cases hit with
    | some i =>
      rw [hop] at hX; simp only at hX; rw [hX, hheap]
      exact lstore_unlink I hl (by rw [hop]; rfl)
    | none =>
      rw [hop] at hX; simp only at hX; rw [hX]
      refine lstore_same I hl ?_
      rw [(hshN rfl).1, hop]; rfl
  | cipInc nvi =>
    cases hit with
    | some i =>
      rw [hop] at hX; simp only at hX; rw [hX, hheap]
      refine lstore_val I hl ?_
      rw [hop]
      have : ∀ x : Nat × Nat, specStep (some x) (.cipInc nvi) = (some (x.1 + 1, nvi), .some (x.1 + 1) nvi) :=
        fun ⟨_, _⟩ => rfl
      exact this _
    | none =>
      rw [hop] at hX; simp only at hX; rw [hX]
      refine lstore_same I hl ?_
      rw [(hshN rfl).1, hop]; rfl
  | cipRm =>
    cases hit with
    | some i =>
      rw [hop] at hX; simp only at hX; rw [hX]
      exact lstore_unlink I hl (by rw [hop]; rfl)
    | none =>
      rw [hop] at hX; simp only at hX; rw [hX]
      refine lstore_same I hl ?_
      rw [(hshN rfl).1, hop]; rfl

/-- **the single store of a list-bin writer** (`StepN.store`) -/
theorem store_facts {s : State} {t : Nat} {l : Local} {p : Pending} {tab : Nat} {h : Nat} {pred hit hnext : Option Nat}
    (I : Inv s) (hl : s.threads[t]? = some l) (hp : l.call = some p) (hpc : l.pc = .wStore tab h pred hit hnext) :
    let s' := setT (storeAt (tick s) tab p pred hit hnext).1 t
      { l with pc := .wUnlock tab h (storeAt (tick s) tab p pred hit hnext).2 false }
    XShape s' → (Eff s s' ∧ specStep (absOf s p.key) p.op = (absOf s' p.key, (storeAt (tick s) tab p pred hit hnext).2) ∧
      ∀ k, k ≠ p.key → absOf s' k = absOf s k) := by
  obtain ⟨pc, call⟩ := l
  simp only at hp hpc
  subst hp hpc
  exact store_ok I hl

end Flurry.Proto.BinGNP
