import Flurry.Lemmas.SeqOpsRemove
/-! # O3: `computeIfPresent` -/
namespace Flurry.Seq
open Flurry Flurry.Gen
open Flurry.RB (upd)

/-- allocating the table changes no lookup -/
theorem UpdPost.init {m : Map} (hg : Good m) (k : Nat) :
    UpdPost m (initTable m) k (get k m) 0 (m.table ≠ none) :=
  ⟨hg.init, initTable_hash m, (initTable_same m).2.1 k, fun k' _ => (initTable_same m).2.1 k',
    by rw [initTable_count]; omega, initTable_tableLen_le m, by rw [initTable_resizes]; exact Nat.le_refl _,
    fun hne => by rw [hg.initTable_eq hne]; exact ⟨rfl, rfl, rfl⟩⟩

theorem cip_initTable (k : Nat) (f : Nat → Nat → Nat → CbRes) {m : Map} (hg : Good m) :
    computeIfPresent k f m = computeIfPresent k f (initTable m) := by
  unfold computeIfPresent
  simp only [initTable_idem hg, initTable_hash]

theorem get_key_eq {m : Map} (hg : Good m) {k : Nat} {old : Node} (h : get k m = some old) :
    old.key = k := by
  cases ht : m.table with
  | none => rw [get_of_table_none ht] at h; cases h
  | some t => exact ((get_iff ht (hg.1.tableWF ht)).1 h).2

theorem table_ne_none_of_get {m : Map} {k : Nat} {old : Node} (h : get k m = some old) :
    m.table ≠ none := by
  intro ht; rw [get_of_table_none ht] at h; cases h

/-- the key is absent: the only effect is the (lazy) allocation of the table -/
theorem cip_of_get_none {k : Nat} (f : Nat → Nat → Nat → CbRes) {m : Map} (hg : Good m)
    (h : get k m = none) : computeIfPresent k f m = (initTable m, .none) := by
  obtain ⟨t, ht⟩ := initTable_table_some m
  have htw := hg.init.1.tableWF ht
  have hf : (tableBin t (bini (m.hash k) t.length)).find (m.hash k) k = none := by
    have := get_eq_find ht htw k
    rw [initTable_hash, (initTable_same m).2.1 k, h] at this
    exact this.symm
  unfold computeIfPresent
  simp only [ht, hf]

/-- the callback panics: the only effect is the (lazy) allocation of the table — in fact none,
since a present key means the table exists. **No write happens before the callback runs.** -/
theorem cip_of_panic {k : Nat} {f : Nat → Nat → Nat → CbRes} {m : Map} {old : Node} (hg : Good m)
    (h : get k m = some old) (hp : f k old.val old.vi = .panic) :
    computeIfPresent k f m = (initTable m, .panic) := by
  obtain ⟨t, ht⟩ := initTable_table_some m
  have htw := hg.init.1.tableWF ht
  have hk := get_key_eq hg h
  have hf : (tableBin t (bini (m.hash k) t.length)).find (m.hash k) k = some old := by
    have := get_eq_find ht htw k
    rw [initTable_hash, (initTable_same m).2.1 k, h] at this
    exact this.symm
  unfold computeIfPresent
  simp only [ht, hf, hk, hp]

theorem cip_keep {k : Nat} {f : Nat → Nat → Nat → CbRes} {m : Map} {old : Node} {v vi : Nat}
    (hg : Good m) (h : get k m = some old) (hp : f k old.val old.vi = .keep v vi) :
    UpdPost m (computeIfPresent k f m).1 k (some { old with val := v, vi := vi }) 0 True ∧
      (computeIfPresent k f m).2 = .some v vi := by
  cases ht : m.table with
  | none => rw [get_of_table_none ht] at h; cases h
  | some t =>
    have htw := hg.1.tableWF ht
    have hk := get_key_eq hg h
    have hf : (tableBin t (bini (m.hash k) t.length)).find (m.hash k) k = some old := by
      rw [← get_eq_find ht htw]; exact h
    have hu := update_post hg.1 ht v vi hf false
    have hp' : f old.key old.val old.vi = .keep v vi := by rw [hk]; exact hp
    unfold computeIfPresent
    simp only [initTable_of_wf_some hg.1 ht, ht, hf, hp']
    cases hb : tableBin t (bini (m.hash k) t.length) with
    | empty => rw [hb] at hf; cases hf
    | list ns =>
      simp only [hb, setValBin, Bool.false_eq_true, ↓reduceIte] at hu
      exact ⟨hu.mono (fun _ => Or.inl trivial), trivial⟩
    | tree tr o =>
      simp only [hb, setValBin, Bool.false_eq_true, ↓reduceIte] at hu
      exact ⟨hu.mono (fun _ => Or.inl trivial), trivial⟩

theorem cip_remove {k : Nat} {f : Nat → Nat → Nat → CbRes} {m : Map} {old : Node}
    (hg : Good m) (h : get k m = some old) (hp : f k old.val old.vi = .remove) :
    UpdPost m (computeIfPresent k f m).1 k none (-1) True ∧
      (computeIfPresent k f m).2 = .none := by
  cases ht : m.table with
  | none => rw [get_of_table_none ht] at h; cases h
  | some t =>
    have htw := hg.1.tableWF ht
    have hk := get_key_eq hg h
    have hf : (tableBin t (bini (m.hash k) t.length)).find (m.hash k) k = some old := by
      rw [← get_eq_find ht htw]; exact h
    have hp' : f old.key old.val old.vi = .remove := by rw [hk]; exact hp
    unfold computeIfPresent
    simp only [initTable_of_wf_some hg.1 ht, ht, hf, hp']
    cases hb : tableBin t (bini (m.hash k) t.length) with
    | empty => rw [hb] at hf; cases hf
    | list ns =>
      have hu := remove_post hg.1 ht hf none
      simp only [hb, removeBin] at hu
      exact ⟨hu, trivial⟩
    | tree tr o =>
      have hu := remove_post hg.1 ht hf none
      simp only [hb, removeBin] at hu
      exact ⟨hu, trivial⟩

/-- what a lookup of `k` finds after `computeIfPresent k f` -/
def cipNew (k : Nat) (f : Nat → Nat → Nat → CbRes) (m : Map) : Option Node :=
  match get k m with
  | none => none
  | some old =>
    match f k old.val old.vi with
    | .panic => some old
    | .keep v vi => some { old with val := v, vi := vi }
    | .remove => none

def cipOut (k : Nat) (f : Nat → Nat → Nat → CbRes) (m : Map) : Out :=
  match get k m with
  | none => .none
  | some old =>
    match f k old.val old.vi with
    | .panic => .panic
    | .keep v vi => .some v vi
    | .remove => .none

/-- **O3**: `computeIfPresent` on a `Good` state in terms of lookups. The table never grows;
if it does not exist yet it is allocated (which is not a resize). -/
theorem cip_spec (k : Nat) (f : Nat → Nat → Nat → CbRes) {m : Map} (hg : Good m) :
    UpdPost m (computeIfPresent k f m).1 k (cipNew k f m)
      (if (get k m).isSome ∧ (∃ old, get k m = some old ∧ f k old.val old.vi = .remove) then -1 else 0)
      (m.table ≠ none) ∧
    (computeIfPresent k f m).2 = cipOut k f m := by
  obtain hgk | ⟨old, hgk⟩ : get k m = none ∨ ∃ old, get k m = some old := by
    cases get k m <;> simp
  · rw [cip_of_get_none f hg hgk]
    have hp := UpdPost.init hg k
    simp only [cipNew, cipOut, hgk, Option.isSome_none, Bool.false_eq_true, false_and, ↓reduceIte,
      and_true]
    rwa [hgk] at hp
  · cases hf : f k old.val old.vi with
    | panic =>
      rw [cip_of_panic hg hgk hf]
      have hp := UpdPost.init hg k
      have : ¬ ((get k m).isSome = true ∧ ∃ old, get k m = some old ∧ f k old.val old.vi = .remove) := by
        rintro ⟨-, o, ho, hr⟩
        rw [hgk] at ho; cases ho; rw [hf] at hr; cases hr
      rw [if_neg this]
      simp only [cipNew, cipOut, hgk, hf, and_true]
      rwa [hgk] at hp
    | keep v vi =>
      obtain ⟨h1, h2⟩ := cip_keep hg hgk hf
      have : ¬ ((get k m).isSome = true ∧ ∃ old, get k m = some old ∧ f k old.val old.vi = .remove) := by
        rintro ⟨-, o, ho, hr⟩
        rw [hgk] at ho; cases ho; rw [hf] at hr; cases hr
      rw [if_neg this]
      simp only [cipNew, cipOut, hgk, hf]
      exact ⟨h1.mono (fun _ => trivial), h2⟩
    | remove =>
      obtain ⟨h1, h2⟩ := cip_remove hg hgk hf
      have : (get k m).isSome = true ∧ ∃ old, get k m = some old ∧ f k old.val old.vi = .remove :=
        ⟨by rw [hgk]; rfl, old, hgk, hf⟩
      rw [if_pos this]
      simp only [cipNew, cipOut, hgk, hf]
      exact ⟨h1.mono (fun _ => trivial), h2⟩

theorem cip_good (k : Nat) (f : Nat → Nat → Nat → CbRes) {m : Map} (hg : Good m) :
    Good (computeIfPresent k f m).1 := (cip_spec k f hg).1.good

/-- **O3**: `compute_if_present` agrees with the reference map -/
theorem step_cip (k : Nat) (f : Nat → Nat → Nat → CbRes) {m : Map} (hg : Good m) :
    Good (step m (.cip k f)).1 ∧
    absMap (step m (.cip k f)).1 = (Ref.step (absMap m) (.cip k f)).1 ∧
    (step m (.cip k f)).2 = (Ref.step (absMap m) (.cip k f)).2 := by
  obtain ⟨h, ho⟩ := cip_spec k f hg
  refine ⟨h.good, ?_, ?_⟩
  · funext k'
    simp only [step, h.absMap_apply k', Ref.step, cipNew]
    obtain hgk | ⟨old, hgk⟩ : get k m = none ∨ ∃ old, get k m = some old := by
      cases get k m <;> simp
    · by_cases hk : k' = k
      · subst hk; simp [absMap, hgk]
      · simp [absMap, hgk, hk]
    · have ha : absMap m k = some (old.ki, old.val, old.vi) := by simp [absMap, hgk]
      simp only [hgk, ha]
      cases hf : f k old.val old.vi with
      | panic =>
        by_cases hk : k' = k
        · subst hk; simp [ha]
        · simp [hk]
      | keep v vi =>
        by_cases hk : k' = k
        · subst hk; simp [Ref.setVal, ha]
        · simp [Ref.setVal, hk]
      | remove =>
        by_cases hk : k' = k
        · subst hk; simp [Ref.remove]
        · simp [Ref.remove, hk]
  · simp only [step, ho, Ref.step, cipOut]
    obtain hgk | ⟨old, hgk⟩ : get k m = none ∨ ∃ old, get k m = some old := by
      cases get k m <;> simp
    · simp [absMap, hgk, ansOfOut]
    · have ha : absMap m k = some (old.ki, old.val, old.vi) := by simp [absMap, hgk]
      simp only [hgk, ha]
      cases hf : f k old.val old.vi <;> rfl

/-- **O3 / C18**: when the callback panics, or the key is absent, the state is exactly
`initTable m`: no write happened -/
theorem cip_unchanged {k : Nat} {f : Nat → Nat → Nat → CbRes} {m : Map} (hg : Good m)
    (h : (computeIfPresent k f m).2 = .panic ∨ absMap m k = none) :
    (computeIfPresent k f m).1 = initTable m := by
  obtain hgk | ⟨old, hgk⟩ : get k m = none ∨ ∃ old, get k m = some old := by
    cases get k m <;> simp
  · rw [cip_of_get_none f hg hgk]
  · rcases h with h | h
    · rw [(cip_spec k f hg).2] at h
      simp only [cipOut, hgk] at h
      cases hf : f k old.val old.vi with
      | panic => rw [cip_of_panic hg hgk hf]
      | keep v vi => rw [hf] at h; cases h
      | remove => rw [hf] at h; cases h
    · simp [absMap, hgk] at h

/-- the answer is `panic` exactly when the key is present and the callback panics on its value -/
theorem cip_panic_iff {k : Nat} {f : Nat → Nat → Nat → CbRes} {m : Map} (hg : Good m) :
    (computeIfPresent k f m).2 = .panic ↔
      ∃ ki v vi, absMap m k = some (ki, v, vi) ∧ f k v vi = .panic := by
  rw [(cip_spec k f hg).2, cipOut]
  obtain hgk | ⟨old, hgk⟩ : get k m = none ∨ ∃ old, get k m = some old := by
    cases get k m <;> simp
  · simp [hgk, absMap]
  · simp only [hgk, absMap, Option.map_some, Option.some.injEq, Prod.mk.injEq]
    constructor
    · intro h
      refine ⟨old.ki, old.val, old.vi, ⟨rfl, rfl, rfl⟩, ?_⟩
      cases hf : f k old.val old.vi <;> simp_all
    · rintro ⟨ki, v, vi, ⟨-, rfl, rfl⟩, hf⟩
      rw [hf]

end Flurry.Seq
