import Flurry.Lemmas.BinNRDefs
/-! # Proto/BinNR: what a `BinN` transition does to reachability, and where node indices come from (C03, C04)

* `dead_step`: a node that is not `Live` stays so and keeps its `next`; `leave_step`: a node that leaves the
  chains of the cells is not `Live` afterwards and keeps its `next` (from `MemStep`);
* `acquire`: a thread gets the node indices in its program counter only from its old program counter, from a
  cell, or from the `next` field of a node it holds;
* `hit_dead`: the remover's unlink store makes the node it found unreachable. -/
namespace Flurry.Proto.BinNR
open Flurry.Lin
open Flurry.Proto.BinX (NodeS Cell Pending isReader dflt chainFrom cellHead cellOfHead nodeAt nodeAt_of_some getElem?_nodeAt
  IsSeg IsChain chainH chainH_empty chainH_moved get_set get_set_self get_set_ne Walk)
open Flurry.Proto.BinN (Pc Local cellAt cellOf chainOfCell Ghost Inv HInv MemStep HeapStep Live chId getCell CellId
  StepK chId_of_moved tick setT setNode putCell storeAt finish Move TMove LockMove TLockMove Fin)

theorem memStep_len {s s' : BinN.State} {G G' : Ghost} (m : MemStep s s' G G') : s.heap.length ≤ s'.heap.length := by
  cases m with
  | heap hs => exact hs.len
  | moved jm lo hg h1 h2 h3 h4 h5 h6 h7 h8 => rw [h4]; exact Nat.le_refl _
  | clear id h1 h2 h3 h4 h5 => rw [h5]; exact Nat.le_refl _

/-- a node that is not `Live` is never written again and stays dead -/
theorem dead_step {s s' : BinN.State} {G G' : Ghost} (m : MemStep s s' G G') {j : Nat}
    (hj : j < s.heap.length) (hd : ¬ Live s G j) :
    ¬ Live s' G' j ∧ (nodeAt s'.heap j).next = (nodeAt s.heap j).next := by
  cases m with
  | heap hs =>
    obtain ⟨-, h2, h3⟩ := hs.off j hj hd
    exact ⟨h3, h2⟩
  | moved jm lo hg h1 h2 h3 h4 h5 h6 h7 h8 =>
    refine ⟨?_, by rw [h4]⟩
    rintro (⟨id, hid⟩ | ⟨j', lo', hg', hm, -⟩)
    · by_cases hne : id = (s.cur, jm)
      · subst hne
        rw [chId_of_moved h6] at hid
        cases hid
      · apply hd
        refine Or.inl ⟨id, ?_⟩
        unfold chId at hid ⊢
        rw [h4, h7 id hne] at hid
        exact hid
    · rw [h2] at hm; cases hm
  | clear id h1 h2 h3 h4 h5 =>
    subst h1
    exact ⟨fun h => hd (h4 j h).1, by rw [h5]⟩

/-- a node that leaves the chains of the cells is dead afterwards, with its `next` field as it was -/
theorem leave_step {s s' : BinN.State} {G G' : Ghost} (m : MemStep s s' G G') {j : Nat}
    (h0 : Live0 s j) (h1 : ¬ Live0 s' j) :
    ¬ Live s' G' j ∧ (nodeAt s'.heap j).next = (nodeAt s.heap j).next := by
  cases m with
  | heap hs =>
    obtain ⟨id, hj⟩ := h0
    obtain ⟨-, h2, h3, -⟩ := hs.unlC id j hj (fun h => h1 ⟨id, h⟩)
    exact ⟨h3, h2⟩
  | moved jm lo hg e1 e2 e3 e4 e5 e6 e7 e8 =>
    refine ⟨?_, by rw [e4]⟩
    rintro (h | ⟨j', lo', hg', hm, -⟩)
    · exact h1 h
    · rw [e2] at hm; cases hm
  | clear id0 e1 e2 e3 e4 e5 =>
    subst e1
    refine ⟨?_, by rw [e5]⟩
    intro hl
    obtain ⟨id, hj⟩ := h0
    by_cases hne : id = id0
    · subst hne
      exact (e4 j hl).2 hj
    · exact h1 ⟨id, by rw [e2 id hne]; exact hj⟩

theorem storeAt_threads (s : BinN.State) (g : Nat) (p : Pending) (pred hit hnext : Option Nat) :
    (storeAt s g p pred hit hnext).1.threads = s.threads := by
  unfold storeAt
  simp only
  split <;> first | rfl | (cases pred <;> rfl)

/-- **where node indices come from**: after a step, every node index in the program counter of the thread was
there before, or is the head of a cell, or was loaded from the `next` field of a node the thread held -/
theorem acquire {s s' : BinN.State} {t : Nat} {l : Local} {pick : Nat} (hs : StepK s t l pick s') :
    ∃ l', s'.threads = s.threads.set t l' ∧ ∀ i ∈ holds l'.pc,
      i ∈ holds l.pc ∨ (∃ id : CellId, getCell s id = .node i) ∨
      (∃ c ∈ holds l.pc, ∃ n, s.heap[c]? = some n ∧ n.next = some i) := by
  obtain ⟨pc, call⟩ := l
  cases hs with
  | idle hpc => exact ⟨_, rfl, fun i hi => Or.inl hi⟩
  | invoke k op hpc =>
    refine ⟨_, rfl, ?_⟩
    intro i hi
    by_cases hr : isReader op = true <;> simp [holds, hr] at hi
  | resize hpc hr => exact ⟨{ pc := .tNext, call := call }, rfl, fun i hi => by simp [holds] at hi⟩
  | move p pc' hp hm =>
    refine ⟨{ pc := pc', call := call }, rfl, ?_⟩
    intro i hi
    simp only at hm
    cases hm with
    | rTable => simp [holds] at hi
    | rCellMoved _ => simp [holds] at hi
    | @rCellNode g h hc =>
      simp [holds] at hi; subst hi
      exact Or.inr (Or.inl ⟨(g, p.key % 2 ^ g), hc⟩)
    | @rNext c n hn hk =>
      cases hnx : n.next with
      | none => rw [hnx] at hi; simp [holds] at hi
      | some b =>
        rw [hnx] at hi; simp [holds] at hi; subst hi
        exact Or.inr (Or.inr ⟨c, by simp [holds], n, hn, hnx⟩)
    | wTable => simp [holds] at hi
    | wCellEmpty _ _ => simp [holds] at hi
    | wCellMoved _ => simp [holds] at hi
    | @wCellNode g h hc =>
      simp [holds] at hi; subst hi
      exact Or.inr (Or.inl ⟨(g, p.key % 2 ^ g), hc⟩)
    | casFail => simp [holds] at hi
    | checkOk _ => left; simpa [holds] using hi
    | checkFail _ => left; simpa [holds] using hi
    | findEnd => left; simp [holds] at hi ⊢; exact hi
    | @findHit g h pred c n hn hk =>
      simp only [holds, List.mem_cons, List.mem_append, Option.mem_toList] at hi
      rcases hi with h1 | (h1 | h1) | h1
      · left; simp [holds, h1]
      · left; simp [holds, h1]
      · left; cases h1; simp [holds]
      · exact Or.inr (Or.inr ⟨c, by simp [holds], n, hn, h1⟩)
    | @findNext g h pred c n hn hk =>
      simp only [holds, List.mem_cons, List.mem_append, Option.mem_toList] at hi
      rcases hi with h1 | h1 | h1
      · left; simp [holds, h1]
      · left; cases h1; simp [holds]
      · exact Or.inr (Or.inr ⟨c, by simp [holds], n, hn, h1⟩)
  | tmove pc' hp hm =>
    refine ⟨{ pc := pc', call := call }, rfl, ?_⟩
    intro i hi
    simp only at hm
    cases hm with
    | nextDone _ => simp [holds] at hi
    | nextPick _ => simp [holds] at hi
    | cellEmpty _ => simp [holds] at hi
    | @cellNode j h hc =>
      simp [holds] at hi; subst hi
      exact Or.inr (Or.inl ⟨(s.cur, j), hc⟩)
    | cellMoved _ => simp [holds] at hi
    | casFail _ => simp [holds] at hi
    | checkOk _ => left; simpa [holds] using hi
  | lockMove p h x pc' hp hm =>
    refine ⟨{ pc := pc', call := call }, rfl, ?_⟩
    intro i hi
    simp only at hm
    cases hm with
    | lock _ _ => left; simpa [holds] using hi
    | unlockRetry => simp [holds] at hi
  | tlockMove h x pc' hp hm =>
    refine ⟨{ pc := pc', call := call }, rfl, ?_⟩
    intro i hi
    simp only at hm
    cases hm with
    | lock _ _ => left; simpa [holds] using hi
    | checkFail _ => simp [holds] at hi
    | unlock => simp [holds] at hi
  | fin p res hp hf => exact ⟨{ pc := .idle, call := none }, rfl, fun i hi => by simp [holds] at hi⟩
  | cas p g v vi hp hpc hc hop => exact ⟨{ pc := .idle, call := none }, rfl, fun i hi => by simp [holds] at hi⟩
  | store p g h pred hit hnext hp hpc =>
    simp only at hpc; subst hpc
    refine ⟨{ pc := .wUnlock g h (storeAt (tick s) g p pred hit hnext).2 false, call := call }, ?_, ?_⟩
    · show (storeAt _ _ _ _ _ _).1.threads.set _ _ = _
      rw [storeAt_threads]; rfl
    · intro i hi; left; simp [holds] at hi ⊢; exact Or.inl hi
  | unlockFin p g h res hp hpc => exact ⟨{ pc := .idle, call := none }, rfl, fun i hi => by simp [holds] at hi⟩
  | casMoved j hp hpc hc => exact ⟨{ pc := .tNext, call := call }, rfl, fun i hi => by simp [holds] at hi⟩
  | build j h hp hpc =>
    simp only at hpc; subst hpc
    exact ⟨_, rfl, fun i hi => by left; simpa [holds] using hi⟩
  | storeLow j h lo hg hp hpc =>
    simp only at hpc; subst hpc
    exact ⟨{ pc := .tStoreHigh j h hg, call := call }, rfl, fun i hi => by left; simpa [holds] using hi⟩
  | storeHigh j h hg hp hpc =>
    simp only at hpc; subst hpc
    exact ⟨{ pc := .tStoreMoved j h, call := call }, rfl, fun i hi => by left; simpa [holds] using hi⟩
  | storeMoved j h hp hpc =>
    simp only at hpc; subst hpc
    exact ⟨{ pc := .tUnlock j h, call := call }, rfl, fun i hi => by left; simpa [holds] using hi⟩
  | commit hp hpc => exact ⟨{ pc := .idle, call := call }, rfl, fun i hi => by simp [holds] at hi⟩

end Flurry.Proto.BinNR
