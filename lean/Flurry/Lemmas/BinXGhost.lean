import Flurry.Lemmas.BinXInv
import Flurry.Lemmas.LinTrace
/-! # Proto/BinX: ghost history and the hindsight invariant of the readers (C01, C10)

As in `Lemmas/BinGhost.lean`, for a fixed key `k`: `A τ` = abstract state of `k` after global step
`τ`, `pt i` = linearization point of the call invoked at time `i`.

`Good cr A k inv s cur`: the hindsight justification of a lock-free reader (invoked at `inv`) holding
the pointer `cur`:
* `absent`: `cur = none` and at some time in `[inv, now]` the key was absent;
* `on`: `cur` is on the live chain of `k` and no node before it (in `ord`) has key `k`;
* `foreign`: (after the forwarding) `cur` is on the live chain of the *other* side — the reader came
  there through the old list — and at some time in `[inv, now]` the key was absent;
* `off`: `cur` is dead (on no chain, not a fresh copy): its fields are frozen; if it has key `k` its
  value was the abstract value at some time in `[inv, now]`, otherwise its successor is `Good` again.

`Good.step`: `Good` survives every `HeapStep`; `Good.moved`: it survives the store of the forwarding
marker (the nodes of the old list that were copied die, the re-used ones are on their new chain). -/
namespace Flurry.Proto.BinX
open Flurry.Lin

theorem isReader_eq_isRead (op : KOp) : isReader op = isRead op := by cases op <;> rfl

/-! ## the extended history -/

/-- the call of a writer that has stored and only has to unlock, counted as responding at `now` -/
def extOf (k now t : Nat) (l : Local) : Option Call :=
  match l.pc, l.call with
  | .wUnlock _ _ res false, some p => if p.key = k then some ⟨t, p.op, res, p.inv, now⟩ else none
  | _, _ => none

def extCalls (s : State) (k : Nat) : History :=
  (List.range s.threads.length).filterMap (fun t => (s.threads[t]?).bind (extOf k s.now t))

/-- the completed calls on key `k`, plus the calls of writers that have already performed their
store and only have to unlock (they are counted as responding "now") -/
def callsOnExt (s : State) (k : Nat) : History := callsOn s k ++ extCalls s k

theorem extOf_eq_some {k now t : Nat} {l : Local} {c : Call} :
    extOf k now t l = some c ↔ ∃ tab h res p, l.pc = .wUnlock tab h res false ∧ l.call = some p ∧ p.key = k ∧
      c = ⟨t, p.op, res, p.inv, now⟩ := by
  obtain ⟨pc, call⟩ := l
  unfold extOf
  constructor
  · intro h
    split at h
    · rename_i tab h0 res p hpc hcall
      simp only at hpc hcall
      split at h
      · cases h
        exact ⟨tab, h0, res, p, hpc, hcall, by assumption, rfl⟩
      · cases h
    · cases h
  · rintro ⟨tab, h, res, p, hpc, hcall, hk, rfl⟩
    simp only at hpc hcall
    subst hpc hcall
    simp [hk]

theorem extOf_none_of_pc {k now t : Nat} {l : Local} (h : ∀ tab h res, l.pc ≠ .wUnlock tab h res false) :
    extOf k now t l = none := by
  cases he : extOf k now t l with
  | none => rfl
  | some c =>
    obtain ⟨tab, h0, res, p, hpc, -⟩ := extOf_eq_some.1 he
    exact absurd hpc (h tab h0 res)

theorem mem_callsOn {s : State} {k : Nat} {c : Call} : c ∈ callsOn s k ↔ (k, c) ∈ s.hist := by
  unfold callsOn
  simp only [List.mem_map, List.mem_reverse, List.mem_filter, beq_iff_eq]
  constructor
  · rintro ⟨⟨k', c'⟩, ⟨hm, hk⟩, hc⟩
    simp only at hk hc
    subst hk hc
    exact hm
  · intro h
    exact ⟨(k, c), ⟨h, rfl⟩, rfl⟩

theorem mem_extCalls {s : State} {k : Nat} {c : Call} :
    c ∈ extCalls s k ↔ ∃ t l, s.threads[t]? = some l ∧ extOf k s.now t l = some c := by
  unfold extCalls
  simp only [List.mem_filterMap, List.mem_range, Option.bind_eq_some_iff]
  constructor
  · rintro ⟨t, _, l, hl, he⟩; exact ⟨t, l, hl, he⟩
  · rintro ⟨t, l, hl, he⟩
    exact ⟨t, (List.getElem?_eq_some_iff.1 hl).1, l, hl, he⟩

theorem mem_callsOnExt {s : State} {k : Nat} {c : Call} :
    c ∈ callsOnExt s k ↔ (k, c) ∈ s.hist ∨ ∃ t l, s.threads[t]? = some l ∧ extOf k s.now t l = some c := by
  unfold callsOnExt
  rw [List.mem_append, mem_callsOn, mem_extCalls]

theorem callsOnExt_quiescent {s : State} (hq : quiescent s) (k : Nat) : callsOnExt s k = callsOn s k := by
  have : extCalls s k = [] := by
    rw [List.eq_nil_iff_forall_not_mem]
    intro c hc
    obtain ⟨t, l, hl, he⟩ := mem_extCalls.1 hc
    obtain ⟨tab, h, res, p, hpc, -⟩ := extOf_eq_some.1 he
    rw [hq l (List.mem_of_getElem? hl)] at hpc
    cases hpc
  rw [callsOnExt, this, List.append_nil]

/-- `c'` is the call `c`, possibly with a later response -/
def Sim (c c' : Call) : Prop :=
  c'.tid = c.tid ∧ c'.op = c.op ∧ c'.res = c.res ∧ c'.inv = c.inv ∧ c.resp ≤ c'.resp

theorem Sim.refl (c : Call) : Sim c c := ⟨rfl, rfl, rfl, rfl, Nat.le_refl _⟩

theorem extOf_bump {k now now' t : Nat} {l : Local} {c' : Call} (hle : now ≤ now')
    (h : extOf k now' t l = some c') : ∃ c, extOf k now t l = some c ∧ Sim c c' := by
  obtain ⟨tab, h0, res, p, hpc, hcall, hk, rfl⟩ := extOf_eq_some.1 h
  exact ⟨⟨t, p.op, res, p.inv, now⟩, extOf_eq_some.2 ⟨tab, h0, res, p, hpc, hcall, hk, rfl⟩,
    rfl, rfl, rfl, rfl, hle⟩

theorem extOf_bump' {k now now' t : Nat} {l : Local} {c : Call} (hle : now ≤ now')
    (h : extOf k now t l = some c) : ∃ c', extOf k now' t l = some c' ∧ Sim c c' := by
  obtain ⟨tab, h0, res, p, hpc, hcall, hk, rfl⟩ := extOf_eq_some.1 h
  exact ⟨⟨t, p.op, res, p.inv, now'⟩, extOf_eq_some.2 ⟨tab, h0, res, p, hpc, hcall, hk, rfl⟩,
    rfl, rfl, rfl, rfl, hle⟩

/-- where the calls of the successor state come from -/
theorem ext_backward {s s' : State} {t : Nat} {l' : Local} {hnew : List (Nat × Call)} {k : Nat}
    (hthr : s'.threads = s.threads.set t l') (hnow : s'.now = s.now + 1)
    (hhist : s'.hist = hnew ++ s.hist) :
    ∀ c' ∈ callsOnExt s' k, (∃ c ∈ callsOnExt s k, Sim c c') ∨ (k, c') ∈ hnew ∨
      extOf k (s.now + 1) t l' = some c' := by
  intro c' hc'
  rcases mem_callsOnExt.1 hc' with hc' | ⟨t1, l1, hl1, he1⟩
  · rw [hhist] at hc'
    rcases List.mem_append.1 hc' with hc' | hc'
    · exact Or.inr (Or.inl hc')
    · exact Or.inl ⟨c', mem_callsOnExt.2 (Or.inl hc'), Sim.refl _⟩
  · rw [hthr] at hl1
    rw [hnow] at he1
    rcases get_set hl1 with ⟨rfl, rfl⟩ | ⟨_, hl1⟩
    · exact Or.inr (Or.inr he1)
    · obtain ⟨c, hc, hsim⟩ := extOf_bump (Nat.le_succ s.now) he1
      exact Or.inl ⟨c, mem_callsOnExt.2 (Or.inr ⟨t1, l1, hl1, hc⟩), hsim⟩

/-- where the calls of the predecessor state go -/
theorem ext_forward {s s' : State} {t : Nat} {l l' : Local} {hnew : List (Nat × Call)} {k : Nat}
    (hl : s.threads[t]? = some l)
    (hthr : s'.threads = s.threads.set t l') (hnow : s'.now = s.now + 1)
    (hhist : s'.hist = hnew ++ s.hist) :
    ∀ c ∈ callsOnExt s k, (∃ c' ∈ callsOnExt s' k, Sim c c') ∨ extOf k s.now t l = some c := by
  intro c hc
  rcases mem_callsOnExt.1 hc with hc | ⟨t1, l1, hl1, he1⟩
  · refine Or.inl ⟨c, mem_callsOnExt.2 (Or.inl ?_), Sim.refl _⟩
    rw [hhist]; exact List.mem_append_right _ hc
  · by_cases ht : t1 = t
    · subst ht
      rw [hl] at hl1; cases hl1
      exact Or.inr he1
    · obtain ⟨c', hc', hsim⟩ := extOf_bump' (Nat.le_succ s.now) he1
      refine Or.inl ⟨c', mem_callsOnExt.2 (Or.inr ⟨t1, l1, ?_, ?_⟩), hsim⟩
      · rw [hthr, get_set_ne ht]; exact hl1
      · rw [hnow]; exact hc'

theorem callsOnExt_resp_le {s : State} (T : TInv s) {k : Nat} {c : Call} (hc : c ∈ callsOnExt s k) :
    c.resp ≤ s.now := by
  rcases mem_callsOnExt.1 hc with hc | ⟨t1, l1, _, he1⟩
  · exact (T.histTime _ hc).2
  · obtain ⟨tab, h0, res, p, -, -, -, rfl⟩ := extOf_eq_some.1 he1
    exact Nat.le_refl _

/-- the pending call of a thread that is not counted in the extended history is different from
every call of the extended history -/
theorem inv_ne_of_mem_callsOnExt {s : State} (T : TInv s) {t : Nat} {l : Local} {p : Pending} {k : Nat}
    (hl : s.threads[t]? = some l) (hp : l.call = some p) (hnone : extOf k s.now t l = none)
    {c : Call} (hc : c ∈ callsOnExt s k) : c.inv ≠ p.inv := by
  rcases mem_callsOnExt.1 hc with hc | ⟨t1, l1, hl1, he1⟩
  · exact T.uniqHP _ hc t l p hl hp
  · obtain ⟨tab, h0, res, p1, hpc1, hcall1, -, rfl⟩ := extOf_eq_some.1 he1
    intro he
    have := T.uniqPP t1 t l1 l p1 p hl1 hl hcall1 hp he
    subst this
    rw [hl] at hl1; cases hl1
    rw [hnone] at he1; cases he1

theorem callsOnExt_pairwise {s : State} (T : TInv s) (k : Nat) :
    (callsOnExt s k).Pairwise (fun c d => c.inv ≠ d.inv) := by
  unfold callsOnExt
  refine List.pairwise_append.2 ⟨?_, ?_, ?_⟩
  · unfold callsOn
    rw [List.pairwise_map, List.pairwise_reverse]
    refine (T.uniqHH.filter _).imp ?_
    intro a b hab; exact fun h => hab h.symm
  · unfold extCalls
    refine List.Pairwise.filterMap _ ?_ (List.pairwise_lt_range)
    intro t1 t2 hlt c1 hc1 c2 hc2
    obtain ⟨l1, hl1, he1⟩ := Option.bind_eq_some_iff.1 hc1
    obtain ⟨l2, hl2, he2⟩ := Option.bind_eq_some_iff.1 hc2
    obtain ⟨_, _, _, p1, _, hcall1, _, rfl⟩ := extOf_eq_some.1 he1
    obtain ⟨_, _, _, p2, _, hcall2, _, rfl⟩ := extOf_eq_some.1 he2
    intro he
    have := T.uniqPP t1 t2 l1 l2 p1 p2 hl1 hl2 hcall1 hcall2 he
    omega
  · intro c hc d hd
    obtain ⟨t1, l1, hl1, he1⟩ := mem_extCalls.1 hd
    obtain ⟨_, _, _, p1, _, hcall1, _, rfl⟩ := extOf_eq_some.1 he1
    exact T.uniqHP _ (mem_callsOn.1 hc) t1 l1 p1 hl1 hcall1

/-! ## the live chain of a key -/

namespace HInv
variable {s : State} {g : Ghost}

theorem LC_isChain (H : HInv s g) (k : Nat) : IsChain s.heap (cellHead (liveCell s k)) (LC s k) := by
  rw [H.LC_eq, H.liveCell_eq]; exact H.isChain _

theorem LC_lt (H : HInv s g) {k i : Nat} (hi : i ∈ LC s k) : i < s.heap.length :=
  (H.LC_isChain k).lt_length i hi

theorem LC_keys (H : HInv s g) (k : Nat) : KeysDistinct s.heap (LC s k) := by
  rw [H.LC_eq]; exact H.keysId _

theorem absOf_none_iff (_H : HInv s g) {k : Nat} : absOf s k = none ↔ ∀ i ∈ LC s k, (nodeAt s.heap i).key ≠ k := by
  rw [absOf_eq]; exact absIn_eq_none_iff

theorem absOf_some_iff (H : HInv s g) {k : Nat} {v : Nat × Nat} :
    absOf s k = some v ↔ ∃ i ∈ LC s k, (nodeAt s.heap i).key = k ∧ (nodeAt s.heap i).val = v := by
  rw [absOf_eq]; exact absIn_eq_some_iff (H.LC_keys k)

/-- the side of the nodes on the live chain of `k` after the forwarding -/
theorem chB_side (H : HInv s g) {b : Bool} {i : Nat} (hi : i ∈ chB s b) : hiBit (nodeAt s.heap i).key = b := by
  unfold chB at hi
  cases b
  · exact H.sideL i hi
  · exact H.sideH i hi

end HInv

/-- a key of the given side -/
def keyOfSide (b : Bool) : Nat := if b then 1 else 0

theorem hiBit_keyOfSide (b : Bool) : hiBit (keyOfSide b) = b := by cases b <;> rfl

/-! ## the hindsight justification of a reader -/

inductive Good (cr : CR) (A : Nat → KSt) (k inv : Nat) (s : State) : Option Nat → Prop
  | absent {τ : Nat} : inv ≤ τ → τ ≤ s.now → A τ = none → Good cr A k inv s none
  | on {c : Nat} : c ∈ LC s k → (∀ i ∈ LC s k, ord cr i < ord cr c → (nodeAt s.heap i).key ≠ k) →
      Good cr A k inv s (some c)
  | foreign {c τ : Nat} : s.cell0 = .moved → c ∈ chB s (!hiBit k) → inv ≤ τ → τ ≤ s.now → A τ = none →
      Good cr A k inv s (some c)
  | off {c : Nat} : ¬ Live s cr c → c < s.heap.length →
      ((nodeAt s.heap c).key ≠ k → Good cr A k inv s (nodeAt s.heap c).next) →
      ((nodeAt s.heap c).key = k → ∃ τ, inv ≤ τ ∧ τ ≤ s.now ∧ A τ = some (nodeAt s.heap c).val) →
      Good cr A k inv s (some c)

/-- the successor of a chain node whose predecessors (and itself) do not have key `k` is `Good` -/
theorem Good.of_succ {A : Nat → KSt} {k inv : Nat} {s : State} {g : Ghost} (H : HInv s g)
    (hA : A s.now = absOf s k) (hinv : inv ≤ s.now) {c : Nat} (hc : c ∈ LC s k)
    (hbefore : ∀ i ∈ LC s k, ord g.cr i < ord g.cr c → (nodeAt s.heap i).key ≠ k)
    (hk : (nodeAt s.heap c).key ≠ k) : Good g.cr A k inv s (nodeAt s.heap c).next := by
  have hn := getElem?_nodeAt (H.LC_lt hc)
  have hle : ∀ i ∈ LC s k, ord g.cr i ≤ ord g.cr c → (nodeAt s.heap i).key ≠ k := by
    intro i hi hic
    rcases Int.lt_or_eq_of_le hic with hlt | heq
    · exact hbefore i hi hlt
    · rw [ord_inj heq]; exact hk
  cases hnx : (nodeAt s.heap c).next with
  | none =>
    have h1 := (H.LC_isChain k).succ_none H.nextOK hc hn hnx
    refine .absent hinv (Nat.le_refl _) ?_
    rw [hA, H.absOf_none_iff]
    intro i hi
    exact hle i hi (h1 i hi)
  | some b =>
    obtain ⟨hb, h1⟩ := (H.LC_isChain k).succ_some H.nextOK hc hn hnx
    refine .on hb ?_
    intro i hi hib
    exact hle i hi (h1 i hi hib)

/-- the pointer loaded from the (live) bin cell -/
theorem Good.cell {A : Nat → KSt} {k inv : Nat} {s : State} {g : Ghost} (H : HInv s g) {h : Nat}
    (hcell : liveCell s k = .node h) : Good g.cr A k inv s (some h) := by
  have hC := H.LC_isChain k
  rw [hcell] at hC
  cases hl : LC s k with
  | nil => rw [hl] at hC; cases hC
  | cons a l =>
    rw [hl] at hC
    obtain ⟨ha, -⟩ := IsSeg.cons_iff.1 hC
    cases ha
    refine .on (by rw [hl]; simp) ?_
    intro i hi hih
    have hs := hC.sorted H.nextOK
    rw [hl] at hi
    rcases List.mem_cons.1 hi with rfl | hi
    · omega
    · have := (List.pairwise_cons.1 hs).1 i hi
      omega

/-- the pointer loaded from the `next` cell of a node with another key -/
theorem Good.next {A : Nat → KSt} {k inv : Nat} {s : State} {g : Ghost} (H : HInv s g)
    (hA : A s.now = absOf s k) (hinv : inv ≤ s.now) {c : Nat} (hg : Good g.cr A k inv s (some c))
    (hk : (nodeAt s.heap c).key ≠ k) : Good g.cr A k inv s (nodeAt s.heap c).next := by
  cases hg with
  | on hc hbefore => exact Good.of_succ H hA hinv hc hbefore hk
  | @foreign _ τ hm hc h1 h2 h3 =>
    have hlc := LC_of_moved H hm (keyOfSide (!hiBit k))
    rw [hiBit_keyOfSide] at hlc
    rw [← hlc] at hc
    have hn := getElem?_nodeAt (H.LC_lt hc)
    cases hnx : (nodeAt s.heap c).next with
    | none => exact .absent h1 h2 h3
    | some b =>
      obtain ⟨hb, -⟩ := (H.LC_isChain _).succ_some H.nextOK hc hn hnx
      rw [hlc] at hb
      exact .foreign hm hb h1 h2 h3
  | off _ _ hnext _ => exact hnext hk

/-- a reader that finds key `k` in node `c` -/
theorem Good.hit {A : Nat → KSt} {k inv : Nat} {s : State} {g : Ghost} (H : HInv s g)
    (hA : A s.now = absOf s k) (hinv : inv ≤ s.now) {c : Nat} (hg : Good g.cr A k inv s (some c))
    (hk : (nodeAt s.heap c).key = k) :
    ∃ τ, inv ≤ τ ∧ τ ≤ s.now ∧ A τ = some (nodeAt s.heap c).val := by
  cases hg with
  | on hc _ =>
    exact ⟨s.now, hinv, Nat.le_refl _, by rw [hA]; exact H.absOf_some_iff.2 ⟨c, hc, hk, rfl⟩⟩
  | foreign hm hc _ _ _ =>
    exfalso
    have := H.chB_side hc
    rw [hk] at this
    cases hb : hiBit k <;> rw [hb] at this <;> cases this
  | off _ _ _ hval => exact hval hk

theorem Good.miss {cr : CR} {A : Nat → KSt} {k inv : Nat} {s : State} (hg : Good cr A k inv s none) :
    ∃ τ, inv ≤ τ ∧ τ ≤ s.now ∧ A τ = none := by
  cases hg with
  | absent h1 h2 h3 => exact ⟨_, h1, h2, h3⟩

/-- **hindsight**: the justification of a reader survives every transition that is a `HeapStep` -/
theorem Good.step {A A' : Nat → KSt} {k inv : Nat} {s s' : State} {g g' : Ghost} {cur : Option Nat}
    (hg : Good g.cr A k inv s cur) (H : HInv s g) (H' : HInv s' g') (hs : HeapStep s s' g.cr g'.cr)
    (hnow : s'.now = s.now + 1) (hA' : ∀ τ, τ ≤ s.now → A' τ = A τ) (hA : A s.now = absOf s k)
    (hinv : inv ≤ s.now) : Good g'.cr A' k inv s' cur := by
  -- a chain node that stays on the chain stays justified
  have hon : ∀ (k' : Nat) (c : Nat), c ∈ LC s k' → c ∈ LC s' k' →
      (∀ i ∈ LC s k', ord g.cr i < ord g.cr c → (nodeAt s.heap i).key ≠ k) →
      ∀ i ∈ LC s' k', ord g'.cr i < ord g'.cr c → (nodeAt s'.heap i).key ≠ k := by
    intro k' c hc hc' hbefore i hi hic
    have hcl := H.LC_lt hc
    rcases hs.lc k' i hi with hi0 | ⟨hi0, hncp⟩
    · have hil := H.LC_lt hi0
      rw [hs.key i hil]
      rw [hs.ordS i hil, hs.ordS c hcl] at hic
      exact hbefore i hi0 hic
    · exfalso
      rw [ord_not_copy hncp, hs.ordS c hcl] at hic
      have := ord_le_self g.cr c
      omega
  induction hg with
  | absent h1 h2 h3 => exact .absent h1 (by omega) (by rw [hA' _ h2]; exact h3)
  | @on c hc hbefore =>
    have hcl := H.LC_lt hc
    by_cases hc' : c ∈ LC s' k
    · exact .on hc' (hon k c hc hc' hbefore)
    · obtain ⟨hval, hnext, hdead, hrest⟩ := hs.unl k c hc hc'
      have hkey := hs.key c hcl
      refine .off hdead (by have := hs.len; omega) ?_ ?_
      · intro hk
        rw [hkey] at hk
        rw [hnext]
        have hn := getElem?_nodeAt hcl
        have hle : ∀ i ∈ LC s k, ord g.cr i ≤ ord g.cr c → (nodeAt s.heap i).key ≠ k := by
          intro i hi hic
          rcases Int.lt_or_eq_of_le hic with hlt | heq
          · exact hbefore i hi hlt
          · rw [ord_inj heq]; exact hk
        cases hnx : (nodeAt s.heap c).next with
        | none =>
          have h1 := (H.LC_isChain k).succ_none H.nextOK hc hn hnx
          refine .absent (τ := s.now) hinv (by omega) ?_
          rw [hA' _ (Nat.le_refl _), hA, H.absOf_none_iff]
          intro i hi
          exact hle i hi (h1 i hi)
        | some b =>
          obtain ⟨hb, h1⟩ := (H.LC_isChain k).succ_some H.nextOK hc hn hnx
          have hcb := (H.nextOK c _ b hn hnx).1
          have hbc : b ≠ c := by intro h; rw [h] at hcb; omega
          have hb' : b ∈ LC s' k := hrest b hb hbc
          refine .on hb' (hon k b hb hb' ?_)
          intro i hi hib
          exact hle i hi (h1 i hi hib)
      · intro hk
        rw [hkey] at hk
        refine ⟨s.now, hinv, by omega, ?_⟩
        rw [hA' _ (Nat.le_refl _), hA, hval]
        exact H.absOf_some_iff.2 ⟨c, hc, hk, rfl⟩
  | @foreign c τ hm hc h1 h2 h3 =>
    have hm' := hs.movedMono hm
    have hlc := LC_of_moved H hm (keyOfSide (!hiBit k))
    have hlc' := LC_of_moved H' hm' (keyOfSide (!hiBit k))
    rw [hiBit_keyOfSide] at hlc hlc'
    have h3' : A' τ = none := by rw [hA' _ h2]; exact h3
    rw [← hlc] at hc
    have hcl := H.LC_lt hc
    by_cases hc' : c ∈ LC s' (keyOfSide (!hiBit k))
    · rw [hlc'] at hc'
      exact .foreign hm' hc' h1 (by omega) h3'
    · obtain ⟨hval, hnext, hdead, hrest⟩ := hs.unl _ c hc hc'
      have hkey := hs.key c hcl
      have hside : (nodeAt s.heap c).key ≠ k := by
        intro hk
        have := H.chB_side (hlc ▸ hc)
        rw [hk] at this
        cases hb : hiBit k <;> rw [hb] at this <;> cases this
      refine .off hdead (by have := hs.len; omega) ?_ (fun hk => absurd (hkey ▸ hk) hside)
      intro _
      rw [hnext]
      have hn := getElem?_nodeAt hcl
      cases hnx : (nodeAt s.heap c).next with
      | none => exact .absent h1 (by omega) h3'
      | some b =>
        obtain ⟨hb, -⟩ := (H.LC_isChain _).succ_some H.nextOK hc hn hnx
        have hcb := (H.nextOK c _ b hn hnx).1
        have hbc : b ≠ c := by intro h; rw [h] at hcb; omega
        have hb' := hrest b hb hbc
        rw [hlc'] at hb'
        exact .foreign hm' hb' h1 (by omega) h3'
  | @off c hc hcl _ hval ih =>
    obtain ⟨hv, hn, hdead⟩ := hs.off c hcl hc
    have hkey := hs.key c hcl
    refine .off hdead (by have := hs.len; omega) ?_ ?_
    · intro hk
      rw [hkey] at hk
      rw [hn]
      exact ih hk
    · intro hk
      rw [hkey] at hk
      obtain ⟨τ, h1, h2, h3⟩ := hval hk
      exact ⟨τ, h1, by omega, by rw [hA' _ h2, hv]; exact h3⟩

/-- **hindsight across the forwarding**: the justification of a reader survives the store of the
forwarding marker. A reader on the old list is afterwards on a dead (copied) node — whose key, if it
is `k`, carries the abstract value of this very moment —, or on a re-used node of its own side (live,
nothing with key `k` before it: the copies in front of it are copies of old predecessors), or on a
re-used node of the other side (then the key is absent at this moment). -/
theorem Good.moved {A A' : Nat → KSt} {k inv : Nat} {s s' : State} {g : Ghost} {lo hg : Option Nat}
    {cur : Option Nat} (hgood : Good g.cr A k inv s cur) (H : HInv s g) (hp : g.ph = .mid lo hg)
    (hlow : s.lowCell = cellOfHead lo) (hhigh : s.highCell = cellOfHead hg)
    (hh : s'.heap = s.heap) (h0 : s'.cell0 = .moved) (hL : s'.lowCell = s.lowCell) (hH : s'.highCell = s.highCell)
    (hc : s'.cur = s.cur)
    (hnow : s'.now = s.now + 1) (hA' : ∀ τ, τ ≤ s.now → A' τ = A τ) (hA : A s.now = absOf s k)
    (hinv : inv ≤ s.now) : Good g.cr A' k inv s' cur := by
  obtain ⟨H', -⟩ := moved_effect H hp hlow hhigh hh h0 hL hH hc
  obtain ⟨hlt, sL, sH⟩ := mid_chains H hp hlow hhigh
  obtain ⟨⟨h, hc0⟩, -⟩ := H.mid lo hg hp
  have hnm : s.cell0 ≠ .moved := by rw [hc0]; simp
  have sX : ∀ b, SideOK s.heap g.cr (chO s) b (chB s b) := by
    intro b; cases b
    · exact sL
    · exact sH
  have eB : ∀ b, chB s' b = chB s b := by
    intro b; unfold chB chL chH; rw [hh, hL, hH]
  have hlcs : LC s k = chO s := LC_of_not_moved H hnm k
  have hlcs' : LC s' k = chB s (hiBit k) := by
    have := LC_of_moved H' h0 k
    rw [this, eB]
  have hordO : ∀ i ∈ chO s, ord g.cr i = (i : Int) := fun i hi => ord_not_copy (H.oNotCopy i hi)
  have hlive' : ∀ c, Live s' g.cr c → c ∈ chL s ∨ c ∈ chH s := by
    intro c hl
    unfold Live at hl
    have e0 : chO s' = [] := by unfold chO; rw [h0]; exact chainH_moved _
    have eL : chL s' = chL s := eB false
    have eH : chH s' = chH s := eB true
    rw [e0, eL, eH] at hl
    rcases hl with hl | hl | hl | ⟨hl, _⟩
    · cases hl
    · exact Or.inl hl
    · exact Or.inr hl
    · exact absurd h0 hl
  have hAnow : A' s.now = absOf s k := by rw [hA' _ (Nat.le_refl _)]; exact hA
  -- nodes of the old chain
  have onO : ∀ (n c : Nat), s.heap.length - c ≤ n → c ∈ chO s →
      (∀ i ∈ chO s, i < c → (nodeAt s.heap i).key ≠ k) → Good g.cr A' k inv s' (some c) := by
    intro n
    induction n with
    | zero =>
      intro c hn hcO _
      have := H.chain_lt (id := .c0) hcO
      omega
    | succ n ih =>
      intro c hn hcO hbefore
      have hcl := H.chain_lt (id := .c0) hcO
      by_cases h1 : c ∈ chB s (hiBit k)
      · refine .on (by rw [hlcs']; exact h1) ?_
        intro j hj hjc
        rw [hlcs'] at hj
        rw [hh]
        rw [hordO c hcO] at hjc
        rcases (sX _).mem j hj with hjO | hjcp
        · rw [hordO j hjO] at hjc
          exact hbefore j hjO (by omega)
        · obtain ⟨i, hi, hik, -, hir⟩ := (sX _).src j hj hjcp
          rw [← hik]
          exact hbefore i hi (hir c hcO h1)
      · by_cases h2 : c ∈ chB s (!hiBit k)
        · refine .foreign (τ := s.now) h0 (by rw [eB]; exact h2) hinv (by omega) ?_
          rw [hAnow, H.absOf_none_iff, hlcs]
          intro i hi hik
          rcases Nat.lt_trichotomy i c with hlt' | heq | hgt
          · exact hbefore i hi hlt' hik
          · subst heq
            have := (sX _).side i h2
            rw [hik] at this
            cases hb : hiBit k <;> rw [hb] at this <;> cases this
          · have h3 := (sX _).suffix c hcO h2 i hi hgt
            have := (sX _).side i h3
            rw [hik] at this
            cases hb : hiBit k <;> rw [hb] at this <;> cases this
        · have hdead : ¬ Live s' g.cr c := by
            intro hl
            rcases hlive' c hl with hl | hl
            · cases hb : hiBit k
              · rw [hb] at h1; exact h1 hl
              · rw [hb] at h2; exact h2 hl
            · cases hb : hiBit k
              · rw [hb] at h2; exact h2 hl
              · rw [hb] at h1; exact h1 hl
          have hn' := getElem?_nodeAt hcl
          have hcLC : c ∈ LC s k := by rw [hlcs]; exact hcO
          refine .off hdead (by rw [hh]; exact hcl) ?_ ?_
          · intro hk
            rw [hh] at hk ⊢
            have hle : ∀ i ∈ chO s, i ≤ c → (nodeAt s.heap i).key ≠ k := by
              intro i hi hic
              rcases Nat.lt_or_eq_of_le hic with hlt' | heq
              · exact hbefore i hi hlt'
              · rw [heq]; exact hk
            cases hnx : (nodeAt s.heap c).next with
            | none =>
              have h3 := (H.LC_isChain k).succ_none H.nextOK hcLC hn' hnx
              refine .absent (τ := s.now) hinv (by omega) ?_
              rw [hAnow, H.absOf_none_iff]
              intro i hi
              have h4 := h3 i hi
              rw [hlcs] at hi
              rw [hordO i hi, hordO c hcO] at h4
              exact hle i hi (by omega)
            | some d =>
              obtain ⟨hd, h3⟩ := (H.LC_isChain k).succ_some H.nextOK hcLC hn' hnx
              rw [hlcs] at hd
              have hcd := (H.nextOK c _ d hn' hnx).1
              rw [hordO c hcO, hordO d hd] at hcd
              refine ih d (by omega) hd ?_
              intro i hi hid
              have h4 := h3 i (by rw [hlcs]; exact hi) (by rw [hordO i hi, hordO d hd]; omega)
              rw [hordO i hi, hordO c hcO] at h4
              exact hle i hi (by omega)
          · intro hk
            rw [hh] at hk ⊢
            refine ⟨s.now, hinv, by omega, ?_⟩
            rw [hAnow]
            exact H.absOf_some_iff.2 ⟨c, hcLC, hk, rfl⟩
  induction hgood with
  | absent h1 h2 h3 => exact .absent h1 (by omega) (by rw [hA' _ h2]; exact h3)
  | @on c hcm hbefore =>
    rw [hlcs] at hcm hbefore
    refine onO (s.heap.length - c) c (Nat.le_refl _) hcm ?_
    intro i hi hic
    exact hbefore i hi (by rw [hordO i hi, hordO c hcm]; omega)
  | foreign hm _ _ _ _ => exact absurd hm hnm
  | @off c hcl hclt _ hval ih =>
    have hdead : ¬ Live s' g.cr c := by
      intro hl
      apply hcl
      rcases hlive' c hl with hl | hl
      · exact Or.inr (Or.inl hl)
      · exact Or.inr (Or.inr (Or.inl hl))
    refine .off hdead (by rw [hh]; exact hclt) ?_ ?_
    · intro hk
      rw [hh] at hk ⊢
      exact ih hk
    · intro hk
      rw [hh] at hk ⊢
      obtain ⟨τ, h1, h2, h3⟩ := hval hk
      exact ⟨τ, h1, by omega, by rw [hA' _ h2]; exact h3⟩

/-- the chain of `!hiBit k`'s side after the forwarding, as the chain of a cell -/
theorem chB_eq_chId (s : State) (b : Bool) : chB s b = chId s (if b then .high else .low) := by
  cases b <;> rfl

/-- **hindsight across a `clear`**: the justification of a reader survives the store that empties the
(active) cell `id`: all nodes of its chain die at once, with the values and successors they have now. -/
theorem Good.cleared {A A' : Nat → KSt} {k inv : Nat} {s s' : State} {g : Ghost} {id : CellId}
    {cur : Option Nat} (hgood : Good g.cr A k inv s cur) (H : HInv s g) (act : Active g id)
    (u : Update s s' g id []) (hh : s'.heap = s.heap)
    (hnow : s'.now = s.now + 1) (hA' : ∀ τ, τ ≤ s.now → A' τ = A τ) (hA : A s.now = absOf s k)
    (hinv : inv ≤ s.now) : Good g.cr A' k inv s' cur := by
  have H' := hinv_update H act u
  obtain ⟨hC, hO⟩ := u.chains H act
  have hmv := u.cell0_moved_iff H act
  have hAnow : A' s.now = absOf s k := by rw [hA' _ (Nat.le_refl _)]; exact hA
  have hlive : ∀ j, Live s' g.cr j → Live s g.cr j ∧ j ∉ chId s id := by
    intro j hl
    rw [live_iff] at hl
    rcases hl with ⟨id', hm⟩ | ⟨hm, hcp⟩
    · by_cases hid : id' = id
      · subst hid; rw [hC] at hm; cases hm
      · rw [hO id' hid] at hm
        exact ⟨(live_iff s g.cr j).2 (Or.inl ⟨id', hm⟩), fun hj => H.disjoint act hid hj hm⟩
    · have hm0 : s.cell0 ≠ .moved := fun h => hm (hmv.2 h)
      refine ⟨(live_iff s g.cr j).2 (Or.inr ⟨hm0, hcp⟩), ?_⟩
      intro hj
      have hp : g.ph = .pre := by
        rcases act with ⟨_, hp⟩ | ⟨_, hp⟩
        · exact hp
        · exact absurd (H.post hp) hm0
      have hid : id = .c0 := act.pre_iff.1 hp
      subst hid
      exact H.oNotCopy j hj hcp
  have hchain := H.isChain id
  have hlt : ∀ c ∈ chId s id, c < s.heap.length := fun c hc => H.chain_lt hc
  -- nodes of the cleared chain that were on the live chain of `k`
  have onC : liveId s k = id → ∀ (n c : Nat), ((s.heap.length : Int) - ord g.cr c).toNat ≤ n → c ∈ chId s id →
      (∀ i ∈ chId s id, ord g.cr i < ord g.cr c → (nodeAt s.heap i).key ≠ k) →
      Good g.cr A' k inv s' (some c) := by
    intro hlid n
    have hlc : LC s k = chId s id := by rw [H.LC_eq, hlid]
    induction n with
    | zero =>
      intro c hn hc _
      have := hlt c hc
      have := ord_le_self g.cr c
      omega
    | succ n ih =>
      intro c hn hc hbefore
      have hcl := hlt c hc
      have hn' := getElem?_nodeAt hcl
      refine .off (fun hl => (hlive c hl).2 hc) (by rw [hh]; exact hcl) ?_ ?_
      · intro hk
        rw [hh] at hk ⊢
        have hle : ∀ i ∈ chId s id, ord g.cr i ≤ ord g.cr c → (nodeAt s.heap i).key ≠ k := by
          intro i hi hic
          rcases Int.lt_or_eq_of_le hic with hlt' | heq
          · exact hbefore i hi hlt'
          · rw [ord_inj heq]; exact hk
        cases hnx : (nodeAt s.heap c).next with
        | none =>
          have h3 := hchain.succ_none H.nextOK hc hn' hnx
          refine .absent (τ := s.now) hinv (by omega) ?_
          rw [hAnow, H.absOf_none_iff, hlc]
          intro i hi
          exact hle i hi (h3 i hi)
        | some d =>
          obtain ⟨hd, h3⟩ := hchain.succ_some H.nextOK hc hn' hnx
          have hcd := (H.nextOK c _ d hn' hnx).1
          refine ih d (by omega) hd ?_
          intro i hi hid
          exact hle i hi (h3 i hi hid)
      · intro hk
        rw [hh] at hk ⊢
        refine ⟨s.now, hinv, by omega, ?_⟩
        rw [hAnow]
        exact H.absOf_some_iff.2 ⟨c, by rw [hlc]; exact hc, hk, rfl⟩
  -- nodes of the cleared chain that a reader of the other side stands on
  have forC : ∀ {τ : Nat}, chB s (!hiBit k) = chId s id → inv ≤ τ → τ ≤ s.now → A τ = none →
      ∀ (n c : Nat), ((s.heap.length : Int) - ord g.cr c).toNat ≤ n → c ∈ chId s id →
      Good g.cr A' k inv s' (some c) := by
    intro τ hB h1 h2 h3 n
    induction n with
    | zero =>
      intro c hn hc
      have := hlt c hc
      have := ord_le_self g.cr c
      omega
    | succ n ih =>
      intro c hn hc
      have hcl := hlt c hc
      have hn' := getElem?_nodeAt hcl
      have hside : (nodeAt s.heap c).key ≠ k := by
        intro hk
        have := H.chB_side (hB ▸ hc)
        rw [hk] at this
        cases hb : hiBit k <;> rw [hb] at this <;> cases this
      refine .off (fun hl => (hlive c hl).2 hc) (by rw [hh]; exact hcl) ?_
        (fun hk => absurd (by rw [hh] at hk; exact hk) hside)
      intro _
      rw [hh]
      cases hnx : (nodeAt s.heap c).next with
      | none => exact .absent h1 (by omega) (by rw [hA' _ h2]; exact h3)
      | some d =>
        obtain ⟨hd, -⟩ := hchain.succ_some H.nextOK hc hn' hnx
        have hcd := (H.nextOK c _ d hn' hnx).1
        exact ih d (by omega) hd
  induction hgood with
  | absent h1 h2 h3 => exact .absent h1 (by omega) (by rw [hA' _ h2]; exact h3)
  | @on c hcm hbefore =>
    by_cases hlid : liveId s k = id
    · have hlc : LC s k = chId s id := by rw [H.LC_eq, hlid]
      rw [hlc] at hcm hbefore
      exact onC hlid _ c (Nat.le_refl _) hcm hbefore
    · have hlc' : LC s' k = LC s k := by rw [u.LC_eq H act, if_neg hlid]
      refine .on (by rw [hlc']; exact hcm) ?_
      intro i hi hic
      rw [hlc'] at hi
      rw [hh]
      exact hbefore i hi hic
  | @foreign c τ hm hcm h1 h2 h3 =>
    by_cases hB : chB s (!hiBit k) = chId s id
    · rw [hB] at hcm
      exact forC hB h1 h2 h3 _ c (Nat.le_refl _) hcm
    · have hne : (if (!hiBit k) then CellId.high else CellId.low) ≠ id := by
        intro he; apply hB; rw [chB_eq_chId, he]
      have hB' : chB s' (!hiBit k) = chB s (!hiBit k) := by
        rw [chB_eq_chId, chB_eq_chId]; exact hO _ hne
      exact .foreign (hmv.2 hm) (by rw [hB']; exact hcm) h1 (by omega) (by rw [hA' _ h2]; exact h3)
  | @off c hcl hclt _ hval ih =>
    refine .off (fun hl => hcl (hlive c hl).1) (by rw [hh]; exact hclt) ?_ ?_
    · intro hk
      rw [hh] at hk ⊢
      exact ih hk
    · intro hk
      rw [hh] at hk ⊢
      obtain ⟨τ, h1, h2, h3⟩ := hval hk
      exact ⟨τ, h1, by omega, by rw [hA' _ h2]; exact h3⟩

end Flurry.Proto.BinX
