import Flurry.Lemmas.BinGInv
import Flurry.Lemmas.BinKGhost
/-! # Proto/BinG: ghost history and the hindsight invariants of the readers — definitions

For a fixed key `k` the ghost state is `A : Nat → KSt` (`A τ` = `absOf` of `k` after global step `τ`) and
`pt : Nat → Nat` (`pt i` = linearization point of the call invoked at `i`), as in
`Lemmas/BinKGhost.lean` (whose generic parts — `AbsWit`, `OnCond`, `Live`, `onCond_succ`,
`absWit_now`, `ValWit`, `Sim`, `CallOK`, `nextA` — are re-used).

* `callsOnExt`: the completed calls plus the calls of writers that are past their linearization point.
* `Good A k inv s cur`: the hindsight justification of a thread walking a list with the pointer `cur`:
  `absent` (the key was absent at some time of the call), `on` (a node of the live chain of `k`, no node
  in front of it has key `k`), `foreign` (after the forwarding: a node of the live chain of the *other*
  side, reached through the old list or a re-used `TreeBin`; the key was absent at some time of the
  call), `off` (a dead node: on no chain of a cell or of an unpublished structure; frozen).
* `KStep s s' k`: what a transition does to the heap as far as a list walker looking for `k` is
  concerned (generalises `HeapStep` of `Lemmas/BinKBasic.lean`: a node that leaves the live chain of
  `k` dies — or, at the forwarding, becomes foreign; nodes in front of a node that stays are old
  predecessors, copies of old predecessors, or carry a key that was absent).
* `TreeOK`: the justification of a lock-protocol reader of `TreeBin` `b`: `b` is in the live cell of
  `k`, or `b` is dead with its write lock held for ever (untreeified), or the tree content of `b` for `k`
  was the abstract state at some time of the call (a transferred bin, a re-used bin of the other side).
* `RdOK`, `GInv`. -/
namespace Flurry.Proto.BinG
open Flurry.Lin
open Flurry.Proto.BinK (nodeAt binAt NextOK IsChain IsSeg chainOf CInv absL AbsWit OnCond ValWit Sim CallOK nextA)

theorem isReader_eq_isRead (op : KOp) : isReader op = isRead op := by cases op <;> rfl

/-! ## the extended history -/

/-- the result of a writer that is past its linearization point -/
def resOfPc : Pc → Option KRes
  | .wUnlock _ _ res false => some res
  | .tUnlockM _ _ res false => some res
  | .tTreeLinkLocked _ _ _ => some .none
  | .tRestructure _ _ _ res => some res
  | .tUnlockRoot _ _ res => some res
  | .tUntreeify _ _ res => some res
  | _ => none

/-- the call of a writer that is past its linearization point, counted as responding at `now` -/
def extOf (k now t : Nat) (l : Local) : Option Call :=
  match resOfPc l.pc, l.call with
  | some res, some p => if p.key = k then some ⟨t, p.op, res, p.inv, now⟩ else none
  | _, _ => none

def extCalls (s : State) (k : Nat) : History :=
  (List.range s.threads.length).filterMap (fun t => (s.threads[t]?).bind (extOf k s.now t))

/-- the completed calls on key `k`, plus the calls of writers past their linearization point -/
def callsOnExt (s : State) (k : Nat) : History := callsOn s k ++ extCalls s k

/-! ## the hindsight justification of a list walker -/

/-- the new cell of the other side -/
def otherId (k : Nat) : Cid := if hiBit k then .lo else .hi

/-- after the forwarding: a node on the live chain of the side `k` does not belong to -/
def Foreign (s : State) (k : Nat) (j : Nat) : Prop :=
  s.cell0 = .moved ∧ j ∈ chainC s (cellAt s (otherId k))

inductive Good (A : Nat → KSt) (k inv : Nat) (s : State) : Option Nat → Prop
  | absent : AbsWit A inv s.now → Good A k inv s none
  | on {c : Nat} : c ∈ LC s k → OnCond A k inv s.now s.heap (LC s k) c → Good A k inv s (some c)
  | foreign {c : Nat} : Foreign s k c → AbsWit A inv s.now → Good A k inv s (some c)
  | off {c : Nat} : ¬ Used s c → c < s.heap.length →
      ((nodeAt s.heap c).key ≠ k → Good A k inv s (nodeAt s.heap c).next) →
      ((nodeAt s.heap c).key = k → ∃ τ, inv ≤ τ ∧ τ ≤ s.now ∧ A τ = some (nodeAt s.heap c).val) →
      Good A k inv s (some c)

/-- what a transition does to the heap, seen from a list walker looking for `k` -/
structure KStep (s s' : State) (k : Nat) : Prop where
  len : s.heap.length ≤ s'.heap.length
  key : ∀ j, j < s.heap.length → (nodeAt s'.heap j).key = (nodeAt s.heap j).key
  /-- dead nodes are frozen -/
  frozen : ∀ j, j < s.heap.length → ¬ Used s j →
    (nodeAt s'.heap j).val = (nodeAt s.heap j).val ∧ (nodeAt s'.heap j).next = (nodeAt s.heap j).next
  /-- dead nodes stay dead -/
  stable : ∀ j, j < s.heap.length → Used s' j → Used s j
  /-- a node that leaves the live chain of `k` keeps value and `next` in this step, and dies — or (at
  the forwarding) becomes foreign, and then no node from it on has key `k` -/
  leave : ∀ c ∈ LC s k, c ∉ LC s' k →
    (nodeAt s'.heap c).val = (nodeAt s.heap c).val ∧ (nodeAt s'.heap c).next = (nodeAt s.heap c).next ∧
    (¬ Used s' c ∨ (Foreign s' k c ∧ ∀ j ∈ LC s k, ¬ List.Sublist [j, c] (LC s k) → (nodeAt s.heap j).key ≠ k))
  /-- a node in front of a node that stays is an old predecessor, has the key of one, or has a key that
  is not on the old chain -/
  before : ∀ c ∈ LC s k, c ∈ LC s' k → ∀ i, List.Sublist [i, c] (LC s' k) →
    (∃ i0, List.Sublist [i0, c] (LC s k) ∧ (nodeAt s.heap i0).key = (nodeAt s'.heap i).key) ∨
    (∀ i0 ∈ LC s k, (nodeAt s.heap i0).key ≠ (nodeAt s'.heap i).key)
  /-- the value of a node with key `k` is stored only while it is (and stays) live for `k` -/
  valchg : ∀ j, j < s.heap.length → (nodeAt s'.heap j).val ≠ (nodeAt s.heap j).val →
    (nodeAt s.heap j).key = k → j ∈ LC s' k
  /-- a foreign node stays foreign or dies, keeping its `next` -/
  foreign : ∀ c, Foreign s k c → Foreign s' k c ∨
    (¬ Used s' c ∧ (nodeAt s'.heap c).next = (nodeAt s.heap c).next)

/-! ## lock-protocol readers -/

/-- `b` is in some cell -/
def InCell (s : State) (b : Nat) : Prop := ∃ id, cellAt s id = .tree b

/-- the tree of `TreeBin` `b` justifies a lookup of `k` invoked at `inv` -/
def TreeOK (A : Nat → KSt) (k inv : Nat) (s : State) (b : Nat) : Prop :=
  cellAt s (liveId s k) = .tree b ∨
  (¬ InCell s b ∧ (binAt s.tbins b).writer = true) ∨
  ∃ τ, inv ≤ τ ∧ τ ≤ s.now ∧ A τ = absTree s b k

/-! ## what the program counter of a reader knows -/

def RdOK (A : Nat → KSt) (k inv : Nat) (s : State) : Pc → Prop
  | .rNode cur => Good A k inv s cur
  | .rFirst b => Good A k inv s (binAt s.tbins b).first ∧ TreeOK A k inv s b
  | .lFirst b => Good A k inv s (binAt s.tbins b).first
  | .rState b cur => Good A k inv s cur ∧ TreeOK A k inv s b
  | .rLin b c => Good A k inv s (some c) ∧ TreeOK A k inv s b
  | .rCas b c _ => Good A k inv s (some c) ∧ TreeOK A k inv s b
  | .rTree b => TreeOK A k inv s b
  | .rRelease _ none => AbsWit A inv s.now
  | .rRelease _ (some i) => ValWit A k inv s.now s.heap i
  | .rVal i => ValWit A k inv s.now s.heap i
  | .lNode cur => Good A k inv s cur
  | _ => True

/-! ## the ghost invariant -/

structure GInv (k : Nat) (s : State) (A : Nat → KSt) (pt : Nat → Nat) : Prop where
  h0 : A 0 = none
  hA : A s.now = absOf s k
  calls : ∀ c ∈ callsOnExt s k, CallOK A pt c
  stab : ∀ τ, 1 ≤ τ → τ ≤ s.now → A τ ≠ A (τ - 1) →
    ∃ c ∈ callsOnExt s k, isRead c.op = false ∧ pt c.inv = τ
  inj : ∀ c ∈ callsOnExt s k, ∀ d ∈ callsOnExt s k, isRead c.op = false → isRead d.op = false →
    pt c.inv = pt d.inv → c.inv = d.inv
  readers : ∀ (t : Nat) (l : Local) (p : Pending), s.threads[t]? = some l →
    l.call = some p → p.key = k → RdOK A k p.inv s l.pc

end Flurry.Proto.BinG
