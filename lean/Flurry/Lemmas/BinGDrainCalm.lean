import Flurry.Lemmas.BinGDrainDefs
/-! # Proto/BinG, termination: calm steps

A *calm* step — a load, a lock / unlock of a node or of a bin mutex, a local move, a return without a
store — leaves the `View` of the shared state alone (`viewOf s' = viewOf s`, heap length unchanged) and
strictly decreases the calm-step measure `pmV` of the thread that takes it, without increasing the
number of disturbing steps it has ahead (`daV`) nor making it a heap-grower again (`grow`). -/
namespace Flurry.Proto.BinG
open Flurry.Lin
open Flurry.Proto.BinK (nodeAt binAt lockSet isInsert NextOK nodeAt_of_some nodeAt_modify binAt_modify)

/-- arithmetic on the constant tables `grow`, `daPc` -/
local macro "tbl" : tactic =>
  `(tactic| first | exact Nat.le_refl _ | exact Nat.zero_le _ | (simp only [daV, daPc, grow] <;> omega))

theorem lockSet_next (heap : List NodeS) (h : Nat) (x : Option Nat) (i : Nat) :
    (nodeAt (lockSet heap h x) i).next = (nodeAt heap i).next := by
  unfold lockSet
  rw [nodeAt_modify]
  split <;> rfl

theorem lockSet_length (heap : List NodeS) (h : Nat) (x : Option Nat) : (lockSet heap h x).length = heap.length := by
  unfold lockSet; rw [List.length_modify]

/-- a transition that changes at most one lock word of a node leaves the view alone -/
theorem view_of_lockKind {s s' : State} {t : Nat} {pc pc' : Pc} {hp : List NodeS} (hk : LockKind s t pc pc' hp)
    (hh : s'.heap = hp) (ht : s'.tbins = s.tbins) (h0 : s'.cell0 = s.cell0) (h1 : s'.lowCell = s.lowCell)
    (h2 : s'.highCell = s.highCell) : viewOf s' = viewOf s ∧ s'.heap.length = s.heap.length := by
  have : hp.length = s.heap.length ∧ ∀ i, (nodeAt hp i).next = (nodeAt s.heap i).next := by
    rcases hk with ⟨rfl, _⟩ | ⟨h, rfl, _⟩ | ⟨h, rfl, _⟩
    · exact ⟨rfl, fun _ => rfl⟩
    · exact ⟨lockSet_length _ _ _, lockSet_next _ _ _⟩
    · exact ⟨lockSet_length _ _ _, lockSet_next _ _ _⟩
  refine ⟨viewOf_eq h0 h1 h2 (fun i => by rw [hh]; exact this.2 i) (fun b => by rw [ht]) (fun b => by rw [ht])
    (fun b => by rw [ht]), by rw [hh]; exact this.1⟩

/-- a transition that changes only the mutex of one `TreeBin` leaves the view alone -/
theorem view_of_mutex {s s' : State} {b : Nat} {x : Option Nat} (hh : s'.heap = s.heap)
    (ht : s'.tbins = s.tbins.modify b (fun y => { y with mutex := x })) (h0 : s'.cell0 = s.cell0)
    (h1 : s'.lowCell = s.lowCell) (h2 : s'.highCell = s.highCell) :
    viewOf s' = viewOf s ∧ s'.heap.length = s.heap.length := by
  refine ⟨viewOf_eq h0 h1 h2 (fun i => by rw [hh]) ?_ ?_ ?_, by rw [hh]⟩ <;>
    (intro c; rw [ht, binAt_modify]; split <;> rfl)

/-- the calm moves of a thread with a call -/
theorem Move.calm {s : State} {t : Nat} {p : Pending} {pc pc' : Pc} {hp : List NodeS}
    (hm : Move s t p pc pc' hp) (H : HInv s) {L : Nat} (hL : s.heap.length ≤ L)
    (hcas : ∀ b c r, pc = .rCas b c r → casOk s b r = false) :
    pc' ≠ .idle ∧ grow pc' ≤ grow pc ∧ daV (viewOf s) ⟨pc', some p⟩ ≤ daV (viewOf s) ⟨pc, some p⟩ ∧
      pmV L (viewOf s) ⟨pc', some p⟩ < pmV L (viewOf s) ⟨pc, some p⟩ := by
  have hrk : ∀ {c : Nat} {n : NodeS} {j : Nat}, s.heap[c]? = some n → n.next = some j →
      rankL L (viewOf s).next j < rankL L (viewOf s).next c := fun hn hx => rankL_lt H.nextOK hL hn hx
  have hr2 : ∀ {c : Nat}, c < s.heap.length → rankL L (viewOf s).next c ≤ 2 * L :=
    fun hc => rankL_le_two _ (by omega)
  cases hm with
  | rTable =>
    refine ⟨(by intro e; cases e), by tbl, by tbl, ?_⟩
    cases s.cur
    · show 4 * L + 9 < 4 * L + 10
      omega
    · show 4 * L + 8 < 4 * L + 10
      omega
  | @rCellMoved lo tab hc =>
    cases tab with
    | new => exact absurd hc (cellOf_new_not_moved H _)
    | old =>
      refine ⟨(by intro e; cases e), by tbl, by tbl, ?_⟩
      show 4 * L + 8 < 4 * L + 9
      omega
  | @rCellList lo tab h hc =>
    have := hr2 (cellOf_list_lt H hc)
    refine ⟨(by intro e; cases e), by tbl, by tbl, ?_⟩
    cases tab
    · show rankL L (viewOf s).next h + 2 < 4 * L + 9
      omega
    · show rankL L (viewOf s).next h + 2 < 4 * L + 8
      omega
  | @rCellTree lo tab b hc =>
    cases lo <;> cases tab
    · refine ⟨(by intro e; cases e), by tbl, by tbl, ?_⟩
      show 4 * L + 7 < 4 * L + 9
      omega
    · refine ⟨(by intro e; cases e), by tbl, by tbl, ?_⟩
      show 4 * L + 7 < 4 * L + 8
      omega
    · refine ⟨(by intro e; cases e), by tbl, by tbl, ?_⟩
      show 2 * L + 3 < 4 * L + 9
      omega
    · refine ⟨(by intro e; cases e), by tbl, by tbl, ?_⟩
      show 2 * L + 3 < 4 * L + 8
      omega
  | @rNodeNext c n hn hk =>
    refine ⟨(by intro e; cases e), by tbl, by tbl, ?_⟩
    cases hx : n.next with
    | none =>
      show 1 < rankL L (viewOf s).next c + 2
      omega
    | some j =>
      have := hrk hn hx
      show rankL L (viewOf s).next j + 2 < rankL L (viewOf s).next c + 2
      omega
  | @rFirst b =>
    refine ⟨(by intro e; cases e), by tbl, by tbl, ?_⟩
    cases hf : (binAt s.tbins b).first with
    | none =>
      show 1 < 4 * L + 7
      omega
    | some h =>
      have := hr2 (H.firstOK b h hf)
      show 2 * rankL L (viewOf s).next h + 6 < 4 * L + 7
      omega
  | @rLinMode b c _ =>
    refine ⟨(by intro e; cases e), by tbl, by tbl, ?_⟩
    show 2 * rankL L (viewOf s).next c + 5 < 2 * rankL L (viewOf s).next c + 6
    omega
  | @rTreeMode b c hbits =>
    refine ⟨(by intro e; cases e), by tbl, by tbl, ?_⟩
    have hw : (binAt s.tbins b).writer = false ∧ (binAt s.tbins b).waiter = false := by
      cases hw : (binAt s.tbins b).writer <;> cases ha : (binAt s.tbins b).waiter <;> simp_all
    have hok : casOk s b (binAt s.tbins b).readers = true := by
      unfold casOk; rw [hw.1, hw.2]; simp
    show (if casOk s b (binAt s.tbins b).readers = true then 4 else 2 * rankL L (viewOf s).next c + 7) <
      2 * rankL L (viewOf s).next c + 6
    rw [if_pos hok]; omega
  | @rLinNext b c n hn hk =>
    refine ⟨(by intro e; cases e), by tbl, by tbl, ?_⟩
    cases hx : n.next with
    | none =>
      show 1 < 2 * rankL L (viewOf s).next c + 5
      omega
    | some j =>
      have := hrk hn hx
      show 2 * rankL L (viewOf s).next j + 6 < 2 * rankL L (viewOf s).next c + 5
      omega
  | @rLinHit b c n _ _ _ =>
    refine ⟨(by intro e; cases e), by tbl, by tbl, ?_⟩
    show 1 < 2 * rankL L (viewOf s).next c + 5
    omega
  | @rCasFail b c r =>
    refine ⟨(by intro e; cases e), by tbl, by tbl, ?_⟩
    show 2 * rankL L (viewOf s).next c + 6 < (if casOk s b r = true then 4 else 2 * rankL L (viewOf s).next c + 7)
    rw [hcas b c r rfl]
    simp
  | rTree =>
    refine ⟨(by intro e; cases e), by tbl, by tbl, ?_⟩
    show 2 < 3
    omega
  | @lFirst b =>
    refine ⟨(by intro e; cases e), by tbl, by tbl, ?_⟩
    cases hf : (binAt s.tbins b).first with
    | none =>
      show 1 < 2 * L + 3
      omega
    | some h =>
      have := hr2 (H.firstOK b h hf)
      show rankL L (viewOf s).next h + 2 < 2 * L + 3
      omega
  | @lNext c n hn hk =>
    refine ⟨(by intro e; cases e), by tbl, by tbl, ?_⟩
    cases hx : n.next with
    | none =>
      show 1 < rankL L (viewOf s).next c + 2
      omega
    | some j =>
      have := hrk hn hx
      show rankL L (viewOf s).next j + 2 < rankL L (viewOf s).next c + 2
      omega
  | @lHit c n _ _ _ =>
    refine ⟨(by intro e; cases e), by tbl, by tbl, ?_⟩
    show 1 < rankL L (viewOf s).next c + 2
    omega
  | wTable =>
    refine ⟨(by intro e; cases e), by tbl, by tbl, ?_⟩
    show fresh L s.cur < 2 * L + 14
    cases s.cur <;> simp only [fresh] <;> omega
  | @wCellMoved tab hc =>
    cases tab with
    | new => exact absurd hc (cellOf_new_not_moved H _)
    | old =>
      refine ⟨(by intro e; cases e), by tbl, by tbl, ?_⟩
      exact fresh_new_lt_old _
  | @wCellCas tab hc hi =>
    refine ⟨(by intro e; cases e), by tbl, by tbl, ?_⟩
    show (if cellOf s tab p.key = .empty ∧ isInsert p.op = true then 1 else 1 + fresh L tab) < fresh L tab
    rw [if_pos ⟨hc, hi⟩]
    exact lt_fresh tab (by omega)
  | @wCellList tab h hc =>
    refine ⟨(by intro e; cases e), by tbl, by tbl, ?_⟩
    show (if cellOf s tab p.key = .list h then 2 * L + 6 else 3 + fresh L tab) < fresh L tab
    rw [if_pos hc]
    exact lt_fresh tab (by omega)
  | @wCellTree tab b hc =>
    refine ⟨(by intro e; cases e), by tbl, by tbl, ?_⟩
    show (if cellOf s tab p.key = .tree b then 10 else 3 + fresh L tab) < fresh L tab
    rw [if_pos hc]
    exact lt_fresh tab (by omega)
  | @wCasFail tab hor =>
    refine ⟨(by intro e; cases e), by tbl, by tbl, ?_⟩
    show fresh L tab < (if cellOf s tab p.key = .empty ∧ isInsert p.op = true then 1 else 1 + fresh L tab)
    rw [if_neg]
    · omega
    · rintro ⟨h1, h2⟩
      rcases hor with h | h
      · exact h h1
      · rw [h] at h2; cases h2
  | @wLock tab h n hn hlk =>
    refine ⟨(by intro e; cases e), by tbl, by tbl, ?_⟩
    show (if cellOf s tab p.key = .list h then 2 * L + 5 else 2 + fresh L tab) <
      (if cellOf s tab p.key = .list h then 2 * L + 6 else 3 + fresh L tab)
    split <;> omega
  | @wCheckOk tab h hc =>
    have := hr2 (cellOf_list_lt H hc)
    refine ⟨(by intro e; cases e), by tbl, by tbl, ?_⟩
    show rankL L (viewOf s).next h + 4 < (if cellOf s tab p.key = .list h then 2 * L + 5 else 2 + fresh L tab)
    rw [if_pos hc]
    omega
  | @wCheckFail tab h hc =>
    refine ⟨(by intro e; cases e), by tbl, by tbl, ?_⟩
    show 1 + fresh L tab < (if cellOf s tab p.key = .list h then 2 * L + 5 else 2 + fresh L tab)
    rw [if_neg hc]
    omega
  | wFindEnd =>
    refine ⟨(by intro e; cases e), by tbl, by tbl, ?_⟩
    show 2 < 3
    omega
  | @wFindHit tab h pred c n hn hk =>
    refine ⟨(by intro e; cases e), by tbl, by tbl, ?_⟩
    show 2 < rankL L (viewOf s).next c + 4
    omega
  | @wFindNext tab h pred c n hn hk =>
    refine ⟨(by intro e; cases e), by tbl, by tbl, ?_⟩
    cases hx : n.next with
    | none =>
      show 3 < rankL L (viewOf s).next c + 4
      omega
    | some j =>
      have := hrk hn hx
      show rankL L (viewOf s).next j + 4 < rankL L (viewOf s).next c + 4
      omega
  | @wUnlockRetry tab h res =>
    refine ⟨(by intro e; cases e), by tbl, by tbl, ?_⟩
    show fresh L tab < 1 + fresh L tab
    omega
  | @tCheckOk tab b hc =>
    refine ⟨(by intro e; cases e), by tbl, by tbl, ?_⟩
    show 8 < (if cellOf s tab p.key = .tree b then 9 else 2 + fresh L tab)
    rw [if_pos hc]; omega
  | @tCheckFail tab b hc =>
    refine ⟨(by intro e; cases e), by tbl, by tbl, ?_⟩
    show 1 + fresh L tab < (if cellOf s tab p.key = .tree b then 9 else 2 + fresh L tab)
    rw [if_neg hc]; omega
  | findVal _ _ =>
    refine ⟨(by intro e; cases e), by tbl, by tbl, ?_⟩
    show 2 < 8
    omega
  | findInsert _ _ =>
    refine ⟨(by intro e; cases e), by tbl, by tbl, ?_⟩
    show 7 < 8
    omega
  | findRemove _ _ =>
    refine ⟨(by intro e; cases e), by tbl, by tbl, ?_⟩
    show 7 < 8
    omega
  | findDone _ =>
    refine ⟨(by intro e; cases e), by tbl, by tbl, ?_⟩
    show 1 < 8
    omega
  | @lrTryFail tab b k res =>
    refine ⟨(by intro e; cases e), by tbl, ?_, ?_⟩
    · show 4 + (if (viewOf s).waiter b = true then 0 else 1) ≤ 5
      split <;> omega
    · show 5 < 7
      omega

/-- the calm moves of the treeify thread and of the resizing thread -/
theorem KMove.calm {s : State} {t : Nat} {pc pc' : Pc} {hp : List NodeS}
    (hm : KMove s t pc pc' hp) (H : HInv s) (L : Nat) :
    grow pc' ≤ grow pc ∧ daV (viewOf s) ⟨pc', none⟩ ≤ daV (viewOf s) ⟨pc, none⟩ ∧
      pmV L (viewOf s) ⟨pc', none⟩ < pmV L (viewOf s) ⟨pc, none⟩ := by
  cases hm with
  | kTable =>
    refine ⟨by tbl, by tbl, ?_⟩
    cases s.cur
    · show 7 < 8
      omega
    · show 6 < 8
      omega
  | @kCellList tab k h hc =>
    refine ⟨by tbl, by tbl, ?_⟩
    cases tab
    · show 5 < 7
      omega
    · show 5 < 6
      omega
  | @kCellMoved tab k hc =>
    cases tab with
    | new => exact absurd hc (cellOf_new_not_moved H _)
    | old =>
      refine ⟨by tbl, by tbl, ?_⟩
      show 6 < 7
      omega
  | @kCellOther tab k _ _ =>
    refine ⟨by tbl, by tbl, ?_⟩
    cases tab
    · show 0 < 7
      omega
    · show 0 < 6
      omega
  | kLock hn hlk =>
    refine ⟨by tbl, by tbl, ?_⟩
    show 4 < 5
    omega
  | kCheckOk _ =>
    refine ⟨by tbl, by tbl, ?_⟩
    show 3 < 4
    omega
  | kCheckFail _ =>
    refine ⟨by tbl, by tbl, ?_⟩
    show 1 < 4
    omega
  | kUnlock =>
    refine ⟨by tbl, by tbl, ?_⟩
    show 0 < 1
    omega
  | xCellEmpty h0 =>
    refine ⟨by tbl, by tbl, ?_⟩
    show (if s.cell0 = .empty then 2 else 11) < 10
    rw [if_pos h0]; omega
  | @xCellList h h0 =>
    refine ⟨by tbl, by tbl, ?_⟩
    show (if s.cell0 = .list h then 8 else 12) < 10
    rw [if_pos h0]; omega
  | @xCellTree b h0 =>
    refine ⟨by tbl, by tbl, ?_⟩
    show (if s.cell0 = .tree b then 8 else 12) < 10
    rw [if_pos h0]; omega
  | xCellMoved _ =>
    refine ⟨by tbl, by tbl, ?_⟩
    show 1 < 10
    omega
  | xCasFail hne =>
    refine ⟨by tbl, by tbl, ?_⟩
    show 10 < (if s.cell0 = .empty then 2 else 11)
    rw [if_neg hne]; omega
  | @xLock h n hn hlk =>
    refine ⟨by tbl, by tbl, ?_⟩
    show (if s.cell0 = .list h then 7 else 11) < (if s.cell0 = .list h then 8 else 12)
    split <;> omega
  | @xCheckOk h h0 =>
    refine ⟨by tbl, by tbl, ?_⟩
    show 6 < (if s.cell0 = .list h then 7 else 11)
    rw [if_pos h0]; omega
  | @xCheckFail h hne =>
    refine ⟨by tbl, by tbl, ?_⟩
    show 10 < (if s.cell0 = .list h then 7 else 11)
    rw [if_neg hne]; omega
  | @yCheckOk b h0 =>
    refine ⟨by tbl, by tbl, ?_⟩
    show 6 < (if s.cell0 = .tree b then 7 else 11)
    rw [if_pos h0]; omega
  | xUnlockL =>
    refine ⟨by tbl, by tbl, ?_⟩
    show 1 < 2
    omega

/-- the moves of the resizing thread that change a mutex are calm -/
theorem KBMove.calm {s : State} {t : Nat} {pc pc' : Pc} {tb : List TBin} (hm : KBMove s t pc pc' tb) (L : Nat) :
    pc' ≠ .idle ∧ (∃ b x, tb = s.tbins.modify b (fun y => { y with mutex := x })) ∧
    grow pc' ≤ grow pc ∧ daV (viewOf s) ⟨pc', none⟩ ≤ daV (viewOf s) ⟨pc, none⟩ ∧
      pmV L (viewOf s) ⟨pc', none⟩ < pmV L (viewOf s) ⟨pc, none⟩ := by
  cases hm with
  | @yMutex b _ =>
    refine ⟨(by intro e; cases e), ⟨b, some t, rfl⟩, by tbl, by tbl, ?_⟩
    show (if s.cell0 = .tree b then 7 else 11) < (if s.cell0 = .tree b then 8 else 12)
    split <;> omega
  | @yCheckFail b hne =>
    refine ⟨(by intro e; cases e), ⟨b, none, rfl⟩, by tbl, by tbl, ?_⟩
    show 10 < (if s.cell0 = .tree b then 7 else 11)
    rw [if_neg hne]; omega
  | @xUnlockT b =>
    refine ⟨(by intro e; cases e), ⟨b, none, rfl⟩, by tbl, by tbl, ?_⟩
    show 1 < 2
    omega

/-- a return without a store starts from a program counter with a positive measure -/
theorem Fin.pm_pos {s : State} {p : Pending} {pc : Pc} {res : KRes} {hp : List NodeS} (hf : Fin s p pc res hp)
    (L : Nat) (v : View) (call : Option Pending) : 0 < pmV L v ⟨pc, call⟩ := by
  cases hf with
  | @rCellEmpty lo tab _ => cases tab <;> simp only [pmV] <;> omega
  | @wCellEmpty tab _ _ => cases tab <;> simp only [pmV, fresh] <;> omega
  | _ => simp only [pmV] <;> omega

end Flurry.Proto.BinG
