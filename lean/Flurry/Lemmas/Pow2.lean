import Flurry.Prelude
/-! Helper lemmas about `Nat.nextPowerOfTwo` (core only has `isPowerOfTwo_nextPowerOfTwo`). -/
namespace Flurry

theorem le_npow2_go (n power : Nat) (h : power > 0) : n ≤ npow2Go n power h := by
  unfold npow2Go
  split
  · exact le_npow2_go n (power * 2) (Nat.mul_pos h (by decide))
  · omega
termination_by n - power
decreasing_by exact npow2_dec h ‹_›

theorem le_npow2 (n : Nat) : n ≤ npow2 n := le_npow2_go n 1 (by decide)

/-- minimality: the result is below `2 * n` as soon as the running power is. -/
theorem npow2_go_lt (n power : Nat) (h : power > 0) (hp : power < 2 * n) :
    npow2Go n power h < 2 * n := by
  unfold npow2Go
  split
  · exact npow2_go_lt n (power * 2) (Nat.mul_pos h (by decide)) (by omega)
  · omega
termination_by n - power
decreasing_by exact npow2_dec h ‹_›

theorem npow2_lt_two_mul (n : Nat) (hn : 0 < n) : npow2 n < 2 * n :=
  npow2_go_lt n 1 (by decide) (by omega)

/-- a power of two that is `≥ n` is `≥ nextPowerOfTwo n` (so it is the least one) -/
theorem npow2_go_le_of_pow2 (n power : Nat) (h : power > 0) (k j : Nat) (hpk : power = 2 ^ j)
    (hjk : j ≤ k) (hk : n ≤ 2 ^ k) : npow2Go n power h ≤ 2 ^ k := by
  unfold npow2Go
  split
  · rename_i hlt
    have hjk' : j < k := by
      rcases Nat.lt_or_ge j k with h1 | h1
      · exact h1
      · have : j = k := by omega
        subst this; omega
    exact npow2_go_le_of_pow2 n (power * 2) (Nat.mul_pos h (by decide)) k (j + 1)
      (by rw [hpk, Nat.pow_succ]) hjk' hk
  · rw [hpk]; exact Nat.pow_le_pow_right (by decide) hjk
termination_by n - power
decreasing_by exact npow2_dec h ‹_›

theorem npow2_le_of_pow2 (n k : Nat) (hk : n ≤ 2 ^ k) : npow2 n ≤ 2 ^ k :=
  npow2_go_le_of_pow2 n 1 (by decide) k 0 (by simp) (Nat.zero_le _) hk

end Flurry

namespace Flurry
theorem npow2_isPow2_go (n power : Nat) (h : power > 0) (hp : ∃ k, power = 2 ^ k) :
    ∃ k, npow2Go n power h = 2 ^ k := by
  unfold npow2Go
  split
  · obtain ⟨k, hk⟩ := hp
    exact npow2_isPow2_go n (power * 2) (Nat.mul_pos h (by decide)) ⟨k + 1, by rw [hk, Nat.pow_succ]⟩
  · exact hp
termination_by n - power
decreasing_by exact npow2_dec h ‹_›

theorem npow2_isPow2 (n : Nat) : ∃ k, npow2 n = 2 ^ k := npow2_isPow2_go n 1 (by decide) ⟨0, rfl⟩

-- agreement with core's (opaque) `Nat.nextPowerOfTwo` on a sample: a test, not a theorem
#guard (List.range 3000).all (fun n => npow2 n == Nat.nextPowerOfTwo n)
end Flurry
