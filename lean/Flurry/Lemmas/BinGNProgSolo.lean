import Flurry.Lemmas.BinGNProgRead
/-! # Proto/BinGN, progress (port of the `Lemmas/BinGProg*.lean` file of the same name): a reader that runs alone returns within `soloBound` steps

`runSolo t sm sm2 k s`: thread `t` takes `k` steps in a row, all other threads stay where they are.
`reader_solo_aux`: by induction on the measure `mu` of `Lemmas/BinGProgRead.lean`. -/
namespace Flurry.Proto.BinGNP
open Flurry.Lin

/-- thread `t` runs alone for `k` steps (`sm`, `sm2`: the size decisions, irrelevant for a reader);
`none` if one of these steps is not enabled -/
def runSolo (t : Nat) (sm sm2 : Bool) : Nat → State → Option State
  | 0, s => some s
  | k + 1, s =>
    match step s t none false none false sm sm2 0 with
    | some s' => runSolo t sm sm2 k s'
    | none => none

theorem runSolo_reachable {n : Nat} {t : Nat} {sm sm2 : Bool} : ∀ (k : Nat) {s s' : State},
    Reachable n s → runSolo t sm sm2 k s = some s' → Reachable n s'
  | 0, s, s', hr, h => by simp only [runSolo, Option.some.injEq] at h; exact h ▸ hr
  | k + 1, s, s', hr, h => by
    simp only [runSolo] at h
    cases hs : step s t none false none false sm sm2 0 with
    | none => rw [hs] at h; cases h
    | some s1 => rw [hs] at h; exact runSolo_reachable k (Flurry.Proto.BinGN.Reachable.step t none false none false sm sm2 0 hr hs) h

theorem runSolo_add {t : Nat} {sm sm2 : Bool} : ∀ (j k : Nat) {s s1 s2 : State},
    runSolo t sm sm2 j s = some s1 → runSolo t sm sm2 k s1 = some s2 → runSolo t sm sm2 (j + k) s = some s2
  | 0, k, s, s1, s2, h1, h2 => by
    simp only [runSolo, Option.some.injEq] at h1
    subst h1
    rw [Nat.zero_add]; exact h2
  | j + 1, k, s, s1, s2, h1, h2 => by
    rw [Nat.add_right_comm]
    simp only [runSolo] at h1 ⊢
    cases hs : step s t none false none false sm sm2 0 with
    | none => rw [hs] at h1; cases h1
    | some s' => rw [hs] at h1; exact runSolo_add j k h1 h2

/-- the induction behind `reader_solo_terminates`: `mu` bounds the number of solo steps -/
theorem reader_solo_aux {n : Nat} {t : Nat} (sm sm2 : Bool) : ∀ (m : Nat) {s : State} {l : Local} {p : Pending},
    Reachable n s → s.threads[t]? = some l → readerPc l.pc = true → l.call = some p → mu s l.pc ≤ m →
    ∃ k, k ≤ m ∧ ∃ s' res resp, runSolo t sm sm2 k s = some s' ∧ Reachable n s' ∧ Frame t s s' ∧
      s'.threads[t]? = some { pc := .idle, call := none } ∧
      s'.hist = (p.key, { tid := t, op := p.op, res := res, inv := p.inv, resp := resp }) :: s.hist
  | 0, s, l, p, _, _, hrd, _, hm => by
    have := mu_pos (s := s) hrd
    omega
  | m + 1, s, l, p, hr, hl, hrd, hp, hm => by
    obtain ⟨p', s1, hp', hs, ho⟩ := reader_step_aux (reachable_inv hr) (reachable_binv hr) hl hrd none false none false sm sm2 0
    rw [hp] at hp'
    cases hp'
    have hr1 : Reachable n s1 := Flurry.Proto.BinGN.Reachable.step t none false none false sm sm2 0 hr hs
    have hf1 : Frame t s s1 := reader_step_frame_aux hl hrd hs
    rcases ho with ⟨hidle, res, hh⟩ | ⟨pc', hl1, hrd1, hh1, hmu⟩
    · refine ⟨1, by omega, s1, res, _, ?_, hr1, hf1, hidle, hh⟩
      simp only [runSolo, hs]
    · obtain ⟨k, hk, s', res, resp, hrun, hr', hf', hidle, hh⟩ :=
        reader_solo_aux sm sm2 m (p := p) hr1 hl1 hrd1 rfl (by show mu s1 pc' ≤ m; omega)
      refine ⟨k + 1, by omega, s', res, resp, ?_, hr', hf1.trans hf', hidle, ?_⟩
      · simp only [runSolo, hs]; exact hrun
      · rw [hh, hh1]

theorem reader_solo_terminates_aux {n : Nat} {s : State} (hr : Reachable n s) {t : Nat} {l : Local}
    (hl : s.threads[t]? = some l) (hrd : readerPc l.pc = true) (sm sm2 : Bool) :
    ∃ k, k ≤ soloBound s ∧ ∃ s' p res resp, l.call = some p ∧ runSolo t sm sm2 k s = some s' ∧
      Frame t s s' ∧ s'.threads[t]? = some { pc := .idle, call := none } ∧
      s'.hist = (p.key, { tid := t, op := p.op, res := res, inv := p.inv, resp := resp }) :: s.hist := by
  obtain ⟨p, _, hp, _, _⟩ := reader_step_aux (reachable_inv hr) (reachable_binv hr) hl hrd none false none false sm sm2 0
  obtain ⟨k, hk, s', res, resp, hrun, _, hf, hidle, hh⟩ :=
    reader_solo_aux (n := n) sm sm2 (soloBound s) hr hl hrd hp
      (mu_le_soloBound (walkBound_of_pcInv ((reachable_inv hr).data.pcInv t l p hl hp)))
  exact ⟨k, hk, s', p, res, resp, hp, hrun, hf, hidle, hh⟩

end Flurry.Proto.BinGNP
