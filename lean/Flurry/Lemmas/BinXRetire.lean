import Flurry.Lemmas.BinXTransfer
/-! # Proto/BinX: the copied nodes of the old list are not re-used (C03)

`lastRunStart` is *maximal*: a suffix of the old chain whose nodes all have the split bit of its last
node starts at or after `lastRunStart`. Hence (`copied_not_reused`) the nodes the transfer copies — the
nodes before `lastRunStart`, which it retires after the forwarding — are on neither new list: they are
dead from the forwarding on. -/
namespace Flurry.Proto.BinX
open Flurry.Lin

theorem length_le_takeWhile {α : Type} (p : α → Bool) : ∀ (l1 l2 : List α), (∀ x ∈ l1, p x = true) →
    l1.length ≤ ((l1 ++ l2).takeWhile p).length
  | [], _, _ => Nat.zero_le _
  | a :: l1, l2, h => by
    rw [List.cons_append, List.takeWhile_cons, if_pos (h a List.mem_cons_self)]
    have := length_le_takeWhile p l1 l2 (fun x hx => h x (List.mem_cons_of_mem _ hx))
    simp only [List.length_cons]
    omega

/-- maximality of the last run -/
theorem lastRunStart_le_of_suffix {heap : List NodeS} {c : List Nat} {j : Nat} {b : Bool}
    (hj : j < c.length) (hall : ∀ i ∈ c.drop j, bitOf heap i = b) : lastRunStart heap c ≤ j := by
  unfold lastRunStart
  dsimp only
  have hbits : (c.map fun i => hiBit (heap.getD i dflt).key) = c.map (bitOf heap) := rfl
  rw [hbits]
  have hsplit : c.map (bitOf heap) = (c.take j).map (bitOf heap) ++ (c.drop j).map (bitOf heap) := by
    rw [← List.map_append, List.take_append_drop]
  have hdne : c.drop j ≠ [] := by
    intro h
    have := congrArg List.length h
    simp at this
    omega
  have hlast : (c.map (bitOf heap)).getLast? = some b := by
    rw [hsplit, List.getLast?_append]
    have : ((c.drop j).map (bitOf heap)).getLast? = some b := by
      rcases List.eq_nil_or_concat (c.drop j) with h | ⟨l0, x, h⟩
      · exact absurd h hdne
      · rw [h]
        simp only [List.concat_eq_append, List.map_append, List.map_cons, List.map_nil, List.getLast?_append,
          List.getLast?_singleton, Option.some_or, Option.some.injEq]
        exact hall x (by rw [h]; simp)
    rw [this]; rfl
  rw [hlast]
  dsimp only
  have hrev : (c.map (bitOf heap)).reverse = ((c.drop j).map (bitOf heap)).reverse ++ ((c.take j).map (bitOf heap)).reverse := by
    rw [hsplit, List.reverse_append]
  have h1 := length_le_takeWhile (· == b) ((c.drop j).map (bitOf heap)).reverse ((c.take j).map (bitOf heap)).reverse (by
    intro x hx
    rw [List.mem_reverse, List.mem_map] at hx
    obtain ⟨i, hi, rfl⟩ := hx
    simp [hall i hi])
  rw [← hrev] at h1
  simp only [List.length_reverse, List.length_map, List.length_drop] at h1
  omega

/-- a node of the old chain before the last run is on neither new list -/
theorem copied_not_reused {heap : List NodeS} {cr : CR} {O X : List Nat} {b : Bool}
    (hsorted : O.Pairwise (· < ·)) (sX : SideOK heap cr O b X) {r : Nat}
    (hr : r ∈ O.take (lastRunStart heap O)) : r ∉ X := by
  intro hrX
  have hrO : r ∈ O := List.mem_of_mem_take hr
  obtain ⟨l1, l2, hO⟩ := List.append_of_mem hrO
  subst hO
  have hnd : (l1 ++ r :: l2).Nodup := hsorted.imp (fun h => Nat.ne_of_lt h)
  -- every node from `r` on is re-used in `X`, hence has bit `b`
  have hall : ∀ i ∈ (l1 ++ r :: l2).drop l1.length, bitOf heap i = b := by
    intro i hi
    rw [List.drop_left] at hi
    rcases List.mem_cons.1 hi with rfl | hi
    · exact sX.side i hrX
    · have hlt : r < i := by
        have := (List.pairwise_append.1 hsorted).2.1
        exact (List.pairwise_cons.1 this).1 i hi
      exact sX.side i (sX.suffix r hrO hrX i (by simp [hi]) hlt)
  have hle := lastRunStart_le_of_suffix (heap := heap) (c := l1 ++ r :: l2) (j := l1.length)
    (by simp) hall
  -- so `r` lies in the first `l1.length` elements, i.e. in `l1`: impossible
  rw [List.take_append_of_le_length hle] at hr
  have hsub : r ∈ l1 := List.mem_of_mem_take hr
  exact (List.nodup_append.1 hnd).2.2 r hsub r (by simp) rfl

/-- in the state before the store of `moved`: the copied nodes are dead afterwards -/
theorem copied_dead {s : State} {g : Ghost} (H : HInv s g) {lo hg : Option Nat} (hp : g.ph = .mid lo hg)
    (hlow : s.lowCell = cellOfHead lo) (hhigh : s.highCell = cellOfHead hg) {r : Nat}
    (hr : r ∈ (chO s).take (lastRunStart s.heap (chO s))) : r ∉ chL s ∧ r ∉ chH s := by
  obtain ⟨hlt, sL, sH⟩ := mid_chains H hp hlow hhigh
  have hsorted : (chO s).Pairwise (· < ·) := by
    have h1 := (H.isChain .c0).sorted H.nextOK
    have h2 : chId s .c0 = chO s := rfl
    rw [h2] at h1
    refine h1.imp_of_mem ?_
    intro a b ha hb hab
    rw [ord_not_copy (H.oNotCopy a ha), ord_not_copy (H.oNotCopy b hb)] at hab
    omega
  exact ⟨copied_not_reused hsorted sL hr, copied_not_reused hsorted sH hr⟩

end Flurry.Proto.BinX
