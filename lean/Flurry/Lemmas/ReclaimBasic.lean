import Flurry.Proto.Reclaim
/-! # Proto/Reclaim: basic lemmas

`activeThreads` membership, `run` over `++`, inversion of `step` on the object/thread tables. -/
namespace Flurry.Proto.Reclaim

theorem mem_activeThreads {ts : List Thread} {t : Nat} :
    t ∈ activeThreads ts ↔ ∃ th, ts[t]? = some th ∧ th.guarded = true := by
  simp [activeThreads, List.mem_map, List.mem_filter, List.mem_zipIdx_iff_getElem?]

/-- thread `t` exists and holds a guard -/
def guardedB (s : State) (t : Nat) : Bool :=
  match s.threads[t]? with
  | some th => th.guarded
  | none => false

/-- the raw pointers held by thread `t` -/
def holdsOf (s : State) (t : Nat) : List Nat :=
  match s.threads[t]? with
  | some th => th.holds
  | none => []

theorem guardedB_of_some {s : State} {t : Nat} {th : Thread} (h : s.threads[t]? = some th) :
    guardedB s t = th.guarded := by simp [guardedB, h]
theorem holdsOf_of_some {s : State} {t : Nat} {th : Thread} (h : s.threads[t]? = some th) :
    holdsOf s t = th.holds := by simp [holdsOf, h]

theorem holdsOf_set {s s' : State} {t : Nat} {th th' : Thread} (hs : s'.threads = s.threads.set t th')
    (h : s.threads[t]? = some th) (t' : Nat) :
    holdsOf s' t' = if t' = t then th'.holds else holdsOf s t' := by
  have := (List.getElem?_eq_some_iff.1 h).1
  simp only [holdsOf, hs, List.getElem?_set]
  split <;> grind
theorem guardedB_set {s s' : State} {t : Nat} {th th' : Thread} (hs : s'.threads = s.threads.set t th')
    (h : s.threads[t]? = some th) (t' : Nat) :
    guardedB s' t' = if t' = t then th'.guarded else guardedB s t' := by
  have := (List.getElem?_eq_some_iff.1 h).1
  simp only [guardedB, hs, List.getElem?_set]
  split <;> grind
theorem holdsOf_congr {s s' : State} (hs : s'.threads = s.threads) (t : Nat) : holdsOf s' t = holdsOf s t := by
  simp [holdsOf, hs]
theorem guardedB_congr {s s' : State} (hs : s'.threads = s.threads) (t : Nat) : guardedB s' t = guardedB s t := by
  simp [guardedB, hs]

theorem mem_activeThreads_iff {s : State} {t : Nat} : t ∈ activeThreads s.threads ↔ guardedB s t = true := by
  rw [mem_activeThreads, guardedB]; split <;> simp_all

@[simp] theorem run_nil (s : State) : run s [] = some s := rfl

theorem run_cons (s : State) (e : Ev) (es : List Ev) :
    run s (e :: es) = (step s e).bind (fun s' => run s' es) := by
  simp only [run]; cases step s e <;> rfl

theorem run_cons_some {s s' : State} {e : Ev} {es : List Ev} :
    run s (e :: es) = some s' ↔ ∃ s1, step s e = some s1 ∧ run s1 es = some s' := by
  rw [run_cons]; cases step s e <;> simp

theorem run_append (s : State) (es fs : List Ev) :
    run s (es ++ fs) = (run s es).bind (fun s' => run s' fs) := by
  induction es generalizing s with
  | nil => simp
  | cons e es ih =>
    simp only [List.cons_append, run_cons]
    cases step s e <;> simp [ih]

theorem run_append_some {s s' : State} {es fs : List Ev} :
    run s (es ++ fs) = some s' ↔ ∃ s1, run s es = some s1 ∧ run s1 fs = some s' := by
  rw [run_append]; cases run s es <;> simp

/-- forward invariant principle: a step-stable predicate holds after every successful run -/
theorem run_preserves {P : State → Prop} (hstep : ∀ s e s', P s → step s e = some s' → P s')
    {s s' : State} {es : List Ev} (h0 : P s) (h : run s es = some s') : P s' := by
  induction es generalizing s with
  | nil => simp at h; exact h ▸ h0
  | cons e es ih =>
    obtain ⟨s1, h1, h2⟩ := run_cons_some.1 h
    exact ih (hstep _ _ _ h0 h1) h2

theorem Protected.cons {e : Ev} {es : List Ev} (h : Protected (e :: es)) :
    (∀ t o, e ≠ .unprotectedRetire t o) ∧ Protected es :=
  ⟨fun t o => h e (by simp) t o, fun e' he' => h e' (by simp [he'])⟩

theorem protected_nil : Protected [] := fun _ h => by simp at h

theorem dropWaiter_eq_fresh {t : Nat} {st : OSt} : dropWaiter t st = .fresh ↔ st = .fresh := by
  cases st <;> simp [dropWaiter]
theorem dropWaiter_eq_linked {t : Nat} {st : OSt} : dropWaiter t st = .linked ↔ st = .linked := by
  cases st <;> simp [dropWaiter]
theorem dropWaiter_eq_unlinked {t : Nat} {st : OSt} : dropWaiter t st = .unlinked ↔ st = .unlinked := by
  cases st <;> simp [dropWaiter]
theorem dropWaiter_eq_freed {t : Nat} {st : OSt} : dropWaiter t st = .freed ↔ st = .freed := by
  cases st <;> simp [dropWaiter]
theorem dropWaiter_eq_retired {t : Nat} {st : OSt} {w' : List Nat} :
    dropWaiter t st = .retired w' ↔ ∃ w, st = .retired w ∧ w' = w.filter (· != t) := by
  cases st <;> simp [dropWaiter, eq_comm]

/-! ## inversion of `step`: what a successful step does to each component of the state -/

theorem step_enter {s s' : State} {t : Nat} (h : step s (.enter t) = some s') :
    ∃ th, s.threads[t]? = some th ∧ th.guarded = false ∧
      s'.threads = s.threads.set t { th with guarded := true } ∧
      s'.objs = s.objs ∧ s'.frees = s.frees ∧ s'.badTouches = s.badTouches := by
  simp only [step] at h
  split at h <;> try contradiction
  split at h <;> try contradiction
  cases h; exact ⟨_, ‹_›, by simp_all, rfl, rfl, rfl, rfl⟩

theorem step_exit {s s' : State} {t : Nat} (h : step s (.exit t) = some s') :
    ∃ th, s.threads[t]? = some th ∧ th.guarded = true ∧
      s'.threads = s.threads.set t { guarded := false, holds := [] } ∧
      s'.objs = s.objs.map (dropWaiter t) ∧ s'.frees = s.frees ∧ s'.badTouches = s.badTouches := by
  simp only [step] at h
  split at h <;> try contradiction
  split at h <;> try contradiction
  cases h; exact ⟨_, ‹_›, ‹_›, rfl, rfl, rfl, rfl⟩

theorem step_alloc {s s' : State} {t : Nat} (h : step s (.alloc t) = some s') :
    ∃ th, s.threads[t]? = some th ∧
      s'.threads = s.threads.set t { th with holds := s.objs.length :: th.holds } ∧
      s'.objs = s.objs ++ [.fresh] ∧ s'.frees = s.frees ++ [0] ∧ s'.badTouches = s.badTouches := by
  simp only [step] at h
  split at h <;> try contradiction
  cases h; exact ⟨_, ‹_›, rfl, rfl, rfl, rfl⟩

theorem step_publish {s s' : State} {t o : Nat} (h : step s (.publish t o) = some s') :
    ∃ th, s.threads[t]? = some th ∧ s.objs[o]? = some .fresh ∧ o ∈ th.holds ∧
      s'.threads = s.threads ∧ s'.objs = s.objs.set o .linked ∧
      s'.frees = s.frees ∧ s'.badTouches = s.badTouches := by
  simp only [step] at h
  split at h <;> try contradiction
  split at h <;> try contradiction
  cases h; exact ⟨_, ‹_›, ‹_›, by simp_all, rfl, rfl, rfl, rfl⟩

theorem step_acquire {s s' : State} {t o : Nat} (h : step s (.acquire t o) = some s') :
    ∃ th, s.threads[t]? = some th ∧ s.objs[o]? = some .linked ∧ th.guarded = true ∧
      s'.threads = s.threads.set t { th with holds := o :: th.holds } ∧
      s'.objs = s.objs ∧ s'.frees = s.frees ∧ s'.badTouches = s.badTouches := by
  simp only [step] at h
  split at h <;> try contradiction
  split at h <;> try contradiction
  cases h; exact ⟨_, ‹_›, ‹_›, ‹_›, rfl, rfl, rfl, rfl⟩

theorem step_touch {s s' : State} {t o : Nat} (h : step s (.touch t o) = some s') :
    ∃ th st, s.threads[t]? = some th ∧ s.objs[o]? = some st ∧ o ∈ th.holds ∧
      s'.threads = s.threads ∧ s'.objs = s.objs ∧ s'.frees = s.frees ∧
      s'.badTouches = if st = .freed then s.badTouches + 1 else s.badTouches := by
  simp only [step] at h
  split at h <;> try contradiction
  split at h <;> try contradiction
  cases h
  refine ⟨_, _, ‹_›, ‹_›, by simp_all, ?_⟩
  split <;> simp_all

theorem step_unlink {s s' : State} {t o : Nat} (h : step s (.unlink t o) = some s') :
    ∃ th, s.threads[t]? = some th ∧ s.objs[o]? = some .linked ∧ o ∈ th.holds ∧ th.guarded = true ∧
      s'.threads = s.threads ∧ s'.objs = s.objs.set o .unlinked ∧
      s'.frees = s.frees ∧ s'.badTouches = s.badTouches := by
  simp only [step] at h
  split at h <;> try contradiction
  split at h <;> try contradiction
  cases h; exact ⟨_, ‹_›, ‹_›, by simp_all, by simp_all, rfl, rfl, rfl, rfl⟩

theorem step_retire {s s' : State} {t o : Nat} (h : step s (.retire t o) = some s') :
    ∃ th, s.threads[t]? = some th ∧ s.objs[o]? = some .unlinked ∧ th.guarded = true ∧
      s'.threads = s.threads ∧ s'.objs = s.objs.set o (.retired (activeThreads s.threads)) ∧
      s'.frees = s.frees ∧ s'.badTouches = s.badTouches := by
  simp only [step] at h
  split at h <;> try contradiction
  split at h <;> try contradiction
  cases h; exact ⟨_, ‹_›, ‹_›, ‹_›, rfl, rfl, rfl, rfl⟩

theorem step_unprotectedRetire {s s' : State} {t o : Nat}
    (h : step s (.unprotectedRetire t o) = some s') :
    ∃ th, s.threads[t]? = some th ∧ s.objs[o]? = some .unlinked ∧
      s'.threads = s.threads ∧ s'.objs = s.objs.set o .freed ∧
      s'.frees = s.frees.set o (s.frees.getD o 0 + 1) ∧ s'.badTouches = s.badTouches := by
  simp only [step] at h
  split at h <;> try contradiction
  cases h; exact ⟨_, ‹_›, ‹_›, rfl, rfl, rfl, rfl⟩

theorem step_free {s s' : State} {o : Nat} (h : step s (.free o) = some s') :
    s.objs[o]? = some (.retired []) ∧
      s'.threads = s.threads ∧ s'.objs = s.objs.set o .freed ∧
      s'.frees = s.frees.set o (s.frees.getD o 0 + 1) ∧ s'.badTouches = s.badTouches := by
  simp only [step] at h
  split at h <;> try contradiction
  cases h; exact ⟨‹_›, rfl, rfl, rfl, rfl⟩

end Flurry.Proto.Reclaim
