import Flurry.Lemmas.BinGNPInit
import Flurry.Lemmas.BinGNPGhostL
/-! # Proto/BinGN (port of `Lemmas/BinGInitG.lean`): the ghost invariant holds initially -/
namespace Flurry.Proto.BinGNP
open Flurry.Lin
open Flurry.Proto.BinK (nodeAt binAt absL absL_eq_none_iff chainOf_none)

theorem init_LC (n k : Nat) : LC (init n) k = [] := by
  have hc : ∀ g, cellOf (init n) g k = .empty := fun g => by rw [cellOf_eq]; exact init_cellAt n _
  have : liveCell (init n) k = .empty := by
    show liveFrom (init n) k 1 0 = .empty
    unfold liveFrom
    rw [hc 0]
  unfold LC; rw [this]; exact chainOf_none _

theorem init_ginv (n k : Nat) : GInv k (init n) (fun _ => none) id := by
  have hthr : ∀ (t : Nat) (l : Local), (init n).threads[t]? = some l → l = {} := fun t l h => init_threads h
  have hnil : callsOnExt (init n) k = [] := by
    rw [List.eq_nil_iff_forall_not_mem]
    intro c hc
    rcases mem_callsOnExt.1 hc with hc | ⟨t, l, hl, he⟩
    · simp [init] at hc
    · rw [hthr t l hl] at he
      cases he
  refine ⟨rfl, ?_, ?_, ?_, ?_, ?_⟩
  · symm
    rw [absOf_eq, absL_eq_none_iff]
    intro i hi
    rw [init_LC] at hi; cases hi
  · intro c hc; rw [hnil] at hc; cases hc
  · intro τ h1 h2
    have : (init n).now = 0 := rfl
    omega
  · intro c hc; rw [hnil] at hc; cases hc
  · intro t l p hl hc
    rw [hthr t l hl] at hc
    cases hc

end Flurry.Proto.BinGNP
