import Flurry.Lemmas.BinGNDrainRun
/-! # Proto/BinGN, termination: an explicit bound of the measure `gmu`

`gmu s ≤ drainBound s`, a function of the heap length, the number of threads, the number of generations and
`2 ^ cur` (the number of cells the resize in flight may still have to transfer) only. -/
namespace Flurry.Proto.BinGNP
open Flurry.Lin

theorem cntU_le (f : Nat → Bool) : ∀ n, cntU f n ≤ n
  | 0 => Nat.le_refl _
  | n + 1 => by
    have := cntU_le f n
    simp only [cntU]
    split <;> omega

theorem Uv_le (v : View) : Uv v ≤ 2 ^ v.cur := cntU_le _ _

theorem growV_le (v : View) (l : Local) : growV v l ≤ 2 ^ v.cur + 1 := by
  have h0 := Uv_le v
  obtain ⟨pc, call⟩ := l
  cases pc <;> first
    | (simp only [growV]; omega)
    | (rename_i j; have := U1_le v j; simp only [growV]; omega)
    | (rename_i j _; have := U1_le v j; simp only [growV]; omega)
    | (rename_i j _ _; have := U1_le v j; simp only [growV]; omega)
    | (rename_i j _ _ _; have := U1_le v j; simp only [growV]; omega)
    | (simp only [growV, grow]; omega)
    | (rename_i r; cases r <;> simp only [growV, grow] <;> omega)

theorem daV_le (v : View) (l : Local) : daV v l ≤ 4 * 2 ^ v.cur + 5 := by
  have h0 := Uv_le v
  obtain ⟨pc, call⟩ := l
  cases pc <;> first
    | (simp only [daV]; split <;> omega)
    | (simp only [daV]; omega)
    | (rename_i j; have := U1_le v j; simp only [daV]; omega)
    | (rename_i j _; have := U1_le v j; simp only [daV]; omega)
    | (rename_i j _ _; have := U1_le v j; simp only [daV]; omega)
    | (rename_i j _ _ _; have := U1_le v j; simp only [daV]; omega)
    | (simp only [daV, daPc]; omega)
    | (rename_i r; cases r <;> simp only [daV, daPc] <;> omega)

/-- an explicit bound of `gmu` -/
def drainBound (s : State) : Nat :=
  (s.threads.length * (4 * ((s.heap.length + 1) * 4 ^ (s.threads.length * (2 ^ s.cur + 1))) + 20 + s.tabs.length) + 1) *
      (s.threads.length * (4 * 2 ^ s.cur + 5)) +
    s.threads.length * (4 * ((s.heap.length + 1) * 4 ^ (s.threads.length * (2 ^ s.cur + 1))) + 20 + s.tabs.length)

theorem gmu_le_drainBound {n : Nat} {s : State} (hr : Reachable n s) : gmu s ≤ drainBound s := by
  have I := reachable_inv hr
  have B := reachable_binv hr
  have hG : G s ≤ s.threads.length * (2 ^ s.cur + 1) :=
    sum_map_le_card _ _ _ (fun x _ => growV_le (viewOf s) x)
  have hN : N s ≤ (s.heap.length + 1) * 4 ^ (s.threads.length * (2 ^ s.cur + 1)) :=
    Nat.mul_le_mul_left _ (Nat.pow_le_pow_right (by omega) hG)
  have hDA : DA s ≤ s.threads.length * (4 * 2 ^ s.cur + 5) :=
    sum_map_le_card _ _ _ (fun x _ => daV_le (viewOf s) x)
  have hPS : PS s ≤ s.threads.length * PM s.tabs.length (N s) := by
    unfold PS
    refine sum_map_le_card _ _ _ (fun x hx => ?_)
    obtain ⟨i, hi⟩ := List.mem_iff_getElem?.1 hx
    exact pmV_le _ ((walkOK_of_inv I B hi).mono (Nat.le_of_lt (heap_lt_N s)))
  have hPM : PM s.tabs.length (N s) ≤
      4 * ((s.heap.length + 1) * 4 ^ (s.threads.length * (2 ^ s.cur + 1))) + 20 + s.tabs.length := by
    unfold PM; omega
  have h1 := Nat.mul_le_mul_left s.threads.length hPM
  unfold gmu drainBound W
  have h2 : (s.threads.length * PM s.tabs.length (N s) + 1) * DA s ≤
      (s.threads.length * (4 * ((s.heap.length + 1) * 4 ^ (s.threads.length * (2 ^ s.cur + 1))) + 20 + s.tabs.length) + 1) *
        (s.threads.length * (4 * 2 ^ s.cur + 5)) :=
    Nat.mul_le_mul (by omega) hDA
  omega

end Flurry.Proto.BinGNP
