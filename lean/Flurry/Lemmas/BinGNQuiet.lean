import Flurry.Lemmas.BinGNNext
/-! # Proto/BinGN: the steps of a transfer that have no abstract effect (all but the split and the three stores)

`transfer_quiet_abs`: starting a resize, choosing a cell, loading it, the CAS of the forwarding marker into an
EMPTY cell, locking / re-checking / unlocking a list bin or a tree bin, and the commit leave the abstract state
of every key as it was. (The split — `xBuild`, `yBuild` — and the stores of the low cell, the high cell and the
marker of a non-empty bin need the heap invariant and are not covered.) -/
namespace Flurry.Proto.BinGN
open Flurry.Lin

/-- the heaps agree but for lock words -/
def DataSame (heap heap' : List NodeS) : Prop :=
  heap'.length = heap.length ∧ ∀ i, i < heap.length →
    ∃ n n', heap[i]? = some n ∧ heap'[i]? = some n' ∧ n'.key = n.key ∧ n'.val = n.val ∧ n'.next = n.next

theorem DataSame.refl (heap : List NodeS) : DataSame heap heap :=
  ⟨rfl, fun i hi => ⟨heap[i], heap[i], List.getElem?_eq_getElem hi, List.getElem?_eq_getElem hi, rfl, rfl, rfl⟩⟩

theorem DataSame.lock (heap : List NodeS) (h : Nat) (x : Option Nat) :
    DataSame heap (heap.modify h (fun m => { m with lock := x })) := by
  refine ⟨by simp, fun i hi => ?_⟩
  by_cases e : h = i
  · subst e
    exact ⟨heap[h], { heap[h] with lock := x }, List.getElem?_eq_getElem hi,
      by rw [List.getElem?_modify, List.getElem?_eq_getElem hi]; simp, rfl, rfl, rfl⟩
  · exact ⟨heap[i], heap[i], List.getElem?_eq_getElem hi,
      by rw [List.getElem?_modify, List.getElem?_eq_getElem hi]; simp [e], rfl, rfl, rfl⟩

theorem chainFrom_dataSame {heap heap' : List NodeS} (h : DataSame heap heap') :
    ∀ (fuel : Nat) (st : Option Nat), chainFrom heap' fuel st = chainFrom heap fuel st := by
  intro fuel
  induction fuel with
  | zero => intro st; rfl
  | succ f ih =>
    intro st
    cases st with
    | none => rfl
    | some i =>
      by_cases hi : i < heap.length
      · obtain ⟨n, n', a, b, -, -, e⟩ := h.2 i hi
        unfold chainFrom
        rw [a, b]
        simp only
        rw [e, ih]
      · have h1 : heap[i]? = none := List.getElem?_eq_none (by omega)
        have h2 : heap'[i]? = none := List.getElem?_eq_none (by have := h.1; omega)
        unfold chainFrom
        rw [h1, h2]

theorem getD_dataSame {heap heap' : List NodeS} (h : DataSame heap heap') (i : Nat) :
    (heap'.getD i dflt).key = (heap.getD i dflt).key ∧ (heap'.getD i dflt).val = (heap.getD i dflt).val := by
  by_cases hi : i < heap.length
  · obtain ⟨n, n', a, b, e1, e2, -⟩ := h.2 i hi
    rw [getD_eq, getD_eq, a, b]
    exact ⟨e1, e2⟩
  · have h1 : heap[i]? = none := List.getElem?_eq_none (by omega)
    have h2 : heap'[i]? = none := List.getElem?_eq_none (by have := h.1; omega)
    rw [getD_eq, getD_eq, h1, h2]
    exact ⟨rfl, rfl⟩

/-- `absOf` only depends on the live cell, the data of the heap and the `first` fields -/
theorem absOf_data {s s' : State} {k : Nat} (hlive : liveCell s' k = liveCell s k) (hh : DataSame s.heap s'.heap)
    (hf : ∀ b, (s'.tbins.getD b dfltB).first = (s.tbins.getD b dfltB).first) : absOf s' k = absOf s k := by
  have hchain : chainOfCell s' (liveCell s' k) = chainOfCell s (liveCell s k) := by
    rw [hlive]
    unfold chainOfCell chainOfBin
    cases liveCell s k with
    | empty => rfl
    | moved => rfl
    | list h => simp only; rw [hh.1]; exact chainFrom_dataSame hh _ _
    | tree b => simp only; rw [hh.1, hf b]; exact chainFrom_dataSame hh _ _
  unfold absOf
  rw [hchain]
  have hk : (fun i => (s'.heap.getD i dflt).key == k) = (fun i => (s.heap.getD i dflt).key == k) := by
    funext i; rw [(getD_dataSame hh i).1]
  rw [hk]
  cases (chainOfCell s (liveCell s k)).find? (fun i => (s.heap.getD i dflt).key == k) with
  | none => rfl
  | some i => simp only; rw [(getD_dataSame hh i).2]

theorem first_mutex (tb : List TBin) (b0 : Nat) (x : Option Nat) (b : Nat) :
    ((tb.modify b0 (fun m => { m with mutex := x })).getD b dfltB).first = (tb.getD b dfltB).first := by
  rw [getD_eq, getD_eq, List.getElem?_modify]
  by_cases e : b0 = b
  · subst e
    cases tb[b0]? <;> simp
  · simp [e]

theorem stored_isX {c : Nat} {l : Local} (h : storedLow l.pc ≠ none ∨ storedHigh l.pc ≠ none) : (desc c l).isX = true := by
  obtain ⟨pc, call⟩ := l
  cases pc <;> simp [storedLow, storedHigh] at h <;> rfl

/-- the program counters of the resizing thread whose steps are covered here -/
def quietX : Pc → Bool
  | .xNext | .xCell _ | .xCasMoved _ | .xLock _ _ | .xCheck _ _ | .yMutex _ _ | .yCheck _ _ | .xUnlock _ | .xCommit => true
  | _ => false

theorem transfer_quiet_abs {s s' : State} (I : GenInv s) (N : NextEmpty s) {t : Nat} {l : Local}
    {inv : Option (Nat × KOp)} {lo : Bool} {mt : Option Nat} {rz sm sm2 : Bool} {pick : Nat}
    (hl : s.threads[t]? = some l) (hpc : quietX l.pc = true ∨ (l.pc = .idle ∧ rz = true))
    (hs : step s t inv lo mt rz sm sm2 pick = some s') (k : Nat) : absOf s' k = absOf s k := by
  rcases hpc with hq | hidle
  rotate_left
  · exact alloc_commit_abs I hl (Or.inl hidle) hs k
  obtain ⟨pc, call⟩ := l
  have same : ∀ (l' : Local), absOf (setT (tick s) t l') k = absOf s k := fun l' =>
    absOf_congr (s := s) (s' := setT (tick s) t l') rfl rfl (liveCell_congr (s := s) (s' := setT (tick s) t l') rfl rfl k)
  have lockN : ∀ (h : Nat) (x : Option Nat) (l' : Local),
      absOf (setT (setNode (tick s) h (fun m => { m with lock := x })) t l') k = absOf s k := fun h x l' =>
    absOf_data (s := s) (s' := setT (setNode (tick s) h (fun m => { m with lock := x })) t l')
      (liveCell_congr (s := s) (s' := setT (setNode (tick s) h (fun m => { m with lock := x })) t l') rfl rfl k)
      (DataSame.lock _ _ _) (fun _ => rfl)
  have lockM : ∀ (b : Nat) (x : Option Nat) (l' : Local),
      absOf (setT (setBin (tick s) b (fun m => { m with mutex := x })) t l') k = absOf s k := fun b x l' =>
    absOf_data (s := s) (s' := setT (setBin (tick s) b (fun m => { m with mutex := x })) t l')
      (liveCell_congr (s := s) (s' := setT (setBin (tick s) b (fun m => { m with mutex := x })) t l') rfl rfl k)
      (DataSame.refl _) (fun b' => first_mutex _ _ _ _)
  cases call with
  | some p =>
    exfalso
    unfold step stepG at hs; rw [hl] at hs
    cases pc <;> first | (simp [quietX] at hq; done) | (simp at hs; done)
  | none =>
  cases pc <;> first | (simp [quietX] at hq; done) | skip
  case xNext =>
    open_step hs hl
    split at hs <;> (cases hs; exact same _)
  case xCell j =>
    open_step hs hl
    split at hs <;> (cases hs; exact same _)
  case xLock j h =>
    open_step hs hl
    split at hs
    · cases hs
    · split at hs
      · cases hs
      · cases hs; exact lockN _ _ _
  case xCheck j h =>
    open_step hs hl
    split at hs
    · cases hs; exact same _
    · cases hs; exact lockN _ _ _
  case yMutex j b =>
    open_step hs hl
    split at hs
    · cases hs
    · cases hs; exact lockM _ _ _
  case yCheck j b =>
    open_step hs hl
    split at hs
    · cases hs; exact same _
    · cases hs; exact lockM _ _ _
  case xUnlock unl =>
    cases unl with
    | inl h => open_step hs hl; cases hs; exact lockN _ _ _
    | inr b => open_step hs hl; cases hs; exact lockM _ _ _
  case xCommit => exact alloc_commit_abs I hl (Or.inr rfl) hs k
  case xCasMoved j =>
    have T := I.thr t _ hl
    have hj := T.idx j rfl
    have I' := step_geninv I hs
    obtain ⟨row, hr, hlen⟩ := I.row_cur
    open_step hs hl
    split at hs
    rotate_left
    · cases hs; exact same _
    rename_i hc
    cases hs
    have hc' : cellAt s s.cur j = .empty := by
      have := hc; simp only [beq_iff_eq] at this; exact this
    refine absOf_congr (s := s)
      (s' := putCell (setT (tick s) t { pc := Pc.xNext, call := none }) s.cur j .moved) rfl rfl ?_
    have I'' : GenInv (putCell (setT (tick s) t { pc := Pc.xNext, call := none }) s.cur j .moved) := I'
    rw [I''.liveCell_eq, I.liveCell_eq]
    have hself : cellT (s.tabs.modify s.cur (fun row => row.set j .moved)) s.cur j = .moved :=
      cellT_put_self_eq _ _ hr (by omega)
    have hne : ∀ g j0, ¬ (g = s.cur ∧ j0 = j) → cellT (s.tabs.modify s.cur (fun row => row.set j .moved)) g j0 =
        cellAt s g j0 := fun g j0 h => cellT_put_ne _ _ h
    have hnext : ∀ k', cellT (s.tabs.modify s.cur (fun row => row.set j .moved)) (s.cur + 1) (k' % 2 ^ (s.cur + 1)) =
        cellOf s (s.cur + 1) k' := fun k' => hne _ _ (by intro ⟨h, _⟩; omega)
    by_cases e : k % 2 ^ s.cur = j
    · -- the key lives in the forwarded (empty) cell: its child is empty, too
      have h1 : cellOf s s.cur k = .empty := by unfold cellOf; rw [e]; exact hc'
      have hchild : cellOf s (s.cur + 1) k = .empty := by
        cases hx : cellOf s (s.cur + 1) k with
        | empty => rfl
        | _ =>
          exfalso
          have hne' : cellAt s (s.cur + 1) (k % 2 ^ (s.cur + 1)) ≠ .empty := by
            have : cellAt s (s.cur + 1) (k % 2 ^ (s.cur + 1)) = cellOf s (s.cur + 1) k := rfl
            rw [this, hx]; simp
          rcases N _ hne' with hm | ⟨t1, l1, h1', hw⟩
          · rw [mod_succ_mod, e, hc'] at hm; cases hm
          · have hX1 : (desc s.cur l1).isX = true := by
              apply stored_isX
              rcases hw with hw | ⟨j0, hw, -⟩
              · left; rw [hw]; simp
              · right; rw [hw]; simp
            have := I.uniqX _ _ _ _ h1' hl hX1 rfl
            subst this
            rw [hl] at h1'; cases h1'
            rcases hw with hw | ⟨j0, hw, -⟩ <;> cases hw
      have a : cellOf (putCell (setT (tick s) t { pc := Pc.xNext, call := none }) s.cur j .moved) s.cur k = .moved := by
        show cellT _ s.cur (k % 2 ^ s.cur) = _
        rw [e]; exact hself
      have b : cellOf (putCell (setT (tick s) t { pc := Pc.xNext, call := none }) s.cur j .moved) (s.cur + 1) k =
          cellOf s (s.cur + 1) k := hnext k
      show (if cellOf (putCell _ _ _ _) s.cur k = .moved then cellOf (putCell _ _ _ _) (s.cur + 1) k
        else cellOf (putCell _ _ _ _) s.cur k) = _
      rw [if_pos a, b, hchild, h1]
      simp
    · have a : cellOf (putCell (setT (tick s) t { pc := Pc.xNext, call := none }) s.cur j .moved) s.cur k =
          cellOf s s.cur k := hne _ _ (by intro ⟨_, h⟩; exact e h)
      have b : cellOf (putCell (setT (tick s) t { pc := Pc.xNext, call := none }) s.cur j .moved) (s.cur + 1) k =
          cellOf s (s.cur + 1) k := hnext k
      show (if cellOf (putCell _ _ _ _) s.cur k = .moved then cellOf (putCell _ _ _ _) (s.cur + 1) k
        else cellOf (putCell _ _ _ _) s.cur k) = _
      rw [a, b]

end Flurry.Proto.BinGN
