import Flurry.Lemmas.BinNABasic
/-! # Proto/BinNA: the structural invariant is preserved by shared-memory effects (C01, C10)

`Keeps s s' t1`: what thread `t1` knows about the shared state survives the transition `s → s'`;
`MayWrite`: the permission under which a thread writes a cell (CAS into an empty cell, or a store under
the cell's lock into a cell that is a list, or the resizer's store of a child of the cell it has
locked); `Eff`: a transition that keeps `cur` / `resizing` and writes cells / lock words only with
permission; `inv_eff`: such a transition preserves `Inv`; `inv_alloc`, `inv_commit`: the start and the
end of a resize. -/
namespace Flurry.Proto.BinNA
open Flurry.Lin

/-! ## consequences of the invariant -/

theorem Inv.rz_of_moved {s : State} (I : Inv s) {j : Nat} (h : getCell s s.cur j = .moved) :
    s.resizing = true := by
  cases hr : s.resizing with
  | true => rfl
  | false => exact absurd h (I.noRz hr j)

theorem Inv.len_ge {s : State} (I : Inv s) : s.cur + 1 ≤ s.tabs.length := by
  have := I.shape.len
  split at this <;> omega

theorem Inv.len_rz {s : State} (I : Inv s) (h : s.resizing = true) : s.tabs.length = s.cur + 2 := by
  have := I.shape.len
  rw [if_pos h] at this; omega

theorem Inv.inb {s : State} (I : Inv s) {g j : Nat} (hf : Fwd s g j) : g < s.tabs.length := by
  by_cases hg : g = s.cur + 1
  · have := I.len_rz (I.rz_of_moved (hf.2 hg)); omega
  · have := I.len_ge; have := hf.1; omega

theorem Inv.row {s : State} (I : Inv s) {g : Nat} (hg : g < s.tabs.length) :
    (s.tabs.getD g []).length = 2 ^ g := I.shape.row g hg

theorem Inv.lrow {s : State} (I : Inv s) {g : Nat} (hg : g < s.tabs.length) :
    (s.locks.getD g []).length = 2 ^ g := I.shape.lrow g hg

theorem fwd_cur (s : State) (j : Nat) : Fwd s s.cur j := ⟨by omega, fun h => by omega⟩

theorem mod_self_of_lt {j n : Nat} (h : j < n) : j % n = j := Nat.mod_eq_of_lt h

theorem add_pow_mod {j g : Nat} (h : j < 2 ^ g) : (j + 2 ^ g) % 2 ^ g = j := by
  rw [Nat.add_mod_right]; exact Nat.mod_eq_of_lt h

/-- following a marker: the next generation may be worked in -/
theorem Inv.fwd_next {s : State} (I : Inv s) {g k : Nat} (hf : Fwd s g (ix g k))
    (hm : getCell s g (ix g k) = .moved) : Fwd s (g + 1) (ix (g + 1) k) := by
  have hne : g ≠ s.cur + 1 := fun h => I.newer g _ (by omega) hm
  have hle : g ≤ s.cur := by have := hf.1; omega
  refine ⟨by omega, ?_⟩
  intro h
  have hg : g = s.cur := by omega
  subst hg
  rw [ix_ix]; exact hm

/-! ## what a thread knows survives -/

structure Keeps (s s' : State) (t1 : Nat) : Prop where
  cur : s'.cur = s.cur
  rz : s.resizing = true → s'.resizing = true
  moved : ∀ g j, getCell s g j = .moved → getCell s' g j = .moved
  lock : ∀ g j, getLock s g j = some t1 → getLock s' g j = some t1
  list : ∀ g j, Fwd s g j → getLock s g j = some t1 → isList (getCell s g j) = true →
    getCell s' g j = getCell s g j
  child : ∀ j', getLock s s.cur (j' % 2 ^ s.cur) = some t1 → isList (getCell s s.cur (j' % 2 ^ s.cur)) = true →
    getCell s' (s.cur + 1) j' = getCell s (s.cur + 1) j'

theorem Keeps.fwd {s s' : State} {t1 : Nat} (K : Keeps s s' t1) {g j : Nat} (h : Fwd s g j) : Fwd s' g j := by
  unfold Fwd at h ⊢
  rw [K.cur]
  exact ⟨h.1, fun hg => K.moved _ _ (h.2 hg)⟩

theorem Keeps.of_same {s s' : State} {t1 : Nat} (hcur : s'.cur = s.cur) (hrz : s.resizing = true → s'.resizing = true)
    (hc : ∀ g j, getCell s' g j = getCell s g j) (hl : ∀ g j, getLock s' g j = getLock s g j) : Keeps s s' t1 :=
  ⟨hcur, hrz, fun g j h => by rw [hc]; exact h, fun g j h => by rw [hl]; exact h, fun g j _ _ _ => hc g j,
    fun j' _ _ => hc _ _⟩

theorem PcOK.keeps {s s' : State} {t1 key : Nat} {pc : Pc} (K : Keeps s s' t1) (h : PcOK s t1 key pc) :
    PcOK s' t1 key pc := by
  have hcur := K.cur
  cases pc with
  | idle => trivial
  | rTable => trivial
  | wTable => trivial
  | rCell g => exact K.fwd h
  | wCell g => exact K.fwd h
  | wCas g => exact K.fwd h
  | wLock g => exact K.fwd h
  | wCheck g => exact ⟨K.fwd h.1, K.lock _ _ h.2⟩
  | wUnlock g res retry => exact ⟨K.fwd h.1, K.lock _ _ h.2⟩
  | wStore g =>
    obtain ⟨h1, h2, h3⟩ := h
    exact ⟨K.fwd h1, K.lock _ _ h2, by rw [K.list _ _ h1 h2 h3]; exact h3⟩
  | tNext => exact K.rz h
  | tCommit =>
    show s'.resizing = true ∧ ∀ j, j < 2 ^ s'.cur → getCell s' s'.cur j = .moved
    rw [hcur]; exact ⟨K.rz h.1, fun j hj => K.moved _ _ (h.2 j hj)⟩
  | tCell j =>
    show s'.resizing = true ∧ j < 2 ^ s'.cur
    rw [hcur]; exact ⟨K.rz h.1, h.2⟩
  | tCasMoved j =>
    show s'.resizing = true ∧ j < 2 ^ s'.cur
    rw [hcur]; exact ⟨K.rz h.1, h.2⟩
  | tLock j =>
    show s'.resizing = true ∧ j < 2 ^ s'.cur
    rw [hcur]; exact ⟨K.rz h.1, h.2⟩
  | tCheck j =>
    show s'.resizing = true ∧ j < 2 ^ s'.cur ∧ getLock s' s'.cur j = some t1
    rw [hcur]; exact ⟨K.rz h.1, h.2.1, K.lock _ _ h.2.2⟩
  | tUnlock j =>
    show s'.resizing = true ∧ j < 2 ^ s'.cur ∧ getLock s' s'.cur j = some t1
    rw [hcur]; exact ⟨K.rz h.1, h.2.1, K.lock _ _ h.2.2⟩
  | tStoreLow j lo hi =>
    obtain ⟨h1, h2, h3, xs, h4, h5, h6, h7, h8⟩ := h
    have hl : isList (getCell s s.cur j) = true := by rw [h4]; rfl
    have e1 := K.list _ _ (fwd_cur s j) h3 hl
    have e2 := K.child j (by rw [mod_self_of_lt h2]; exact h3) (by rw [mod_self_of_lt h2]; exact hl)
    have e3 := K.child (j + 2 ^ s.cur) (by rw [add_pow_mod h2]; exact h3) (by rw [add_pow_mod h2]; exact hl)
    show s'.resizing = true ∧ j < 2 ^ s'.cur ∧ getLock s' s'.cur j = some t1 ∧
      ∃ xs, getCell s' s'.cur j = .list xs ∧ lo = mkCell (splitLo s'.cur xs) ∧ hi = mkCell (splitHi s'.cur xs) ∧
        getCell s' (s'.cur + 1) j = .empty ∧ getCell s' (s'.cur + 1) (j + 2 ^ s'.cur) = .empty
    rw [hcur]
    exact ⟨K.rz h1, h2, K.lock _ _ h3, xs, by rw [e1]; exact h4, h5, h6, by rw [e2]; exact h7, by rw [e3]; exact h8⟩
  | tStoreHigh j hi =>
    obtain ⟨h1, h2, h3, xs, h4, h5, h6, h8⟩ := h
    have hl : isList (getCell s s.cur j) = true := by rw [h4]; rfl
    have e1 := K.list _ _ (fwd_cur s j) h3 hl
    have e2 := K.child j (by rw [mod_self_of_lt h2]; exact h3) (by rw [mod_self_of_lt h2]; exact hl)
    have e3 := K.child (j + 2 ^ s.cur) (by rw [add_pow_mod h2]; exact h3) (by rw [add_pow_mod h2]; exact hl)
    show s'.resizing = true ∧ j < 2 ^ s'.cur ∧ getLock s' s'.cur j = some t1 ∧
      ∃ xs, getCell s' s'.cur j = .list xs ∧ getCell s' (s'.cur + 1) j = mkCell (splitLo s'.cur xs) ∧
        hi = mkCell (splitHi s'.cur xs) ∧ getCell s' (s'.cur + 1) (j + 2 ^ s'.cur) = .empty
    rw [hcur]
    exact ⟨K.rz h1, h2, K.lock _ _ h3, xs, by rw [e1]; exact h4, by rw [e2]; exact h5, h6, by rw [e3]; exact h8⟩
  | tStoreMoved j =>
    obtain ⟨h1, h2, h3, xs, h4, h5, h8⟩ := h
    have hl : isList (getCell s s.cur j) = true := by rw [h4]; rfl
    have e1 := K.list _ _ (fwd_cur s j) h3 hl
    have e2 := K.child j (by rw [mod_self_of_lt h2]; exact h3) (by rw [mod_self_of_lt h2]; exact hl)
    have e3 := K.child (j + 2 ^ s.cur) (by rw [add_pow_mod h2]; exact h3) (by rw [add_pow_mod h2]; exact hl)
    show s'.resizing = true ∧ j < 2 ^ s'.cur ∧ getLock s' s'.cur j = some t1 ∧
      ∃ xs, getCell s' s'.cur j = .list xs ∧ getCell s' (s'.cur + 1) j = mkCell (splitLo s'.cur xs) ∧
        getCell s' (s'.cur + 1) (j + 2 ^ s'.cur) = mkCell (splitHi s'.cur xs)
    rw [hcur]
    exact ⟨K.rz h1, h2, K.lock _ _ h3, xs, by rw [e1]; exact h4, by rw [e2]; exact h5, by rw [e3]; exact h8⟩

/-! ## write permissions -/

/-- thread `t` (whose next program counter is `pc'`) may write cell `(g, j)` -/
def MayWrite (s : State) (t : Nat) (pc' : Pc) (g j : Nat) : Prop :=
  (Fwd s g j ∧ (getCell s g j = .empty ∨ (getLock s g j = some t ∧ isList (getCell s g j) = true))) ∨
  (g = s.cur + 1 ∧ getLock s s.cur (j % 2 ^ s.cur) = some t ∧ isList (getCell s s.cur (j % 2 ^ s.cur)) = true ∧
    MidAt pc' (j % 2 ^ s.cur))

/-- a transition of thread `t` that keeps `cur` / `resizing` and writes only with permission -/
structure Eff (s s' : State) (t : Nat) (l' : Local) : Prop where
  thr : s'.threads = s.threads.set t l'
  cur : s'.cur = s.cur
  rz : s'.resizing = s.resizing
  shape : Shape s'
  cells : ∀ g j, getCell s' g j ≠ getCell s g j →
    MayWrite s t l'.pc g j ∧ (getCell s' g j = .moved → g = s.cur ∧ s.resizing = true)
  locks : ∀ g j, getLock s' g j ≠ getLock s g j → getLock s g j = none ∨ getLock s g j = some t

theorem isList_ne_moved {c : Cell} (h : isList c = true) : c ≠ .moved := by
  intro e; rw [e] at h; cases h

theorem isList_ne_empty {c : Cell} (h : isList c = true) : c ≠ .empty := by
  intro e; rw [e] at h; cases h

theorem Eff.moved {s s' : State} {t : Nat} {l' : Local} (e : Eff s s' t l') (I : Inv s) {g j : Nat}
    (h : getCell s g j = .moved) : getCell s' g j = .moved := by
  apply Classical.byContradiction
  intro hne
  have hch : getCell s' g j ≠ getCell s g j := by rw [h]; exact hne
  rcases (e.cells g j hch).1 with ⟨_, h1 | ⟨_, h1⟩⟩ | ⟨hg, _⟩
  · rw [h] at h1; cases h1
  · exact isList_ne_moved h1 h
  · exact I.newer g j (by omega) h

theorem Eff.keeps {s s' : State} {t t1 : Nat} {l' : Local} (e : Eff s s' t l') (I : Inv s) (hne : t1 ≠ t) :
    Keeps s s' t1 := by
  refine ⟨e.cur, fun h => by rw [e.rz]; exact h, fun g j h => e.moved I h, ?_, ?_, ?_⟩
  · intro g j h
    apply Classical.byContradiction
    intro hc
    have hch : getLock s' g j ≠ getLock s g j := by rw [h]; exact hc
    rcases e.locks g j hch with h1 | h1
    · rw [h] at h1; cases h1
    · rw [h] at h1; cases h1; exact hne rfl
  · intro g j hf hl hlist
    apply Classical.byContradiction
    intro hch
    rcases (e.cells g j hch).1 with ⟨_, h1 | ⟨h1, _⟩⟩ | ⟨hg, _, h2, _⟩
    · exact isList_ne_empty hlist h1
    · rw [hl] at h1; cases h1; exact hne rfl
    · exact isList_ne_moved h2 (hf.2 hg)
  · intro j' hl hlist
    apply Classical.byContradiction
    intro hch
    rcases (e.cells _ j' hch).1 with ⟨hf, _⟩ | ⟨_, h1, _⟩
    · exact isList_ne_moved hlist (hf.2 rfl)
    · rw [hl] at h1; cases h1; exact hne rfl

/-- **a transition with permission preserves the invariant** -/
theorem inv_eff {s s' : State} {t : Nat} {l l' : Local} (I : Inv s) (hl : s.threads[t]? = some l)
    (e : Eff s s' t l') (T' : TInv s')
    (hself : PcOK s' t (keyOf l') l'.pc)
    (hT : isT l'.pc → isT l.pc)
    (hmid : ∀ p, MidAt l.pc p → MidAt l'.pc p ∨ getCell s' s.cur p = .moved) : Inv s' := by
  have hl' : s'.threads[t]? = some l' := by rw [e.thr]; exact get_set_self hl
  refine ⟨e.shape, T', ?_, ?_, ?_, ?_, ?_, ?_⟩
  · intro g j hg hj
    rw [e.cur] at hg
    exact e.moved I (I.old g j hg hj)
  · intro g j hg hm
    rw [e.cur] at hg
    by_cases hch : getCell s' g j = getCell s g j
    · rw [hch] at hm; exact I.newer g j hg hm
    · have := ((e.cells g j hch).2 hm).1; omega
  · intro hr j hm
    rw [e.rz] at hr
    rw [e.cur] at hm
    by_cases hch : getCell s' s.cur j = getCell s s.cur j
    · rw [hch] at hm; exact I.noRz hr j hm
    · have := ((e.cells _ j hch).2 hm).2
      rw [hr] at this; cases this
  · intro j' hpar hno
    rw [e.cur] at hpar hno ⊢
    have hpar0 : getCell s s.cur (j' % 2 ^ s.cur) ≠ .moved := fun h => hpar (e.moved I h)
    have hno0 : ∀ (t1 : Nat) (l1 : Local), s.threads[t1]? = some l1 → ¬ MidAt l1.pc (j' % 2 ^ s.cur) := by
      intro t1 l1 h1 hm1
      by_cases ht : t1 = t
      · subst ht
        rw [hl] at h1; cases h1
        rcases hmid _ hm1 with h | h
        · exact hno t1 l' hl' h
        · exact hpar h
      · exact hno t1 l1 (by rw [e.thr, get_set_ne ht]; exact h1) hm1
    have h0 := I.child j' hpar0 hno0
    by_cases hch : getCell s' (s.cur + 1) j' = getCell s (s.cur + 1) j'
    · rw [hch]; exact h0
    · rcases (e.cells _ j' hch).1 with ⟨hf, _⟩ | ⟨_, _, _, hm⟩
      · exact absurd (hf.2 rfl) hpar0
      · exact absurd hm (hno t l' hl')
  · intro t1 l1 h1
    rw [e.thr] at h1
    rcases get_set h1 with ⟨rfl, rfl⟩ | ⟨hne, h1⟩
    · exact hself
    · exact (I.pc t1 l1 h1).keeps (e.keeps I hne)
  · intro t1 t2 l1 l2 h1 h2 hT1 hT2
    rw [e.thr] at h1 h2
    rcases get_set h1 with ⟨e1, e1'⟩ | ⟨hne1, h1'⟩ <;> rcases get_set h2 with ⟨e2, e2'⟩ | ⟨hne2, h2'⟩
    · rw [e1, e2]
    · subst e1 e1'
      exact I.uniqT _ _ _ _ hl h2' (hT hT1) hT2
    · subst e2 e2'
      exact I.uniqT _ _ _ _ h1' hl hT1 (hT hT2)
    · exact I.uniqT _ _ _ _ h1' h2' hT1 hT2

/-! ## shapes -/

theorem shape_of_eq {s s' : State} (S : Shape s) (ht : s'.tabs = s.tabs) (hl : s'.locks = s.locks)
    (hc : s'.cur = s.cur) (hr : s'.resizing = s.resizing) : Shape s' := by
  refine ⟨?_, ?_, ?_, ?_⟩
  · rw [ht, hc, hr]; exact S.len
  · rw [ht, hl]; exact S.llen
  · rw [ht]; exact S.row
  · rw [ht, hl]; exact S.lrow

theorem shape_setCell {s s' : State} (S : Shape s) {g j : Nat} {c : Cell} (ht : s'.tabs = (setCell s g j c).tabs)
    (hl : s'.locks = s.locks) (hc : s'.cur = s.cur) (hr : s'.resizing = s.resizing) : Shape s' := by
  have hlen : s'.tabs.length = s.tabs.length := by rw [ht]; exact List.length_modify _ _ _
  refine ⟨?_, ?_, ?_, ?_⟩
  · rw [hlen, hc, hr]; exact S.len
  · rw [hlen, hl]; exact S.llen
  · intro g' hg'
    rw [ht]
    show ((s.tabs.modify g (fun row => row.set j c)).getD g' []).length = 2 ^ g'
    rw [len2_modify_set]; exact S.row g' (by omega)
  · rw [hlen, hl]; exact S.lrow

theorem shape_setLock {s s' : State} (S : Shape s) {g j : Nat} {x : Option Nat} (ht : s'.tabs = s.tabs)
    (hl : s'.locks = (setLock s g j x).locks) (hc : s'.cur = s.cur) (hr : s'.resizing = s.resizing) : Shape s' := by
  refine ⟨?_, ?_, ?_, ?_⟩
  · rw [ht, hc, hr]; exact S.len
  · rw [ht, hl]
    show (s.locks.modify g (fun row => row.set j x)).length = _
    rw [List.length_modify]; exact S.llen
  · rw [ht]; exact S.row
  · intro g' hg'
    rw [hl]
    show ((s.locks.modify g (fun row => row.set j x)).getD g' []).length = 2 ^ g'
    rw [len2_modify_set]; exact S.lrow g' (by rw [← ht]; exact hg')

/-- the cells of a state obtained by one `setCell` -/
theorem getCell_of_setCell {s s' : State} (I : Inv s) {g j : Nat} {c : Cell} (ht : s'.tabs = (setCell s g j c).tabs)
    (hg : g < s.tabs.length) (hj : j < 2 ^ g) (g' j' : Nat) :
    getCell s' g' j' = if g' = g ∧ j' = j then c else getCell s g' j' := by
  have : getCell s' g' j' = getCell (setCell s g j c) g' j' := by unfold getCell; rw [ht]
  rw [this, getCell_setCell, I.row hg]
  by_cases h : g' = g ∧ j' = j
  · rw [if_pos ⟨h.1, h.2, hj⟩, if_pos h]
  · rw [if_neg (fun hh => h ⟨hh.1, hh.2.1⟩), if_neg h]

theorem getLock_of_setLock {s s' : State} (I : Inv s) {g j : Nat} {x : Option Nat}
    (ht : s'.locks = (setLock s g j x).locks)
    (hg : g < s.tabs.length) (hj : j < 2 ^ g) (g' j' : Nat) :
    getLock s' g' j' = if g' = g ∧ j' = j then x else getLock s g' j' := by
  have : getLock s' g' j' = getLock (setLock s g j x) g' j' := by unfold getLock; rw [ht]
  rw [this, getLock_setLock, I.lrow hg]
  by_cases h : g' = g ∧ j' = j
  · rw [if_pos ⟨h.1, h.2, hj⟩, if_pos h]
  · rw [if_neg (fun hh => h ⟨hh.1, hh.2.1⟩), if_neg h]

theorem getCell_congr {s s' : State} (ht : s'.tabs = s.tabs) (g j : Nat) : getCell s' g j = getCell s g j := by
  unfold getCell; rw [ht]

theorem getLock_congr {s s' : State} (ht : s'.locks = s.locks) (g j : Nat) : getLock s' g j = getLock s g j := by
  unfold getLock; rw [ht]

/-- transitions that change no cell and no lock word -/
theorem eff_same {s s' : State} {t : Nat} {l' : Local} (I : Inv s) (hthr : s'.threads = s.threads.set t l')
    (ht : s'.tabs = s.tabs) (hlk : s'.locks = s.locks) (hc : s'.cur = s.cur) (hr : s'.resizing = s.resizing) :
    Eff s s' t l' :=
  ⟨hthr, hc, hr, shape_of_eq I.shape ht hlk hc hr,
    fun g j h => absurd (getCell_congr ht g j) h, fun g j h => absurd (getLock_congr hlk g j) h⟩

/-- transitions that change one lock word that was free or held by the thread -/
theorem eff_lock {s s' : State} {t : Nat} {l' : Local} {g j : Nat} {x : Option Nat} (I : Inv s)
    (hthr : s'.threads = s.threads.set t l')
    (ht : s'.tabs = s.tabs) (hlk : s'.locks = (setLock s g j x).locks) (hc : s'.cur = s.cur)
    (hr : s'.resizing = s.resizing) (hold : getLock s g j = none ∨ getLock s g j = some t) :
    Eff s s' t l' := by
  refine ⟨hthr, hc, hr, shape_setLock I.shape ht hlk hc hr, fun g' j' h => absurd (getCell_congr ht g' j') h, ?_⟩
  intro g' j' h
  have e1 : getLock s' g' j' = getLock (setLock s g j x) g' j' := by unfold getLock; rw [hlk]
  rw [e1, getLock_setLock] at h
  split at h
  · rename_i hh
    obtain ⟨rfl, rfl, _⟩ := hh
    exact hold
  · exact absurd rfl h

/-- transitions that write one cell with permission -/
theorem eff_cell {s s' : State} {t : Nat} {l' : Local} {g j : Nat} {c : Cell} (I : Inv s)
    (hthr : s'.threads = s.threads.set t l')
    (ht : s'.tabs = (setCell s g j c).tabs) (hlk : s'.locks = s.locks) (hc : s'.cur = s.cur)
    (hr : s'.resizing = s.resizing) (hw : MayWrite s t l'.pc g j)
    (hm : c = .moved → g = s.cur ∧ s.resizing = true) : Eff s s' t l' := by
  refine ⟨hthr, hc, hr, shape_setCell I.shape ht hlk hc hr, ?_, fun g' j' h => absurd (getLock_congr hlk g' j') h⟩
  intro g' j' h
  have e1 : getCell s' g' j' = getCell (setCell s g j c) g' j' := by unfold getCell; rw [ht]
  rw [e1, getCell_setCell] at h ⊢
  split at h
  · rename_i hh
    obtain ⟨rfl, rfl, hlt⟩ := hh
    rw [if_pos ⟨rfl, rfl, hlt⟩]
    exact ⟨hw, hm⟩
  · exact absurd rfl h

end Flurry.Proto.BinNA
