import Flurry.Lemmas.BinGNNextDefs
import Flurry.Lemmas.BinGNLive
/-! # Proto/BinGN: the cells of the generation being filled are empty until the transfer of their parent stores
them — every reachable state; the steps of a transfer that have no abstract effect -/
namespace Flurry.Proto.BinGN
open Flurry.Lin

macro "ne_all" N:ident hl:ident hs:ident : tactic =>
  `(tactic| (open_step $hs $hl; (try simp only [afterLock] at $hs:ident); repeat' split at $hs:ident
             all_goals first
               | (cases $hs:ident; done)
               | (cases $hs:ident; exact nextEmpty_same $N $hl rfl rfl rfl rfl rfl)
               | (cases $hs:ident; split <;> exact nextEmpty_same $N $hl rfl rfl rfl rfl rfl)
               | (cases $hs:ident; split <;> split <;> exact nextEmpty_same $N $hl rfl rfl rfl rfl rfl)))

/-- a thread that works in generation `cur + 1` for key `k` is behind the forwarded parent of its cell -/
theorem parent_moved_of_gen {s : State} (I : GenInv s) {t : Nat} {l : Local} {g k : Nat}
    (hl : s.threads[t]? = some l) (hg : (desc s.cur l).gen = some (g, k)) :
    g = s.cur + 1 → cellAt s s.cur ((k % 2 ^ g) % 2 ^ s.cur) = .moved := by
  intro e
  subst e
  rw [mod_succ_mod]
  exact ((I.thr t l hl).gen _ _ hg).2 rfl

section
variable {s s' : State} {t : Nat} {inv : Option (Nat × KOp)} {lo : Bool} {mt : Option Nat} {rz sm sm2 : Bool}
  {pick : Nat} {p : Pending} {c : Option Pending}

theorem ne_rTable {x : Bool} (N : NextEmpty s)
    (hl : s.threads[t]? = some { pc := .rTable x, call := some p })
    (hs : step s t inv lo mt rz sm sm2 pick = some s') : NextEmpty s' := by
  ne_all N hl hs

theorem ne_rCell {x : Bool} {g : Nat} (N : NextEmpty s)
    (hl : s.threads[t]? = some { pc := .rCell x g, call := some p })
    (hs : step s t inv lo mt rz sm sm2 pick = some s') : NextEmpty s' := by
  ne_all N hl hs

theorem ne_rFirst {b : Nat} (N : NextEmpty s)
    (hl : s.threads[t]? = some { pc := .rFirst b, call := some p })
    (hs : step s t inv lo mt rz sm sm2 pick = some s') : NextEmpty s' := by
  ne_all N hl hs

theorem ne_rLin {b x : Nat} (N : NextEmpty s)
    (hl : s.threads[t]? = some { pc := .rLin b x, call := some p })
    (hs : step s t inv lo mt rz sm sm2 pick = some s') : NextEmpty s' := by
  ne_all N hl hs

theorem ne_rCas {b x r : Nat} (N : NextEmpty s)
    (hl : s.threads[t]? = some { pc := .rCas b x r, call := some p })
    (hs : step s t inv lo mt rz sm sm2 pick = some s') : NextEmpty s' := by
  ne_all N hl hs

theorem ne_rTree {b : Nat} (N : NextEmpty s)
    (hl : s.threads[t]? = some { pc := .rTree b, call := some p })
    (hs : step s t inv lo mt rz sm sm2 pick = some s') : NextEmpty s' := by
  ne_all N hl hs

theorem ne_rRelease {b : Nat} {x : Option Nat} (N : NextEmpty s)
    (hl : s.threads[t]? = some { pc := .rRelease b x, call := some p })
    (hs : step s t inv lo mt rz sm sm2 pick = some s') : NextEmpty s' := by
  ne_all N hl hs

theorem ne_rVal {x : Nat} (N : NextEmpty s)
    (hl : s.threads[t]? = some { pc := .rVal x, call := some p })
    (hs : step s t inv lo mt rz sm sm2 pick = some s') : NextEmpty s' := by
  ne_all N hl hs

theorem ne_lFirst {b : Nat} (N : NextEmpty s)
    (hl : s.threads[t]? = some { pc := .lFirst b, call := some p })
    (hs : step s t inv lo mt rz sm sm2 pick = some s') : NextEmpty s' := by
  ne_all N hl hs

theorem ne_wTable  (N : NextEmpty s)
    (hl : s.threads[t]? = some { pc := .wTable, call := some p })
    (hs : step s t inv lo mt rz sm sm2 pick = some s') : NextEmpty s' := by
  ne_all N hl hs

theorem ne_wCell {g : Nat} (N : NextEmpty s)
    (hl : s.threads[t]? = some { pc := .wCell g, call := some p })
    (hs : step s t inv lo mt rz sm sm2 pick = some s') : NextEmpty s' := by
  ne_all N hl hs

theorem ne_wLock {g h : Nat} (N : NextEmpty s)
    (hl : s.threads[t]? = some { pc := .wLock g h, call := some p })
    (hs : step s t inv lo mt rz sm sm2 pick = some s') : NextEmpty s' := by
  ne_all N hl hs

theorem ne_wCheck {g h : Nat} (N : NextEmpty s)
    (hl : s.threads[t]? = some { pc := .wCheck g h, call := some p })
    (hs : step s t inv lo mt rz sm sm2 pick = some s') : NextEmpty s' := by
  ne_all N hl hs

theorem ne_wUnlock {g h : Nat} {res : KRes} {retry : Bool} (N : NextEmpty s)
    (hl : s.threads[t]? = some { pc := .wUnlock g h res retry, call := some p })
    (hs : step s t inv lo mt rz sm sm2 pick = some s') : NextEmpty s' := by
  ne_all N hl hs

theorem ne_tMutex {g b : Nat} (N : NextEmpty s)
    (hl : s.threads[t]? = some { pc := .tMutex g b, call := some p })
    (hs : step s t inv lo mt rz sm sm2 pick = some s') : NextEmpty s' := by
  ne_all N hl hs

theorem ne_tCheck {g b : Nat} (N : NextEmpty s)
    (hl : s.threads[t]? = some { pc := .tCheck g b, call := some p })
    (hs : step s t inv lo mt rz sm sm2 pick = some s') : NextEmpty s' := by
  ne_all N hl hs

theorem ne_tFind {g b : Nat} (N : NextEmpty s)
    (hl : s.threads[t]? = some { pc := .tFind g b, call := some p })
    (hs : step s t inv lo mt rz sm sm2 pick = some s') : NextEmpty s' := by
  ne_all N hl hs

theorem ne_tVal {g b i : Nat} {v : Nat × Nat} {res : KRes} (N : NextEmpty s)
    (hl : s.threads[t]? = some { pc := .tVal g b i v res, call := some p })
    (hs : step s t inv lo mt rz sm sm2 pick = some s') : NextEmpty s' := by
  ne_all N hl hs

theorem ne_tPrependLocked {g b : Nat} (N : NextEmpty s)
    (hl : s.threads[t]? = some { pc := .tPrependLocked g b, call := some p })
    (hs : step s t inv lo mt rz sm sm2 pick = some s') : NextEmpty s' := by
  ne_all N hl hs

theorem ne_tTreeLinkLocked {g b x : Nat} (N : NextEmpty s)
    (hl : s.threads[t]? = some { pc := .tTreeLinkLocked g b x, call := some p })
    (hs : step s t inv lo mt rz sm sm2 pick = some s') : NextEmpty s' := by
  ne_all N hl hs

theorem ne_tUnlinkLocked {g b i : Nat} {res : KRes} (N : NextEmpty s)
    (hl : s.threads[t]? = some { pc := .tUnlinkLocked g b i res, call := some p })
    (hs : step s t inv lo mt rz sm sm2 pick = some s') : NextEmpty s' := by
  ne_all N hl hs

theorem ne_tRestructure {g b i : Nat} {res : KRes} (N : NextEmpty s)
    (hl : s.threads[t]? = some { pc := .tRestructure g b i res, call := some p })
    (hs : step s t inv lo mt rz sm sm2 pick = some s') : NextEmpty s' := by
  ne_all N hl hs

theorem ne_tUnlockRoot {g b : Nat} {res : KRes} (N : NextEmpty s)
    (hl : s.threads[t]? = some { pc := .tUnlockRoot g b res, call := some p })
    (hs : step s t inv lo mt rz sm sm2 pick = some s') : NextEmpty s' := by
  ne_all N hl hs

theorem ne_tUnlockM {g b : Nat} {res : KRes} {retry : Bool} (N : NextEmpty s)
    (hl : s.threads[t]? = some { pc := .tUnlockM g b res retry, call := some p })
    (hs : step s t inv lo mt rz sm sm2 pick = some s') : NextEmpty s' := by
  ne_all N hl hs

theorem ne_kTable {k : Nat} (N : NextEmpty s)
    (hl : s.threads[t]? = some { pc := .kTable k, call := none })
    (hs : step s t inv lo mt rz sm sm2 pick = some s') : NextEmpty s' := by
  ne_all N hl hs

theorem ne_kCell {g k : Nat} (N : NextEmpty s)
    (hl : s.threads[t]? = some { pc := .kCell g k, call := none })
    (hs : step s t inv lo mt rz sm sm2 pick = some s') : NextEmpty s' := by
  ne_all N hl hs

theorem ne_kLock {g k h : Nat} (N : NextEmpty s)
    (hl : s.threads[t]? = some { pc := .kLock g k h, call := none })
    (hs : step s t inv lo mt rz sm sm2 pick = some s') : NextEmpty s' := by
  ne_all N hl hs

theorem ne_kCheck {g k h : Nat} (N : NextEmpty s)
    (hl : s.threads[t]? = some { pc := .kCheck g k h, call := none })
    (hs : step s t inv lo mt rz sm sm2 pick = some s') : NextEmpty s' := by
  ne_all N hl hs

theorem ne_kBuild {g k h : Nat} (N : NextEmpty s)
    (hl : s.threads[t]? = some { pc := .kBuild g k h, call := none })
    (hs : step s t inv lo mt rz sm sm2 pick = some s') : NextEmpty s' := by
  ne_all N hl hs

theorem ne_kUnlock {h : Nat} (N : NextEmpty s)
    (hl : s.threads[t]? = some { pc := .kUnlock h, call := none })
    (hs : step s t inv lo mt rz sm sm2 pick = some s') : NextEmpty s' := by
  ne_all N hl hs

theorem ne_xNext  (N : NextEmpty s)
    (hl : s.threads[t]? = some { pc := .xNext, call := none })
    (hs : step s t inv lo mt rz sm sm2 pick = some s') : NextEmpty s' := by
  ne_all N hl hs

theorem ne_xCell {j : Nat} (N : NextEmpty s)
    (hl : s.threads[t]? = some { pc := .xCell j, call := none })
    (hs : step s t inv lo mt rz sm sm2 pick = some s') : NextEmpty s' := by
  ne_all N hl hs

theorem ne_xLock {j h : Nat} (N : NextEmpty s)
    (hl : s.threads[t]? = some { pc := .xLock j h, call := none })
    (hs : step s t inv lo mt rz sm sm2 pick = some s') : NextEmpty s' := by
  ne_all N hl hs

theorem ne_xCheck {j h : Nat} (N : NextEmpty s)
    (hl : s.threads[t]? = some { pc := .xCheck j h, call := none })
    (hs : step s t inv lo mt rz sm sm2 pick = some s') : NextEmpty s' := by
  ne_all N hl hs

theorem ne_xBuild {j h : Nat} (N : NextEmpty s)
    (hl : s.threads[t]? = some { pc := .xBuild j h, call := none })
    (hs : step s t inv lo mt rz sm sm2 pick = some s') : NextEmpty s' := by
  ne_all N hl hs

theorem ne_yMutex {j b : Nat} (N : NextEmpty s)
    (hl : s.threads[t]? = some { pc := .yMutex j b, call := none })
    (hs : step s t inv lo mt rz sm sm2 pick = some s') : NextEmpty s' := by
  ne_all N hl hs

theorem ne_yCheck {j b : Nat} (N : NextEmpty s)
    (hl : s.threads[t]? = some { pc := .yCheck j b, call := none })
    (hs : step s t inv lo mt rz sm sm2 pick = some s') : NextEmpty s' := by
  ne_all N hl hs

theorem ne_rNode {x : Option Nat} (N : NextEmpty s)
    (hl : s.threads[t]? = some { pc := .rNode x, call := some p })
    (hs : step s t inv lo mt rz sm sm2 pick = some s') : NextEmpty s' := by
  cases x <;> ne_all N hl hs

theorem ne_rState {b : Nat} {x : Option Nat} (N : NextEmpty s)
    (hl : s.threads[t]? = some { pc := .rState b x, call := some p })
    (hs : step s t inv lo mt rz sm sm2 pick = some s') : NextEmpty s' := by
  cases x <;> ne_all N hl hs

theorem ne_lNode {x : Option Nat} (N : NextEmpty s)
    (hl : s.threads[t]? = some { pc := .lNode x, call := some p })
    (hs : step s t inv lo mt rz sm sm2 pick = some s') : NextEmpty s' := by
  cases x <;> ne_all N hl hs

theorem ne_wFind {g h : Nat} {pred cur : Option Nat} (N : NextEmpty s)
    (hl : s.threads[t]? = some { pc := .wFind g h pred cur, call := some p })
    (hs : step s t inv lo mt rz sm sm2 pick = some s') : NextEmpty s' := by
  cases cur <;> ne_all N hl hs

theorem ne_xUnlock {unl : Nat ⊕ Nat} (N : NextEmpty s)
    (hl : s.threads[t]? = some { pc := .xUnlock unl, call := none })
    (hs : step s t inv lo mt rz sm sm2 pick = some s') : NextEmpty s' := by
  cases unl <;> ne_all N hl hs

theorem ne_lrTry {g b : Nat} {k : After} {res : KRes} (N : NextEmpty s)
    (hl : s.threads[t]? = some { pc := .lrTry g b k res, call := some p })
    (hs : step s t inv lo mt rz sm sm2 pick = some s') : NextEmpty s' := by
  cases k <;> ne_all N hl hs

theorem ne_lrLoop {g b : Nat} {k : After} {res : KRes} (N : NextEmpty s)
    (hl : s.threads[t]? = some { pc := .lrLoop g b k res, call := some p })
    (hs : step s t inv lo mt rz sm sm2 pick = some s') : NextEmpty s' := by
  cases k <;> ne_all N hl hs

theorem ne_wCas {g : Nat} (N : NextEmpty s) (I : GenInv s)
    (hl : s.threads[t]? = some { pc := .wCas g, call := some p })
    (hs : step s t inv lo mt rz sm sm2 pick = some s') : NextEmpty s' := by
  open_step hs hl
  split at hs
  · rename_i hc _
    cases hs
    have hc' : cellAt s g (p.key % 2 ^ g) = .empty := hc
    exact nextEmpty_put (g0 := g) (j0 := p.key % 2 ^ g) (c := .list s.heap.length) N hl rfl rfl rfl
      (Or.inl (by rw [hc']; simp)) (parent_moved_of_gen I hl rfl) rfl rfl
  · rename_i hc _
    cases hs
    have hc' : cellAt s g (p.key % 2 ^ g) = .empty := hc
    exact nextEmpty_put (g0 := g) (j0 := p.key % 2 ^ g) (c := .list s.heap.length) N hl rfl rfl rfl
      (Or.inl (by rw [hc']; simp)) (parent_moved_of_gen I hl rfl) rfl rfl
  · cases hs; exact nextEmpty_same N hl rfl rfl rfl rfl rfl

theorem ne_wStore {g h : Nat} {pred hit hnext : Option Nat} (N : NextEmpty s) (I : GenInv s)
    (hl : s.threads[t]? = some { pc := .wStore g h pred hit hnext, call := some p })
    (hs : step s t inv lo mt rz sm sm2 pick = some s') : NextEmpty s' := by
  have T := I.thr t _ hl
  open_step hs hl
  cases hs
  obtain ⟨e1, e2, e3, e4, e6, e7⟩ := storeAt_shape (tick s) g p pred hit hnext
  have hv0 : (desc s.cur { pc := Pc.wStore g h pred hit hnext, call := some p }).valid =
      some (g, p.key % 2 ^ g, .list h) := rfl
  obtain ⟨hcell, -⟩ := T.valid _ _ _ hv0
  have hthr : (setT (storeAt (tick s) g p pred hit hnext).1 t
      { pc := .wUnlock g h (storeAt (tick s) g p pred hit hnext).2 false, call := some p }).threads =
      s.threads.set t { pc := .wUnlock g h (storeAt (tick s) g p pred hit hnext).2 false, call := some p } := by
    show (storeAt _ _ _ _ _ _).1.threads.set _ _ = _; rw [e1]; rfl
  rcases e7 with e7 | ⟨c, hcm, hct, e7⟩
  · exact nextEmpty_same N hl hthr e2 e7 rfl rfl
  · exact nextEmpty_put (g0 := g) (j0 := p.key % 2 ^ g) (c := c) N hl hthr e2 e7
      (Or.inl (by rw [hcell]; simp)) (parent_moved_of_gen I hl rfl) rfl rfl

theorem ne_tUntreeify {g b : Nat} {res : KRes} (N : NextEmpty s) (I : GenInv s)
    (hl : s.threads[t]? = some { pc := .tUntreeify g b res, call := some p })
    (hs : step s t inv lo mt rz sm sm2 pick = some s') : NextEmpty s' := by
  have T := I.thr t _ hl
  open_step hs hl
  cases hs
  have hv0 : (desc s.cur { pc := Pc.tUntreeify g b res, call := some p }).valid =
      some (g, p.key % 2 ^ g, .tree b) := rfl
  obtain ⟨hcell, -⟩ := T.valid _ _ _ hv0
  exact nextEmpty_put (g0 := g) (j0 := p.key % 2 ^ g) (c := cellOfHead _) N hl rfl rfl rfl
    (Or.inl (by rw [hcell]; simp)) (parent_moved_of_gen I hl rfl) rfl rfl

theorem ne_kStore {g k h b : Nat} (N : NextEmpty s) (I : GenInv s)
    (hl : s.threads[t]? = some { pc := .kStore g k h b, call := none })
    (hs : step s t inv lo mt rz sm sm2 pick = some s') : NextEmpty s' := by
  have T := I.thr t _ hl
  open_step hs hl
  cases hs
  have hv0 : (desc s.cur { pc := Pc.kStore g k h b, call := none }).valid = some (g, k % 2 ^ g, .list h) := rfl
  obtain ⟨hcell, -⟩ := T.valid _ _ _ hv0
  exact nextEmpty_put (g0 := g) (j0 := k % 2 ^ g) (c := .tree b) N hl rfl rfl rfl
    (Or.inl (by rw [hcell]; simp)) (parent_moved_of_gen I hl rfl) rfl rfl

theorem ne_xCasMoved {j : Nat} (N : NextEmpty s)
    (hl : s.threads[t]? = some { pc := .xCasMoved j, call := none })
    (hs : step s t inv lo mt rz sm sm2 pick = some s') : NextEmpty s' := by
  open_step hs hl
  split at hs
  · cases hs
    exact nextEmpty_put (g0 := s.cur) (j0 := j) (c := .moved) N hl rfl rfl rfl (Or.inr rfl)
      (fun e => by omega) rfl rfl
  · cases hs; exact nextEmpty_same N hl rfl rfl rfl rfl rfl

theorem ne_yBuild {j b : Nat} (N : NextEmpty s)
    (hl : s.threads[t]? = some { pc := .yBuild j b, call := none })
    (hs : step s t inv lo mt rz sm sm2 pick = some s') : NextEmpty s' := by
  open_step hs hl
  generalize h1 : splitSide _ b _ sm _ = r1 at hs
  obtain ⟨s1, lo1⟩ := r1
  simp only at hs
  generalize h2 : splitSide s1 b _ sm2 _ = r2 at hs
  obtain ⟨s2, hi2⟩ := r2
  simp only at hs
  cases hs
  obtain ⟨a1, a2, a3, a4, -⟩ := splitSide_shape' h1
  obtain ⟨b1, b2, b3, b4, -⟩ := splitSide_shape' h2
  exact nextEmpty_same (l' := { pc := .xStoreLow j (.inr b) lo1 hi2, call := none }) N hl
    (by show s2.threads.set _ _ = _; rw [b4, a4]) (b2.trans a2) (b1.trans a1) rfl rfl

theorem ne_xStoreLow {j : Nat} {unl : Nat ⊕ Nat} {c1 c2 : Cell} (N : NextEmpty s)
    (hl : s.threads[t]? = some { pc := .xStoreLow j unl c1 c2, call := none })
    (hs : step s t inv lo mt rz sm sm2 pick = some s') : NextEmpty s' := by
  have ht : t < s.threads.length := (List.getElem?_eq_some_iff.1 hl).1
  open_step hs hl
  cases hs
  have hne : ∀ g j0, ¬ (g = s.cur + 1 ∧ j0 = j) → cellT (s.tabs.modify (s.cur + 1) (fun row => row.set j c1)) g j0 =
      cellAt s g j0 := fun g j0 h => cellT_put_ne _ _ h
  refine nextEmpty_frame N hl rfl rfl ?_ ?_ ?_
  · intro j0 hm
    exact (hne _ _ (by intro ⟨h, _⟩; omega)).trans hm
  · intro j' h
    by_cases e : j' = j
    · subst e
      exact Or.inr (Or.inr ⟨t, _, List.getElem?_set_self ht, Or.inl rfl⟩)
    · have h' : cellT (s.tabs.modify (s.cur + 1) (fun row => row.set j c1)) (s.cur + 1) j' ≠ .empty := h
      rw [hne _ _ (by intro ⟨_, h⟩; exact e h)] at h'
      exact Or.inl h'
  · intro j' h
    exact Or.inl (h.of_set hl rfl rfl (fun e => by cases e) (fun j0 e => by cases e))

theorem ne_xStoreHigh {j : Nat} {unl : Nat ⊕ Nat} {c2 : Cell} (N : NextEmpty s)
    (hl : s.threads[t]? = some { pc := .xStoreHigh j unl c2, call := none })
    (hs : step s t inv lo mt rz sm sm2 pick = some s') : NextEmpty s' := by
  have ht : t < s.threads.length := (List.getElem?_eq_some_iff.1 hl).1
  open_step hs hl
  cases hs
  have hne : ∀ g j0, ¬ (g = s.cur + 1 ∧ j0 = j + 2 ^ s.cur) →
      cellT (s.tabs.modify (s.cur + 1) (fun row => row.set (j + 2 ^ s.cur) c2)) g j0 = cellAt s g j0 :=
    fun g j0 h => cellT_put_ne _ _ h
  refine nextEmpty_frame N hl rfl rfl ?_ ?_ ?_
  · intro j0 hm
    exact (hne _ _ (by intro ⟨h, _⟩; omega)).trans hm
  · intro j' h
    by_cases e : j' = j + 2 ^ s.cur
    · subst e
      exact Or.inr (Or.inr ⟨t, _, List.getElem?_set_self ht, Or.inr ⟨j, rfl, rfl⟩⟩)
    · have h' : cellT (s.tabs.modify (s.cur + 1) (fun row => row.set (j + 2 ^ s.cur) c2)) (s.cur + 1) j' ≠ .empty := h
      rw [hne _ _ (by intro ⟨_, h⟩; exact e h)] at h'
      exact Or.inl h'
  · intro j' h
    exact Or.inl (h.of_set hl rfl rfl (fun e => e) (fun j0 e => by cases e))

theorem ne_xStoreMoved {j : Nat} {unl : Nat ⊕ Nat} (N : NextEmpty s) (I : GenInv s)
    (hl : s.threads[t]? = some { pc := .xStoreMoved j unl, call := none })
    (hs : step s t inv lo mt rz sm sm2 pick = some s') : NextEmpty s' := by
  have T := I.thr t _ hl
  have hj := T.idx j rfl
  have ht : t < s.threads.length := (List.getElem?_eq_some_iff.1 hl).1
  have hrow := I.row_cur
  open_step hs hl
  cases hs
  obtain ⟨row, hr, hlen⟩ := hrow
  have hself : cellT (s.tabs.modify s.cur (fun row => row.set j .moved)) s.cur j = .moved :=
    cellT_put_self_eq _ _ hr (by omega)
  have hne : ∀ g j0, ¬ (g = s.cur ∧ j0 = j) → cellT (s.tabs.modify s.cur (fun row => row.set j .moved)) g j0 =
      cellAt s g j0 := fun g j0 h => cellT_put_ne _ _ h
  refine nextEmpty_frame N hl rfl rfl ?_ ?_ ?_
  · intro j0 hm
    by_cases e : j0 = j
    · subst e; exact hself
    · exact (hne _ _ (by intro ⟨_, h⟩; exact e h)).trans hm
  · intro j' h
    have h' : cellT (s.tabs.modify s.cur (fun row => row.set j .moved)) (s.cur + 1) j' ≠ .empty := h
    rw [hne _ _ (by intro ⟨h, _⟩; omega)] at h'
    exact Or.inl h'
  · intro j' h
    obtain ⟨t1, l1, h1, hw⟩ := h
    by_cases e : t1 = t
    · subst e
      rw [hl] at h1; cases h1
      right
      rcases hw with hw | ⟨j0, hw, hj0⟩
      · have : j = j' := by simpa [storedLow] using hw
        subst this
        rw [Nat.mod_eq_of_lt hj]; exact hself
      · have : j = j0 := by simpa [storedHigh] using hw
        subst this
        rw [hj0, high_mod _ _ hj]; exact hself
    · exact Or.inl ⟨t1, l1, by show (s.threads.set _ _)[t1]? = _; rw [List.getElem?_set_ne (Ne.symm e)]; exact h1, hw⟩

theorem ne_xCommit  (N : NextEmpty s) (I : GenInv s)
    (hl : s.threads[t]? = some { pc := .xCommit, call := none })
    (hs : step s t inv lo mt rz sm sm2 pick = some s') : NextEmpty s' := by
  have T := I.thr t _ hl
  have R := T.tres rfl
  open_step hs hl
  cases hs
  intro j' hne
  exfalso
  apply hne
  have hlen : s.tabs.length = s.cur + 2 := by have := I.len; rw [R] at this; simpa using this
  show cellT s.tabs (s.cur + 1 + 1) j' = _
  have e : s.tabs.getD (s.cur + 1 + 1) [] = [] := by
    rw [getD_eq, List.getElem?_eq_none (by omega)]; rfl
  unfold cellT
  rw [e]; simp

theorem ne_idle (N : NextEmpty s) (I : GenInv s) (hl : s.threads[t]? = some { pc := .idle, call := c })
    (hs : step s t inv lo mt rz sm sm2 pick = some s') : NextEmpty s' := by
  unfold step stepG at hs; rw [hl] at hs; simp only at hs
  split at hs
  · split at hs
    · cases hs
      exact nextEmpty_same (l' := { pc := .idle, call := c }) N hl (set_same hl) rfl rfl rfl rfl
    · rename_i hr
      cases hs
      intro j' hne
      exfalso
      apply hne
      have hr' : s.resizing = false := by simpa using hr
      have hlen : s.tabs.length = s.cur + 1 := by have := I.len; rw [hr'] at this; simpa using this
      show cellT (s.tabs ++ [List.replicate (2 ^ (s.cur + 1)) (.empty : Cell)]) (s.cur + 1) j' = _
      rw [cellT_alloc]
      have e : s.tabs.getD (s.cur + 1) [] = [] := by
        rw [getD_eq, List.getElem?_eq_none (by omega)]; rfl
      unfold cellT
      rw [e]; simp
  · split at hs
    · cases hs; exact nextEmpty_same N hl rfl rfl rfl rfl rfl
    · split at hs
      · cases hs
        exact nextEmpty_same (l' := { pc := .idle, call := c }) N hl (set_same hl) rfl rfl rfl rfl
      · cases hs
        split <;> exact nextEmpty_same N hl rfl rfl rfl rfl rfl

end

theorem init_nextEmpty (n : Nat) : NextEmpty (init n) := by
  intro j' hne
  exfalso
  apply hne
  show cellT [[(.empty : Cell)]] 1 j' = _
  unfold cellT; simp

theorem step_nextEmpty {s s' : State} {t : Nat} {inv : Option (Nat × KOp)} {lo : Bool} {mt : Option Nat}
    {rz sm sm2 : Bool} {pick : Nat} (I : GenInv s) (N : NextEmpty s)
    (hs : step s t inv lo mt rz sm sm2 pick = some s') : NextEmpty s' := by
  cases hl : s.threads[t]? with
  | none => unfold step stepG at hs; rw [hl] at hs; cases hs
  | some l =>
    obtain ⟨pc, call⟩ := l
    cases pc with
    | idle => exact ne_idle N I hl hs
    | rTable x => cases call with
      | none => unfold step stepG at hs; rw [hl] at hs; simp at hs
      | some p => exact ne_rTable N hl hs
    | rCell x g => cases call with
      | none => unfold step stepG at hs; rw [hl] at hs; simp at hs
      | some p => exact ne_rCell N hl hs
    | rFirst b => cases call with
      | none => unfold step stepG at hs; rw [hl] at hs; simp at hs
      | some p => exact ne_rFirst N hl hs
    | rLin b x => cases call with
      | none => unfold step stepG at hs; rw [hl] at hs; simp at hs
      | some p => exact ne_rLin N hl hs
    | rCas b x r => cases call with
      | none => unfold step stepG at hs; rw [hl] at hs; simp at hs
      | some p => exact ne_rCas N hl hs
    | rTree b => cases call with
      | none => unfold step stepG at hs; rw [hl] at hs; simp at hs
      | some p => exact ne_rTree N hl hs
    | rRelease b x => cases call with
      | none => unfold step stepG at hs; rw [hl] at hs; simp at hs
      | some p => exact ne_rRelease N hl hs
    | rVal x => cases call with
      | none => unfold step stepG at hs; rw [hl] at hs; simp at hs
      | some p => exact ne_rVal N hl hs
    | lFirst b => cases call with
      | none => unfold step stepG at hs; rw [hl] at hs; simp at hs
      | some p => exact ne_lFirst N hl hs
    | wTable => cases call with
      | none => unfold step stepG at hs; rw [hl] at hs; simp at hs
      | some p => exact ne_wTable N hl hs
    | wCell g => cases call with
      | none => unfold step stepG at hs; rw [hl] at hs; simp at hs
      | some p => exact ne_wCell N hl hs
    | wLock g h => cases call with
      | none => unfold step stepG at hs; rw [hl] at hs; simp at hs
      | some p => exact ne_wLock N hl hs
    | wCheck g h => cases call with
      | none => unfold step stepG at hs; rw [hl] at hs; simp at hs
      | some p => exact ne_wCheck N hl hs
    | wUnlock g h res retry => cases call with
      | none => unfold step stepG at hs; rw [hl] at hs; simp at hs
      | some p => exact ne_wUnlock N hl hs
    | tMutex g b => cases call with
      | none => unfold step stepG at hs; rw [hl] at hs; simp at hs
      | some p => exact ne_tMutex N hl hs
    | tCheck g b => cases call with
      | none => unfold step stepG at hs; rw [hl] at hs; simp at hs
      | some p => exact ne_tCheck N hl hs
    | tFind g b => cases call with
      | none => unfold step stepG at hs; rw [hl] at hs; simp at hs
      | some p => exact ne_tFind N hl hs
    | tVal g b i v res => cases call with
      | none => unfold step stepG at hs; rw [hl] at hs; simp at hs
      | some p => exact ne_tVal N hl hs
    | tPrependLocked g b => cases call with
      | none => unfold step stepG at hs; rw [hl] at hs; simp at hs
      | some p => exact ne_tPrependLocked N hl hs
    | tTreeLinkLocked g b x => cases call with
      | none => unfold step stepG at hs; rw [hl] at hs; simp at hs
      | some p => exact ne_tTreeLinkLocked N hl hs
    | tUnlinkLocked g b i res => cases call with
      | none => unfold step stepG at hs; rw [hl] at hs; simp at hs
      | some p => exact ne_tUnlinkLocked N hl hs
    | tRestructure g b i res => cases call with
      | none => unfold step stepG at hs; rw [hl] at hs; simp at hs
      | some p => exact ne_tRestructure N hl hs
    | tUnlockRoot g b res => cases call with
      | none => unfold step stepG at hs; rw [hl] at hs; simp at hs
      | some p => exact ne_tUnlockRoot N hl hs
    | tUnlockM g b res retry => cases call with
      | none => unfold step stepG at hs; rw [hl] at hs; simp at hs
      | some p => exact ne_tUnlockM N hl hs
    | kTable k => cases call with
      | some p => unfold step stepG at hs; rw [hl] at hs; simp at hs
      | none => exact ne_kTable N hl hs
    | kCell g k => cases call with
      | some p => unfold step stepG at hs; rw [hl] at hs; simp at hs
      | none => exact ne_kCell N hl hs
    | kLock g k h => cases call with
      | some p => unfold step stepG at hs; rw [hl] at hs; simp at hs
      | none => exact ne_kLock N hl hs
    | kCheck g k h => cases call with
      | some p => unfold step stepG at hs; rw [hl] at hs; simp at hs
      | none => exact ne_kCheck N hl hs
    | kBuild g k h => cases call with
      | some p => unfold step stepG at hs; rw [hl] at hs; simp at hs
      | none => exact ne_kBuild N hl hs
    | kUnlock h => cases call with
      | some p => unfold step stepG at hs; rw [hl] at hs; simp at hs
      | none => exact ne_kUnlock N hl hs
    | xNext => cases call with
      | some p => unfold step stepG at hs; rw [hl] at hs; simp at hs
      | none => exact ne_xNext N hl hs
    | xCell j => cases call with
      | some p => unfold step stepG at hs; rw [hl] at hs; simp at hs
      | none => exact ne_xCell N hl hs
    | xLock j h => cases call with
      | some p => unfold step stepG at hs; rw [hl] at hs; simp at hs
      | none => exact ne_xLock N hl hs
    | xCheck j h => cases call with
      | some p => unfold step stepG at hs; rw [hl] at hs; simp at hs
      | none => exact ne_xCheck N hl hs
    | xBuild j h => cases call with
      | some p => unfold step stepG at hs; rw [hl] at hs; simp at hs
      | none => exact ne_xBuild N hl hs
    | yMutex j b => cases call with
      | some p => unfold step stepG at hs; rw [hl] at hs; simp at hs
      | none => exact ne_yMutex N hl hs
    | yCheck j b => cases call with
      | some p => unfold step stepG at hs; rw [hl] at hs; simp at hs
      | none => exact ne_yCheck N hl hs
    | rNode x => cases call with
      | none => unfold step stepG at hs; rw [hl] at hs; simp at hs
      | some p => exact ne_rNode N hl hs
    | rState b x => cases call with
      | none => unfold step stepG at hs; rw [hl] at hs; simp at hs
      | some p => exact ne_rState N hl hs
    | lNode x => cases call with
      | none => unfold step stepG at hs; rw [hl] at hs; simp at hs
      | some p => exact ne_lNode N hl hs
    | wFind g h pred cur => cases call with
      | none => unfold step stepG at hs; rw [hl] at hs; simp at hs
      | some p => exact ne_wFind N hl hs
    | xUnlock unl => cases call with
      | some p => unfold step stepG at hs; rw [hl] at hs; simp at hs
      | none => exact ne_xUnlock N hl hs
    | lrTry g b k res => cases call with
      | none => unfold step stepG at hs; rw [hl] at hs; simp at hs
      | some p => exact ne_lrTry N hl hs
    | lrLoop g b k res => cases call with
      | none => unfold step stepG at hs; rw [hl] at hs; simp at hs
      | some p => exact ne_lrLoop N hl hs
    | wCas g => cases call with
      | none => unfold step stepG at hs; rw [hl] at hs; simp at hs
      | some p => exact ne_wCas N I hl hs
    | wStore g h pred hit hnext => cases call with
      | none => unfold step stepG at hs; rw [hl] at hs; simp at hs
      | some p => exact ne_wStore N I hl hs
    | tUntreeify g b res => cases call with
      | none => unfold step stepG at hs; rw [hl] at hs; simp at hs
      | some p => exact ne_tUntreeify N I hl hs
    | kStore g k h b => cases call with
      | some p => unfold step stepG at hs; rw [hl] at hs; simp at hs
      | none => exact ne_kStore N I hl hs
    | xCasMoved j => cases call with
      | some p => unfold step stepG at hs; rw [hl] at hs; simp at hs
      | none => exact ne_xCasMoved N hl hs
    | yBuild j b => cases call with
      | some p => unfold step stepG at hs; rw [hl] at hs; simp at hs
      | none => exact ne_yBuild N hl hs
    | xStoreLow j unl c1 c2 => cases call with
      | some p => unfold step stepG at hs; rw [hl] at hs; simp at hs
      | none => exact ne_xStoreLow N hl hs
    | xStoreHigh j unl c2 => cases call with
      | some p => unfold step stepG at hs; rw [hl] at hs; simp at hs
      | none => exact ne_xStoreHigh N hl hs
    | xStoreMoved j unl => cases call with
      | some p => unfold step stepG at hs; rw [hl] at hs; simp at hs
      | none => exact ne_xStoreMoved N I hl hs
    | xCommit => cases call with
      | some p => unfold step stepG at hs; rw [hl] at hs; simp at hs
      | none => exact ne_xCommit N I hl hs

theorem reachable_nextEmpty {n : Nat} {s : State} (hr : Reachable n s) : GenInv s ∧ NextEmpty s := by
  induction hr with
  | init => exact ⟨init_geninv n, init_nextEmpty n⟩
  | step t inv lo mt rz sm sm2 pick _ hs ih => exact ⟨step_geninv ih.1 hs, step_nextEmpty ih.1 ih.2 hs⟩

end Flurry.Proto.BinGN
