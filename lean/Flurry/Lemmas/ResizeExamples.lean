import Flurry.Lemmas.ResizeProgress
/-! # Proto/Resize: concrete runs (checked by `decide`) and the counterexample to the literal
statements of targets 1 and 2 -/
namespace Flurry.Proto.Resize

/-- `k` consecutive steps `p` -/
def rep (k : Nat) (p : Nat × Nat) : List (Nat × Nat) := List.replicate k p

/-- the run exists and its final state satisfies `p` -/
def check (o : Option State) (p : State → Bool) : Bool :=
  match o with
  | some s => p s
  | none => false

def allIdleB (s : State) : Bool := s.threads.all (fun l => l.pc == .idle)

/-! ## a single thread resizes a 32-bin table with stride 16 -/

/-- thread 0: initiate, claim once (gets `i = n = 32`, takes the "done" branch at once), leave as the
last participant = become the finisher, sweep all 32 bins, publish -/
def single : List (Nat × Nat) := (0, 1) :: rep 109 (0, 0)

/-- after 9 steps: the first claim lowered `transfer_index` to 16 and gave `i = 32 = n`; without
touching a bin the thread left, and as last participant it is now the finisher, about to sweep -/
example : check (run (init 32 1 16) (single.take 9)) (fun s =>
    s.sizeCtl == .resizing 0 1 && s.transferIndex == 16 && s.moved == List.replicate 32 false &&
    s.threads.all (fun l => l.pc == .claimLoad && l.finishing && l.advance && l.i == 32 && l.bound == 16))
    = true := by decide

/-- after 107 steps the finisher has swept (and here: migrated itself) all 32 bins, once each -/
example : check (run (init 32 1 16) (single.take 107)) (fun s =>
    s.migrations == List.replicate 32 1 && s.moved == List.replicate 32 true &&
    s.threads.all (fun l => l.pc == .pubClearNext)) = true := by decide

/-- end of the run: published once, 64 bins, threshold 48, everybody idle.
`transfer_index` is left at 16 (the stride that was claimed but skipped is never un-claimed) -/
example : check (run (init 32 1 16) single) (fun s =>
    allIdleB s && s.gen == 1 && s.n == 64 && s.sizeCtl == .idle 48 && s.nextTable == false &&
    s.published == [1] && s.transferIndex == 16) = true := by decide

/-! ## two threads: a claimed stride is skipped and later covered by the finisher -/

/-- thread 0 initiates and claims `[16, 32)` with `i = 32`: "done" at once. Thread 1 joins through
`add_count` (five accesses: `size_ctl`, `table`, `next_table`, `transfer_index`, CAS). Thread 0
leaves (not last) without having touched a single bin of its stride. Thread 1 claims `[0, 16)` with
`i = 16`, so it processes bins `16, 15, …, 0` (one bin into thread 0's stride), finds nothing left to
claim, leaves as the last participant, becomes the finisher, and its sweep `31, …, 0` migrates the
skipped bins `31 … 17` and sees `16 … 0` already moved. -/
def two : List (Nat × Nat) :=
  (0, 1) :: rep 6 (0, 0) ++ [(1, 2), (1, 0), (1, 0), (1, 0), (1, 0)] ++ rep 2 (0, 0) ++ rep 157 (1, 0)

/-- thread 0 is gone (idle, `i = 32`, `bound = 16` never processed); thread 1 has just become the
finisher; bins `0 … 16` are moved, bins `17 … 31` – the rest of thread 0's stride – are not -/
example : check (run (init 32 2 16) (two.take 70)) (fun s =>
    s.sizeCtl == .resizing 0 1 && s.transferIndex == 0 &&
    s.moved == List.replicate 17 true ++ List.replicate 15 false &&
    s.migrations == List.replicate 17 1 ++ List.replicate 15 0 &&
    (s.threads.map (fun l => (l.pc, l.i, l.bound, l.finishing))) ==
      [(.idle, 32, 16, false), (.claimLoad, 32, 0, true)]) = true := by decide

/-- the finisher's sweep has covered the skipped stride: every bin migrated exactly once -/
example : check (run (init 32 2 16) (two.take 168)) (fun s =>
    s.migrations == List.replicate 32 1 && s.moved == List.replicate 32 true &&
    (s.threads.map (·.pc)) == [.idle, .pubClearNext]) = true := by decide

example : check (run (init 32 2 16) two) (fun s =>
    allIdleB s && s.gen == 1 && s.n == 64 && s.sizeCtl == .idle 48 && s.nextTable == false &&
    s.published == [1] && s.migrations == List.replicate 64 0) = true := by decide

/-! ## the stale-stamp window: targets 1 and 2 as literally stated fail at `pubStoreCtl` -/

/-- one thread resizes a 1-bin table and stops right after `table.swap(next)` -/
def toStoreCtl : List (Nat × Nat) := (0, 1) :: rep 15 (0, 0)

/-- between `pubSwapTable` and `pubStoreCtl` the word still carries the stamp of the previous
generation: `s.sizeCtl = resizing g c` does **not** imply `g = s.gen`, and a finisher exists while
`s.sizeCtl ≠ resizing s.gen 1`. (`count_invariant` and `single_finisher_word` state the exact
shape.) -/
theorem stale_stamp_window :
    ∃ s, Reachable 1 1 1 s ∧ s.sizeCtl = .resizing 0 1 ∧ s.gen = 1 ∧
      ∃ l ∈ s.threads, isFinisher l = true ∧ l.pc = .pubStoreCtl := by
  have hc : check (run (init 1 1 1) toStoreCtl) (fun s =>
      s.sizeCtl == .resizing 0 1 && s.gen == 1 &&
      s.threads.any (fun l => isFinisher l && l.pc == .pubStoreCtl)) = true := by decide
  cases hrun : run (init 1 1 1) toStoreCtl with
  | none => rw [hrun] at hc; simp [check] at hc
  | some s =>
    rw [hrun] at hc
    simp only [check, Bool.and_eq_true, beq_iff_eq, List.any_eq_true] at hc
    obtain ⟨⟨h1, h2⟩, l, hl, h3, h4⟩ := hc
    exact ⟨s, reachable_run Reachable.init hrun, h1, h2, l, hl, h3, h4⟩

/-! ## an observation about `transfer_index` (harmless, covered by the theorems)

Because the first claimer leaves without resetting anything, `transfer_index` can stay positive
after a resize (`16` above). In the next generation a helper that sees the new `next_table` before
the initiator has executed `transfer_index.store(n)` passes the `transfer_index > 0` check against
the *stale* value, joins, and claims `[0, 16)` of the new 64-bin table; the initiator's store then
overwrites the index with `64`. All safety theorems hold for this interleaving too (the claimed
range is inside the new table and is simply visited again later). -/
def staleIndex : List (Nat × Nat) :=
  single ++ [(0, 1), (0, 0), (0, 0)] ++ (1, 2) :: rep 6 (1, 0) ++ [(0, 0)]

/-- thread 1 has claimed from the stale index (`i = 16`, `bound = 0`, index now `0`) although the
initiator (thread 0) is still at `storeIndex` -/
example : check (run (init 32 2 16) (staleIndex.take 120)) (fun s =>
    s.gen == 1 && s.n == 64 && s.sizeCtl == .resizing 1 3 && s.transferIndex == 0 &&
    (s.threads.map (fun l => (l.pc, l.i, l.bound))) == [(.storeIndex, -1, 16), (.dispatch, 16, 0)])
    = true := by decide

/-- … and then the initiator's store resets the index to `n = 64` -/
example : check (run (init 32 2 16) staleIndex) (fun s =>
    s.transferIndex == 64 && (s.threads.map (·.pc)) == [.claimLoad, .dispatch]) = true := by decide

/-! ## finding F6: what the generation comparison in `help_transfer` is for

Table of 2 bins, 2 threads, stride 1. Thread 1 resizes generation 0 alone up to the point where it is
the finisher at `pubClearNext` (17 steps). Thread 0 then meets a forwarding marker: it holds the
tables of generation 0 (`(0, 3)`), validates `next_table == self.next_table` (`(0, 0)`); thread 1
clears `next_table`; thread 0 validates `table == self.table` – still true; thread 1 swaps the table
(generation 1) and stores the idle word, and immediately initiates the resize of generation 1: the
word is `resizing 1 2`. Only now thread 0 loads `size_ctl`. The word is of another generation than
the tables thread 0 holds, `cnt = 2` is neither `1` nor `MAX_RESIZERS`, `transfer_index` is still
positive (left over, see below) – without the comparison of the stamps the CAS `resizing 1 2 → resizing 1 3`
succeeds and thread 0 has joined the resize of generation 1 with the tables of generation 0. -/
def staleJoin : List (Nat × Nat) :=
  [(1, 1), (1, 0), (1, 0), (1, 0), (1, 0), (1, 0), (1, 0), (1, 0), (1, 0), (1, 0), (1, 0), (1, 0),
   (1, 0), (1, 0), (1, 0), (1, 0), (1, 0), (0, 3), (0, 0), (1, 0), (0, 0), (1, 0), (1, 0), (1, 1),
   (1, 0), (0, 0), (0, 0), (0, 0)]

/-- without the generation comparison the schedule ends with a stale join … -/
example : (run (init 2 2 1 false) staleJoin).map (·.staleJoins) = some 1 := by decide

/-- … the word counts a participant nobody knows (`resizing 1 3` with one participant) -/
example : check (run (init 2 2 1 false) staleJoin) (fun s =>
    s.gen == 1 && s.sizeCtl == .resizing 1 3 && numParticipants s == 1 &&
    (s.threads.map (fun l => (l.pc, l.heldGen))) == [(.idle, 0), (.swapNext, 0)]) = true := by decide

/-- the situation just before the CAS: thread 0 holds generation 0 and a word of generation 1 -/
example : check (run (init 2 2 1 false) (staleJoin.take 27)) (fun s =>
    s.gen == 1 && s.sizeCtl == .resizing 1 2 && s.transferIndex == 1 &&
    (s.threads.map (fun l => (l.pc, l.heldGen))) ==
      [(.casJoin (.resizing 1 2), 0), (.swapNext, 0)]) = true := by decide

/-- with the comparison (the code as it is) the same schedule has no stale join: thread 0 is refused
at the load of `size_ctl` (and its last two steps are idle steps) -/
example : (run (init 2 2 1 true) staleJoin).map (·.staleJoins) = some 0 := by decide

example : check (run (init 2 2 1 true) (staleJoin.take 26)) (fun s =>
    s.gen == 1 && s.sizeCtl == .resizing 1 2 &&
    (s.threads.map (fun l => (l.pc, l.heldGen))) == [(.idle, 0), (.swapNext, 0)]) = true := by decide

/-- the same, as a statement about reachable states (`Reachable` has the comparison in place) -/
example : ∃ s, Reachable 2 2 1 s ∧ s.gen = 1 ∧ s.sizeCtl = .resizing 1 2 ∧ s.staleJoins = 0 := by
  have hc : check (run (init 2 2 1) staleJoin) (fun s =>
      s.gen == 1 && s.sizeCtl == .resizing 1 2 && s.staleJoins == 0) = true := by decide
  cases hrun : run (init 2 2 1) staleJoin with
  | none => rw [hrun] at hc; simp [check] at hc
  | some s =>
    rw [hrun] at hc
    simp only [check, Bool.and_eq_true, beq_iff_eq] at hc
    exact ⟨s, reachable_run Reachable.init hrun, hc.1.1, hc.1.2, hc.2⟩

/-! ## the measure on a concrete run: `mu` strictly decreases along the 157 steps of thread 1 -/

def muTrace (s : State) : List (Nat × Nat) → List Nat
  | [] => [mu s]
  | (t, c) :: r => mu s :: (match step s t c with | some s' => muTrace s' r | none => [])

def strictlyDecreasing : List Nat → Bool
  | a :: b :: r => decide (b < a) && strictlyDecreasing (b :: r)
  | _ => true

example : check (run (init 32 2 16) (two.take 14)) (fun s =>
    strictlyDecreasing (muTrace s (rep 157 (1, 0)))) = true := by decide

end Flurry.Proto.Resize
