import Flurry.Lemmas.BinNStore
import Flurry.Lemmas.BinNSurgery
import Flurry.Lemmas.BinNHMSurgery
import Flurry.Lemmas.BinXStore
/-! # Proto/BinNH — port of the `Proto/BinN` lemma file of the same name to the heap invariant with ONE
MID-TRANSFER CELL PER HELPER (`Lemmas/BinNHMDefs.lean`); statements about `BinN.State`. Original header: the store of a validated writer (C01)

`store_effect`: thanks to the validated lock the positions a writer remembered during its walk
(`Walk`) are the current ones, so storing through them is one of the list surgeries on the chain of
its (active) cell: it is the specification step on its own key and leaves every other key alone. -/
namespace Flurry.Proto.BinNHM
open Flurry.Proto.BinN
open Flurry.Lin
open Flurry.Proto.BinX (NodeS Cell Pending isReader dflt chainFrom cellHead cellOfHead nodeAt IsSeg IsChain chainH
  chainH_empty chainH_moved absIn absIn_eq_some_iff absIn_eq_none_iff KeysDistinct Walk Walk.hit_some Walk.hit_none
  Walk.cur_mem)

theorem getCell_setNode (s : State) (i : Nat) (f : NodeS → NodeS) (id : CellId) :
    getCell (setNode s i f) id = getCell s id := rfl

/-- what the store of a writer guarantees -/
def StoreOK (s : State) (G : Ghost) (id : CellId) (p : Pending) (r : State × KRes) : Prop :=
  Effect s r.1 G id ∧ r.1.threads = s.threads ∧ r.1.hist = s.hist ∧ r.1.now = s.now ∧
  r.1.resizing = s.resizing ∧
  specStep (absOf s p.key) p.op = (absOf r.1 p.key, r.2) ∧ ∀ k, k ≠ p.key → absOf r.1 k = absOf s k

theorem absOf_active {s : State} {G : Ghost} {id : CellId} (H : HInv s G) (act : Active s G id) {k : Nat}
    (hk : keyOn id k) : absOf s k = absIn s.heap (chId s id) k := by
  rw [absOf_eq, H.LC_eq k, H.liveId_of_active act hk]

/-- the tables are the same: the two shape facts of `Update` -/
theorem rows_of_tabs_eq {s s' : State} (ht : s'.tabs = s.tabs) :
    ∀ (g : Nat) (row' : List Cell), s'.tabs[g]? = some row' →
      ∃ row : List Cell, s.tabs[g]? = some row ∧ row'.length = row.length :=
  fun _ row' hr => ⟨row', by rw [← ht]; exact hr, rfl⟩

theorem storeOK_swap {s : State} {G : Ghost} {id : CellId} (H : HInv s G) (act : Active s G id) (p : Pending)
    (hk : keyOn id p.key) {i : Nat} {v : Nat × Nat} {res : KRes}
    (hi : i ∈ chId s id) (hik : (nodeAt s.heap i).key = p.key)
    (hspec : specStep (some (nodeAt s.heap i).val) p.op = (some v, res)) :
    StoreOK s G id p (setNode s i (fun n => { n with val := v }), res) := by
  obtain ⟨he, hab⟩ := swap_effect (s' := setNode s i (fun n => { n with val := v })) H act hi rfl
    (fun id' => getCell_setNode s i _ id') rfl rfl rfl (rows_of_tabs_eq rfl)
  refine ⟨he, rfl, rfl, rfl, rfl, ?_, ?_⟩
  · rw [absOf_active H act hk, (absIn_eq_some_iff (H.keys id)).2 ⟨i, hi, hik, rfl⟩, hspec, hab, if_pos hik]
  · intro k hkne
    rw [hab, if_neg (by rw [hik]; exact fun h => hkne h.symm)]

theorem storeOK_noop {s : State} {G : Ghost} {id : CellId} (H : HInv s G) (act : Active s G id) (p : Pending)
    {res : KRes}
    (hspec : specStep (absOf s p.key) p.op = (absOf s p.key, res)) : StoreOK s G id p (s, res) := by
  obtain ⟨he, hab⟩ := noop_effect (s' := s) H act rfl rfl rfl rfl
  exact ⟨he, rfl, rfl, rfl, rfl, hspec, fun _ _ => rfl⟩

theorem setCell_frame (s : State) (g k : Nat) (c : Cell) :
    (setCell s g k c).heap = s.heap ∧ (setCell s g k c).threads = s.threads ∧
    (setCell s g k c).hist = s.hist ∧ (setCell s g k c).now = s.now ∧ (setCell s g k c).cur = s.cur ∧
    (setCell s g k c).resizing = s.resizing := ⟨rfl, rfl, rfl, rfl, rfl, rfl⟩

/-- a store into a cell keeps the shape of the tables -/
theorem setCell_shape (s : State) (g k : Nat) (c : Cell) :
    (setCell s g k c).tabs.length = s.tabs.length ∧
    ∀ (g' : Nat) (row' : List Cell), (setCell s g k c).tabs[g']? = some row' →
      ∃ row : List Cell, s.tabs[g']? = some row ∧ row'.length = row.length := by
  refine ⟨by simp [setCell, putCell], ?_⟩
  intro g' row' hr'
  have e : (setCell s g k c).tabs = s.tabs.modify g (fun row => row.set (k % 2 ^ g) c) := rfl
  rw [e, List.getElem?_modify] at hr'
  cases hr : s.tabs[g']? with
  | none => rw [hr] at hr'; cases hr'
  | some row =>
    rw [hr] at hr'
    simp only [Option.map_eq_map, Option.map_some, Option.some.injEq] at hr'
    refine ⟨row, rfl, ?_⟩
    rw [← hr']
    split <;> simp

/-- the cell exists: the store is seen -/
theorem getCell_setCell (s : State) (g k : Nat) (c : Cell) {row : List Cell} (hr : s.tabs[g]? = some row)
    (hj : k % 2 ^ g < row.length) (id' : CellId) :
    getCell (setCell s g k c) id' = if id' = cellId g k then c else getCell s id' := by
  by_cases hid : id' = cellId g k
  · subst hid
    rw [if_pos rfl]
    show cellAt (putCell s g (k % 2 ^ g) c) g (k % 2 ^ g) = c
    rw [cellAt_eq, putCell_tabs]
    exact cellT_put_self_eq s.tabs c hr hj
  · rw [if_neg hid]
    obtain ⟨g', j'⟩ := id'
    show cellAt (putCell s g (k % 2 ^ g) c) g' j' = cellAt s g' j'
    refine cellAt_putCell_ne s c ?_
    rintro ⟨rfl, rfl⟩
    exact hid rfl

/-- an active cell is inside the tables -/
theorem Active.inTabs {s : State} {G : Ghost} {id : CellId} (S : Shape s) (act : Active s G id) :
    ∃ row, s.tabs[id.1]? = some row ∧ id.2 < row.length := by
  obtain ⟨g, j⟩ := id
  have hg : g < s.tabs.length ∧ j < 2 ^ g := by
    rcases act with ⟨hg, hj, -, -⟩ | ⟨hg, hj, hpar⟩
    · simp only at hg hj
      subst hg
      exact ⟨S.cur_lt, hj⟩
    · simp only at hg hj hpar
      subst hg
      have hr := S.curMoved _ hpar
      have := S.len
      rw [hr] at this
      simp only [if_true] at this
      exact ⟨by omega, hj⟩
  refine ⟨s.tabs[g], List.getElem?_eq_getElem hg.1, ?_⟩
  rw [S.rows g _ (List.getElem?_eq_getElem hg.1)]
  exact hg.2

theorem Active.inTabs_key {s : State} {G : Ghost} {g k : Nat} (S : Shape s) (act : Active s G (cellId g k)) :
    ∃ row, s.tabs[g]? = some row ∧ k % 2 ^ g < row.length := act.inTabs S

/-- the unlink store of `storeAt` -/
def unlinkAt (s : State) (g : Nat) (key : Nat) (pred hnext : Option Nat) : State :=
  match pred with
  | some pr => setNode s pr (fun m => { m with next := hnext })
  | none => setCell s g key (match hnext with | some x => .node x | none => .empty)

/-- the append store of `storeAt` -/
def appendAt (s : State) (g : Nat) (key : Nat) (pred : Option Nat) (v : Nat × Nat) : State :=
  match pred with
  | some l => setNode { s with heap := s.heap ++ [(⟨key, v, none, none⟩ : NodeS)] } l
      (fun n => { n with next := some s.heap.length })
  | none => setCell { s with heap := s.heap ++ [(⟨key, v, none, none⟩ : NodeS)] } g key (.node s.heap.length)

theorem storeOK_unlink {s : State} {G : Ghost} {g : Nat} (H : HInv s G) (p : Pending)
    (act : Active s G (cellId g p.key)) {pred : Option Nat} {i : Nat} {res : KRes}
    (w : Walk s.heap (chId s (cellId g p.key)) p.key pred (some i))
    (hik : (nodeAt s.heap i).key = p.key)
    (hspec : specStep (some (nodeAt s.heap i).val) p.op = (none, res)) :
    StoreOK s G (cellId g p.key) p (unlinkAt s g p.key pred (nodeAt s.heap i).next, res) := by
  have hk := keyOn_cellId g p.key
  have hi := w.cur_mem
  obtain ⟨l1, l2, hch, hpred, -⟩ := w.hit_some
  have hcoh : (match (nodeAt s.heap i).next with | some x => Cell.node x | none => Cell.empty) =
      cellOfHead (nodeAt s.heap i).next := by cases (nodeAt s.heap i).next <;> rfl
  rcases List.eq_nil_or_concat l1 with rfl | ⟨l1', pr, rfl⟩
  · simp only [List.getLast?_nil] at hpred
    subst hpred
    simp only [List.nil_append] at hch
    obtain ⟨hfr1, hfr2, hfr3, hfr4, hfr5, hfr6⟩ := setCell_frame s g p.key (cellOfHead (nodeAt s.heap i).next)
    obtain ⟨hs1, hs2⟩ := setCell_shape s g p.key (cellOfHead (nodeAt s.heap i).next)
    obtain ⟨row, hr, hj⟩ := act.inTabs_key H.shape
    obtain ⟨he, hab⟩ := unlink_head_effect (s' := setCell s g p.key (cellOfHead (nodeAt s.heap i).next))
      H act hch hfr1 (fun id' => getCell_setCell s g p.key _ hr hj id') hfr5 hfr6 hs1 hs2
    unfold unlinkAt
    dsimp only
    rw [hcoh]
    refine ⟨he, hfr2, hfr3, hfr4, hfr6, ?_, ?_⟩
    · rw [absOf_active H act hk, (absIn_eq_some_iff (H.keys _)).2 ⟨i, hi, hik, rfl⟩, hspec, hab, if_pos hik]
    · intro k hkne
      rw [hab, if_neg (by rw [hik]; exact fun h => hkne h.symm)]
  · simp only [List.concat_eq_append, List.getLast?_append, List.getLast?_singleton, Option.some_or] at hpred
    subst hpred
    have hch' : chId s (cellId g p.key) = l1' ++ pr :: i :: l2 := by rw [hch]; simp
    obtain ⟨he, hab⟩ := unlink_mid_effect (s' := setNode s pr (fun m => { m with next := (nodeAt s.heap i).next }))
      H act hch' rfl (fun id' => getCell_setNode s pr _ id') rfl rfl rfl (rows_of_tabs_eq rfl)
    show StoreOK s G _ p (setNode s pr (fun m => { m with next := (nodeAt s.heap i).next }), res)
    refine ⟨he, rfl, rfl, rfl, rfl, ?_, ?_⟩
    · rw [absOf_active H act hk, (absIn_eq_some_iff (H.keys _)).2 ⟨i, hi, hik, rfl⟩, hspec, hab, if_pos hik]
    · intro k hkne
      rw [hab, if_neg (by rw [hik]; exact fun h => hkne h.symm)]

theorem storeOK_append {s : State} {G : Ghost} {g : Nat} (H : HInv s G) (p : Pending)
    (act : Active s G (cellId g p.key)) {pred : Option Nat} {v : Nat × Nat}
    (w : Walk s.heap (chId s (cellId g p.key)) p.key pred none)
    (hne : chId s (cellId g p.key) ≠ [])
    (hspec : specStep none p.op = (some v, .none)) :
    StoreOK s G (cellId g p.key) p (appendAt s g p.key pred v, KRes.none) := by
  have hk := keyOn_cellId g p.key
  obtain ⟨hpred, hfresh⟩ := w.hit_none
  obtain ⟨l0, last, hch⟩ : ∃ l0 last, chId s (cellId g p.key) = l0 ++ [last] := by
    rcases List.eq_nil_or_concat (chId s (cellId g p.key)) with h | ⟨l0, last, h⟩
    · exact absurd h hne
    · exact ⟨l0, last, by rw [h]; simp⟩
  rw [hch] at hpred
  simp only [List.getLast?_append, List.getLast?_singleton, Option.some_or] at hpred
  subst hpred
  obtain ⟨he, hab⟩ := append_effect (s' := setNode { s with heap := s.heap ++ [(⟨p.key, v, none, none⟩ : NodeS)] } last
      (fun n => { n with next := some s.heap.length })) (new := (⟨p.key, v, none, none⟩ : NodeS))
    H act hch rfl hk hfresh rfl (fun id' => rfl) rfl rfl rfl (rows_of_tabs_eq rfl)
  show StoreOK s G _ p (setNode { s with heap := s.heap ++ [(⟨p.key, v, none, none⟩ : NodeS)] } last
      (fun n => { n with next := some s.heap.length }), KRes.none)
  refine ⟨he, rfl, rfl, rfl, rfl, ?_, ?_⟩
  · rw [absOf_active H act hk, absIn_eq_none_iff.2 hfresh, hspec, hab]; simp
  · intro k hkne
    rw [hab, if_neg (fun h => hkne h.symm)]

/-- **the store of a validated writer** through the positions remembered during its walk is the
specification step on its own key, leaves every other key alone, and is one of the list surgeries -/
theorem store_effect {s : State} {G : Ghost} {g : Nat} (H : HInv s G) (p : Pending)
    (hwr : isReader p.op = false) (act : Active s G (cellId g p.key)) {h : Nat} {pred hit hnext : Option Nat}
    (hcell : cellOf s g p.key = .node h)
    (hw : Walk s.heap (chainH s.heap (cellOf s g p.key)) p.key pred hit)
    (hhit : ∀ i, hit = some i → (nodeAt s.heap i).key = p.key ∧ hnext = (nodeAt s.heap i).next) :
    StoreOK s G (cellId g p.key) p (storeAt s g p pred hit hnext) := by
  have hk := keyOn_cellId g p.key
  have w : Walk s.heap (chId s (cellId g p.key)) p.key pred hit := hw
  have hcell' : getCell s (cellId g p.key) = .node h := hcell
  have hne : chId s (cellId g p.key) ≠ [] := by
    obtain ⟨l, hl⟩ := chainH_node H.nextOK (H.head _ h hcell')
    unfold chId
    rw [hcell', hl]
    exact List.cons_ne_nil _ _
  unfold storeAt
  simp only
  cases hop : p.op with
  | get => rw [hop] at hwr; cases hwr
  | has => rw [hop] at hwr; cases hwr
  | ins v vi =>
    cases hit with
    | some i =>
      dsimp only
      refine storeOK_swap H act p hk w.cur_mem (hhit i rfl).1 ?_
      rw [hop]; rfl
    | none =>
      dsimp only
      refine storeOK_append H p act w hne ?_
      rw [hop]; rfl
  | tryIns v vi =>
    cases hit with
    | some i =>
      dsimp only
      refine storeOK_noop H act p ?_
      rw [absOf_active H act hk, (absIn_eq_some_iff (H.keys _)).2 ⟨i, w.cur_mem, (hhit i rfl).1, rfl⟩, hop]
      rfl
    | none =>
      dsimp only
      refine storeOK_append H p act w hne ?_
      rw [hop]; rfl
  | rm =>
    cases hit with
    | some i =>
      dsimp only
      rw [(hhit i rfl).2]
      refine storeOK_unlink H p act w (hhit i rfl).1 ?_
      rw [hop]; rfl
    | none =>
      dsimp only
      refine storeOK_noop H act p ?_
      rw [absOf_active H act hk, absIn_eq_none_iff.2 w.hit_none.2, hop]; rfl
  | cipInc nvi =>
    cases hit with
    | some i =>
      dsimp only
      refine storeOK_swap H act p hk w.cur_mem (hhit i rfl).1 ?_
      rw [hop]; rfl
    | none =>
      dsimp only
      refine storeOK_noop H act p ?_
      rw [absOf_active H act hk, absIn_eq_none_iff.2 w.hit_none.2, hop]; rfl
  | cipRm =>
    cases hit with
    | some i =>
      dsimp only
      rw [(hhit i rfl).2]
      refine storeOK_unlink H p act w (hhit i rfl).1 ?_
      rw [hop]; rfl
    | none =>
      dsimp only
      refine storeOK_noop H act p ?_
      rw [absOf_active H act hk, absIn_eq_none_iff.2 w.hit_none.2, hop]; rfl

/-! ## the lock-free insert into an empty cell -/

/-- `cas_effect` for the state of the CAS transition: any state `s1` with the memory of `s` (e.g. `tick s`),
the new node appended, the cell set, and any change of the threads / history afterwards (`finish`) -/
theorem cas_setCell_effect {s s1 s' : State} {G : Ghost} {g k : Nat} (H : HInv s G)
    (act : Active s G (cellId g k)) (hempty : cellOf s g k = .empty) {new : NodeS}
    (hnx : new.next = none) (hkey : new.key = k)
    (h1 : s1.heap = s.heap ++ [new]) (ht1 : s1.tabs = s.tabs)
    (hh : s'.heap = s1.heap) (ht : s'.tabs = (setCell s1 g k (.node s.heap.length)).tabs)
    (hcur : s'.cur = s.cur) (hres : s'.resizing = s.resizing) :
    Effect s s' G (cellId g k) ∧
      ∀ k', absOf s' k' = if new.key = k' then some new.val else absOf s k' := by
  obtain ⟨row, hr, hj⟩ := act.inTabs_key H.shape
  obtain ⟨hs1, hs2⟩ := setCell_shape s1 g k (.node s.heap.length)
  have hon : keyOn (cellId g k) new.key := by rw [hkey]; exact keyOn_cellId g k
  refine cas_effect H act hempty hnx hon (by rw [hh, h1]) ?_ hcur hres (by rw [ht, hs1, ht1]) ?_
  · intro id'
    rw [getCell_congr ht, getCell_setCell s1 g k _ (by rw [ht1]; exact hr) hj id']
    split
    · rfl
    · exact getCell_congr ht1 id'
  · intro g' row' hr'
    rw [ht] at hr'
    obtain ⟨row1, hr1, hl⟩ := hs2 g' row' hr'
    exact ⟨row1, by rw [← ht1]; exact hr1, hl⟩

/-- the state of the `wCas` transition of `stepG` -/
theorem cas_finish_effect {s : State} {G : Ghost} {g : Nat} {t : Nat} (H : HInv s G) (p : Pending)
    (act : Active s G (cellId g p.key)) (hempty : cellOf s g p.key = .empty) (v : Nat × Nat) :
    Effect s (finish (setCell { tick s with heap := s.heap ++ [(⟨p.key, v, none, none⟩ : NodeS)] } g p.key
        (.node s.heap.length)) t p .none) G (cellId g p.key) ∧
      ∀ k', absOf (finish (setCell { tick s with heap := s.heap ++ [(⟨p.key, v, none, none⟩ : NodeS)] } g p.key
        (.node s.heap.length)) t p .none) k' = if p.key = k' then some v else absOf s k' :=
  cas_setCell_effect (s1 := { tick s with heap := s.heap ++ [(⟨p.key, v, none, none⟩ : NodeS)] })
    (new := (⟨p.key, v, none, none⟩ : NodeS)) H act hempty rfl rfl rfl rfl rfl rfl rfl rfl

end Flurry.Proto.BinNHM
