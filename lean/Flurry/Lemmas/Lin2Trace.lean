import Flurry.Lemmas.Lin2Points
/-! # The trace lemma: linearizability from an abstract-state trace

(C13 port of `Flurry/Lemmas/LinTrace.lean` to the per-key operations of `Flurry/Lin2.lean`, i.e. with `retain`'s conditional removal `condRm`; below, "`Proto/Bin`" / `Base.` is `Flurry.Proto.BinR.Base` (`Proto/BinRBase.lean`) and "`Proto/BinW`" is `Flurry.Proto.BinR` (`Proto/BinR.lean`), which in addition has the `retain` visit steps.)

`lin_of_trace`: if the abstract state of the key is known after every global step, every writer
call is the unique cause of the state change at its point, and every read call reads the state at
its point, then the history is linearizable (writers are ordered by their points, the readers of a
step directly after the writer of that step). -/
namespace Flurry.Lin2

/-- read-only operations -/
def isRead : KOp2 → Bool
  | .get | .has => true
  | _ => false

/-- sort key of a call: writers of step `τ` at `2τ`, readers of step `τ` at `2τ + 1` -/
def traceKey (pt : Call2 → Nat) (c : Call2) : Nat :=
  2 * pt c + (if isRead c.op = true then 1 else 0)

/-- sort key of a call index -/
def traceIdxKey (h : History2) (pt : Call2 → Nat) (i : Nat) : Nat :=
  match h[i]? with
  | some c => traceKey pt c
  | none => 0

theorem traceIdxKey_of_some {h : History2} {pt : Call2 → Nat} {i : Nat} {c : Call2}
    (hc : h[i]? = some c) : traceIdxKey h pt i = traceKey pt c := by
  simp only [traceIdxKey, hc]

theorem traceKey_read {pt : Call2 → Nat} {c : Call2} (hc : isRead c.op = true) :
    traceKey pt c = 2 * pt c + 1 := by
  simp only [traceKey, hc, if_true]

theorem traceKey_write {pt : Call2 → Nat} {c : Call2} (hc : isRead c.op = false) :
    traceKey pt c = 2 * pt c := by
  simp [traceKey, hc]

/-- multi-step stability: no writer point in `(τ1, τ2]` -/
theorem trace_stable {h : History2} (A : Nat → KSt) (T : Nat) (pt : Call2 → Nat)
    (hstab : ∀ τ, 1 ≤ τ → τ ≤ T → (∀ c ∈ h, isRead c.op = false → pt c ≠ τ) → A τ = A (τ - 1))
    (τ1 : Nat) : ∀ τ2, τ1 ≤ τ2 → τ2 ≤ T →
      (∀ c ∈ h, isRead c.op = false → τ1 < pt c → τ2 < pt c) → A τ2 = A τ1
  | 0, h1, _, _ => by
    have : τ1 = 0 := by omega
    rw [this]
  | τ2 + 1, h1, h2, hno => by
    by_cases he : τ1 = τ2 + 1
    · rw [he]
    · have hs : A (τ2 + 1) = A (τ2 + 1 - 1) := by
        apply hstab (τ2 + 1) (by omega) h2
        intro c hc hcw heq
        have := hno c hc hcw (by omega)
        omega
      rw [hs, Nat.add_sub_cancel]
      apply trace_stable A T pt hstab τ1 τ2 (by omega) (by omega)
      intro c hc hcw hlt
      have := hno c hc hcw hlt
      omega

/-- the generalized replay2 statement (state just before sort key `κ0`) -/
theorem trace_replay {h : History2} (A : Nat → KSt) (T : Nat) (pt : Call2 → Nat)
    (hpt : ∀ c ∈ h, pt c ≤ T)
    (hw : ∀ c ∈ h, isRead c.op = false → 1 ≤ pt c ∧ specStep2 (A (pt c - 1)) c.op = (A (pt c), c.res))
    (hr : ∀ c ∈ h, isRead c.op = true → specStep2 (A (pt c)) c.op = (A (pt c), c.res))
    (hinj : ∀ (i j : Nat) (hi : i < h.length) (hj : j < h.length), i ≠ j →
      isRead h[i].op = false → isRead h[j].op = false → pt h[i] ≠ pt h[j])
    (hstab : ∀ τ, 1 ≤ τ → τ ≤ T → (∀ c ∈ h, isRead c.op = false → pt c ≠ τ) → A τ = A (τ - 1)) :
    ∀ (o : List Nat) (κ0 : Nat), κ0 ≤ 2 * T + 2 → o.Nodup → (∀ i ∈ o, i < h.length) →
      o.Pairwise (fun a b => traceIdxKey h pt a ≤ traceIdxKey h pt b) →
      (∀ i ∈ o, κ0 ≤ traceIdxKey h pt i) →
      (∀ d ∈ h, isRead d.op = false → κ0 ≤ traceKey pt d → ∃ j ∈ o, h[j]? = some d) →
      replay2 h o (A ((κ0 + 1) / 2 - 1)) = some (A T)
  | [], κ0, hκ, _, _, _, _, hall => by
    simp only [replay2]
    congr 1
    symm
    apply trace_stable A T pt hstab _ T (by omega) (Nat.le_refl _)
    intro d hd hdw hlt
    exfalso
    have hk := traceKey_write (pt := pt) hdw
    have : κ0 ≤ traceKey pt d := by omega
    obtain ⟨j, hj, _⟩ := hall d hd hdw this
    simp at hj
  | i :: rest, κ0, hκ, hnd, hlt, hsorted, hge, hall => by
    have hi : i < h.length := hlt i (List.mem_cons_self)
    have hci : h[i]? = some h[i] := List.getElem?_eq_getElem hi
    have hcm : h[i] ∈ h := List.getElem_mem hi
    have hki : traceIdxKey h pt i = traceKey pt h[i] := traceIdxKey_of_some hci
    have hκi : κ0 ≤ traceKey pt h[i] := by
      have := hge i (List.mem_cons_self); omega
    have hpti : pt h[i] ≤ T := hpt _ hcm
    obtain ⟨hirest, hndrest⟩ := List.nodup_cons.1 hnd
    obtain ⟨hsi, hsrest⟩ := List.pairwise_cons.1 hsorted
    have hltrest : ∀ j ∈ rest, j < h.length := fun j hj => hlt j (List.mem_cons_of_mem _ hj)
    -- the state does not change between `κ0` and the key of `i`
    have hB : A ((κ0 + 1) / 2 - 1) = A ((traceKey pt h[i] + 1) / 2 - 1) := by
      symm
      have hkle : traceKey pt h[i] ≤ 2 * pt h[i] + 1 := by
        unfold traceKey; split <;> omega
      apply trace_stable A T pt hstab _ _ (by omega) (by omega)
      intro d hd hdw hlt'
      have hk := traceKey_write (pt := pt) hdw
      have : κ0 ≤ traceKey pt d := by omega
      obtain ⟨j, hj, hjd⟩ := hall d hd hdw this
      have hkj : traceIdxKey h pt j = traceKey pt d := traceIdxKey_of_some hjd
      have hle : traceKey pt h[i] ≤ traceKey pt d := by
        rcases List.mem_cons.1 hj with rfl | hj'
        · omega
        · have := hsi j hj'; omega
      omega
    rw [hB, replay_cons_some hci]
    cases hrd : isRead h[i].op with
    | true =>
      have hk := traceKey_read (pt := pt) hrd
      have hs := hr _ hcm hrd
      have e1 : (traceKey pt h[i] + 1) / 2 - 1 = pt h[i] := by omega
      rw [e1, hs, if_pos rfl]
      have e2 : pt h[i] = (traceKey pt h[i] + 1) / 2 - 1 := e1.symm
      show replay2 h rest (A (pt h[i])) = some (A T)
      rw [e2]
      apply trace_replay A T pt hpt hw hr hinj hstab rest (traceKey pt h[i]) (by omega) hndrest hltrest hsrest
      · intro j hj
        have := hsi j hj; omega
      · intro d hd hdw hdk
        obtain ⟨j, hj, hjd⟩ := hall d hd hdw (by omega)
        rcases List.mem_cons.1 hj with rfl | hj'
        · rw [hci] at hjd
          cases hjd
          rw [hrd] at hdw; cases hdw
        · exact ⟨j, hj', hjd⟩
    | false =>
      have hk := traceKey_write (pt := pt) hrd
      obtain ⟨h1, hs⟩ := hw _ hcm hrd
      have e1 : (traceKey pt h[i] + 1) / 2 - 1 = pt h[i] - 1 := by omega
      rw [e1, hs, if_pos rfl]
      have e2 : pt h[i] = (traceKey pt h[i] + 1 + 1) / 2 - 1 := by omega
      show replay2 h rest (A (pt h[i])) = some (A T)
      rw [e2]
      apply trace_replay A T pt hpt hw hr hinj hstab rest (traceKey pt h[i] + 1) (by omega) hndrest hltrest hsrest
      · intro j hj
        have hjl : j < h.length := hltrest j hj
        have hcj : h[j]? = some h[j] := List.getElem?_eq_getElem hjl
        have hkj : traceIdxKey h pt j = traceKey pt h[j] := traceIdxKey_of_some hcj
        have hle := hsi j hj
        have hne : i ≠ j := fun e => hirest (e ▸ hj)
        cases hrj : isRead h[j].op with
        | true =>
          have := traceKey_read (pt := pt) hrj
          omega
        | false =>
          have := traceKey_write (pt := pt) hrj
          have := hinj i j hi hjl hne hrd hrj
          omega
      · intro d hd hdw hdk
        obtain ⟨j, hj, hjd⟩ := hall d hd hdw (by omega)
        rcases List.mem_cons.1 hj with rfl | hj'
        · rw [hci] at hjd
          cases hjd
          omega
        · exact ⟨j, hj', hjd⟩

/-- **Trace lemma.** `A τ` is the abstract state of the key after global step `τ` (`A 0` initial, `T` = now).
Every call `c` has a point `pt c` in its interval. A writer call (not `isRead`) takes the state from
`A (pt c - 1)` to `A (pt c)` according to the specification; distinct writer calls have distinct points;
steps that are no writer's point leave `A` unchanged. A read call reads `A (pt c)`. Then the history is
linearizable from `A 0` to `A T`. -/
theorem lin_of_trace {h : History2} (A : Nat → KSt) (T : Nat) (pt : Call2 → Nat)
    (hpt : ∀ c ∈ h, c.inv ≤ pt c ∧ pt c ≤ c.resp ∧ pt c ≤ T)
    (hw : ∀ c ∈ h, isRead c.op = false → 1 ≤ pt c ∧ specStep2 (A (pt c - 1)) c.op = (A (pt c), c.res))
    (hr : ∀ c ∈ h, isRead c.op = true → specStep2 (A (pt c)) c.op = (A (pt c), c.res))
    (hinj : h.Pairwise (fun c d => isRead c.op = false → isRead d.op = false → pt c ≠ pt d))
    (hstab : ∀ τ, 1 ≤ τ → τ ≤ T → (∀ c ∈ h, isRead c.op = false → pt c ≠ τ) → A τ = A (τ - 1)) :
    Linearizable2 h (A 0) (A T) := by
  let le : Nat → Nat → Bool := fun a b => decide (traceIdxKey h pt a ≤ traceIdxKey h pt b)
  have hperm : ((List.range h.length).mergeSort le).Perm (List.range h.length) :=
    List.mergeSort_perm _ _
  have hsorted : ((List.range h.length).mergeSort le).Pairwise
      (fun a b => traceIdxKey h pt a ≤ traceIdxKey h pt b) := by
    have hle : ((List.range h.length).mergeSort le).Pairwise (fun a b => le a b = true) :=
      List.pairwise_mergeSort (le := le)
        (by intro a b c; simp only [le, decide_eq_true_eq]; omega)
        (by intro a b; simp only [le, Bool.or_eq_true, decide_eq_true_eq]; omega) _
    refine hle.imp ?_
    intro a b hab
    simpa [le] using hab
  have hnd : ((List.range h.length).mergeSort le).Nodup := hperm.nodup_iff.2 List.nodup_range
  have hlt : ∀ i ∈ (List.range h.length).mergeSort le, i < h.length :=
    fun i hi => List.mem_range.1 (hperm.subset hi)
  have hinj' : ∀ (i j : Nat) (hi : i < h.length) (hj : j < h.length), i ≠ j →
      isRead h[i].op = false → isRead h[j].op = false → pt h[i] ≠ pt h[j] := by
    have hp := List.pairwise_iff_getElem.1 hinj
    intro i j hi hj hne h1 h2
    rcases Nat.lt_or_gt_of_ne hne with hlt' | hgt
    · exact hp i j hi hj hlt' h1 h2
    · exact fun e => hp j i hj hi hgt h2 h1 e.symm
  refine linearizable_iff_pairwise.2 ⟨(List.range h.length).mergeSort le, hperm, ?_, ?_⟩
  · refine hsorted.imp_of_mem ?_
    intro a b ha hb hab
    have ha' : a < h.length := hlt a ha
    have hb' : b < h.length := hlt b hb
    have hca : h[a]? = some h[a] := List.getElem?_eq_getElem ha'
    have hcb : h[b]? = some h[b] := List.getElem?_eq_getElem hb'
    refine rtOk_iff.2 ⟨h[a], h[b], hca, hcb, ?_⟩
    rw [traceIdxKey_of_some hca, traceIdxKey_of_some hcb] at hab
    have h1 := hpt _ (List.getElem_mem ha')
    have h2 := hpt _ (List.getElem_mem hb')
    have h3 : pt h[a] ≤ pt h[b] := by
      unfold traceKey at hab
      split at hab <;> split at hab <;> omega
    omega
  · have := trace_replay A T pt (fun c hc => (hpt c hc).2.2) hw hr hinj' hstab
      ((List.range h.length).mergeSort le) 0 (by omega) hnd hlt hsorted
      (fun i _ => Nat.zero_le _)
      (by
        intro d hd _ _
        obtain ⟨j, hj, hjd⟩ := List.getElem_of_mem hd
        refine ⟨j, hperm.symm.subset (List.mem_range.2 hj), ?_⟩
        rw [List.getElem?_eq_getElem hj, hjd])
    simpa using this

end Flurry.Lin2
