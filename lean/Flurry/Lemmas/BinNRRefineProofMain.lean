import Flurry.Lemmas.BinNRRefineProofStep
/-! # Proto/BinNR → Proto/Reclaim2: the projection of every run is accepted (`retire`, `free`, the initial state, runs) -/
namespace Flurry.Proto.BinNR
open Flurry.Lin
open Flurry.Proto.BinN (Pc Local Ghost Inv HInv Live StepK step_stepK)
open Flurry.Proto.Reclaim2 (OSt Ev acquirable active run_append_some)

theorem sim_retire {s s' : State} {G : Ghost} {a : Reclaim2.State} (R : RInv s G) (K : RInv2 s) (S : Sim a s)
    {t i : Nat} (hs : stepG false s t (.retire i) = some s') :
    ∃ a', Reclaim2.run a (project s t (.retire i) s') = some a' ∧ Sim a' s' := by
  unfold stepG at hs
  simp only at hs
  split at hs
  · rename_i hc
    cases hs
    have hi : i ∈ s.pend t := by simpa using hc
    obtain ⟨h1, h2⟩ := R.j7 t i hi
    cases hu : s.unl i with
    | none => rw [hu] at h1; cases h1
    | some u' =>
      have hiN := (R.j1 i u' hu).2
      obtain ⟨u, hu1, hu2⟩ := S.unlinked hiN hu (K.k1 t i hi)
      have hst : Reclaim2.step a (.retire t i) = some (Reclaim2.setObj a i (.retired u (active a))) := by
        unfold Reclaim2.step; simp only; rw [hu1]; simp only; rw [if_pos (by rw [S.grd]; exact h2)]
      refine ⟨Reclaim2.setObj a i (.retired u (active a)),
        by show Reclaim2.run a [Ev.retire t i] = _; simp only [Reclaim2.run, hst], ?_⟩
      refine ⟨S.nthr, S.nobjs, S.grd, S.hld, ?_⟩
      intro j hj
      show ObjRel (if j = i then OSt.retired u (active a) else a.objs j) (s.unl j)
        (if j = i then Life.retired (guardedSet s.n) else s.life j) (reach s.n j)
      by_cases e : j = i
      · rw [if_pos e, if_pos e, e, hu]
        exact ⟨_, _, rfl, rfl, hu2, fun x => by rw [S.mem_active, mem_guardedSet]⟩
      · rw [if_neg e, if_neg e]; exact S.obj j hj
  · cases hs

theorem sim_free {s s' : State} {G : Ghost} {a : Reclaim2.State} (R : RInv s G) (S : Sim a s)
    {t i : Nat} (hs : stepG false s t (.free i) = some s') :
    ∃ a', Reclaim2.run a (project s t (.free i) s') = some a' ∧ Sim a' s' := by
  unfold stepG at hs
  simp only at hs
  split at hs
  · rename_i hc
    cases hs
    obtain ⟨u0, hu0, -⟩ := R.j4r i [] hc
    have hiN := (R.j1 i u0 hu0).2
    have h := S.obj i hiN
    have hst : ∃ u, a.objs i = .retired u [] := by
      cases hst : a.objs i with
      | fresh => rw [hst] at h; simp only [ObjRel] at h; rw [hc] at h; cases h.2.1
      | linked => rw [hst] at h; simp only [ObjRel] at h; rw [hc] at h; cases h.2.1
      | unlinked u => rw [hst] at h; simp only [ObjRel] at h; obtain ⟨_, -, -, e⟩ := h; rw [hc] at e; cases e
      | freed => rw [hst] at h; simp only [ObjRel] at h; rw [hc] at h; cases h
      | retired u w =>
        rw [hst] at h; simp only [ObjRel] at h
        obtain ⟨u', w', -, e2, -, e4⟩ := h
        rw [hc] at e2; cases e2
        cases w with
        | nil => exact ⟨u, rfl⟩
        | cons x _ => exact absurd ((e4 x).1 List.mem_cons_self) (by simp)
    obtain ⟨u, hu⟩ := hst
    have hstep : Reclaim2.step a (.free i) = some { (Reclaim2.setObj a i .freed) with
        frees := fun x => if x = i then a.frees i + 1 else a.frees x } := by
      unfold Reclaim2.step; simp only; rw [hu]
    refine ⟨{ (Reclaim2.setObj a i .freed) with frees := fun x => if x = i then a.frees i + 1 else a.frees x },
      by show Reclaim2.run a [Ev.free i] = _; simp only [Reclaim2.run, hstep], ?_⟩
    refine ⟨S.nthr, S.nobjs, S.grd, S.hld, ?_⟩
    intro j hj
    show ObjRel (if j = i then OSt.freed else a.objs j) (s.unl j) (if j = i then Life.freed else s.life j) (reach s.n j)
    by_cases e : j = i
    · rw [if_pos e, if_pos e]; rfl
    · rw [if_neg e, if_neg e]; exact S.obj j hj
  · cases hs

theorem sim_init (nt : Nat) : Sim (Reclaim2.init nt) (init nt) := by
  refine ⟨?_, rfl, ?_, ?_, ?_⟩
  · show nt = (List.replicate nt ({} : Local)).length
    rw [List.length_replicate]
  · intro t
    show false = guarded (BinN.init nt) t
    unfold guarded
    cases hl : (BinN.init nt).threads[t]? with
    | none => rfl
    | some l => rw [BinN.init_thread hl]; rfl
  · intro t i hi
    unfold holdsOf at hi
    cases hl : (init nt).n.threads[t]? with
    | none => rw [hl] at hi; cases hi
    | some l =>
      rw [hl] at hi
      have : l = {} := BinN.init_thread hl
      subst this
      simp [holds] at hi
  · intro i hi; exact absurd hi (Nat.not_lt_zero i)

/-- reachability with the projected event list of the run -/
inductive ReachableTr (nt : Nat) : List Ev → State → Prop
  | init : ReachableTr nt [] (init nt)
  | step {evs : List Ev} {s s' : State} (t : Nat) (a : Act) : ReachableTr nt evs s → step s t a = some s' →
      ReachableTr nt (evs ++ project s t a s') s'

theorem ReachableTr.reachable {nt : Nat} {evs : List Ev} {s : State} (h : ReachableTr nt evs s) : Reachable nt s := by
  induction h with
  | init => exact .init
  | step t a _ hs ih => exact .step t a ih hs

theorem Reachable.traced {nt : Nat} {s : State} (h : Reachable nt s) : ∃ evs, ReachableTr nt evs s := by
  induction h with
  | init => exact ⟨[], .init⟩
  | step t a _ hs ih => obtain ⟨evs, h⟩ := ih; exact ⟨_, .step t a h hs⟩

/-- **the projection of every run of `Proto/BinNR` is accepted by the abstract discipline `Proto/Reclaim2`**, and the
abstract state it reaches describes the concrete state -/
theorem refines {nt : Nat} {evs : List Ev} {s : State} (h : ReachableTr nt evs s) :
    ∃ a, Reclaim2.run (Reclaim2.init nt) evs = some a ∧ Sim a s := by
  induction h with
  | init => exact ⟨_, rfl, sim_init nt⟩
  | @step evs s s' t x htr hs ih =>
    obtain ⟨a, hrun, S⟩ := ih
    have hr := htr.reachable
    obtain ⟨G, R⟩ := reachable_rinv hr
    have K := reachable_rinv2 hr
    have IA := Reclaim2.reachable_inv hrun
    have key : ∃ a', Reclaim2.run a (project s t x s') = some a' ∧ Sim a' s' := by
      cases x with
      | base inv rz pick =>
        unfold step stepG at hs
        simp only at hs
        cases hb : BinN.step s.n t inv rz pick with
        | none => rw [hb] at hs; cases hs
        | some n' =>
          rw [hb] at hs
          cases hs
          cases hl : s.n.threads[t]? with
          | none => unfold BinN.step BinN.stepG at hb; rw [hl] at hb; cases hb
          | some l => exact sim_base R K S IA inv rz hl (step_stepK hl hb)
      | retire i => exact sim_retire R K S hs
      | free i => exact sim_free R S hs
    obtain ⟨a', h1, h2⟩ := key
    exact ⟨a', run_append_some hrun h1, h2⟩

end Flurry.Proto.BinNR
