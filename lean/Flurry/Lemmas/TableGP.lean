import Flurry.Lemmas.TableG
import Flurry.Lemmas.BinGDrainRun
import Flurry.Lemmas.BinGProgSolo
import Flurry.Lemmas.BinGProgStuck
/-! # Proto/TableG, progress: the lineage-level progress theorems lifted to the whole table

A thread that is not `idle` in lineage `i` of a reachable table is `idle` in every other lineage
(`OneBin` + all lineages have the same number of threads), so `TableG.step` lets it take, in lineage
`i`, exactly the steps `BinG.step` lets it take there (`step_lift`; the `inLineage` conditions concern
invocations and treeify keys only). Every other lineage ticks, and a tick changes the clock only.

* `never_stuck_aux` (C11): a table that is not quiescent has a lineage that is not quiescent; its
  witness of `binG_never_stuck_all` can step in the table;
* `TQStep`, `TQRun`, `Gmu = Σ gmu`: a quiet table step decreases `gmu` of the stepping lineage
  (`QStep.gmu_lt`) and leaves `gmu` of every other lineage alone (`gmu_tick`);
* `tqrun_pendOrAns`: along quiet table runs a call stays pending until it is answered;
* `runSolo`, `solo_lift`: a solo run in a lineage is a solo run in the table. -/
namespace Flurry.Proto.TableGP
open Flurry.Lin Flurry.LinMap Flurry.Proto.TableG
open Flurry.Proto.BinK (get_set get_set_ne)

/-! ## a thread that is active in one lineage is idle in all others -/

/-- the number of threads of a lineage never changes -/
theorem binG_threads_length {n : Nat} {s : BinG.State} (hr : BinG.Reachable n s) : s.threads.length = n := by
  induction hr with
  | init => simp [BinG.init]
  | step t inv lo mt rz sm sm2 _ hs ih =>
    obtain ⟨l', h⟩ := BinG.step_threads hs
    rw [h, List.length_set]; exact ih

/-- thread `t` is idle in every lineage other than `i` -/
def IdleElse (S : State) (i t : Nat) : Prop :=
  ∀ (j : Nat) (bj : BinG.State), j ≠ i → S.bins[j]? = some bj → idleIn bj t = true

theorem idleElse_all {S : State} {i t : Nat} (h : IdleElse S i t) :
    ((List.range S.bins.length).all fun j => j == i || idleIn (S.bins.getD j (BinG.init 0)) t) = true := by
  rw [List.all_eq_true]
  intro j hj
  have hjl := List.mem_range.1 hj
  by_cases hji : j = i
  · simp [hji]
  · have hd : S.bins.getD j (BinG.init 0) = S.bins[j] := by
      rw [List.getD_eq_getElem?_getD, List.getElem?_eq_getElem hjl]; rfl
    rw [hd, h j _ hji (List.getElem?_eq_getElem hjl)]
    simp

theorem idleElse_of_all {S : State} {i t : Nat}
    (h : ((List.range S.bins.length).all fun j => j == i || idleIn (S.bins.getD j (BinG.init 0)) t) = true) :
    IdleElse S i t := by
  intro j bj hji hj
  have hjl : j < S.bins.length := (List.getElem?_eq_some_iff.1 hj).1
  have := List.all_eq_true.1 h j (List.mem_range.2 hjl)
  have hd : S.bins.getD j (BinG.init 0) = bj := by
    rw [List.getD_eq_getElem?_getD, hj]; rfl
  rw [hd] at this
  simp only [Bool.or_eq_true, beq_iff_eq] at this
  rcases this with h | h
  · exact absurd h hji
  · exact h

/-- **a thread that is not `idle` in lineage `i` of a reachable table is `idle` in every other lineage** -/
theorem idleElse_of_active {m n : Nat} {S : State} (hr : Reachable m n S) {i t : Nat} {b : BinG.State}
    {l : BinG.Local} (hb : S.bins[i]? = some b) (hl : b.threads[t]? = some l) (hne : l.pc ≠ .idle) :
    IdleElse S i t := by
  intro j bj hji hj
  have I := reachable_tblInv hr
  have hlen_b := binG_threads_length (I.reach i b hb)
  have hlen_j := binG_threads_length (I.reach j bj hj)
  have ht : t < bj.threads.length := by
    rw [hlen_j, ← hlen_b]; exact (List.getElem?_eq_some_iff.1 hl).1
  have hlj : bj.threads[t]? = some bj.threads[t] := List.getElem?_eq_getElem ht
  rcases reachable_oneBin hr t i j b bj l _ (Ne.symm hji) hb hj hl hlj with h | h
  · exact absurd h hne
  · unfold idleIn
    rw [hlj]
    simp [h]

/-- the step of the table is the step of the lineage, when the thread is idle elsewhere and the keys
(if any) are keys of that lineage -/
theorem step_lift {S : State} {i t : Nat} {b b' : BinG.State} {inv : Option (Nat × KOp)} {lo : Bool}
    {mt : Option Nat} {rz sm sm2 : Bool} (hb : S.bins[i]? = some b) (he : IdleElse S i t)
    (h1 : inLineage S.bins.length i (inv.map (·.1)) = true) (h2 : inLineage S.bins.length i mt = true)
    (hs : BinG.step b t inv lo mt rz sm sm2 = some b') :
    step S i t inv lo mt rz sm sm2 = some { bins := (S.bins.map tick).set i b' } := by
  unfold step
  simp only [hb, idleElse_all he, h1, h2, hs, Bool.not_true, Bool.false_eq_true, if_false]

/-- the lineages after a step -/
theorem bins_after {S : State} {i : Nat} {b : BinG.State} (b' : BinG.State) (hb : S.bins[i]? = some b) :
    ((S.bins.map tick).set i b')[i]? = some b' ∧
    ∀ (j : Nat) (bj : BinG.State), j ≠ i → S.bins[j]? = some bj → ((S.bins.map tick).set i b')[j]? = some (tick bj) := by
  have hi : i < S.bins.length := (List.getElem?_eq_some_iff.1 hb).1
  refine ⟨?_, ?_⟩
  · rw [List.getElem?_set_self (by rw [List.length_map]; exact hi)]
  · intro j bj hji hj
    rw [List.getElem?_set_ne (Ne.symm hji), List.getElem?_map, hj]
    rfl

/-! ## C11: never stuck -/

theorem not_quiescent_lineage {S : State} (hq : ¬ quiescent S) :
    ∃ (i : Nat) (b : BinG.State), S.bins[i]? = some b ∧ ¬ BinG.quiescent b := by
  apply Classical.byContradiction
  intro h
  apply hq
  intro b hb
  obtain ⟨i, hi⟩ := List.mem_iff_getElem?.1 hb
  apply Classical.byContradiction
  intro hnq
  exact h ⟨i, b, hi, hnq⟩

/-- an enabled lineage step of a thread that is not `idle` there, starting nothing, is an enabled table step -/
theorem active_step_lift {m n : Nat} {S : State} (hr : Reachable m n S) {i t : Nat} {b b' : BinG.State}
    {l : BinG.Local} (hb : S.bins[i]? = some b) (hl : b.threads[t]? = some l) (hne : l.pc ≠ .idle)
    {lo rz sm sm2 : Bool} (hs : BinG.step b t none lo none rz sm sm2 = some b') :
    step S i t none lo none rz sm sm2 = some { bins := (S.bins.map tick).set i b' } :=
  step_lift hb (idleElse_of_active hr hb hl hne) rfl rfl hs

theorem never_stuck_aux {m n : Nat} {S : State} (hr : Reachable m n S) (hq : ¬ quiescent S) :
    ∃ (i : Nat) (b : BinG.State) (t : Nat) (l : BinG.Local), S.bins[i]? = some b ∧ b.threads[t]? = some l ∧
      l.pc ≠ .idle ∧ ∀ (lo rz sm sm2 : Bool), (step S i t none lo none rz sm sm2).isSome = true := by
  obtain ⟨i, b, hb, hnq⟩ := not_quiescent_lineage hq
  have hrb := (reachable_tblInv hr).reach i b hb
  obtain ⟨t, l, hl, hne, he⟩ := BinG.binG_never_stuck_aux (BinG.reachable_inv hrb) (BinG.reachable_binv hrb) hnq
  refine ⟨i, b, t, l, hb, hl, hne, ?_⟩
  intro lo rz sm sm2
  obtain ⟨b', hs⟩ := Option.isSome_iff_exists.1 (he none lo none rz sm sm2)
  rw [active_step_lift hr hb hl hne hs]
  rfl

/-! ## quiet steps, quiet runs, the global measure -/

/-- a quiet step of the table: a thread that is not `idle` in lineage `i` takes a step there; no call,
treeify or resize is started -/
def TQStep (S S' : State) : Prop :=
  ∃ (i t : Nat) (b : BinG.State) (l : BinG.Local) (lo sm sm2 : Bool), S.bins[i]? = some b ∧
    b.threads[t]? = some l ∧ l.pc ≠ .idle ∧ step S i t none lo none false sm sm2 = some S'

/-- `k` quiet steps of the table -/
inductive TQRun : State → Nat → State → Prop
  | nil (S : State) : TQRun S 0 S
  | cons {S S1 S2 : State} {k : Nat} : TQStep S S1 → TQRun S1 k S2 → TQRun S (k + 1) S2

/-- the global measure of the table: the sum of the lineages' measures -/
def Gmu (S : State) : Nat := (S.bins.map BinG.gmu).sum

/-- the explicit bound of `Gmu` -/
def DrainBound (S : State) : Nat := (S.bins.map BinG.drainBound).sum

/-- **`gmu` does not read the clock** -/
theorem gmu_tick_aux (b : BinG.State) : BinG.gmu (tick b) = BinG.gmu b := rfl

theorem drainBound_tick (b : BinG.State) : BinG.drainBound (tick b) = BinG.drainBound b := rfl

/-- a quiet step of the table is a quiet step of one lineage and a tick of all others -/
theorem TQStep.effect {S S' : State} (h : TQStep S S') :
    ∃ (i : Nat) (b b' : BinG.State), S.bins[i]? = some b ∧ BinG.QStep b b' ∧
      S' = { bins := (S.bins.map tick).set i b' } := by
  obtain ⟨i, t, b, l, lo, sm, sm2, hb, hl, hne, hs⟩ := h
  obtain ⟨b0, b', hb0, _, _, _, hs', rfl⟩ := step_eq_some hs
  rw [hb] at hb0
  cases hb0
  exact ⟨i, b, b', hb, ⟨t, l, lo, sm, sm2, hl, hne, hs'⟩, rfl⟩

theorem TQStep.reachable {m n : Nat} {S S' : State} (hr : Reachable m n S) (h : TQStep S S') : Reachable m n S' := by
  obtain ⟨i, t, b, l, lo, sm, sm2, _, _, _, hs⟩ := h
  exact Reachable.step i t none lo none false sm sm2 hr hs

theorem TQRun.reachable {m n : Nat} {S S' : State} {k : Nat} (hr : Reachable m n S) (h : TQRun S k S') :
    Reachable m n S' := by
  induction h with
  | nil => exact hr
  | cons h1 _ ih => exact ih (h1.reachable hr)

theorem TQRun.snoc {S S1 S2 : State} {k : Nat} (h : TQRun S k S1) (h2 : TQStep S1 S2) : TQRun S (k + 1) S2 := by
  induction h with
  | nil => exact .cons h2 (.nil _)
  | cons h1 _ ih => exact .cons h1 (ih h2)

theorem sum_map_tick (f : BinG.State → Nat) (hf : ∀ b, f (tick b) = f b) (L : List BinG.State) :
    ((L.map tick).map f).sum = (L.map f).sum := by
  rw [List.map_map]
  congr 1
  apply List.map_congr_left
  intro b _
  exact hf b

/-- **every quiet step of the table strictly decreases `Gmu`** -/
theorem TQStep.gmu_lt {m n : Nat} {S S' : State} (hr : Reachable m n S) (h : TQStep S S') : Gmu S' < Gmu S := by
  obtain ⟨i, b, b', hb, hq, rfl⟩ := h.effect
  have hrb := (reachable_tblInv hr).reach i b hb
  have hlt := hq.gmu_lt hrb
  have hi : (S.bins.map tick)[i]? = some (tick b) := by rw [List.getElem?_map, hb]; rfl
  have := BinG.sum_set_add_le BinG.gmu BinG.gmu 1 (S.bins.map tick) i (tick b) b' hi
    (fun _ _ _ _ => Nat.le_refl _) (by rw [gmu_tick_aux]; omega)
  rw [sum_map_tick BinG.gmu gmu_tick_aux] at this
  unfold Gmu
  show (((S.bins.map tick).set i b').map BinG.gmu).sum < _
  omega

theorem tqrun_bounded {m n : Nat} {S S' : State} {k : Nat} (hr : Reachable m n S) (h : TQRun S k S') :
    k + Gmu S' ≤ Gmu S := by
  induction h with
  | nil => omega
  | cons h1 _ ih =>
    have := h1.gmu_lt hr
    have := ih (h1.reachable hr)
    omega

theorem Gmu_le_DrainBound {m n : Nat} {S : State} (hr : Reachable m n S) : Gmu S ≤ DrainBound S := by
  unfold Gmu DrainBound
  apply BinG.sum_map_le_of
  intro b hb
  obtain ⟨i, hi⟩ := List.mem_iff_getElem?.1 hb
  exact BinG.gmu_le_drainBound ((reachable_tblInv hr).reach i b hi)

/-- a table that is not quiescent has a quiet step -/
theorem tqstep_of_not_quiescent {m n : Nat} {S : State} (hr : Reachable m n S) (hq : ¬ quiescent S) :
    ∃ S', TQStep S S' := by
  obtain ⟨i, b, t, l, hb, hl, hne, he⟩ := never_stuck_aux hr hq
  obtain ⟨S', hs⟩ := Option.isSome_iff_exists.1 (he false false false false)
  exact ⟨S', i, t, b, l, false, false, false, hb, hl, hne, hs⟩

/-- a quiescent table has no quiet step -/
theorem no_tqstep_of_quiescent {S S' : State} (hq : quiescent S) : ¬ TQStep S S' := by
  rintro ⟨i, t, b, l, lo, sm, sm2, hb, hl, hne, _⟩
  exact hne (hq b (List.mem_of_getElem? hb) l (List.mem_iff_getElem?.2 ⟨t, hl⟩))

theorem tqrun_maximal_quiescent {m n : Nat} {S S' : State} {k : Nat} (hr : Reachable m n S) (h : TQRun S k S')
    (hmax : ∀ S'', ¬ TQStep S' S'') : quiescent S' := by
  apply Classical.byContradiction
  intro hq
  obtain ⟨S'', h''⟩ := tqstep_of_not_quiescent (h.reachable hr) hq
  exact hmax S'' h''

theorem tdrain_exists {m n : Nat} : ∀ (c : Nat) {S : State}, Reachable m n S → Gmu S ≤ c →
    ∃ k S', TQRun S k S' ∧ quiescent S'
  | 0, S, hr, hm => by
    by_cases hq : quiescent S
    · exact ⟨0, S, .nil S, hq⟩
    · obtain ⟨S', h'⟩ := tqstep_of_not_quiescent hr hq
      have := h'.gmu_lt hr
      omega
  | c + 1, S, hr, hm => by
    by_cases hq : quiescent S
    · exact ⟨0, S, .nil S, hq⟩
    · obtain ⟨S1, h1⟩ := tqstep_of_not_quiescent hr hq
      have := h1.gmu_lt hr
      obtain ⟨k, S', hrun, hq'⟩ := tdrain_exists c (h1.reachable hr) (by omega)
      exact ⟨k + 1, S', .cons h1 hrun, hq'⟩

theorem no_infinite_tqrun {m n : Nat} {S : State} (hr : Reachable m n S) (f : Nat → State) (h0 : f 0 = S)
    (hstep : ∀ i, TQStep (f i) (f (i + 1))) : False := by
  have hrun : ∀ k, TQRun S k (f k) := by
    intro k
    induction k with
    | zero => rw [h0]; exact .nil S
    | succ k ih => exact ih.snoc (hstep k)
  have := tqrun_bounded hr (hrun (Gmu S + 1))
  omega

/-! ## every call returns -/

/-- the call `p` of thread `t` is still in flight in the lineage, or it has been answered there -/
def PendOrAns (b : BinG.State) (t : Nat) (p : BinG.Pending) : Prop :=
  (∃ l1, b.threads[t]? = some l1 ∧ l1.call = some p) ∨ BinG.Answered b t p

theorem qstep_pendOrAns {n : Nat} {b b' : BinG.State} (hr : BinG.Reachable n b) (h : BinG.QStep b b') {t : Nat}
    {p : BinG.Pending} (hpa : PendOrAns b t p) : PendOrAns b' t p := by
  rcases hpa with ⟨l0, hl0, hp⟩ | ⟨res, resp, hm⟩
  · rcases h.call_kept hr hl0 hp with ⟨l1, hl1, hp1, _⟩ | ⟨l1, hl1, hp1, _⟩ | ⟨res, hh⟩
    · exact Or.inl ⟨l1, hl1, hp1⟩
    · exact Or.inl ⟨l1, hl1, hp1⟩
    · exact Or.inr ⟨res, _, by rw [hh]; exact List.mem_cons_self⟩
  · exact Or.inr ⟨res, resp, h.hist_mono hr _ hm⟩

theorem tick_pendOrAns {b : BinG.State} {t : Nat} {p : BinG.Pending} (hpa : PendOrAns b t p) :
    PendOrAns (tick b) t p := hpa

theorem tqstep_pendOrAns {m n : Nat} {S S' : State} (hr : Reachable m n S) (h : TQStep S S') {j t : Nat}
    {bj : BinG.State} {p : BinG.Pending} (hj : S.bins[j]? = some bj) (hpa : PendOrAns bj t p) :
    ∃ bj', S'.bins[j]? = some bj' ∧ PendOrAns bj' t p := by
  obtain ⟨i, b, b', hb, hq, rfl⟩ := h.effect
  obtain ⟨h1, h2⟩ := bins_after b' hb
  by_cases hji : j = i
  · subst hji
    rw [hb] at hj
    cases hj
    exact ⟨b', h1, qstep_pendOrAns ((reachable_tblInv hr).reach j _ hb) hq hpa⟩
  · exact ⟨tick bj, h2 j bj hji hj, tick_pendOrAns hpa⟩

theorem tqrun_pendOrAns {m n : Nat} {S S' : State} {k : Nat} (hr : Reachable m n S) (h : TQRun S k S') {j t : Nat}
    {bj : BinG.State} {p : BinG.Pending} (hj : S.bins[j]? = some bj) (hpa : PendOrAns bj t p) :
    ∃ bj', S'.bins[j]? = some bj' ∧ PendOrAns bj' t p := by
  induction h generalizing bj with
  | nil => exact ⟨bj, hj, hpa⟩
  | cons h1 _ ih =>
    obtain ⟨b1, hb1, hpa1⟩ := tqstep_pendOrAns hr h1 hj hpa
    exact ih (h1.reachable hr) hb1 hpa1

/-- an answer in a lineage is an entry of the map history -/
theorem answered_mhist {S : State} {j t : Nat} {bj : BinG.State} {p : BinG.Pending} (hj : S.bins[j]? = some bj)
    (ha : BinG.Answered bj t p) :
    ∃ res resp, (⟨p.key, { tid := t, op := p.op, res := res, inv := p.inv, resp := resp }⟩ : MCall) ∈ mhist S := by
  obtain ⟨res, resp, hm⟩ := ha
  refine ⟨res, resp, ?_⟩
  unfold mhist
  rw [List.mem_flatten]
  refine ⟨binCalls bj, List.mem_map.2 ⟨bj, List.mem_of_getElem? hj, rfl⟩, ?_⟩
  unfold binCalls
  exact List.mem_map.2 ⟨_, List.mem_reverse.2 hm, rfl⟩

/-- in a quiescent lineage of a reachable table a call that is pending-or-answered is answered -/
theorem answered_of_quiescent {n : Nat} {b : BinG.State} (hr : BinG.Reachable n b) (hq : BinG.quiescent b)
    {t : Nat} {p : BinG.Pending} (hpa : PendOrAns b t p) : BinG.Answered b t p := by
  rcases hpa with ⟨l1, hl1, hp1⟩ | ha
  · exfalso
    have hidle : l1.pc = .idle := hq l1 (List.mem_iff_getElem?.2 ⟨t, hl1⟩)
    have := ((BinG.reachable_inv hr).thr.callOK t l1 hl1).2 (by rw [hidle]; rfl)
    rw [hp1] at this
    cases this
  · exact ha

/-! ## solo runs -/

/-- thread `t` runs alone in lineage `i` for `k` steps (it starts nothing); `none` if one of these
steps is not enabled -/
def runSolo (i t : Nat) (sm sm2 : Bool) : Nat → State → Option State
  | 0, S => some S
  | k + 1, S =>
    match step S i t none false none false sm sm2 with
    | some S' => runSolo i t sm sm2 k S'
    | none => none

theorem runSolo_reachable {m n : Nat} {i t : Nat} {sm sm2 : Bool} : ∀ (k : Nat) {S S' : State},
    Reachable m n S → runSolo i t sm sm2 k S = some S' → Reachable m n S'
  | 0, S, S', hr, h => by simp only [runSolo, Option.some.injEq] at h; exact h ▸ hr
  | k + 1, S, S', hr, h => by
    simp only [runSolo] at h
    cases hs : step S i t none false none false sm sm2 with
    | none => rw [hs] at h; cases h
    | some S1 => rw [hs] at h; exact runSolo_reachable k (.step i t none false none false sm sm2 hr hs) h

/-- the clock of a lineage has advanced by `k` -/
def tickN (k : Nat) (b : BinG.State) : BinG.State := { b with now := b.now + k }

theorem tickN_tick (k : Nat) (b : BinG.State) : tickN k (tick b) = tickN (k + 1) b := by
  unfold tickN tick
  simp only [BinG.State.mk.injEq, true_and]
  omega

/-- **a solo run in a lineage is a solo run in the table**: the thread is idle elsewhere, every other
lineage only ticks -/
theorem solo_lift {i t : Nat} {sm sm2 : Bool} : ∀ (k : Nat) {S : State} {b b' : BinG.State},
    S.bins[i]? = some b → IdleElse S i t → BinG.runSolo t sm sm2 k b = some b' →
    ∃ S', runSolo i t sm sm2 k S = some S' ∧ S'.bins.length = S.bins.length ∧ S'.bins[i]? = some b' ∧
      ∀ (j : Nat) (bj : BinG.State), j ≠ i → S.bins[j]? = some bj → S'.bins[j]? = some (tickN k bj)
  | 0, S, b, b', hb, _, h => by
    simp only [BinG.runSolo, Option.some.injEq] at h
    subst h
    exact ⟨S, rfl, rfl, hb, fun j bj _ hj => by rw [hj]; rfl⟩
  | k + 1, S, b, b', hb, he, h => by
    simp only [BinG.runSolo] at h
    cases hs : BinG.step b t none false none false sm sm2 with
    | none => rw [hs] at h; cases h
    | some b1 =>
      rw [hs] at h
      have hstep := step_lift hb he rfl rfl hs
      obtain ⟨h1, h2⟩ := bins_after b1 hb
      have he1 : IdleElse { bins := (S.bins.map tick).set i b1 } i t := by
        intro j c hji hc
        rcases step_bins (b := b) (b' := b1) hb (idleElse_all he) j c hc with ⟨e, _⟩ | ⟨_, b0, _, rfl, hid⟩
        · exact absurd e hji
        · exact hid
      obtain ⟨S', hrun, hlen, hi', hoth⟩ := solo_lift k (S := { bins := (S.bins.map tick).set i b1 }) h1 he1 h
      refine ⟨S', ?_, ?_, hi', ?_⟩
      · simp only [runSolo, hstep]
        exact hrun
      · rw [hlen]
        show ((S.bins.map tick).set i b1).length = _
        rw [List.length_set, List.length_map]
      · intro j bj hji hj
        rw [hoth j (tick bj) hji (h2 j bj hji hj), tickN_tick]

end Flurry.Proto.TableGP
