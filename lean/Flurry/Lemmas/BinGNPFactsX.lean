import Flurry.Lemmas.BinGNPPlan
import Flurry.Lemmas.BinGNPLock
import Flurry.Lemmas.BinGNPGhostL
import Flurry.Lemmas.BinGNPShape
import Flurry.Lemmas.BinGNPArith
import Flurry.Lemmas.BinGNPStore
import Flurry.Lemmas.BinGNPLinBase
import Flurry.Lemmas.BinGNPInvW
import Flurry.Lemmas.BinGNPInvQ
/-! # Proto/BinGN (port of `Lemmas/BinGFactsX.lean`): the stores of the resize establish `Eff` and leave every
abstract state alone

`xstoreLow_facts`, `xstoreHigh_facts`, `xstoreMoved_facts`, `xcasMoved_facts`, `xbuild_facts`, `ybuild_facts`.
What differs from BinG:
* `XCtx s t l j`: the acting thread is THE resizing thread and works on cell `(cur, j)`, which is not forwarded. The
  other threads may be anything that is not a resizing thread (validated in OTHER cells, treeify threads with a
  private bin, …): `XCtx.no_privK` and `XCtx.pend_nil` are gone (`XCtx.pend_ne_kstore`: a pending structure of the
  transfer is not the private bin of a treeify);
* the generation structure of `XInv s'` comes from a hypothesis `XS' : XShape s'`;
* a stored child is a NEW cell holding a `TreeBin` that must differ from the bins of all other cells
  (`HInv.binsDistinct` is about all pairs of cells now). `Inv s` does not say that the fresh planned bin of a transfer
  is in no cell (`KInv` says it for a treeify only), so the two child stores take the hypothesis
  `PS : PlanSep s` (`Lemmas/BinGNPInvQ.lean`; established for reachable states by `planSep_of`,
  `Lemmas/BinGNPPlanSep.lean`): a pending bin of the transfer of `(cur, j)` is only in `(cur, j)` and its children. -/
namespace Flurry.Proto.BinGNP
open Flurry.Lin
open Flurry.Proto.BinK (nodeAt binAt NextOK IsChain IsSeg chainOf CInv absL get_set get_set_self get_set_ne
  absL_eq_none_iff absL_eq_some_iff pair_sublist_iff)

/-! ## what depends on the heap and the `TreeBin` table only -/

private theorem chainC_congr {s s' : State} (hh : s'.heap = s.heap) (hb : s'.tbins = s.tbins) (c : Cell) :
    chainC s' c = chainC s c := by
  unfold chainC; rw [hh, hb]

private theorem treeOf_congr {s s' : State} (hh : s'.heap = s.heap) (c : Cell) (j : Nat) : treeOf s' c j ↔ treeOf s c j := by
  unfold treeOf; rw [hh]

theorem CopyOK.congr {s s' : State} (hh : s'.heap = s.heap) (hb : s'.tbins = s.tbins) {old : Cell} {sel : Nat → Bool}
    {C : Cell} (h : CopyOK s old sel C) : CopyOK s' old sel C := by
  cases s; cases s'
  simp only at hh hb
  subst hh hb
  exact ⟨h.notMoved, h.cinv, h.cellOK, h.chainOwner, h.selOK, h.src, h.cover, h.suffix, h.order, h.fresh⟩

theorem Plan.congr {s s' : State} (hh : s'.heap = s.heap) (hb : s'.tbins = s.tbins) (hcur : s'.cur = s.cur) {j : Nat}
    (hc : cellAt s' (s.cur, j) = cellAt s (s.cur, j))
    {lo hi : Cell} (h : Plan s j lo hi) : Plan s' j lo hi := by
  refine ⟨?_, ?_, h.distinct⟩
  · rw [hcur, hc]; exact h.low.congr hh hb
  · rw [hcur, hc]; exact h.high.congr hh hb

theorem PcInv.congr {s s' : State} (hh : s'.heap = s.heap) (hb : s'.tbins = s.tbins) {p : Pending} {pc : Pc}
    (h : PcInv s p pc) : PcInv s' p pc := by
  cases s; cases s'
  simp only at hh hb
  subst hh hb
  exact h

/-! ## program counters -/

private theorem xPc_of_lowStored {pc : Pc} {j : Nat} (h : lowStored pc = some j) : xPc pc = true := by
  cases pc <;> simp [lowStored] at h <;> rfl

private theorem xPc_of_highStored {pc : Pc} {j : Nat} (h : highStored pc = some j) : xPc pc = true := by
  cases pc <;> simp [highStored] at h <;> rfl

private theorem xIdx_none_of {pc : Pc} (hx : xPc pc = false) : xIdx pc = none := by
  cases pc <;> simp [xPc] at hx <;> rfl

private theorem pend_indep {pc : Pc} (hx : xPc pc = false) (s s0 : State) : pend s0 pc = pend s pc := by
  cases pc <;> simp [xPc] at hx <;> rfl

private theorem XPc_of_not_xPc {s : State} {pc : Pc} (hx : xPc pc = false) : XPc s pc := by
  cases pc <;> simp [xPc] at hx <;> trivial

private theorem KInv_of_xPc {s : State} {pc : Pc} (hx : xPc pc = true) : KInv s pc := by
  cases pc <;> simp [xPc] at hx <;> trivial

private theorem KInv_congr {s s' : State} (hh : s'.heap = s.heap) (hb : s'.tbins = s.tbins) {pc : Pc}
    (hk : ∀ tab k h b, pc = .kStore tab k h b → ∀ id, cellAt s' id ≠ .tree b) (h : KInv s pc) : KInv s' pc := by
  cases pc <;> try trivial
  case kStore tab k h0 b => exact ⟨h.1.congr hh hb, hk tab k h0 b rfl⟩

/-! ## the situation of the resizing thread -/

/-- thread `t` is THE resizing thread and works on cell `(cur, j)`, which is not forwarded; it is validated in it, or
the cell is empty -/
structure XCtx (s : State) (t : Nat) (l : Local) (j : Nat) : Prop where
  inv : Inv s
  hl : s.threads[t]? = some l
  call : l.call = none
  xpc : xPc l.pc = true
  idx : xIdx l.pc = some j
  notMoved : cellAt s (s.cur, j) ≠ .moved
  valid : validated l.pc = true ∨ cellAt s (s.cur, j) = .empty

theorem xctx_of {s : State} {t : Nat} {l : Local} {j : Nat} (I : Inv s) (hl : s.threads[t]? = some l) (hc : l.call = none)
    (hi : xIdx l.pc = some j) (hnm : cellAt s (s.cur, j) ≠ .moved)
    (hv : validated l.pc = true ∨ cellAt s (s.cur, j) = .empty) : XCtx s t l j :=
  ⟨I, hl, hc, xPc_of_xIdx hi, hi, hnm, hv⟩

theorem XCtx.cid {s : State} {t : Nat} {l : Local} {j : Nat} (X : XCtx s t l j) : cidOf s l = (s.cur, j) := by
  unfold cidOf; rw [X.idx]

theorem XCtx.jlt {s : State} {t : Nat} {l : Local} {j : Nat} (X : XCtx s t l j) : j < 2 ^ s.cur :=
  X.inv.rsz.idx t l j X.hl X.idx

theorem XCtx.resz {s : State} {t : Nat} {l : Local} {j : Nat} (X : XCtx s t l j) : s.resizing = true :=
  X.inv.rsz.resz t l X.hl X.xpc

/-- no other thread is a resizing thread -/
theorem XCtx.other_x {s : State} {t : Nat} {l : Local} {j : Nat} (X : XCtx s t l j) {t1 : Nat} {l1 : Local}
    (hne : t1 ≠ t) (hl1 : s.threads[t1]? = some l1) : xPc l1.pc = false := by
  cases h : xPc l1.pc with
  | false => rfl
  | true => exact absurd (X.inv.rsz.uniqX t1 t l1 l hl1 X.hl h X.xpc) hne

/-- a child of `(cur, j)` that is not `empty` has been stored by the acting thread -/
theorem XCtx.child_stored {s : State} {t : Nat} {l : Local} {j : Nat} (X : XCtx s t l j) {j' : Nat}
    (hne : cellAt s (s.cur + 1, j') ≠ .empty) (hp : j' % 2 ^ s.cur = j) :
    lowStored l.pc = some j' ∨ ∃ j1, highStored l.pc = some j1 ∧ j' = j1 + 2 ^ s.cur := by
  rcases X.inv.rsz.nextEmpty j' hne with h | ⟨t1, l1, h1, hs⟩
  · rw [hp] at h; exact absurd h X.notMoved
  · have hx1 : xPc l1.pc = true := by
      rcases hs with h | ⟨j1, h, -⟩
      · exact xPc_of_lowStored h
      · exact xPc_of_highStored h
    have e := X.inv.rsz.uniqX t1 t l1 l h1 X.hl hx1 X.xpc
    rw [e, X.hl] at h1
    cases h1
    exact hs

/-- a pending structure of the transfer is not the private `TreeBin` of a treeify -/
theorem XCtx.pend_ne_kstore {s : State} {t : Nat} {l : Local} {j : Nat} (X : XCtx s t l j) {C : Cell}
    (hCp : C ∈ pend s l.pc) {t1 : Nat} {l1 : Local} {tab k h b : Nat} (hl1 : s.threads[t1]? = some l1)
    (hpc : l1.pc = .kStore tab k h b) : C ≠ .tree b := by
  intro hCb
  have I := X.inv
  have H := I.heap
  have XI := I.rsz
  have K := I.data.kInv t1 l1 hl1
  rw [hpc] at K
  obtain ⟨K1, -⟩ := K
  have hv1 : validated l1.pc = true := by rw [hpc]; rfl
  have hx1 : xPc l1.pc = false := by rw [hpc]; rfl
  have W := Writable.of_validated I hl1 hv1 hx1
  have hcl : cellAt s (cidOf s l1) = .list h := I.lock.vL t1 l1 h hl1 (by rw [hpc]; rfl)
  obtain ⟨j0, sel, hi0, hp0, hcp⟩ := Store.pend_copyOK X.xpc (XI.plan t l X.hl) hCp
  have hpe : pend s l.pc ≠ [] := by intro e; rw [e] at hCp; cases hCp
  have hnp := W.not_parent XI X.hl hi0 hp0 hpe
  have hCI := H.cinv (cidOf s l1)
  rw [hcl] at hCI
  obtain ⟨l', hl'⟩ := hCI.isChain.start_some
  have hmem : h ∈ chainC s (.list h) := by
    show h ∈ chainOf s.heap (some h)
    have e : chainOf s.heap (startOf s.tbins (.list h)) = h :: l' := hl'
    have e' : chainOf s.heap (some h) = h :: l' := e
    rw [e']; simp
  obtain ⟨x, hx, hxk, -, -⟩ := K1.cover h hmem rfl
  have hxC : x ∈ chainC s C := by rw [hCb]; exact hx
  have k1 := Store.copy_key H hcp hxC
  have k2 := H.side (cidOf s l1) h (Or.inl (by rw [hcl]; exact hmem))
  rw [hxk] at k1
  exact W.key_ne hnp k2 k1

/-- the shape of the successor state: thread `t` moves to `l'`, clock, history and flags -/
structure TStep (s s' : State) (t : Nat) (l' : Local) : Prop where
  thr : s'.threads = s.threads.set t l'
  now : s'.now = s.now + 1
  hist : s'.hist = s.hist
  resz : s'.resizing = s.resizing
  cur : s'.cur = s.cur
  call : l'.call = none
  xpc : xPc l'.pc = true

private theorem xPc_noCall {pc : Pc} (h : xPc pc = true) : noCallPc pc = true := by
  unfold noCallPc; rw [h]; simp

theorem XCtx.tinv {s s' : State} {t : Nat} {l l' : Local} {j : Nat} (X : XCtx s t l j) (S : TStep s s' t l') : TInv s' :=
  tinv_keep X.inv.thr X.hl S.thr S.now S.hist (S.call.trans X.call.symm)
    (by rw [S.call, xPc_noCall S.xpc]; simp) (fun p hp => by rw [X.call] at hp; cases hp)

theorem XCtx.self' {s s' : State} {t : Nat} {l l' : Local} {j : Nat} (X : XCtx s t l j) (S : TStep s s' t l') :
    s'.threads[t]? = some l' := by
  rw [S.thr]; exact get_set_self X.hl

theorem XCtx.cases' {s s' : State} {t : Nat} {l l' : Local} {j : Nat} (X : XCtx s t l j) (S : TStep s s' t l') {t1 : Nat}
    {l1 : Local} (h1 : s'.threads[t1]? = some l1) : (t1 = t ∧ l1 = l') ∨ (t1 ≠ t ∧ s.threads[t1]? = some l1) := by
  have _ := X
  rw [S.thr] at h1
  exact get_set h1

theorem XCtx.other' {s s' : State} {t : Nat} {l l' : Local} {j : Nat} (X : XCtx s t l j) (S : TStep s s' t l') {t1 : Nat}
    {l1 : Local} (hne : t1 ≠ t) (h1 : s.threads[t1]? = some l1) : s'.threads[t1]? = some l1 := by
  have _ := X
  rw [S.thr, get_set_ne hne]; exact h1

/-- the generation structure comes from `XShape s'`; only the plan of the acting thread has to be shown -/
theorem XCtx.xinv {s s' : State} {t : Nat} {l l' : Local} {j : Nat} (X : XCtx s t l j) (S : TStep s s' t l')
    (XS' : XShape s') (hplan : XPc s' l'.pc) : XInv s' := by
  refine XS'.xinv ?_
  intro t1 l1 h1
  rcases X.cases' S h1 with ⟨_, e⟩ | ⟨hne1, h1⟩
  · rw [e]; exact hplan
  · exact XPc_of_not_xPc (X.other_x hne1 h1)

/-- a private `TreeBin` of the successor state was one before -/
theorem XCtx.privBin_back {s s' : State} {t : Nat} {l l' : Local} {j : Nat} (X : XCtx s t l j) (S : TStep s s' t l')
    {b : Nat}
    (hself : (.tree b : Cell) ∈ pend s' l'.pc → (∀ j', xIdx l'.pc = some j' → cellAt s' (s'.cur, j') ≠ .tree b) →
      PrivBin s b) (h : PrivBin s' b) : PrivBin s b := by
  obtain ⟨t1, l1, h1, hmem, hne⟩ := h
  rcases X.cases' S h1 with ⟨_, e⟩ | ⟨hne1, h1⟩
  · rw [e] at hmem hne
    exact hself hmem hne
  · have hx1 := X.other_x hne1 h1
    rw [pend_indep hx1 s s'] at hmem
    refine ⟨t1, l1, h1, hmem, ?_⟩
    intro j' hj'
    rw [xIdx_none_of hx1] at hj'; cases hj'

/-! ## the heap invariant, cell by cell -/

/-- what `HInv` says about the structure in cell `id` -/
structure CellOK (s : State) (id : Cid) (C : Cell) : Prop where
  cinv : CInv s.heap (startOf s.tbins C) (treeOf s C)
  cellOK : ∀ b, C = .tree b → b < s.tbins.length
  chainOwner : ∀ j ∈ chainC s C, (nodeAt s.heap j).owner = ownerOf C
  side : ∀ j, (j ∈ chainC s C ∨ treeOf s C j) → (nodeAt s.heap j).key % 2 ^ id.1 = id.2

theorem HInv.cell {s : State} (H : HInv s) (id : Cid) : CellOK s id (cellAt s id) :=
  ⟨H.cinv id, H.cellOK id, H.chainOwner id, H.side id⟩

private theorem chainC_moved' (s : State) : chainC s .moved = [] := Flurry.Proto.BinK.chainOf_none _
private theorem chainC_empty' (s : State) : chainC s .empty = [] := Flurry.Proto.BinK.chainOf_none _

private theorem not_treeOf_moved' (s : State) (j : Nat) : ¬ treeOf s .moved j := by
  rintro ⟨_, _, b, hb, _⟩; cases hb

private theorem not_treeOf_empty' (s : State) (j : Nat) : ¬ treeOf s .empty j := by
  rintro ⟨_, _, b, hb, _⟩; cases hb

theorem CellOK.moved {s : State} (hok : NextOK s.heap) (id : Cid) : CellOK s id .moved := by
  have hno : ∀ a, ¬ (a ∈ chainC s .moved ∨ treeOf s .moved a) := by
    intro a ha
    rcases ha with h | h
    · rw [chainC_moved'] at h; cases h
    · exact not_treeOf_moved' s a h
  refine ⟨⟨hok, (fun h hh => by cases hh), fun a b ha => absurd ha (hno a)⟩, (fun b hb => by cases hb), ?_, ?_⟩
  · intro j hj; exact absurd (Or.inl hj) (hno j)
  · intro j hj; exact absurd hj (hno j)

/-- a planned child of `(cur, j0)` is a well-formed content of the child cell `id` -/
theorem CopyOK.cell {s : State} (H : HInv s) {j0 : Nat} {sel : Nat → Bool} {C : Cell} {id : Cid}
    (h : CopyOK s (cellAt s (s.cur, j0)) sel C) (hg : id.1 = s.cur + 1)
    (hs : ∀ k, k % 2 ^ s.cur = j0 → sel k = true → k % 2 ^ (s.cur + 1) = id.2) : CellOK s id C := by
  refine ⟨h.cinv, h.cellOK, h.chainOwner, ?_⟩
  intro x hx
  rw [hg]
  refine hs _ ?_ (h.selOK x hx)
  rcases hx with hx | hx
  · exact Store.copy_key H h hx
  · obtain ⟨hxl, hin, b, hCb, ho⟩ := hx
    by_cases hold : cellAt s (s.cur, j0) = .tree b
    · exact H.side (s.cur, j0) x (Or.inr ⟨hxl, hin, b, hold, ho⟩)
    · obtain ⟨-, f2, -⟩ := h.fresh b hCb hold
      exact Store.copy_key H h ((f2 x hxl).1 ho)

theorem hinv_of_cells {s s' : State} (hh : s'.heap = s.heap) (hb : s'.tbins = s.tbins) (H : HInv s)
    (hc : ∀ id, CellOK s id (cellAt s' id))
    (hbd : ∀ (id id' : Cid) b, cellAt s' id = .tree b → cellAt s' id' = .tree b → id = id' ∨
      ∃ j0, Reusing s' b j0 ∧ ((id = (s'.cur, j0) ∧ id'.1 = s'.cur + 1 ∧ id'.2 % 2 ^ s'.cur = j0) ∨
        (id' = (s'.cur, j0) ∧ id.1 = s'.cur + 1 ∧ id.2 % 2 ^ s'.cur = j0))) : HInv s' := by
  cases s; cases s'
  simp only at hh hb
  subst hh hb
  exact ⟨fun id => (hc id).cinv, H.ownerOK, H.firstOK, fun id => (hc id).cellOK, fun id => (hc id).chainOwner,
    fun id => (hc id).side, hbd⟩

/-! ## the lock invariant and the data invariant after a store into a cell -/

theorem XCtx.linv {s s' : State} {t : Nat} {l l' : Local} {j : Nat} (X : XCtx s t l j) (S : TStep s s' t l')
    (hh : s'.heap = s.heap) (hb : s'.tbins = s.tbins)
    (eL : holdsLock l'.pc = holdsLock l.pc) (eM : holdsMutex l'.pc = holdsMutex l.pc)
    (hvL : ∀ h, validL l'.pc = some h → cellAt s' (cidOf s' l') = .list h)
    (hvT : ∀ b, validT l'.pc = some b → cellAt s' (cidOf s' l') = .tree b)
    (hvo : ∀ id, cellAt s' id = cellAt s id ∨ (validated l.pc = true ∧ id = (s.cur, j)) ∨ cellAt s id = .empty)
    (hbits : ∀ id b, cellAt s' id = .tree b → (∃ id0, cellAt s id0 = .tree b) ∨
      ((binAt s.tbins b).mutex = none ∧ (binAt s.tbins b).writer = false ∧ (binAt s.tbins b).waiter = false))
    (ewr : wr l'.pc = wr l.pc) (eloop : isLoop l.pc = false) (eR : holdsRead l'.pc = holdsRead l.pc)
    (eB : ∀ b, binRef l'.pc = some b → binRef l.pc = some b)
    (hpriv : ∀ b, b < s.tbins.length → PrivBin s' b → PrivBin s b) : LInv s' := by
  have L := X.inv.lock
  have hcl : cidOf s l = (s.cur, j) := X.cid
  have hvo' : ∀ id, cellAt s' id = cellAt s id ∨ (validated l.pc = true ∧ cidOf s l = id) ∨ cellAt s id = .empty := by
    intro id
    rcases hvo id with h | ⟨h1, h2⟩ | h
    · exact Or.inl h
    · exact Or.inr (Or.inl ⟨h1, by rw [hcl, h2]⟩)
    · exact Or.inr (Or.inr h)
  refine LInv.of_parts
    (lk_step L X.hl S.thr S.cur (lockfun_same L X.hl eL (fun h => by rw [hh])) (fun h hp => Or.inl (eL ▸ hp))
      hvL hvo')
    (mx_step L X.hl S.thr S.cur (mutexfun_same L X.hl eM (fun b => by rw [hb])) (fun b hp => Or.inl (eM ▸ hp))
      hvT hvo')
    (rw_cell L X.hl S.thr hb hbits (fun b _ _ => ⟨ewr, fun h => by rw [eloop] at h; cases h⟩) eR
      (fun b hr => Or.inl (eB b hr)) hpriv)

theorem XCtx.dinv {s s' : State} {t : Nat} {l l' : Local} {j : Nat} (X : XCtx s t l j) (S : TStep s s' t l')
    (hh : s'.heap = s.heap) (hb : s'.tbins = s.tbins)
    (hk : ∀ (t1 : Nat) (l1 : Local) (tab k h b : Nat), t1 ≠ t → s.threads[t1]? = some l1 → l1.pc = .kStore tab k h b →
      ∀ id, cellAt s' id ≠ .tree b)
    (hcells : ∀ id b, cellAt s' id = .tree b → (∃ id0, cellAt s id0 = .tree b) ∨
      ((∀ j, j < s.heap.length → (nodeAt s.heap j).owner = some b → (nodeAt s.heap j).inTree = true →
          j ∈ chainOfBin s b) ∧ ∀ j ∈ chainOfBin s b, (nodeAt s.heap j).inTree = true)) : DInv s' := by
  have I := X.inv
  have hcb : ∀ b, chainOfBin s' b = chainOfBin s b := fun b => chainC_congr hh hb (.tree b)
  have hkeep : ∀ (t1 : Nat) (l1 : Local), s.threads[t1]? = some l1 → xPc l1.pc = false → s'.threads[t1]? = some l1 := by
    intro t1 l1 h1 hx1
    refine X.other' S ?_ h1
    intro e
    rw [e, X.hl] at h1
    cases h1
    rw [X.xpc] at hx1; cases hx1
  refine ⟨?_, ?_, ?_, ?_⟩
  · intro t1 l1 p h1 hc1
    rcases X.cases' S h1 with ⟨_, e⟩ | ⟨hne, h1⟩
    · rw [e, S.call] at hc1; cases hc1
    · exact (I.data.pcInv t1 l1 p h1 hc1).congr hh hb
  · intro t1 l1 h1
    rcases X.cases' S h1 with ⟨_, e⟩ | ⟨hne, h1⟩
    · rw [e]; exact KInv_of_xPc S.xpc
    · exact KInv_congr hh hb (fun tab k h b hpc => hk t1 l1 tab k h b hne h1 hpc) (I.data.kInv t1 l1 h1)
  · intro id b hc j hj ho hin hn
    rw [hh] at hj ho hin
    rw [hcb] at hn
    rcases hcells id b hc with ⟨id0, hc0⟩ | ⟨f1, _⟩
    · obtain ⟨t1, l1, h1, hcase⟩ := I.data.treeSub id0 b hc0 j hj ho hin hn
      refine ⟨t1, l1, hkeep t1 l1 h1 ?_, hcase⟩
      rcases hcase with ⟨tab, res, h⟩ | ⟨tab, res, h⟩ <;> rw [h] <;> rfl
    · exact absurd (f1 j hj ho hin) hn
  · intro id b hc j hj hin
    rw [hh] at hin
    rw [hcb] at hj
    rcases hcells id b hc with ⟨id0, hc0⟩ | ⟨_, f2⟩
    · obtain ⟨t1, l1, tab, h1, hpc⟩ := I.data.chainSub id0 b hc0 j hj hin
      exact ⟨t1, l1, tab, hkeep t1 l1 h1 (by rw [hpc]; rfl), hpc⟩
    · rw [f2 j hj] at hin; cases hin

/-! ## live chains -/

private theorem LC_live {s : State} (X : XInv s) (k : Nat) : LC s k = chainC s (cellAt s (liveId s k)) := by
  unfold LC; rw [liveCell_eq X]

private theorem absTree_congr {s s' : State} (hh : s'.heap = s.heap) (b k : Nat) : absTree s' b k = absTree s b k := by
  unfold absTree treeFind; rw [hh]

private theorem absOf_of_LC {s s' : State} (hh : s'.heap = s.heap) {k : Nat} (hLC : LC s' k = LC s k) :
    absOf s' k = absOf s k := by
  rw [BinGNP.absOf_eq, BinGNP.absOf_eq, hLC, hh]

/-- the live cell of `k` when the cells of generation `cur` are the same -/
private theorem liveId_same {s s' : State} (hcur : s'.cur = s.cur)
    (hg : ∀ id : Cid, id.1 = s.cur → cellAt s' id = cellAt s id) (k : Nat) : liveId s' k = liveId s k := by
  unfold liveId
  rw [hcur, hg (idOf s.cur k) rfl]

/-- the live cell of a key is not a child of a cell that is not forwarded -/
private theorem liveId_ne_child {s : State} {j : Nat} (hnm : cellAt s (s.cur, j) ≠ .moved) {id : Cid}
    (hid1 : id.1 = s.cur + 1) (hidp : id.2 % 2 ^ s.cur = j) (k : Nat) : liveId s k ≠ id := by
  intro e
  unfold liveId at e
  split at e
  · rename_i hm
    apply hnm
    have e2 : k % 2 ^ (s.cur + 1) = id.2 := by rw [← e]; rfl
    have : idOf s.cur k = (s.cur, j) := by
      unfold idOf
      rw [← hidp, ← e2, mod_succ_mod]
    rw [← this]; exact hm
  · have : s.cur = id.1 := by rw [← e]; rfl
    omega

private theorem validated_unl (unl : Nat ⊕ Nat) : ((unlL unl).isSome || (unlT unl).isSome) = true := by
  cases unl <;> rfl

/-- the lock word the thread keeps for the unlock tells what the old cell holds -/
private theorem unl_of_tree {s : State} {t : Nat} {l : Local} {j b : Nat} {unl : Nat ⊕ Nat} (L : LInv s)
    (hl : s.threads[t]? = some l) (hcid : cidOf s l = (s.cur, j)) (hvL : validL l.pc = unlL unl)
    (hvT : validT l.pc = unlT unl) (h0 : cellAt s (s.cur, j) = .tree b) : unl = .inr b := by
  cases unl with
  | inl h =>
    have := L.vL t l h hl hvL
    rw [hcid, h0] at this; cases this
  | inr b' =>
    have := L.vT t l b' hl hvT
    rw [hcid, h0] at this; cases this; rfl

private theorem cellAt_put_step {s : State} (XI : XInv s) (hr : s.resizing = true) {t : Nat} {l' : Local} {g j : Nat}
    (hg : g ≤ s.cur + 1) (hj : j < 2 ^ g) (c : Cell) (id : Cid) :
    cellAt (putCell (setT (tick s) t l') g j c) id = if id = (g, j) then c else cellAt s id := by
  obtain ⟨row, hrow, hlen⟩ := XI.row_of_lt (XI.gen_lt_resz hr hg)
  exact BinGNP.cellAt_putCell (s := setT (tick s) t l') c hrow (by rw [hlen]; exact hj) id

/-! ## a planned structure is stored into its (empty) new cell -/

theorem xstoreNew_facts {s s' : State} {t : Nat} {l l' : Local} {j : Nat} {id : Cid} {C : Cell} {sel : Nat → Bool}
    (X : XCtx s t l j) (S : TStep s s' t l') (XS' : XShape s')
    (PS : PlanSep s)
    (hh : s'.heap = s.heap) (hb : s'.tbins = s.tbins)
    (hemp : cellAt s id = .empty)
    (hcell : ∀ id', cellAt s' id' = if id' = id then C else cellAt s id')
    (hid1 : id.1 = s.cur + 1) (hidp : id.2 % 2 ^ s.cur = j)
    (hC : CopyOK s (cellAt s (s.cur, j)) sel C)
    (hsel : ∀ k, k % 2 ^ s.cur = j → sel k = true → k % 2 ^ (s.cur + 1) = id.2)
    (hCp : C ∈ pend s l.pc) (hpend : pend s' l'.pc = pend s l.pc)
    (hsib : ∀ b (id' : Cid), C = .tree b → id' ≠ id → id'.1 = s.cur + 1 → id'.2 % 2 ^ s.cur = j →
      cellAt s id' ≠ .tree b)
    (hre0 : ∀ b j0, Reusing s b j0 → Reusing s' b j0)
    (hre : ∀ b, C = .tree b → cellAt s (s.cur, j) = .tree b → Reusing s' b j)
    (hxi : xIdx l'.pc = some j)
    (eL : holdsLock l'.pc = holdsLock l.pc) (eM : holdsMutex l'.pc = holdsMutex l.pc)
    (evL : validL l'.pc = validL l.pc) (evT : validT l'.pc = validT l.pc)
    (ewr : wr l'.pc = wr l.pc) (eloop : isLoop l.pc = false) (eR : holdsRead l'.pc = holdsRead l.pc)
    (eB : binRef l'.pc = binRef l.pc)
    (hplan : XPc s' l'.pc) : Eff s s' ∧ ∀ k, absOf s' k = absOf s k := by
  have I := X.inv
  have H := I.heap
  have XI := I.rsz
  have hcur := S.cur
  have hne0 : (s.cur, j) ≠ id := by
    intro e
    have : s.cur = id.1 := by rw [← e]
    omega
  have hc0 : cellAt s' (s.cur, j) = cellAt s (s.cur, j) := by rw [hcell, if_neg hne0]
  have hgen : ∀ id' : Cid, id'.1 = s.cur → cellAt s' id' = cellAt s id' := by
    intro id' h
    rw [hcell, if_neg]
    intro e; rw [e] at h; omega
  have hcid' : cidOf s' l' = (s.cur, j) := by unfold cidOf; rw [hxi, hcur]
  -- the new cell: a bin of a cell of `s`, or a fresh bin
  have hnew : ∀ id' b, cellAt s' id' = .tree b → (∃ id0, cellAt s id0 = .tree b) ∨
      (C = .tree b ∧ cellAt s (s.cur, j) ≠ .tree b) := by
    intro id' b hcb
    rw [hcell] at hcb
    split at hcb
    · by_cases h0 : cellAt s (s.cur, j) = .tree b
      · exact Or.inl ⟨_, h0⟩
      · exact Or.inr ⟨hcb, h0⟩
    · exact Or.inl ⟨id', hcb⟩
  have hprivC : ∀ b, C = .tree b → cellAt s (s.cur, j) ≠ .tree b → PrivBin s b := by
    intro b hCb h0
    refine ⟨t, l, X.hl, hCb ▸ hCp, ?_⟩
    intro j' hj'
    rw [X.idx] at hj'; cases hj'
    exact h0
  have hkey : ∀ b (id2 : Cid), C = .tree b → id2 ≠ id → cellAt s id2 = .tree b →
      Reusing s' b j ∧ id2 = (s.cur, j) := by
    intro b id2 hCb hne2 h2
    by_cases h0 : cellAt s (s.cur, j) = .tree b
    · refine ⟨hre b hCb h0, ?_⟩
      rcases H.binsDistinct (s.cur, j) id2 b h0 h2 with e | ⟨j0, -, ⟨e1, e2, e3⟩ | ⟨-, e2, -⟩⟩
      · exact e.symm
      · have ej : j = j0 := (Prod.mk.inj e1).2
        rw [← ej] at e3
        exact absurd h2 (hsib b id2 hCb hne2 e2 e3)
      · have : s.cur = s.cur + 1 := e2
        omega
    · exfalso
      rcases PS t l j b X.hl X.idx (hCb ▸ hCp) id2 h2 with e | e | e
      · rw [e] at h2; exact h0 h2
      · exact hsib b id2 hCb hne2 (by rw [e]) (by rw [e]; exact Nat.mod_eq_of_lt X.jlt) h2
      · exact hsib b id2 hCb hne2 (by rw [e]) (by rw [e]; exact high_mod X.jlt) h2
  have H' : HInv s' := by
    refine hinv_of_cells hh hb H ?_ ?_
    · intro id'
      rw [hcell]
      split
      · rename_i h; rw [h]; exact hC.cell H hid1 hsel
      · exact H.cell id'
    · intro id1 id2 b h1 h2
      rw [hcell] at h1 h2
      rw [hcur]
      by_cases e1 : id1 = id
      · by_cases e2 : id2 = id
        · left; rw [e1, e2]
        · rw [if_pos e1] at h1; rw [if_neg e2] at h2
          obtain ⟨hr, hp⟩ := hkey b id2 h1 e2 h2
          right
          exact ⟨j, hr, Or.inr ⟨hp, by rw [e1]; exact hid1, by rw [e1]; exact hidp⟩⟩
      · by_cases e2 : id2 = id
        · rw [if_neg e1] at h1; rw [if_pos e2] at h2
          obtain ⟨hr, hp⟩ := hkey b id1 h2 e1 h1
          right
          exact ⟨j, hr, Or.inl ⟨hp, by rw [e2]; exact hid1, by rw [e2]; exact hidp⟩⟩
        · rw [if_neg e1] at h1; rw [if_neg e2] at h2
          rcases H.binsDistinct id1 id2 b h1 h2 with e | ⟨j0, hr, hcs⟩
          · exact Or.inl e
          · exact Or.inr ⟨j0, hre0 b j0 hr, hcs⟩
  have hprivB : ∀ b, PrivBin s' b → PrivBin s b := by
    intro b hp
    refine X.privBin_back S ?_ hp
    intro hmem hne
    rw [hpend] at hmem
    refine ⟨t, l, X.hl, hmem, ?_⟩
    intro j' hj'
    rw [X.idx] at hj'; cases hj'
    have := hne j hxi
    rw [hcur, hc0] at this; exact this
  have hI' : Inv s' := by
    refine ⟨H', X.tinv S, X.xinv S XS' hplan, ?_, ?_⟩
    · refine X.linv S hh hb eL eM ?_ ?_ ?_ ?_ ewr eloop eR (fun b hr => eB ▸ hr) (fun b _ => hprivB b)
      · intro h hv
        rw [evL] at hv
        have := I.lock.vL t l h X.hl hv
        rw [X.cid] at this
        rw [hcid', hc0]; exact this
      · intro b hv
        rw [evT] at hv
        have := I.lock.vT t l b X.hl hv
        rw [X.cid] at this
        rw [hcid', hc0]; exact this
      · intro id'
        rw [hcell]
        split
        · rename_i h; rw [h]; exact Or.inr (Or.inr hemp)
        · exact Or.inl rfl
      · intro id' b hcb
        rcases hnew id' b hcb with h | ⟨hCb, h0⟩
        · exact Or.inl h
        · obtain ⟨f1, -, -⟩ := hC.fresh b hCb h0
          right
          rw [f1]
          exact ⟨rfl, rfl, rfl⟩
    · refine X.dinv S hh hb ?_ ?_
      · intro t1 l1 tab k h b hne1 h1 hpc id' hcb
        have K := I.data.kInv t1 l1 h1
        rw [hpc] at K
        rcases hnew id' b hcb with ⟨id0, h0⟩ | ⟨hCb, -⟩
        · exact K.2 id0 h0
        · exact X.pend_ne_kstore hCp h1 hpc hCb
      · intro id' b hcb
        rcases hnew id' b hcb with h | ⟨hCb, h0⟩
        · exact Or.inl h
        · obtain ⟨-, f2, f3⟩ := hC.fresh b hCb h0
          subst hCb
          right
          exact ⟨fun j hj ho _ => (f2 j hj).1 ho, f3⟩
  have XI' := hI'.rsz
  have hlive : ∀ k, liveId s' k = liveId s k := liveId_same hcur hgen
  have hlivec : ∀ k, cellAt s' (liveId s k) = cellAt s (liveId s k) := by
    intro k
    rw [hcell, if_neg (liveId_ne_child X.notMoved hid1 hidp k)]
  have hLC : ∀ k, LC s' k = LC s k := by
    intro k
    rw [LC_live XI', LC_live XI, hlive, hlivec]
    exact chainC_congr hh hb _
  refine ⟨⟨hI', ?_, ?_, ?_, ?_, ?_⟩, fun k => absOf_of_LC hh (hLC k)⟩
  · intro k
    refine KStep.of_same (by rw [hh]; exact Nat.le_refl _) (fun j _ => by rw [hh]; exact ⟨rfl, rfl, rfl⟩) (hLC k) ?_ ?_
    · intro x _ hu
      have hCu : x ∈ chainC s C → Used s x := by
        intro hx
        by_cases hx0 : x ∈ chainC s (cellAt s (s.cur, j))
        · exact Or.inl ⟨_, hx0⟩
        · refine Or.inr (Or.inr ⟨t, l, C, X.hl, X.xpc, hCp, hx, ?_⟩)
          intro j' hj'
          rw [X.idx] at hj'; cases hj'
          exact hx0
      rcases hu with ⟨id', hx⟩ | hu | hu
      · rw [chainC_congr hh hb, hcell] at hx
        split at hx
        · exact hCu hx
        · exact Or.inl ⟨id', hx⟩
      · exact Or.inr (Or.inl (Store.privK_back X.hl S.thr
          (fun tab k h b hpc => by have := S.xpc; rw [hpc] at this; cases this) (by rw [hh]) hu))
      · obtain ⟨t1, l1, C1, h1, hx1, hC1, hx, hx0⟩ := hu
        rw [chainC_congr hh hb] at hx
        rcases X.cases' S h1 with ⟨_, e⟩ | ⟨hne1, h1⟩
        · rw [e, hpend] at hC1
          rw [e] at hx0
          have := hx0 j hxi
          rw [hcur, hc0, chainC_congr hh hb] at this
          refine Or.inr (Or.inr ⟨t, l, C1, X.hl, X.xpc, hC1, hx, ?_⟩)
          intro j' hj'
          rw [X.idx] at hj'; cases hj'
          exact this
        · rw [X.other_x hne1 h1] at hx1; cases hx1
    · rintro c ⟨id1, hc1, hno⟩
      refine ⟨id1, ?_, hno⟩
      rw [chainC_congr hh hb, hcell]
      split
      · rename_i h
        rw [h, hemp, chainC_empty'] at hc1; cases hc1
      · exact hc1
  · intro b _ hne
    rw [hb] at hne; exact absurd rfl hne
  · intro b k _ hne
    rw [absTree_congr hh] at hne; exact absurd rfl hne
  · intro b k hc
    left
    rw [hlive, hlivec]; exact hc
  · intro b _ hnc hnp
    refine ⟨?_, fun h => by rw [hb]; exact h⟩
    rintro ⟨id', hcb⟩
    rcases hnew id' b hcb with h | ⟨hCb, h0⟩
    · exact hnc h
    · exact hnp (hprivC b hCb h0)

/-- all children of `(cur, j)` are `empty` before the first store -/
theorem XCtx.childEmpty {s : State} {t : Nat} {l : Local} {j : Nat} (X : XCtx s t l j) (hlo : lowStored l.pc = none)
    (hhi : highStored l.pc = none) {j' : Nat} (hp : j' % 2 ^ s.cur = j) : cellAt s (s.cur + 1, j') = .empty := by
  apply Classical.byContradiction
  intro hne
  rcases X.child_stored hne hp with h | ⟨j1, h, -⟩
  · rw [hlo] at h; cases h
  · rw [hhi] at h; cases h

theorem xstoreLow_facts {s : State} {t : Nat} {l : Local} {j : Nat} {unl : Nat ⊕ Nat} {lo hi : Cell} (I : Inv s)
    (hl : s.threads[t]? = some l) (hc : l.call = none) (hpc : l.pc = .xStoreLow j unl lo hi)
    (PS : PlanSep s) :
    let s' : State := putCell (setT (tick s) t { l with pc := .xStoreHigh j unl hi }) (s.cur + 1) j lo
    XShape s' → (Eff s s' ∧ ∀ k, absOf s' k = absOf s k) := by
  intro s' XS'
  have hi0 : xIdx l.pc = some j := by rw [hpc]; rfl
  have hval : validated l.pc = true := by rw [hpc]; exact validated_unl unl
  have X : XCtx s t l j := xctx_of I hl hc hi0 (I.rsz.pre t l j hl (by rw [hpc]; rfl) hi0) (Or.inl hval)
  have S : TStep s s' t { l with pc := .xStoreHigh j unl hi } := ⟨rfl, rfl, rfl, rfl, rfl, hc, rfl⟩
  have P : Plan s j lo hi := by
    have := I.rsz.plan t l hl
    rw [hpc] at this; exact this
  have hjj : j % 2 ^ s.cur = j := Nat.mod_eq_of_lt X.jlt
  have hallE : ∀ j', j' % 2 ^ s.cur = j → cellAt s (s.cur + 1, j') = .empty :=
    fun j' hp => X.childEmpty (by rw [hpc]; rfl) (by rw [hpc]; rfl) hp
  have hcell : ∀ id', cellAt s' id' = if id' = (s.cur + 1, j) then lo else cellAt s id' :=
    fun id' => cellAt_put_step I.rsz X.resz (Nat.le_refl _) (Nat.lt_of_lt_of_le X.jlt
      (Nat.pow_le_pow_right (by decide) (Nat.le_succ _))) lo id'
  have hlo' : cellAt s' (s.cur + 1, j) = lo := by rw [hcell, if_pos rfl]
  have hc0 : cellAt s' (s.cur, j) = cellAt s (s.cur, j) := by
    rw [hcell, if_neg]
    intro e
    have : s.cur = s.cur + 1 := congrArg Prod.fst e
    omega
  refine xstoreNew_facts (id := (s.cur + 1, j)) (C := lo) (sel := sideSel s.cur false) X S XS' PS rfl rfl
    (hallE j hjj) hcell rfl hjj P.low ?_ (by rw [hpc]; simp [pend]) ?_ ?_ ?_ ?_ rfl
    (by rw [hpc]; rfl) (by rw [hpc]; rfl) (by rw [hpc]; rfl) (by rw [hpc]; rfl) (by rw [hpc]; rfl) (by rw [hpc]; rfl)
    (by rw [hpc]; rfl) (by rw [hpc]; rfl) ?_
  · intro k hk hs
    have hbk : bitAt s.cur k = false := by simpa [sideSel] using hs
    show k % 2 ^ (s.cur + 1) = j
    rw [mod_succ_low hbk, hk]
  · rw [hpc]
    show [cellAt s' (s.cur + 1, j), hi] = [lo, hi]
    rw [hlo']
  · intro b id' _ _ h1 h2
    obtain ⟨g', j'⟩ := id'
    simp only at h1 h2
    subst h1
    rw [hallE j' h2]
    intro h; cases h
  · exact reusing_of_set_pc (s' := s') rfl hl
      ⟨fun _ _ _ h => (by rw [hpc] at h; cases h), fun _ _ h => (by rw [hpc] at h; cases h)⟩
  · intro b _ h0
    have e := unl_of_tree I.lock hl X.cid (by rw [hpc]; rfl) (by rw [hpc]; rfl) h0
    exact ⟨t, _, X.self' S, Or.inl ⟨hi, by rw [e]⟩⟩
  · show Plan s' j (cellAt s' (s.cur + 1, j)) hi
    rw [hlo']
    exact Plan.congr (s := s) (s' := s') rfl rfl rfl hc0 P

theorem xstoreHigh_facts {s : State} {t : Nat} {l : Local} {j : Nat} {unl : Nat ⊕ Nat} {hi : Cell} (I : Inv s)
    (hl : s.threads[t]? = some l) (hc : l.call = none) (hpc : l.pc = .xStoreHigh j unl hi)
    (PS : PlanSep s) :
    let s' : State := putCell (setT (tick s) t { l with pc := .xStoreMoved j unl }) (s.cur + 1) (j + 2 ^ s.cur) hi
    XShape s' → (Eff s s' ∧ ∀ k, absOf s' k = absOf s k) := by
  intro s' XS'
  have hi0 : xIdx l.pc = some j := by rw [hpc]; rfl
  have hval : validated l.pc = true := by rw [hpc]; exact validated_unl unl
  have X : XCtx s t l j := xctx_of I hl hc hi0 (I.rsz.pre t l j hl (by rw [hpc]; rfl) hi0) (Or.inl hval)
  have S : TStep s s' t { l with pc := .xStoreMoved j unl } := ⟨rfl, rfl, rfl, rfl, rfl, hc, rfl⟩
  have P : Plan s j (cellAt s (s.cur + 1, j)) hi := by
    have := I.rsz.plan t l hl
    rw [hpc] at this; exact this
  have hpos : 0 < 2 ^ s.cur := pow_pos' s.cur
  have hjh : (j + 2 ^ s.cur) % 2 ^ s.cur = j := high_mod X.jlt
  -- a non-empty child is the low child
  have hchild : ∀ j', j' % 2 ^ s.cur = j → cellAt s (s.cur + 1, j') ≠ .empty → j' = j := by
    intro j' hp hne
    rcases X.child_stored hne hp with h | ⟨j1, h, -⟩
    · rw [hpc] at h
      exact (Option.some.inj h).symm
    · rw [hpc] at h; cases h
  have hemp : cellAt s (s.cur + 1, j + 2 ^ s.cur) = .empty := by
    apply Classical.byContradiction
    intro hne
    have := hchild _ hjh hne
    omega
  have hcell : ∀ id', cellAt s' id' = if id' = (s.cur + 1, j + 2 ^ s.cur) then hi else cellAt s id' :=
    fun id' => cellAt_put_step I.rsz X.resz (Nat.le_refl _) (by rw [Nat.pow_succ]; have := X.jlt; omega) hi id'
  have hhi' : cellAt s' (s.cur + 1, j + 2 ^ s.cur) = hi := by rw [hcell, if_pos rfl]
  have hlo' : cellAt s' (s.cur + 1, j) = cellAt s (s.cur + 1, j) := by
    rw [hcell, if_neg]
    intro e
    have : j = j + 2 ^ s.cur := congrArg Prod.snd e
    omega
  have hc0 : cellAt s' (s.cur, j) = cellAt s (s.cur, j) := by
    rw [hcell, if_neg]
    intro e
    have : s.cur = s.cur + 1 := congrArg Prod.fst e
    omega
  refine xstoreNew_facts (id := (s.cur + 1, j + 2 ^ s.cur)) (C := hi) (sel := sideSel s.cur true) X S XS' PS rfl rfl
    hemp hcell rfl hjh P.high ?_ (by rw [hpc]; simp [pend]) ?_ ?_ ?_ ?_ rfl
    (by rw [hpc]; rfl) (by rw [hpc]; rfl) (by rw [hpc]; rfl) (by rw [hpc]; rfl) (by rw [hpc]; rfl) (by rw [hpc]; rfl)
    (by rw [hpc]; rfl) (by rw [hpc]; rfl) ?_
  · intro k hk hs
    have hbk : bitAt s.cur k = true := by simpa [sideSel] using hs
    show k % 2 ^ (s.cur + 1) = j + 2 ^ s.cur
    rw [mod_succ_high hbk, hk]
  · rw [hpc]
    show [cellAt s' (s.cur + 1, j), cellAt s' (s.cur + 1, j + 2 ^ s.cur)] = [cellAt s (s.cur + 1, j), hi]
    rw [hlo', hhi']
  · intro b id' hCb hne h1 h2 hcb
    obtain ⟨g', j'⟩ := id'
    simp only at h1 h2
    subst h1
    have := hchild j' h2 (by rw [hcb]; intro h; cases h)
    subst this
    exact P.distinct b hcb hCb
  · refine reusing_of_set (s' := s') rfl hl ?_
    rintro b j0 (⟨hi', h⟩ | h)
    · rw [hpc] at h
      injection h with e1 e2 e3
      right
      show (.xStoreMoved j unl : Pc) = .xStoreMoved j0 (.inr b)
      rw [e1, e2]
    · rw [hpc] at h; cases h
  · intro b _ h0
    have e := unl_of_tree I.lock hl X.cid (by rw [hpc]; rfl) (by rw [hpc]; rfl) h0
    exact ⟨t, _, X.self' S, Or.inr (by rw [e])⟩
  · show Plan s' j (cellAt s' (s.cur + 1, j)) (cellAt s' (s.cur + 1, j + 2 ^ s.cur))
    rw [hlo', hhi']
    exact Plan.congr (s := s) (s' := s') rfl rfl rfl hc0 P

/-! ## the forwarding -/

private theorem pair_total {L : List Nat} (hnd : L.Nodup) {a b : Nat} (ha : a ∈ L) (hb : b ∈ L) (hne : a ≠ b) :
    List.Sublist [a, b] L ∨ List.Sublist [b, a] L := by
  obtain ⟨p, q, rfl⟩ := List.append_of_mem hb
  rcases List.mem_append.1 ha with h | h
  · exact Or.inl ((pair_sublist_iff hnd rfl a).2 h)
  · rcases List.mem_cons.1 h with h | h
    · exact absurd h hne
    · right
      obtain ⟨q1, q2, rfl⟩ := List.append_of_mem h
      have e : p ++ b :: (q1 ++ a :: q2) = (p ++ b :: q1) ++ a :: q2 := by simp
      exact (pair_sublist_iff (p := p ++ b :: q1) hnd e b).2 (by simp)

/-- a structure that holds the selected part of the old chain shows the same abstract state for a
selected key -/
theorem CopyOK.abs_eq {s : State} {old C : Cell} {sel : Nat → Bool} (h : CopyOK s old sel C)
    (hd : ∀ i j, i ∈ chainC s old → j ∈ chainC s old → (nodeAt s.heap i).key = (nodeAt s.heap j).key → i = j)
    {k : Nat} (hk : sel k = true) : absL s.heap (chainC s C) k = absL s.heap (chainC s old) k := by
  cases ha : absL s.heap (chainC s old) k with
  | none =>
    rw [absL_eq_none_iff] at ha ⊢
    intro j hj
    by_cases hjo : j ∈ chainC s old
    · exact ha j hjo
    · obtain ⟨i, hi, hik, -, -⟩ := h.src j hj hjo
      rw [← hik]; exact ha i hi
  | some v =>
    rw [absL_eq_some_iff hd] at ha
    obtain ⟨i, hi, hik, hiv⟩ := ha
    obtain ⟨j, hj, hjk, hjv, -⟩ := h.cover i hi (by rw [hik]; exact hk)
    have hdC : ∀ a b, a ∈ chainC s C → b ∈ chainC s C → (nodeAt s.heap a).key = (nodeAt s.heap b).key → a = b :=
      fun a b ha hb => h.cinv.distinct a b ha hb
    rw [absL_eq_some_iff hdC]
    exact ⟨j, hj, by rw [hjk, hik], by rw [hjv, hiv]⟩

/-- the planned children of `(cur, j)`, seen from a key `k` of the cell: its own child and the other one -/
theorem Plan.sides {s : State} {j : Nat} (P : Plan s j (cellAt s (s.cur + 1, j)) (cellAt s (s.cur + 1, j + 2 ^ s.cur)))
    {k : Nat} (hk : k % 2 ^ s.cur = j) :
    ∃ oid : Cid, CopyOK s (cellAt s (s.cur, j)) (sideSel s.cur (bitAt s.cur k)) (cellAt s (idOf (s.cur + 1) k)) ∧
      CopyOK s (cellAt s (s.cur, j)) (sideSel s.cur (!bitAt s.cur k)) (cellAt s oid) ∧
      oid.1 = s.cur + 1 ∧ k % 2 ^ (s.cur + 1) ≠ oid.2 ∧
      ∀ id : Cid, id = (s.cur + 1, j) ∨ id = (s.cur + 1, j + 2 ^ s.cur) → id = idOf (s.cur + 1) k ∨ id = oid := by
  have hpos : 0 < 2 ^ s.cur := pow_pos' s.cur
  have e := idOf_succ_of_parent hk
  have e2 : k % 2 ^ (s.cur + 1) = (idOf (s.cur + 1) k).2 := rfl
  cases hb : bitAt s.cur k with
  | false =>
    rw [hb] at e
    simp only [Bool.false_eq_true, if_false] at e
    refine ⟨(s.cur + 1, j + 2 ^ s.cur), by rw [e]; exact P.low, P.high, rfl, ?_, ?_⟩
    · rw [e2, e]; show j ≠ j + 2 ^ s.cur; omega
    · intro id hid
      rw [e]
      exact hid
  | true =>
    rw [hb] at e
    simp only [if_true] at e
    refine ⟨(s.cur + 1, j), by rw [e]; exact P.high, P.low, rfl, ?_, ?_⟩
    · rw [e2, e]; show j + 2 ^ s.cur ≠ j; omega
    · intro id hid
      rw [e]
      exact hid.symm

private theorem sideSel_self (g k : Nat) : sideSel g (bitAt g k) k = true := by simp [sideSel]

private theorem sideSel_other {g k k' : Nat} (h : sideSel g (!bitAt g k) k' = true) : k' ≠ k := by
  rintro rfl
  unfold sideSel at h
  cases hb : bitAt g k' <;> simp [hb] at h

theorem copyOK_empty_empty {s : State} (hok : NextOK s.heap) (sel : Nat → Bool) : CopyOK s .empty sel .empty := by
  have hno : ∀ a, ¬ (a ∈ chainC s .empty ∨ treeOf s .empty a) := by
    intro a ha
    rcases ha with h | h
    · rw [chainC_empty'] at h; cases h
    · exact not_treeOf_empty' s a h
  refine ⟨(by intro h; cases h), ⟨hok, (fun h hh => by cases hh), fun a b ha => absurd ha (hno a)⟩,
    (fun b hb => by cases hb), ?_, ?_, ?_, ?_, ?_, ?_, (fun b hb => by cases hb)⟩
  · intro j hj; exact absurd (Or.inl hj) (hno j)
  · intro j hj; exact absurd hj (hno j)
  · intro j hj; exact absurd (Or.inl hj) (hno j)
  · intro i hi; exact absurd (Or.inl hi) (hno i)
  · intro r hr; exact absurd (Or.inl hr) (hno r)
  · intro i c hi; exact absurd (Or.inl hi) (hno i)

/-- `KStep.of_same` with foreign nodes that may die -/
private theorem kstep_same' {s s' : State} {k : Nat} (hlen : s.heap.length ≤ s'.heap.length)
    (hold : ∀ j, j < s.heap.length → (nodeAt s'.heap j).key = (nodeAt s.heap j).key ∧
      (nodeAt s'.heap j).val = (nodeAt s.heap j).val ∧ (nodeAt s'.heap j).next = (nodeAt s.heap j).next)
    (hLC : LC s' k = LC s k) (hused : ∀ j, j < s.heap.length → Used s' j → Used s j)
    (hfor : ∀ c, Foreign s k c → Foreign s' k c ∨
      (¬ Used s' c ∧ (nodeAt s'.heap c).next = (nodeAt s.heap c).next)) : KStep s s' k := by
  refine ⟨hlen, fun j hj => (hold j hj).1, fun j hj _ => (hold j hj).2, hused, ?_, ?_, ?_, hfor⟩
  · intro c hc hc'
    rw [hLC] at hc'
    exact absurd hc hc'
  · intro c _ _ i hi
    rw [hLC] at hi
    have hil : i < s.heap.length := mem_LC_lt (hi.subset (by simp))
    exact Or.inl ⟨i, hi, ((hold i hil).1).symm⟩
  · intro j hj hne _
    exact absurd (hold j hj).2.1 hne

/-- the forwarding, seen from a key `k` of the forwarded cell: the live chain switches from the old chain to the
chain of the child `kid` of `k`; the other child is `oid` -/
theorem kstep_forward {s s' : State} (H : HInv s) {j k : Nat} {kid oid : Cid}
    (hh : s'.heap = s.heap) (hb : s'.tbins = s.tbins)
    (Q : CopyOK s (cellAt s (s.cur, j)) (sideSel s.cur (bitAt s.cur k)) (cellAt s kid))
    (Q' : CopyOK s (cellAt s (s.cur, j)) (sideSel s.cur (!bitAt s.cur k)) (cellAt s oid))
    (hLC : LC s k = chainC s (cellAt s (s.cur, j))) (hLC' : LC s' k = chainC s (cellAt s kid))
    (hoidk : k % 2 ^ oid.1 ≠ oid.2) (hcello : cellAt s' oid = cellAt s oid)
    (hused : ∀ c, c ∈ chainC s (cellAt s (s.cur, j)) → Used s' c →
      c ∈ chainC s (cellAt s kid) ∨ c ∈ chainC s (cellAt s oid))
    (hstable : ∀ c, Used s' c → Used s c)
    (hfor : ∀ c, Foreign s k c → Foreign s' k c) : KStep s s' k := by
  have hOnd : (chainC s (cellAt s (s.cur, j))).Nodup := (H.cinv (s.cur, j)).nodup
  refine ⟨by rw [hh]; exact Nat.le_refl _, fun x _ => by rw [hh], fun x _ _ => by rw [hh]; exact ⟨rfl, rfl⟩,
    fun x _ hu => hstable x hu, ?_, ?_, ?_, fun c hc => Or.inl (hfor c hc)⟩
  · -- leave
    intro c hc hc'
    rw [hLC] at hc
    rw [hLC'] at hc'
    refine ⟨by rw [hh], by rw [hh], ?_⟩
    by_cases hY : c ∈ chainC s (cellAt s oid)
    · right
      refine ⟨⟨oid, by rw [chainC_congr hh hb, hcello]; exact hY, hoidk⟩, ?_⟩
      intro x hx hxc
      rw [hLC] at hx hxc
      have hxY : x ∈ chainC s (cellAt s oid) := by
        by_cases hxc' : x = c
        · rw [hxc']; exact hY
        · rcases pair_total hOnd hx hc hxc' with h | h
          · exact absurd h hxc
          · exact Q'.suffix c hc hY x hx h
      exact sideSel_other (Q'.selOK x (Or.inl hxY))
    · left
      intro hu
      rcases hused c hc hu with h | h
      · exact hc' h
      · exact hY h
  · -- before
    intro c hc hc' i hsub
    rw [hLC] at hc ⊢
    rw [hLC'] at hc' hsub
    rw [hh]
    have hi' : i ∈ chainC s (cellAt s kid) := hsub.subset (by simp)
    left
    by_cases hi : i ∈ chainC s (cellAt s (s.cur, j))
    · exact ⟨i, Q.order i c hi hc hsub, rfl⟩
    · obtain ⟨i0, _, hk0, -, hbef⟩ := Q.src i hi' hi
      exact ⟨i0, hbef c hc hc', hk0⟩
  · -- valchg
    intro x _ hne
    rw [hh] at hne; exact absurd rfl hne

/-- the old cell `(cur, j)` is forwarded: `(cur, j) := moved`, everything else but the program counter is unchanged.
What the step does to the keys of the cell (`hin`) is shown by the callers. -/
theorem xforward_facts {s s' : State} {t : Nat} {l l' : Local} {j : Nat}
    (X : XCtx s t l j) (S : TStep s s' t l') (XS' : XShape s') (hh : s'.heap = s.heap) (hb : s'.tbins = s.tbins)
    (hcell : ∀ id', cellAt s' id' = if id' = (s.cur, j) then .moved else cellAt s id')
    (hmx : ∀ b, cellAt s (s.cur, j) = .tree b → holdsMutex l.pc = some b ∧ wr l.pc = false)
    (hpend : pend s' l'.pc = [])
    (eL : holdsLock l'.pc = holdsLock l.pc) (eM : holdsMutex l'.pc = holdsMutex l.pc)
    (evL : validL l'.pc = none) (evT : validT l'.pc = none)
    (ewr : wr l'.pc = wr l.pc) (eloop : isLoop l.pc = false) (eR : holdsRead l'.pc = holdsRead l.pc)
    (eB : ∀ b, binRef l'.pc = some b → binRef l.pc = some b)
    (hplan : XPc s' l'.pc)
    (hin : Inv s' → (∀ c, Used s' c → Used s c) →
      (∀ c, c ∈ chainC s (cellAt s (s.cur, j)) → Used s' c →
        c ∈ chainC s (cellAt s (s.cur + 1, j)) ∨ c ∈ chainC s (cellAt s (s.cur + 1, j + 2 ^ s.cur))) →
      ∀ k, k % 2 ^ s.cur = j → KStep s s' k ∧ absOf s' k = absOf s k) :
    Eff s s' ∧ ∀ k, absOf s' k = absOf s k := by
  have I := X.inv
  have H := I.heap
  have XI := I.rsz
  have hcur := S.cur
  have hcn : ∀ id, id ≠ (s.cur, j) → cellAt s' id = cellAt s id := by
    intro id hid
    rw [hcell, if_neg hid]
  have hm' : cellAt s' (s.cur, j) = .moved := by rw [hcell, if_pos rfl]
  have hch : ∀ c, chainC s' c = chainC s c := chainC_congr hh hb
  have hnotree : ∀ id b, cellAt s' id = .tree b → cellAt s id = .tree b ∧ id ≠ (s.cur, j) := by
    intro id b hcb
    rw [hcell] at hcb
    split at hcb
    · cases hcb
    · rename_i hne
      exact ⟨hcb, hne⟩
  have H' : HInv s' := by
    refine hinv_of_cells hh hb H ?_ ?_
    · intro id
      rw [hcell]
      split
      · exact CellOK.moved H.nextOK _
      · exact H.cell id
    · intro id1 id2 b h1 h2
      obtain ⟨h1, n1⟩ := hnotree id1 b h1
      obtain ⟨h2, n2⟩ := hnotree id2 b h2
      rcases H.binsDistinct id1 id2 b h1 h2 with e | ⟨j0, ⟨t1, l1, hl1, hr⟩, hcs⟩
      · exact Or.inl e
      · exfalso
        have hi1 : xIdx l1.pc = some j0 := by
          rcases hr with ⟨hi, h⟩ | h <;> rw [h] <;> rfl
        have e := XI.uniqX t1 t l1 l hl1 X.hl (xPc_of_xIdx hi1) X.xpc
        rw [e, X.hl] at hl1
        cases hl1
        rw [X.idx] at hi1
        have ej : j = j0 := Option.some.inj hi1
        rw [← ej] at hcs
        rcases hcs with ⟨e1, -, -⟩ | ⟨e1, -, -⟩
        · exact n1 e1
        · exact n2 e1
  have hprivB : ∀ b, PrivBin s' b → PrivBin s b := by
    intro b hp
    refine X.privBin_back S ?_ hp
    intro hmem _
    rw [hpend] at hmem; cases hmem
  have hcid' : ∀ x, validL l'.pc = some x → False := fun x h => by rw [evL] at h; cases h
  have hI' : Inv s' := by
    refine ⟨H', X.tinv S, X.xinv S XS' hplan, ?_, ?_⟩
    · refine X.linv S hh hb eL eM (fun h hvl => by rw [evL] at hvl; cases hvl)
        (fun b hvt => by rw [evT] at hvt; cases hvt) ?_ (fun id b hcb => Or.inl ⟨id, (hnotree id b hcb).1⟩)
        ewr eloop eR eB (fun b _ => hprivB b)
      intro id
      by_cases hid : id = (s.cur, j)
      · rcases X.valid with hv | hv
        · exact Or.inr (Or.inl ⟨hv, hid⟩)
        · exact Or.inr (Or.inr (by rw [hid]; exact hv))
      · exact Or.inl (hcn id hid)
    · refine X.dinv S hh hb ?_ (fun id b hcb => Or.inl ⟨id, (hnotree id b hcb).1⟩)
      intro t1 l1 tab k h b _ h1 hpc id hcb
      have K := I.data.kInv t1 l1 h1
      rw [hpc] at K
      exact K.2 id (hnotree id b hcb).1
  have XI' := hI'.rsz
  -- used nodes
  have hused2 : ∀ c, Used s' c → (∃ id2, id2 ≠ (s.cur, j) ∧ c ∈ chainC s (cellAt s id2)) ∨ PrivK s c := by
    rintro c (⟨id, hc⟩ | hu | hu)
    · rw [hch] at hc
      by_cases hid : id = (s.cur, j)
      · rw [hid, hm', chainC_moved'] at hc; cases hc
      · rw [hcn id hid] at hc
        exact Or.inl ⟨id, hid, hc⟩
    · exact Or.inr (Store.privK_back X.hl S.thr
        (fun tab k h b hpc => by have := S.xpc; rw [hpc] at this; cases this) (by rw [hh]) hu)
    · obtain ⟨t1, l1, C1, h1, hx1, hC1, -, -⟩ := hu
      exfalso
      rcases X.cases' S h1 with ⟨_, e⟩ | ⟨hne1, h1⟩
      · rw [e, hpend] at hC1; cases hC1
      · rw [X.other_x hne1 h1] at hx1; cases hx1
  have hstable : ∀ c, Used s' c → Used s c := by
    intro c hu
    rcases hused2 c hu with ⟨id2, -, hc⟩ | hk
    · exact Or.inl ⟨id2, hc⟩
    · exact Or.inr (Or.inl hk)
  -- a node of the old chain is not private to a treeify
  have hnoK : ∀ c, c ∈ chainC s (cellAt s (s.cur, j)) → ¬ PrivK s c := by
    rintro c hc ⟨t1, l1, tab, k, h, b, h1, hpc, ho⟩
    have h2 := H.chainOwner (s.cur, j) c hc
    rw [ho] at h2
    have K := I.data.kInv t1 l1 h1
    rw [hpc] at K
    exact K.2 (s.cur, j) (Store.ownerOf_eq_some.1 h2.symm)
  have hposc : 0 < 2 ^ s.cur := pow_pos' s.cur
  -- another cell that holds a node of the old chain is a child
  have hchild : ∀ c (id2 : Cid), c ∈ chainC s (cellAt s (s.cur, j)) → id2 ≠ (s.cur, j) → c ∈ chainC s (cellAt s id2) →
      id2.1 = s.cur + 1 ∧ (id2 = (s.cur + 1, j) ∨ id2 = (s.cur + 1, j + 2 ^ s.cur)) := by
    intro c id2 hc hne hc2
    obtain ⟨g2, j2⟩ := id2
    have k1 : (nodeAt s.heap c).key % 2 ^ s.cur = j := H.side (s.cur, j) c (Or.inl hc)
    have k2 : (nodeAt s.heap c).key % 2 ^ g2 = j2 := H.side (g2, j2) c (Or.inl hc2)
    have hlen := XI.len
    rw [X.resz] at hlen
    simp only [if_true] at hlen
    by_cases h1 : g2 < s.cur
    · exfalso
      have := XI.old g2 j2 h1 (by rw [← k2]; exact Nat.mod_lt _ (pow_pos' g2))
      rw [this, chainC_moved'] at hc2; cases hc2
    · by_cases h2 : g2 = s.cur
      · exfalso
        subst h2
        exact hne (by rw [← k1, ← k2])
      · by_cases h3 : g2 = s.cur + 1
        · subst h3
          refine ⟨rfl, ?_⟩
          have := mod_succ_eq (nodeAt s.heap c).key s.cur
          rw [k2, k1] at this
          split at this
          · right; rw [this]
          · left; rw [this]; rfl
        · exfalso
          rw [cellAt_oob (by omega), chainC_empty'] at hc2; cases hc2
  have hused3 : ∀ c, c ∈ chainC s (cellAt s (s.cur, j)) → Used s' c →
      c ∈ chainC s (cellAt s (s.cur + 1, j)) ∨ c ∈ chainC s (cellAt s (s.cur + 1, j + 2 ^ s.cur)) := by
    intro c hc hu
    rcases hused2 c hu with ⟨id2, hne, hc2⟩ | hk
    · rcases (hchild c id2 hc hne hc2).2 with e | e
      · left; rw [← e]; exact hc2
      · right; rw [← e]; exact hc2
    · exact absurd hk (hnoK c hc)
  have hinr := hin hI' hstable hused3
  -- keys of other cells
  have hother : ∀ k, k % 2 ^ s.cur ≠ j → liveId s' k = liveId s k ∧ cellAt s' (liveId s k) = cellAt s (liveId s k) := by
    intro k hk
    have hne : idOf s.cur k ≠ (s.cur, j) := by
      intro e
      exact hk (congrArg Prod.snd e)
    constructor
    · unfold liveId
      rw [hcur, hcn _ hne]
    · apply hcn
      unfold liveId
      split
      · intro e
        have : s.cur + 1 = s.cur := congrArg Prod.fst e
        omega
      · exact hne
  have hLCo : ∀ k, k % 2 ^ s.cur ≠ j → LC s' k = LC s k := by
    intro k hk
    rw [LC_live XI', LC_live XI, (hother k hk).1, (hother k hk).2]
    exact hch _
  have habs : ∀ k, absOf s' k = absOf s k := by
    intro k
    by_cases hk : k % 2 ^ s.cur = j
    · exact (hinr k hk).2
    · exact absOf_of_LC hh (hLCo k hk)
  refine ⟨⟨hI', ?_, ?_, ?_, ?_, ?_⟩, habs⟩
  · intro k
    by_cases hk : k % 2 ^ s.cur = j
    · exact (hinr k hk).1
    · refine kstep_same' (by rw [hh]; exact Nat.le_refl _) (fun x _ => by rw [hh]; exact ⟨rfl, rfl, rfl⟩) (hLCo k hk)
        (fun x _ hu => hstable x hu) ?_
      rintro c ⟨id1, hc1, hno⟩
      by_cases hid : id1 = (s.cur, j)
      · by_cases hu : Used s' c
        · left
          rw [hid] at hc1
          rcases hused2 c hu with ⟨id2, hne2, hc2⟩ | hpk
          · obtain ⟨hg2, -⟩ := hchild c id2 hc1 hne2 hc2
            refine ⟨id2, by rw [hch, hcn id2 hne2]; exact hc2, ?_⟩
            intro e
            apply hk
            have k1 : (nodeAt s.heap c).key % 2 ^ s.cur = j := H.side (s.cur, j) c (Or.inl hc1)
            have k2 := H.side id2 c (Or.inl hc2)
            rw [hg2] at e k2
            have e1 : k % 2 ^ s.cur = (k % 2 ^ (s.cur + 1)) % 2 ^ s.cur := (mod_succ_mod k s.cur).symm
            rw [e1, e, ← k2, mod_succ_mod]
            exact k1
          · exact absurd hpk (hnoK c hc1)
        · exact Or.inr ⟨hu, by rw [hh]⟩
      · left
        exact ⟨id1, by rw [hch, hcn id1 hid]; exact hc1, hno⟩
  · intro b _ hne
    rw [hb] at hne; exact absurd rfl hne
  · intro b k _ hne
    rw [absTree_congr hh] at hne; exact absurd rfl hne
  · intro b k hc
    by_cases hk : k % 2 ^ s.cur = j
    · right; right
      have hlk : liveId s k = (s.cur, j) := by
        unfold liveId
        have e : idOf s.cur k = (s.cur, j) := by unfold idOf; rw [hk]
        rw [e, if_neg X.notMoved]
      have hc' : cellAt s (s.cur, j) = .tree b := by rw [← hlk]; exact hc
      obtain ⟨hm, hw⟩ := hmx b hc'
      have hmt := (I.lock.mx t l b X.hl).1 hm
      have hwf : (binAt s.tbins b).writer = false := by
        rw [(I.lock.bitsSome (s.cur, j) b t l hc' X.hl hmt).1, hw]
      rw [absTree_congr hh, habs k]
      exact I.absTree_eq_abs hc hwf
    · left
      rw [(hother k hk).1, (hother k hk).2]; exact hc
  · intro b _ hnc _
    refine ⟨?_, fun h => by rw [hb]; exact h⟩
    rintro ⟨id, hcb⟩
    exact hnc ⟨id, (hnotree id b hcb).1⟩

theorem xcasMoved_facts {s : State} {t : Nat} {l : Local} {j : Nat} (I : Inv s)
    (hl : s.threads[t]? = some l) (hc : l.call = none) (hpc : l.pc = .xCasMoved j) (h0 : cellAt s (s.cur, j) = .empty) :
    let s' : State := putCell (setT (tick s) t { l with pc := .xNext }) s.cur j .moved
    XShape s' → (Eff s s' ∧ ∀ k, absOf s' k = absOf s k) := by
  intro s' XS'
  have hi0 : xIdx l.pc = some j := by rw [hpc]; rfl
  have hnm : cellAt s (s.cur, j) ≠ .moved := by rw [h0]; simp
  have X : XCtx s t l j := xctx_of I hl hc hi0 hnm (Or.inr h0)
  have S : TStep s s' t { l with pc := .xNext } := ⟨rfl, rfl, rfl, rfl, rfl, hc, rfl⟩
  have hcell : ∀ id', cellAt s' id' = if id' = (s.cur, j) then .moved else cellAt s id' :=
    fun id' => cellAt_put_step I.rsz X.resz (Nat.le_succ _) X.jlt .moved id'
  have hallE : ∀ j', j' % 2 ^ s.cur = j → cellAt s (s.cur + 1, j') = .empty :=
    fun j' hp => X.childEmpty (by rw [hpc]; rfl) (by rw [hpc]; rfl) hp
  refine xforward_facts X S XS' rfl rfl hcell ?_ rfl (by rw [hpc]; rfl) (by rw [hpc]; rfl) rfl rfl
    (by rw [hpc]; rfl) (by rw [hpc]; rfl) (by rw [hpc]; rfl) (fun b h => by cases h) trivial ?_
  · intro b hcb
    rw [h0] at hcb; cases hcb
  · intro I' hstable _ k hk
    have hlk : liveId s k = (s.cur, j) := by
      unfold liveId
      have e : idOf s.cur k = (s.cur, j) := by unfold idOf; rw [hk]
      rw [e, if_neg hnm]
    have hLC : LC s k = [] := by rw [LC_live I.rsz, hlk, h0, chainC_empty']
    have hlk' : liveId s' k = idOf (s.cur + 1) k := by
      refine liveId_moved (s := s') ?_
      show cellAt s' (idOf s.cur k) = .moved
      have e : idOf s.cur k = (s.cur, j) := by unfold idOf; rw [hk]
      rw [e, hcell, if_pos rfl]
    have hLC' : LC s' k = [] := by
      rw [LC_live I'.rsz, hlk', hcell, if_neg]
      · have : cellAt s (idOf (s.cur + 1) k) = .empty := hallE _ (by rw [mod_succ_mod]; exact hk)
        rw [this]; exact chainC_empty' s'
      · intro e
        have : s.cur + 1 = s.cur := congrArg Prod.fst e
        omega
    have hLCe : LC s' k = LC s k := by rw [hLC, hLC']
    refine ⟨KStep.of_same (Nat.le_refl _) (fun x _ => ⟨rfl, rfl, rfl⟩) hLCe (fun x _ hu => hstable x hu) ?_,
      absOf_of_LC (s := s) (s' := s') rfl hLCe⟩
    rintro c ⟨id1, hc1, hno⟩
    have hid : id1 ≠ (s.cur, j) := by
      intro e
      rw [e, h0, chainC_empty'] at hc1; cases hc1
    refine ⟨id1, ?_, hno⟩
    rw [chainC_congr (s := s) (s' := s') rfl rfl, hcell, if_neg hid]; exact hc1

theorem xstoreMoved_facts {s : State} {t : Nat} {l : Local} {j : Nat} {unl : Nat ⊕ Nat} (I : Inv s)
    (hl : s.threads[t]? = some l) (hc : l.call = none) (hpc : l.pc = .xStoreMoved j unl) :
    let s' : State := putCell (setT (tick s) t { l with pc := .xUnlock unl }) s.cur j .moved
    XShape s' → (Eff s s' ∧ ∀ k, absOf s' k = absOf s k) := by
  intro s' XS'
  have H := I.heap
  have hi0 : xIdx l.pc = some j := by rw [hpc]; rfl
  have hval : validated l.pc = true := by rw [hpc]; exact validated_unl unl
  have hnm := I.rsz.pre t l j hl (by rw [hpc]; rfl) hi0
  have X : XCtx s t l j := xctx_of I hl hc hi0 hnm (Or.inl hval)
  have S : TStep s s' t { l with pc := .xUnlock unl } := ⟨rfl, rfl, rfl, rfl, rfl, hc, rfl⟩
  have P : Plan s j (cellAt s (s.cur + 1, j)) (cellAt s (s.cur + 1, j + 2 ^ s.cur)) := by
    have := I.rsz.plan t l hl
    rw [hpc] at this; exact this
  have hcell : ∀ id', cellAt s' id' = if id' = (s.cur, j) then .moved else cellAt s id' :=
    fun id' => cellAt_put_step I.rsz X.resz (Nat.le_succ _) X.jlt .moved id'
  have hcn : ∀ id : Cid, id.1 = s.cur + 1 → cellAt s' id = cellAt s id := by
    intro id hid
    rw [hcell, if_neg]
    intro e
    rw [e] at hid
    have : s.cur = s.cur + 1 := hid
    omega
  refine xforward_facts X S XS' rfl rfl hcell ?_ rfl (by rw [hpc]; rfl) (by rw [hpc]; rfl) rfl rfl
    (by rw [hpc]; rfl) (by rw [hpc]; rfl) (by rw [hpc]; rfl) (fun b h => by rw [hpc]; exact h) trivial ?_
  · intro b hcb
    have e := unl_of_tree I.lock hl X.cid (by rw [hpc]; rfl) (by rw [hpc]; rfl) hcb
    rw [hpc, e]; exact ⟨rfl, rfl⟩
  · intro I' hstable hused3 k hk
    obtain ⟨oid, Q, Q', ho1, hok, hcls⟩ := P.sides hk
    have hlk : liveId s k = (s.cur, j) := by
      unfold liveId
      have e : idOf s.cur k = (s.cur, j) := by unfold idOf; rw [hk]
      rw [e, if_neg hnm]
    have hLC : LC s k = chainC s (cellAt s (s.cur, j)) := by rw [LC_live I.rsz, hlk]
    have hlk' : liveId s' k = idOf (s.cur + 1) k := by
      refine liveId_moved (s := s') ?_
      show cellAt s' (idOf s.cur k) = .moved
      have e : idOf s.cur k = (s.cur, j) := by unfold idOf; rw [hk]
      rw [e, hcell, if_pos rfl]
    have hLC' : LC s' k = chainC s (cellAt s (idOf (s.cur + 1) k)) := by
      rw [LC_live I'.rsz, hlk', hcn _ rfl]
      exact chainC_congr (s := s) (s' := s') rfl rfl _
    have hOd : ∀ a b, a ∈ chainC s (cellAt s (s.cur, j)) → b ∈ chainC s (cellAt s (s.cur, j)) →
        (nodeAt s.heap a).key = (nodeAt s.heap b).key → a = b := (H.cinv (s.cur, j)).distinct
    constructor
    · refine kstep_forward H (kid := idOf (s.cur + 1) k) (oid := oid) rfl rfl Q Q' hLC hLC' (by rw [ho1]; exact hok)
        (hcn oid ho1) ?_ hstable ?_
      · intro c hc hu
        rcases hused3 c hc hu with h | h
        · rcases hcls _ (Or.inl rfl) with e | e
          · left; rw [← e]; exact h
          · right; rw [← e]; exact h
        · rcases hcls _ (Or.inr rfl) with e | e
          · left; rw [← e]; exact h
          · right; rw [← e]; exact h
      · rintro c ⟨id1, hc1, hno⟩
        have hid : id1 ≠ (s.cur, j) := by
          intro e
          rw [e] at hno
          exact hno hk
        refine ⟨id1, ?_, hno⟩
        rw [chainC_congr (s := s) (s' := s') rfl rfl, hcell, if_neg hid]; exact hc1
    · rw [BinGNP.absOf_eq, BinGNP.absOf_eq, hLC', hLC]
      exact Q.abs_eq hOd (sideSel_self s.cur k)

/-! ## the build steps: heap and `TreeBin` table are extended -/

private theorem find?_congr' {α : Type} {p q : α → Bool} : ∀ {l : List α}, (∀ x ∈ l, p x = q x) → l.find? p = l.find? q
  | [], _ => rfl
  | a :: l, h => by
    simp only [List.find?_cons]
    rw [h a (by simp), find?_congr' (fun x hx => h x (List.mem_cons_of_mem _ hx))]

private theorem binAt_append_ge (tb ext : List TBin) {b : Nat} (hb : tb.length ≤ b) :
    binAt (tb ++ ext) b = Flurry.Proto.BinK.dfltB ∨ binAt (tb ++ ext) b ∈ ext := by
  rw [Flurry.Proto.BinK.binAt_eq]
  by_cases hlt : b < (tb ++ ext).length
  · right
    rw [List.length_append] at hlt
    rw [List.getElem?_append_right hb, List.getElem?_eq_getElem (by omega)]
    exact List.getElem_mem _
  · left
    rw [List.getElem?_eq_none (by omega)]; rfl

/-- lock words of all nodes, synchronisation words of all `TreeBin`s are unchanged by an extension -/
theorem Ext.sync {s s' : State} (E : Ext s s') :
    (∀ h, (nodeAt s'.heap h).lock = (nodeAt s.heap h).lock) ∧
    (∀ b, (binAt s'.tbins b).mutex = (binAt s.tbins b).mutex ∧ (binAt s'.tbins b).writer = (binAt s.tbins b).writer ∧
      (binAt s'.tbins b).waiter = (binAt s.tbins b).waiter ∧ (binAt s'.tbins b).readers = (binAt s.tbins b).readers) := by
  constructor
  · intro h
    by_cases hh : h < s.heap.length
    · rw [E.old hh]
    · obtain ⟨ext, he, hattr⟩ := E.heap
      rw [Flurry.Proto.BinK.nodeAt_ge (Nat.le_of_not_lt hh), he]
      rcases nodeAt_append_ge s.heap ext (Nat.le_of_not_lt hh) with h1 | h1
      · rw [h1]
      · rw [hattr _ h1]; rfl
  · intro b
    by_cases hb : b < s.tbins.length
    · rw [E.bold hb]; exact ⟨rfl, rfl, rfl, rfl⟩
    · obtain ⟨extb, he, hattr⟩ := E.tbins
      rw [Flurry.Proto.BinK.binAt_ge (Nat.le_of_not_lt hb), he]
      rcases binAt_append_ge s.tbins extb (Nat.le_of_not_lt hb) with h1 | h1
      · rw [h1]; exact ⟨rfl, rfl, rfl, rfl⟩
      · rw [hattr _ h1]; exact ⟨rfl, rfl, rfl, rfl⟩

theorem treeFind_ext {s s' : State} (E : Ext s s') {b : Nat} (hb : b < s.tbins.length) (k : Nat) :
    treeFind s' b k = treeFind s b k := by
  rw [treeFind_def, treeFind_def]
  obtain ⟨ext, hh, _⟩ := E.heap
  have hlen : s'.heap.length = s.heap.length + ext.length := by rw [hh, List.length_append]
  rw [hlen, List.range_add, List.find?_append]
  have h2 : (List.map (fun x => s.heap.length + x) (List.range ext.length)).find? (fun i =>
      (nodeAt s'.heap i).owner == some b && (nodeAt s'.heap i).inTree && (nodeAt s'.heap i).key == k) = none := by
    rw [List.find?_eq_none]
    intro i hi
    simp only [List.mem_map, List.mem_range] at hi
    obtain ⟨m, _, rfl⟩ := hi
    have hno : (nodeAt s'.heap (s.heap.length + m)).owner ≠ some b := by
      intro ho
      have := (E.newOwner _ b (by omega) ho).1
      omega
    simp [hno]
  rw [h2, Option.or_none]
  apply find?_congr'
  intro i hi
  rw [E.old (List.mem_range.1 hi)]

theorem absL_old {s s' : State} (E : Ext s s') {L : List Nat} (hL : ∀ j ∈ L, j < s.heap.length) (k : Nat) :
    absL s'.heap L k = absL s.heap L k := by
  refine Flurry.Proto.BinK.absL_pointwise rfl ?_ k
  intro j hj
  have : L.getD j 0 = L[j] := by simp [List.getD_eq_getElem?_getD, hj]
  rw [this, E.old (hL _ (List.getElem_mem hj))]
  exact ⟨rfl, rfl⟩

/-- a structure that exists is untouched by an extension -/
theorem Ext.frameC {s s' : State} (E : Ext s s') (H : HInv s) {C : Cell}
    (hst : ∀ h, startOf s.tbins C = some h → h < s.heap.length) (hb : ∀ b, C = .tree b → b < s.tbins.length) :
    FrameC s s' C :=
  frameC_grow H.nextOK E.nextOK E.hlen (fun _ hj => E.old hj) (fun _ hb => E.bold hb)
    (fun j hj b ho => (E.newOwner j b hj ho).1) hst hb

theorem XCtx.dinv_ext {s s' : State} {t : Nat} {l l' : Local} {j : Nat} (X : XCtx s t l j) (S : TStep s s' t l')
    (E : Ext s s') : DInv s' := by
  have I := X.inv
  have H := I.heap
  have L := I.lock
  have hkeep : ∀ (t1 : Nat) (l1 : Local), s.threads[t1]? = some l1 → xPc l1.pc = false → s'.threads[t1]? = some l1 := by
    intro t1 l1 h1 hx1
    refine X.other' S ?_ h1
    intro e
    rw [e, X.hl] at h1
    cases h1
    rw [X.xpc] at hx1; cases hx1
  have hcb : ∀ id b, cellAt s id = .tree b → chainOfBin s' b = chainOfBin s b := by
    intro id b hc
    have hC := H.cinv id
    rw [hc] at hC
    exact E.chainC_eq H.nextOK hC.startOK (fun b' hb' => by cases hb'; exact H.cellOK id b hc)
  have hFL : ∀ (t1 : Nat) (l1 : Local) h, s.threads[t1]? = some l1 → validL l1.pc = some h → FrameC s s' (.list h) := by
    intro t1 l1 h h1 hv
    have hc := L.vL t1 l1 h h1 hv
    have hC := H.cinv (cidOf s l1)
    rw [hc] at hC
    exact E.frameC H hC.startOK (fun b hb => by cases hb)
  have hFT : ∀ (t1 : Nat) (l1 : Local) b, s.threads[t1]? = some l1 → validT l1.pc = some b → FrameC s s' (.tree b) := by
    intro t1 l1 b h1 hv
    have hc := L.vT t1 l1 b h1 hv
    have hC := H.cinv (cidOf s l1)
    rw [hc] at hC
    exact E.frameC H hC.startOK (fun b' hb' => by cases hb'; exact H.cellOK _ b hc)
  refine ⟨?_, ?_, ?_, ?_⟩
  · intro t1 l1 p h1 hc1
    rcases X.cases' S h1 with ⟨_, e⟩ | ⟨hne, h1⟩
    · rw [e, S.call] at hc1; cases hc1
    · exact (I.data.pcInv t1 l1 p h1 hc1).frame E.hlen (fun h hv => hFL t1 l1 h h1 hv) (fun b hv => hFT t1 l1 b h1 hv)
  · intro t1 l1 h1
    rcases X.cases' S h1 with ⟨_, e⟩ | ⟨hne, h1⟩
    · rw [e]; exact KInv_of_xPc S.xpc
    · have K := I.data.kInv t1 l1 h1
      revert K
      cases hpc : l1.pc <;> intro K <;> try trivial
      case kStore tab k h b =>
        have hc := L.vL t1 l1 h h1 (by rw [hpc]; rfl)
        have hC := H.cinv (cidOf s l1)
        rw [hc] at hC
        refine ⟨E.copyOK H.nextOK hC.startOK (fun b hb => by cases hb) K.1, ?_⟩
        intro id
        rw [E.cellAt_eq]; exact K.2 id
  · intro id b hc x hx ho hin hn
    rw [E.cellAt_eq] at hc
    rw [hcb id b hc] at hn
    by_cases hxl : x < s.heap.length
    · rw [E.old hxl] at ho hin
      obtain ⟨t1, l1, h1, hcase⟩ := I.data.treeSub id b hc x hxl ho hin hn
      refine ⟨t1, l1, hkeep t1 l1 h1 ?_, hcase⟩
      rcases hcase with ⟨tab, res, h⟩ | ⟨tab, res, h⟩ <;> rw [h] <;> rfl
    · have := (E.newOwner x b (by omega) ho).1
      have := H.cellOK id b hc
      omega
  · intro id b hc x hx hin
    rw [E.cellAt_eq] at hc
    rw [hcb id b hc] at hx
    have hC := H.cinv id
    rw [hc] at hC
    have hxl : x < s.heap.length := hC.chain_lt hx
    rw [E.old hxl] at hin
    obtain ⟨t1, l1, tab, h1, hpc⟩ := I.data.chainSub id b hc x hx hin
    exact ⟨t1, l1, tab, hkeep t1 l1 h1 (by rw [hpc]; rfl), hpc⟩

/-- a build step of the transfer: heap and `TreeBin` table are extended, the two planned structures
become pending -/
theorem xgrow_facts {s s' : State} {t : Nat} {l l' : Local} {j : Nat} {unl : Nat ⊕ Nat} {lo hi : Cell}
    (X : XCtx s t l j) (S : TStep s s' t l') (XS' : XShape s') (E : Ext s s') (hpc' : l'.pc = .xStoreLow j unl lo hi)
    (P' : Plan s' j lo hi) (N1 : NewOrOld s s' j lo) (N2 : NewOrOld s s' j hi)
    (eL : holdsLock l'.pc = holdsLock l.pc) (eM : holdsMutex l'.pc = holdsMutex l.pc)
    (evL : validL l'.pc = validL l.pc) (evT : validT l'.pc = validT l.pc)
    (ewr : wr l'.pc = wr l.pc) (eloop : isLoop l.pc = false) (eR : holdsRead l'.pc = holdsRead l.pc)
    (eB : binRef l'.pc = binRef l.pc) : Eff s s' ∧ ∀ k, absOf s' k = absOf s k := by
  have I := X.inv
  have H := I.heap
  have L := I.lock
  have XI := I.rsz
  have H' : HInv s' := E.hinv H
  have hxi' : xIdx l'.pc = some j := by rw [hpc']; rfl
  have hcid' : cidOf s' l' = (s.cur, j) := by unfold cidOf; rw [hxi', S.cur]
  obtain ⟨hlock, hsync⟩ := E.sync
  have hpend : pend s' l'.pc = [lo, hi] := by rw [hpc']; rfl
  have hNN : ∀ C ∈ pend s' l'.pc, NewOrOld s s' j C := by
    intro C hC
    rw [hpend] at hC
    simp only [List.mem_cons, List.not_mem_nil, or_false] at hC
    rcases hC with rfl | rfl
    · exact N1
    · exact N2
  have hO : ∀ id, chainC s' (cellAt s' id) = chainC s (cellAt s id) := by
    intro id
    rw [E.cellAt_eq]
    exact E.chainC_eq H.nextOK (H.cinv id).startOK (H.cellOK id)
  have hI' : Inv s' := by
    refine ⟨H', X.tinv S, X.xinv S XS' (by rw [hpc']; exact P'), ?_, X.dinv_ext S E⟩
    refine LInv.of_parts
      (lk_step L X.hl S.thr S.cur (lockfun_same L X.hl eL hlock) (fun h hp => Or.inl (eL ▸ hp)) ?_
        (fun id => Or.inl (E.cellAt_eq id)))
      (mx_step L X.hl S.thr S.cur (mutexfun_same L X.hl eM (fun b => (hsync b).1)) (fun b hp => Or.inl (eM ▸ hp)) ?_
        (fun id => Or.inl (E.cellAt_eq id)))
      (rw_gen L X.hl S.thr (fun id b hc => Or.inl ⟨id, by rw [E.cellAt_eq] at hc; exact hc⟩) E.blen
        (fun b => ⟨(hsync b).1, (hsync b).2.1, (hsync b).2.2.1⟩)
        (fun b _ => by rw [(hsync b).2.2.2, eR])
        (fun b hb _ => by rw [(hsync b).2.2.2, Flurry.Proto.BinK.binAt_ge hb]; rfl)
        (fun b hw => by rw [(hsync b).2.2.2]; exact L.wrd b hw)
        (fun b _ _ => ⟨ewr, fun h => by rw [eloop] at h; cases h⟩)
        (fun b hr => Or.inl (eB ▸ hr)) ?_)
    · intro h hv
      rw [evL] at hv
      have := L.vL t l h X.hl hv
      rw [X.cid] at this
      rw [hcid', E.cellAt_eq]; exact this
    · intro b hv
      rw [evT] at hv
      have := L.vT t l b X.hl hv
      rw [X.cid] at this
      rw [hcid', E.cellAt_eq]; exact this
    · intro b hb hp
      refine X.privBin_back S ?_ hp
      intro hmem hne
      exfalso
      rcases (hNN _ hmem).2 b rfl with h | h
      · have := hne j hxi'
        rw [S.cur, E.cellAt_eq] at this
        exact this h
      · omega
  have XI' := hI'.rsz
  have hlive : ∀ k, liveId s' k = liveId s k := liveId_same S.cur (fun id _ => E.cellAt_eq id)
  have hLC : ∀ k, LC s' k = LC s k := by
    intro k
    rw [LC_live XI', LC_live XI, hlive, hO]
  refine ⟨⟨hI', ?_, ?_, ?_, ?_, ?_⟩, ?_⟩
  · intro k
    refine KStep.of_same E.hlen (fun x hx => by rw [E.old hx]; exact ⟨rfl, rfl, rfl⟩) (hLC k) ?_ ?_
    · intro x hxl hu
      rcases hu with ⟨id, hx⟩ | hu | hu
      · rw [hO] at hx
        exact Or.inl ⟨id, hx⟩
      · exact Or.inr (Or.inl (Store.privK_back X.hl S.thr
          (fun tab k h b hpc => by have := S.xpc; rw [hpc] at this; cases this) (by rw [E.old hxl]) hu))
      · obtain ⟨t1, l1, C1, h1, hx1, hC1, hx, hx0⟩ := hu
        exfalso
        rcases X.cases' S h1 with ⟨_, e⟩ | ⟨hne1, h1⟩
        · rw [e] at hC1 hx0
          rcases (hNN _ hC1).1 x hx with h | h
          · have := hx0 j hxi'
            rw [S.cur, hO] at this
            exact this h
          · omega
        · rw [X.other_x hne1 h1] at hx1; cases hx1
    · rintro c ⟨id1, hc1, hno⟩
      exact ⟨id1, by rw [hO]; exact hc1, hno⟩
  · intro b hb hne
    rw [E.bold hb] at hne; exact absurd rfl hne
  · intro b k hb hne
    unfold absTree at hne
    rw [treeFind_ext E hb] at hne
    cases hf : treeFind s b k with
    | none => rw [hf] at hne; exact absurd rfl hne
    | some i =>
      rw [hf] at hne
      have hil : i < s.heap.length := by
        rw [treeFind_def] at hf
        exact List.mem_range.1 (List.mem_of_find?_eq_some hf)
      simp only [E.old hil] at hne
      exact absurd rfl hne
  · intro b k hc
    left
    rw [hlive, E.cellAt_eq]
    exact hc
  · intro b hb hnc _
    refine ⟨?_, fun h => by rw [E.bold hb]; exact h⟩
    rintro ⟨id, hcb⟩
    rw [E.cellAt_eq] at hcb
    exact hnc ⟨id, hcb⟩
  · intro k
    rw [BinGNP.absOf_eq, BinGNP.absOf_eq, hLC k]
    exact absL_old E (fun x hx => mem_LC_lt hx) k

theorem xbuild_facts {s : State} {t : Nat} {l : Local} {j h : Nat} (I : Inv s)
    (hl : s.threads[t]? = some l) (hc : l.call = none) (hpc : l.pc = .xBuild j h) :
    let s' := setT (qst s (xsplitOf s h).1 s.tbins) t
      { l with pc := .xStoreLow j (.inl h) (xsplitOf s h).2.1 (xsplitOf s h).2.2 }
    XShape s' → (Eff s s' ∧ ∀ k, absOf s' k = absOf s k) := by
  intro s' XS'
  have hi0 : xIdx l.pc = some j := by rw [hpc]; rfl
  have X : XCtx s t l j := xctx_of I hl hc hi0 (I.rsz.pre t l j hl (by rw [hpc]; rfl) hi0)
    (Or.inl (by rw [hpc]; rfl))
  have S : TStep s s' t { l with pc := .xStoreLow j (.inl h) (xsplitOf s h).2.1 (xsplitOf s h).2.2 } :=
    ⟨rfl, rfl, rfl, rfl, rfl, hc, rfl⟩
  obtain ⟨-, P', -, -, E, N1, N2⟩ := xbuild_plan_ext I hl hpc
  exact xgrow_facts X S XS' E rfl P' N1 N2 (by rw [hpc]; rfl) (by rw [hpc]; rfl) (by rw [hpc]; rfl) (by rw [hpc]; rfl)
    (by rw [hpc]; rfl) (by rw [hpc]; rfl) (by rw [hpc]; rfl) (by rw [hpc]; rfl)

theorem ybuild_facts {s : State} {t : Nat} {l : Local} {j b : Nat} (small small2 : Bool) (I : Inv s)
    (hl : s.threads[t]? = some l) (hc : l.call = none) (hpc : l.pc = .yBuild j b) :
    let r := ysplitOf (tick s) b small small2
    let s' := setT r.1 t { l with pc := .xStoreLow j (.inr b) r.2.1 r.2.2 }
    XShape s' → (Eff s s' ∧ ∀ k, absOf s' k = absOf s k) := by
  intro r s' XS'
  have hi0 : xIdx l.pc = some j := by rw [hpc]; rfl
  have X : XCtx s t l j := xctx_of I hl hc hi0 (I.rsz.pre t l j hl (by rw [hpc]; rfl) hi0)
    (Or.inl (by rw [hpc]; rfl))
  obtain ⟨-, P', -, -, -, -, -, -, -, hfr, E, N1, N2⟩ := ybuild_plan_ext small small2 I hl hpc
  have e1 : s'.threads = (setT (qst s s'.heap s'.tbins) t { l with pc := .xStoreLow j (.inr b) r.2.1 r.2.2 }).threads :=
    congrArg (fun x : State => x.threads) hfr
  have e2 : s'.now = (setT (qst s s'.heap s'.tbins) t { l with pc := .xStoreLow j (.inr b) r.2.1 r.2.2 }).now :=
    congrArg (fun x : State => x.now) hfr
  have e3 : s'.hist = (setT (qst s s'.heap s'.tbins) t { l with pc := .xStoreLow j (.inr b) r.2.1 r.2.2 }).hist :=
    congrArg (fun x : State => x.hist) hfr
  have e4 : s'.resizing = (setT (qst s s'.heap s'.tbins) t { l with pc := .xStoreLow j (.inr b) r.2.1 r.2.2 }).resizing :=
    congrArg (fun x : State => x.resizing) hfr
  have S : TStep s s' t { l with pc := .xStoreLow j (.inr b) r.2.1 r.2.2 } := ⟨e1, e2, e3, e4, E.cur, hc, rfl⟩
  exact xgrow_facts X S XS' E rfl P' N1 N2 (by rw [hpc]; rfl) (by rw [hpc]; rfl) (by rw [hpc]; rfl) (by rw [hpc]; rfl)
    (by rw [hpc]; rfl) (by rw [hpc]; rfl) (by rw [hpc]; rfl) (by rw [hpc]; rfl)

end Flurry.Proto.BinGNP
