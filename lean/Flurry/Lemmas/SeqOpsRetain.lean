import Flurry.Lemmas.SeqOpsRead
/-! # O5: `retain` / `retain_force` -/
namespace Flurry.Seq
open Flurry Flurry.Gen

/-! ## structure of the loop (no hypotheses) -/

theorem retainGo_nil (force : Bool) (f : Nat → Nat → Nat → Option Bool) (m : Map) :
    retainGo force f [] m = (m, .ok) := rfl

theorem retainGo_cons_none {force : Bool} {f : Nat → Nat → Nat → Option Bool} {nd : Node}
    (rest : List Node) (m : Map) (h : f nd.key nd.val nd.vi = none) :
    retainGo force f (nd :: rest) m = (m, .panic) := by
  simp only [retainGo, h]

theorem retainGo_cons_true {force : Bool} {f : Nat → Nat → Nat → Option Bool} {nd : Node}
    (rest : List Node) (m : Map) (h : f nd.key nd.val nd.vi = some true) :
    retainGo force f (nd :: rest) m = retainGo force f rest m := by
  simp only [retainGo, h]

theorem retainGo_cons_false {force : Bool} {f : Nat → Nat → Nat → Option Bool} {nd : Node}
    (rest : List Node) (m : Map) (h : f nd.key nd.val nd.vi = some false) :
    retainGo force f (nd :: rest) m =
      retainGo force f rest (replaceNode nd.key none (if force then none else some nd.vi) m).1 := by
  simp only [retainGo, h]

/-- **prefix lemma**: processing `l₁ ++ l₂` is processing `l₁` and, unless the predicate
panicked, going on with `l₂` from the state reached -/
theorem retainGo_append (force : Bool) (f : Nat → Nat → Nat → Option Bool) (l₁ l₂ : List Node) :
    ∀ m : Map, retainGo force f (l₁ ++ l₂) m =
      if (retainGo force f l₁ m).2 = .panic then retainGo force f l₁ m
      else retainGo force f l₂ (retainGo force f l₁ m).1 := by
  induction l₁ with
  | nil => intro m; simp [retainGo_nil]
  | cons nd rest ih =>
    intro m
    rw [List.cons_append]
    cases h : f nd.key nd.val nd.vi with
    | none => simp [retainGo_cons_none _ _ h]
    | some b =>
      cases b with
      | true => rw [retainGo_cons_true _ _ h, retainGo_cons_true _ _ h, ih]
      | false => rw [retainGo_cons_false _ _ h, retainGo_cons_false _ _ h, ih]

/-- a predicate that does not panic on `l` lets the loop finish -/
theorem retainGo_out_ok (force : Bool) {f : Nat → Nat → Nat → Option Bool} :
    ∀ (l : List Node) (m : Map), (∀ nd ∈ l, (f nd.key nd.val nd.vi).isSome) →
      (retainGo force f l m).2 = .ok := by
  intro l
  induction l with
  | nil => intro m _; rfl
  | cons nd rest ih =>
    intro m ht
    have hrest : ∀ x ∈ rest, (f x.key x.val x.vi).isSome := fun x hx => ht x (by simp [hx])
    cases h : f nd.key nd.val nd.vi with
    | none => have := ht nd (by simp); rw [h] at this; cases this
    | some b =>
      cases b with
      | true => rw [retainGo_cons_true _ _ h]; exact ih _ hrest
      | false => rw [retainGo_cons_false _ _ h]; exact ih _ hrest

/-- **C18 `retain_panic_prefix`** (structural part): if the predicate first panics at `nd`, the
loop stops there: the state is what processing exactly the nodes before `nd` gives -/
theorem retainGo_panic_prefix (force : Bool) {f : Nat → Nat → Nat → Option Bool} (l₁ l₂ : List Node)
    {nd : Node} (m : Map) (ht : ∀ x ∈ l₁, (f x.key x.val x.vi).isSome)
    (hp : f nd.key nd.val nd.vi = none) :
    retainGo force f (l₁ ++ nd :: l₂) m = ((retainGo force f l₁ m).1, .panic) := by
  rw [retainGo_append, retainGo_out_ok force l₁ m ht]
  simp [retainGo_cons_none _ _ hp]

/-- either the predicate never panics on `l`, or there is a first node where it does -/
theorem total_or_first_panic (f : Nat → Nat → Nat → Option Bool) (l : List Node) :
    (∀ nd ∈ l, (f nd.key nd.val nd.vi).isSome) ∨
    ∃ l₁ nd l₂, l = l₁ ++ nd :: l₂ ∧ (∀ x ∈ l₁, (f x.key x.val x.vi).isSome) ∧
      f nd.key nd.val nd.vi = none := by
  induction l with
  | nil => left; simp
  | cons a rest ih =>
    cases h : f a.key a.val a.vi with
    | none => exact Or.inr ⟨[], a, rest, rfl, by simp, h⟩
    | some b =>
      rcases ih with ih | ⟨l₁, nd, l₂, h1, h2, h3⟩
      · left
        intro x hx
        rcases List.mem_cons.1 hx with rfl | hx
        · rw [h]; rfl
        · exact ih x hx
      · refine Or.inr ⟨a :: l₁, nd, l₂, by rw [h1]; rfl, ?_, h3⟩
        intro x hx
        rcases List.mem_cons.1 hx with rfl | hx
        · rw [h]; rfl
        · exact h2 x hx

/-! ## the loop on a `Good` state -/

/-- what the loop has done when the predicate does not panic on `l`, a list of nodes that are
all still in the map (no key twice): exactly the keys whose node the predicate rejects are gone;
table, threshold and resize counter are untouched; `force` makes no difference. -/
structure RetainPost (f : Nat → Nat → Nat → Option Bool) (l : List Node) (m r : Map) : Prop where
  good : Good r
  hash : r.hash = m.hash
  get_eq : ∀ k, get k r =
    if (∃ nd ∈ l, nd.key = k ∧ f nd.key nd.val nd.vi = some false) then none else get k m
  tableLen_eq : tableLen r = tableLen m
  resizes_eq : r.resizes = m.resizes
  sizeCtl_eq : r.sizeCtl = m.sizeCtl

theorem retainGo_spec (force : Bool) (f : Nat → Nat → Nat → Option Bool) :
    ∀ (l : List Node) (m : Map), Good m → KeysNodup l → (∀ nd ∈ l, get nd.key m = some nd) →
      (∀ nd ∈ l, (f nd.key nd.val nd.vi).isSome) → RetainPost f l m (retainGo force f l m).1 := by
  intro l
  induction l with
  | nil =>
    intro m hg _ _ _
    exact ⟨hg, rfl, fun k => by simp [retainGo_nil], rfl, rfl, rfl⟩
  | cons nd rest ih =>
    intro m hg hnd hin ht
    obtain ⟨hnk, hnd'⟩ := keysNodup_cons.1 hnd
    have hrest : ∀ x ∈ rest, (f x.key x.val x.vi).isSome := fun x hx => ht x (by simp [hx])
    cases h : f nd.key nd.val nd.vi with
    | none => have := ht nd (by simp); rw [h] at this; cases this
    | some b =>
      cases b with
      | true =>
        rw [retainGo_cons_true _ _ h]
        have := ih m hg hnd' (fun x hx => hin x (by simp [hx])) hrest
        refine { this with get_eq := ?_ }
        intro k
        rw [this.get_eq k]
        congr 1
        apply propext
        constructor
        · rintro ⟨x, hx, h1, h2⟩; exact ⟨x, by simp [hx], h1, h2⟩
        · rintro ⟨x, hx, h1, h2⟩
          rcases List.mem_cons.1 hx with rfl | hx
          · rw [h] at h2; cases h2
          · exact ⟨x, hx, h1, h2⟩
      | false =>
        rw [retainGo_cons_false _ _ h]
        have hgnd : get nd.key m = some nd := hin nd (by simp)
        have hhit : rmHit nd.key (if force then none else some nd.vi) m = true := by
          simp only [rmHit, hgnd]
          cases force <;> simp
        obtain ⟨hu, -⟩ := replaceNode_rm_spec nd.key (if force then none else some nd.vi) hg
        rw [hhit] at hu
        simp only [↓reduceIte] at hu
        obtain ⟨hl, hr, hs⟩ := hu.noGrow trivial
        generalize (replaceNode nd.key none (if force then none else some nd.vi) m).1 = m1 at hu hl hr hs
        have hin1 : ∀ x ∈ rest, get x.key m1 = some x := by
          intro x hx
          rw [hu.get_other x.key (hnk x hx)]
          exact hin x (by simp [hx])
        have := ih m1 hu.good hnd' hin1 hrest
        refine ⟨this.good, this.hash.trans hu.hash, ?_, this.tableLen_eq.trans hl,
          this.resizes_eq.trans hr, this.sizeCtl_eq.trans hs⟩
        intro k
        rw [this.get_eq k]
        by_cases hk : k = nd.key
        · subst hk
          have hex : ∃ x ∈ nd :: rest, x.key = nd.key ∧ f x.key x.val x.vi = some false :=
            ⟨nd, by simp, rfl, h⟩
          rw [hu.get_same, if_pos hex]
          split <;> rfl
        · rw [hu.get_other k hk]
          congr 1
          apply propext
          constructor
          · rintro ⟨x, hx, h1, h2⟩; exact ⟨x, by simp [hx], h1, h2⟩
          · rintro ⟨x, hx, h1, h2⟩
            rcases List.mem_cons.1 hx with rfl | hx
            · exact absurd h1.symm hk
            · exact ⟨x, hx, h1, h2⟩

/-- the snapshot `retain` iterates over satisfies the hypotheses of `retainGo_spec` -/
theorem entries_snapshot {m : Map} (hg : Good m) :
    KeysNodup (entries m) ∧ ∀ nd ∈ entries m, get nd.key m = some nd :=
  ⟨entries_keys_nodup_of_good hg, fun _ h => (mem_entries_iff hg).1 h⟩

theorem keysNodup_append_left {l₁ l₂ : List Node} (h : KeysNodup (l₁ ++ l₂)) : KeysNodup l₁ :=
  h.sublist (List.sublist_append_left l₁ l₂)

/-- **O5**: `retain` / `retain_force` with a predicate that does not panic on the entries -/
theorem retain_spec (force : Bool) {f : Nat → Nat → Nat → Option Bool} {m : Map} (hg : Good m)
    (ht : ∀ nd ∈ entries m, (f nd.key nd.val nd.vi).isSome) :
    RetainPost f (entries m) m (retain force f m).1 ∧ (retain force f m).2 = .ok :=
  ⟨retainGo_spec force f _ m hg (entries_snapshot hg).1 (entries_snapshot hg).2 ht,
    retainGo_out_ok force _ m ht⟩

theorem retain_good (force : Bool) {f : Nat → Nat → Nat → Option Bool} {m : Map} (hg : Good m)
    (ht : ∀ k v vi, (f k v vi).isSome) : Good (retain force f m).1 :=
  (retain_spec force hg (fun _ _ => ht _ _ _)).1.good

/-- the abstract map of a `RetainPost` over a prefix `l` of the entries -/
theorem RetainPost.absMap_apply {f : Nat → Nat → Nat → Option Bool} {l : List Node} {m r : Map}
    (hg : Good m) (hl : ∀ nd ∈ l, nd ∈ entries m) (h : RetainPost f l m r) (k : Nat) :
    absMap r k =
      match absMap m k with
      | some (ki, v, vi) =>
        if (∃ nd ∈ l, nd.key = k) ∧ f k v vi = some false then none else some (ki, v, vi)
      | none => none := by
  simp only [absMap, h.get_eq k]
  obtain hgk | ⟨old, hgk⟩ : get k m = none ∨ ∃ old, get k m = some old := by
    cases get k m <;> simp
  · simp [hgk]
  · have hok := get_key_eq hg hgk
    have huniq : ∀ nd ∈ l, nd.key = k → nd = old := by
      intro nd hnd hk
      have := (mem_entries_iff hg).1 (hl nd hnd)
      rw [hk, hgk] at this
      exact (Option.some.inj this).symm
    simp only [hgk, Option.map_some]
    have : (∃ nd ∈ l, nd.key = k ∧ f nd.key nd.val nd.vi = some false) ↔
        ((∃ nd ∈ l, nd.key = k) ∧ f k old.val old.vi = some false) := by
      constructor
      · rintro ⟨nd, hnd, h1, h2⟩
        have := huniq nd hnd h1
        subst this
        exact ⟨⟨nd, hnd, h1⟩, by rw [← h1]; exact h2⟩
      · rintro ⟨⟨nd, hnd, h1⟩, h2⟩
        have := huniq nd hnd h1
        subst this
        exact ⟨nd, hnd, h1, by rw [h1]; exact h2⟩
    by_cases hc : (∃ nd ∈ l, nd.key = k) ∧ f k old.val old.vi = some false
    · rw [if_pos (this.2 hc), if_pos hc]; rfl
    · rw [if_neg (fun h' => hc (this.1 h')), if_neg hc]; rfl

/-- **O5 / C13**: `retain` and `retain_force` with a total predicate are the filter -/
theorem retain_absMap (force : Bool) {f : Nat → Nat → Nat → Option Bool} {m : Map} (hg : Good m)
    (ht : ∀ k v vi, (f k v vi).isSome) :
    absMap (retain force f m).1 = (absMap m).filter (fun k v vi => (f k v vi).getD true) := by
  obtain ⟨h, -⟩ := retain_spec force hg (fun nd _ => ht nd.key nd.val nd.vi)
  funext k
  rw [h.absMap_apply hg (fun _ hnd => hnd) k, Ref.filter]
  cases ha : absMap m k with
  | none => rfl
  | some x =>
    obtain ⟨ki, v, vi⟩ := x
    have hmem : ∃ nd ∈ entries m, nd.key = k := by
      have : (absMap m k).isSome = true := by rw [ha]; rfl
      obtain ⟨nd, h1, h2⟩ := List.mem_map.1 ((absMap_isSome_iff hg k).1 this)
      exact ⟨nd, h1, h2⟩
    simp only [hmem, true_and]
    have := ht k v vi
    cases hf : f k v vi with
    | none => rw [hf] at this; cases this
    | some b => cases b <;> simp

theorem step_retain (force : Bool) {f : Nat → Nat → Nat → Option Bool} {m : Map} (hg : Good m)
    (ht : ∀ k v vi, (f k v vi).isSome) :
    Good (step m (.retain force f)).1 ∧
    absMap (step m (.retain force f)).1 = (Ref.step (absMap m) (.retain force f)).1 ∧
    (step m (.retain force f)).2 = (Ref.step (absMap m) (.retain force f)).2 := by
  refine ⟨retain_good force hg ht, retain_absMap force hg ht, ?_⟩
  simp only [step, Ref.step, (retain_spec force hg (fun nd _ => ht nd.key nd.val nd.vi)).2, ansOfOut]

/-- sequentially `retain` and `retain_force` coincide -/
theorem retain_force_eq {f : Nat → Nat → Nat → Option Bool} {m : Map} (hg : Good m)
    (ht : ∀ k v vi, (f k v vi).isSome) :
    absMap (retain true f m).1 = absMap (retain false f m).1 := by
  rw [retain_absMap true hg ht, retain_absMap false hg ht]

/-! ## a predicate that may panic -/

/-- **O5 / C18**: for *any* predicate (it may panic part-way) `retain` stops at the first
panic, having processed exactly the entries `done` before it: the result is `Good`, its table /
threshold / resize counter are untouched, and exactly the keys of `done` that the predicate
rejected are gone. -/
theorem retain_any (force : Bool) (f : Nat → Nat → Nat → Option Bool) {m : Map} (hg : Good m) :
    ∃ done rest, entries m = done ++ rest ∧ (∀ x ∈ done, (f x.key x.val x.vi).isSome) ∧
      RetainPost f done m (retain force f m).1 ∧
      ((retain force f m).2 = .ok ∧ rest = [] ∨
       (retain force f m).2 = .panic ∧ ∃ nd l₂, rest = nd :: l₂ ∧ f nd.key nd.val nd.vi = none) := by
  obtain ⟨hnd, hin⟩ := entries_snapshot hg
  rcases total_or_first_panic f (entries m) with ht | ⟨l₁, nd, l₂, he, ht, hp⟩
  · obtain ⟨h1, h2⟩ := retain_spec force hg ht
    exact ⟨entries m, [], by simp, ht, h1, Or.inl ⟨h2, rfl⟩⟩
  · have hnd1 : KeysNodup l₁ := by rw [he] at hnd; exact keysNodup_append_left hnd
    have hin1 : ∀ x ∈ l₁, get x.key m = some x := fun x hx => hin x (by rw [he]; simp [hx])
    have hs := retainGo_spec force f l₁ m hg hnd1 hin1 ht
    have hr : retain force f m = ((retainGo force f l₁ m).1, .panic) := by
      unfold retain; rw [he]; exact retainGo_panic_prefix force l₁ l₂ m ht hp
    rw [hr]
    exact ⟨l₁, nd :: l₂, he, ht, hs, Or.inr ⟨rfl, nd, l₂, rfl, hp⟩⟩

/-- **C13 `retain_removes_only_rejected`** (any predicate): an entry either survives unchanged or
is gone, and it is gone only if the predicate rejected it -/
theorem retain_removes_only_rejected (force : Bool) (f : Nat → Nat → Nat → Option Bool) {m : Map}
    (hg : Good m) (k : Nat) :
    (absMap (retain force f m).1 k = absMap m k) ∨
    (absMap (retain force f m).1 k = none ∧
      ∃ ki v vi, absMap m k = some (ki, v, vi) ∧ f k v vi = some false) := by
  obtain ⟨done, rest, he, -, hpost, -⟩ := retain_any force f hg
  rw [hpost.absMap_apply hg (fun nd hnd => by rw [he]; simp [hnd]) k]
  cases ha : absMap m k with
  | none => left; rfl
  | some x =>
    obtain ⟨ki, v, vi⟩ := x
    simp only
    split
    next hc => exact Or.inr ⟨rfl, ki, v, vi, rfl, hc.2⟩
    next => left; rfl

end Flurry.Seq
