import Flurry.Lemmas.SeqTable
import Flurry.Seq.Step
/-! # O0: infrastructure for the operation-level lemmas

* `Good m := WF m ∧ InitOk m`: the invariant carried through operation sequences.
* `get_set_bin`: a lookup after one bin was replaced.
* lookups of *other* keys in the three bin updates (`insertBin`, `setValBin`, `removeBin`).
* `PreWF` versions of `tryPresize`/`treeifyBin` (used by `put` between the bin update and
  `addCount`, where the count is off by one and `WF` does not hold). -/
namespace Flurry.Seq
open Flurry Flurry.Gen
open Flurry.RB (upd)

/-- the invariant of operation sequences: well formed, and `size_ctl` is `0` or a requested
power-of-two capacity while the table does not exist yet -/
def Good (m : Map) : Prop := WF m ∧ InitOk m

theorem Good.wf {m : Map} (h : Good m) : WF m := h.1
theorem Good.initOk {m : Map} (h : Good m) : InitOk m := h.2

theorem Good.of_some {m : Map} {t : Table} (hw : WF m) (ht : m.table = some t) : Good m :=
  ⟨hw, InitOk.of_some ht⟩

theorem InitOk.of_tableLen_pos {m : Map} (h : 0 < tableLen m) : InitOk m := by
  intro ht; rw [tableLen_of_none ht] at h; omega

theorem Good.of_tableLen_pos {m : Map} (hw : WF m) (h : 0 < tableLen m) : Good m :=
  ⟨hw, InitOk.of_tableLen_pos h⟩

theorem good_withCapacity (hash : Nat → Nat) (c : Nat) : Good (withCapacity hash c) :=
  ⟨withCapacity_wf hash c, withCapacity_initOk hash c⟩

theorem good_new (hash : Nat → Nat) : Good { hash := hash } := new_wf hash

theorem Good.init {m : Map} (h : Good m) : Good (initTable m) := by
  refine ⟨initTable_wf h.1 h.2, ?_⟩
  intro hn
  have := initTable_table_isSome m
  rw [hn] at this; cases this

theorem initTable_table_some (m : Map) : ∃ t, (initTable m).table = some t := by
  have := initTable_table_isSome m
  cases h : (initTable m).table with
  | none => rw [h] at this; cases this
  | some t => exact ⟨t, rfl⟩

theorem initTable_idem {m : Map} (h : Good m) : initTable (initTable m) = initTable m := by
  obtain ⟨t, ht⟩ := initTable_table_some m
  exact initTable_of_wf_some h.init.1 ht

/-- when the table exists `initTable` does nothing -/
theorem Good.initTable_eq {m : Map} (h : Good m) (hne : m.table ≠ none) : initTable m = m := by
  cases ht : m.table with
  | none => exact absurd ht hne
  | some t => exact initTable_of_wf_some h.1 ht

theorem absMap_apply (m : Map) (k : Nat) :
    absMap m k = (get k m).map fun nd => (nd.ki, nd.val, nd.vi) := rfl

theorem absMap_congr {m m' : Map} (h : ∀ k, get k m' = get k m) : absMap m' = absMap m := by
  funext k; simp only [absMap, h k]

theorem absMap_isSome (m : Map) (k : Nat) : (absMap m k).isSome = (get k m).isSome := by
  simp [absMap]

theorem WF.tableWF {m : Map} {t : Table} (hw : WF m) (ht : m.table = some t) : TableWF m.hash t :=
  ((wf_some_iff ht).1 hw).1

theorem WF.tableLen_pos {m : Map} {t : Table} (hw : WF m) (ht : m.table = some t) :
    0 < tableLen m := by
  rw [tableLen_of_some ht]; exact (hw.tableWF ht).length_pos

/-! ## a lookup after one bin was replaced -/

theorem get_set_bin {m m' : Map} {t : Table} (ht : m.table = some t) (hw : TableWF m.hash t)
    {i : Nat} {b' : Bin} (hi : i < t.length) (ht' : m'.table = some (t.set i b'))
    (hh : m'.hash = m.hash) (k' : Nat) :
    get k' m' = if bini (m.hash k') t.length = i then b'.find (m.hash k') k' else get k' m := by
  have hpos := hw.length_pos
  rw [get_eq_find ht hw]
  simp only [get, ht', hh, table_length_set]
  rw [if_neg (by simp only [beq_iff_eq]; omega), tableBin_set]
  by_cases h : bini (m.hash k') t.length = i
  · subst h; simp [hi]
  · have : ¬ i = bini (m.hash k') t.length := fun e => h e.symm
    simp [h, this]

/-- … of the key whose bin was replaced -/
theorem get_set_bin_same {m m' : Map} {t : Table} (ht : m.table = some t) (hw : TableWF m.hash t)
    {b' : Bin} {k : Nat} (ht' : m'.table = some (t.set (bini (m.hash k) t.length) b'))
    (hh : m'.hash = m.hash) : get k m' = b'.find (m.hash k) k := by
  rw [get_set_bin ht hw (bini_lt_of_isPow2 _ hw.1) ht' hh, if_pos rfl]

/-- … of the other keys, when the new bin answers them as the old one did -/
theorem get_set_bin_other {m m' : Map} {t : Table} (ht : m.table = some t) (hw : TableWF m.hash t)
    {i : Nat} {b' : Bin} (hi : i < t.length) (ht' : m'.table = some (t.set i b'))
    (hh : m'.hash = m.hash) {k' : Nat}
    (hf : b'.find (m.hash k') k' = (tableBin t i).find (m.hash k') k') : get k' m' = get k' m := by
  rw [get_set_bin ht hw hi ht' hh]
  split
  next h => rw [hf, get_eq_find ht hw, h]
  next => rfl

/-- the entry count after one bin was replaced -/
theorem entries_set_length {m m' : Map} {t : Table} (ht : m.table = some t) {i : Nat} {b' : Bin}
    (hi : i < t.length) (ht' : m'.table = some (t.set i b')) :
    (entries m').length + (tableBin t i).nodes.length = (entries m).length + b'.nodes.length := by
  rw [entries_eq ht', entries_eq ht]
  exact flatMap_nodes_set_length b' hi

/-! ## lookups in updated bins -/

/-- two well-formed bins (same slot) whose nodes with key `k` coincide answer the lookup of `k` alike -/
theorem Bin.find_congr {hash : Nat → Nat} {n i : Nat} {b b' : Bin} (hb : BinWF hash n i b)
    (hb' : BinWF hash n i b') {h k : Nat}
    (hm : ∀ e, e.hash = h → e.key = k → (e ∈ b'.nodes ↔ e ∈ b.nodes)) :
    b'.find h k = b.find h k := by
  apply Option.ext
  intro e
  rw [Bin.find_iff hb, Bin.find_iff hb']
  constructor
  · rintro ⟨h1, h2, h3⟩; exact ⟨(hm e h2 h3).1 h1, h2, h3⟩
  · rintro ⟨h1, h2, h3⟩; exact ⟨(hm e h2 h3).2 h1, h2, h3⟩

theorem insertBin_find_other {hash : Nat → Nat} {n i : Nat} {h k : Nat} {b : Bin} {nd : Node}
    (hb : BinWF hash n i b) (hf : b.find h k = none) (hh : nd.hash = h) (hk : nd.key = k)
    (hnd : NodeOk hash n i nd) {h' k' : Nat} (hne : k' ≠ k) :
    (insertBin nd b).find h' k' = b.find h' k' := by
  refine Bin.find_congr hb (insertBin_wf hb hf hh hk hnd) ?_
  intro e _ hek
  rw [(insertBin_nodes_perm nd b).mem_iff, List.mem_cons]
  constructor
  · rintro (rfl | h1)
    · exact absurd (hek.symm.trans hk) hne
    · exact h1
  · exact Or.inr

theorem setValBin_find {hash : Nat → Nat} {n i : Nat} (h k v vi : Nat) {b : Bin}
    (hb : BinWF hash n i b) (h' k' : Nat) :
    (setValBin h k v vi b).find h' k' = (b.find h' k').map (upd h k v vi) := by
  have hb' := setValBin_wf h k v vi hb
  apply Option.ext
  intro e
  rw [Bin.find_iff hb', setValBin_nodes h k v vi hb, Option.map_eq_some_iff, List.mem_map]
  constructor
  · rintro ⟨⟨x, hx, rfl⟩, h2, h3⟩
    refine ⟨x, (Bin.find_iff hb).2 ⟨hx, ?_, ?_⟩, rfl⟩
    · simpa using h2
    · simpa using h3
  · rintro ⟨x, hx, rfl⟩
    obtain ⟨h1, h2, h3⟩ := (Bin.find_iff hb).1 hx
    exact ⟨⟨x, h1, rfl⟩, by simpa using h2, by simpa using h3⟩

theorem setValBin_find_other {hash : Nat → Nat} {n i : Nat} (h k v vi : Nat) {b : Bin}
    (hb : BinWF hash n i b) {h' k' : Nat} (hne : k' ≠ k) :
    (setValBin h k v vi b).find h' k' = b.find h' k' := by
  rw [setValBin_find h k v vi hb]
  cases hf : b.find h' k' with
  | none => rfl
  | some e =>
    have := ((Bin.find_iff hb).1 hf).2.2
    simp only [Option.map_some, upd]
    rw [if_neg]
    rintro ⟨_, h2⟩
    exact hne (this.symm.trans h2)

theorem removeBin_find_other {hash : Nat → Nat} {n i : Nat} {h k : Nat} {b : Bin} {old : Node}
    (hb : BinWF hash n i b) (hf : b.find h k = some old) {h' k' : Nat} (hne : k' ≠ k) :
    (removeBin h k b).find h' k' = b.find h' k' := by
  refine Bin.find_congr hb (removeBin_wf hb hf) ?_
  intro e _ hek
  rw [removeBin_nodes h k hb, List.mem_filter]
  constructor
  · exact fun h1 => h1.1
  · intro h1
    refine ⟨h1, ?_⟩
    have : ¬ e.key = k := fun h2 => hne (hek.symm.trans h2)
    simp [this]

theorem setValBin_nodes_length {hash : Nat → Nat} {n i : Nat} (h k v vi : Nat) {b : Bin}
    (hb : BinWF hash n i b) : (setValBin h k v vi b).nodes.length = b.nodes.length := by
  rw [setValBin_nodes h k v vi hb, List.length_map]

theorem insertBin_nodes_length (nd : Node) (b : Bin) :
    (insertBin nd b).nodes.length = b.nodes.length + 1 := by
  simpa using (insertBin_nodes_perm nd b).length_eq

/-! ## `tryPresize` / `treeifyBin` on states whose count is off (`PreWF`) -/

theorem tryPresize_go_preWF (req : Int) (fuel : Nat) : ∀ (m : Map) (t : Table), PreWF m t →
    (∃ t', PreWF (tryPresize.go req fuel m) t') ∧ Same m (tryPresize.go req fuel m) := by
  induction fuel with
  | zero => intro m t hp; exact ⟨⟨t, hp⟩, Same.refl m⟩
  | succ f ih =>
    intro m t hp
    have hpos := hp.twf.length_pos
    simp only [tryPresize.go, tableLen_of_some hp.table]
    split
    · exact ⟨⟨t, hp⟩, Same.refl m⟩
    · split
      next h0 => simp only [beq_iff_eq] at h0; omega
      next =>
        split
        · exact ⟨⟨t, hp⟩, Same.refl m⟩
        next hd =>
          have hlt : t.length < MAXIMUM_CAPACITY := by
            have := mt (C14.reserve_done_iff req m.sizeCtl t.length).2 hd
            omega
          obtain ⟨w, s⟩ := ih (transfer m) _ (transfer_preWF hp hlt)
          exact ⟨w, (transfer_same hp.table hp.twf).trans s⟩

theorem treeifyBin_preWF (i : Nat) {m : Map} {t : Table} (hp : PreWF m t) :
    (∃ t', PreWF (treeifyBin i m) t') ∧ Same m (treeifyBin i m) := by
  unfold treeifyBin
  simp only [hp.table]
  split
  · exact tryPresize_go_preWF _ _ m t hp
  · split
    next ns hb =>
      have hbw : BinWF m.hash t.length i (.list ns) := by rw [← hb]; exact hp.twf.bin i
      have hnodes : (Bin.tree (RB.ofList ns) ns).nodes = (tableBin t i).nodes := by rw [hb]; rfl
      have htw' : TableWF m.hash (t.set i (.tree (RB.ofList ns) ns)) :=
        tableWF_set hp.twf (treeify_wf hbw)
      have hent : entries { m with table := some (t.set i (.tree (RB.ofList ns) ns)) } = entries m := by
        rw [entries_eq (m := { m with table := some (t.set i (.tree (RB.ofList ns) ns)) }) rfl,
          entries_eq hp.table, flatMap_nodes_set_same hnodes]
      refine ⟨⟨_, rfl, htw', ?_⟩, rfl, ?_, by rw [hent]⟩
      · show m.sizeCtl = _
        rw [table_length_set]; exact hp.sc
      · exact get_eq_of_perm hp.table rfl hp.twf htw' (by rw [hent])
    next => exact ⟨⟨t, hp⟩, Same.refl m⟩

end Flurry.Seq
