import Flurry.Lemmas.BinNGenDefs
import Flurry.Lemmas.BinXBasic
/-! # Proto/BinN: times, operations and program counters fit (`TInv`) in every reachable state

The part of the invariant that does not look at the heap or the tables (port of the `TInv` part of
`Lemmas/BinXDefs.lean`, `Lemmas/BinXThreads.lean`, `Lemmas/BinXInv.lean`): the operation of a pending
call fits the program counter, a thread has a call iff its program counter is one of a call, time
stamps are ordered, invocation times are unique. -/
namespace Flurry.Proto.BinN
open Flurry.Lin
open Flurry.Proto.BinX (NodeS Cell Pending isReader dflt chainFrom cellHead cellOfHead get_set get_set_self get_set_ne)

def PcOp : Pc → KOp → Prop
  | .rTable, op => isReader op = true
  | .rCell _, op => isReader op = true
  | .rNode _, op => isReader op = true
  | .wTable, op => isReader op = false
  | .wCell _, op => isReader op = false
  | .wCas _, op => isReader op = false
  | .wLock _ _, op => isReader op = false
  | .wCheck _ _, op => isReader op = false
  | .wFind _ _ _ _, op => isReader op = false
  | .wStore _ _ _ _ _, op => isReader op = false
  | .wUnlock _ _ _ _, op => isReader op = false
  | _, _ => True

/-- program counters of a call in flight -/
def isOp : Pc → Prop
  | .rTable | .rCell _ | .rNode _ | .wTable | .wCell _ | .wCas _ | .wLock _ _ | .wCheck _ _
  | .wFind _ _ _ _ | .wStore _ _ _ _ _ | .wUnlock _ _ _ _ => True
  | _ => False

structure TInv (s : State) : Prop where
  opOK : ∀ (t : Nat) (l : Local) (p : Pending), s.threads[t]? = some l → l.call = some p → PcOp l.pc p.op
  callOK : ∀ (t : Nat) (l : Local), s.threads[t]? = some l → (isOp l.pc ↔ l.call.isSome)
  histTime : ∀ x ∈ s.hist, x.2.inv ≤ x.2.resp ∧ x.2.resp ≤ s.now
  pendTime : ∀ (t : Nat) (l : Local) (p : Pending), s.threads[t]? = some l → l.call = some p → p.inv ≤ s.now
  uniqHP : ∀ x ∈ s.hist, ∀ (t : Nat) (l : Local) (p : Pending), s.threads[t]? = some l → l.call = some p →
    x.2.inv ≠ p.inv
  uniqPP : ∀ (t t' : Nat) (l l' : Local) (p p' : Pending), s.threads[t]? = some l → s.threads[t']? = some l' →
    l.call = some p → l'.call = some p' → p.inv = p'.inv → t = t'
  uniqHH : s.hist.Pairwise (fun x y => x.2.inv ≠ y.2.inv)

/-- a transition that keeps the pending call of the thread -/
theorem tinv_keep {s s' : State} {t : Nat} {l l' : Local} (T : TInv s)
    (hl : s.threads[t]? = some l) (hthr : s'.threads = s.threads.set t l') (hnow : s'.now = s.now + 1)
    (hhist : s'.hist = s.hist) (hcall : l'.call = l.call)
    (hpc : ∀ p, l.call = some p → PcOp l'.pc p.op) (hop : isOp l'.pc ↔ isOp l.pc) : TInv s' := by
  have key : ∀ (t1 : Nat) (l1 : Local) (p1 : Pending), s'.threads[t1]? = some l1 → l1.call = some p1 →
      ∃ l0, s.threads[t1]? = some l0 ∧ l0.call = some p1 ∧ (PcOp l0.pc p1.op → PcOp l1.pc p1.op) := by
    intro t1 l1 p1 h1 hc1
    rw [hthr] at h1
    rcases get_set h1 with ⟨rfl, rfl⟩ | ⟨_, h1⟩
    · exact ⟨l, hl, hcall ▸ hc1, fun _ => hpc p1 (hcall ▸ hc1)⟩
    · exact ⟨l1, h1, hc1, id⟩
  refine ⟨?_, ?_, ?_, ?_, ?_, ?_, ?_⟩
  · intro t1 l1 p1 h1 hc1
    obtain ⟨l0, h0, hc0, himp⟩ := key t1 l1 p1 h1 hc1
    exact himp (T.opOK t1 l0 p1 h0 hc0)
  · intro t1 l1 h1
    rw [hthr] at h1
    rcases get_set h1 with ⟨rfl, rfl⟩ | ⟨_, h1⟩
    · rw [hop, hcall]; exact T.callOK _ l hl
    · exact T.callOK t1 l1 h1
  · intro x hx
    rw [hhist] at hx
    have := T.histTime x hx
    omega
  · intro t1 l1 p1 h1 hc1
    obtain ⟨l0, h0, hc0, -⟩ := key t1 l1 p1 h1 hc1
    have := T.pendTime t1 l0 p1 h0 hc0
    omega
  · intro x hx t1 l1 p1 h1 hc1
    rw [hhist] at hx
    obtain ⟨l0, h0, hc0, -⟩ := key t1 l1 p1 h1 hc1
    exact T.uniqHP x hx t1 l0 p1 h0 hc0
  · intro t1 t2 l1 l2 p1 p2 h1 h2 hc1 hc2 he
    obtain ⟨l01, h01, hc01, -⟩ := key t1 l1 p1 h1 hc1
    obtain ⟨l02, h02, hc02, -⟩ := key t2 l2 p2 h2 hc2
    exact T.uniqPP t1 t2 l01 l02 p1 p2 h01 h02 hc01 hc02 he
  · rw [hhist]; exact T.uniqHH

/-- an invocation -/
theorem tinv_invoke {s s' : State} {t : Nat} {l l' : Local} {k : Nat} {op : KOp} (T : TInv s)
    (hl : s.threads[t]? = some l) (hthr : s'.threads = s.threads.set t l') (hnow : s'.now = s.now + 1)
    (hhist : s'.hist = s.hist) (hcall : l'.call = some ⟨k, op, s.now + 1⟩)
    (hpc : PcOp l'.pc op) (hop : isOp l'.pc) : TInv s' := by
  have key : ∀ (t1 : Nat) (l1 : Local) (p1 : Pending), s'.threads[t1]? = some l1 → l1.call = some p1 →
      (t1 = t ∧ l1 = l' ∧ p1 = ⟨k, op, s.now + 1⟩) ∨ (t1 ≠ t ∧ s.threads[t1]? = some l1) := by
    intro t1 l1 p1 h1 hc1
    rw [hthr] at h1
    rcases get_set h1 with ⟨rfl, rfl⟩ | ⟨hne, h1⟩
    · rw [hcall] at hc1; cases hc1
      exact Or.inl ⟨rfl, rfl, rfl⟩
    · exact Or.inr ⟨hne, h1⟩
  refine ⟨?_, ?_, ?_, ?_, ?_, ?_, ?_⟩
  · intro t1 l1 p1 h1 hc1
    rcases key t1 l1 p1 h1 hc1 with ⟨rfl, rfl, rfl⟩ | ⟨_, h0⟩
    · exact hpc
    · exact T.opOK t1 l1 p1 h0 hc1
  · intro t1 l1 h1
    rw [hthr] at h1
    rcases get_set h1 with ⟨rfl, rfl⟩ | ⟨_, h1⟩
    · rw [hcall]; exact ⟨fun _ => rfl, fun _ => hop⟩
    · exact T.callOK t1 l1 h1
  · intro x hx
    rw [hhist] at hx
    have := T.histTime x hx
    omega
  · intro t1 l1 p1 h1 hc1
    rcases key t1 l1 p1 h1 hc1 with ⟨rfl, rfl, rfl⟩ | ⟨_, h0⟩
    · simp only; omega
    · have := T.pendTime t1 l1 p1 h0 hc1
      omega
  · intro x hx t1 l1 p1 h1 hc1
    rw [hhist] at hx
    rcases key t1 l1 p1 h1 hc1 with ⟨rfl, rfl, rfl⟩ | ⟨_, h0⟩
    · have := T.histTime x hx
      simp only; omega
    · exact T.uniqHP x hx t1 l1 p1 h0 hc1
  · intro t1 t2 l1 l2 p1 p2 h1 h2 hc1 hc2 he
    rcases key t1 l1 p1 h1 hc1 with ⟨rfl, rfl, rfl⟩ | ⟨hne1, h01⟩ <;>
      rcases key t2 l2 p2 h2 hc2 with ⟨rfl, rfl, rfl⟩ | ⟨hne2, h02⟩
    · rfl
    · have := T.pendTime t2 l2 p2 h02 hc2
      simp only at he; omega
    · have := T.pendTime t1 l1 p1 h01 hc1
      simp only at he; omega
    · exact T.uniqPP t1 t2 l1 l2 p1 p2 h01 h02 hc1 hc2 he
  · rw [hhist]; exact T.uniqHH

/-- a call completes -/
theorem tinv_finish {s s' : State} {t : Nat} {l l' : Local} {p : Pending} {res : KRes} (T : TInv s)
    (hl : s.threads[t]? = some l) (hp : l.call = some p)
    (hthr : s'.threads = s.threads.set t l') (hnow : s'.now = s.now + 1)
    (hhist : s'.hist = (p.key, ⟨t, p.op, res, p.inv, s.now + 1⟩) :: s.hist) (hcall : l'.call = none)
    (hop : ¬ isOp l'.pc) : TInv s' := by
  have key : ∀ (t1 : Nat) (l1 : Local) (p1 : Pending), s'.threads[t1]? = some l1 → l1.call = some p1 →
      t1 ≠ t ∧ s.threads[t1]? = some l1 := by
    intro t1 l1 p1 h1 hc1
    rw [hthr] at h1
    rcases get_set h1 with ⟨rfl, rfl⟩ | ⟨hne, h1⟩
    · rw [hcall] at hc1; cases hc1
    · exact ⟨hne, h1⟩
  have hpi := T.pendTime t l p hl hp
  refine ⟨?_, ?_, ?_, ?_, ?_, ?_, ?_⟩
  · intro t1 l1 p1 h1 hc1
    exact T.opOK t1 l1 p1 (key t1 l1 p1 h1 hc1).2 hc1
  · intro t1 l1 h1
    rw [hthr] at h1
    rcases get_set h1 with ⟨rfl, rfl⟩ | ⟨_, h1⟩
    · rw [hcall]; exact ⟨fun h => absurd h hop, fun h => by cases h⟩
    · exact T.callOK t1 l1 h1
  · intro x hx
    rw [hhist] at hx
    rcases List.mem_cons.1 hx with rfl | hx
    · simp only; omega
    · have := T.histTime x hx
      omega
  · intro t1 l1 p1 h1 hc1
    have := T.pendTime t1 l1 p1 (key t1 l1 p1 h1 hc1).2 hc1
    omega
  · intro x hx t1 l1 p1 h1 hc1
    obtain ⟨hne, h0⟩ := key t1 l1 p1 h1 hc1
    rw [hhist] at hx
    rcases List.mem_cons.1 hx with rfl | hx
    · simp only
      intro he
      exact hne (T.uniqPP t1 t l1 l p1 p h0 hl hc1 hp he.symm)
    · exact T.uniqHP x hx t1 l1 p1 h0 hc1
  · intro t1 t2 l1 l2 p1 p2 h1 h2 hc1 hc2 he
    exact T.uniqPP t1 t2 l1 l2 p1 p2 (key t1 l1 p1 h1 hc1).2 (key t2 l2 p2 h2 hc2).2 hc1 hc2 he
  · rw [hhist]
    refine List.pairwise_cons.2 ⟨?_, T.uniqHH⟩
    intro y hy
    simp only
    exact fun he => T.uniqHP y hy t l p hl hp he.symm

/-- `TInv` only looks at the threads, the history and the clock -/
theorem tinv_of_frame {s s1 s' : State} (T : TInv s1) (h1 : s1.threads = s.threads) (h2 : s1.hist = s.hist)
    (h3 : s1.now = s.now) (hs' : s'.threads = s.threads ∧ s'.hist = s.hist ∧ s'.now = s.now) : TInv s' := by
  obtain ⟨e1, e2, e3⟩ := hs'
  exact ⟨by rw [e1, ← h1]; exact T.opOK, by rw [e1, ← h1]; exact T.callOK, by rw [e2, e3, ← h2, ← h3]; exact T.histTime,
    by rw [e1, e3, ← h1, ← h3]; exact T.pendTime, by rw [e1, e2, ← h1, ← h2]; exact T.uniqHP,
    by rw [e1, ← h1]; exact T.uniqPP, by rw [e2, ← h2]; exact T.uniqHH⟩

/-! ## facts about the pure moves -/

theorem Move.isOp {s : State} {p : Pending} {pc pc' : Pc} (hm : Move s p pc pc') :
    isOp pc' ∧ isOp pc ∧ ¬ isT pc ∧ ¬ isT pc' := by
  cases hm <;> exact ⟨trivial, trivial, id, id⟩

theorem Move.pcOp {s : State} {p : Pending} {pc pc' : Pc} (hm : Move s p pc pc') {op : KOp}
    (hp : PcOp pc op) : PcOp pc' op := by
  cases hm <;> exact hp

theorem TMove.isT {s : State} {pick : Nat} {pc pc' : Pc} (hm : TMove s pick pc pc') :
    isT pc ∧ isT pc' ∧ ¬ isOp pc ∧ ¬ isOp pc' := by
  cases hm <;> exact ⟨trivial, trivial, id, id⟩

theorem LockMove.isOp {s : State} {t h : Nat} {x : Option Nat} {pc pc' : Pc} (hm : LockMove s t pc h x pc') :
    isOp pc' ∧ isOp pc ∧ ¬ isT pc ∧ ¬ isT pc' := by
  cases hm <;> exact ⟨trivial, trivial, id, id⟩

theorem LockMove.pcOp {s : State} {t h : Nat} {x : Option Nat} {pc pc' : Pc} (hm : LockMove s t pc h x pc')
    {op : KOp} (hp : PcOp pc op) : PcOp pc' op := by
  cases hm <;> exact hp

theorem TLockMove.isT {s : State} {t h : Nat} {x : Option Nat} {pc pc' : Pc} (hm : TLockMove s t pc h x pc') :
    isT pc ∧ isT pc' ∧ ¬ isOp pc ∧ ¬ isOp pc' := by
  cases hm <;> exact ⟨trivial, trivial, id, id⟩

theorem Fin.isOp {s : State} {p : Pending} {pc : Pc} {res : KRes} (hf : Fin s p pc res) : isOp pc ∧ ¬ isT pc := by
  cases hf <;> exact ⟨trivial, id⟩

theorem invoke_pc (op : KOp) :
    (if isReader op then Pc.rTable else Pc.wTable) = .rTable ∨ (if isReader op then Pc.rTable else Pc.wTable) = .wTable := by
  cases isReader op
  · right; rfl
  · left; rfl

/-- the writer's store leaves the threads, the history and the clock alone -/
theorem storeAt_thn (s : State) (g : Nat) (p : Pending) (pred hit hnext : Option Nat) :
    (storeAt s g p pred hit hnext).1.threads = s.threads ∧ (storeAt s g p pred hit hnext).1.hist = s.hist ∧
    (storeAt s g p pred hit hnext).1.now = s.now := by
  unfold storeAt
  cases p.op <;> cases hit <;> cases pred <;> cases hnext <;> exact ⟨rfl, rfl, rfl⟩

/-- a thread that is not in a call has no call -/
theorem TInv.no_call {s : State} (T : TInv s) {t : Nat} {l : Local} (hl : s.threads[t]? = some l)
    (h : ¬ isOp l.pc) : l.call = none := by
  cases hc : l.call with
  | none => rfl
  | some p => exact absurd ((T.callOK t l hl).2 (by rw [hc]; rfl)) h

theorem TInv.idle_no_call {s : State} (T : TInv s) {t : Nat} {l : Local} (hl : s.threads[t]? = some l)
    (h : l.pc = .idle) : l.call = none :=
  T.no_call hl (by rw [h]; exact id)

/-- **every transition preserves `TInv`** -/
theorem stepK_tinv {s s' : State} {t : Nat} {l : Local} {pick : Nat} (T : TInv s)
    (hl : s.threads[t]? = some l) (hstep : StepK s t l pick s') : TInv s' := by
  have nocall : ∀ {l' : Local}, l.call = none → l'.call = l.call → ∀ p, l.call = some p → PcOp l'.pc p.op := by
    intro l' h _ p hp; rw [h] at hp; cases hp
  cases hstep with
  | idle hpc =>
    exact tinv_keep T hl rfl rfl rfl rfl (fun p hp => T.opOK t l p hl hp) Iff.rfl
  | invoke k op hpc =>
    have hcases := invoke_pc op
    refine tinv_invoke (l' := { pc := if isReader op then .rTable else .wTable, call := some ⟨k, op, s.now + 1⟩ })
      T hl rfl rfl rfl rfl ?_ ?_
    · cases hr : isReader op <;> simp [PcOp, hr]
    · rcases hcases with h | h <;> (show isOp (if isReader op then Pc.rTable else Pc.wTable); rw [h]; trivial)
  | resize hpc hr =>
    exact tinv_keep (l' := { l with pc := .tNext }) T hl rfl rfl rfl rfl (fun _ _ => trivial)
      (by rw [hpc]; exact ⟨fun h => h, fun h => h⟩)
  | move p pc' hp hm =>
    obtain ⟨o1, o2, -, -⟩ := hm.isOp
    exact tinv_keep (l' := { l with pc := pc' }) T hl rfl rfl rfl rfl
      (fun p' hp' => hm.pcOp (T.opOK t l p' hl hp')) ⟨fun _ => o2, fun _ => o1⟩
  | tmove pc' hp hm =>
    obtain ⟨-, -, o3, o4⟩ := hm.isT
    exact tinv_keep (l' := { l with pc := pc' }) T hl rfl rfl rfl rfl (nocall hp rfl)
      ⟨fun h => absurd h o4, fun h => absurd h o3⟩
  | lockMove p h x pc' hp hm =>
    obtain ⟨o1, o2, -, -⟩ := hm.isOp
    exact tinv_keep (l' := { l with pc := pc' }) T hl rfl rfl rfl rfl
      (fun p' hp' => hm.pcOp (T.opOK t l p' hl hp')) ⟨fun _ => o2, fun _ => o1⟩
  | tlockMove h x pc' hp hm =>
    obtain ⟨-, -, o3, o4⟩ := hm.isT
    exact tinv_keep (l' := { l with pc := pc' }) T hl rfl rfl rfl rfl (nocall hp rfl)
      ⟨fun h => absurd h o4, fun h => absurd h o3⟩
  | fin p res hp hf =>
    exact tinv_finish (l' := { pc := .idle, call := none }) T hl hp rfl rfl rfl rfl id
  | cas p g v vi hp hpc hc hop =>
    exact tinv_finish (l' := { pc := .idle, call := none }) T hl hp rfl rfl rfl rfl id
  | store p g h pred hit hnext hp hpc =>
    obtain ⟨e1, e2, e3⟩ := storeAt_thn (tick s) g p pred hit hnext
    refine tinv_keep (l' := { l with pc := .wUnlock g h (storeAt (tick s) g p pred hit hnext).2 false }) T hl
      (by show (storeAt (tick s) g p pred hit hnext).1.threads.set t _ = _; rw [e1]; rfl)
      (by show (storeAt (tick s) g p pred hit hnext).1.now = _; rw [e3]; rfl)
      (by show (storeAt (tick s) g p pred hit hnext).1.hist = _; rw [e2]; rfl) rfl
      (fun p' hp' => by have := T.opOK t l p' hl hp'; rw [hpc] at this; exact this)
      (by rw [hpc]; exact ⟨fun _ => trivial, fun _ => trivial⟩)
  | unlockFin p g h res hp hpc =>
    exact tinv_finish (l' := { pc := .idle, call := none }) T hl hp rfl rfl rfl rfl id
  | casMoved j hp hpc hc =>
    exact tinv_keep (l' := { l with pc := .tNext }) T hl rfl rfl rfl rfl (nocall hp rfl)
      (by rw [hpc]; exact ⟨fun h => False.elim h, fun h => False.elim h⟩)
  | build j h hp hpc =>
    exact tinv_keep (l' := { l with pc := .tStoreLow j h _ _ }) T hl rfl rfl rfl rfl (nocall hp rfl)
      (by rw [hpc]; exact ⟨fun h => False.elim h, fun h => False.elim h⟩)
  | storeLow j h lo hg hp hpc =>
    exact tinv_keep (l' := { l with pc := .tStoreHigh j h hg }) T hl rfl rfl rfl rfl (nocall hp rfl)
      (by rw [hpc]; exact ⟨fun h => False.elim h, fun h => False.elim h⟩)
  | storeHigh j h hg hp hpc =>
    exact tinv_keep (l' := { l with pc := .tStoreMoved j h }) T hl rfl rfl rfl rfl (nocall hp rfl)
      (by rw [hpc]; exact ⟨fun h => False.elim h, fun h => False.elim h⟩)
  | storeMoved j h hp hpc =>
    exact tinv_keep (l' := { l with pc := .tUnlock j h }) T hl rfl rfl rfl rfl (nocall hp rfl)
      (by rw [hpc]; exact ⟨fun h => False.elim h, fun h => False.elim h⟩)
  | commit hp hpc =>
    exact tinv_keep (l' := { l with pc := .idle }) T hl rfl rfl rfl rfl (nocall hp rfl)
      (by rw [hpc]; exact ⟨fun h => False.elim h, fun h => False.elim h⟩)

theorem init_thread {n t : Nat} {l : Local} (hl : (init n).threads[t]? = some l) : l = {} := by
  simp only [init, List.getElem?_replicate] at hl
  split at hl
  · cases hl; rfl
  · cases hl

theorem init_tinv (n : Nat) : TInv (init n) := by
  refine ⟨?_, ?_, ?_, ?_, ?_, ?_, ?_⟩
  · intro t l p hl hc; rw [init_thread hl] at hc; cases hc
  · intro t l hl; rw [init_thread hl]; exact ⟨fun h => False.elim h, fun h => by cases h⟩
  · intro x hx; simp [init] at hx
  · intro t l p hl hc; rw [init_thread hl] at hc; cases hc
  · intro x hx; simp [init] at hx
  · intro t t' l l' p p' hl _ hc; rw [init_thread hl] at hc; cases hc
  · simp [init]

theorem step_tinv {s s' : State} {t : Nat} {inv : Option (Nat × KOp)} {rz : Bool} {pick : Nat} (T : TInv s)
    (hs : step s t inv rz pick = some s') : TInv s' := by
  cases hl : s.threads[t]? with
  | none => unfold step stepG at hs; rw [hl] at hs; cases hs
  | some l => exact stepK_tinv T hl (step_stepK hl hs)

theorem reachable_tinv {n : Nat} {s : State} (hr : Reachable n s) : TInv s := by
  induction hr with
  | init => exact init_tinv n
  | step t inv rz pick _ hs ih => exact step_tinv ih hs

end Flurry.Proto.BinN
