import Flurry.Lemmas.BinGNPLinBase
/-! # Proto/BinGN (port of `Lemmas/BinGLinQ.lean`): the ghost invariant across each class of transitions

Given the `Eff s s'` of a transition and its effect on `absOf` (proved elsewhere), the ghost invariant
`GInv` is preserved. The transitions are grouped as in `StepN` (`Lemmas/BinGStep.lean`):
`ginv_move`, `ginv_bmove`, `ginv_kmove`, `ginv_kbmove`, `ginv_fin`, `ginv_bfin` (the transitions that
leave the shared state alone but for lock words / synchronisation words), `ginv_idle`, `ginv_maint`,
`ginv_invoke`, `ginv_nocall` (threads without a call), `ginv_silent` (a writer past its point that
restructures), `ginv_point` (a writer passes its linearization point), `ginv_cas` (a call completes
at its point).

All classes describe the successor state by `hthr : s'.threads = s.threads.set t l'`,
`hnow : s'.now = s.now + 1` and `hhist : s'.hist = …`.

What differs from BinG (all `ginv_*` statements are verbatim):
* `live_cellOf_key`, `live_cellOf`, `good_of_cellOf` take `hkey : keyOf l = k` (`XInv.tabNew` speaks about the cell of the
  key of the thread; a thread of generation `cur + 1` says nothing about the cells of other keys);
* `not_priv_of_cellOf` concludes `b < s.tbins.length ∧ InCell s b`, and `Move.ref_ok` concludes
  `b < s.tbins.length ∧ (¬ InCell s b → ¬ PrivBin s b)` — what `RdOK.step` needs (see `Lemmas/BinGNPLinBase.lean`). -/
namespace Flurry.Proto.BinGNP
open Flurry.Lin
open Flurry.Proto.BinK (nodeAt binAt NextOK IsChain IsSeg chainOf CInv absL AbsWit OnCond ValWit Sim CallOK nextA
  nextA_old nextA_new absL_eq_none_iff absL_eq_some_iff get_set get_set_ne get_set_self nodeAt_of_some isInsert
  chainOf_none)

/-! ## auxiliary facts about the transitions -/

set_option linter.unusedSimpArgs false in
theorem BMove.tfacts {s : State} {t : Nat} {p : Pending} {pc pc' : Pc} {tb : List TBin}
    (hm : BMove s t p pc pc' tb) :
    resOfPc pc' = resOfPc pc ∧ (∀ b, binRef pc' = some b → binRef pc = some b) := by
  cases hm
  case lrTryOk tab b k res _ _ _ => cases k <;> simp [afterLock, resOfPc, binRef]
  case lrLoopOk tab b k res _ _ => cases k <;> simp [afterLock, resOfPc, binRef]
  all_goals simp [resOfPc, binRef]

/-- a `Move` either keeps the thread on its side of its linearization point, or it is the `tFind`
step of a tree-bin writer that changes nothing -/
theorem Move.res_keep {s : State} {t : Nat} {p : Pending} {pc pc' : Pc} {hp : List NodeS}
    (hm : Move s t p pc pc' hp) :
    resOfPc pc' = resOfPc pc ∨
    (resOfPc pc = none ∧ ∃ tab b res, pc' = .tUnlockM tab b res false ∧ pc = .tFind tab b ∧
      specStep (absTree s b p.key) p.op = (absTree s b p.key, res)) := by
  cases hm
  case findDone tab b res h => exact Or.inr ⟨rfl, tab, b, res, rfl, rfl, h⟩
  case rCellTree lo tab b hc => cases lo <;> exact Or.inl rfl
  case lrTryFail tab b k res => cases k <;> exact Or.inl rfl
  all_goals exact Or.inl rfl

set_option linter.unusedSimpArgs false in
/-- the `TreeBin` the new program counter of a `Move` refers to: the old one, or the one just loaded
from the cell of the key -/
theorem Move.ref {s : State} {t : Nat} {p : Pending} {pc pc' : Pc} {hp : List NodeS}
    (hm : Move s t p pc pc' hp) :
    ∀ b, binRef pc' = some b → binRef pc = some b ∨ ∃ tab, tabOf pc = some tab ∧ cellOf s tab p.key = .tree b := by
  intro b' hb'
  cases hm
  case rCellTree lo tab b hc =>
    refine Or.inr ⟨tab, rfl, ?_⟩
    cases lo <;> simp [binRef] at hb' <;> subst hb' <;> exact hc
  case wCellTree tab b hc =>
    refine Or.inr ⟨tab, rfl, ?_⟩
    simp [binRef] at hb'; subst hb'; exact hc
  case lrTryFail tab b k res => cases k <;> exact Or.inl hb'
  all_goals first
    | exact Or.inl hb'
    | (simp [binRef] at hb')
    | (left; simp [binRef] at hb' ⊢; exact hb')

/-- the cell a thread works in (generation `tab`), if it is not forwarded, is the live cell of the key of the
thread (BinG: of every key — there `tabNew` does not depend on the key) -/
theorem live_cellOf_key {s : State} {t : Nat} {l : Local} {tab : Nat} (I : Inv s)
    (hl : s.threads[t]? = some l) (ht : tabOf l.pc = some tab) (k : Nat) (hkey : keyOf l = k)
    (hnm : cellOf s tab k ≠ .moved) : liveCell s k = cellOf s tab k := by
  rw [liveCell_eq I.rsz k]
  obtain ⟨hle, hnew⟩ := I.rsz.tabNew t l tab hl ht
  rw [hkey] at hnew
  rw [cellOf_eq] at hnm ⊢
  rcases Nat.lt_or_ge tab s.cur with hlt | hge
  · exact absurd (I.rsz.old tab (k % 2 ^ tab) hlt (Nat.mod_lt _ (Nat.two_pow_pos _))) hnm
  · rcases Nat.lt_or_ge tab (s.cur + 1) with hlt1 | hge1
    · have : tab = s.cur := by omega
      subst this
      unfold liveId
      rw [if_neg hnm]
    · have : tab = s.cur + 1 := by omega
      subst this
      rw [liveId_moved (hnew rfl)]

theorem live_cellOf {s : State} {t : Nat} {l : Local} {p : Pending} {tab : Nat} (I : Inv s)
    (hl : s.threads[t]? = some l) (hp : l.call = some p) (ht : tabOf l.pc = some tab) (hkey : keyOf l = p.key)
    (hnm : cellOf s tab p.key ≠ .moved) : liveCell s p.key = cellOf s tab p.key := by
  have _ := hp
  exact live_cellOf_key I hl ht p.key hkey hnm

/-- the `TreeBin` a thread finds in the cell of generation `tab` it works in is a `TreeBin` of the table and is in a
cell (BinG: "is not private"; that does not follow from `Inv` here, and `RdOK.step` only needs
`¬ InCell s b → ¬ PrivBin s b`) -/
theorem not_priv_of_cellOf {s : State} {tab : Nat} {k b : Nat} (I : Inv s)
    (hc : cellOf s tab k = .tree b) : b < s.tbins.length ∧ InCell s b := by
  have hcell : cellAt s (idOf tab k) = .tree b := by rw [← cellOf_eq]; exact hc
  exact ⟨I.heap.cellOK _ b hcell, idOf tab k, hcell⟩

/-- the live cell of `k` is empty: the key is absent -/
theorem absOf_none_of_empty {s : State} {k : Nat} (h : liveCell s k = .empty) : absOf s k = none := by
  rw [absOf_eq, absL_eq_none_iff]
  have : LC s k = [] := by
    unfold LC chainC
    rw [h]
    exact chainOf_none _
  rw [this]
  intro i hi
  cases hi

private theorem treeFind_some_q {s : State} {b k i : Nat} (h : treeFind s b k = some i) :
    i < s.heap.length ∧ (nodeAt s.heap i).owner = some b ∧ (nodeAt s.heap i).inTree = true ∧
      (nodeAt s.heap i).key = k := by
  rw [treeFind_def] at h
  have h1 := List.mem_of_find?_eq_some h
  have h2 := List.find?_some h
  simp only [Bool.and_eq_true, beq_iff_eq] at h2
  exact ⟨List.mem_range.1 h1, h2.1.1, h2.1.2, h2.2⟩

/-- a thread that holds a read lock of `b`: nobody holds the write lock -/
theorem Inv.reader_no_writer {s : State} (I : Inv s) {t : Nat} {l : Local} {b : Nat}
    (hl : s.threads[t]? = some l) (hr : holdsRead l.pc = some b) : (binAt s.tbins b).writer = false := by
  have hpos := I.lock.reader_pos hl hr
  cases hw : (binAt s.tbins b).writer with
  | false => rfl
  | true => have := I.lock.wrd b hw; omega

/-- what a lock-protocol reader that holds a read lock learns from the tree -/
theorem TreeOK.read {A : Nat → KSt} {k inv : Nat} {s : State} {b : Nat} (h : TreeOK A k inv s b) (I : Inv s)
    (hA : A s.now = absOf s k) (hinv : inv ≤ s.now) (hw : (binAt s.tbins b).writer = false) :
    ∃ τ, inv ≤ τ ∧ τ ≤ s.now ∧ A τ = absTree s b k := by
  rcases h with h | h | h
  · exact ⟨s.now, hinv, Nat.le_refl _, by rw [hA, I.absTree_eq_abs h hw]⟩
  · rw [hw] at h; cases h.2
  · exact h

theorem rdOK_release {A : Nat → KSt} {k inv : Nat} {s : State} {b : Nat}
    (h : ∃ τ, inv ≤ τ ∧ τ ≤ s.now ∧ A τ = absTree s b k) : RdOK A k inv s (.rRelease b (treeFind s b k)) := by
  obtain ⟨τ, h1, h2, h3⟩ := h
  unfold absTree at h3
  cases hf : treeFind s b k with
  | none =>
    rw [hf] at h3
    simp only [RdOK]
    exact ⟨τ, h1, h2, h3⟩
  | some i =>
    rw [hf] at h3
    simp only [RdOK]
    obtain ⟨hi, _, _, hik⟩ := treeFind_some_q hf
    exact ⟨hik, hi, τ, h1, h2, h3⟩

/-! ## what the new program counter of a reader knows -/

/-- the pointer loaded from the cell of the key in table `tab` -/
theorem good_of_cellOf {k : Nat} {s : State} {A : Nat → KSt} {pt : Nat → Nat} {t : Nat} {l : Local} {tab : Nat}
    {inv : Nat} (g : GInv k s A pt) (I : Inv s) (hl : s.threads[t]? = some l) (ht : tabOf l.pc = some tab)
    (hkey : keyOf l = k) (hinv : inv ≤ s.now) (hnm : cellOf s tab k ≠ .moved) :
    Good A k inv s (startOf s.tbins (cellOf s tab k)) := by
  have := Good.first (A := A) (k := k) (inv := inv) I.heap g.hA hinv
  rw [live_cellOf_key I hl ht k hkey hnm] at this
  exact this

/-- what the new program counter of a reader knows (in the old state) -/
theorem Move.rdOK {k : Nat} {s : State} {A : Nat → KSt} {pt : Nat → Nat} {t : Nat} {p : Pending} {l : Local}
    {pc' : Pc} {hp : List NodeS}
    (hm : Move s t p l.pc pc' hp) (g : GInv k s A pt) (I : Inv s)
    (hl : s.threads[t]? = some l) (hpc : l.call = some p) (hk : p.key = k) : RdOK A k p.inv s pc' := by
  have hpi := I.thr.pendTime t l p hl hpc
  have hR := g.readers t l p hl hpc hk
  have hP := I.data.pcInv t l p hl hpc
  have H := I.heap
  have hA := g.hA
  obtain ⟨pc, call⟩ := l
  simp only at hpc hm hR hP
  subst hpc
  cases hm with
  | rTable => simp only [RdOK]
  | rCellMoved _ => simp only [RdOK]
  | @rCellList lo tab h hc =>
    simp only [RdOK]
    rw [hk] at hc
    have := good_of_cellOf (inv := p.inv) g I hl (tab := tab) rfl hk hpi (by rw [hc]; exact fun h => by cases h)
    rw [hc] at this
    exact this
  | @rCellTree lo tab b hc =>
    rw [hk] at hc
    have hnm : cellOf s tab k ≠ .moved := by rw [hc]; exact fun h => by cases h
    have hgood := good_of_cellOf (inv := p.inv) g I hl (tab := tab) rfl hk hpi hnm
    rw [hc] at hgood
    have hlive : cellAt s (liveId s k) = .tree b := by
      rw [← liveCell_eq I.rsz k, live_cellOf_key I hl (tab := tab) rfl k hk hnm, hc]
    cases lo <;> simp only [RdOK, if_true, Bool.false_eq_true, if_false]
    · exact ⟨hgood, Or.inl hlive⟩
    · exact hgood
  | @rNodeNext c n hn hne =>
    simp only [RdOK] at hR ⊢
    have hnode := nodeAt_of_some hn
    have := hR.next H hA hpi (by rw [hnode, ← hk]; exact hne)
    rw [hnode] at this
    exact this
  | rFirst => simp only [RdOK] at hR ⊢; exact hR
  | rLinMode _ => simp only [RdOK] at hR ⊢; exact hR
  | rTreeMode _ => simp only [RdOK] at hR ⊢; exact hR
  | @rLinNext b c n hn hne =>
    simp only [RdOK] at hR ⊢
    have hnode := nodeAt_of_some hn
    have := hR.1.next H hA hpi (by rw [hnode, ← hk]; exact hne)
    rw [hnode] at this
    exact ⟨this, hR.2⟩
  | @rLinHit b c n hn hkey _ =>
    simp only [RdOK] at hR ⊢
    simp only [PcInv] at hP
    have hnode := nodeAt_of_some hn
    have hkc : (nodeAt s.heap c).key = k := by rw [hnode, hkey, hk]
    exact ⟨hkc, hP, hR.1.hit H hA hpi hkc⟩
  | rCasFail => simp only [RdOK] at hR ⊢; exact hR
  | @rTree b =>
    simp only [RdOK] at hR
    have hw := I.reader_no_writer hl (b := b) rfl
    rw [hk]
    exact rdOK_release (hR.read I hA hpi hw)
  | lFirst => simp only [RdOK] at hR ⊢; exact hR
  | @lNext c n hn hne =>
    simp only [RdOK] at hR ⊢
    have hnode := nodeAt_of_some hn
    have := hR.next H hA hpi (by rw [hnode, ← hk]; exact hne)
    rw [hnode] at this
    exact this
  | @lHit c n hn hkey _ =>
    simp only [RdOK] at hR ⊢
    simp only [PcInv] at hP
    have hnode := nodeAt_of_some hn
    have hkc : (nodeAt s.heap c).key = k := by rw [hnode, hkey, hk]
    exact ⟨hkc, hP, hR.hit H hA hpi hkc⟩
  | wTable => exact RdOK_of_not_reader rfl
  | wCellMoved _ => exact RdOK_of_not_reader rfl
  | wCellCas _ _ => exact RdOK_of_not_reader rfl
  | wCellList _ => exact RdOK_of_not_reader rfl
  | wCellTree _ => exact RdOK_of_not_reader rfl
  | wCasFail _ => exact RdOK_of_not_reader rfl
  | wLock _ _ => exact RdOK_of_not_reader rfl
  | wCheckOk _ => exact RdOK_of_not_reader rfl
  | wCheckFail _ => exact RdOK_of_not_reader rfl
  | wFindEnd => exact RdOK_of_not_reader rfl
  | wFindHit _ _ => exact RdOK_of_not_reader rfl
  | wFindNext _ _ => exact RdOK_of_not_reader rfl
  | wUnlockRetry => exact RdOK_of_not_reader rfl
  | tCheckOk _ => exact RdOK_of_not_reader rfl
  | tCheckFail _ => exact RdOK_of_not_reader rfl
  | findVal _ _ => exact RdOK_of_not_reader rfl
  | findInsert _ _ => exact RdOK_of_not_reader rfl
  | findRemove _ _ => exact RdOK_of_not_reader rfl
  | findDone _ => exact RdOK_of_not_reader rfl
  | lrTryFail => exact RdOK_of_not_reader rfl

theorem BMove.rdOK {k : Nat} {s : State} {A : Nat → KSt} {t : Nat} {p : Pending} {pc pc' : Pc} {tb : List TBin}
    (hm : BMove s t p pc pc' tb) (hR : RdOK A k p.inv s pc) : RdOK A k p.inv s pc' := by
  cases hm with
  | rCasOk _ _ _ => simp only [RdOK] at hR ⊢; exact hR.2
  | rRelVal _ => simp only [RdOK] at hR ⊢; exact hR
  | tMutex _ => exact RdOK_of_not_reader rfl
  | @lrTryOk tab b k0 res _ _ _ => cases k0 <;> exact RdOK_of_not_reader rfl
  | @lrLoopOk tab b k0 res _ _ => cases k0 <;> exact RdOK_of_not_reader rfl
  | lrLoopWait _ => exact RdOK_of_not_reader rfl
  | unlockRoot => exact RdOK_of_not_reader rfl
  | tUnlockMRetry => exact RdOK_of_not_reader rfl

/-- the `TreeBin` the new program counter of a `Move` refers to exists and is not private -/
theorem Move.ref_ok {s : State} {t : Nat} {p : Pending} {l : Local} {pc' : Pc} {hp : List NodeS}
    (hm : Move s t p l.pc pc' hp) (I : Inv s) (hl : s.threads[t]? = some l) :
    ∀ b, binRef pc' = some b → b < s.tbins.length ∧ (¬ InCell s b → ¬ PrivBin s b) := by
  intro b hb
  rcases hm.ref b hb with h | ⟨tab, _, hc⟩
  · exact ⟨(I.lock.refOK t l b hl h).1, fun _ => (I.lock.refOK t l b hl h).2⟩
  · exact ⟨(not_priv_of_cellOf I hc).1, fun h => absurd (not_priv_of_cellOf I hc).2 h⟩

/-- the time that justifies the result of a read call that completes -/
theorem fin_point {k : Nat} {s : State} {A : Nat → KSt} {pt : Nat → Nat} {t : Nat} {l : Local}
    {p : Pending} {res : KRes} {hp : List NodeS}
    (g : GInv k s A pt) (I : Inv s) (hl : s.threads[t]? = some l) (hpc : l.call = some p)
    (hk : p.key = k) (hf : Fin s p l.pc res hp) (hrd : isRead p.op = true) :
    ∃ τ0, p.inv ≤ τ0 ∧ τ0 ≤ s.now ∧ specStep (A τ0) p.op = (A τ0, res) := by
  have hpi := I.thr.pendTime t l p hl hpc
  have hR := g.readers t l p hl hpc hk
  have hP := I.data.pcInv t l p hl hpc
  have hO := I.thr.opOK t l p hl hpc
  have H := I.heap
  have hA := g.hA
  have hmiss : ∀ τ, A τ = none → specStep (A τ) p.op = (A τ, absentRes p.op) := by
    intro τ h; rw [h]; exact absentRes_spec hrd
  have hget : ∀ (τ : Nat) (x : Nat × Nat), A τ = some x → p.op ≠ .has →
      specStep (A τ) p.op = (A τ, .some x.1 x.2) := by
    intro τ x h hne
    rw [h]
    rcases isRead_cases hrd with hop | hop
    · rw [hop]
      have : ∀ x : Nat × Nat, specStep (some x) .get = (some x, .some x.1 x.2) := fun ⟨_, _⟩ => rfl
      exact this _
    · exact absurd hop hne
  have hhit : ∀ (τ : Nat) (n : NodeS), A τ = some n.val →
      specStep (A τ) p.op = (A τ, match p.op with | .has => .bool true | _ => .some n.val.1 n.val.2) := by
    intro τ n h3
    rcases isRead_cases hrd with hop | hop
    · rw [h3, hop]
      have : ∀ x : Nat × Nat, specStep (some x) .get = (some x, .some x.1 x.2) := fun ⟨_, _⟩ => rfl
      exact this _
    · rw [h3, hop]; rfl
  obtain ⟨pc, call⟩ := l
  simp only at hpc hf hR hP hO
  subst hpc
  cases hf with
  | @rCellEmpty lo tab hc =>
    refine ⟨s.now, hpi, Nat.le_refl _, hmiss _ ?_⟩
    rw [hA]
    apply absOf_none_of_empty
    rw [hk] at hc
    rw [live_cellOf_key I hl (tab := tab) rfl k hk (by rw [hc]; exact fun h => by cases h), hc]
  | rNodeMiss =>
    simp only [RdOK] at hR
    obtain ⟨τ, h1, h2, h3⟩ := hR.miss
    exact ⟨τ, h1, h2, hmiss τ h3⟩
  | @rNodeHit c n hn hkey =>
    simp only [RdOK] at hR
    have hnode := nodeAt_of_some hn
    obtain ⟨τ, h1, h2, h3⟩ := hR.hit H hA hpi (by rw [hnode, hkey, hk])
    rw [hnode] at h3
    exact ⟨τ, h1, h2, hhit τ n h3⟩
  | rMiss =>
    simp only [RdOK] at hR
    obtain ⟨τ, h1, h2, h3⟩ := hR.1.miss
    exact ⟨τ, h1, h2, hmiss τ h3⟩
  | @rLinHas b c n hn hkey hop =>
    simp only [RdOK] at hR
    have hnode := nodeAt_of_some hn
    obtain ⟨τ, h1, h2, h3⟩ := hR.1.hit H hA hpi (by rw [hnode, hkey, hk])
    refine ⟨τ, h1, h2, ?_⟩
    rw [h3, hop]; rfl
  | @rVal i n hn =>
    simp only [RdOK] at hR
    simp only [PcInv] at hP
    obtain ⟨_, _, τ, h1, h2, h3⟩ := hR
    rw [nodeAt_of_some hn] at h3
    exact ⟨τ, h1, h2, hget τ _ h3 hP⟩
  | lMiss =>
    simp only [RdOK] at hR
    obtain ⟨τ, h1, h2, h3⟩ := hR.miss
    exact ⟨τ, h1, h2, hmiss τ h3⟩
  | @lHas c n hn hkey hop =>
    simp only [RdOK] at hR
    have hnode := nodeAt_of_some hn
    obtain ⟨τ, h1, h2, h3⟩ := hR.hit H hA hpi (by rw [hnode, hkey, hk])
    refine ⟨τ, h1, h2, ?_⟩
    rw [h3, hop]; rfl
  | wCellEmpty _ _ =>
    have := hO rfl
    rw [isReader_eq_isRead, hrd] at this
    cases this
  | wUnlockFin =>
    have := hO rfl
    rw [isReader_eq_isRead, hrd] at this
    cases this

theorem Fin.kind {s : State} {p : Pending} {pc : Pc} {res : KRes} {hp : List NodeS}
    (hf : Fin s p pc res hp) :
    (readerPc pc = true ∧ resOfPc pc = none) ∨ (∃ tab h, pc = .wUnlock tab h res false) ∨
      (∃ tab, pc = .wCell tab ∧ res = .none ∧ cellOf s tab p.key = .empty ∧ isInsert p.op = false) := by
  cases hf
  case wUnlockFin tab h => exact Or.inr (Or.inl ⟨tab, h, rfl⟩)
  case wCellEmpty tab h1 h2 => exact Or.inr (Or.inr ⟨tab, rfl, rfl, h1, h2⟩)
  all_goals exact Or.inl ⟨rfl, rfl⟩

/-- a writer pc: the pending operation is a write -/
theorem isRead_false_of_pc {s : State} (I : Inv s) {t : Nat} {l : Local} {p : Pending}
    (hl : s.threads[t]? = some l) (hp : l.call = some p) (hnc : noCallPc l.pc = false)
    (hnr : readerPc l.pc = false) : isRead p.op = false := by
  have := I.thr.opOK t l p hl hp hnc
  rw [← isReader_eq_isRead, this, hnr]

/-- a reader pc: the pending operation is a read -/
theorem isRead_true_of_pc {s : State} (I : Inv s) {t : Nat} {l : Local} {p : Pending}
    (hl : s.threads[t]? = some l) (hp : l.call = some p) (hr : readerPc l.pc = true) : isRead p.op = true := by
  have hnc : noCallPc l.pc = false := by
    cases hpc' : l.pc <;> rw [hpc'] at hr <;> simp [readerPc] at hr <;> rfl
  have := I.thr.opOK t l p hl hp hnc
  rw [← isReader_eq_isRead, this, hr]

/-! ## threads without a call in flight -/

/-- any transition of a thread without a call in flight that changes no abstract state: treeify
(`kmove`, `kbuild`, `kstore`) and all steps of the resize -/
theorem ginv_nocall {k : Nat} {s s' : State} {A : Nat → KSt} {pt : Nat → Nat} {t : Nat} {l l' : Local}
    (g : GInv k s A pt) (I : Inv s) (E : Eff s s') (hl : s.threads[t]? = some l)
    (hc : l.call = none) (hc' : l'.call = none)
    (hthr : s'.threads = s.threads.set t l') (hnow : s'.now = s.now + 1) (hhist : s'.hist = s.hist)
    (habs : ∀ k, absOf s' k = absOf s k) : ∃ A' pt', GInv k s' A' pt' :=
  ⟨_, _, ginv_other_key (hnew := []) g I E hl (fun p1 hp1 => by rw [hc] at hp1; cases hp1) hthr hnow
    (by rw [hhist]; rfl) (by simp) (habs k) (Or.inr hc')⟩

theorem ginv_kmove {k : Nat} {s s' : State} {A : Nat → KSt} {pt : Nat → Nat} {t : Nat} {l : Local}
    {pc' : Pc} {hp' : List NodeS}
    (g : GInv k s A pt) (I : Inv s) (E : Eff s s') (hl : s.threads[t]? = some l)
    (hc : l.call = none) (hm : KMove s t l.pc pc' hp')
    (hthr : s'.threads = s.threads.set t { l with pc := pc' }) (hnow : s'.now = s.now + 1)
    (hhist : s'.hist = s.hist) (habs : ∀ k, absOf s' k = absOf s k) : ∃ A' pt', GInv k s' A' pt' := by
  have _ := hm
  exact ginv_nocall (l' := { l with pc := pc' }) g I E hl hc hc hthr hnow hhist habs

theorem ginv_kbmove {k : Nat} {s s' : State} {A : Nat → KSt} {pt : Nat → Nat} {t : Nat} {l : Local}
    {pc' : Pc} {tb : List TBin}
    (g : GInv k s A pt) (I : Inv s) (E : Eff s s') (hl : s.threads[t]? = some l)
    (hc : l.call = none) (hm : KBMove s t l.pc pc' tb)
    (hthr : s'.threads = s.threads.set t { l with pc := pc' }) (hnow : s'.now = s.now + 1)
    (hhist : s'.hist = s.hist) (habs : ∀ k, absOf s' k = absOf s k) : ∃ A' pt', GInv k s' A' pt' := by
  have _ := hm
  exact ginv_nocall (l' := { l with pc := pc' }) g I E hl hc hc hthr hnow hhist habs

private theorem call_none_of_idle_q {s : State} (I : Inv s) {t : Nat} {l : Local} (hl : s.threads[t]? = some l)
    (hpc : l.pc = .idle) : l.call = none :=
  (I.thr.callOK t l hl).2 (by rw [hpc]; rfl)

/-- an idle thread stays idle -/
theorem ginv_idle {k : Nat} {s s' : State} {A : Nat → KSt} {pt : Nat → Nat} {t : Nat} {l : Local}
    (g : GInv k s A pt) (I : Inv s) (E : Eff s s') (hl : s.threads[t]? = some l) (hpc : l.pc = .idle)
    (hthr : s'.threads = s.threads.set t l) (hnow : s'.now = s.now + 1) (hhist : s'.hist = s.hist)
    (habs : ∀ k, absOf s' k = absOf s k) : ∃ A' pt', GInv k s' A' pt' :=
  ginv_nocall g I E hl (call_none_of_idle_q I hl hpc) (call_none_of_idle_q I hl hpc) hthr hnow hhist habs

/-- an idle thread starts a treeify (or the resize: any new pc, the thread still has no call) -/
theorem ginv_maint {k : Nat} {s s' : State} {A : Nat → KSt} {pt : Nat → Nat} {t : Nat} {l : Local} {pc' : Pc}
    (g : GInv k s A pt) (I : Inv s) (E : Eff s s') (hl : s.threads[t]? = some l) (hpc : l.pc = .idle)
    (hthr : s'.threads = s.threads.set t { l with pc := pc' }) (hnow : s'.now = s.now + 1)
    (hhist : s'.hist = s.hist) (habs : ∀ k, absOf s' k = absOf s k) : ∃ A' pt', GInv k s' A' pt' :=
  ginv_nocall (l' := { l with pc := pc' }) g I E hl (call_none_of_idle_q I hl hpc)
    (show l.call = none from call_none_of_idle_q I hl hpc) hthr hnow hhist habs

/-- an idle thread invokes a call -/
theorem ginv_invoke {k : Nat} {s s' : State} {A : Nat → KSt} {pt : Nat → Nat} {t : Nat} {l : Local}
    {k' : Nat} {op : KOp} {lo : Bool}
    (g : GInv k s A pt) (I : Inv s) (E : Eff s s') (hl : s.threads[t]? = some l) (hpc : l.pc = .idle)
    (hthr : s'.threads = s.threads.set t
      { pc := if isReader op then .rTable lo else .wTable, call := some ⟨k', op, s.now + 1⟩ })
    (hnow : s'.now = s.now + 1) (hhist : s'.hist = s.hist)
    (habs : ∀ k, absOf s' k = absOf s k) : ∃ A' pt', GInv k s' A' pt' := by
  refine ⟨_, _, ginv_quiet_none (hnew := []) g I E hl hthr hnow (by rw [hhist]; rfl) (by simp) (habs k)
    (extOf_none_of_pc (by rw [hpc]; rfl))
    (extOf_none_of_pc (by show resOfPc (if isReader op then .rTable lo else .wTable) = none
                          cases isReader op <;> rfl)) ?_⟩
  intro p _ _
  refine Or.inr ?_
  show RdOK _ _ _ _ (if isReader op then .rTable lo else .wTable)
  cases isReader op <;> simp [RdOK]

/-! ## threads with a call in flight: transitions that change no abstract state -/

/-- a thread with a call that neither passes its linearization point nor becomes a reader -/
theorem ginv_silent {k : Nat} {s s' : State} {A : Nat → KSt} {pt : Nat → Nat} {t : Nat} {l l' : Local}
    (g : GInv k s A pt) (I : Inv s) (E : Eff s s') (hl : s.threads[t]? = some l)
    (hcall : l'.call = l.call) (hres : resOfPc l'.pc = resOfPc l.pc) (hnr : readerPc l'.pc = false)
    (hthr : s'.threads = s.threads.set t l') (hnow : s'.now = s.now + 1) (hhist : s'.hist = s.hist)
    (habs : ∀ k, absOf s' k = absOf s k) : ∃ A' pt', GInv k s' A' pt' :=
  ⟨_, _, ginv_quiet_keep g I E hl hthr hnow hhist (habs k) hres hcall
    (fun _ _ _ => Or.inr (RdOK_of_not_reader hnr))⟩

/-- the `tFind` step of a tree-bin writer that changes nothing: the tree of its validated bin shows
the abstract state of its key -/
theorem absTree_of_tFind {s : State} (I : Inv s) {t : Nat} {l : Local} {p : Pending} {tab : Nat} {b : Nat}
    (hl : s.threads[t]? = some l) (hp : l.call = some p) (hpc : l.pc = .tFind tab b) :
    absTree s b p.key = absOf s p.key := by
  obtain ⟨pc, call⟩ := l
  simp only at hp hpc
  subst hp hpc
  have hc : cellAt s (idOf tab p.key) = .tree b := I.lock.vT t _ b hl rfl
  have hmx := (I.lock.mx t _ b hl).1 rfl
  have hw : (binAt s.tbins b).writer = false := (I.lock.bitsSome _ b t _ hc hl hmx).1
  have hco : cellOf s tab p.key = .tree b := by rw [cellOf_eq]; exact hc
  have hlive : cellAt s (liveId s p.key) = .tree b := by
    rw [← liveCell_eq I.rsz, live_cellOf_key I hl (tab := tab) rfl p.key rfl (by rw [hco]; exact fun h => by cases h), hco]
  exact I.absTree_eq_abs hlive hw

theorem ginv_move {k : Nat} {s s' : State} {A : Nat → KSt} {pt : Nat → Nat} {t : Nat} {l : Local}
    {p : Pending} {pc' : Pc} {hp' : List NodeS}
    (g : GInv k s A pt) (I : Inv s) (E : Eff s s') (hl : s.threads[t]? = some l)
    (hpc : l.call = some p) (hm : Move s t p l.pc pc' hp')
    (hthr : s'.threads = s.threads.set t { l with pc := pc' }) (hnow : s'.now = s.now + 1)
    (hhist : s'.hist = s.hist) (habs : ∀ k, absOf s' k = absOf s k) : ∃ A' pt', GInv k s' A' pt' := by
  by_cases hk : p.key = k
  · rcases hm.res_keep with hkeep | ⟨hres0, tab, b, res, rfl, hpcf, hspec⟩
    · refine ⟨_, _, ginv_quiet_keep (l' := { l with pc := pc' }) g I E hl hthr hnow hhist (habs k) hkeep rfl ?_⟩
      intro p1 hp1 _
      have : p1 = p := by
        have h : l.call = some p1 := hp1
        rw [hpc] at h; exact (Option.some.inj h).symm
      subst this
      exact Or.inl ⟨I.thr.pendTime t l p1 hl hpc, hm.rdOK g I hl hpc hk, hm.ref_ok I hl⟩
    · have hga := absTree_of_tFind I hl hpc hpcf
      refine ⟨_, _, ginv_writer_point (l' := { l with pc := .tUnlockM tab b res false }) g I E hl hpc hk hthr hnow hhist
        hres0 rfl rfl (isRead_false_of_pc I hl hpc (by rw [hpcf]; rfl) (by rw [hpcf]; rfl)) ?_ rfl⟩
      rw [habs k, ← hk, ← hga]; exact hspec
  · exact ⟨_, _, ginv_other_key (hnew := []) (l' := { l with pc := pc' }) g I E hl
      (fun p1 hp1 => by rw [hpc] at hp1; cases hp1; exact hk) hthr hnow (by rw [hhist]; rfl) (by simp) (habs k)
      (Or.inl rfl)⟩

theorem ginv_bmove {k : Nat} {s s' : State} {A : Nat → KSt} {pt : Nat → Nat} {t : Nat} {l : Local}
    {p : Pending} {pc' : Pc} {tb : List TBin}
    (g : GInv k s A pt) (I : Inv s) (E : Eff s s') (hl : s.threads[t]? = some l)
    (hpc : l.call = some p) (hm : BMove s t p l.pc pc' tb)
    (hthr : s'.threads = s.threads.set t { l with pc := pc' }) (hnow : s'.now = s.now + 1)
    (hhist : s'.hist = s.hist) (habs : ∀ k, absOf s' k = absOf s k) : ∃ A' pt', GInv k s' A' pt' := by
  obtain ⟨hkeep, href⟩ := hm.tfacts
  by_cases hk : p.key = k
  · refine ⟨_, _, ginv_quiet_keep (l' := { l with pc := pc' }) g I E hl hthr hnow hhist (habs k) hkeep rfl ?_⟩
    intro p1 hp1 _
    have : p1 = p := by
      have h : l.call = some p1 := hp1
      rw [hpc] at h; exact (Option.some.inj h).symm
    subst this
    exact Or.inl ⟨I.thr.pendTime t l p1 hl hpc, hm.rdOK (g.readers t l p1 hl hpc hk),
      fun b hb => ⟨(I.lock.refOK t l b hl (href b hb)).1, fun _ => (I.lock.refOK t l b hl (href b hb)).2⟩⟩
  · exact ⟨_, _, ginv_other_key (hnew := []) (l' := { l with pc := pc' }) g I E hl
      (fun p1 hp1 => by rw [hpc] at hp1; cases hp1; exact hk) hthr hnow (by rw [hhist]; rfl) (by simp) (habs k)
      (Or.inl rfl)⟩

/-! ## calls that complete -/

/-- a writer past its linearization point completes: its call moves from the extended part of the
history to the history proper -/
theorem ginv_retire {k : Nat} {s s' : State} {A : Nat → KSt} {pt : Nat → Nat} {t : Nat} {l : Local}
    {p : Pending} {res : KRes}
    (g : GInv k s A pt) (I : Inv s) (E : Eff s s') (hl : s.threads[t]? = some l)
    (hpc : l.call = some p) (hk : p.key = k) (hres : resOfPc l.pc = some res)
    (hthr : s'.threads = s.threads.set t { pc := .idle, call := none }) (hnow : s'.now = s.now + 1)
    (hhist : s'.hist = (p.key, ⟨t, p.op, res, p.inv, s.now + 1⟩) :: s.hist)
    (habs : absOf s' k = absOf s k) : GInv k s' (nextA A s.now (absOf s' k)) pt := by
  have hext : extOf k s.now t l = some ⟨t, p.op, res, p.inv, s.now⟩ :=
    extOf_eq_some.2 ⟨res, p, hres, hpc, hk, rfl⟩
  have hsim : Sim ⟨t, p.op, res, p.inv, s.now⟩ ⟨t, p.op, res, p.inv, s.now + 1⟩ :=
    ⟨rfl, rfl, rfl, rfl, Nat.le_succ _⟩
  refine ginv_quiet (hnew := [(p.key, ⟨t, p.op, res, p.inv, s.now + 1⟩)])
    (l' := { pc := .idle, call := none }) g I E hl hthr hnow hhist habs ?_ ?_ ?_
  · rintro c' (hc' | hc')
    · simp only [List.mem_singleton, Prod.mk.injEq] at hc'
      rw [hc'.2]
      exact ⟨_, hext, hsim⟩
    · have : extOf k (s.now + 1) t { pc := .idle, call := none } = none := rfl
      rw [this] at hc'; cases hc'
  · intro c hc
    rw [hext] at hc; cases hc
    exact ⟨_, Or.inl (by rw [hk]; exact List.mem_singleton.2 rfl), hsim⟩
  · intro p1 hp1; cases hp1

/-- a call on another key completes -/
theorem ginv_fin_other {k : Nat} {s s' : State} {A : Nat → KSt} {pt : Nat → Nat} {t : Nat} {l : Local}
    {p : Pending} {res : KRes}
    (g : GInv k s A pt) (I : Inv s) (E : Eff s s') (hl : s.threads[t]? = some l)
    (hpc : l.call = some p) (hk : p.key ≠ k)
    (hthr : s'.threads = s.threads.set t { pc := .idle, call := none }) (hnow : s'.now = s.now + 1)
    (hhist : s'.hist = (p.key, ⟨t, p.op, res, p.inv, s.now + 1⟩) :: s.hist)
    (habs : absOf s' k = absOf s k) : GInv k s' (nextA A s.now (absOf s' k)) pt :=
  ginv_other_key (hnew := [(p.key, ⟨t, p.op, res, p.inv, s.now + 1⟩)])
    (l' := { pc := .idle, call := none }) g I E hl
    (fun p1 hp1 => by rw [hpc] at hp1; cases hp1; exact hk) hthr hnow hhist
    (by intro x hx; rw [List.mem_singleton.1 hx]; exact hk) habs (Or.inr rfl)

theorem ginv_fin {k : Nat} {s s' : State} {A : Nat → KSt} {pt : Nat → Nat} {t : Nat} {l : Local}
    {p : Pending} {res : KRes} {hp' : List NodeS}
    (g : GInv k s A pt) (I : Inv s) (E : Eff s s') (hl : s.threads[t]? = some l)
    (hpc : l.call = some p) (hf : Fin s p l.pc res hp')
    (hthr : s'.threads = s.threads.set t { pc := .idle, call := none }) (hnow : s'.now = s.now + 1)
    (hhist : s'.hist = (p.key, ⟨t, p.op, res, p.inv, s.now + 1⟩) :: s.hist)
    (habs : ∀ k, absOf s' k = absOf s k) : ∃ A' pt', GInv k s' A' pt' := by
  by_cases hk : p.key = k
  · rcases hf.kind with ⟨hrp, hres0⟩ | ⟨tab, h, hpcu⟩ | ⟨tab, hpcw, hresn, hce, hni⟩
    · have hrd := isRead_true_of_pc I hl hpc hrp
      obtain ⟨τ0, h1, h2, h3⟩ := fin_point g I hl hpc hk hf hrd
      exact ⟨_, _, ginv_call_fin g I E hl hpc hk hthr hnow hhist hres0 (Or.inl ⟨hrd, habs k, h1, h2, h3⟩)⟩
    · exact ⟨_, _, ginv_retire g I E hl hpc hk (by rw [hpcu]; rfl) hthr hnow hhist (habs k)⟩
    · subst hresn
      have hwr : isRead p.op = false :=
        isRead_false_of_pc I hl hpc (by rw [hpcw]; rfl) (by rw [hpcw]; rfl)
      have habs0 : absOf s k = none := by
        apply absOf_none_of_empty
        have hkey : keyOf l = p.key := by
          unfold keyOf; rw [hpcw, hpc]
        rw [← hk, live_cellOf I hl hpc (tab := tab) (by rw [hpcw]; rfl) hkey (by rw [hce]; exact fun h => by cases h), hce]
      refine ⟨_, _, ginv_call_fin (τ0 := s.now + 1) g I E hl hpc hk hthr hnow hhist (by rw [hpcw]; rfl)
        (Or.inr ⟨hwr, rfl, ?_⟩)⟩
      rw [habs k, habs0]
      cases hop : p.op with
      | get => rw [hop] at hwr; simp [isRead] at hwr
      | has => rw [hop] at hwr; simp [isRead] at hwr
      | ins _ _ => rw [hop] at hni; simp [isInsert] at hni
      | tryIns _ _ => rw [hop] at hni; simp [isInsert] at hni
      | rm => rfl
      | cipInc _ => rfl
      | cipRm => rfl
  · exact ⟨_, _, ginv_fin_other g I E hl hpc hk hthr hnow hhist (habs k)⟩

theorem ginv_bfin {k : Nat} {s s' : State} {A : Nat → KSt} {pt : Nat → Nat} {t : Nat} {l : Local}
    {p : Pending} {res : KRes} {tb : List TBin}
    (g : GInv k s A pt) (I : Inv s) (E : Eff s s') (hl : s.threads[t]? = some l)
    (hpc : l.call = some p) (hf : BFin s p l.pc res tb)
    (hthr : s'.threads = s.threads.set t { pc := .idle, call := none }) (hnow : s'.now = s.now + 1)
    (hhist : s'.hist = (p.key, ⟨t, p.op, res, p.inv, s.now + 1⟩) :: s.hist)
    (habs : ∀ k, absOf s' k = absOf s k) : ∃ A' pt', GInv k s' A' pt' := by
  by_cases hk : p.key = k
  · have hR := g.readers t l p hl hpc hk
    have hO := I.thr.opOK t l p hl hpc
    have hpi := I.thr.pendTime t l p hl hpc
    obtain ⟨pc, call⟩ := l
    simp only at hpc hf hR hO
    subst hpc
    cases hf with
    | @rRelNone b =>
      have hrd : isRead p.op = true := by
        rw [← isReader_eq_isRead, hO rfl]; rfl
      simp only [RdOK] at hR
      obtain ⟨τ, h1, h2, h3⟩ := hR
      exact ⟨_, _, ginv_call_fin g I E hl rfl hk hthr hnow hhist rfl
        (Or.inl ⟨hrd, habs k, h1, h2, by rw [h3]; exact absentRes_spec hrd⟩)⟩
    | @rRelHas b i hop =>
      have hrd : isRead p.op = true := by rw [hop]; rfl
      simp only [RdOK] at hR
      obtain ⟨_, _, τ, h1, h2, h3⟩ := hR
      exact ⟨_, _, ginv_call_fin g I E hl rfl hk hthr hnow hhist rfl
        (Or.inl ⟨hrd, habs k, h1, h2, by rw [h3, hop]; rfl⟩)⟩
    | @tUnlockMFin tab b =>
      exact ⟨_, _, ginv_retire g I E hl rfl hk rfl hthr hnow hhist (habs k)⟩
  · exact ⟨_, _, ginv_fin_other g I E hl hpc hk hthr hnow hhist (habs k)⟩

/-! ## linearization points of writers -/

/-- a writer passes its linearization point and goes on (`store`, `tval`, `prepend`, `unlink`) -/
theorem ginv_point {k : Nat} {s s' : State} {A : Nat → KSt} {pt : Nat → Nat} {t : Nat} {l l' : Local}
    {p : Pending} {res : KRes}
    (g : GInv k s A pt) (I : Inv s) (E : Eff s s') (hl : s.threads[t]? = some l)
    (hp : l.call = some p) (hres0 : resOfPc l.pc = none) (hres' : resOfPc l'.pc = some res)
    (hcall : l'.call = l.call) (hnr' : readerPc l'.pc = false)
    (hnc : noCallPc l.pc = false) (hnr : readerPc l.pc = false)
    (hthr : s'.threads = s.threads.set t l') (hnow : s'.now = s.now + 1) (hhist : s'.hist = s.hist)
    (hspec : specStep (absOf s p.key) p.op = (absOf s' p.key, res))
    (hother : ∀ k, k ≠ p.key → absOf s' k = absOf s k) : ∃ A' pt', GInv k s' A' pt' := by
  by_cases hk : p.key = k
  · refine ⟨_, _, ginv_writer_point g I E hl hp hk hthr hnow hhist hres0 hres' hcall
      (isRead_false_of_pc I hl hp hnc hnr) ?_ hnr'⟩
    rw [← hk]; exact hspec
  · exact ⟨_, _, ginv_other_key (hnew := []) g I E hl
      (fun p1 hp1 => by rw [hp] at hp1; cases hp1; exact hk) hthr hnow (by rw [hhist]; rfl) (by simp)
      (hother k (fun e => hk e.symm)) (Or.inl hcall)⟩

/-- a writer completes at its linearization point (the CAS into an empty cell) -/
theorem ginv_cas {k : Nat} {s s' : State} {A : Nat → KSt} {pt : Nat → Nat} {t : Nat} {l : Local}
    {p : Pending} {res : KRes}
    (g : GInv k s A pt) (I : Inv s) (E : Eff s s') (hl : s.threads[t]? = some l)
    (hp : l.call = some p) (hres0 : resOfPc l.pc = none)
    (hnc : noCallPc l.pc = false) (hnr : readerPc l.pc = false)
    (hthr : s'.threads = s.threads.set t { pc := .idle, call := none }) (hnow : s'.now = s.now + 1)
    (hhist : s'.hist = (p.key, ⟨t, p.op, res, p.inv, s.now + 1⟩) :: s.hist)
    (hspec : specStep (absOf s p.key) p.op = (absOf s' p.key, res))
    (hother : ∀ k, k ≠ p.key → absOf s' k = absOf s k) : ∃ A' pt', GInv k s' A' pt' := by
  by_cases hk : p.key = k
  · refine ⟨_, _, ginv_call_fin (τ0 := s.now + 1) g I E hl hp hk hthr hnow hhist hres0
      (Or.inr ⟨isRead_false_of_pc I hl hp hnc hnr, rfl, ?_⟩)⟩
    rw [← hk]; exact hspec
  · exact ⟨_, _, ginv_fin_other g I E hl hp hk hthr hnow hhist (hother k (fun e => hk e.symm))⟩

end Flurry.Proto.BinGNP
