import Flurry.Proto.BinNH
import Flurry.Lemmas.BinNExamples
/-! # Proto/BinNH: the helper model exercised by execution, and kernel-checked runs

* `explore`: a seeded random scheduler over `step` / `stepG false`: calls on a few keys, resizes started
  whenever none is running, idle threads JOIN a running resize, resizing threads pick cells at random (also
  cells another helper is working on), leave at random; optionally thread 1 is a *sleepy helper*
  (`mode = 1`: frozen between "store high" and "store marker", holding the bin lock, while the others go on;
  `mode = 2`: frozen in front of a cell — `cell`/`casMoved`/`lock` — until the resize of its generation has
  committed; `mode = 3`: … and until the NEXT generation's resize has started). Then a drain to quiescence;
  every quiescent per-key history is decided by the complete procedure `Lin.search` against `absOf`.
* kernel-checked runs (`decide`) at the end of the file, incl. the refutation of the variant in which the
  helper skips its re-check. -/
namespace Flurry.Proto.BinNH
open Flurry.Lin
open Flurry.Proto.BinX (NodeS Cell Pending isReader dflt chainFrom cellHead cellOfHead)
open Flurry.Proto.BinN (Cov Cov.bump rngNext rngPick mkOp)

structure Act where
  t : Nat
  inv : Option (Nat × KOp) := none
  rz : Bool := false
  leave : Bool := false
  pick : Nat := 0
deriving Repr, DecidableEq

abbrev Sched := List Act
abbrev StepFn := State → Nat → Option (Nat × KOp) → Bool → Bool → Nat → Option State

def act (f : StepFn) (s : State) (a : Act) : Option State := f s a.t a.inv a.rz a.leave a.pick

def run (f : StepFn) : State → Sched → Option State
  | s, [] => some s
  | s, a :: rest =>
    match act f s a with
    | none => none
    | some s' => run f s' rest

def quiescentB (s : State) : Bool := BinN.quiescentB s.n && s.hs.all (· == none)
def linB (s : State) (k : Nat) : Bool := BinN.linB s.n k

/-! ## the explorer (`#eval` only) -/

def hTag : HPc → String
  | .next => "next" | .cell _ => "cell" | .casMoved _ => "casMoved" | .lock _ _ => "lock" | .check _ _ => "check"
  | .build _ _ => "build" | .storeLow _ _ _ _ => "storeLow" | .storeHigh _ _ _ => "storeHigh"
  | .storeMoved _ _ => "storeMoved" | .unlock _ _ => "unlock" | .commit => "commit"

def hIdx : HPc → Option Nat
  | .cell j | .casMoved j | .lock j _ | .check j _ | .build j _ | .storeLow j _ _ _ | .storeHigh j _ _
  | .storeMoved j _ | .unlock j _ => some j
  | _ => none

def helperOf (s : State) (t : Nat) : Option Helper := (s.hs.getD t none)

/-- coverage events of one executed step `s —a→ s'` -/
def events (s s' : State) (a : Act) (c : Cov) : Cov := Id.run do
  let mut c := c
  match helperOf s a.t with
  | none =>
    let l := s.n.threads.getD a.t {}
    let l' := s'.n.threads.getD a.t {}
    if l.pc == .idle then
      if a.rz then c := c.bump (if s.n.resizing then "join" else "start")
    else
      c := c.bump ("pc:" ++ BinN.pcTag l'.pc)
      match BinN.genOf l.pc with
      | some g =>
        if g + 2 ≤ s.n.cur then c := c.bump "rw:stale>=2"
        else if g + 1 ≤ s.n.cur then c := c.bump "rw:stale=1"
        else if g == s.n.cur + 1 then c := c.bump "rw:inNext"
      | none => pure ()
      match l.pc, l'.pc with
      | .wCheck _ _, .wUnlock _ _ _ true => c := c.bump "rw:recheckFailed"
      | _, _ => pure ()
  | some hp =>
    c := c.bump ("h:" ++ hTag hp.pc)
    if hp.g < s.n.cur then
      c := c.bump ("staleHelper:" ++ hTag hp.pc)
      if s.n.resizing then c := c.bump ("staleHelperWhileNextGenerationResizes:" ++ hTag hp.pc)
      if hp.g + 2 ≤ s.n.cur then c := c.bump ("staleHelperBy2:" ++ hTag hp.pc)
    -- the other helpers
    for t' in [0:s.hs.length] do
      if t' != a.t then
        match helperOf s t' with
        | some hp' =>
          if hp'.g == hp.g then
            match hIdx hp.pc, hIdx hp'.pc with
            | some j, some j' =>
              if j == j' then c := c.bump "twoHelpersOnTheSameCell" else c := c.bump "twoHelpersOnDifferentCells"
              match hp'.pc with
              | .storeMoved _ _ =>
                if j != j' then c := c.bump ("progressWhileOtherSuspendedBetweenHighAndMarker:" ++ hTag hp.pc)
              | _ => pure ()
            | _, _ => pure ()
        | none => pure ()
    match hp.pc, helperOf s' a.t with
    | .check j _, some ⟨_, .cell _⟩ =>
      c := c.bump (if BinN.cellAt s.n hp.g j == .moved then "helperRecheckFoundMarker" else "helperRecheckFoundOtherHead")
    | .casMoved _, some ⟨_, .cell _⟩ => c := c.bump "helperCasFailed"
    | .casMoved _, some ⟨_, .next⟩ => c := c.bump "helperCasForwarded"
    | .storeMoved _ _, _ => c := c.bump "helperStoredMarker"
    | .commit, _ => c := c.bump (if s'.n.cur > s.n.cur then s!"commit->{s'.n.cur}" else "commitTooLate")
    | .next, none => c := c.bump (if a.leave && hp.g == s.n.cur && s.n.resizing then "leave" else "staleHelperBecomesIdle")
    | .build _ _, some ⟨_, .storeLow _ _ lo hg⟩ =>
      c := c.bump ("split:" ++ (if lo.isSome then "L" else "-") ++ (if hg.isSome then "H" else "-"))
    | _, _ => pure ()
  return c

structure Cfg where
  nthreads : Nat := 4
  keys : List Nat := [0, 1, 2, 3]
  steps : Nat := 260
  calls : Nat := 12
  /-- resizes started at most -/
  resizes : Nat := 3
  pResize : Nat := 8
  pJoin : Nat := 25
  pCall : Nat := 60
  pLeave : Nat := 10
  noCheck : Bool := false
  /-- the sleepy helper (thread 1): see the header -/
  mode : Nat := 0

structure Out where
  cov : Cov
  bad : Option (Sched × Nat)
  runs : Nat
  quiescentRuns : Nat
  maxHist : Nat
  maxGen : Nat

/-- is the sleepy helper (thread 1) frozen? `fz`: how often it has been passed over in `mode = 1` -/
def frozen (cfg : Cfg) (s : State) (t : Nat) (fz : Nat) : Bool :=
  t == 1 &&
  match helperOf s 1 with
  | none => false
  | some hp =>
    match cfg.mode with
    | 1 => (match hp.pc with | .storeMoved _ _ => fz < 10 | _ => false)
    | 2 => (match hp.pc with | .cell _ | .casMoved _ | .lock _ _ => s.n.cur ≤ hp.g | _ => false)
    | 3 => (match hp.pc with
            | .cell _ | .casMoved _ | .lock _ _ => s.n.cur ≤ hp.g || (s.n.cur == hp.g + 1 && !s.n.resizing)
            | _ => false)
    | _ => false

def oneRun (cfg : Cfg) (seed : Nat) (cov : Cov) : Sched × State × Cov := Id.run do
  let f : StepFn := if cfg.noCheck then stepG false else step
  let mut s := init cfg.nthreads
  let mut rng := seed
  let mut sc : Array Act := #[]
  let mut cov := cov
  let mut calls := 0
  let mut rzs := 0
  let mut fz := 0
  for _ in [0:cfg.steps] do
    rng := rngNext rng
    let t := rngPick rng cfg.nthreads
    rng := rngNext rng
    if frozen cfg s t fz then
      fz := fz + 1
      continue
    let l := s.n.threads.getD t {}
    let mut a : Act := { t := t }
    match helperOf s t with
    | some hp =>
      let r := rngPick rng 100
      rng := rngNext rng
      a := { t := t, pick := rngPick rng 64, leave := (hp.pc == .next && r < cfg.pLeave) }
      match hp.pc with | .unlock _ _ => fz := 0 | _ => pure ()
    | none =>
      if l.pc == .idle then
        let r := rngPick rng 100
        rng := rngNext rng
        -- the sleepy helper is eager to help
        let pj := if cfg.mode > 0 && t == 1 then 60 else cfg.pJoin
        if s.n.resizing && r < pj then a := { t := t, rz := true }
        else if !s.n.resizing && r < cfg.pResize && rzs < cfg.resizes then
          a := { t := t, rz := true }
          rzs := rzs + 1
        else if r < cfg.pResize + cfg.pCall && calls < cfg.calls then
          let k := cfg.keys.getD (rngPick rng cfg.keys.length) 0
          rng := rngNext rng
          let op := mkOp (rngPick rng 12) (100 + calls)
          a := { t := t, inv := some (k, op) }
          calls := calls + 1
        else continue
      else pure ()
    match act f s a with
    | none =>
      cov := cov.bump (match helperOf s t with | some hp => "blocked:h." ++ hTag hp.pc | none => "blocked:" ++ BinN.pcTag l.pc)
    | some s' =>
      cov := events s s' a cov
      sc := sc.push a
      s := s'
  -- drain: everybody runs on (helpers do not leave: the resize has to be completed by somebody); the
  -- sleepy helper is only woken when the others cannot go on without it
  let mut stuck := false
  for _ in [0:900] do
    if quiescentB s then break
    let mut progress := false
    for t' in [0:cfg.nthreads] do
      let t := cfg.nthreads - 1 - t'
      let l := s.n.threads.getD t {}
      if l.pc != .idle || (helperOf s t).isSome then
        if frozen cfg s t 0 && !stuck then continue
        rng := rngNext rng
        let a : Act := { t := t, pick := rngPick rng 64 }
        match act f s a with
        | none =>
          cov := cov.bump (match helperOf s t with | some hp => "blocked:h." ++ hTag hp.pc | none => "blocked:" ++ BinN.pcTag l.pc)
        | some s' =>
          cov := events s s' a cov
          sc := sc.push a
          s := s'
          progress := true
    stuck := !progress
  return (sc.toList, s, cov)

def explore (cfg : Cfg) (seed0 nruns : Nat) : Out := Id.run do
  let mut cov : Cov := []
  let mut bad : Option (Sched × Nat) := none
  let mut q := 0
  let mut mh := 0
  let mut mg := 0
  for i in [0:nruns] do
    let (sc, s, cov') := oneRun cfg (rngNext (seed0 + 7919 * i)) cov
    cov := cov'
    if s.n.cur > mg then mg := s.n.cur
    cov := cov.bump s!"final:cur={s.n.cur}"
    if quiescentB s then
      q := q + 1
      for k in cfg.keys do
        let h := callsOn s k
        if h.length > mh then mh := h.length
        if !linB s k && bad.isNone then bad := some (sc, k)
    else cov := cov.bump "notDrained"
  return { cov := cov, bad := bad, runs := nruns, quiescentRuns := q, maxHist := mh, maxGen := mg }

def Out.report (o : Out) : String :=
  let lines := (o.cov.toArray.qsort (fun a b => a.1 < b.1)).toList.map fun (k, n) => s!"  {k}: {n}"
  s!"runs {o.runs}, drained to quiescence {o.quiescentRuns}, longest per-key history {o.maxHist}, max generation {o.maxGen}, " ++
  (match o.bad with | none => "ALL LINEARIZABLE" | some (sc, k) => s!"NOT LINEARIZABLE on key {k}: {repr sc}") ++
  "\n" ++ "\n".intercalate lines

/-! ## kernel-checked runs

Four threads: thread 0 performs the calls, threads 2 and 3 resize. `setup` builds the list
`[a: key 1, b: key 2, c: key 3]` in cell `(0,0)` (as in `Lemmas/BinNExamples.lean`).

* `schedH` — **two helpers, different cells and the same cell, a helper suspended between "store high" and
  "store marker"**: thread 2 resizes `0 → 1` alone; then thread 2 starts `1 → 2` and thread 3 JOINS. Thread 2
  takes cell `(1,1)` up to `storeMoved` (low and high stored, marker not yet, bin lock held) and is suspended;
  thread 3 transfers cell `(1,0)` completely, then turns to `(1,1)` too: it loads the old head and is about
  to lock it; a `get(1)` runs meanwhile (it still reads the old list). Thread 2 stores the marker and unlocks;
  thread 3 gets the lock, **finds the marker at its re-check**, unlocks and moves on. Both see "all
  forwarded" and go to `commit`; thread 3 commits, thread 2 is too late and becomes idle.
* `schedS 5` — **a helper that resumes after the commit of its generation and after the NEXT resize has
  started**: thread 3 joins the resize of generation 0, loads the head `a` of `(0,0)` and sleeps; thread 2
  transfers the cell and commits (`cur = 1`); `insert(1) = 8` updates the copy `a'` in `(1,1)`; thread 2
  starts the resize `1 → 2`; thread 3 wakes up: locks the dead `a`, its re-check sees `(0,0) = moved`, unlocks,
  reloads (`moved`), and at `next` finds `g = 0 ≠ cur`: idle. It touched no cell.
* `schedSNoCheck` — the same helper WITHOUT the re-check (`stepG false`): it splits the dead list and
  overwrites `(1,0)` and `(1,1)` — cells of the new CURRENT generation — with copies of the dead nodes; the
  completed `insert(1) = 8` is lost: a later `get(1)` returns 5. Not linearizable (`noCheck_refutes`). -/

/-- reachability in the variant without the re-checks -/
inductive ReachableNoCheck (nthreads : Nat) : State → Prop
  | init : ReachableNoCheck nthreads (init nthreads)
  | step {s s' : State} (t : Nat) (inv : Option (Nat × KOp)) (rz leave : Bool) (pick : Nat) :
      ReachableNoCheck nthreads s → stepG false s t inv rz leave pick = some s' → ReachableNoCheck nthreads s'

theorem run_reachable {n : Nat} : ∀ (sc : Sched) {s s' : State}, Reachable n s → run step s sc = some s' →
    Reachable n s'
  | [], s, s', hr, h => by simp only [run, Option.some.injEq] at h; exact h ▸ hr
  | a :: rest, s, s', hr, h => by
    simp only [run] at h
    cases hs : act step s a with
    | none => rw [hs] at h; cases h
    | some s1 => rw [hs] at h; exact run_reachable rest (.step a.t a.inv a.rz a.leave a.pick hr hs) h

theorem run_reachableNoCheck {n : Nat} : ∀ (sc : Sched) {s s' : State}, ReachableNoCheck n s →
    run (stepG false) s sc = some s' → ReachableNoCheck n s'
  | [], s, s', hr, h => by simp only [run, Option.some.injEq] at h; exact h ▸ hr
  | a :: rest, s, s', hr, h => by
    simp only [run] at h
    cases hs : act (stepG false) s a with
    | none => rw [hs] at h; cases h
    | some s1 => rw [hs] at h; exact run_reachableNoCheck rest (.step a.t a.inv a.rz a.leave a.pick hr hs) h

/-- quiescent in generation `cur`?, and per key `0 … 3`: the abstract state and whether the exhaustive
search finds a linearization of the key's history ending in it -/
def verdict (f : StepFn) (n cur : Nat) (sc : Sched) : Option (Bool × List (KSt × Bool)) :=
  (run f (init n) sc).map fun s => (quiescentB s && s.n.cur == cur, (List.range 4).map fun k => (absOf s k, linB s k))

theorem quiescent_of_quiescentB {s : State} (h : quiescentB s = true) : quiescent s := by
  unfold quiescentB at h
  simp only [Bool.and_eq_true] at h
  refine ⟨BinN.quiescent_of_quiescentB h.1, ?_⟩
  intro x hx
  have := List.all_eq_true.1 h.2 x hx
  simpa using this

def rep (t n : Nat) : Sched := List.replicate n { t := t }
def call (t k : Nat) (op : KOp) : Sched := [{ t := t, inv := some (k, op) }]
def rz (t : Nat) : Sched := [{ t := t, rz := true }]
def pick (t j : Nat) : Sched := [{ t := t, pick := j }]
/-- helper `t` transfers the non-empty cell `j` (9 steps from `next` back to `next`) -/
def xfer (t j : Nat) : Sched := pick t j ++ rep t 8
/-- `next` (all forwarded), `commit` -/
def commit (t : Nat) : Sched := rep t 2

def setup : Sched :=
  call 0 1 (.ins 5 100) ++ rep 0 3 ++ call 0 2 (.ins 6 101) ++ rep 0 8 ++ call 0 3 (.ins 7 102) ++ rep 0 9

def schedH : Sched :=
  setup ++ rz 2 ++ xfer 2 0 ++ commit 2 ++          -- generation 0 → 1 by thread 2 alone
  rz 2 ++ rz 3 ++                                    -- thread 2 starts 1 → 2, thread 3 joins
  pick 2 1 ++ rep 2 6 ++                             -- 2: cell (1,1) up to `storeMoved` (holds the lock of a')
  xfer 3 0 ++                                        -- 3 transfers cell (1,0) meanwhile
  pick 3 1 ++ rep 3 1 ++                             -- 3 turns to (1,1): loads `node a'` → at `lock`
  call 0 1 .get ++ rep 0 4 ++                        -- a get(1) while the marker is not yet stored
  rep 2 2 ++                                         -- 2: store marker, unlock
  rep 3 4 ++                                         -- 3: lock a', re-check finds the marker, unlock, reload: moved → next
  rep 3 1 ++ rep 2 1 ++                              -- both: next → commit (all forwarded)
  rep 3 1 ++ rep 2 1 ++                              -- 3 commits; 2 is too late → idle
  call 0 1 (.ins 9 104) ++ rep 0 8 ++ call 0 1 .get ++ rep 0 4

def schedS (k : Nat) : Sched :=
  setup ++ rz 2 ++ rz 3 ++
  pick 3 0 ++ rep 3 1 ++                             -- 3: cell (0,0) = node a → at `lock 0 a`
  xfer 2 0 ++ commit 2 ++                            -- 2 transfers and commits: cur = 1
  call 0 1 (.ins 8 103) ++ rep 0 7 ++                -- insert(1) = 8 in generation 1
  rz 2 ++                                            -- the next resize (1 → 2) starts
  rep 3 k ++                                         -- 3 resumes: lock, re-check fails, unlock, reload, next → idle
  xfer 2 0 ++ xfer 2 1 ++ commit 2 ++
  call 0 1 .get ++ rep 0 4

def schedSNoCheck : Sched :=
  setup ++ rz 2 ++ rz 3 ++
  pick 3 0 ++ rep 3 1 ++
  xfer 2 0 ++ commit 2 ++
  call 0 1 (.ins 8 103) ++ rep 0 7 ++
  rep 3 9 ++                                         -- lock, (no check), build, low, high, marker, unlock, next → idle
  call 0 1 .get ++ rep 0 4

theorem verdict_H : verdict step 4 2 schedH =
    some (true, [(none, true), (some (9, 104), true), (some (6, 101), true), (some (7, 102), true)]) := by
  decide

theorem verdict_S : verdict step 4 2 (schedS 5) =
    some (true, [(none, true), (some (8, 103), true), (some (6, 101), true), (some (7, 102), true)]) := by
  decide

theorem verdict_S_noCheck : verdict (stepG false) 4 1 schedSNoCheck =
    some (true, [(none, true), (some (5, 100), false), (some (6, 101), true), (some (7, 102), true)]) := by
  decide

/-- the second helper on cell `(1,1)` holds the lock and is at `check` in front of the marker; its next step
is the failed re-check: it unlocks and reloads the cell -/
theorem second_helper_finds_marker :
    (run step (init 4) (schedH.take 63)).map (fun s => (s.hs, BinN.cellAt s.n 1 1)) =
      some ([none, none, some ⟨1, .next⟩, some ⟨1, .check 1 3⟩], .moved) ∧
    (run step (init 4) (schedH.take 64)).map (fun s => s.hs) =
      some [none, none, some ⟨1, .next⟩, some ⟨1, .cell 1⟩] := by
  decide

/-- the stale helper touches no cell: the tables when it resumes (generation 1 is current and is being
resized) and after it has become idle -/
theorem stale_helper_touches_nothing :
    (run step (init 4) ((schedS 5).take 47)).map (fun s => (s.n.tabs, s.hs)) =
      some ([[.moved], [.node 4, .node 3], [.empty, .empty, .empty, .empty]],
            [none, none, some ⟨1, .next⟩, some ⟨0, .lock 0 0⟩]) ∧
    (run step (init 4) ((schedS 5).take 47)).map (fun s => (s.n.cur, s.n.resizing)) = some (1, true) ∧
    (run step (init 4) ((schedS 5).take 52)).map (fun s => (s.n.tabs, s.hs)) =
      some ([[.moved], [.node 4, .node 3], [.empty, .empty, .empty, .empty]],
            [none, none, some ⟨1, .next⟩, none]) := by
  decide
theorem of_verdict {f : StepFn} {n cur : Nat} {sc : Sched} {r : List (KSt × Bool)}
    (h : verdict f n cur sc = some (true, r)) :
    ∃ s, run f (init n) sc = some s ∧ quiescent s ∧ s.n.cur = cur ∧
      (List.range 4).map (fun k => (absOf s k, linB s k)) = r := by
  unfold verdict at h
  cases hr : run f (init n) sc with
  | none => rw [hr] at h; cases h
  | some s =>
    rw [hr] at h
    simp only [Option.map_some, Option.some.injEq, Prod.mk.injEq] at h
    have h1 := h.1
    simp only [Bool.and_eq_true, beq_iff_eq] at h1
    exact ⟨s, rfl, quiescent_of_quiescentB h1.1, h1.2, h.2⟩

theorem lin_of_linB {s : State} {k : Nat} (h : linB s k = true) :
    Lin.Linearizable (callsOn s k) none (absOf s k) := BinN.lin_of_linB h

theorem not_lin_of_linB {s : State} {k : Nat} (h : linB s k = false) :
    ¬ Lin.Linearizable (callsOn s k) none (absOf s k) := BinN.not_lin_of_linB h

/-- **the helper's re-check is load-bearing**: without it, a reachable quiescent state whose history of
key 1 is not linearizable (a helper that is stale by a generation overwrites cells of the new current
generation with copies of dead nodes; a completed insert is lost) -/
theorem noCheck_not_linearizable :
    ∃ s, ReachableNoCheck 4 s ∧ quiescent s ∧ s.n.cur = 1 ∧
      ¬ Lin.Linearizable (callsOn s 1) none (absOf s 1) := by
  obtain ⟨s, hr, hq, hc, hv⟩ := of_verdict verdict_S_noCheck
  refine ⟨s, run_reachableNoCheck _ .init hr, hq, hc, not_lin_of_linB ?_⟩
  have h1 : (((List.range 4).map (fun k => (absOf s k, linB s k)))[1]?).map (·.2) = some false := by
    rw [hv]; rfl
  simpa using h1

theorem noCheck_refutes :
    ¬ ∀ (n : Nat) (s : State), ReachableNoCheck n s → quiescent s → ∀ k,
      Lin.Linearizable (callsOn s k) none (absOf s k) := by
  intro hall
  obtain ⟨s, hr, hq, -, hn⟩ := noCheck_not_linearizable
  exact hn (hall 4 s hr hq 1)

theorem lin_of_verdict {sc : Sched} {cur : Nat} {r : List (KSt × Bool)} (h : verdict step 4 cur sc = some (true, r))
    (hr : r.map (·.2) = [true, true, true, true]) :
    ∃ s, run step (init 4) sc = some s ∧ Reachable 4 s ∧ quiescent s ∧ s.n.cur = cur ∧
      ∀ k < 4, Lin.Linearizable (callsOn s k) none (absOf s k) := by
  obtain ⟨s, hrun, hq, hc, hv⟩ := of_verdict h
  refine ⟨s, hrun, run_reachable _ .init hrun, hq, hc, ?_⟩
  intro k hk
  apply lin_of_linB
  have h1 : ∀ k < 4, (((List.range 4).map (fun k => (absOf s k, linB s k))).map (·.2))[k]? = some true := by
    rw [hv, hr]; decide
  have := h1 k hk
  simpa [hk] using this

/-- two helpers on the same and on different cells, one suspended between "store high" and "store marker":
reachable, quiescent in generation 2, all histories linearizable (complete decision procedure, kernel-checked) -/
theorem two_helpers_linearizable :
    ∃ s, run step (init 4) schedH = some s ∧ Reachable 4 s ∧ quiescent s ∧ s.n.cur = 2 ∧
      ∀ k < 4, Lin.Linearizable (callsOn s k) none (absOf s k) := lin_of_verdict verdict_H rfl

/-- a helper that resumes after the commit of its generation and after the next resize has started -/
theorem stale_helper_linearizable :
    ∃ s, run step (init 4) (schedS 5) = some s ∧ Reachable 4 s ∧ quiescent s ∧ s.n.cur = 2 ∧
      ∀ k < 4, Lin.Linearizable (callsOn s k) none (absOf s k) := lin_of_verdict verdict_S rfl

/-- a small sample at build time (larger runs: see the report) -/
def sample : Out := explore { mode := 1, steps := 250 } 11 150

#eval IO.println (s!"{sample.runs} runs, {sample.quiescentRuns} quiescent, max generation {sample.maxGen}, " ++
  s!"not linearizable: {sample.bad.isSome}, coverage entries: {sample.cov.length}")

end Flurry.Proto.BinNH
