import Flurry.Lemmas.BinGNPBase
/-! # Proto/BinGN (port): the cell of a key in the next generation -/
namespace Flurry.Proto.BinGNP
open Flurry.Lin

theorem pow_pos' (g : Nat) : 0 < 2 ^ g := Nat.pos_of_ne_zero (by simp)

/-- the cell index of `k` in generation `g + 1`: the low child if bit `g` is clear, else the high child -/
theorem mod_succ_eq (k g : Nat) : k % 2 ^ (g + 1) = k % 2 ^ g + (if bitAt g k then 2 ^ g else 0) := by
  have h1 : k % 2 ^ (g + 1) = k % 2 ^ g + 2 ^ g * (k / 2 ^ g % 2) := by
    rw [Nat.pow_succ]; exact Nat.mod_mul
  have h2 : k / 2 ^ g % 2 = 0 ∨ k / 2 ^ g % 2 = 1 := by omega
  unfold Flurry.Proto.BinGN.bitAt
  rcases h2 with e | e
  · rw [h1, e]; simp
  · rw [h1, e]; simp

theorem mod_succ_low {k g : Nat} (h : bitAt g k = false) : k % 2 ^ (g + 1) = k % 2 ^ g := by
  rw [mod_succ_eq, h]; simp

theorem mod_succ_high {k g : Nat} (h : bitAt g k = true) : k % 2 ^ (g + 1) = k % 2 ^ g + 2 ^ g := by
  rw [mod_succ_eq, h]; simp

/-- the parent of the cell of `k` in generation `g + 1` is the cell of `k` in generation `g` -/
theorem mod_succ_mod (k g : Nat) : (k % 2 ^ (g + 1)) % 2 ^ g = k % 2 ^ g :=
  Nat.mod_mod_of_dvd k ⟨2, by rw [Nat.pow_succ]⟩

theorem high_mod {j g : Nat} (hj : j < 2 ^ g) : (j + 2 ^ g) % 2 ^ g = j := by
  rw [Nat.add_mod_right, Nat.mod_eq_of_lt hj]

/-- a key of the parent cell `(g, j)` belongs to the child `(g+1, j)` or `(g+1, j + 2^g)` according to bit `g` -/
theorem idOf_succ_of_parent {k g j : Nat} (h : k % 2 ^ g = j) :
    idOf (g + 1) k = if bitAt g k then (g + 1, j + 2 ^ g) else (g + 1, j) := by
  unfold idOf
  cases hb : bitAt g k with
  | false => rw [mod_succ_low hb, h]; simp
  | true => rw [mod_succ_high hb, h]; simp

/-- a key with `k % 2^(g+1) = j'` has parent index `j' % 2^g`; it is the low child iff bit `g` is clear -/
theorem bit_of_child {k g j : Nat} (hj : j < 2 ^ g) :
    (k % 2 ^ (g + 1) = j ↔ k % 2 ^ g = j ∧ bitAt g k = false) ∧
    (k % 2 ^ (g + 1) = j + 2 ^ g ↔ k % 2 ^ g = j ∧ bitAt g k = true) := by
  have hlt : k % 2 ^ g < 2 ^ g := Nat.mod_lt _ (pow_pos' g)
  rw [mod_succ_eq]
  cases hb : bitAt g k <;> simp <;> omega

end Flurry.Proto.BinGNP
