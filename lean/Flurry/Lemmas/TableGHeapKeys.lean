import Flurry.Lemmas.BinGHeapKeys
import Flurry.Lemmas.TableGQuiescent
/-! # Proto/TableG: every node of lineage `i` holds a key of lineage `i` — in EVERY reachable state

The invariant `KeysIn` of `Lemmas/TableG.lean` (the keys of the calls of lineage `i` are keys of lineage
`i`) extended from calls to heap nodes (`BinG.HeapKeysIn`, `Lemmas/BinGHeapKeys.lean`), by induction over
`TableG.Reachable`: a tick changes no node, a step of lineage `i` creates nodes only with the key of its
call or as copies of nodes of the lineage. Consequences without any quiescence hypothesis: every key on
a live list of lineage `i` is a key of lineage `i`, and no key occurs twice across the lineages. -/
namespace Flurry.Proto.TableG
open Flurry.Lin Flurry.LinMap
open Flurry.Proto.BinK (nodeAt)

theorem tick_heapKeysIn {Q : Nat → Prop} {b : BinG.State} (K : BinG.HeapKeysIn Q b) : BinG.HeapKeysIn Q (tick b) := K

/-- every node of every lineage holds a key of that lineage -/
def NodeKeys (m : Nat) (S : State) : Prop :=
  ∀ (j : Nat) (b : BinG.State), S.bins[j]? = some b → BinG.HeapKeysIn (fun k => lineageOf m k = j) b

theorem init_nodeKeys (m n : Nat) : NodeKeys m (init m n) := by
  intro j b h
  have hm : b ∈ List.replicate m (BinG.init n) := List.mem_iff_getElem?.mpr ⟨j, h⟩
  rw [(List.mem_replicate.1 hm).2]
  exact BinG.init_heapKeysIn _ n

theorem step_nodeKeys {m n : Nat} {S S' : State} {i t : Nat} {inv : Option (Nat × KOp)} {lo : Bool}
    {mt : Option Nat} {rz sm sm2 : Bool}
    (I : TblInv m n S) (N : NodeKeys m S) (hs : step S i t inv lo mt rz sm sm2 = some S') : NodeKeys m S' := by
  obtain ⟨b, b', hb, hidle, _, _, hb', rfl⟩ := step_eq_some hs
  have hget := step_bins hb hidle (b' := b')
  intro j c hc
  rcases hget j c hc with ⟨rfl, rfl⟩ | ⟨_, b0, hj, rfl, _⟩
  · exact BinG.step_heapKeysIn (BinG.reachable_inv (I.reach j b hb)) (I.keys j b hb) (N j b hb) hb'
  · exact tick_heapKeysIn (N j b0 hj)

theorem reachable_nodeKeys {m n : Nat} {S : State} (hr : Reachable m n S) : NodeKeys m S := by
  induction hr with
  | init => exact init_nodeKeys m n
  | step i t inv lo mt rz sm sm2 hr hs ih => exact step_nodeKeys (reachable_tblInv hr) ih hs

/-- **every node of lineage `i` holds a key of lineage `i`**, at all times -/
theorem node_key_in_own_lineage {m n : Nat} {S : State} (hr : Reachable m n S) {i : Nat} {b : BinG.State}
    (hb : S.bins[i]? = some b) {j : Nat} (hj : j < b.heap.length) : lineageOf m (nodeAt b.heap j).key = i :=
  reachable_nodeKeys hr i b hb j hj

/-- every key on a live list of lineage `i` is a key of lineage `i` — no quiescence needed -/
theorem stored_key_in_own_lineage_always {m n : Nat} {S : State} (hr : Reachable m n S)
    {i : Nat} {b : BinG.State} (hb : S.bins[i]? = some b) {k : Nat} {v : Nat × Nat}
    (he : (k, v) ∈ BinG.entries b) : lineageOf m k = i := by
  have H := (BinG.reachable_inv ((reachable_tblInv hr).reach i b hb)).heap
  unfold BinG.entries at he
  obtain ⟨c, hc, hkv⟩ := List.mem_flatMap.1 he
  obtain ⟨id, hid⟩ := BinG.liveCells_sub hc
  obtain ⟨x, hx, hk, -⟩ := BinG.mem_entriesOfCell.1 hkv
  rw [← hk]
  exact node_key_in_own_lineage hr hb (BinG.HeapKeys.chain_lt_of_cell H hid.symm x hx)

/-- no key occurs twice on the live lists of the whole table — no quiescence needed -/
theorem entries_keys_nodup_always {m n : Nat} {S : State} (hr : Reachable m n S) :
    ((entries S).map (·.1)).Nodup := by
  have I := reachable_tblInv hr
  unfold entries
  rw [List.map_flatMap]
  unfold List.Nodup
  rw [List.pairwise_flatMap]
  constructor
  · intro b hb
    obtain ⟨i, hi⟩ := List.mem_iff_getElem?.1 hb
    exact BinG.entries_keys_nodup (BinG.reachable_inv (I.reach i b hi)).heap
  · rw [List.pairwise_iff_getElem]
    intro i j hi hj hij x hx y hy hxy
    obtain ⟨⟨k, v⟩, hkv, rfl⟩ := List.mem_map.1 hx
    obtain ⟨⟨k', v'⟩, hkv', rfl⟩ := List.mem_map.1 hy
    simp only at hxy
    subst hxy
    have h1 := stored_key_in_own_lineage_always hr (List.getElem?_eq_getElem hi) hkv
    have h2 := stored_key_in_own_lineage_always hr (List.getElem?_eq_getElem hj) hkv'
    omega

/-- the entries on the live lists of the whole table are exactly the abstract map — no quiescence needed -/
theorem mem_entries_iff_absMap_always {m n : Nat} {S : State} (hr : Reachable m n S) (hm : 0 < m)
    (k : Nat) (v : Nat × Nat) : (k, v) ∈ entries S ↔ absMap S k = some v := by
  have I := reachable_tblInv hr
  obtain ⟨b, hb, hd⟩ := bin_of_key hm I k
  have hH := (BinG.reachable_inv (I.reach _ b hb)).heap
  unfold absMap entries
  rw [hd, ← BinG.mem_entries_iff_absOf hH, List.mem_flatMap]
  constructor
  · rintro ⟨b', hb', he⟩
    obtain ⟨i, hi⟩ := List.mem_iff_getElem?.1 hb'
    have := stored_key_in_own_lineage_always hr hi he
    rw [← this, hb] at hi
    cases hi
    exact he
  · intro he
    exact ⟨b, List.mem_of_getElem? hb, he⟩

end Flurry.Proto.TableG
