import Flurry.Proto.BinN
import Flurry.Lemmas.LinSearch
/-! # Proto/BinN: the model exercised by execution (random schedule explorer) and kernel-checked runs

* `explore`: a seeded random scheduler over `step` / `stepG false` (any number of threads, calls on a
  few keys with different low bits, resizes whenever none is running, the resizing thread's cell order
  at random, optionally a *sleeper*: a designated thread that is frozen as soon as it has a call in
  flight and is only woken when `cur` has reached a given generation — so it holds a pointer into a table
  that is two or three generations old), then a drain to quiescence; every quiescent per-key history is
  decided by the complete procedure `Lin.search` against `absOf`.
* kernel-checked runs (`decide`): see the end of the file. -/
namespace Flurry.Proto.BinN
open Flurry.Lin
open Flurry.Proto.BinX (NodeS Cell Pending isReader dflt chainFrom cellHead cellOfHead)

structure Act where
  t : Nat
  inv : Option (Nat × KOp) := none
  rz : Bool := false
  pick : Nat := 0
deriving Repr, DecidableEq

abbrev Sched := List Act
abbrev StepFn := State → Nat → Option (Nat × KOp) → Bool → Nat → Option State

def act (f : StepFn) (s : State) (a : Act) : Option State := f s a.t a.inv a.rz a.pick

/-- run a schedule (`none` if some step is not enabled) -/
def run (f : StepFn) : State → Sched → Option State
  | s, [] => some s
  | s, a :: rest =>
    match act f s a with
    | none => none
    | some s' => run f s' rest

def quiescentB (s : State) : Bool := s.threads.all (fun l => l.pc == .idle)
def linB (s : State) (k : Nat) : Bool := (search (callsOn s k) none (absOf s k)).isSome

/-! ## the explorer (`#eval` only) -/

def pcTag : Pc → String
  | .idle => "idle" | .rTable => "rTable" | .rCell _ => "rCell" | .rNode _ => "rNode"
  | .wTable => "wTable" | .wCell _ => "wCell" | .wCas _ => "wCas" | .wLock _ _ => "wLock"
  | .wCheck _ _ => "wCheck" | .wFind _ _ _ _ => "wFind" | .wStore _ _ _ _ _ => "wStore"
  | .wUnlock _ _ _ r => if r then "wUnlock.retry" else "wUnlock"
  | .tNext => "tNext" | .tCell _ => "tCell" | .tCasMoved _ => "tCasMoved" | .tLock _ _ => "tLock"
  | .tCheck _ _ => "tCheck" | .tBuild _ _ => "tBuild" | .tStoreLow _ _ _ _ => "tStoreLow"
  | .tStoreHigh _ _ _ => "tStoreHigh" | .tStoreMoved _ _ => "tStoreMoved" | .tUnlock _ _ => "tUnlock"
  | .tCommit => "tCommit"

/-- the generation a program counter works in -/
def genOf : Pc → Option Nat
  | .rCell g | .wCell g | .wCas g | .wLock g _ | .wCheck g _ | .wFind g _ _ _ | .wStore g _ _ _ _
  | .wUnlock g _ _ _ => some g
  | _ => none

abbrev Cov := List (String × Nat)

def Cov.bump (c : Cov) (k : String) : Cov :=
  match c with
  | [] => [(k, 1)]
  | (k', n) :: rest => if k' == k then (k', n + 1) :: rest else (k', n) :: Cov.bump rest k

def rngNext (x : Nat) : Nat := (x * 6364136223846793005 + 1442695040888963407) % 18446744073709551616
def rngPick (x n : Nat) : Nat := (x / 4294967296) % n

/-- coverage events of one executed step `s —a→ s'` -/
def events (s s' : State) (a : Act) (c : Cov) : Cov := Id.run do
  let mut c := c
  let l' := s'.threads.getD a.t {}
  let l := s.threads.getD a.t {}
  c := c.bump ("pc:" ++ pcTag l'.pc)
  -- how far behind the table pointer is the generation the thread works in
  match genOf l.pc with
  | some g =>
    if g + 2 ≤ s.cur then c := c.bump ("stale>=2:" ++ pcTag l.pc)
    else if g + 1 ≤ s.cur then c := c.bump ("stale=1:" ++ pcTag l.pc)
    else if g == s.cur + 1 then c := c.bump ("inNext:" ++ pcTag l.pc)
  | none => pure ()
  match l.pc, l'.pc with
  | .rNode _, _ => if s.cur ≥ 2 && l.call.any (fun p => p.inv < 40) then c := c.bump "oldReaderWalksAfterGen2"
  | .wCheck _ _, .wUnlock _ _ _ true => c := c.bump "recheckFailed"
  | .tCheck _ _, .tCell _ => c := c.bump "transferRecheckFailed"
  | .tBuild _ _, .tStoreLow _ _ lo hg =>
    c := c.bump ("split:" ++ (if lo.isSome then "L" else "-") ++ (if hg.isSome then "H" else "-") ++
      (if s'.heap.length > s.heap.length then s!"+{s'.heap.length - s.heap.length}copies" else ""))
  | .tCommit, _ => c := c.bump s!"commit->{s'.cur}"
  | _, _ => pure ()
  return c

structure Cfg where
  nthreads : Nat := 3
  keys : List Nat := [0, 1, 2, 3]
  steps : Nat := 200
  calls : Nat := 12
  /-- resizes started at most -/
  resizes : Nat := 3
  pResize : Nat := 6
  pCall : Nat := 70
  noCheck : Bool := false
  /-- thread `0` is frozen while it has a call in flight and `cur < wake` (0 = no sleeper) -/
  wake : Nat := 0

def mkOp (r : Nat) (vi : Nat) : KOp :=
  match r % 12 with
  | 0 | 1 | 2 | 3 => .ins (vi % 7) vi
  | 4 | 5 => .rm
  | 6 | 7 => .get
  | 8 => .has
  | 9 => .tryIns (vi % 7) vi
  | 10 => .cipInc vi
  | _ => .get

structure Out where
  cov : Cov
  bad : Option (Sched × Nat)
  runs : Nat
  quiescentRuns : Nat
  maxHist : Nat
  maxGen : Nat

/-- the sleeper is frozen once it has left the `rTable`/`wTable` step behind (it holds a table pointer) -/
def frozen (cfg : Cfg) (s : State) (t : Nat) (sleepAt : Nat) : Bool :=
  cfg.wake > 0 && t == 0 && s.cur < cfg.wake &&
    (let l := s.threads.getD 0 {}
     l.call.isSome && (match l.pc with | .rTable | .wTable => false | _ => true) && sleepAt == 0)

def oneRun (cfg : Cfg) (seed : Nat) (cov : Cov) : Sched × State × Cov := Id.run do
  let f : StepFn := if cfg.noCheck then stepG false else step
  let mut s := init cfg.nthreads
  let mut rng := seed
  let mut sc : Array Act := #[]
  let mut cov := cov
  let mut calls := 0
  let mut rzs := 0
  -- the sleeper takes a random number of steps (0–7) after loading the table pointer before it freezes
  rng := rngNext rng
  let mut extra := rngPick rng 8
  for _ in [0:cfg.steps] do
    rng := rngNext rng
    let t := rngPick rng cfg.nthreads
    rng := rngNext rng
    let l := s.threads.getD t {}
    if frozen cfg s t extra then continue
    let mut a : Act := { t := t }
    if l.pc == .idle then
      let r := rngPick rng 100
      rng := rngNext rng
      if r < cfg.pResize && !s.resizing && rzs < cfg.resizes && !(cfg.wake > 0 && t == 0) then
        a := { t := t, rz := true }
        rzs := rzs + 1
      else if r < cfg.pResize + cfg.pCall && calls < cfg.calls then
        let k := cfg.keys.getD (rngPick rng cfg.keys.length) 0
        rng := rngNext rng
        let op := mkOp (rngPick rng 12) (100 + calls)
        a := { t := t, inv := some (k, op) }
        calls := calls + 1
      else continue
    else
      a := { t := t, pick := rngPick rng 64 }
      if cfg.wake > 0 && t == 0 && l.call.isSome && s.cur < cfg.wake then
        match l.pc with
        | .rTable | .wTable => pure ()
        | _ => if extra > 0 then extra := extra - 1
    match act f s a with
    | none => cov := cov.bump ("blocked:" ++ pcTag l.pc)
    | some s' =>
      cov := events s s' a cov
      sc := sc.push a
      s := s'
  -- drain (the sleeper last, so that the resizes complete first)
  let mut stuck := false
  for _ in [0:600] do
    if quiescentB s then break
    let mut progress := false
    for t' in [0:cfg.nthreads] do
      let t := cfg.nthreads - 1 - t'
      let l := s.threads.getD t {}
      if l.pc != .idle then
        -- the sleeper is only woken when the others cannot go on without it
        if frozen cfg s t 0 && !stuck then continue
        rng := rngNext rng
        let a : Act := { t := t, pick := rngPick rng 64 }
        match act f s a with
        | none => cov := cov.bump ("blocked:" ++ pcTag l.pc)
        | some s' =>
          cov := events s s' a cov
          sc := sc.push a
          s := s'
          progress := true
    stuck := !progress
  return (sc.toList, s, cov)

def explore (cfg : Cfg) (seed0 nruns : Nat) : Out := Id.run do
  let mut cov : Cov := []
  let mut bad : Option (Sched × Nat) := none
  let mut q := 0
  let mut mh := 0
  let mut mg := 0
  for i in [0:nruns] do
    let (sc, s, cov') := oneRun cfg (rngNext (seed0 + 7919 * i)) cov
    cov := cov'
    if s.cur > mg then mg := s.cur
    cov := cov.bump s!"final:cur={s.cur}"
    if quiescentB s then
      q := q + 1
      for k in cfg.keys do
        let h := callsOn s k
        if h.length > mh then mh := h.length
        if !linB s k && bad.isNone then bad := some (sc, k)
    else cov := cov.bump "notDrained"
  return { cov := cov, bad := bad, runs := nruns, quiescentRuns := q, maxHist := mh, maxGen := mg }

def Out.report (o : Out) : String :=
  let lines := (o.cov.toArray.qsort (fun a b => a.1 < b.1)).toList.map fun (k, n) => s!"  {k}: {n}"
  s!"runs {o.runs}, drained to quiescence {o.quiescentRuns}, longest per-key history {o.maxHist}, max generation {o.maxGen}, " ++
  (match o.bad with | none => "ALL LINEARIZABLE" | some (sc, k) => s!"NOT LINEARIZABLE on key {k}: {repr sc}") ++
  "\n" ++ "\n".intercalate lines

/-! ## kernel-checked runs

Four threads: thread 0 performs the calls, thread 1 is the slow reader, thread 2 resizes (twice), thread 3
is the slow writer. `setup` builds the list `[a: key 1, b: key 2, c: key 3]` in cell `(0,0)`.
First resize (split bit 0): last run `[c]` (high) is re-used, `a` is copied to `a'` (high), `b` to `b'`
(low): `(1,0) = [b']`, `(1,1) = [a', c]`. Second resize (split bit 1): `(1,0)` moves as a whole to
`(2,2)`; in `(1,1)` the last run `[c]` is re-used once more (`(2,3) = [c]`) and `a'` is copied to `a''`
(`(2,1) = [a'']`).

* `schedA` — **stale by two generations**: the reader `get(3)` loads the table pointer (generation 0), the
  writer `insert(1)` even loads the old head `a` — then both sleep while BOTH resizes run and commit.
  The writer wakes up, takes the mutex of the dead node `a`, its re-check sees `(0,0) = moved ≠ node a`,
  it unlocks and follows the markers `(0,0) → (1,1) → (2,1)` and updates `a''`; the reader follows
  `(0,0) → (1,1) → (2,3)` and finds `c`.
* `schedANoCheck` — the same without the re-check (`stepG false`): the writer overwrites the dead node `a`
  (dead for two generations); its `insert` returns, but a later `get(1)` still finds the old value: not
  linearizable (`noCheck_refutes`).
* `schedB` — **hindsight across two forwardings**: `get(1)` loads the old head `a` in generation 0 and
  sleeps through both resizes; `insert(1)` updates `a''` and a `get(1)` returns the new value; only then
  the slow reader reads the (frozen) `a` and returns the OLD value. Linearizable all the same. -/

/-- reachability in the variant without the re-checks -/
inductive ReachableNoCheck (nthreads : Nat) : State → Prop
  | init : ReachableNoCheck nthreads (init nthreads)
  | step {s s' : State} (t : Nat) (inv : Option (Nat × KOp)) (rz : Bool) (pick : Nat) :
      ReachableNoCheck nthreads s → stepG false s t inv rz pick = some s' → ReachableNoCheck nthreads s'

theorem run_reachable {n : Nat} : ∀ (sc : Sched) {s s' : State}, Reachable n s → run step s sc = some s' →
    Reachable n s'
  | [], s, s', hr, h => by simp only [run, Option.some.injEq] at h; exact h ▸ hr
  | a :: rest, s, s', hr, h => by
    simp only [run] at h
    cases hs : act step s a with
    | none => rw [hs] at h; cases h
    | some s1 => rw [hs] at h; exact run_reachable rest (.step a.t a.inv a.rz a.pick hr hs) h

theorem run_reachableNoCheck {n : Nat} : ∀ (sc : Sched) {s s' : State}, ReachableNoCheck n s →
    run (stepG false) s sc = some s' → ReachableNoCheck n s'
  | [], s, s', hr, h => by simp only [run, Option.some.injEq] at h; exact h ▸ hr
  | a :: rest, s, s', hr, h => by
    simp only [run] at h
    cases hs : act (stepG false) s a with
    | none => rw [hs] at h; cases h
    | some s1 => rw [hs] at h; exact run_reachableNoCheck rest (.step a.t a.inv a.rz a.pick hr hs) h

/-- quiescent in generation 2?, and per key `0 … 3`: the abstract state and whether the exhaustive
search finds a linearization of the key's history ending in it -/
def verdict (f : StepFn) (n : Nat) (sc : Sched) : Option (Bool × List (KSt × Bool)) :=
  (run f (init n) sc).map fun s => (quiescentB s && s.cur == 2, (List.range 4).map fun k => (absOf s k, linB s k))

theorem quiescent_of_quiescentB {s : State} (h : quiescentB s = true) : quiescent s := by
  intro l hl
  have := List.all_eq_true.1 h l hl
  simpa using this

def rep (t n : Nat) : Sched := List.replicate n { t := t }
def call (t k : Nat) (op : KOp) : Sched := [{ t := t, inv := some (k, op) }]
def rz (t : Nat) : Sched := [{ t := t, rz := true }]
/-- the resizing thread `t` transfers the non-empty cell `j` (9 steps from `tNext` back to `tNext`) -/
def xfer (t j : Nat) : Sched := [{ t := t, pick := j }] ++ rep t 8
/-- `tNext` (all forwarded), `tCommit` -/
def commit (t : Nat) : Sched := rep t 2

/-- thread 0: `insert(1)` (CAS into the empty cell), `insert(2)`, `insert(3)` (appended under the lock) -/
def setup : Sched :=
  call 0 1 (.ins 5 100) ++ rep 0 3 ++ call 0 2 (.ins 6 101) ++ rep 0 8 ++ call 0 3 (.ins 7 102) ++ rep 0 9

/-- thread 2: resize `0 → 1` (one cell), then resize `1 → 2` (two cells) -/
def twoResizes : Sched :=
  rz 2 ++ xfer 2 0 ++ commit 2 ++ rz 2 ++ xfer 2 0 ++ xfer 2 1 ++ commit 2

def schedA : Sched :=
  setup ++ call 1 3 .get ++ rep 1 1 ++ call 3 1 (.ins 8 103) ++ rep 3 2 ++ twoResizes ++
  call 0 1 .get ++ rep 0 3 ++ rep 3 11 ++ rep 1 4 ++ call 0 1 .get ++ rep 0 3

def schedANoCheck : Sched :=
  setup ++ call 1 3 .get ++ rep 1 1 ++ call 3 1 (.ins 8 103) ++ rep 3 2 ++ twoResizes ++
  call 0 1 .get ++ rep 0 3 ++ rep 3 5 ++ rep 1 4 ++ call 0 1 .get ++ rep 0 3

def schedB : Sched :=
  setup ++ call 1 1 .get ++ rep 1 2 ++ twoResizes ++
  call 0 1 (.ins 9 104) ++ rep 0 7 ++ call 0 1 .get ++ rep 0 3 ++ rep 1 1

theorem verdict_A : verdict step 4 schedA =
    some (true, [(none, true), (some (8, 103), true), (some (6, 101), true), (some (7, 102), true)]) := by
  decide

theorem verdict_A_noCheck : verdict (stepG false) 4 schedANoCheck =
    some (true, [(none, true), (some (5, 100), false), (some (6, 101), true), (some (7, 102), true)]) := by
  decide

theorem verdict_B : verdict step 4 schedB =
    some (true, [(none, true), (some (9, 104), true), (some (6, 101), true), (some (7, 102), true)]) := by
  decide

/-- the final cells: generations 0 and 1 are forwarded for ever -/
theorem tabs_A : (run step (init 4) schedA).map (·.tabs) =
    some [[.moved], [.moved, .moved], [.empty, .node 5, .node 4, .node 2]] := by
  decide

set_option maxRecDepth 4096 in
/-- the stale writer (invoked at 26, before the first resize) responds at 76 after both resizes, having
followed two markers; the stale reader (invoked at 24) responds at 80 -/
theorem history_A : (run step (init 4) schedA).map (fun s => (callsOn s 1, callsOn s 3)) =
    some ([⟨0, .ins 5 100, .none, 1, 4⟩, ⟨0, .get, .some 5 100, 62, 65⟩, ⟨3, .ins 8 103, .some 5 100, 26, 76⟩,
           ⟨0, .get, .some 8 103, 81, 84⟩],
          [⟨0, .ins 7 102, .none, 14, 23⟩, ⟨1, .get, .some 7 102, 24, 80⟩]) := by
  decide

/-- without the re-check: `insert(1) = 8` returns at 70 (it overwrote a node that has been dead for two
generations), the later `get(1)` still returns 5 -/
theorem history_A_noCheck : (run (stepG false) (init 4) schedANoCheck).map (fun s => callsOn s 1) =
    some [⟨0, .ins 5 100, .none, 1, 4⟩, ⟨0, .get, .some 5 100, 62, 65⟩, ⟨3, .ins 8 103, .some 5 100, 26, 70⟩,
          ⟨0, .get, .some 5 100, 75, 78⟩] := by
  decide

/-- the slow `get(1)` (invoked at 24, in generation 0) returns the old value at 72, after `get(1) = 9`
returned at 71 in generation 2 -/
theorem history_B : (run step (init 4) schedB).map (fun s => callsOn s 1) =
    some [⟨0, .ins 5 100, .none, 1, 4⟩, ⟨0, .ins 9 104, .some 5 100, 60, 67⟩, ⟨0, .get, .some 9 104, 68, 71⟩,
          ⟨1, .get, .some 5 100, 24, 72⟩] := by
  decide

theorem of_verdict {f : StepFn} {n : Nat} {sc : Sched} {r : List (KSt × Bool)}
    (h : verdict f n sc = some (true, r)) :
    ∃ s, run f (init n) sc = some s ∧ quiescent s ∧ s.cur = 2 ∧
      (List.range 4).map (fun k => (absOf s k, linB s k)) = r := by
  unfold verdict at h
  cases hr : run f (init n) sc with
  | none => rw [hr] at h; cases h
  | some s =>
    rw [hr] at h
    simp only [Option.map_some, Option.some.injEq, Prod.mk.injEq] at h
    have h1 := h.1
    simp only [Bool.and_eq_true, beq_iff_eq] at h1
    exact ⟨s, rfl, quiescent_of_quiescentB h1.1, h1.2, h.2⟩

theorem lin_of_linB {s : State} {k : Nat} (h : linB s k = true) :
    Lin.Linearizable (callsOn s k) none (absOf s k) :=
  search_isSome_iff.1 h

theorem not_lin_of_linB {s : State} {k : Nat} (h : linB s k = false) :
    ¬ Lin.Linearizable (callsOn s k) none (absOf s k) := by
  intro hl
  have := search_isSome_iff.2 hl
  unfold linB at h
  rw [this] at h
  cases h

/-- **the re-check is load-bearing across ANY number of forwardings**: without it, a reachable quiescent
state (after two complete resizes) whose history of key 1 is not linearizable (a completed insert is lost
in a node that died two generations ago) -/
theorem noCheck_not_linearizable :
    ∃ s, ReachableNoCheck 4 s ∧ quiescent s ∧ s.cur = 2 ∧
      ¬ Lin.Linearizable (callsOn s 1) none (absOf s 1) := by
  obtain ⟨s, hr, hq, hc, hv⟩ := of_verdict verdict_A_noCheck
  refine ⟨s, run_reachableNoCheck _ .init hr, hq, hc, not_lin_of_linB ?_⟩
  have h1 : (((List.range 4).map (fun k => (absOf s k, linB s k)))[1]?).map (·.2) = some false := by
    rw [hv]; rfl
  simpa using h1

/-- hence a theorem `binN_linearizable_quiescent` is false for the variant without the re-checks -/
theorem noCheck_refutes :
    ¬ ∀ (n : Nat) (s : State), ReachableNoCheck n s → quiescent s → ∀ k,
      Lin.Linearizable (callsOn s k) none (absOf s k) := by
  intro hall
  obtain ⟨s, hr, hq, -, hn⟩ := noCheck_not_linearizable
  exact hn (hall 4 s hr hq 1)

/-- the stale-by-two-generations run of the checked model is reachable, quiescent, in generation 2, and the
histories of all four keys are linearizable (decided by the complete procedure) -/
theorem stale_two_generations_linearizable :
    ∃ s, run step (init 4) schedA = some s ∧ Reachable 4 s ∧ quiescent s ∧ s.cur = 2 ∧
      ∀ k < 4, Lin.Linearizable (callsOn s k) none (absOf s k) := by
  obtain ⟨s, hr, hq, hc, hv⟩ := of_verdict verdict_A
  refine ⟨s, hr, run_reachable _ .init hr, hq, hc, ?_⟩
  intro k hk
  apply lin_of_linB
  have h1 : ∀ k < 4, (((List.range 4).map (fun k => (absOf s k, linB s k)))[k]?).map (·.2) = some true := by
    rw [hv]; decide
  have := h1 k hk
  simpa [hk] using this

/-- the stale read across two forwardings is reachable, and linearizable -/
theorem stale_read_two_generations_linearizable :
    ∃ s, run step (init 4) schedB = some s ∧ Reachable 4 s ∧ quiescent s ∧ s.cur = 2 ∧
      ∀ k < 4, Lin.Linearizable (callsOn s k) none (absOf s k) := by
  obtain ⟨s, hr, hq, hc, hv⟩ := of_verdict verdict_B
  refine ⟨s, hr, run_reachable _ .init hr, hq, hc, ?_⟩
  intro k hk
  apply lin_of_linB
  have h1 : ∀ k < 4, (((List.range 4).map (fun k => (absOf s k, linB s k)))[k]?).map (·.2) = some true := by
    rw [hv]; decide
  have := h1 k hk
  simpa [hk] using this

/-- a small sample at build time (larger runs: see the report) -/
def sample : Out := explore { nthreads := 3, steps := 250, calls := 12, wake := 2 } 11 200

#eval IO.println (s!"{sample.runs} runs, {sample.quiescentRuns} quiescent, max generation {sample.maxGen}, " ++
  s!"not linearizable: {sample.bad.isSome}, coverage entries: {sample.cov.length}")

end Flurry.Proto.BinN
