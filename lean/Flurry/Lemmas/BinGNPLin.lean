import Flurry.Lemmas.BinGNPStepN
import Flurry.Lemmas.BinGNPInitG
import Flurry.Lemmas.BinGNPInvQB
import Flurry.Lemmas.BinGNPFactsL
import Flurry.Lemmas.BinGNPFactsT1
import Flurry.Lemmas.BinGNPFactsT2
import Flurry.Lemmas.BinGNPFactsK
import Flurry.Lemmas.BinGNPFactsX
import Flurry.Lemmas.BinGNPLinQ
import Flurry.Lemmas.BinGNPPlanSep
import Flurry.Lemmas.BinGNPShape
/-! # Proto/BinGN (port of `Lemmas/BinGLin.lean`): every transition preserves the structural and the
ghost invariant; linearizability

`stepN_eff`: every transition in normal form establishes `Eff` (structural invariant, `KStep` of every
key, frame facts for the lock-protocol readers) — by the per-transition lemmas of
`Lemmas/BinGNPInvQ*.lean` (quiet transitions), `Lemmas/BinGNPFactsL/T1/T2/K.lean` (the stores of list and
tree writers, treeify, untreeify) and `Lemmas/BinGNPFactsX.lean` (the resize). `ginv_step`: every
transition preserves `∃ A pt, GInv k s A pt` — by the class lemmas of `Lemmas/BinGNPLinQ.lean`.
Linearization points: as `Proto/BinK`; the transfer of a cell (`xStoreLow`, `xStoreHigh`, `xStoreMoved`,
`xCasMoved`) and the commit `xCommit` of ANY of the resizes change no abstract state.

Differences from the BinG original: the per-transition lemmas take the generation structure `XShape s'` of
the successor state (from `reachable_xshape`, proved on the model), `eff_move` takes `PubRead s` and the two
child stores take `PlanSep s` (both from `Inv s` and `FreshInv s`, `Lemmas/BinGNPPlanSep.lean`); hence
`stepN_eff`, `step_eff`, `step_inv`, `ginv_step` take `(P : PubRead s) (PS : PlanSep s) (XS' : XShape s')`,
supplied in the inductions `reachable_inv` / `reachable_ginv`. The setters of cells are definitional frames
(`setCell`/`putCell` change `tabs` only), so `setCell_hist/now/threads'` are not needed.
`nocall_abs_invariant_aux` (new): EVERY step of a thread without a call in flight (idle, treeify, every
step of the resizing thread) leaves the abstract state of every key unchanged; `transfer_abs_invariant_aux`
is stated for all steps of the resizing thread and the start of a resize. -/
namespace Flurry.Proto.BinGNP
open Flurry.Lin
open Flurry.Proto.BinK (nodeAt binAt)

/-! ## frames of the successor states -/

theorem storeAt_frame (s : State) (tab : Nat) (p : Pending) (pred hit hnext : Option Nat) :
    (storeAt s tab p pred hit hnext).1.threads = s.threads ∧ (storeAt s tab p pred hit hnext).1.hist = s.hist ∧
      (storeAt s tab p pred hit hnext).1.now = s.now := by
  unfold storeAt
  cases p.op <;> cases hit <;> cases pred <;> exact ⟨rfl, rfl, rfl⟩

theorem unlinkOf_frame (s : State) (b i : Nat) :
    (unlinkOf s b i).threads = s.threads ∧ (unlinkOf s b i).hist = s.hist ∧ (unlinkOf s b i).now = s.now := by
  unfold unlinkOf
  split <;> exact ⟨rfl, rfl, rfl⟩

theorem untreeifyOf_frame (s : State) (tab : Nat) (k b : Nat) :
    (untreeifyOf s tab k b).threads = s.threads ∧ (untreeifyOf s tab k b).hist = s.hist ∧
      (untreeifyOf s tab k b).now = s.now := ⟨rfl, rfl, rfl⟩

theorem ysplitOf_frame (s : State) (b : Nat) (small small2 : Bool) :
    (ysplitOf s b small small2).1.threads = s.threads ∧ (ysplitOf s b small small2).1.hist = s.hist ∧
      (ysplitOf s b small small2).1.now = s.now := by
  unfold ysplitOf
  dsimp only
  have f1 := splitSide_frame s b (lowOf s b) small (highOf s b).isEmpty
  have f2 := splitSide_frame (splitSide s b (lowOf s b) small (highOf s b).isEmpty).1 b (highOf s b) small2
    (lowOf s b).isEmpty
  have f := frame_trans f1 f2
  rw [f]
  exact ⟨rfl, rfl, rfl⟩

/-! ## the structural invariant -/

/-- **every transition establishes `Eff`** -/
theorem stepN_eff {s s' : State} {t : Nat} {l : Local} (I : Inv s) (P : PubRead s) (PS : PlanSep s)
    (hl : s.threads[t]? = some l) (hs : StepN s t l s') (XS' : XShape s') : Eff s s' := by
  cases hs with
  | idle hpc => exact (eff_idle I hl hpc XS').1
  | maint k hpc => exact (eff_maint I hl k hpc XS').1
  | resizeStart hpc hr => exact (eff_resizeStart I hl hpc hr XS').1
  | invoke k op lo hpc => exact (eff_invoke I hl k op lo hpc XS').1
  | move p pc' hp hpc hm => exact (eff_move I P hl hpc hm XS').1
  | bmove p pc' tb hpc hm => exact (eff_bmove I hl hpc hm XS').1
  | kmove pc' hp hc hm => exact (eff_kmove I hl hc hm XS').1
  | kbmove pc' tb hc hm => exact (eff_kbmove I hl hc hm XS').1
  | fin p res hp hpc hf => exact (eff_fin I hl hpc hf XS').1
  | bfin p res tb hpc hf => exact (eff_bfin I hl hpc hf XS').1
  | cas p tab v vi hp hpc he hop => exact (cas_facts I hl hp hpc he hop XS').1
  | store p tab h pred hit hnext hp hpc => exact (store_facts I hl hp hpc XS').1
  | tval p tab b i v res hp hpc => exact (tval_facts I hl hp hpc XS').1
  | prepend p tab b v vi hp hpc hop => exact (prepend_facts I hl hp hpc hop XS').1
  | treeLink p tab b x hp hpc => exact (treeLink_facts I hl hp hpc XS').1
  | unlink p tab b i res small hp hpc => exact (unlink_facts small I hl hp hpc XS').1
  | untree p tab b i res hp hpc => exact (untree_facts I hl hp hpc XS').1
  | untreeify p tab b res hp hpc => exact (untreeify_facts I hl hp hpc XS').1
  | kbuild tab k h hc hpc => exact (kbuild_facts I hl hc hpc XS').1
  | kstore tab k h b hc hpc => exact (kstore_facts I hl hc hpc XS').1
  | xcasMoved j hc hpc h0 => exact (xcasMoved_facts I hl hc hpc h0 XS').1
  | xbuild j h hc hpc => exact (xbuild_facts I hl hc hpc XS').1
  | ybuild j b small small2 hc hpc => exact (ybuild_facts small small2 I hl hc hpc XS').1
  | xstoreLow j unl lo hi hc hpc => exact (xstoreLow_facts I hl hc hpc PS XS').1
  | xstoreHigh j unl hi hc hpc => exact (xstoreHigh_facts I hl hc hpc PS XS').1
  | xstoreMoved j unl hc hpc => exact (xstoreMoved_facts I hl hc hpc XS').1
  | xcommit hc hpc => exact (eff_xcommit I hl hc hpc XS').1

theorem step_eff {s s' : State} {t : Nat} {inv : Option (Nat × KOp)} {lo : Bool} {mt : Option Nat}
    {rz sm sm2 : Bool} {pick : Nat} (I : Inv s) (P : PubRead s) (PS : PlanSep s)
    (hs : step s t inv lo mt rz sm sm2 pick = some s') (XS' : XShape s') : Eff s s' := by
  cases hl : s.threads[t]? with
  | none => unfold step stepG at hs; rw [hl] at hs; cases hs
  | some l => exact stepN_eff I P PS hl (step_stepN hl hs) XS'

theorem step_inv {s s' : State} {t : Nat} {inv : Option (Nat × KOp)} {lo : Bool} {mt : Option Nat}
    {rz sm sm2 : Bool} {pick : Nat} (I : Inv s) (P : PubRead s) (PS : PlanSep s)
    (hs : step s t inv lo mt rz sm sm2 pick = some s') (XS' : XShape s') : Inv s' :=
  (step_eff I P PS hs XS').inv

theorem reachable_inv {n : Nat} {s : State} (hr : Reachable n s) : Inv s := by
  induction hr with
  | init => exact init_inv n
  | step t inv lo mt rz sm sm2 pick hr hs ih =>
    have F := Flurry.Proto.BinGN.reachable_freshInv hr
    exact step_inv ih (pubRead_of ih F) (planSep_of ih F) hs
      (reachable_xshape (Flurry.Proto.BinGN.Reachable.step t inv lo mt rz sm sm2 pick hr hs))

/-! ## the ghost invariant -/

/-- **every transition preserves the ghost invariant** -/
theorem ginv_step {k : Nat} {s s' : State} {A : Nat → KSt} {pt : Nat → Nat} {t : Nat} {l : Local}
    (g : GInv k s A pt) (I : Inv s) (P : PubRead s) (PS : PlanSep s) (hl : s.threads[t]? = some l)
    (hstep : StepN s t l s') (XS' : XShape s') :
    ∃ A' pt', GInv k s' A' pt' := by
  cases hstep with
  | idle hpc =>
    obtain ⟨E, habs⟩ := eff_idle I hl hpc XS'
    exact ginv_idle g I E hl hpc rfl rfl rfl habs
  | maint k0 hpc =>
    obtain ⟨E, habs⟩ := eff_maint I hl k0 hpc XS'
    exact ginv_maint (pc' := .kTable k0) g I E hl hpc rfl rfl rfl habs
  | resizeStart hpc hr =>
    obtain ⟨E, habs⟩ := eff_resizeStart I hl hpc hr XS'
    exact ginv_maint (pc' := .xNext) g I E hl hpc rfl rfl rfl habs
  | invoke k0 op lo hpc =>
    obtain ⟨E, habs⟩ := eff_invoke I hl k0 op lo hpc XS'
    exact ginv_invoke g I E hl hpc rfl rfl rfl habs
  | move p pc' hp hpc hm =>
    obtain ⟨E, habs⟩ := eff_move I P hl hpc hm XS'
    exact ginv_move g I E hl hpc hm rfl rfl rfl habs
  | bmove p pc' tb hpc hm =>
    obtain ⟨E, habs⟩ := eff_bmove I hl hpc hm XS'
    exact ginv_bmove g I E hl hpc hm rfl rfl rfl habs
  | kmove pc' hp hc hm =>
    obtain ⟨E, habs⟩ := eff_kmove I hl hc hm XS'
    exact ginv_kmove g I E hl hc hm rfl rfl rfl habs
  | kbmove pc' tb hc hm =>
    obtain ⟨E, habs⟩ := eff_kbmove I hl hc hm XS'
    exact ginv_kbmove g I E hl hc hm rfl rfl rfl habs
  | fin p res hp hpc hf =>
    obtain ⟨E, habs⟩ := eff_fin I hl hpc hf XS'
    exact ginv_fin g I E hl hpc hf rfl rfl rfl habs
  | bfin p res tb hpc hf =>
    obtain ⟨E, habs⟩ := eff_bfin I hl hpc hf XS'
    exact ginv_bfin g I E hl hpc hf rfl rfl rfl habs
  | cas p tab v vi hp hpc he hop =>
    obtain ⟨E, hspec, hother⟩ := cas_facts I hl hp hpc he hop XS'
    exact ginv_cas g I E hl hp (by rw [hpc]; rfl) (by rw [hpc]; rfl) (by rw [hpc]; rfl) rfl rfl rfl hspec hother
  | store p tab h pred hit hnext hp hpc =>
    obtain ⟨E, hspec, hother⟩ := store_facts I hl hp hpc XS'
    obtain ⟨f1, f2, f3⟩ := storeAt_frame (tick s) tab p pred hit hnext
    refine ginv_point (l' := { l with pc := .wUnlock tab h (storeAt (tick s) tab p pred hit hnext).2 false })
      g I E hl hp (by rw [hpc]; rfl) rfl rfl rfl (by rw [hpc]; rfl) (by rw [hpc]; rfl) ?_ ?_ ?_ hspec hother
    · show (storeAt (tick s) tab p pred hit hnext).1.threads.set t _ = _
      rw [f1]; rfl
    · show (storeAt (tick s) tab p pred hit hnext).1.now = _
      rw [f3]; rfl
    · show (storeAt (tick s) tab p pred hit hnext).1.hist = _
      rw [f2]; rfl
  | tval p tab b i v res hp hpc =>
    obtain ⟨E, hspec, hother⟩ := tval_facts I hl hp hpc XS'
    exact ginv_point (l' := { l with pc := .tUnlockM tab b res false }) g I E hl hp (by rw [hpc]; rfl) rfl rfl rfl
      (by rw [hpc]; rfl) (by rw [hpc]; rfl) rfl rfl rfl hspec hother
  | prepend p tab b v vi hp hpc hop =>
    obtain ⟨E, hspec, hother⟩ := prepend_facts I hl hp hpc hop XS'
    exact ginv_point (l' := { l with pc := .tTreeLinkLocked tab b s.heap.length }) g I E hl hp (by rw [hpc]; rfl) rfl
      rfl rfl (by rw [hpc]; rfl) (by rw [hpc]; rfl) rfl rfl rfl hspec hother
  | treeLink p tab b x hp hpc =>
    obtain ⟨E, habs⟩ := treeLink_facts I hl hp hpc XS'
    exact ginv_silent (l' := { l with pc := .tUnlockRoot tab b .none }) g I E hl rfl (by rw [hpc]; rfl) rfl rfl rfl rfl
      habs
  | unlink p tab b i res small hp hpc =>
    obtain ⟨E, hspec, hother⟩ := unlink_facts small I hl hp hpc XS'
    obtain ⟨f1, f2, f3⟩ := unlinkOf_frame (tick s) b i
    refine ginv_point (res := res)
      (l' := { l with pc := if small then .tUntreeify tab b res else .tRestructure tab b i res })
      g I E hl hp (by rw [hpc]; rfl) (by cases small <;> rfl) rfl (by cases small <;> rfl) (by rw [hpc]; rfl)
      (by rw [hpc]; rfl) ?_ ?_ ?_ hspec hother
    · show (unlinkOf (tick s) b i).threads.set t _ = _
      rw [f1]; rfl
    · show (unlinkOf (tick s) b i).now = _
      rw [f3]; rfl
    · show (unlinkOf (tick s) b i).hist = _
      rw [f2]; rfl
  | untree p tab b i res hp hpc =>
    obtain ⟨E, habs⟩ := untree_facts I hl hp hpc XS'
    exact ginv_silent (l' := { l with pc := .tUnlockRoot tab b res }) g I E hl rfl (by rw [hpc]; rfl) rfl rfl rfl rfl
      habs
  | untreeify p tab b res hp hpc =>
    obtain ⟨E, habs⟩ := untreeify_facts I hl hp hpc XS'
    exact ginv_silent (l' := { l with pc := .tUnlockM tab b res false }) g I E hl rfl (by rw [hpc]; rfl) rfl rfl rfl rfl
      habs
  | kbuild tab k0 h hc hpc =>
    obtain ⟨E, habs⟩ := kbuild_facts I hl hc hpc XS'
    exact ginv_nocall (l' := { l with pc := .kStore tab k0 h s.tbins.length }) g I E hl hc hc rfl rfl rfl habs
  | kstore tab k0 h b hc hpc =>
    obtain ⟨E, habs⟩ := kstore_facts I hl hc hpc XS'
    exact ginv_nocall (l' := { l with pc := .kUnlock h }) g I E hl hc hc rfl rfl rfl habs
  | xcasMoved j hc hpc h0 =>
    obtain ⟨E, habs⟩ := xcasMoved_facts I hl hc hpc h0 XS'
    exact ginv_nocall (l' := { l with pc := .xNext }) g I E hl hc hc rfl rfl rfl habs
  | xbuild j h hc hpc =>
    obtain ⟨E, habs⟩ := xbuild_facts I hl hc hpc XS'
    exact ginv_nocall (l' := { l with pc := .xStoreLow j (.inl h) (xsplitOf s h).2.1 (xsplitOf s h).2.2 }) g I E hl hc hc
      rfl rfl rfl habs
  | ybuild j b small small2 hc hpc =>
    obtain ⟨E, habs⟩ := ybuild_facts small small2 I hl hc hpc XS'
    obtain ⟨f1, f2, f3⟩ := ysplitOf_frame (tick s) b small small2
    refine ginv_nocall
      (l' := { l with pc := .xStoreLow j (.inr b) (ysplitOf (tick s) b small small2).2.1 (ysplitOf (tick s) b small small2).2.2 })
      g I E hl hc hc ?_ ?_ ?_ habs
    · show (ysplitOf (tick s) b small small2).1.threads.set t _ = _
      rw [f1]; rfl
    · show (ysplitOf (tick s) b small small2).1.now = _
      rw [f3]; rfl
    · show (ysplitOf (tick s) b small small2).1.hist = _
      rw [f2]; rfl
  | xstoreLow j unl lo hi hc hpc =>
    obtain ⟨E, habs⟩ := xstoreLow_facts I hl hc hpc PS XS'
    exact ginv_nocall (l' := { l with pc := .xStoreHigh j unl hi }) g I E hl hc hc rfl rfl rfl habs
  | xstoreHigh j unl hi hc hpc =>
    obtain ⟨E, habs⟩ := xstoreHigh_facts I hl hc hpc PS XS'
    exact ginv_nocall (l' := { l with pc := .xStoreMoved j unl }) g I E hl hc hc rfl rfl rfl habs
  | xstoreMoved j unl hc hpc =>
    obtain ⟨E, habs⟩ := xstoreMoved_facts I hl hc hpc XS'
    exact ginv_nocall (l' := { l with pc := .xUnlock unl }) g I E hl hc hc rfl rfl rfl habs
  | xcommit hc hpc =>
    obtain ⟨E, habs⟩ := eff_xcommit I hl hc hpc XS'
    exact ginv_nocall (l' := { l with pc := .idle }) g I E hl hc hc rfl rfl rfl habs

/-- the ghost invariant holds in every reachable state -/
theorem reachable_ginv {n : Nat} {s : State} (hr : Reachable n s) (k : Nat) :
    ∃ A pt, GInv k s A pt := by
  induction hr with
  | init => exact ⟨_, _, init_ginv n k⟩
  | @step s s' t inv lo mt rz sm sm2 pick hr hs ih =>
    obtain ⟨A, pt, g⟩ := ih
    have I := reachable_inv hr
    have F := Flurry.Proto.BinGN.reachable_freshInv hr
    cases hl : s.threads[t]? with
    | none => unfold step stepG at hs; rw [hl] at hs; cases hs
    | some l =>
      exact ginv_step g I (pubRead_of I F) (planSep_of I F) hl (step_stepN hl hs)
        (reachable_xshape (Flurry.Proto.BinGN.Reachable.step t inv lo mt rz sm sm2 pick hr hs))

/-! ## linearizability -/

/-- **linearizability of the extended per-key history** (completed calls plus writers past their
linearization point), ending in the abstract state of the live structure of the key — in every reachable
state, after any number of resizes -/
theorem binGN_linearizable_ext {n : Nat} {s : State} (hr : Reachable n s) (k : Nat) :
    Lin.Linearizable (callsOnExt s k) none (absOf s k) := by
  obtain ⟨A, pt, g⟩ := reachable_ginv hr k
  exact g.linearizable (reachable_inv hr).thr

/-- quiescent form -/
theorem binGN_linearizable_quiescent_aux {n : Nat} {s : State} (hr : Reachable n s) (hq : quiescent s) (k : Nat) :
    Lin.Linearizable (callsOn s k) none (absOf s k) := by
  have := binGN_linearizable_ext hr k
  rw [callsOnExt_quiescent hq] at this
  exact this

/-- every step of a thread that has no call in flight (an idle thread — including the start of a resize and
of a treeify —, a treeifying thread, the resizing thread) leaves the abstract state of every key unchanged -/
theorem nocall_abs_invariant_aux {n : Nat} {s s' : State} (hr : Reachable n s) {t : Nat}
    {inv : Option (Nat × KOp)} {lo : Bool} {mt : Option Nat} {rz sm sm2 : Bool} {pick : Nat} {l : Local}
    (hl : s.threads[t]? = some l) (hc : l.call = none)
    (hs : step s t inv lo mt rz sm sm2 pick = some s') (k : Nat) : absOf s' k = absOf s k := by
  have I := reachable_inv hr
  have F := Flurry.Proto.BinGN.reachable_freshInv hr
  have PS := planSep_of I F
  have XS' : XShape s' := reachable_xshape (Flurry.Proto.BinGN.Reachable.step t inv lo mt rz sm sm2 pick hr hs)
  have hN := step_stepN hl hs
  cases hN with
  | idle hpc => exact (eff_idle I hl hpc XS').2 k
  | maint k0 hpc => exact (eff_maint I hl k0 hpc XS').2 k
  | resizeStart hpc hr0 => exact (eff_resizeStart I hl hpc hr0 XS').2 k
  | invoke k0 op lo0 hpc => exact (eff_invoke I hl k0 op lo0 hpc XS').2 k
  | kmove pc' hp hc' hm => exact (eff_kmove I hl hc' hm XS').2 k
  | kbmove pc' tb hc' hm => exact (eff_kbmove I hl hc' hm XS').2 k
  | kbuild tab k0 h0 hc' hpc => exact (kbuild_facts I hl hc' hpc XS').2 k
  | kstore tab k0 h0 b hc' hpc => exact (kstore_facts I hl hc' hpc XS').2 k
  | xcasMoved j hc' hpc h0 => exact (xcasMoved_facts I hl hc' hpc h0 XS').2 k
  | xbuild j h0 hc' hpc => exact (xbuild_facts I hl hc' hpc XS').2 k
  | ybuild j b small small2 hc' hpc => exact (ybuild_facts small small2 I hl hc' hpc XS').2 k
  | xstoreLow j unl lo hi hc' hpc => exact (xstoreLow_facts I hl hc' hpc PS XS').2 k
  | xstoreHigh j unl hi hc' hpc => exact (xstoreHigh_facts I hl hc' hpc PS XS').2 k
  | xstoreMoved j unl hc' hpc => exact (xstoreMoved_facts I hl hc' hpc XS').2 k
  | xcommit hc' hpc => exact (eff_xcommit I hl hc' hpc XS').2 k
  | move p pc' hp hpc' hm => rw [hc] at hpc'; cases hpc'
  | bmove p pc' tb hpc' hm => rw [hc] at hpc'; cases hpc'
  | fin p res hp hpc' hf => rw [hc] at hpc'; cases hpc'
  | bfin p res tb hpc' hf => rw [hc] at hpc'; cases hpc'
  | cas p tab v vi hp _ _ _ => rw [hc] at hp; cases hp
  | store p tab h0 pred hit hnext hp _ => rw [hc] at hp; cases hp
  | tval p tab b i v res hp _ => rw [hc] at hp; cases hp
  | prepend p tab b v vi hp _ _ => rw [hc] at hp; cases hp
  | treeLink p tab b x hp _ => rw [hc] at hp; cases hp
  | unlink p tab b i res small hp _ => rw [hc] at hp; cases hp
  | untree p tab b i res hp _ => rw [hc] at hp; cases hp
  | untreeify p tab b res hp _ => rw [hc] at hp; cases hp

/-- EVERY step of the resizing thread — the start of a resize, the walk over the cells, the locking of the
bin, the split, the three stores of a transfer (low, high, forwarding marker), the CAS of the marker into an
empty cell, the unlock, the commit `cur := cur + 1` — leaves the abstract state of every key unchanged -/
theorem transfer_abs_invariant_aux {n : Nat} {s s' : State} (hr : Reachable n s) {t : Nat}
    {inv : Option (Nat × KOp)} {lo : Bool} {mt : Option Nat} {rz sm sm2 : Bool} {pick : Nat} {l : Local}
    (hl : s.threads[t]? = some l)
    (hpc : xPc l.pc = true ∨ (l.pc = .idle ∧ rz = true ∧ s.resizing = false))
    (hs : step s t inv lo mt rz sm sm2 pick = some s') (k : Nat) : absOf s' k = absOf s k := by
  have I := reachable_inv hr
  have hc : l.call = none := by
    apply (I.thr.callOK t l hl).2
    rcases hpc with h | ⟨h, _, _⟩
    · unfold noCallPc; rw [h]; simp
    · rw [h]; rfl
  exact nocall_abs_invariant_aux hr hl hc hs k

/-- at quiescence every `TreeBin` that is in a cell is unlocked and its tree holds exactly the nodes
of its list -/
theorem quiescent_tree_eq_list_aux {n : Nat} {s : State} (hr : Reachable n s) (hq : quiescent s) {id : Cid} {b : Nat}
    (hc : cellAt s id = .tree b) :
    (binAt s.tbins b).mutex = none ∧ (binAt s.tbins b).writer = false ∧
    ∀ i, i < s.heap.length → ((nodeAt s.heap i).owner = some b ∧ (nodeAt s.heap i).inTree = true ↔
      i ∈ chainOfBin s b) := by
  have I := reachable_inv hr
  have hm : (binAt s.tbins b).mutex = none := by
    cases hmx : (binAt s.tbins b).mutex with
    | none => rfl
    | some x =>
      exfalso
      have hx := I.lock.mxValid b x hmx
      have hlx : s.threads[x]? = some s.threads[x] := List.getElem?_eq_getElem hx
      have := (I.lock.mx x _ b hlx).2 hmx
      rw [hq _ (List.getElem_mem hx)] at this
      cases this
  have hw := (I.lock.bitsNone id b hc hm).1
  obtain ⟨hsub, hsup⟩ := I.tree_eq_chain hc hw
  refine ⟨hm, hw, ?_⟩
  intro i hi
  constructor
  · rintro ⟨ho, hin⟩; exact hsub i hi ho hin
  · intro hmem
    have hmem' : i ∈ chainC s (cellAt s id) := by rw [hc]; exact hmem
    have ho := I.heap.chainOwner id i hmem'
    rw [hc] at ho
    exact ⟨ho, hsup i hmem⟩

end Flurry.Proto.BinGNP
