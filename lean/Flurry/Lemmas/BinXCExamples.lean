import Flurry.Props.C01BinXC
import Flurry.Lemmas.LinSearch
/-! # Proto/BinXC: the original `clear` breaks C03 and linearizability (finding F7)

Three threads: thread 0 performs the calls, thread 1 clears, thread 2 transfers the bin. Both
schedules first build the list `[a: key 1, b: key 0]` (its last run `[b]` is re-used as the new low
list, `a` is copied to the new high list), and run the original `clear` (`stepNoWait`: it enters the
next table without waiting for the commit — here as soon as the resize is running).

* `schedRetire` — **a retired node that is still reachable**: the transfer has stored the new low list
  (`lowCell = node b`) but not yet the forwarding marker; `clear` goes to the new table, locks `b`,
  empties the low cell and retires `b` — which is still on the old list, the list every operation
  that starts now walks.
* `schedLost` — **a `clear` that clears nothing**: the transfer has split the list but stored nothing
  yet; `clear` goes to the new table, finds both cells empty and returns; the transfer then installs
  the lists. `insert(0)` completed before the `clear` was invoked, and a `get(0)` invoked after the
  `clear` returned still finds the key: not linearizable.

With the repaired `clear` (`step`) neither can happen: `retired_unreachable`,
`binxc_linearizable_quiescent`. -/
namespace Flurry.Proto.BinXC
open Flurry.Lin

abbrev Sched := List (Nat × Option (Nat × KOp) × Bool × Bool)

/-- run a schedule (`none` if some step is not enabled) -/
def run (f : State → Nat → Option (Nat × KOp) → Bool → Bool → Option State) : State → Sched → Option State
  | s, [] => some s
  | s, (t, inv, rz, cl) :: rest =>
    match f s t inv rz cl with
    | none => none
    | some s' => run f s' rest

theorem run_reachableNoWait {n : Nat} : ∀ (sc : Sched) {s s' : State}, ReachableNoWait n s →
    run stepNoWait s sc = some s' → ReachableNoWait n s'
  | [], s, s', hr, h => by simp only [run, Option.some.injEq] at h; exact h ▸ hr
  | (t, inv, rz, cl) :: rest, s, s', hr, h => by
    simp only [run] at h
    cases hs : stepNoWait s t inv rz cl with
    | none => rw [hs] at h; cases h
    | some s1 => rw [hs] at h; exact run_reachableNoWait rest (.step t inv rz cl hr hs) h

/-- executable form of `retiredUnreachable` -/
def retiredUnreachableB (s : State) : Bool := s.retired.all fun i => !(reachableNow s).contains i

theorem retiredUnreachableB_iff (s : State) : retiredUnreachableB s = true ↔ retiredUnreachable s := by
  unfold retiredUnreachableB retiredUnreachable
  simp [List.all_eq_true]

/-- `n` further steps of thread `t` -/
def rep (t n : Nat) : Sched := List.replicate n (t, none, false, false)

/-- thread 0: `insert(1)` (CAS into the empty bin), `insert(0)` (appended under the lock) -/
def setup : Sched :=
  [(0, some (1, .ins 5 100), false, false)] ++ rep 0 3 ++ [(0, some (0, .ins 6 101), false, false)] ++ rep 0 8

/-- thread 2 starts the resize, locks, splits and stores the low list; thread 1 clears: table, on to
the new table, low cell, lock, check, store -/
def schedRetire : Sched :=
  setup ++ [(2, none, true, false)] ++ rep 2 5 ++ [(1, none, false, true)] ++ rep 1 6

/-- thread 2 starts the resize, locks and splits; thread 1 clears (both new cells still empty) and
returns; thread 2 completes the transfer; thread 0: `get(0)` -/
def schedLost : Sched :=
  setup ++ [(2, none, true, false)] ++ rep 2 4 ++ [(1, none, false, true)] ++ rep 1 5 ++ rep 2 5 ++
  [(0, some (0, .get), false, false)] ++ rep 0 3

/-- the state after `schedRetire`: node 1 (`b`) is retired and on the chain of the old cell -/
theorem retire_state :
    (run stepNoWait (init 3) schedRetire).map (fun s => (s.retired, reachableNow s, s.cell0, s.lowCell, retiredUnreachableB s)) =
      some ([1], [0, 1], .node 0, .empty, false) := by
  decide

/-- **F7, reclamation**: with the original `clear` a retired node can be reachable -/
theorem noWait_retires_reachable : ∃ s, ReachableNoWait 3 s ∧ ¬ retiredUnreachable s := by
  cases hr : run stepNoWait (init 3) schedRetire with
  | none => have := retire_state; rw [hr] at this; cases this
  | some s =>
    refine ⟨s, run_reachableNoWait _ .init hr, ?_⟩
    have := retire_state
    rw [hr] at this
    simp only [Option.map_some, Option.some.injEq, Prod.mk.injEq] at this
    intro h
    have hb := (retiredUnreachableB_iff s).2 h
    rw [this.2.2.2.2] at hb
    cases hb

/-- the history of key 0 after `schedLost`: `insert(0)`, then `clear`, then `get(0) = 6` -/
theorem lost_history :
    (run stepNoWait (init 3) schedLost).map (fun s => (callsOn s 0, absOf s 0, s.cur,
      s.threads.all (fun l => l.pc == .idle), (search (callsOn s 0) none (absOf s 0)).isSome)) =
      some ([⟨0, .ins 6 101, .none, 5, 13⟩, ⟨1, .cipRm, .none, 19, 24⟩, ⟨0, .get, .some 6 101, 30, 33⟩],
        some (6, 101), .new, true, false) := by
  decide

/-- **F7, linearizability**: with the original `clear`, a reachable quiescent state (after a complete
resize) whose history of key 0 is not linearizable: a `clear` between a completed `insert` and a `get`
that still finds the key -/
theorem noWait_not_linearizable :
    ∃ s k, ReachableNoWait 3 s ∧ quiescent s ∧ ¬ Lin.Linearizable (callsOn s k) none (absOf s k) := by
  cases hr : run stepNoWait (init 3) schedLost with
  | none => have := lost_history; rw [hr] at this; cases this
  | some s =>
    have := lost_history
    rw [hr] at this
    simp only [Option.map_some, Option.some.injEq, Prod.mk.injEq] at this
    obtain ⟨-, -, -, hq, hs⟩ := this
    refine ⟨s, 0, run_reachableNoWait _ .init hr, ?_, search_eq_none_iff.1 ?_⟩
    · intro l hl
      have := List.all_eq_true.1 hq l hl
      simpa using this
    · cases h : search (callsOn s 0) none (absOf s 0) with
      | none => rfl
      | some o => rw [h] at hs; cases hs

/-- hence neither theorem of `Props/C01BinXC.lean` holds for the original code -/
theorem noWait_refutes :
    (¬ ∀ (n : Nat) (s : State), ReachableNoWait n s → retiredUnreachable s) ∧
    (¬ ∀ (n : Nat) (s : State), ReachableNoWait n s → quiescent s → ∀ k,
      Lin.Linearizable (callsOn s k) none (absOf s k)) := by
  refine ⟨?_, ?_⟩
  · intro hall
    obtain ⟨s, hr, hn⟩ := noWait_retires_reachable
    exact hn (hall 3 s hr)
  · intro hall
    obtain ⟨s, k, hr, hq, hn⟩ := noWait_not_linearizable
    exact hn (hall 3 s hr hq k)

end Flurry.Proto.BinXC
